/* C10 — multistream and projection = per-stream coding + the channel mapping.
 *
 * Three parts, one binary (--mode):
 *
 *  layouts  (E3, small-scope exhaustive): every (channels<=CH, streams<=SMAX, coupled in -1..S+1) with EVERY mapping table over
 *           {0..S+C-1, S+C (first illegal index), 255}, plus boundary layouts (255 channels, 255 mono streams, S+C=255, S+C=256,
 *           channels 0/256).  Oracle (statement): decoder creation succeeds iff the layout is valid (1<=channels<=255, S>=1,
 *           0<=C<=S, S+C<=255, every index < S+C or 255); encoder creation additionally needs S+C<=channels and every stream
 *           (both sides of a coupled one) fed by some channel.  For every accepted layout multistream packets are assembled by the
 *           harness's own RFC writer (mc/rfc_framing.h: self-delimited framing for all but the last stream) from sub-packets made by
 *           the FROZEN encoder (mc/corpus.h), decoded with the 16-bit, 24-bit and float entry points, and every output channel is
 *           compared bit for bit with a stand-alone OpusDecoder fed the plain sub-packet of the mapped stream (left/right/mono);
 *           channels mapped to 255 must be exact zeros; sample counts equal.  For encoder-accepted layouts two frames are encoded
 *           with the tree's multistream encoder; the packet must split (RFC model) into S sub-packets of equal duration and decode
 *           with the same routing.
 *  families (E3): creators {surround, projection} x mapping family {0,1,2,3,255, illegal 4/254/-1/256} x channels 0..256 x 5 rates.
 *           Acceptance per RFC 7845 (family 0: 1-2, family 1: 1-8, family 255: 1-255; text transcribed from
 *           doc/draft-ietf-codec-oggopus.xml, see F1_SPK) and per the statement for families 2/3 ((n+1)^2 [+2]); the returned layout
 *           must be a valid, loss-free channel mapping (indices < S+C, no 255, no duplicates, S+C<=channels), family 0 exactly as the
 *           RFC gives it, families 2/3 streams+coupled==channels, family 2 non-diegetic pair = last two channels on one coupled stream.
 *           3 frames at every frame size of the item's set are encoded; each packet must split into `streams` sub-packets of equal
 *           duration == the frame fed, and the multistream decoder built from the returned layout must agree bit for bit with
 *           stand-alone decoders.  At 48 kHz a high-rate tone round trip checks that output channel c carries input channel c.
 *  matrices (E3): the five built-in ambisonics orders: D*M in exact integer arithmetic (D from OPUS_PROJECTION_GET_DEMIXING_MATRIX
 *           and from the tables, M from the tables) == identity / gain within EPS; projection float round trip returns each input
 *           channel on itself (projection coefficient matrix ~ identity after the stated gain); projection decoder output ==
 *           D x stand-alone decodes.
 *
 * Numeric thresholds (G1; calibrated on the unchanged tree over the whole explored space, see CALIBRATION below).
 */
#include <stdlib.h>
#include <string.h>
#include <math.h>
#include "opus.h"
#include "opus_multistream.h"
#include "opus_projection.h"
#include "mc.h"
#include "rfc_framing.h"
#include "signals.h"
#include "ref_api.h"
#include "corpus.h"
#include "arch.h"
#include "mapping_matrix.h"

/* CALIBRATION (unchanged tree, prod-asan, all five orders / all round-trip items of the thorough tier):
 *   max |g*(D*M)_ii/2^30 - 1| = 2.1e-4 (fifthoa), max |g*(D*M)_ij/2^30| = 1.13e-4 (soa)         -> EPS_DIAG 5e-4, EPS_OFF 2.5e-4 (>2x)
 *   tone round trip (see rt_*): values recorded by --calib 1 runs, thresholds below are >=2x the worst observed deviation. */
#define EPS_DIAG 5e-4
#define EPS_OFF  2.5e-4
static double RT_DIAG_TOL = 0.03;   /* |g*a_cc - 1| */
static double RT_OFF_TOL  = 0.03;   /* |g*a_cj|, j != c */
static double PD_TOL      = 3e-6;   /* projection decoder vs D x stand-alone, relative to sum of |terms| */

static const int RATES[5]={8000,12000,16000,24000,48000};
static mc_ctr *c_states,*c_trans,*c_eval,*c_dn,*c_lay,*c_dacc,*c_eacc,*c_dec,*c_enc,*c_cmp,*c_create,*c_rt;
static mc_set *lay_set,*obs_set;
static int calib;
static double *cal; /* shared: [0] max diag dev, [1] max off, [2] max pd */
static void cal_max(int k,double v){ /* racy max is fine for a calibration print-out: monotone retry */ int i; for(i=0;i<100;i++){ double o=cal[k]; if(v<=o) return; cal[k]=v; if(cal[k]>=v) return; } }

/* ------------------------------------------------------------------ packet helpers (RFC model / writer only) */
static int pkt_dur48(const unsigned char *p,int len){ rfc_pkt m; rfc_parse(p,len,0,&m); return m.ok? m.count*rfc_frame_48k(m.toc):-1; }
/* re-frame a well-formed packet (framing `from_sd`) into the other framing with the harness's writer; returns length or -1 */
static int reframe(const unsigned char *p,int len,int from_sd,unsigned char *o,rfc_pkt *pm){
   rfc_pkt m; const unsigned char *fr[48]; int sz[48],i,n; rfc_parse(p,len,from_sd,&m); if(pm) *pm=m; if(!m.ok) return -1;
   for(i=0;i<m.count;i++){ fr[i]=p+m.off[i]; sz[i]=m.size[i]; }
   n=rfc_build(o,p[0],p[0]&3,m.vbr,m.count,fr,sz,((p[0]&3)==3&&m.has_pad_flag)?m.pad_len:-1,p+m.pad_off,!from_sd);
   if (n>0){ /* writer self-check against the acceptor */
      rfc_pkt q; rfc_parse(o,n,!from_sd,&q);
      if(!q.ok||q.consumed!=n||q.count!=m.count) return -2;
      for(i=0;i<m.count;i++) if(q.size[i]!=m.size[i]||memcmp(o+q.off[i],fr[i],sz[i])) return -2;
   }
   return n;
}

typedef struct { int ch,S,C; unsigned char map[256]; } layout_t;
static const char *lay_str(const layout_t *L){ static char b[4][400]; static int r; char *o=b[r=(r+1)&3]; int i,k; k=sprintf(o,"channels=%d streams=%d coupled=%d map=",L->ch,L->S,L->C); for(i=0;i<L->ch&&i<24&&i>=0;i++) k+=sprintf(o+k,"%s%d",i?",":"",L->map[i]); if(L->ch>24) sprintf(o+k,",.."); return o; }

/* the statement's validity rule, written from the text (not from validate_layout) */
static int rule_dec(const layout_t *L){ int i; if(L->ch<1||L->ch>255||L->S<1||L->C<0||L->C>L->S||L->S+L->C>255) return 0; for(i=0;i<L->ch;i++) if(L->map[i]!=255&&L->map[i]>=L->S+L->C) return 0; return 1; }
static int rule_enc(const layout_t *L){ int s,i; if(!rule_dec(L)||L->S+L->C>L->ch) return 0;
   for(s=0;s<L->S;s++){ int l=0,r=0,m=0; for(i=0;i<L->ch;i++){ if(s<L->C){ if(L->map[i]==2*s) l=1; if(L->map[i]==2*s+1) r=1; } else if(L->map[i]==s+L->C) m=1; } if(s<L->C?!(l&&r):!m) return 0; } return 1; }

/* ------------------------------------------------------------------ multistream decode vs stand-alone decoders */
typedef struct { OpusMSDecoder *ms; OpusDecoder **sd; int Fs; const layout_t *L; } decset;
static int decset_open(decset *D,const layout_t *L,int Fs){ int s,err=0; D->L=L; D->Fs=Fs; D->sd=calloc(L->S,sizeof *D->sd);
   mc_case("ms_decoder_create","Fs=%d %s",Fs,lay_str(L));
   D->ms=opus_multistream_decoder_create(Fs,L->ch,L->S,L->C,L->map,&err); if(!D->ms) return 0;
   for(s=0;s<L->S;s++){ D->sd[s]=opus_decoder_create(Fs,s<L->C?2:1,&err); if(!D->sd[s]){ fprintf(stderr,"opus_decoder_create failed\n"); return 0; } }
   return 1; }
static void decset_close(decset *D){ int s; if(D->ms) opus_multistream_decoder_destroy(D->ms); for(s=0;s<D->L->S;s++) if(D->sd[s]) opus_decoder_destroy(D->sd[s]); free(D->sd); D->ms=NULL; }

static const char *const FMT[3]={"s16","s24","float"};
/* one decode step on both sides; returns 1 if everything matched. sub[s]/sublen[s] are the plain (standard framing) sub-packets. */
static int dec_step(decset *D,const unsigned char *ms,int mslen,const unsigned char *const *sub,const int *sublen,int dur48,int fmt,int fec,int big,const char *what){
   const layout_t *L=D->L; int Fs=D->Fs, frame=(int)((long)dur48*Fs/48000), fsz= big? Fs/25*3 : frame, esz= fmt==0?2:4, r,s,c,i,ok=1;
   unsigned char *out=malloc((size_t)L->ch*fsz*esz), **so=calloc(L->S,sizeof *so); int *used=calloc(L->S,sizeof(int));
   memset(out,0xA5,(size_t)L->ch*fsz*esz);
   for(c=0;c<L->ch;c++){ int m=L->map[c]; if(m!=255) used[m<2*L->C?m/2:m-L->C]=1; }
   mc_case("ms_decode","%s fmt=%s Fs=%d frame_size=%d fec=%d len=%d %s pkt=%s",what,FMT[fmt],Fs,fsz,fec,mslen,lay_str(L),mc_hex(ms,mslen<200?mslen:200));
   r= fmt==0? opus_multistream_decode(D->ms,ms,mslen,(opus_int16*)out,fsz,fec) : fmt==1? opus_multistream_decode24(D->ms,ms,mslen,(opus_int32*)out,fsz,fec) : opus_multistream_decode_float(D->ms,ms,mslen,(float*)out,fsz,fec);
   MC_INC(c_dec); MC_INC(c_trans);
   for(s=0;s<L->S;s++){ int nch=s<L->C?2:1, rs; if(!used[s] && s!=0) { /* unreferenced streams still have to be decoded to keep state in step; only stream 0 fixes the count */ }
      so[s]=malloc((size_t)nch*fsz*esz); memset(so[s],0x5A,(size_t)nch*fsz*esz);
      mc_case("opus_decode","stand-alone stream %d fmt=%s Fs=%d frame_size=%d fec=%d pkt=%s",s,FMT[fmt],Fs,fsz,fec,mc_hex(sub[s],sublen[s]<200?sublen[s]:200));
      rs= fmt==0? opus_decode(D->sd[s],sub[s],sublen[s],(opus_int16*)so[s],fsz,fec) : fmt==1? opus_decode24(D->sd[s],sub[s],sublen[s],(opus_int32*)so[s],fsz,fec) : opus_decode_float(D->sd[s],sub[s],sublen[s],(float*)so[s],fsz,fec);
      MC_INC(c_trans);
      if (rs<=0){ char sg[96]; snprintf(sg,sizeof sg,"standalone_decode_error:%s",FMT[fmt]); mc_fail(sg,"%s: stand-alone decoder returned %d for a valid sub-packet (stream %d, Fs=%d frame_size=%d fec=%d) pkt=%s",what,rs,s,Fs,fsz,fec,mc_hex(sub[s],sublen[s]<300?sublen[s]:300)); ok=0; goto done; }
      if (rs!=r){ char sg[96]; snprintf(sg,sizeof sg,"ms_decode_count:%s",FMT[fmt]); mc_fail(sg,"%s: opus_multistream_decode returned %d, stand-alone decoder of stream %d returned %d (Fs=%d frame_size=%d fec=%d %s) pkt=%s",what,r,s,rs,Fs,fsz,fec,lay_str(L),mc_hex(ms,mslen<300?mslen:300)); ok=0; goto done; }
   }
   if (!big && !fec && r!=frame){ char sg[96]; snprintf(sg,sizeof sg,"ms_decode_duration:%s",FMT[fmt]); mc_fail(sg,"%s: returned %d samples for sub-packets of %d samples (Fs=%d %s)",what,r,frame,Fs,lay_str(L)); ok=0; goto done; }
   MC_INC(c_eval);
   for(c=0;c<L->ch&&ok;c++){ int m=L->map[c]; const unsigned char *src=NULL; int stride=0; const char *kind;
      if (m==255) kind="muted"; else if (m<2*L->C){ src=so[m/2]+(m&1)*esz; stride=2*esz; kind=(m&1)?"right":"left"; } else { src=so[m-L->C]; stride=esz; kind="mono"; }
      for(i=0;i<r;i++){ const unsigned char *o=out+((size_t)i*L->ch+c)*esz; static const unsigned char Z[4]={0,0,0,0};
         if (memcmp(o, src? src+(size_t)i*stride : Z, esz)){ char sg[96]; snprintf(sg,sizeof sg,"ms_decode_route:%s:%s",FMT[fmt],kind);
            mc_fail(sg,"%s: output channel %d (map %d -> %s%s) sample %d differs from the stand-alone decoder: got bytes %s want %s (Fs=%d frame_size=%d fec=%d %s) pkt=%s",what,c,m,kind,m==255?", must be 0":"",i,mc_hex(o,esz),mc_hex(src?src+(size_t)i*stride:Z,esz),Fs,fsz,fec,lay_str(L),mc_hex(ms,mslen<300?mslen:300));
            ok=0; break; } }
      MC_INC(c_cmp);
   }
done:
   for(s=0;s<L->S;s++) free(so[s]); free(so); free(used); free(out);
   return ok;
}

/* split a multistream packet with the RFC model: S-1 self-delimited packets and a standard one, equal durations.
   On success fills standard-framing copies of the sub-packets (malloc'd) for the stand-alone decoders. */
static int split_ms(const unsigned char *d,int len,int S,unsigned char **sub,int *sublen,int *dur48,const char *sigpfx,const char *what){
   int s,off=0,dur=-1; char sg[96];
   for(s=0;s<S;s++) sub[s]=NULL;
   for(s=0;s<S;s++){ rfc_pkt m; int sd= s!=S-1, n, dd;
      rfc_parse(d+off,len-off,sd,&m);
      if (!m.ok){ snprintf(sg,sizeof sg,"%s:split_malformed",sigpfx); mc_fail(sg,"%s: sub-packet %d of %d at offset %d is not a well-formed %s packet (len=%d) pkt=%s",what,s,S,off,sd?"self-delimited":"standard",len,mc_hex(d,len<400?len:400)); return 0; }
      dd=m.count*rfc_frame_48k(m.toc);
      if (s&&dd!=dur){ snprintf(sg,sizeof sg,"%s:split_duration",sigpfx); mc_fail(sg,"%s: sub-packet %d lasts %d/48000 s, sub-packet 0 %d pkt=%s",what,s,dd,dur,mc_hex(d,len<400?len:400)); return 0; }
      dur=dd;
      sub[s]=malloc(m.consumed+4);
      if (sd){ n=reframe(d+off,len-off,1,sub[s],NULL); if(n<0){ mc_fail("harness:reframe","cannot re-frame sub-packet %d",s); return 0; } sublen[s]=n; }
      else { memcpy(sub[s],d+off,m.consumed); sublen[s]=m.consumed; }
      off+=m.consumed;
   }
   if (off!=len){ snprintf(sg,sizeof sg,"%s:split_trailing",sigpfx); mc_fail(sg,"%s: %d bytes left after %d sub-packets",what,len-off,S); return 0; }
   *dur48=dur; return 1;
}

/* ------------------------------------------------------------------ part 1: layouts */
static corpus CP; static int *pdur;            /* duration of every corpus packet (RFC model) */
static int ndur, durv[64], *pool[64], npool[64];
typedef struct { int first; int sig; } natseq; static natseq *nat; static int nnat, nsig, sigd[64][3], *sigseq[64], nsigseq[64];
static void build_pools(int level){ int i,j,k;
   corpus_build(&CP,level);
   /* loud streams (full-scale square: decoded peaks exceed +-1.0, so the 16-bit soft clipper of every stream decoder is active) */
   { int ch; char nm[96]; for(ch=1;ch<=2;ch++){
      { ccfg k={REF_MODE_CELT_ONLY,BWF,200,0,64000*ch}; snprintf(nm,96,"celt fb 20ms fullscale-square ch%d",ch); corpus_stream(&CP,nm,48000,ch,OPUS_APPLICATION_AUDIO,SIG_SQUARE,&k,6,NULL,0,0,0,0,1); }
      { ccfg k={REF_MODE_CELT_ONLY,BWW,50,0,48000*ch}; snprintf(nm,96,"celt wb 5ms fullscale-square ch%d",ch); corpus_stream(&CP,nm,48000,ch,OPUS_APPLICATION_AUDIO,SIG_SQUARE,&k,6,NULL,0,0,0,0,1); }
      { ccfg k={REF_MODE_SILK_ONLY,BWW,200,0,24000*ch}; snprintf(nm,96,"silk wb 20ms fullscale-square ch%d",ch); corpus_stream(&CP,nm,48000,ch,OPUS_APPLICATION_VOIP,SIG_SQUARE,&k,6,NULL,0,0,0,0,1); }
      { ccfg k={REF_MODE_HYBRID,BWF,100,0,40000*ch}; snprintf(nm,96,"hybrid fb 10ms fullscale-square ch%d",ch); corpus_stream(&CP,nm,48000,ch,OPUS_APPLICATION_VOIP,SIG_SQUARE,&k,6,NULL,0,0,0,0,1); } } }
   /* mc/corpus.h: corpus_add_reframed keeps a pointer into CP.p across corpus_push (realloc): reserve so the array cannot move */
   CP.cap=CP.n+8*CP.ns+64; CP.p=realloc(CP.p,CP.cap*sizeof(cpkt));
   corpus_add_reframed(&CP);
   pdur=malloc(CP.n*sizeof(int));
   for(i=0;i<CP.n;i++){ pdur[i]=pkt_dur48(CP.p[i].data,CP.p[i].len); if(pdur[i]<=0||pdur[i]>5760){ fprintf(stderr,"corpus packet %d not well-formed\n",i); exit(2); }
      for(k=0;k<ndur;k++) if(durv[k]==pdur[i]) break; if(k==ndur){ if(ndur==64) exit(2); durv[ndur]=pdur[i]; pool[ndur]=malloc(CP.n*sizeof(int)); npool[ndur++]=0; } pool[k][npool[k]++]=i; }
   nat=malloc(CP.n*sizeof(natseq));
   for(i=0;i<CP.ns;i++) for(j=0;j+3<=CP.s[i].n;j++){ int f=CP.s[i].first+j; for(k=0;k<nsig;k++) if(sigd[k][0]==pdur[f]&&sigd[k][1]==pdur[f+1]&&sigd[k][2]==pdur[f+2]) break;
      if(k==nsig){ if(nsig==64) continue; sigd[k][0]=pdur[f];sigd[k][1]=pdur[f+1];sigd[k][2]=pdur[f+2]; sigseq[k]=malloc(CP.n*sizeof(int)); nsigseq[k]=0; nsig++; }
      sigseq[k][nsigseq[k]++]=f; nat[nnat].first=f; nat[nnat++].sig=k; }
}

typedef struct { int ch,S,C,vals; long base,count; } grp; static grp G[400]; static int nG; static long nenum;
typedef struct { layout_t L; int expect_dec,expect_enc; const char *name; } blay; static blay *B; static int nB;
static void add_b(const char *name,int ch,int S,int C,int kind){ blay *b=&B[nB++]; int i; memset(b,0,sizeof *b); b->name=name; b->L.ch=ch;b->L.S=S;b->L.C=C;
   for(i=0;i<256;i++){ int v; switch(kind){ case 0: v=0; break; case 1: v=i%3==2?255:i%3; break; case 2: v=i; break; case 3: v=(i*7)%(S+C>0?S+C:1); break; case 4: v= i==0?254:0; break; case 5: v= i==0?0: i==1?2*(C-1)+1 : S+C-1; break; default: v=255; } b->L.map[i]=(unsigned char)v; }
}
static void mk_layouts(int CH,int SMAX4,int SMAX5){ int ch,S,C,i; long b=0;
   for(ch=1;ch<=CH;ch++) for(S=0;S<=(ch<=4?SMAX4:SMAX5);S++) for(C=-1;C<=S+1;C++){ grp *g=&G[nG++]; long n=1; g->ch=ch;g->S=S;g->C=C; g->vals=S+C+2<2?2:S+C+2; for(i=0;i<ch;i++) n*=g->vals; g->base=b; g->count=n; b+=n; }
   nenum=b;
   B=calloc(40,sizeof *B);
   add_b("255 channels on one mono stream",255,1,0,0);
   add_b("255 channels cycling left/right/muted of one coupled stream",255,1,1,1);
   add_b("255 mono streams, identity",255,255,0,2);
   add_b("S+C=255: 128 streams 127 coupled, identity",255,128,127,2);
   add_b("S+C=255: 200 streams 55 coupled, 3 channels on stream0.L / stream54.R / stream199",3,200,55,5);
   add_b("S+C=255: 255 mono streams heard on one channel (index 254)",1,255,0,4);
   add_b("S+C=256: 128 streams 128 coupled",255,128,128,3);
   add_b("S+C=256: 255 streams 1 coupled",255,255,1,3);
   add_b("256 streams",255,256,0,0);
   add_b("256 channels",256,1,0,0);
   add_b("0 channels",0,1,0,0);
   add_b("index 254 with S+C=254",2,254,0,4);
   add_b("all 255 channels muted",255,2,1,6);
   add_b("255 channels spread over 100 streams 50 coupled",255,100,50,3);
   add_b("streams=-1",2,-1,0,0);
   add_b("coupled=255 > streams=1",2,1,255,0);
}
static void get_layout(long it,layout_t *L,const char **name){ int g,i; *name=NULL;
   if (it>=nenum){ *L=B[it-nenum].L; *name=B[it-nenum].name; return; }
   for(g=0;g<nG;g++) if(it<G[g].base+G[g].count) break;
   { long t=it-G[g].base; memset(L,0,sizeof *L); L->ch=G[g].ch;L->S=G[g].S;L->C=G[g].C; for(i=0;i<L->ch;i++){ int v=(int)(t%G[g].vals); t/=G[g].vals; L->map[i]= v==G[g].vals-1?255:(unsigned char)v; } }
}
static int n_assemblies;
static void layout_item(long it,void *ctx){
   layout_t L; const char *name; int err=0x7777,ed,ee,Fs=RATES[it%5],a,ok=1; OpusMSDecoder *d; OpusMSEncoder *e; char what[200]; (void)ctx;
   get_layout(it,&L,&name); ed=rule_dec(&L); ee=rule_enc(&L);
   MC_INC(c_lay);
   mc_case("ms_decoder_create","Fs=%d %s",Fs,lay_str(&L));
   d=opus_multistream_decoder_create(Fs,L.ch,L.S,L.C,L.map,&err); MC_INC(c_create); MC_INC(c_eval);
   if ((d!=NULL)!=ed){ mc_fail(ed?"decoder_create:valid_layout_rejected":"decoder_create:invalid_layout_accepted","opus_multistream_decoder_create(Fs=%d, %s) -> %s (error %d); the layout is %s",Fs,lay_str(&L),d?"decoder":"NULL",err,ed?"valid":"invalid"); ok=0; }
   else if (!d && err==OPUS_OK){ mc_fail("decoder_create:null_with_OPUS_OK","%s",lay_str(&L)); ok=0; }
   if (d) opus_multistream_decoder_destroy(d);
   err=0x7777;
   mc_case("ms_encoder_create","Fs=%d %s",Fs,lay_str(&L));
   e=opus_multistream_encoder_create(Fs,L.ch,L.S,L.C,L.map,OPUS_APPLICATION_AUDIO,&err); MC_INC(c_create); MC_INC(c_eval);
   if ((e!=NULL)!=ee){ mc_fail(ee?"encoder_create:valid_layout_rejected":"encoder_create:invalid_layout_accepted","opus_multistream_encoder_create(Fs=%d, %s) -> %s (error %d); the layout is %s for an encoder",Fs,lay_str(&L),e?"encoder":"NULL",err,ee?"valid":"invalid"); ok=0; }
   else if (!e && err==OPUS_OK){ mc_fail("encoder_create:null_with_OPUS_OK","%s",lay_str(&L)); ok=0; }
   if (!ed || !ok){ if(e) opus_multistream_encoder_destroy(e); return; }
   MC_INC(c_dacc);
   if (mc_set_add(lay_set,mc_mix(mc_hash(L.map,L.ch,1),mc_mix(mc_mix(L.ch,L.S),L.C)))) MC_INC(c_states);
   /* --- decode assemblies built from frozen-encoder sub-packets */
   for(a=0;a<n_assemblies&&ok;a++){
      int nsteps=3, j,s,fmt; const cpkt *pk[3][256]; int fec[3]={0,0,0}, big[3]={0,0,0}; unsigned char *asmb[3]; int alen[3], dur[3]; int dFs=RATES[(it+a)%5];
      if (a==0){ int g=(int)(it%nsig); for(s=0;s<L.S;s++){ int f=sigseq[g][(it/nsig+5*s)%nsigseq[g]]; for(j=0;j<3;j++) pk[j][s]=&CP.p[f+j]; } for(j=0;j<3;j++) dur[j]=sigd[g][j]; }
      else {
         for(j=0;j<3;j++){ int k=(int)((it*3+j+a*5)%ndur); dur[j]=durv[k]; for(s=0;s<L.S;s++) pk[j][s]=&CP.p[pool[k][(it*31+s*7+j*3+a*11)%npool[k]]]; }
         if (a%2==1){ /* packet 1 lost: step 1 decodes packet 2 with decode_fec=1, step 2 decodes it normally */ for(s=0;s<L.S;s++) pk[1][s]=pk[2][s]; dur[1]=dur[2]; fec[1]=1; big[0]=1; }
         else big[2]=1; }
      for(j=0;j<3;j++){ int n=0,tot=0; for(s=0;s<L.S;s++) tot+=pk[j][s]->len+4; asmb[j]=malloc(tot);
         for(s=0;s<L.S;s++){ if(s<L.S-1){ int k=reframe(pk[j][s]->data,pk[j][s]->len,0,asmb[j]+n,NULL); if(k<0){ mc_fail("harness:reframe","corpus packet cannot be written self-delimited (%d)",k); ok=0; break; } n+=k; } else { memcpy(asmb[j]+n,pk[j][s]->data,pk[j][s]->len); n+=pk[j][s]->len; } }
         alen[j]=n; }
      for(fmt=0;fmt<3&&ok;fmt++){ decset D; if(!decset_open(&D,&L,dFs)){ mc_fail("decoder_create:valid_layout_rejected","second creation failed %s",lay_str(&L)); ok=0; break; }
         for(j=0;j<nsteps&&ok;j++){ const unsigned char *sub[256]; int sublen[256]; for(s=0;s<L.S;s++){ sub[s]=pk[j][s]->data; sublen[s]=pk[j][s]->len; }
            snprintf(what,sizeof what,"layouts item %ld%s%s assembly %d step %d (sub-packets of %d/48000 s from the frozen encoder, stream0 = corpus '%s')",it,name?" ":"",name?name:"",a,j,dur[j],CP.s[pk[j][0]->stream].name);
            ok=dec_step(&D,asmb[j],alen[j],sub,sublen,dur[j],fmt,fec[j],big[j],what);
            if (ok){ int nm=0,c; uint64_t h; for(c=0;c<L.ch;c++) nm+=L.map[c]==255; h=mc_mix(mc_mix(L.ch,L.S),mc_mix(L.C,nm)); h=mc_mix(h,mc_mix(dur[j],dFs)); h=mc_mix(h,fmt*4+fec[j]*2+big[j]); if(mc_set_add(obs_set,h)) MC_INC(c_dn);
               if (j==0&&fmt==2&&a==0&&(name||(L.S>=2&&L.ch>=3&&nm>=1&&it%7==0))) mc_sample("layout {%s} Fs=%d: packet of %d bytes = %d sub-packets (%d/48000 s, stream0 from '%s') -> s16/s24/float outputs equal stand-alone decoders on every channel, muted channels zero",lay_str(&L),dFs,alen[j],L.S,dur[j],CP.s[pk[j][0]->stream].name); }
         }
         decset_close(&D); }
      for(j=0;j<3;j++) free(asmb[j]);
   }
   /* --- the tree's multistream encoder on this layout: packets must split and route */
   if (e && ok){ siggen g; int fdur[4]={960,480,1920,2880}, dur48=fdur[(it/5)%4], frame=(int)((long)dur48*Fs/48000), f; short *pcm=malloc(sizeof(short)*L.ch*frame); decset D; mc_gbuf ob; int maxb=L.S*(dur48>960?4000:1500);
      MC_INC(c_eacc); sig_init(&g,(int)(1+it%8),Fs,L.ch,(uint32_t)it); mc_galloc(&ob,maxb);
      if (decset_open(&D,&L,Fs)){
         for(f=0;f<2&&ok;f++){ int n,dd; unsigned char *sub[256]; int sublen[256],s;
            sig_gen(&g,pcm,frame);
            mc_case("ms_encode","Fs=%d frame=%d %s signal=%s",Fs,frame,lay_str(&L),sig_name[g.fam]);
            n=opus_multistream_encode(e,pcm,frame,ob.p,maxb); MC_INC(c_enc); MC_INC(c_trans); MC_INC(c_eval);
            if (n<=0||!mc_gcheck(&ob)){ mc_fail("ms_encode:error","opus_multistream_encode returned %d (Fs=%d frame=%d max=%d %s)",n,Fs,frame,maxb,lay_str(&L)); ok=0; break; }
            snprintf(what,sizeof what,"layouts item %ld encoder frame %d (Fs=%d frame=%d signal=%s)",it,f,Fs,frame,sig_name[g.fam]);
            if (!split_ms(ob.p,n,L.S,sub,sublen,&dd,"ms_encode",what)){ ok=0; }
            else if (dd!=dur48){ mc_fail("ms_encode:duration","%s: sub-packets last %d/48000 s, frame fed %d/48000 s (%s) pkt=%s",what,dd,dur48,lay_str(&L),mc_hex(ob.p,n<300?n:300)); ok=0; }
            else ok=dec_step(&D,ob.p,n,(const unsigned char*const*)sub,sublen,dd,(int)((it+f)%3),0,0,what);
            for(s=0;s<L.S;s++) free(sub[s]);
         }
         decset_close(&D);
      }
      mc_gfree(&ob); free(pcm);
   }
   if (e) opus_multistream_encoder_destroy(e);
}

/* ------------------------------------------------------------------ part 2: families */
/* Transcribed from doc/draft-ietf-codec-oggopus.xml, section "Channel Mapping Family 1" ("Allowed numbers of channels: 1...8.",
   speaker locations "in order of the corresponding channel indices").  The RFC fixes the channel ORDER, not a stream table. */
static const char *const F1_SPK[8][8]={
 {"mono"},
 {"left","right"},
 {"left","center","right"},
 {"front left","front right","rear left","rear right"},
 {"front left","front center","front right","rear left","rear right"},
 {"front left","front center","front right","rear left","rear right","LFE"},
 {"front left","front center","front right","side left","side right","rear center","LFE"},
 {"front left","front center","front right","side left","side right","rear left","rear right","LFE"}};
/* family 0: "Allowed numbers of channels: 1 or 2"; "a single Opus stream that is stereo if and only if C == 2, with stream index 0 mapped
   to output channel 0 (mono, or left channel) and stream index 1 mapped to output channel 1 (right channel)".
   family 255: "Allowed numbers of channels: 1...255. No defined channel meaning."  Families 2..254 of RFC 7845 are reserved; 2 and 3 are
   RFC 8486 (text not shipped): only what the property statement fixes is asserted. */
enum { CR_SUR=0, CR_PROJ=1 };
typedef struct { int creator, family; const char *nm; } famdef;
static const famdef FAM[]={ {CR_SUR,0,"surround/0"},{CR_SUR,1,"surround/1"},{CR_SUR,2,"surround/2"},{CR_PROJ,3,"projection/3"},{CR_SUR,255,"surround/255"},
   {CR_SUR,4,"surround/4(illegal)"},{CR_SUR,254,"surround/254(illegal)"},{CR_SUR,-1,"surround/-1(illegal)"},{CR_SUR,256,"surround/256(illegal)"},
   {CR_PROJ,4,"projection/4(illegal)"},{CR_PROJ,254,"projection/254(illegal)"},{CR_SUR,3,"surround/3(unspecified)"},{CR_PROJ,2,"projection/2(unspecified)"} };
#define NFAM ((int)(sizeof FAM/sizeof FAM[0]))
static int isq(int n){ int k=0; while((k+1)*(k+1)<=n) k++; return k; }
static int ambi_ok(int ch){ int k; if(ch<1||ch>255) return 0; k=isq(ch); return ch-k*k==0||ch-k*k==2; }
/* 1 must accept, 0 must reject, -1 not fixed by the statement */
static int fam_expect(const famdef *f,int ch){
   if (ch<1||ch>255) return 0;
   if (f->creator==CR_SUR) switch(f->family){ case 0: return ch<=2; case 1: return ch<=8; case 255: return 1; case 2: return ambi_ok(ch); case 3: return -1; default: return 0; }
   switch(f->family){ case 3: { int k=isq(ch); if(!ambi_ok(ch)) return 0; return (k>=2&&k<=6)?1:-1; } /* five built-in orders 1..5 */
      case 0: case 1: case 2: case 255: return -1; default: return 0; }
}
typedef struct { int creator; OpusMSEncoder *ms; OpusProjectionEncoder *pr; } encx;
static int encx_ctl_bitrate(encx *e,int b){ return e->creator==CR_SUR? opus_multistream_encoder_ctl(e->ms,OPUS_SET_BITRATE(b)) : opus_projection_encoder_ctl(e->pr,OPUS_SET_BITRATE(b)); }
static int encx_ctl_vbr(encx *e,int v){ return e->creator==CR_SUR? opus_multistream_encoder_ctl(e->ms,OPUS_SET_VBR(v)) : opus_projection_encoder_ctl(e->pr,OPUS_SET_VBR(v)); }
static int encx_lookahead(encx *e){ opus_int32 v=0; if(e->creator==CR_SUR) opus_multistream_encoder_ctl(e->ms,OPUS_GET_LOOKAHEAD(&v)); else opus_projection_encoder_ctl(e->pr,OPUS_GET_LOOKAHEAD(&v)); return v; }
static int encx_encode(encx *e,const short *pcm,int frame,unsigned char *o,int max){ return e->creator==CR_SUR? opus_multistream_encode(e->ms,pcm,frame,o,max) : opus_projection_encode(e->pr,pcm,frame,o,max); }
static int encx_encode_f(encx *e,const float *pcm,int frame,unsigned char *o,int max){ return e->creator==CR_SUR? opus_multistream_encode_float(e->ms,pcm,frame,o,max) : opus_projection_encode_float(e->pr,pcm,frame,o,max); }
static void encx_destroy(encx *e){ if(e->ms) opus_multistream_encoder_destroy(e->ms); if(e->pr) opus_projection_encoder_destroy(e->pr); e->ms=NULL; e->pr=NULL; }
static int encx_create(encx *e,const famdef *f,int Fs,int ch,int app,int *S,int *C,unsigned char *map,int *err){
   e->creator=f->creator; e->ms=NULL; e->pr=NULL; *S=-99; *C=-99; *err=0x7777;
   mc_case("family_create","%s Fs=%d channels=%d application=%d",f->nm,Fs,ch,app);
   if (f->creator==CR_SUR) e->ms=opus_multistream_surround_encoder_create(Fs,ch,f->family,S,C,map,app,err);
   else { int i; e->pr=opus_projection_ambisonics_encoder_create(Fs,ch,f->family,S,C,app,err); for(i=0;i<256;i++) map[i]=(unsigned char)i; /* projection: trivial mapping (RFC 8486 family 3 has none) */ }
   MC_INC(c_create);
   return e->ms||e->pr;
}

/* tone round trip: every input channel a pure tone with an integer number of periods in the analysis window W=0.4 s (mutually
   orthogonal), 26 frames of 20 ms at 128 kb/s per channel; A[c][j] = <out_c, in_j>/<in_j,in_j> after delay compensation.
   Returns 1 and fills A (ch x ch) on success.  dec_kind 0: multistream decoder from (S,C,map); 1: projection decoder with matrix dm. */
static int tone_bin(int c,int lfe){ return lfe? 24 : 200+12*c; }     /* x2.5 Hz : 500+30c Hz (above the two bands an LFE stream can code) ; LFE speaker 60 Hz */
static int roundtrip(encx *e,int Fs,int ch,int S,int C,const unsigned char *map,int lfe_ch,int dec_kind,unsigned char *dm,int dmsize,double *A,const char *what,float **keep_out,unsigned char ***keep_pk,int **keep_len,int *keep_n){
   int frame=Fs/50, W=Fs*2/5, warm=4, nfr=warm+W/frame+2, N=nfr*frame, L, f, c, j, t, ok=1, err=0; float *in=malloc(sizeof(float)*(size_t)N*ch), *out=calloc((size_t)N*ch,sizeof(float)); mc_gbuf ob; int maxb=S*1500;
   OpusMSDecoder *md=NULL; OpusProjectionDecoder *pd=NULL;
   for(c=0;c<ch;c++){ double w=2*M_PI*tone_bin(c,c==lfe_ch)/(double)W; for(t=0;t<N;t++) in[(size_t)t*ch+c]=(float)(0.05*sin(w*t+0.3*c)); }
   encx_ctl_bitrate(e,128000*ch); L=encx_lookahead(e);
   if (dec_kind==0) md=opus_multistream_decoder_create(Fs,ch,S,C,map,&err); else pd=opus_projection_decoder_create(Fs,ch,S,C,dm,dmsize,&err);
   if (!md&&!pd){ mc_fail(dec_kind?"projection_decoder_create:rejected":"family_layout:decoder_rejects","%s: decoder creation for the layout returned by the encoder failed (%d) channels=%d streams=%d coupled=%d",what,err,ch,S,C); free(in); free(out); return 0; }
   mc_galloc(&ob,maxb);
   if (keep_pk){ *keep_pk=calloc(nfr,sizeof(unsigned char*)); *keep_len=calloc(nfr,sizeof(int)); *keep_n=nfr; }
   for(f=0;f<nfr&&ok;f++){ int n,r;
      mc_case("roundtrip_encode","%s Fs=%d channels=%d frame %d",what,Fs,ch,f);
      n=encx_encode_f(e,in+(size_t)f*frame*ch,frame,ob.p,maxb); MC_INC(c_enc); MC_INC(c_trans);
      if (n<=0||!mc_gcheck(&ob)){ mc_fail("roundtrip:encode_error","%s: encode_float returned %d",what,n); ok=0; break; }
      if (keep_pk){ (*keep_pk)[f]=malloc(n); memcpy((*keep_pk)[f],ob.p,n); (*keep_len)[f]=n; }
      mc_case("roundtrip_decode","%s Fs=%d channels=%d frame %d len %d pkt=%s",what,Fs,ch,f,n,mc_hex(ob.p,n<200?n:200));
      r= md? opus_multistream_decode_float(md,ob.p,n,out+(size_t)f*frame*ch,frame,0) : opus_projection_decode_float(pd,ob.p,n,out+(size_t)f*frame*ch,frame,0); MC_INC(c_dec); MC_INC(c_trans);
      if (r!=frame){ mc_fail("roundtrip:decode_count","%s: decoder returned %d for a %d-sample frame",what,r,frame); ok=0; }
   }
   if (ok){ int t0=warm*frame; double *nrm=malloc(sizeof(double)*ch);
      for(j=0;j<ch;j++){ double s=0; for(t=0;t<W;t++){ double x=in[(size_t)(t0+t)*ch+j]; s+=x*x; } nrm[j]=s; }
      for(c=0;c<ch;c++) for(j=0;j<ch;j++){ double s=0; for(t=0;t<W;t++) s+=(double)out[(size_t)(t0+L+t)*ch+c]*in[(size_t)(t0+t)*ch+j]; A[c*ch+j]=s/nrm[j]; }
      free(nrm); }
   if (md) opus_multistream_decoder_destroy(md); if (pd) opus_projection_decoder_destroy(pd);
   mc_gfree(&ob); free(in); if (keep_out&&ok) *keep_out=out; else free(out);
   return ok;
}
static int check_identity(const double *A,int ch,double g,const char *sigpfx,const char *what){ int c,j; char sg[96];
   for(c=0;c<ch;c++) for(j=0;j<ch;j++){ double v=g*A[c*ch+j];
      if (calib){ cal_max(j==c?3:4, j==c?fabs(v-1):fabs(v)); }
      if (j==c? fabs(v-1)>RT_DIAG_TOL : fabs(v)>RT_OFF_TOL){ snprintf(sg,sizeof sg,"%s:%s",sigpfx,j==c?"channel_not_returned_on_itself":"channel_leaks_into_other");
         mc_fail(sg,"%s: projection of output channel %d on input channel %d is %.4f (x gain %.4f), want %s",what,c,j,v,g,j==c?"1":"0"); return 0; } }
   return 1; }

static int fam_full, fam_rt_max;
static const int FDUR[9]={120,240,480,960,1920,2880,3840,4800,5760};
static void family_item(long it,void *ctx){
   int ri=(int)(it%5), ch=(int)((it/5)%257), fi=(int)(it/5/257), Fs=RATES[ri], S,C,err,ex,i,ok=1; const famdef *f=&FAM[fi]; unsigned char map[256]; encx e; layout_t L; char what[200];
   static const int APPS[3]={OPUS_APPLICATION_AUDIO,OPUS_APPLICATION_VOIP,OPUS_APPLICATION_RESTRICTED_LOWDELAY}; int app=APPS[(ch+ri)%3];
   (void)ctx; memset(map,0xEE,sizeof map); ex=fam_expect(f,ch);
   encx_create(&e,f,Fs,ch,app,&S,&C,map,&err); MC_INC(c_eval);
   snprintf(what,sizeof what,"%s Fs=%d channels=%d",f->nm,Fs,ch);
   if (ex==1 && !(e.ms||e.pr)){ mc_fail(f->creator==CR_SUR?"surround_create:legal_count_rejected":"projection_create:legal_count_rejected","%s: creation failed (error %d) for a channel count the mapping family allows",what,err); return; }
   if (ex==0 && (e.ms||e.pr)){ mc_fail(f->creator==CR_SUR?"surround_create:illegal_accepted":"projection_create:illegal_accepted","%s: creation succeeded (streams=%d coupled=%d) for a channel count / family that is not legal",what,S,C); encx_destroy(&e); return; }
   if (!(e.ms||e.pr)){ if(err==OPUS_OK) mc_fail("family_create:null_with_OPUS_OK","%s",what); return; }
   if (err!=OPUS_OK){ mc_fail("family_create:object_with_error","%s: error %d",what,err); encx_destroy(&e); return; }
   /* ---- returned layout */
   { int seen[256]={0}; const char *bad=NULL;
     if (S<1||C<0||C>S||S+C>255) bad="counts_out_of_range"; else if (S+C>ch) bad="more_coded_channels_than_inputs";
     for(i=0;i<ch&&!bad;i++){ if(map[i]==255) bad="channel_muted"; else if(map[i]>=S+C) bad="index_out_of_range"; else if(seen[map[i]]++) bad="two_channels_on_one_coded_channel"; }
     if (!bad && f->family==0 && !(S==1&&C==ch-1&&map[0]==0&&(ch==1||map[1]==1))) bad="family0_not_rfc7845";
     if (!bad && (f->family==2||f->family==3) && S+C!=ch) bad="ambisonics_streams_plus_coupled_ne_channels";
     if (!bad && f->family==2 && ch-isq(ch)*isq(ch)==2 && !(map[ch-2]<2*C&&map[ch-1]<2*C&&(map[ch-2]^map[ch-1])==1)) bad="nondiegetic_pair_not_last_two_channels_of_one_coupled_stream";
     if (bad){ char sg[128]; L.ch=ch;L.S=S;L.C=C; memcpy(L.map,map,256); snprintf(sg,sizeof sg,"family_layout:%s",bad); mc_fail(sg,"%s returned %s",what,lay_str(&L)); encx_destroy(&e); return; } }
   L.ch=ch;L.S=S;L.C=C; memcpy(L.map,map,256);
   if (mc_set_add(lay_set,mc_mix(mc_mix(fi,ch),mc_mix(S,C)))) MC_INC(c_states);
   if (f->creator==CR_PROJ){ opus_int32 sz=-1; opus_projection_encoder_ctl(e.pr,OPUS_PROJECTION_GET_DEMIXING_MATRIX_SIZE(&sz)); if (sz!=2*ch*(S+C)){ mc_fail("projection:demixing_matrix_size","%s: size ctl gives %d, channels x (streams+coupled) x 2 = %d",what,(int)sz,2*ch*(S+C)); encx_destroy(&e); return; } }
   /* ---- packets: 3 frames per frame size; this item's frame-size set */
   { int big = ch>40, mid = ch>8&&!big, encode_here, nset=0, set[9], npass, cbr_frames=3;
     /* frame-size set, passes (0: VBR at the automatic rate, 1: CBR at 24 (VOIP: 10) kb/s per channel) and rates of this item:
        quick   : channels<=8: 9 sizes x 2 passes x 5 rates | 9..40: {20 ms, one rotating size} x VBR, all rates up to 16 channels else rate = channels mod 5
                  | >40: one rotating size x VBR at rate = channels mod 5
        thorough: channels<=40: 9 sizes x 2 passes x 5 rates | >40: one rotating size, VBR 3 frames + CBR 1 frame, 5 rates */
     if (!big && (fam_full || !mid)){ for(i=0;i<9;i++) set[nset++]=FDUR[i]; npass=2; }
     else if (mid){ set[nset++]=960; set[nset++]=FDUR[(ch+ri)%9]; npass=1; }
     else { set[nset++]=FDUR[(ch/5+ri*2)%9]; npass=fam_full?2:1; cbr_frames=1; }
     encode_here = fam_full || ch<=16 || (ch%5)==ri;
     if (encode_here){ decset D; siggen g; int q,pass; short *pcm=malloc(sizeof(short)*(size_t)ch*(Fs/25*3)); mc_gbuf ob; int maxb=S*7700; mc_galloc(&ob,maxb);
        sig_init(&g,(int)(1+(ch+ri)%8),Fs,ch,(uint32_t)it);
        if (!decset_open(&D,&L,Fs)){ mc_fail("family_layout:decoder_rejects","%s: multistream decoder refuses the returned layout %s",what,lay_str(&L)); ok=0; }
        for(pass=0;pass<npass&&ok;pass++){
           if (pass==1){ encx_ctl_vbr(&e,0); encx_ctl_bitrate(&e,(app==OPUS_APPLICATION_VOIP?10000:24000)*ch); }
           for(q=0;q<nset&&ok;q++){ int dur48=set[q], frame=(int)((long)dur48*Fs/48000), k;
              for(k=0;k<(pass?cbr_frames:3)&&ok;k++){ int n,dd,s; unsigned char *sub[256]; int sublen[256];
                 sig_gen(&g,pcm,frame);
                 mc_case("family_encode","%s frame=%d pass=%d signal=%s",what,frame,pass,sig_name[g.fam]);
                 n=encx_encode(&e,pcm,frame,ob.p,maxb); MC_INC(c_enc); MC_INC(c_trans); MC_INC(c_eval);
                 if (n<=0||!mc_gcheck(&ob)){ mc_fail("family_encode:error","%s: encode returned %d (frame=%d max=%d pass=%d streams=%d coupled=%d)",what,n,frame,maxb,pass,S,C); ok=0; break; }
                 snprintf(what,sizeof what,"%s Fs=%d channels=%d %s frame=%d #%d",f->nm,Fs,ch,pass?"CBR":"VBR",frame,k);
                 if (!split_ms(ob.p,n,S,sub,sublen,&dd,"family_encode",what)) ok=0;
                 else if (dd!=dur48){ mc_fail("family_encode:duration","%s: sub-packets last %d/48000 s, frame fed %d/48000 s (streams=%d) pkt=%s",what,dd,dur48,S,mc_hex(ob.p,n<300?n:300)); ok=0; }
                 else { ok=dec_step(&D,ob.p,n,(const unsigned char*const*)sub,sublen,dd,(k+q)%3,0,0,what);
                    if (ok){ uint64_t h=mc_mix(mc_mix(fi,ch),mc_mix(Fs,dur48)); h=mc_mix(h,pass); if(mc_set_add(obs_set,h)) MC_INC(c_dn);
                       if (k==0&&q==0&&pass==0&&(ch==6||ch==11||ch==255)) mc_sample("%s -> {%s}: %d-byte packet splits into %d sub-packets of %d/48000 s; multistream decode == stand-alone decoders",what,lay_str(&L),n,S,dd); } }
                 for(s=0;s<S;s++) free(sub[s]);
              } }
        }
        if (D.ms) decset_close(&D); else free(D.sd);
        mc_gfree(&ob); free(pcm);
     } }
   encx_destroy(&e);
   /* ---- tone round trip (48 kHz items): channel c comes back on channel c */
   if (ok && ri==4 && f->creator==CR_SUR && (ch<=fam_rt_max || ch==255 || ch==227 || ch==38)){ double *A=malloc(sizeof(double)*ch*ch); int lfe=-1;
      if (f->family==1) for(i=0;i<ch;i++) if(!strcmp(F1_SPK[ch-1][i],"LFE")) lfe=i;
      if (encx_create(&e,f,Fs,ch,OPUS_APPLICATION_AUDIO,&S,&C,map,&err)){
         snprintf(what,sizeof what,"%s Fs=%d channels=%d tone round trip",f->nm,Fs,ch);
         if (roundtrip(&e,Fs,ch,S,C,map,lfe,0,NULL,0,A,what,NULL,NULL,NULL,NULL)){ MC_INC(c_rt); MC_INC(c_eval); if (check_identity(A,ch,1.0,"family_roundtrip",what) && ch==6 && f->family==1) mc_sample("%s: 26 float frames of per-channel tones (LFE speaker 60 Hz) -> A[0][0]=%.4f A[5][5](LFE)=%.4f A[0][1]=%.5f (output channel c carries input channel c)",what,A[0],A[35],A[1]); }
         encx_destroy(&e); }
      free(A); }
}

/* ------------------------------------------------------------------ part 3: matrices */
#define MT(n) { #n, &mapping_matrix_##n##_mixing, mapping_matrix_##n##_mixing_data, &mapping_matrix_##n##_demixing, mapping_matrix_##n##_demixing_data }
static const struct { const char *nm; const MappingMatrix *m; const opus_int16 *md; const MappingMatrix *d; const opus_int16 *dd; } MTX[5]={ MT(foa),MT(soa),MT(toa),MT(fourthoa),MT(fifthoa) };
static double q8db(int g){ return pow(10.0,g/256.0/20.0); }
/* exact integer product of D (n x n, column-major, leading dimension ldd) and M (ldm) restricted to the first n rows/cols */
static int check_product(const opus_int16 *D,int ldd,const opus_int16 *M,int ldm,int n,double g,const char *sigpfx,const char *what){ int i,j,l; char sg[96];
   for(i=0;i<n;i++) for(j=0;j<n;j++){ long long s=0; double v; for(l=0;l<n;l++) s+=(long long)D[ldd*l+i]*M[ldm*j+l]; v=g*(double)s/1073741824.0; MC_INC(c_cmp);
      if (calib) cal_max(i==j?0:1, i==j?fabs(v-1):fabs(v));
      if (i==j? fabs(v-1)>EPS_DIAG : fabs(v)>EPS_OFF){ snprintf(sg,sizeof sg,"%s:%s",sigpfx,i==j?"diagonal":"off_diagonal"); mc_fail(sg,"%s: (D*M)[%d][%d]/2^30 x gain %.5f = %.6f (exact integer sum %lld), want %d within %g",what,i,j,g,v,s,i==j,i==j?EPS_DIAG:EPS_OFF); return 0; } }
   return 1; }
static int mtx_allrates;
/* projection decoder creation: "invalid layouts are rejected at creation".  Grid of (channels, streams, coupled, matrix size);
   only the must-reject direction is judged (the statement does not say which valid shapes a projection decoder must take). */
static void projdec_grid(void){ static const int CHv[8]={-1,0,1,2,4,36,255,256}, Sv[8]={-1,0,1,2,3,128,255,256}, Cv[7]={-1,0,1,2,3,127,128}; int a,b,c,d;
   for(a=0;a<8;a++) for(b=0;b<8;b++) for(c=0;c<7;c++) for(d=0;d<3;d++){ int ch=CHv[a],S=Sv[b],C=Cv[c],err=0x7777,valid; long prod=(long)(S+C)*ch*2, sz=prod+(d==1?2:d==2?-2:0); unsigned char *buf; OpusProjectionDecoder *pd; long i;
      if (sz<0||sz>140000) continue;
      buf=malloc(sz?sz:1); for(i=0;i<sz;i++) buf[i]=(unsigned char)((i&1)?0x10:0x00);
      valid= ch>=1&&ch<=255&&S>=1&&C>=0&&C<=S&&S+C<=255;
      mc_case("projection_decoder_create","channels=%d streams=%d coupled=%d matrix_size=%ld",ch,S,C,sz);
      pd=opus_projection_decoder_create(48000,ch,S,C,buf,(opus_int32)sz,&err); MC_INC(c_create); MC_INC(c_eval);
      if (pd && (!valid||sz!=prod)) mc_fail(valid?"projection_decoder_create:wrong_matrix_size_accepted":"projection_decoder_create:invalid_layout_accepted","opus_projection_decoder_create(48000, channels=%d, streams=%d, coupled=%d, matrix of %ld bytes) succeeded; layout %s, matrix must have %ld bytes",ch,S,C,sz,valid?"valid":"invalid",prod);
      else if (!pd && err==OPUS_OK) mc_fail("projection_decoder_create:null_with_OPUS_OK","channels=%d streams=%d coupled=%d size=%ld",ch,S,C,sz);
      else if (pd){ if (mc_set_add(lay_set,mc_mix(mc_mix(ch,S),mc_mix(C,77)))) MC_INC(c_states); }
      if (pd) opus_projection_decoder_destroy(pd);
      free(buf); }
   mc_sample("projection decoder creation grid channels{-1,0,1,2,4,36,255,256} x streams{-1,0,1,2,3,128,255,256} x coupled{-1,0,1,2,3,127,128} x matrix size {exact,+2,-2}: every invalid layout / wrong size rejected");
}
static void matrix_item(long it,void *ctx){ (void)ctx;
   if (it==5+10*(mtx_allrates?5:1)){ projdec_grid(); return; }
   if (it<5){ int k=(int)it, n=MTX[k].m->rows, v; char what[160]; double g=q8db(MTX[k].d->gain)*q8db(MTX[k].m->gain);
      if (MTX[k].m->rows!=MTX[k].m->cols||MTX[k].d->rows!=n||MTX[k].d->cols!=n||n!=(k+2)*(k+2)+2){ mc_fail("matrix_tables:shape","%s: mixing %dx%d demixing %dx%d",MTX[k].nm,MTX[k].m->rows,MTX[k].m->cols,MTX[k].d->rows,MTX[k].d->cols); return; }
      for(v=0;v<2;v++){ int nn= v? n : n-2; snprintf(what,sizeof what,"tables %s (order %d), %d channels, demixing gain field %d (Q8 dB)",MTX[k].nm,k+1,nn,MTX[k].d->gain); MC_INC(c_eval);
         if (check_product(MTX[k].dd,n,MTX[k].md,n,nn,g,"matrix_tables",what)){ MC_INC(c_dn); if(v) mc_sample("%s: g*D*M/2^30 == I within %g / %g over all %d entries (exact integer products)",what,EPS_DIAG,EPS_OFF,nn*nn); } }
      /* the exported matrix (what a decoder receives through the Ogg header) */
      for(v=0;v<2;v++){ int ch= v? n : n-2, S=0,C=0,err=0,i; opus_int32 sz=0,gain=-12345; OpusProjectionEncoder *pe; unsigned char *dm; opus_int16 *D;
         mc_case("projection_create","order %d channels %d",k+1,ch);
         pe=opus_projection_ambisonics_encoder_create(48000,ch,3,&S,&C,OPUS_APPLICATION_AUDIO,&err); MC_INC(c_create);
         if (!pe){ mc_fail("projection_create:legal_count_rejected","order %d channels=%d error %d",k+1,ch,err); continue; }
         opus_projection_encoder_ctl(pe,OPUS_PROJECTION_GET_DEMIXING_MATRIX_SIZE(&sz)); opus_projection_encoder_ctl(pe,OPUS_PROJECTION_GET_DEMIXING_MATRIX_GAIN(&gain));
         if (sz!=2*ch*(S+C)||S+C!=ch){ mc_fail("projection:demixing_matrix_size","order %d channels=%d streams=%d coupled=%d size=%d",k+1,ch,S,C,(int)sz); opus_projection_encoder_destroy(pe); continue; }
         dm=malloc(sz); memset(dm,0xA5,sz); D=malloc(sizeof(opus_int16)*ch*ch);
         if (opus_projection_encoder_ctl(pe,OPUS_PROJECTION_GET_DEMIXING_MATRIX(dm,sz))!=OPUS_OK){ mc_fail("projection:demixing_matrix_ctl","order %d channels=%d: GET_DEMIXING_MATRIX failed",k+1,ch); }
         else { for(i=0;i<ch*ch;i++){ int s=dm[2*i]|dm[2*i+1]<<8; D[i]=(opus_int16)(((s&0xFFFF)^0x8000)-0x8000); }
            snprintf(what,sizeof what,"exported demixing matrix (GET_DEMIXING_MATRIX, gain ctl %d) x mixing table %s, %d channels",(int)gain,MTX[k].nm,ch); MC_INC(c_eval);
            if (check_product(D,ch,MTX[k].md,n,ch,q8db(gain)*q8db(MTX[k].m->gain),"matrix_exported",what)) { MC_INC(c_dn); MC_INC(c_states); } }
         free(dm); free(D); opus_projection_encoder_destroy(pe); }
   } else {
      static const int CHS[10]={4,6,9,11,16,18,25,27,36,38}; int q=(int)(it-5), ch=CHS[q%10], Fs= mtx_allrates? RATES[q/10] : 48000, S=0,C=0,err=0,i; unsigned char map[256]; encx e; opus_int32 sz=0,gain=0; unsigned char *dm; double *A; char what[160];
      float *out=NULL; unsigned char **pk=NULL; int *pl=NULL,npk=0; const famdef fd={CR_PROJ,3,"projection/3"};
      if (!encx_create(&e,&fd,Fs,ch,OPUS_APPLICATION_AUDIO,&S,&C,map,&err)){ mc_fail("projection_create:legal_count_rejected","Fs=%d channels=%d error %d",Fs,ch,err); return; }
      opus_projection_encoder_ctl(e.pr,OPUS_PROJECTION_GET_DEMIXING_MATRIX_SIZE(&sz)); opus_projection_encoder_ctl(e.pr,OPUS_PROJECTION_GET_DEMIXING_MATRIX_GAIN(&gain));
      if (sz!=2*ch*(S+C)){ mc_fail("projection:demixing_matrix_size","channels=%d streams=%d coupled=%d size=%d",ch,S,C,(int)sz); encx_destroy(&e); return; }
      dm=malloc(sz); opus_projection_encoder_ctl(e.pr,OPUS_PROJECTION_GET_DEMIXING_MATRIX(dm,sz)); A=malloc(sizeof(double)*ch*ch);
      snprintf(what,sizeof what,"projection round trip Fs=%d channels=%d (streams=%d coupled=%d, demixing gain %d)",Fs,ch,S,C,(int)gain);
      if (roundtrip(&e,Fs,ch,S,C,map,-1,1,dm,sz,A,what,&out,&pk,&pl,&npk)){ MC_INC(c_rt); MC_INC(c_eval);
         if (check_identity(A,ch,q8db(gain),"projection_roundtrip",what)){ MC_INC(c_dn); MC_INC(c_states);
            mc_sample("%s: 26 float frames of per-channel tones at %d b/s -> g*A[0][0]=%.4f g*A[%d][%d]=%.4f g*A[0][1]=%.5f (each input channel returns on itself)",what,128000*ch,q8db(gain)*A[0],ch-1,ch-1,q8db(gain)*A[ch*ch-1],q8db(gain)*A[1]); }
         /* projection decoder == demixing matrix applied to the stand-alone decodes of the sub-packets */
         { OpusDecoder *sd[256]; int s,f,frame=Fs/50,c,t; float *dec=malloc(sizeof(float)*frame*2*S); opus_int16 *D=malloc(sizeof(opus_int16)*ch*(S+C)); int okk=1;
           for(i=0;i<ch*(S+C);i++){ int v=dm[2*i]|dm[2*i+1]<<8; D[i]=(opus_int16)(((v&0xFFFF)^0x8000)-0x8000); }
           for(s=0;s<S;s++) sd[s]=opus_decoder_create(Fs,s<C?2:1,&err);
           for(f=0;f<npk&&okk;f++){ unsigned char *sub[256]; int sublen[256],dd;
              if (!split_ms(pk[f],pl[f],S,sub,sublen,&dd,"projection_encode",what)){ okk=0; }
              else { for(s=0;s<S;s++){ int r=opus_decode_float(sd[s],sub[s],sublen[s],dec+(size_t)2*frame*s,frame,0); MC_INC(c_trans); if(r!=frame){ mc_fail("standalone_decode_error:float","%s: stream %d returned %d",what,s,r); okk=0; break; } }
                 for(t=0;t<frame&&okk;t++) for(c=0;c<ch;c++){ double acc=0,mag=0; int col; for(col=0;col<S+C;col++){ int st= col<2*C? col/2 : col-C; double x= col<2*C? dec[(size_t)2*frame*st+2*t+(col&1)] : dec[(size_t)2*frame*st+t]; double term=D[ch*col+c]/32768.0*x; acc+=term; mag+=fabs(term); }
                    { double got=out[((size_t)f*frame+t)*ch+c], dev=fabs(got-acc); if (calib&&mag>0) cal_max(2,dev/(mag+1e-9)); MC_INC(c_cmp);
                      if (dev>PD_TOL*mag+1e-7){ mc_fail("projection_decode:not_matrix_times_streams","%s frame %d sample %d channel %d: projection decoder gives %.9g, demixing row x stand-alone decodes = %.9g",what,f,t,c,got,acc); okk=0; break; } } } }
              for(s=0;s<S;s++) free(sub[s]);
           }
           for(s=0;s<S;s++) opus_decoder_destroy(sd[s]); free(dec); free(D); if(okk) MC_INC(c_eval); }
         for(i=0;i<npk;i++) free(pk[i]); free(pk); free(pl); free(out);
      }
      free(A); free(dm); encx_destroy(&e);
   }
}

int main(int argc,char **argv){
   const char *mode; long n;
   mc_init(argc,argv,"C10","layouts");
   mode=mc_arg_s("--mode","layouts"); MC.part=mode; calib=(int)mc_arg("--calib",0);
   c_states=mc_counter("states"); c_trans=mc_counter("transitions"); c_eval=mc_counter("evaluations"); c_dn=mc_counter("distinct_nontrivial");
   c_lay=mc_counter("layouts_enumerated"); c_dacc=mc_counter("layouts_decoder_accepted"); c_eacc=mc_counter("layouts_encoder_accepted"); c_create=mc_counter("create_calls");
   c_dec=mc_counter("multistream_decode_calls"); c_enc=mc_counter("encode_calls"); c_cmp=mc_counter("channel_or_entry_comparisons"); c_rt=mc_counter("tone_round_trips");
   lay_set=mc_set_new(20); obs_set=mc_set_new(18); cal=mc_shared(8*sizeof(double));
   if (!strcmp(mode,"layouts")){
      int CH=(int)mc_arg("--ch",MC.tier?5:4), S4=(int)mc_arg("--smax",MC.tier?4:3), S5=(int)mc_arg("--smax5",3);
      n_assemblies=(int)mc_arg("--assemblies",MC.tier?4:3);
      build_pools((int)mc_arg("--corpus",MC.tier?1:0)); mk_layouts(CH,S4,S5);
      mc_info("corpus: %d packets in %d streams, %d durations, %d natural duration signatures; %ld enumerated layouts + %d boundary layouts",CP.n,CP.ns,ndur,nsig,nenum,nB);
      n=nenum+nB; mc_par(n,layout_item,NULL);
   } else if (!strcmp(mode,"families")){
      fam_full=(int)mc_arg("--full",MC.tier?1:0); fam_rt_max=(int)mc_arg("--rtmax",MC.tier?64:12);
      mc_par((long)NFAM*257*5,family_item,NULL);
   } else if (!strcmp(mode,"matrices")){
      mtx_allrates=(int)mc_arg("--allrates",MC.tier?1:0);
      mc_par(5+10*(mtx_allrates?5:1)+1,matrix_item,NULL);
   } else { fprintf(stderr,"unknown mode %s\n",mode); return 2; }
   if (calib) mc_info("calibration: matrix diag dev %.3g off %.3g | projection decoder rel dev %.3g | tone round trip diag dev %.4f off %.4f",cal[0],cal[1],cal[2],cal[3],cal[4]);
   return mc_finish();
}
