/* C11 part "create" — creation and init reject unsupported rates, channel counts and applications (no crash, NULL/negative
 * code, error code consistent with the returned pointer) and accept every supported combination.
 *
 * E3: plain product enumeration of argument grids for every create/init function of the six object kinds:
 *   Fs   in {INT_MIN,-8000,0,7999,8000,8001,12000,16000,24000,44100,48000,48001,96000,INT_MAX}
 *   ch   in {INT_MIN,-1,0,1,2,3,255,256,INT_MAX} (+ family specific counts)
 *   app  in {INT_MIN,-1,0,2047,2048,2049,2050,2051,2052,INT_MAX}
 *   multistream: streams x coupled grids; surround / projection: mapping family grid; projection decoder: matrix size grid,
 *   negative channel counts with a "matching" negative matrix size (DESIGN section 5, suspected-unprobed).
 * Oracle (header text of opus.h / opus_multistream.h / opus_projection.h):
 *   MUST_OK   : Fs in {8000,12000,16000,24000,48000}, documented channel/stream constraints met, documented application
 *               => non-NULL / OPUS_OK, and the object reports Fs (and application) back
 *   MUST_FAIL : any unsupported Fs, channel count or application => NULL + negative code (init: negative code)
 *   EITHER    : combinations on which the headers are silent; only consistency (pointer <=> OPUS_OK) and no crash
 * Every call happens under ASan with exact-size buffers; error pointer NULL is exercised too.
 */
#include "c11_common.h"

enum { MUST_OK, MUST_FAIL, EITHER };
static const char *const MNAME[3]={"supported","unsupported","unspecified"};
static const opus_int32 FS[14]={INT_MIN,-8000,0,7999,8000,8001,12000,16000,24000,44100,48000,48001,96000,INT_MAX};
static const int CH[9]={INT_MIN,-1,0,1,2,3,255,256,INT_MAX};
static const int APP[10]={INT_MIN,-1,0,2047,2048,2049,2050,2051,2052,INT_MAX};
static mc_ctr *c_eval,*c_okc,*c_failc;
static mc_set *S_obs,*S_cls;

static int fs_ok(opus_int32 f){ return f==8000||f==12000||f==16000||f==24000||f==48000; }
static int app_ok(int a){ return a==OPUS_APPLICATION_VOIP||a==OPUS_APPLICATION_AUDIO||a==OPUS_APPLICATION_RESTRICTED_LOWDELAY; }

/* caller-provided memory for the init functions: the documented size when the call may succeed; when the arguments are
   unsupported the call must fail before it uses the memory, so 64 KB suffice (a wrong acceptance then shows up as an ASan report).
   Content is 0xA5 (small) or zero (large) — never uninitialised. */
static void *mkbuf(int *sz,int must){
   void *b; if (*sz<=0 || (must==MUST_FAIL && *sz>(1<<16))) *sz=1<<16;
   if (*sz<=(1<<20)){ b=malloc(*sz); memset(b,0xA5,*sz); } else b=calloc(1,*sz);
   if(!b){ fprintf(stderr,"oom\n"); exit(2); }
   return b;
}
/* returns 1 if the outcome is a success */
static int judge(const char *fn,int must,int is_init,const void *ptr,int err,int have_err,const char *desc){
   char sig[96]; int ok = is_init? err==OPUS_OK : ptr!=NULL;
   MC_INC(c_eval); if(ok) MC_INC(c_okc); else MC_INC(c_failc);
   if (!is_init && have_err && ((ptr!=NULL)!=(err==OPUS_OK) || err>0)){ snprintf(sig,sizeof sig,"create:%s:pointer-error-inconsistent",fn); mc_fail(sig,"%s -> ptr=%p error=%d",desc,ptr,err); }
   if (is_init && err>0){ snprintf(sig,sizeof sig,"create:%s:positive-return",fn); mc_fail(sig,"%s -> %d",desc,err); }
   if (must==MUST_OK && !ok){ snprintf(sig,sizeof sig,"create:%s:supported-rejected",fn); mc_fail(sig,"%s -> ptr=%p error=%d",desc,ptr,err); }
   if (must==MUST_FAIL && ok){ snprintf(sig,sizeof sig,"create:%s:unsupported-accepted",fn); mc_fail(sig,"%s -> succeeded (error=%d)",desc,err); }
   mc_set_add(S_cls,mc_mix(mc_hash(fn,strlen(fn),1),mc_mix(must,mc_mix(ok,(uint32_t)err))));
   if (ok && mc_set_add(S_obs,mc_hash(desc,strlen(desc),2))) mc_sample("%s [%s] -> success",desc,MNAME[must]);
   else if (!ok && must==MUST_FAIL && (mc_hash(desc,strlen(desc),3)&0x3ff)==0) mc_sample("%s [%s] -> %s, error %d",desc,MNAME[must],is_init?"rejected":"NULL",err);
   return ok;
}
static void check_back(const char *fn,const obj_t *o,opus_int32 Fs,int app,const char *desc){
   opus_int32 v=-1; char sig[96]; int r=ctl_p(o,OPUS_GET_SAMPLE_RATE_REQUEST,&v);
   if (r!=OPUS_OK||v!=Fs){ snprintf(sig,sizeof sig,"create:%s:object-reports-wrong-rate",fn); mc_fail(sig,"%s: GET_SAMPLE_RATE ret=%d value=%d",desc,r,v); }
   if (IS_ENCTYPE(o->kind)){ v=-1; r=ctl_p(o,OPUS_GET_APPLICATION_REQUEST,&v); if (r!=OPUS_OK||v!=app){ snprintf(sig,sizeof sig,"create:%s:object-reports-wrong-application",fn); mc_fail(sig,"%s: GET_APPLICATION ret=%d value=%d",desc,r,v); } }
}

static int CI,WH,SI,KI; /* channel index, 0=create / 1=init, (projection decoder only) stream and coupled index selected by the item */
static void g_encoder(opus_int32 Fs){
   int c,a,e; char d[200];
   for(c=CI;c<=CI;c++) for(a=0;a<10;a++){
      int must=(fs_ok(Fs)&&(CH[c]==1||CH[c]==2)&&app_ok(APP[a]))?MUST_OK:MUST_FAIL; obj_t o; memset(&o,0,sizeof o); o.kind=K_ENC;
      for(e=0;e<2&&WH==0;e++){
         int err=-12345; OpusEncoder *p;
         snprintf(d,sizeof d,"opus_encoder_create(Fs=%d, channels=%d, application=%d, %s)",Fs,CH[c],APP[a],e?"NULL":"&err"); mc_case("opus_encoder_create","%s",d);
         p=opus_encoder_create(Fs,CH[c],APP[a],e?NULL:&err);
         if (judge("opus_encoder_create",must,0,p,e?(p?0:-1):err,!e,d)){ o.p=p; check_back("opus_encoder_create",&o,Fs,APP[a],d); }
         if (p) opus_encoder_destroy(p);
      }
      if (WH==1){  /* init on a caller buffer of the documented size (size for 2 channels when the count is invalid) */
         int sz=opus_encoder_get_size(CH[c]), r; void *buf;
         if ((CH[c]==1||CH[c]==2)!=(sz>0)){ mc_fail("create:opus_encoder_get_size:wrong","channels=%d -> %d",CH[c],sz); }
         if (sz<=0) sz=opus_encoder_get_size(2);
         buf=mkbuf(&sz,EITHER);
         snprintf(d,sizeof d,"opus_encoder_init(buf[%d], Fs=%d, channels=%d, application=%d)",sz,Fs,CH[c],APP[a]); mc_case("opus_encoder_init","%s",d);
         r=opus_encoder_init((OpusEncoder*)buf,Fs,CH[c],APP[a]);
         if (judge("opus_encoder_init",must,1,buf,r,1,d)){ o.p=buf; check_back("opus_encoder_init",&o,Fs,APP[a],d); }
         free(buf);
      }
   }
}
static void g_decoder(opus_int32 Fs){
   int c,e; char d[200];
   for(c=CI;c<=CI;c++){
      int must=(fs_ok(Fs)&&(CH[c]==1||CH[c]==2))?MUST_OK:MUST_FAIL; obj_t o; memset(&o,0,sizeof o); o.kind=K_DEC;
      for(e=0;e<2&&WH==0;e++){
         int err=-12345; OpusDecoder *p;
         snprintf(d,sizeof d,"opus_decoder_create(Fs=%d, channels=%d, %s)",Fs,CH[c],e?"NULL":"&err"); mc_case("opus_decoder_create","%s",d);
         p=opus_decoder_create(Fs,CH[c],e?NULL:&err);
         if (judge("opus_decoder_create",must,0,p,e?(p?0:-1):err,!e,d)){ o.p=p; check_back("opus_decoder_create",&o,Fs,0,d); }
         if (p) opus_decoder_destroy(p);
      }
      if (WH==1){ int sz=opus_decoder_get_size(CH[c]), r; void *buf;
        if ((CH[c]==1||CH[c]==2)!=(sz>0)){ mc_fail("create:opus_decoder_get_size:wrong","channels=%d -> %d",CH[c],sz); }
        if (sz<=0) sz=opus_decoder_get_size(2);
        buf=mkbuf(&sz,EITHER);
        snprintf(d,sizeof d,"opus_decoder_init(buf[%d], Fs=%d, channels=%d)",sz,Fs,CH[c]); mc_case("opus_decoder_init","%s",d);
        r=opus_decoder_init((OpusDecoder*)buf,Fs,CH[c]);
        if (judge("opus_decoder_init",must,1,buf,r,1,d)){ o.p=buf; check_back("opus_decoder_init",&o,Fs,0,d); }
        free(buf); }
   }
}
/* multistream: channels x streams x coupled with mapping[i] = i < streams+coupled ? i : 255 (every coded channel used once) */
static const int MCH[8]={INT_MIN,-1,0,1,2,3,255,256};
static const int MST[8]={-1,0,1,2,3,128,255,256};
static const int MCO[6]={-1,0,1,2,128,255};
/* encoder: "streams + coupled_streams must be no more than the number of input channels"; the decoder text has no such clause */
static int ms_counts_ok(int ch,int st,int co,int enc){ return ch>=1&&ch<=255&&st>=1&&co>=0&&co<=st&&st+co<=255&&(!enc||st+co<=ch); }
static void g_ms(opus_int32 Fs,int enc){
   int c,s,k,a,e; char d[240]; unsigned char map[256];
   for(c=CI;c<=CI;c++) for(s=0;s<8;s++) for(k=0;k<6;k++) for(a=0;a<(enc?10:1);a++){
      int ch=MCH[c],st=MST[s],co=MCO[k],i; int must; obj_t o; memset(&o,0,sizeof o); o.kind=enc?K_MSENC:K_MSDEC;
      /* thin the application axis away from the interesting stream shapes: full app grid only for (st,co) in a small set */
      if (enc && a!=5 && !((st==1||st==2)&&(co==0||co==1))) continue;
      for(i=0;i<256;i++) map[i]= (st>0&&co>=0&&i<st+co)?(unsigned char)i:255;
      must=(fs_ok(Fs)&&ms_counts_ok(ch,st,co,enc)&&(!enc||app_ok(APP[a])))?MUST_OK:MUST_FAIL;
      /* a decoder may leave coded channels unused and repeat them, an encoder documents extra constraints only on coupled pairs; with this mapping
         both are satisfied, so the numeric constraints decide */
      for(e=0;e<2&&WH==0;e++){
         int err=-12345; void *p;
         if (enc){ snprintf(d,sizeof d,"opus_multistream_encoder_create(Fs=%d, channels=%d, streams=%d, coupled=%d, identity-then-255 mapping, application=%d, %s)",Fs,ch,st,co,APP[a],e?"NULL":"&err"); mc_case("opus_multistream_encoder_create","%s",d);
                   p=opus_multistream_encoder_create(Fs,ch,st,co,map,APP[a],e?NULL:&err); }
         else    { snprintf(d,sizeof d,"opus_multistream_decoder_create(Fs=%d, channels=%d, streams=%d, coupled=%d, identity-then-255 mapping, %s)",Fs,ch,st,co,e?"NULL":"&err"); mc_case("opus_multistream_decoder_create","%s",d);
                   p=opus_multistream_decoder_create(Fs,ch,st,co,map,e?NULL:&err); }
         if (judge(enc?"opus_multistream_encoder_create":"opus_multistream_decoder_create",must,0,p,e?(p?0:-1):err,!e,d)){ o.p=p; o.streams=st; o.coupled=co; check_back(enc?"opus_multistream_encoder_create":"opus_multistream_decoder_create",&o,Fs,APP[a],d); }
         if (p){ if(enc) opus_multistream_encoder_destroy(p); else opus_multistream_decoder_destroy(p); }
      }
      if (WH==1){  int sz = enc? opus_multistream_encoder_get_size(st,co) : opus_multistream_decoder_get_size(st,co), r; void *buf;
         buf=mkbuf(&sz,must);
         if (enc){ snprintf(d,sizeof d,"opus_multistream_encoder_init(buf[%d], Fs=%d, channels=%d, streams=%d, coupled=%d, application=%d)",sz,Fs,ch,st,co,APP[a]); mc_case("opus_multistream_encoder_init","%s",d);
                   r=opus_multistream_encoder_init(buf,Fs,ch,st,co,map,APP[a]); }
         else    { snprintf(d,sizeof d,"opus_multistream_decoder_init(buf[%d], Fs=%d, channels=%d, streams=%d, coupled=%d)",sz,Fs,ch,st,co); mc_case("opus_multistream_decoder_init","%s",d);
                   r=opus_multistream_decoder_init(buf,Fs,ch,st,co,map); }
         judge(enc?"opus_multistream_encoder_init":"opus_multistream_decoder_init",must,1,buf,r,1,d);
         free(buf); }
   }
}
static int isq(int n){ int r=0; while((r+1)*(r+1)<=n) r++; return r; }
static void g_surround(opus_int32 Fs){
   static const int FAM[7]={-1,0,1,2,3,255,256}; static const int SCH[16]={INT_MIN,-1,0,1,2,3,4,6,8,9,11,18,227,255,256,INT_MAX};
   int c,f,a,e; char d[240]; unsigned char map[256];
   for(c=CI;c<=CI;c++) for(f=0;f<7;f++) for(a=0;a<10;a++){
      int ch=SCH[c],fam=FAM[f],must,famok,r2; obj_t o; memset(&o,0,sizeof o); o.kind=K_MSENC;
      if (a!=5 && !(ch==2||ch==6)) continue;
      r2 = (ch>=1&&ch<=255)? isq(ch):0;
      famok = (fam==0&&(ch==1||ch==2)) || (fam==1&&ch>=1&&ch<=8) || (fam==255&&ch>=1&&ch<=255) || (fam==2&&ch>=1&&ch<=227&&(ch==r2*r2||ch==r2*r2+2));
      if (!fs_ok(Fs)||!app_ok(APP[a])||ch<1||ch>255||fam==-1||fam==256||(fam==0&&ch>2)||(fam==1&&ch>8)) must=MUST_FAIL;
      else must = famok?MUST_OK:EITHER;
      if (WH==1){ int sz=opus_multistream_surround_encoder_get_size(ch,fam), r, st=-7,co=-7; void *buf;
        buf=mkbuf(&sz,must);
        snprintf(d,sizeof d,"opus_multistream_surround_encoder_init(buf[%d], Fs=%d, channels=%d, family=%d, application=%d)",sz,Fs,ch,fam,APP[a]); mc_case("opus_multistream_surround_encoder_init","%s",d);
        r=opus_multistream_surround_encoder_init(buf,Fs,ch,fam,&st,&co,map,APP[a]);
        judge("opus_multistream_surround_encoder_init",must,1,buf,r,1,d);
        free(buf); }
      for(e=0;e<2&&WH==0;e++){
         int err=-12345,st=-7,co=-7; OpusMSEncoder *p;
         snprintf(d,sizeof d,"opus_multistream_surround_encoder_create(Fs=%d, channels=%d, family=%d, application=%d, %s)",Fs,ch,fam,APP[a],e?"NULL":"&err"); mc_case("opus_multistream_surround_encoder_create","%s",d);
         p=opus_multistream_surround_encoder_create(Fs,ch,fam,&st,&co,map,APP[a],e?NULL:&err);
         if (judge("opus_multistream_surround_encoder_create",must,0,p,e?(p?0:-1):err,!e,d)){
            o.p=p; check_back("opus_multistream_surround_encoder_create",&o,Fs,APP[a],d);
            if (st<1||co<0||co>st||st+co>ch) mc_fail("create:opus_multistream_surround_encoder_create:bad-stream-counts","%s -> streams=%d coupled=%d",d,st,co);
         }
         if (p) opus_multistream_encoder_destroy(p);
      }
   }
}
static void g_projenc(opus_int32 Fs){
   static const int PCH[25]={INT_MIN,-1,0,1,2,3,4,5,6,7,9,11,16,18,25,27,36,38,49,51,227,228,255,256,INT_MAX}; static const int FAM[5]={-1,0,2,3,4};
   int c,f,a,e; char d[240];
   for(c=CI;c<=CI;c++) for(f=0;f<5;f++) for(a=0;a<10;a++){
      int ch=PCH[c],fam=FAM[f],must,i,sup=0; static const int OKCH[10]={4,6,9,11,16,18,25,27,36,38}; obj_t o; memset(&o,0,sizeof o); o.kind=K_PROJENC;
      if (a!=5 && !(ch==4||ch==11)) continue;
      for(i=0;i<10;i++) if(ch==OKCH[i]) sup=1;
      if (!fs_ok(Fs)||!app_ok(APP[a])||ch<1||ch>255||fam!=3) must=MUST_FAIL; else must= sup?MUST_OK:EITHER;
      for(e=0;e<2&&WH==0;e++){
         int err=-12345,st=-7,co=-7; OpusProjectionEncoder *p;
         snprintf(d,sizeof d,"opus_projection_ambisonics_encoder_create(Fs=%d, channels=%d, family=%d, application=%d, %s)",Fs,ch,fam,APP[a],e?"NULL":"&err"); mc_case("opus_projection_ambisonics_encoder_create","%s",d);
         p=opus_projection_ambisonics_encoder_create(Fs,ch,fam,&st,&co,APP[a],e?NULL:&err);
         if (judge("opus_projection_ambisonics_encoder_create",must,0,p,e?(p?0:-1):err,!e,d)){
            o.p=p; check_back("opus_projection_ambisonics_encoder_create",&o,Fs,APP[a],d);
            if (st<1||co<0||co>st||st+co>ch) mc_fail("create:opus_projection_ambisonics_encoder_create:bad-stream-counts","%s -> streams=%d coupled=%d",d,st,co);
         }
         if (p) opus_projection_encoder_destroy(p);
      }
      if (WH==1){ int sz=opus_projection_ambisonics_encoder_get_size(ch,fam), r, st=-7,co=-7; void *buf;
        buf=mkbuf(&sz,must);
        snprintf(d,sizeof d,"opus_projection_ambisonics_encoder_init(buf[%d], Fs=%d, channels=%d, family=%d, application=%d)",sz,Fs,ch,fam,APP[a]); mc_case("opus_projection_ambisonics_encoder_init","%s",d);
        r=opus_projection_ambisonics_encoder_init(buf,Fs,ch,fam,&st,&co,APP[a]);
        judge("opus_projection_ambisonics_encoder_init",must,1,buf,r,1,d);
        free(buf); }
   }
}
static const int PDCH[10]={-300,-100,-1,0,1,2,4,6,255,256}; static const int PDST[8]={-1,0,1,2,3,128,255,256}; static const int PDCO[6]={-1,0,1,2,3,128};
static void g_projdec(opus_int32 Fs){
   static const int DSZ[4]={-1,2,-100000,0};   /* the matching size last: a crash there loses no other case of the item */
   int c,s,k,z,e; char d[260];
   for(c=CI;c<=CI;c++) for(s=SI;s<=SI;s++) for(k=KI;k<=KI;k++) for(z=0;z<4;z++){
      int ch=PDCH[c],st=PDST[s],co=PDCO[k],must; long long ex=2LL*ch*((long long)st+co); opus_int32 size; unsigned char *m; obj_t o; memset(&o,0,sizeof o); o.kind=K_PROJDEC;
      if (ex>INT_MAX||ex<INT_MIN) continue;
      size = DSZ[z]==-100000 ? 0 : (opus_int32)ex+DSZ[z];
      if (size>400000) continue;
      m=malloc(size>0?size:1); memset(m,0,size>0?size:1);
      if (size>=2){ m[0]=0; m[1]=0x40; }
      if (!fs_ok(Fs)||ch<1||ch>255||st<1||co<0||co>st||st+co>255||size!=ex) must=MUST_FAIL;
      else if (ch<=st+co && ex<=65004) must=MUST_OK; else must=EITHER;
      for(e=0;e<2&&WH==0;e++){
         int err=-12345; OpusProjectionDecoder *p;
         snprintf(d,sizeof d,"opus_projection_decoder_create(Fs=%d, channels=%d, streams=%d, coupled=%d, matrix[%d bytes], size=%d, %s)",Fs,ch,st,co,size>0?size:1,size,e?"NULL":"&err"); mc_case((ch<1||st<0||co<0||st+co<1)?"opus_projection_decoder_create:negative-count":"opus_projection_decoder_create","%s",d);
         p=opus_projection_decoder_create(Fs,ch,st,co,m,size,e?NULL:&err);
         if (judge("opus_projection_decoder_create",must,0,p,e?(p?0:-1):err,!e,d)){ o.p=p; check_back("opus_projection_decoder_create",&o,Fs,0,d); }
         if (p) opus_projection_decoder_destroy(p);
      }
      if (WH==1){ int sz=opus_projection_decoder_get_size(ch,st,co), r; void *buf;
        buf=mkbuf(&sz,must);
        snprintf(d,sizeof d,"opus_projection_decoder_init(buf[%d], Fs=%d, channels=%d, streams=%d, coupled=%d, matrix[%d bytes], size=%d)",sz,Fs,ch,st,co,size>0?size:1,size); mc_case((ch<1||st<0||co<0||st+co<1)?"opus_projection_decoder_init:negative-count":"opus_projection_decoder_init","%s",d);
        r=opus_projection_decoder_init(buf,Fs,ch,st,co,m,size);
        judge("opus_projection_decoder_init",must,1,buf,r,1,d);
        free(buf); }
      free(m);
   }
}

static const int NCH[7]={9,9,8,8,16,25,10};
typedef struct { unsigned char g,f,c,w,s,k; } itm;
static itm *IT; static long nit;
static void run_item(long it,void *u){
   opus_int32 Fs=FS[IT[it].f]; (void)u; CI=IT[it].c; WH=IT[it].w; SI=IT[it].s; KI=IT[it].k;
   switch(IT[it].g){ case 0: g_encoder(Fs); break; case 1: g_decoder(Fs); break; case 2: g_ms(Fs,1); break; case 3: g_ms(Fs,0); break;
              case 4: g_surround(Fs); break; case 5: g_projenc(Fs); break; default: g_projdec(Fs); break; }
}
int main(int argc,char **argv){
   int g,f,c,w;
   mc_init(argc,argv,"C11","create");
   c_eval=mc_counter("evaluations"); c_okc=mc_counter("successful_creations"); c_failc=mc_counter("rejected_creations");
   S_obs=mc_set_new(18); S_cls=mc_set_new(12);
   IT=calloc(7*14*25*2+14*10*8*6*2,sizeof(itm));
   for(g=0;g<7;g++) for(f=0;f<14;f++) for(c=0;c<NCH[g];c++) for(w=0;w<2;w++){
      int s,k; for(s=0;s<(g==6?8:1);s++) for(k=0;k<(g==6?6:1);k++){
         /* projection decoder: counts that are negative (or sum to <= 0) are crossed with Fs=48000 only — the rate plays no part in how they are
            handled, and each of them currently ends in a crash report, which the runtime bounds at 400 per run */
         if (g==6 && f!=10 && (PDCH[c]<1 || PDST[s]+PDCO[k]<1 || PDST[s]<0 || PDCO[k]<0)) continue;
         IT[nit].g=g; IT[nit].f=f; IT[nit].c=c; IT[nit].w=w; IT[nit].s=s; IT[nit].k=k; nit++; } }
   mc_par(nit,run_item,NULL);
   { mc_ctr *st=mc_counter("states"),*tr=mc_counter("transitions"),*dn=mc_counter("distinct_nontrivial"); *st=mc_set_count(S_cls); *tr=*c_eval; *dn=mc_set_count(S_obs); }
   return mc_finish();
}
