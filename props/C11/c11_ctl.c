/* C11 part "ctl" — every control request is validated, read back, and a rejected request changes nothing.
 *
 * Explicit-state exploration (E1) of ctl sequences on the REAL objects:
 *   object kinds : OpusEncoder, OpusDecoder, OpusMSEncoder, OpusMSDecoder, OpusProjectionEncoder, OpusProjectionDecoder
 *   item         : (kind, configuration, base state in {fresh, after one 20 ms frame, after one frame + OPUS_RESET_STATE})
 *   state        : vector of (return code, value) of EVERY getter request on the object and — for multistream / projection
 *                  objects — on every per-stream encoder/decoder reached through OPUS_MULTISTREAM_GET_*_STATE, plus a
 *                  shadow map of accepted settings that the getters do not (yet) show, plus a "reset applied" bit.
 *                  The object image is restored by memcpy before every transition (the objects are documented as flat
 *                  and freely copyable).
 *   alphabet     : every SET request of opus_defines.h x value grid {min-1,min,min+1,mid,max,max+1,INT_MIN,INT_MAX,
 *                  OPUS_AUTO,-1,0,-999,-1001} (bitrate: 21 values around every documented threshold); every GET request
 *                  with a NULL pointer; three unknown request numbers; OPUS_RESET_STATE; OPUS_SET_DNN_BLOB(NULL,0 / p,-1);
 *                  OPUS_MULTISTREAM_GET_*_STATE(index grid, valid/NULL pointer); OPUS_PROJECTION_GET_DEMIXING_MATRIX(size grid)
 *   search       : BFS with a visited set, depth <=2 (quick) / <=3 (thorough): every op is applied to every state at depth < D.
 *
 * Oracle table (written from the TEXT of include/opus_defines.h, opus_multistream.h, opus_projection.h — see SETS[] below):
 *   legal value          => OPUS_OK and the matching getter returns the value (bitrate: after the documented clamping
 *                           and the AUTO / MAX resolution formula)
 *   illegal value / NULL => OPUS_BAD_ARG, unknown request => OPUS_UNIMPLEMENTED
 *   any negative return  => the whole getter vector is unchanged
 *   where the header text is silent (marked EITHER / ANY below) both outcomes are accepted, but each must be self-consistent
 *   (OK => read back; error => nothing changed).
 */
#include <stdarg.h>
#include "c11_common.h"

/* ------------------------------------------------------------------ request tables */
#define NG 26
static const struct { const char *n; int req; } GETS[NG]={
 {"APPLICATION",OPUS_GET_APPLICATION_REQUEST},{"BITRATE",OPUS_GET_BITRATE_REQUEST},{"MAX_BANDWIDTH",OPUS_GET_MAX_BANDWIDTH_REQUEST},
 {"VBR",OPUS_GET_VBR_REQUEST},{"BANDWIDTH",OPUS_GET_BANDWIDTH_REQUEST},{"COMPLEXITY",OPUS_GET_COMPLEXITY_REQUEST},
 {"INBAND_FEC",OPUS_GET_INBAND_FEC_REQUEST},{"PACKET_LOSS_PERC",OPUS_GET_PACKET_LOSS_PERC_REQUEST},{"DTX",OPUS_GET_DTX_REQUEST},
 {"VBR_CONSTRAINT",OPUS_GET_VBR_CONSTRAINT_REQUEST},{"FORCE_CHANNELS",OPUS_GET_FORCE_CHANNELS_REQUEST},{"SIGNAL",OPUS_GET_SIGNAL_REQUEST},
 {"LOOKAHEAD",OPUS_GET_LOOKAHEAD_REQUEST},{"SAMPLE_RATE",OPUS_GET_SAMPLE_RATE_REQUEST},{"FINAL_RANGE",OPUS_GET_FINAL_RANGE_REQUEST},
 {"PITCH",OPUS_GET_PITCH_REQUEST},{"GAIN",OPUS_GET_GAIN_REQUEST},{"LSB_DEPTH",OPUS_GET_LSB_DEPTH_REQUEST},
 {"LAST_PACKET_DURATION",OPUS_GET_LAST_PACKET_DURATION_REQUEST},{"EXPERT_FRAME_DURATION",OPUS_GET_EXPERT_FRAME_DURATION_REQUEST},
 {"PREDICTION_DISABLED",OPUS_GET_PREDICTION_DISABLED_REQUEST},{"PHASE_INVERSION_DISABLED",OPUS_GET_PHASE_INVERSION_DISABLED_REQUEST},
 {"IN_DTX",OPUS_GET_IN_DTX_REQUEST},{"DRED_DURATION",OPUS_GET_DRED_DURATION_REQUEST},
 {"DEMIXING_MATRIX_GAIN",OPUS_PROJECTION_GET_DEMIXING_MATRIX_GAIN_REQUEST},{"DEMIXING_MATRIX_SIZE",OPUS_PROJECTION_GET_DEMIXING_MATRIX_SIZE_REQUEST}};
enum { G_APPLICATION=0,G_BITRATE,G_MAX_BANDWIDTH,G_VBR,G_BANDWIDTH,G_COMPLEXITY,G_FEC,G_LOSS,G_DTX,G_CVBR,G_FORCE_CHANNELS,G_SIGNAL,
       G_LOOKAHEAD,G_SAMPLE_RATE,G_FINAL_RANGE,G_PITCH,G_GAIN,G_LSB,G_LASTDUR,G_FRAMEDUR,G_PRED,G_PHASEINV,G_IN_DTX,G_DRED,G_MGAIN,G_MSIZE };

/* The documented domain of every SET request (opus_defines.h).  ET = applies to encoder-type objects, DT = decoder-type. */
#define ET 1
#define DT 2
enum { D_RANGE, D_ENUM, D_BITRATE, D_ANY };
typedef struct { const char *n; int set, g; int types; int dom; int lo, hi; int ne; int en[3]; int allow_auto; } setreq;
#define NSETS 18
static const setreq SETS[NSETS]={
 /* "Returns one of ... OPUS_APPLICATION_VOIP / AUDIO / RESTRICTED_LOWDELAY" */
 {"APPLICATION",OPUS_SET_APPLICATION_REQUEST,G_APPLICATION,ET,D_ENUM,0,0,3,{OPUS_APPLICATION_VOIP,OPUS_APPLICATION_AUDIO,OPUS_APPLICATION_RESTRICTED_LOWDELAY},0},
 /* "Rates from 500 to 512000 bits per second are meaningful, as well as the special values OPUS_AUTO and OPUS_BITRATE_MAX" */
 {"BITRATE",OPUS_SET_BITRATE_REQUEST,G_BITRATE,ET,D_BITRATE,500,512000,0,{0},1},
 /* "Allowed values: OPUS_BANDWIDTH_NARROWBAND .. OPUS_BANDWIDTH_FULLBAND" */
 {"MAX_BANDWIDTH",OPUS_SET_MAX_BANDWIDTH_REQUEST,G_MAX_BANDWIDTH,ET,D_RANGE,OPUS_BANDWIDTH_NARROWBAND,OPUS_BANDWIDTH_FULLBAND,0,{0},0},
 {"VBR",OPUS_SET_VBR_REQUEST,G_VBR,ET,D_RANGE,0,1,0,{0},0},
 /* "Allowed values: OPUS_AUTO, OPUS_BANDWIDTH_NARROWBAND .. FULLBAND"; getter: "Gets the encoder's configured bandpass" */
 {"BANDWIDTH",OPUS_SET_BANDWIDTH_REQUEST,G_BANDWIDTH,ET,D_RANGE,OPUS_BANDWIDTH_NARROWBAND,OPUS_BANDWIDTH_FULLBAND,0,{0},1},
 /* "Allowed values: 0-10, inclusive" */
 {"COMPLEXITY",OPUS_SET_COMPLEXITY_REQUEST,G_COMPLEXITY,ET,D_RANGE,0,10,0,{0},0},
 {"INBAND_FEC",OPUS_SET_INBAND_FEC_REQUEST,G_FEC,ET,D_RANGE,0,2,0,{0},0},
 /* "Loss percentage in the range 0-100, inclusive" */
 {"PACKET_LOSS_PERC",OPUS_SET_PACKET_LOSS_PERC_REQUEST,G_LOSS,ET,D_RANGE,0,100,0,{0},0},
 {"DTX",OPUS_SET_DTX_REQUEST,G_DTX,ET,D_RANGE,0,1,0,{0},0},
 {"VBR_CONSTRAINT",OPUS_SET_VBR_CONSTRAINT_REQUEST,G_CVBR,ET,D_RANGE,0,1,0,{0},0},
 /* "Allowed values: OPUS_AUTO, 1, 2" */
 {"FORCE_CHANNELS",OPUS_SET_FORCE_CHANNELS_REQUEST,G_FORCE_CHANNELS,ET,D_RANGE,1,2,0,{0},1},
 {"SIGNAL",OPUS_SET_SIGNAL_REQUEST,G_SIGNAL,ET,D_ENUM,0,0,3,{OPUS_AUTO,OPUS_SIGNAL_VOICE,OPUS_SIGNAL_MUSIC},0},
 /* "This has a maximum range of -32768 to 32767 inclusive, and returns OPUS_BAD_ARG otherwise" */
 {"GAIN",OPUS_SET_GAIN_REQUEST,G_GAIN,DT,D_RANGE,-32768,32767,0,{0},0},
 /* "Input precision in bits, between 8 and 24" */
 {"LSB_DEPTH",OPUS_SET_LSB_DEPTH_REQUEST,G_LSB,ET,D_RANGE,8,24,0,{0},0},
 /* OPUS_FRAMESIZE_ARG .. OPUS_FRAMESIZE_120_MS */
 {"EXPERT_FRAME_DURATION",OPUS_SET_EXPERT_FRAME_DURATION_REQUEST,G_FRAMEDUR,ET,D_RANGE,OPUS_FRAMESIZE_ARG,OPUS_FRAMESIZE_120_MS,0,{0},0},
 {"PREDICTION_DISABLED",OPUS_SET_PREDICTION_DISABLED_REQUEST,G_PRED,ET,D_RANGE,0,1,0,{0},0},
 {"PHASE_INVERSION_DISABLED",OPUS_SET_PHASE_INVERSION_DISABLED_REQUEST,G_PHASEINV,ET|DT,D_RANGE,0,1,0,{0},0},
 /* no range documented */
 {"DRED_DURATION",OPUS_SET_DRED_DURATION_REQUEST,G_DRED,ET,D_ANY,0,104,0,{0},0}};
enum { S_APPLICATION=0,S_BITRATE,S_MAX_BANDWIDTH,S_VBR,S_BANDWIDTH,S_COMPLEXITY,S_FEC,S_LOSS,S_DTX,S_CVBR,S_FORCE_CHANNELS,S_SIGNAL,S_GAIN,S_LSB,S_FRAMEDUR,S_PRED,S_PHASEINV,S_DRED };
static const int UNKNOWN_REQ[3]={-5,4099,12345};

enum { C_LEGAL, C_ILLEGAL, C_EITHER, C_ANY };
static const char *const CNAME[4]={"legal","illegal","either","any"};

/* ------------------------------------------------------------------ ops */
enum { OP_SET, OP_GETNULL, OP_UNKNOWN, OP_RESET, OP_MSSTATE, OP_MATRIX, OP_DNN };
typedef struct { unsigned char type; signed char a; opus_int32 x; } op_t;
#define MAXOPS 640
static op_t OPS[MAXOPS]; static int nops;

static void add_op(int type,int a,opus_int32 x){ int i; for(i=0;i<nops;i++) if(OPS[i].type==type&&OPS[i].a==a&&OPS[i].x==x) return; if(nops>=MAXOPS){ fprintf(stderr,"MAXOPS\n"); exit(2);} OPS[nops].type=type; OPS[nops].a=a; OPS[nops].x=x; nops++; }
static int type_of_kind(int k){ return IS_ENCTYPE(k)?ET:DT; }

static void build_ops(const obj_t *o){
   int s,i; nops=0;
   for(s=0;s<NSETS;s++){
      const setreq *r=&SETS[s];
      if (!(r->types&type_of_kind(o->kind))){ add_op(OP_SET,s,r->dom==D_ENUM?r->en[1]:r->lo); add_op(OP_SET,s,r->dom==D_ENUM?0:r->hi+1); continue; }
      if (r->dom==D_BITRATE){
         static const opus_int32 v[]={INT_MIN,-1001,OPUS_AUTO,-999,-2,OPUS_BITRATE_MAX,0,1,499,500,501,6000,64000,300000,300001,510000,512000,512001,600000,600001,INT_MAX};
         for(i=0;i<(int)(sizeof v/sizeof v[0]);i++) add_op(OP_SET,s,v[i]);
         /* a value inside every multistream clamp range too */
         add_op(OP_SET,s,32000*o->ch);
      } else if (r->dom==D_ENUM){
         for(i=0;i<r->ne;i++){ add_op(OP_SET,s,r->en[i]); add_op(OP_SET,s,r->en[i]-1); add_op(OP_SET,s,r->en[i]+1); }
         add_op(OP_SET,s,INT_MIN); add_op(OP_SET,s,INT_MAX); add_op(OP_SET,s,0); add_op(OP_SET,s,-1); add_op(OP_SET,s,OPUS_AUTO);
      } else {
         add_op(OP_SET,s,r->lo-1); add_op(OP_SET,s,r->lo); add_op(OP_SET,s,r->lo+1); add_op(OP_SET,s,r->lo+(r->hi-r->lo)/2); add_op(OP_SET,s,r->hi); add_op(OP_SET,s,r->hi+1);
         add_op(OP_SET,s,INT_MIN); add_op(OP_SET,s,INT_MAX); add_op(OP_SET,s,OPUS_AUTO); add_op(OP_SET,s,-1); add_op(OP_SET,s,0); add_op(OP_SET,s,-999); add_op(OP_SET,s,-1001);
      }
   }
   for(i=0;i<NG;i++) add_op(OP_GETNULL,i,0);
   for(i=0;i<3;i++) add_op(OP_UNKNOWN,0,UNKNOWN_REQ[i]);
   add_op(OP_RESET,0,0);
   add_op(OP_DNN,0,0); add_op(OP_DNN,1,-1);
   if (IS_MS(o->kind)){
      static const opus_int32 v[]={-1,0,INT_MIN,INT_MAX,255,256};
      for(i=0;i<6;i++) add_op(OP_MSSTATE,0,v[i]);
      add_op(OP_MSSTATE,0,o->streams-1); add_op(OP_MSSTATE,0,o->streams); add_op(OP_MSSTATE,1,0); add_op(OP_MSSTATE,1,o->streams);
   }
   if (o->kind==K_PROJENC||o->kind==K_PROJDEC){
      /* a = 0: exact-size heap buffer of x' bytes where x is the delta to the true size; a = 1: NULL pointer; a = 2: absolute size x with a 1-byte buffer */
      add_op(OP_MATRIX,0,0); add_op(OP_MATRIX,0,-1); add_op(OP_MATRIX,0,-2); add_op(OP_MATRIX,0,1); add_op(OP_MATRIX,0,2);
      add_op(OP_MATRIX,1,0);
      add_op(OP_MATRIX,2,0); add_op(OP_MATRIX,2,-1); add_op(OP_MATRIX,2,INT_MIN); add_op(OP_MATRIX,2,INT_MAX);
   }
}

static const char *op_str(const op_t *op){
   static char ring[8][96]; static int r; char *b=ring[r=(r+1)&7];
   switch(op->type){
   case OP_SET: snprintf(b,96,"SET_%s(%d)",SETS[op->a].n,op->x); break;
   case OP_GETNULL: snprintf(b,96,"GET_%s(NULL)",GETS[op->a].n); break;
   case OP_UNKNOWN: snprintf(b,96,"request#%d(&int)",op->x); break;
   case OP_RESET: snprintf(b,96,"OPUS_RESET_STATE"); break;
   case OP_MSSTATE: snprintf(b,96,"MULTISTREAM_GET_STATE(%d,%s)",op->x,op->a?"NULL":"&ptr"); break;
   case OP_MATRIX: snprintf(b,96,"GET_DEMIXING_MATRIX(%s,%s%d)",op->a==1?"NULL":"buf",op->a==0?"size+":"",op->x); break;
   default: snprintf(b,96,"SET_DNN_BLOB(%s,%d)",op->a?"p":"NULL",op->x); break;
   }
   return b;
}

/* ------------------------------------------------------------------ getter vector */
#define VMAX ((1+MAXS)*NG*2)
typedef struct { int n; opus_int32 v[VMAX]; } vec_t;
#define POISON 0x5A5A5A5A
static void read_vec(const obj_t *o,vec_t *V){
   int i,s,k=0;
   for(i=0;i<NG;i++){ opus_int32 out=POISON; V->v[k++]=ctl_p(o,GETS[i].req,&out); V->v[k++]=out; }
   if (IS_MS(o->kind)){
      for(s=0;s<o->streams&&s<MAXS;s++){
         void *sub=NULL; int r=ctl_ip(o,IS_ENCTYPE(o->kind)?OPUS_MULTISTREAM_GET_ENCODER_STATE_REQUEST:OPUS_MULTISTREAM_GET_DECODER_STATE_REQUEST,s,&sub);
         for(i=0;i<NG;i++){
            opus_int32 out=POISON; int rr;
            if (r!=OPUS_OK||!sub){ V->v[k++]=-99; V->v[k++]=POISON; continue; }
            rr = IS_ENCTYPE(o->kind)? opus_encoder_ctl((OpusEncoder*)sub,GETS[i].req,&out) : opus_decoder_ctl((OpusDecoder*)sub,GETS[i].req,&out);
            V->v[k++]=rr; V->v[k++]=out;
         }
      }
   }
   V->n=k;
}
static int vec_eq(const vec_t *a,const vec_t *b){ return a->n==b->n && !memcmp(a->v,b->v,a->n*sizeof(opus_int32)); }
static const char *vec_diff(const vec_t *a,const vec_t *b){
   static char buf[400]; int i,k=0; buf[0]=0;
   for(i=0;i<a->n&&i<b->n&&k<300;i+=2) if(a->v[i]!=b->v[i]||a->v[i+1]!=b->v[i+1]){
      int gi=(i/2)%NG, lvl=(i/2)/NG; char pre[16]; pre[0]=0;
      if (lvl) snprintf(pre,sizeof pre,"stream%d.",lvl-1);
      k+=snprintf(buf+k,sizeof buf-k,"%sGET_%s: (ret %d, %d) -> (ret %d, %d); ",pre,GETS[gi].n,a->v[i],a->v[i+1],b->v[i],b->v[i+1]);
   }
   return buf;
}

/* ------------------------------------------------------------------ exploration state */
enum { B_FRESH=0, B_ONEFRAME, B_RESET, B_MONO, NBASE };   /* B_MONO (stereo encoders only): the one frame was coded mono (FORCE_CHANNELS 1 for that frame, AUTO again afterwards): the coded channel count differs from the created one */
static const char *const BNAME[NBASE]={"fresh","after-one-20ms-frame","after-frame+reset","after-one-20ms-frame-coded-mono"};
#define UNSET INT_MIN+7
typedef struct { uint64_t key; unsigned char depth, reset; op_t hist[3]; opus_int32 M[NSETS]; } node_t;

static mc_ctr *c_trans,*c_eval,*c_ok,*c_rej,*c_adv,*c_maxdepth,*c_nodes;
static mc_set *S_states,*S_obs;
static int DEPTH;

typedef struct { obj_t o; int base; } item_t;
static item_t *ITEMS; static int nitems;

/* local (per item) visited set */
typedef struct { uint64_t *t; uint64_t mask; long n; } lset;
static void ls_init(lset *s,int lg){ s->mask=(1ULL<<lg)-1; s->t=calloc(s->mask+1,8); s->n=0; }
static int ls_add(lset *s,uint64_t h){ uint64_t i; if(!h)h=1; i=(h*0x9e3779b97f4a7c15ULL>>11)&s->mask; for(;;){ if(s->t[i]==h) return 0; if(!s->t[i]){ s->t[i]=h; s->n++; return 1; } i=(i+1)&s->mask; } }

static const char *cfg_str(const obj_t *o,int base){
   static char b[160];
   if (IS_MS(o->kind)) snprintf(b,sizeof b,"%s Fs=%d channels=%d streams=%d coupled=%d%s app=%d base=%s",KNAME[o->kind],o->Fs,o->ch,o->streams,o->coupled,o->family>=0?" (surround)":"",o->app,BNAME[base]);
   else snprintf(b,sizeof b,"%s Fs=%d ch=%d app=%d base=%s",KNAME[o->kind],o->Fs,o->ch,o->app,BNAME[base]);
   return b;
}
static const char *hist_str(const node_t *n){
   static char b[320]; int i,k=0; b[0]=0; for(i=0;i<n->depth;i++) k+=snprintf(b+k,sizeof b-k,"%s; ",op_str(&n->hist[i])); if(!n->depth) snprintf(b,sizeof b,"(none); "); return b;
}

/* ------------------------------------------------------------------ the oracle */
static int in_domain(const setreq *r,opus_int32 x){
   int i;
   if (r->allow_auto && x==OPUS_AUTO) return 1;
   if (r->dom==D_ENUM){ for(i=0;i<r->ne;i++) if(x==r->en[i]) return 1; return 0; }
   return x>=r->lo && x<=r->hi;
}
static int classify(const obj_t *o,int base,int reset,int s,opus_int32 x){
   const setreq *r=&SETS[s];
   if (base==B_MONO) base=B_ONEFRAME;
   if (!(r->types&type_of_kind(o->kind))) return C_ANY;       /* the header documents the request for the other object type only */
   if (r->dom==D_ANY) return C_ANY;
   if (s==S_BITRATE){
      if (x==OPUS_AUTO||x==OPUS_BITRATE_MAX) return C_LEGAL;
      if (x<=0) return C_ILLEGAL;                              /* a non-positive rate that is not one of the two sentinels */
      if (x>=500&&x<=512000) return C_LEGAL;
      return C_EITHER;                                         /* 1..499 and >512000: "not meaningful" — clamp or reject */
   }
   if (!in_domain(r,x)) return C_ILLEGAL;
   if (s==S_APPLICATION && base==B_ONEFRAME && !reset) return C_EITHER;   /* header silent on changing it mid-stream */
   if (s==S_FORCE_CHANNELS && x==2 && o->coupled<o->streams) return C_EITHER; /* forced stereo where a mono stream / mono input exists */
   return C_LEGAL;
}
/* acceptable values of the matching getter after an accepted SET; returns count, -1 = no definite expectation */
static int readback_set(const obj_t *o,int base,int reset,int s,opus_int32 x,opus_int32 *cand){
   int n=0;
   if (base==B_MONO) base=B_ONEFRAME;
   if (s!=S_BITRATE){ cand[0]=x; return 1; }
   if (o->kind==K_ENC){
      int F[2],nf=0,i;
      if (base==B_FRESH) F[nf++]=o->Fs/400; else if (base==B_ONEFRAME&&!reset) F[nf++]=o->Fs/50; else { F[nf++]=o->Fs/400; F[nf++]=o->Fs/50; }
      if (x==OPUS_AUTO){ for(i=0;i<nf;i++) cand[n++]=60*o->Fs/F[i]+o->Fs*o->ch; }
      else if (x==OPUS_BITRATE_MAX){ for(i=0;i<nf;i++) cand[n++]=1276*8*o->Fs/F[i]; }
      else { opus_int32 a=x<500?500:x; cand[n++]= a>300000*o->ch?300000*o->ch:a; cand[n++]= a>512000?512000:a; }
      return n;
   }
   /* multistream / projection: only an explicit rate that no documented or per-channel clamp can touch has a definite read-back */
   if (x>=500*o->ch && x<=300000*o->ch && x<=512000 && x>0){ cand[0]=x; return 1; }
   return -1;
}

typedef struct { const obj_t *o; int base; const node_t *n; const op_t *op; } ctx_t;
static void failx(const ctx_t *c,const char *clause,const char *req,const char *fmt,...) __attribute__((format(printf,4,5)));
static void failx(const ctx_t *c,const char *clause,const char *req,const char *fmt,...){
   char sig[96],msg[1200]; va_list ap; va_start(ap,fmt); vsnprintf(msg,sizeof msg,fmt,ap); va_end(ap);
   snprintf(sig,sizeof sig,"%s:%s:%s",clause,KNAME[c->o->kind],req);
   mc_fail(sig,"%s | history: %s then %s | %s",cfg_str(c->o,c->base),hist_str(c->n),op_str(c->op),msg);
}

/* applies op to the object (which holds the image of node n), checks the oracle, returns the library's return code */
static unsigned char *mbuf; /* scratch for matrices */
static int apply(const obj_t *o,const op_t *op,int check,const ctx_t *c,const vec_t *G,vec_t *G2,opus_int32 *M2,int *reset2){
   int ret=0; opus_int32 dummy=POISON;
   switch(op->type){
   case OP_SET: ret=ctl_i(o,SETS[op->a].set,op->x); break;
   case OP_GETNULL: ret=ctl_p(o,GETS[op->a].req,NULL); break;
   case OP_UNKNOWN: ret=ctl_p(o,op->x,&dummy); break;
   case OP_RESET: ret=ctl_0(o,OPUS_RESET_STATE); if(reset2) *reset2=1; break;
   case OP_MSSTATE: { void *sub=(void*)0x1; ret=ctl_ip(o,IS_ENCTYPE(o->kind)?OPUS_MULTISTREAM_GET_ENCODER_STATE_REQUEST:OPUS_MULTISTREAM_GET_DECODER_STATE_REQUEST,op->x,op->a?NULL:&sub);
        if(check){ int legal = op->x>=0&&op->x<o->streams&&!op->a;
           if (legal&&(ret!=OPUS_OK||sub==NULL||sub==(void*)0x1)) failx(c,"legal-rejected","MULTISTREAM_GET_STATE","ret=%d ptr=%p",ret,sub);
           if (!legal&&ret!=OPUS_BAD_ARG) failx(c,ret==OPUS_OK?"illegal-accepted":"wrong-error","MULTISTREAM_GET_STATE","stream index %d of %d, %s pointer: ret=%d (documented: OPUS_BAD_ARG)",op->x,o->streams,op->a?"NULL":"valid",ret); } } break;
   case OP_MATRIX: { opus_int32 need=2*o->ch*(o->streams+o->coupled), sz; unsigned char *b=NULL;
        if (op->a==0){ sz=need+op->x; b=malloc(sz>0?sz:1); } else if (op->a==2){ sz=op->x; b=malloc(1); } else sz=need;
        ret=ctl_pi(o,OPUS_PROJECTION_GET_DEMIXING_MATRIX_REQUEST,b,sz);
        if(check && o->kind==K_PROJENC){
           if (b&&sz==need&&ret!=OPUS_OK) failx(c,"legal-rejected","DEMIXING_MATRIX","exact size %d: ret=%d",sz,ret);
           if ((!b||sz<need)&&ret>=0) failx(c,"illegal-accepted","DEMIXING_MATRIX","%s size=%d need=%d: ret=%d",b?"buf":"NULL",sz,need,ret);
        }
        free(b); } break;
   default: ret=ctl_pi(o,OPUS_SET_DNN_BLOB_REQUEST,op->a?(void*)&dummy:NULL,op->x); break;
   }
   if (!check) return ret;
   read_vec(o,G2);
   MC_INC(c_trans); MC_INC(c_eval);
   if (ret<0) MC_INC(c_rej); else MC_INC(c_ok);
   /* --- generic clause: an error return leaves every setting unchanged */
   if (ret<0 && !vec_eq(G,G2)){
      const char *rq = op->type==OP_SET?SETS[op->a].n:op->type==OP_GETNULL?GETS[op->a].n:op->type==OP_UNKNOWN?"unknown":op->type==OP_MSSTATE?"MULTISTREAM_GET_STATE":op->type==OP_MATRIX?"DEMIXING_MATRIX":"DNN_BLOB";
      failx(c,"rejected-but-changed",rq,"returned %d yet the getter vector changed: %s",ret,vec_diff(G,G2));
   }
   if (op->type==OP_SET){
      const setreq *r=&SETS[op->a]; int cls=classify(o,c->base,c->n->reset,op->a,op->x); opus_int32 cand[4]; int nc,i,hit=0;
      int gret=G2->v[2*r->g], gval=G2->v[2*r->g+1];
      if (cls==C_LEGAL && ret!=OPUS_OK) failx(c,"legal-rejected",r->n,"documented legal value %d returned %d",op->x,ret);
      if (cls==C_ILLEGAL && ret==OPUS_OK) failx(c,"illegal-accepted",r->n,"value %d is outside the documented domain but returned OPUS_OK; getter now reads (ret %d, %d)",op->x,gret,gval);
      if ((cls==C_ILLEGAL||cls==C_EITHER) && ret<0 && ret!=OPUS_BAD_ARG) failx(c,"wrong-error",r->n,"value %d rejected with %d instead of OPUS_BAD_ARG",op->x,ret);
      if (ret==OPUS_OK && cls!=C_ILLEGAL){
         nc=readback_set(o,c->base,c->n->reset,op->a,op->x,cand);
         if (gret!=OPUS_OK){ if (cls!=C_ANY) failx(c,"getter-missing",r->n,"SET(%d) returned OPUS_OK but the matching getter returns %d",op->x,gret); }
         else if (nc>=0){
            for(i=0;i<nc;i++) if(gval==cand[i]) hit=1;
            if(!hit){
               /* ":stale" = the getter did not move at all (it reports something other than the configured value, e.g. the
                  last coded frame's); any other wrong read-back keeps the plain signature */
               char ex[48]; if(nc>1) snprintf(ex,sizeof ex,"%d or %d",cand[0],cand[1]); else snprintf(ex,sizeof ex,"%d",cand[0]);
               failx(c, gval==G->v[2*r->g+1]&&G->v[2*r->g]==OPUS_OK ? "readback-stale":"readback",r->n,"SET(%d) returned OPUS_OK but the matching getter reads %d (expected %s; it read %d before the call)",op->x,gval,ex,G->v[2*r->g+1]);
            }
         }
         /* shadow map: remember accepted settings the getter does not show */
         if (M2 && (gret!=OPUS_OK || gval!=op->x)) M2[op->a]=op->x; else if (M2) M2[op->a]=UNSET;
         /* advisory only (the statement does not forbid it): an accepted SET that moved another SETTING's getter */
         { int s2; for(s2=0;s2<NSETS;s2++) if(s2!=op->a){ int g=SETS[s2].g; if (G->v[2*g]==OPUS_OK && G2->v[2*g]==OPUS_OK && G->v[2*g+1]!=G2->v[2*g+1] && !(op->a==S_APPLICATION)) { MC_INC(c_adv); mc_info("advisory: %s: %s changed GET_%s %d -> %d",cfg_str(o,c->base),op_str(op),SETS[s2].n,G->v[2*g+1],G2->v[2*g+1]); } } }
         if (mc_set_add(S_obs,mc_mix(mc_mix(o->kind,op->a),mc_mix((uint32_t)op->x,(uint32_t)gval))))
            mc_sample("%s | history: %s then %s -> OPUS_OK, GET_%s reads %d [class %s]",cfg_str(o,c->base),hist_str(c->n),op_str(op),r->n,gval,CNAME[cls]);
      }
   } else if (op->type==OP_GETNULL){
      int implemented = G->v[2*op->a]==OPUS_OK;
      if (ret>=0) failx(c,"null-accepted",GETS[op->a].n,"NULL pointer returned %d",ret);
      else if (implemented && ret!=OPUS_BAD_ARG) failx(c,"null-wrong-error",GETS[op->a].n,"NULL pointer returned %d instead of OPUS_BAD_ARG (the getter is implemented on this object)",ret);
   } else if (op->type==OP_UNKNOWN){
      if (ret!=OPUS_UNIMPLEMENTED) failx(c,"unknown-wrong-code","unknown","request number %d returned %d instead of OPUS_UNIMPLEMENTED",op->x,ret);
   } else if (op->type==OP_RESET){
      if (ret!=OPUS_OK) failx(c,"legal-rejected","RESET_STATE","returned %d",ret);
      else { int s2; mc_set_add(S_obs,mc_mix(o->kind,0x7e5e7));
         /* OPUS_RESET_STATE carries no value: a setting that an earlier request applied must still be reported by its getter.
            Not judged: BITRATE / BANDWIDTH, whose getters are documented to resolve AUTO from / report the last coded frame. */
         for(s2=0;s2<NSETS;s2++){ int g=SETS[s2].g; if(s2==S_BITRATE||g==G_BANDWIDTH||!(SETS[s2].types&type_of_kind(o->kind))) continue;
            if (G->v[2*g]==OPUS_OK && G2->v[2*g]==OPUS_OK && G->v[2*g+1]!=G2->v[2*g+1]) failx(c,"reset-changed-setting",SETS[s2].n,"GET_%s read %d before OPUS_RESET_STATE and %d after",SETS[s2].n,G->v[2*g+1],G2->v[2*g+1]); } }
   }
   return ret;
}

static uint64_t state_key(const item_t *it,int itemno,const vec_t *V,const opus_int32 *M,int reset){
   uint64_t h=mc_hash(V->v,V->n*sizeof(opus_int32),0xC11+itemno);
   h=mc_mix(h,mc_hash(M,NSETS*sizeof(opus_int32),reset)); (void)it; return h;
}

static void make_base(obj_t *o,int base){
   short *pcm; unsigned char pkt[8000]; int n=o->Fs/50, len; siggen g;
   if (base==B_FRESH) return;
   pcm=malloc(sizeof(short)*n*(o->ch>8?o->ch:8)*2);
   if (IS_ENCTYPE(o->kind)){
      sig_init(&g,SIG_SPEECH,o->Fs,o->ch,1); sig_gen(&g,pcm,n);
      if (base==B_MONO && ctl_i(o,OPUS_SET_FORCE_CHANNELS_REQUEST,1)!=OPUS_OK){ fprintf(stderr,"base: force mono failed\n"); exit(2); }
      len=obj_encode(o,pcm,n,pkt,sizeof pkt);
      if (len<=0){ fprintf(stderr,"base encode failed %d\n",len); exit(2); }
      if (base==B_MONO){ if ((len>0&&(pkt[0]&4)) || ctl_i(o,OPUS_SET_FORCE_CHANNELS_REQUEST,OPUS_AUTO)!=OPUS_OK){ fprintf(stderr,"base: mono frame not mono\n"); exit(2); } }
   } else {
      obj_t e=*o; e.p=NULL; e.kind = o->kind==K_DEC?K_ENC:o->kind==K_MSDEC?K_MSENC:K_PROJENC; e.app=OPUS_APPLICATION_AUDIO; e.family=-1;
      if (o->kind==K_MSDEC){ int i; e.ch=o->streams+o->coupled; for(i=0;i<e.ch;i++) e.mapping[i]=i; }
      if (obj_create(&e)!=OPUS_OK){ fprintf(stderr,"partner encoder failed\n"); exit(2); }
      sig_init(&g,SIG_SPEECH,o->Fs,e.ch,1); sig_gen(&g,pcm,n);
      len=obj_encode(&e,pcm,n,pkt,sizeof pkt);
      obj_destroy(&e);
      if (len<=0 || obj_decode(o,pkt,len,pcm,n)!=n){ fprintf(stderr,"base decode failed\n"); exit(2); }
   }
   if (base==B_RESET) ctl_0(o,OPUS_RESET_STATE);
   free(pcm);
}

static void run_item(long itemno,void *unused){
   item_t *it=&ITEMS[itemno]; obj_t o=it->o; unsigned char *img0,*img; node_t *nodes; long nn=0,head=0,cap; lset seen; vec_t G,G2; int i; ctx_t c;
   (void)unused;
   mc_case("create","%s",cfg_str(&o,it->base));
   if (obj_create(&o)!=OPUS_OK||!o.p||o.size<=0){ mc_fail("harness:create","%s could not be created",cfg_str(&o,it->base)); return; }
   make_base(&o,it->base);
   build_ops(&o);
   img0=malloc(o.size); img=malloc(o.size); memcpy(img0,o.p,o.size);
   cap = DEPTH>=3? 400000 : 40000; nodes=malloc(sizeof(node_t)*cap); ls_init(&seen,DEPTH>=3?22:18);
   memset(&nodes[0],0,sizeof(node_t)); for(i=0;i<NSETS;i++) nodes[0].M[i]=UNSET;
   read_vec(&o,&G); nodes[0].key=state_key(it,(int)itemno,&G,nodes[0].M,0); ls_add(&seen,nodes[0].key); mc_set_add(S_states,nodes[0].key); nn=1;
   c.o=&o; c.base=it->base;
   for(head=0;head<nn;head++){
      node_t n=nodes[head]; int k;
      if (n.depth>=DEPTH) break;   /* BFS order: all later nodes are at least as deep */
      /* rebuild the image of this state: base image + its history (already checked when it was discovered) */
      memcpy(o.p,img0,o.size);
      for(i=0;i<n.depth;i++) apply(&o,&n.hist[i],0,NULL,NULL,NULL,NULL,NULL);
      memcpy(img,o.p,o.size);
      read_vec(&o,&G);
      c.n=&n;
      for(k=0;k<nops;k++){
         node_t m=n; int reset2=n.reset; uint64_t key;
         if (k) memcpy(o.p,img,o.size);
         c.op=&OPS[k];
         mc_case("ctl","%s | history: %s then %s",cfg_str(&o,it->base),hist_str(&n),op_str(&OPS[k]));
         apply(&o,&OPS[k],1,&c,&G,&G2,m.M,&reset2);
         m.reset=reset2; m.hist[n.depth]=OPS[k]; m.depth=n.depth+1;
         key=state_key(it,(int)itemno,&G2,m.M,m.reset);
         if (ls_add(&seen,key)){
            mc_set_add(S_states,key); m.key=key; MC_MAX(c_maxdepth,m.depth);
            if (m.depth<DEPTH){ if(nn<cap) nodes[nn++]=m; else mc_capped("node table full: some depth-2 states not expanded"); }
         }
      }
   }
   MC_ADD(c_nodes,nn);
   free(nodes); free(seen.t); free(img0); free(img);
   obj_destroy(&o);
}

static void add_item(obj_t o){ int b; for(b=0;b<NBASE;b++){ if(b==B_MONO&&!(o.kind==K_ENC&&o.ch==2)) continue; ITEMS[nitems].o=o; ITEMS[nitems].base=b; nitems++; } }

int main(int argc,char **argv){
   static const int FS[5]={8000,12000,16000,24000,48000}; static const int APPS[3]={OPUS_APPLICATION_VOIP,OPUS_APPLICATION_AUDIO,OPUS_APPLICATION_RESTRICTED_LOWDELAY};
   int f,ch,a,l; obj_t o;
   mc_init(argc,argv,"C11","ctl");
   DEPTH=(int)mc_arg("--depth",MC.tier?3:2);
   c_trans=mc_counter("transitions"); c_eval=mc_counter("evaluations"); c_ok=mc_counter("accepted_calls"); c_rej=mc_counter("rejected_calls");
   c_adv=mc_counter("advisory_cross_setting_changes"); c_maxdepth=mc_counter("max_depth_reached"); c_nodes=mc_counter("expanded_states");
   S_states=mc_set_new(25); S_obs=mc_set_new(16);
   ITEMS=calloc(400,sizeof(item_t));
   memset(&o,0,sizeof o); o.family=-1;
   for(f=0;f<5;f++) for(ch=1;ch<=2;ch++) for(a=0;a<3;a++){ o.kind=K_ENC; o.Fs=FS[f]; o.ch=ch; o.app=APPS[a]; add_item(o); }
   for(f=0;f<5;f++) for(ch=1;ch<=2;ch++){ o.kind=K_DEC; o.Fs=FS[f]; o.ch=ch; o.app=0; add_item(o); }
   for(f=2;f<5;f+=2) for(a=1;a<3;a++) for(l=0;l<4;l++){
      memset(&o,0,sizeof o); o.kind=K_MSENC; o.Fs=FS[f]; o.app=APPS[a]; o.family=-1;
      if (l==0){ o.ch=2;o.streams=1;o.coupled=1; o.mapping[0]=0;o.mapping[1]=1; }
      else if (l==1){ o.ch=3;o.streams=2;o.coupled=1; o.mapping[0]=0;o.mapping[1]=1;o.mapping[2]=2; }
      else if (l==2){ o.ch=2;o.streams=2;o.coupled=0; o.mapping[0]=0;o.mapping[1]=1; }
      else { o.ch=6; o.family=1; }
      add_item(o);
   }
   for(f=0;f<5;f+=4) for(l=0;l<3;l++){
      memset(&o,0,sizeof o); o.kind=K_MSDEC; o.Fs=FS[f]; o.family=-1;
      if (l==0){ o.ch=2;o.streams=1;o.coupled=1; o.mapping[0]=0;o.mapping[1]=1; }
      else if (l==1){ o.ch=3;o.streams=2;o.coupled=1; o.mapping[0]=0;o.mapping[1]=1;o.mapping[2]=2; }
      else { o.ch=3;o.streams=1;o.coupled=1; o.mapping[0]=0;o.mapping[1]=1;o.mapping[2]=255; }
      add_item(o);
   }
   for(f=2;f<5;f+=2) for(a=1;a<3;a++) for(ch=4;ch<=6;ch+=2){ memset(&o,0,sizeof o); o.kind=K_PROJENC; o.Fs=FS[f]; o.app=APPS[a]; o.ch=ch; o.family=-1; add_item(o); }
   for(f=2;f<5;f+=2) for(ch=4;ch<=6;ch+=2){ memset(&o,0,sizeof o); o.kind=K_PROJDEC; o.Fs=FS[f]; o.ch=ch; o.family=-1; add_item(o); }
   mc_par(nitems,run_item,NULL);
   { mc_ctr *st=mc_counter("states"),*dn=mc_counter("distinct_nontrivial"); *st=mc_set_count(S_states); *dn=mc_set_count(S_obs); }
   return mc_finish();
}
