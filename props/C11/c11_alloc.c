/* C11 part "alloc" — every create function reports allocation failure (NULL + OPUS_ALLOC_FAIL) without leaking or crashing.
 *
 * Fault enumeration by link-time interposition (-Wl,--wrap=malloc,--wrap=calloc,--wrap=realloc,--wrap=free; no source hook):
 * for every create function of the library and every configuration in a grid (valid ones, and invalid ones that are only
 * detected AFTER the allocation so that the error path must free), the call is first run fault-free to COUNT its allocations N,
 * then re-run N times with the k-th allocation failing, k = 1..N — all k, nothing sampled.
 * Oracle (statement): a failed allocation => NULL and error == OPUS_ALLOC_FAIL; after every call that returned NULL the number of
 * blocks handed out equals the number freed (no leak); after create+destroy likewise; no block is freed that was not handed out;
 * no crash (ASan build).  The error pointer is also passed as NULL.
 */
#include "c11_common.h"

extern void *__real_malloc(size_t); extern void *__real_calloc(size_t,size_t); extern void *__real_realloc(void*,size_t); extern void __real_free(void*);
static volatile int armed; static long a_count,a_failat,a_failed,a_foreign;
#define MAXLIVE 64
static void *live[MAXLIVE]; static int nlive;
static void track(void *p){ if(p&&nlive<MAXLIVE) live[nlive++]=p; }
static int untrack(void *p){ int i; for(i=0;i<nlive;i++) if(live[i]==p){ live[i]=live[--nlive]; return 1; } return 0; }
void *__wrap_malloc(size_t n){ void *p; if(!armed) return __real_malloc(n); if(++a_count==a_failat){ a_failed++; return NULL; } p=__real_malloc(n); track(p); return p; }
void *__wrap_calloc(size_t a,size_t b){ void *p; if(!armed) return __real_calloc(a,b); if(++a_count==a_failat){ a_failed++; return NULL; } p=__real_calloc(a,b); track(p); return p; }
void *__wrap_realloc(void *q,size_t n){ void *p; if(!armed) return __real_realloc(q,n); if(++a_count==a_failat){ a_failed++; return NULL; } if(q&&!untrack(q)) a_foreign++; p=__real_realloc(q,n); track(p); return p; }
void __wrap_free(void *p){ if(armed&&p&&!untrack(p)) a_foreign++; __real_free(p); }

enum { F_ENC, F_DEC, F_MSENC, F_SURR, F_MSDEC, F_PROJENC, F_PROJDEC, F_RP, F_DREDDEC, F_DRED, F_N };
static const char *const FNAME[F_N]={"opus_encoder_create","opus_decoder_create","opus_multistream_encoder_create","opus_multistream_surround_encoder_create",
   "opus_multistream_decoder_create","opus_projection_ambisonics_encoder_create","opus_projection_decoder_create","opus_repacketizer_create","opus_dred_decoder_create","opus_dred_alloc"};
typedef struct { int fn; opus_int32 Fs; int ch,st,co,fam,app; int badmap; int size_delta; int valid; } var_t;
static var_t *V; static int nv;
static unsigned char *matrix; static opus_int32 matrix_size;   /* projection decoder input, prepared before arming */

static mc_ctr *c_eval,*c_faults,*c_allocs;
static mc_set *S_cls,*S_obs;

static const char *vdesc(const var_t *v){
   static char b[200];
   snprintf(b,sizeof b,"%s(Fs=%d channels=%d streams=%d coupled=%d family=%d application=%d%s%s)",FNAME[v->fn],v->Fs,v->ch,v->st,v->co,v->fam,v->app,v->badmap?" invalid-mapping":"",v->size_delta?" wrong-matrix-size":"");
   return b;
}
static void *mk(const var_t *v,int *err){
   unsigned char map[256]; int i,st=v->st,co=v->co;
   for(i=0;i<256;i++) map[i]=(unsigned char)(i<st+co?i:255);
   if (v->badmap) map[0]=(unsigned char)(st+co);          /* index past the coded channels (never 255 = muted: such layouts get no badmap variant): rejected by the layout validation inside init */
   switch(v->fn){
   case F_ENC: return opus_encoder_create(v->Fs,v->ch,v->app,err);
   case F_DEC: return opus_decoder_create(v->Fs,v->ch,err);
   case F_MSENC: return opus_multistream_encoder_create(v->Fs,v->ch,st,co,map,v->app,err);
   case F_SURR: return opus_multistream_surround_encoder_create(v->Fs,v->ch,v->fam,&st,&co,map,v->app,err);
   case F_MSDEC: return opus_multistream_decoder_create(v->Fs,v->ch,st,co,map,err);
   case F_PROJENC: return opus_projection_ambisonics_encoder_create(v->Fs,v->ch,v->fam,&st,&co,v->app,err);
   case F_PROJDEC: return opus_projection_decoder_create(v->Fs,v->ch,st,co,matrix,matrix_size+v->size_delta,err);
   case F_RP: return opus_repacketizer_create();
   case F_DREDDEC: return opus_dred_decoder_create(err);
   default: return opus_dred_alloc(err);
   }
}
static void rm(const var_t *v,void *p){
   switch(v->fn){
   case F_ENC: opus_encoder_destroy(p); break; case F_DEC: opus_decoder_destroy(p); break;
   case F_MSENC: case F_SURR: opus_multistream_encoder_destroy(p); break; case F_MSDEC: opus_multistream_decoder_destroy(p); break;
   case F_PROJENC: opus_projection_encoder_destroy(p); break; case F_PROJDEC: opus_projection_decoder_destroy(p); break;
   case F_RP: opus_repacketizer_destroy(p); break; case F_DREDDEC: opus_dred_decoder_destroy(p); break; default: opus_dred_free(p); break;
   }
}
static void prep_matrix(const var_t *v){
   free(matrix); matrix=NULL; matrix_size=0;
   if (v->fn==F_PROJDEC){
      int s=0,c=0,e=0; OpusProjectionEncoder *pe=opus_projection_ambisonics_encoder_create(48000,v->ch,3,&s,&c,OPUS_APPLICATION_AUDIO,&e);
      if(!pe){ fprintf(stderr,"prep_matrix failed\n"); exit(2); }
      opus_projection_encoder_ctl(pe,OPUS_PROJECTION_GET_DEMIXING_MATRIX_SIZE(&matrix_size));
      matrix=malloc(matrix_size+8); opus_projection_encoder_ctl(pe,OPUS_PROJECTION_GET_DEMIXING_MATRIX(matrix,matrix_size));
      opus_projection_encoder_destroy(pe);
   }
}

/* one armed call; returns pointer, fills observation */
typedef struct { void *p; int err; long allocs, failed, leaked, foreign; } obs_t;
static void call(const var_t *v,long failat,int use_err,obs_t *o){
   o->err=-12345; nlive=0; a_count=0; a_failed=0; a_foreign=0; a_failat=failat;
   armed=1; o->p=mk(v,use_err?&o->err:NULL); armed=0;
   o->allocs=a_count; o->failed=a_failed; o->foreign=a_foreign;
   o->leaked = nlive - (o->p?1:0);       /* a returned object legitimately owns its block(s); see destroy check below */
   MC_INC(c_eval);
}
static void destroy_checked(const var_t *v,obs_t *o,const char *when){
   char sig[96];
   if(!o->p) return;
   a_foreign=0; armed=1; rm(v,o->p); armed=0;
   if (nlive!=0 || a_foreign){ snprintf(sig,sizeof sig,"alloc:%s:destroy-unbalanced",FNAME[v->fn]); mc_fail(sig,"%s %s: after destroy %d block(s) still live, %ld foreign free(s)",vdesc(v),when,nlive,a_foreign); }
}

static void run_item(long it,void *u){
   const var_t *v=&V[it]; obs_t o; long N,k; int ue; char sig[96]; (void)u;
   prep_matrix(v);
   for(ue=1;ue>=0;ue--){
      mc_case(FNAME[v->fn],"%s fault-free, error pointer %s",vdesc(v),ue?"given":"NULL");
      call(v,0,ue,&o); N=o.allocs; MC_ADD(c_allocs,N);
      if (v->valid && !o.p){ snprintf(sig,sizeof sig,"alloc:%s:valid-rejected",FNAME[v->fn]); mc_fail(sig,"%s -> NULL error=%d without any injected fault",vdesc(v),o.err); }
      if (!v->valid && o.p && v->fn<F_RP){ snprintf(sig,sizeof sig,"alloc:%s:invalid-accepted",FNAME[v->fn]); mc_fail(sig,"%s -> object",vdesc(v)); }
      if (!o.p && ue && o.err>=0 && v->fn!=F_RP){ snprintf(sig,sizeof sig,"alloc:%s:null-without-error",FNAME[v->fn]); mc_fail(sig,"%s -> NULL but error=%d",vdesc(v),o.err); }
      if (!o.p && nlive!=0){ snprintf(sig,sizeof sig,"alloc:%s:leak-on-rejection",FNAME[v->fn]); mc_fail(sig,"%s -> NULL (error=%d) but %d of %ld allocated block(s) were not freed",vdesc(v),o.err,nlive,N); }
      if (o.foreign){ snprintf(sig,sizeof sig,"alloc:%s:foreign-free",FNAME[v->fn]); mc_fail(sig,"%s freed %ld block(s) it never allocated",vdesc(v),o.foreign); }
      mc_set_add(S_cls,mc_mix(mc_mix(it,0),mc_mix(o.p!=NULL,(uint32_t)o.err)));
      if (o.p && mc_set_add(S_obs,mc_mix(it,1000+ue))) mc_sample("%s fault-free: %ld allocation(s), object created; destroy frees all",vdesc(v),N);
      destroy_checked(v,&o,"fault-free");
      for(k=1;k<=N;k++){
         mc_case(FNAME[v->fn],"%s with allocation #%ld of %ld failing, error pointer %s",vdesc(v),k,N,ue?"given":"NULL");
         call(v,k,ue,&o); MC_INC(c_faults);
         if (o.failed!=1){ mc_fail("harness:fault-not-injected","%s k=%ld: %ld faults injected",vdesc(v),k,o.failed); continue; }
         if (o.p){ snprintf(sig,sizeof sig,"alloc:%s:fault-ignored",FNAME[v->fn]); mc_fail(sig,"%s: allocation #%ld failed but an object was returned",vdesc(v),k); }
         else {
            if (ue && v->fn!=F_RP && o.err!=OPUS_ALLOC_FAIL){ snprintf(sig,sizeof sig,"alloc:%s:wrong-error",FNAME[v->fn]); mc_fail(sig,"%s: allocation #%ld failed, NULL returned but error=%d instead of OPUS_ALLOC_FAIL",vdesc(v),k,o.err); }
            if (nlive!=0){ snprintf(sig,sizeof sig,"alloc:%s:leak-on-fault",FNAME[v->fn]); mc_fail(sig,"%s: allocation #%ld failed, %d block(s) leaked",vdesc(v),k,nlive); }
            if (mc_set_add(S_obs,mc_mix(it,mc_mix(k,ue))) && ue) mc_sample("%s with allocation #%ld of %ld failing -> NULL, error=%d, %d live blocks",vdesc(v),k,N,o.err,nlive);
         }
         if (o.foreign){ snprintf(sig,sizeof sig,"alloc:%s:foreign-free",FNAME[v->fn]); mc_fail(sig,"%s k=%ld freed %ld foreign block(s)",vdesc(v),k,o.foreign); }
         mc_set_add(S_cls,mc_mix(mc_mix(it,k),mc_mix(o.p!=NULL,(uint32_t)o.err)));
         destroy_checked(v,&o,"after ignored fault");
      }
   }
}

static void addv(int fn,opus_int32 Fs,int ch,int st,int co,int fam,int app,int badmap,int sd,int valid){
   var_t *v=&V[nv++]; v->fn=fn; v->Fs=Fs; v->ch=ch; v->st=st; v->co=co; v->fam=fam; v->app=app; v->badmap=badmap; v->size_delta=sd; v->valid=valid;
}
int main(int argc,char **argv){
   static const int FSS[5]={8000,12000,16000,24000,48000}; static const int APPS[3]={OPUS_APPLICATION_VOIP,OPUS_APPLICATION_AUDIO,OPUS_APPLICATION_RESTRICTED_LOWDELAY};
   static const int LAY[6][3]={{1,1,0},{2,1,1},{3,2,1},{2,2,0},{6,4,2},{255,255,0}};
   int f,c,a,l;
   mc_init(argc,argv,"C11","alloc");
   c_eval=mc_counter("evaluations"); c_faults=mc_counter("faults_injected"); c_allocs=mc_counter("allocations_counted");
   S_cls=mc_set_new(14); S_obs=mc_set_new(14);
   V=calloc(1024,sizeof(var_t));
   for(f=0;f<5;f++) for(c=1;c<=2;c++) for(a=0;a<3;a++) addv(F_ENC,FSS[f],c,0,0,0,APPS[a],0,0,1);
   addv(F_ENC,44100,2,0,0,0,APPS[1],0,0,0); addv(F_ENC,48000,3,0,0,0,APPS[1],0,0,0); addv(F_ENC,48000,2,0,0,0,0,0,0,0);
   for(f=0;f<5;f++) for(c=1;c<=2;c++) addv(F_DEC,FSS[f],c,0,0,0,0,0,0,1);
   addv(F_DEC,44100,2,0,0,0,0,0,0,0); addv(F_DEC,48000,0,0,0,0,0,0,0,0);
   for(l=0;l<6;l++) for(f=0;f<5;f+=2) for(a=0;a<3;a++) addv(F_MSENC,FSS[f],LAY[l][0],LAY[l][1],LAY[l][2],0,APPS[a],0,0,1);
   for(l=0;l<6;l++){ addv(F_MSENC,44100,LAY[l][0],LAY[l][1],LAY[l][2],0,APPS[1],0,0,0);     /* detected only inside init, after the allocation */
                     addv(F_MSENC,48000,LAY[l][0],LAY[l][1],LAY[l][2],0,2050,0,0,0);
                     if (LAY[l][1]+LAY[l][2]<255) addv(F_MSENC,48000,LAY[l][0],LAY[l][1],LAY[l][2],0,APPS[1],1,0,0); }
   addv(F_MSENC,48000,2,0,0,0,APPS[1],0,0,0); addv(F_MSENC,48000,256,1,0,0,APPS[1],0,0,0);
   { static const int SC[9][2]={{0,1},{0,2},{1,1},{1,2},{1,3},{1,6},{1,8},{255,3},{2,4}}; int i;
     for(i=0;i<9;i++) for(f=0;f<5;f+=4) for(a=0;a<3;a+=2) addv(F_SURR,FSS[f],SC[i][1],0,0,SC[i][0],APPS[a],0,0,1);
     for(i=0;i<9;i++){ addv(F_SURR,44100,SC[i][1],0,0,SC[i][0],APPS[1],0,0,0); addv(F_SURR,48000,SC[i][1],0,0,SC[i][0],7,0,0,0); }
     addv(F_SURR,48000,9,0,0,1,APPS[1],0,0,0); addv(F_SURR,48000,3,0,0,0,APPS[1],0,0,0); addv(F_SURR,48000,5,0,0,2,APPS[1],0,0,0); addv(F_SURR,48000,0,0,0,1,APPS[1],0,0,0); }
   for(l=0;l<6;l++) for(f=0;f<5;f+=2) addv(F_MSDEC,FSS[f],LAY[l][0],LAY[l][1],LAY[l][2],0,0,0,0,1);
   for(l=0;l<6;l++){ addv(F_MSDEC,44100,LAY[l][0],LAY[l][1],LAY[l][2],0,0,0,0,0); if (LAY[l][1]+LAY[l][2]<255) addv(F_MSDEC,48000,LAY[l][0],LAY[l][1],LAY[l][2],0,0,1,0,0); }
   addv(F_MSDEC,48000,2,0,0,0,0,0,0,0);
   { static const int PC[6]={4,6,9,11,16,36}; int i;
     for(i=0;i<6;i++) for(f=0;f<5;f+=2) for(a=0;a<3;a+=2) addv(F_PROJENC,FSS[f],PC[i],0,0,3,APPS[a],0,0,1);
     for(i=0;i<6;i++){ addv(F_PROJENC,44100,PC[i],0,0,3,APPS[1],0,0,0); addv(F_PROJENC,48000,PC[i],0,0,3,5,0,0,0); }
     addv(F_PROJENC,48000,5,0,0,3,APPS[1],0,0,0); addv(F_PROJENC,48000,4,0,0,2,APPS[1],0,0,0);
     for(i=0;i<4;i++) for(f=0;f<5;f+=2) addv(F_PROJDEC,FSS[f],PC[i],(PC[i]+1)/2,PC[i]/2,0,0,0,0,1);
     for(i=0;i<4;i++){ addv(F_PROJDEC,44100,PC[i],(PC[i]+1)/2,PC[i]/2,0,0,0,0,0); addv(F_PROJDEC,48000,PC[i],(PC[i]+1)/2,PC[i]/2,0,0,0,-2,0); addv(F_PROJDEC,48000,PC[i],(PC[i]+1)/2,PC[i]/2,0,0,0,2,0); } }
   addv(F_RP,0,0,0,0,0,0,0,0,1);
   addv(F_DREDDEC,0,0,0,0,0,0,0,0,0); addv(F_DRED,0,0,0,0,0,0,0,0,0);   /* "valid" unknown: depends on the DRED build option; only consistency is judged */
   mc_par(nv,run_item,NULL);
   { mc_ctr *st=mc_counter("states"),*tr=mc_counter("transitions"),*dn=mc_counter("distinct_nontrivial"); *st=mc_set_count(S_cls); *tr=*c_eval; *dn=mc_set_count(S_obs); }
   return mc_finish();
}
