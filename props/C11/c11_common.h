/* c11_common.h — object abstraction shared by the C11 harness parts.
 *
 * Six object kinds behind one interface: OpusEncoder, OpusDecoder, OpusMSEncoder, OpusMSDecoder,
 * OpusProjectionEncoder, OpusProjectionDecoder.  All of them are documented as flat, position
 * independent and freely copyable, so snapshot/restore is memcpy of get_size() bytes.
 */
#ifndef C11_COMMON_H
#define C11_COMMON_H
#include <stdlib.h>
#include <string.h>
#include <limits.h>
#include "opus.h"
#include "opus_multistream.h"
#include "opus_projection.h"
#include "mc.h"
#include "signals.h"

enum { K_ENC=0, K_DEC, K_MSENC, K_MSDEC, K_PROJENC, K_PROJDEC, K_N };
static const char *const KNAME[K_N]={"enc","dec","msenc","msdec","projenc","projdec"};
#define IS_ENCTYPE(k) ((k)==K_ENC||(k)==K_MSENC||(k)==K_PROJENC)
#define IS_MS(k) ((k)>=K_MSENC)
#define MAXS 4

typedef struct {
   int kind, Fs, ch, app;           /* ch = total channel count */
   int streams, coupled, family;    /* multistream / projection */
   unsigned char mapping[8];
   void *p; int size;
} obj_t;

static int ctl_i(const obj_t *o,int req,opus_int32 v){
   switch(o->kind){
   case K_ENC: return opus_encoder_ctl((OpusEncoder*)o->p,req,v);
   case K_DEC: return opus_decoder_ctl((OpusDecoder*)o->p,req,v);
   case K_MSENC: return opus_multistream_encoder_ctl((OpusMSEncoder*)o->p,req,v);
   case K_MSDEC: return opus_multistream_decoder_ctl((OpusMSDecoder*)o->p,req,v);
   case K_PROJENC: return opus_projection_encoder_ctl((OpusProjectionEncoder*)o->p,req,v);
   default: return opus_projection_decoder_ctl((OpusProjectionDecoder*)o->p,req,v);
   }
}
static int ctl_p(const obj_t *o,int req,void *v){
   switch(o->kind){
   case K_ENC: return opus_encoder_ctl((OpusEncoder*)o->p,req,v);
   case K_DEC: return opus_decoder_ctl((OpusDecoder*)o->p,req,v);
   case K_MSENC: return opus_multistream_encoder_ctl((OpusMSEncoder*)o->p,req,v);
   case K_MSDEC: return opus_multistream_decoder_ctl((OpusMSDecoder*)o->p,req,v);
   case K_PROJENC: return opus_projection_encoder_ctl((OpusProjectionEncoder*)o->p,req,v);
   default: return opus_projection_decoder_ctl((OpusProjectionDecoder*)o->p,req,v);
   }
}
static int ctl_ip(const obj_t *o,int req,opus_int32 i,void *v){
   switch(o->kind){
   case K_ENC: return opus_encoder_ctl((OpusEncoder*)o->p,req,i,v);
   case K_DEC: return opus_decoder_ctl((OpusDecoder*)o->p,req,i,v);
   case K_MSENC: return opus_multistream_encoder_ctl((OpusMSEncoder*)o->p,req,i,v);
   case K_MSDEC: return opus_multistream_decoder_ctl((OpusMSDecoder*)o->p,req,i,v);
   case K_PROJENC: return opus_projection_encoder_ctl((OpusProjectionEncoder*)o->p,req,i,v);
   default: return opus_projection_decoder_ctl((OpusProjectionDecoder*)o->p,req,i,v);
   }
}
static int ctl_pi(const obj_t *o,int req,void *v,opus_int32 i){
   switch(o->kind){
   case K_ENC: return opus_encoder_ctl((OpusEncoder*)o->p,req,v,i);
   case K_DEC: return opus_decoder_ctl((OpusDecoder*)o->p,req,v,i);
   case K_MSENC: return opus_multistream_encoder_ctl((OpusMSEncoder*)o->p,req,v,i);
   case K_MSDEC: return opus_multistream_decoder_ctl((OpusMSDecoder*)o->p,req,v,i);
   case K_PROJENC: return opus_projection_encoder_ctl((OpusProjectionEncoder*)o->p,req,v,i);
   default: return opus_projection_decoder_ctl((OpusProjectionDecoder*)o->p,req,v,i);
   }
}
static int ctl_0(const obj_t *o,int req){
   switch(o->kind){
   case K_ENC: return opus_encoder_ctl((OpusEncoder*)o->p,req);
   case K_DEC: return opus_decoder_ctl((OpusDecoder*)o->p,req);
   case K_MSENC: return opus_multistream_encoder_ctl((OpusMSEncoder*)o->p,req);
   case K_MSDEC: return opus_multistream_decoder_ctl((OpusMSDecoder*)o->p,req);
   case K_PROJENC: return opus_projection_encoder_ctl((OpusProjectionEncoder*)o->p,req);
   default: return opus_projection_decoder_ctl((OpusProjectionDecoder*)o->p,req);
   }
}

static void obj_destroy(obj_t *o){
   if(!o->p) return;
   switch(o->kind){
   case K_ENC: opus_encoder_destroy((OpusEncoder*)o->p); break;
   case K_DEC: opus_decoder_destroy((OpusDecoder*)o->p); break;
   case K_MSENC: opus_multistream_encoder_destroy((OpusMSEncoder*)o->p); break;
   case K_MSDEC: opus_multistream_decoder_destroy((OpusMSDecoder*)o->p); break;
   case K_PROJENC: opus_projection_encoder_destroy((OpusProjectionEncoder*)o->p); break;
   default: opus_projection_decoder_destroy((OpusProjectionDecoder*)o->p); break;
   }
   o->p=NULL;
}

/* creates o->p from the configuration fields; for K_PROJDEC a projection encoder of the same shape supplies the matrix.
   returns the library's error code */
static int obj_create(obj_t *o){
   int err=OPUS_OK;
   switch(o->kind){
   case K_ENC: o->p=opus_encoder_create(o->Fs,o->ch,o->app,&err); o->size=opus_encoder_get_size(o->ch); o->streams=1; o->coupled=o->ch==2; break;
   case K_DEC: o->p=opus_decoder_create(o->Fs,o->ch,&err); o->size=opus_decoder_get_size(o->ch); o->streams=1; o->coupled=o->ch==2; break;
   case K_MSENC:
      if (o->family>=0){ o->p=opus_multistream_surround_encoder_create(o->Fs,o->ch,o->family,&o->streams,&o->coupled,o->mapping,o->app,&err);
                         o->size=opus_multistream_surround_encoder_get_size(o->ch,o->family); }
      else { o->p=opus_multistream_encoder_create(o->Fs,o->ch,o->streams,o->coupled,o->mapping,o->app,&err);
             o->size=opus_multistream_encoder_get_size(o->streams,o->coupled); }
      break;
   case K_MSDEC: o->p=opus_multistream_decoder_create(o->Fs,o->ch,o->streams,o->coupled,o->mapping,&err);
      o->size=opus_multistream_decoder_get_size(o->streams,o->coupled); break;
   case K_PROJENC: o->p=opus_projection_ambisonics_encoder_create(o->Fs,o->ch,3,&o->streams,&o->coupled,o->app,&err);
      o->size=opus_projection_ambisonics_encoder_get_size(o->ch,3); break;
   default: {
      int s=0,c=0,e2=0; opus_int32 msz=0; unsigned char *m;
      OpusProjectionEncoder *pe=opus_projection_ambisonics_encoder_create(o->Fs,o->ch,3,&s,&c,OPUS_APPLICATION_AUDIO,&e2);
      if(!pe) return e2;
      opus_projection_encoder_ctl(pe,OPUS_PROJECTION_GET_DEMIXING_MATRIX_SIZE(&msz));
      m=malloc(msz>0?msz:1);
      opus_projection_encoder_ctl(pe,OPUS_PROJECTION_GET_DEMIXING_MATRIX(m,msz));
      o->streams=s; o->coupled=c;
      o->p=opus_projection_decoder_create(o->Fs,o->ch,s,c,m,msz,&err);
      o->size=opus_projection_decoder_get_size(o->ch,s,c);
      free(m); opus_projection_encoder_destroy(pe);
      } break;
   }
   return err;
}

/* encode one frame with the matching encoder-type object */
static int obj_encode(const obj_t *o,const short *pcm,int n,unsigned char *out,int max){
   switch(o->kind){
   case K_ENC: return opus_encode((OpusEncoder*)o->p,pcm,n,out,max);
   case K_MSENC: return opus_multistream_encode((OpusMSEncoder*)o->p,pcm,n,out,max);
   case K_PROJENC: return opus_projection_encode((OpusProjectionEncoder*)o->p,pcm,n,out,max);
   default: return OPUS_BAD_ARG;
   }
}
static int obj_decode(const obj_t *o,const unsigned char *pkt,int len,short *pcm,int n){
   switch(o->kind){
   case K_DEC: return opus_decode((OpusDecoder*)o->p,pkt,len,pcm,n,0);
   case K_MSDEC: return opus_multistream_decode((OpusMSDecoder*)o->p,pkt,len,pcm,n,0);
   case K_PROJDEC: return opus_projection_decode((OpusProjectionDecoder*)o->p,pkt,len,pcm,n,0);
   default: return OPUS_BAD_ARG;
   }
}
#endif
