/* C11 part "mshonour" — settings made on a MULTISTREAM / PROJECTION encoder before the first frame bind every non-DTX sub-packet of
 * every stream thereafter ("settings ... bind every non-DTX packet thereafter", applied stream by stream).
 *
 * Objects (each x Fs x application): plain multistream encoders made by opus_multistream_encoder_create for the layouts
 * (streams,coupled) in {(1,1),(2,0),(2,1),(2,2),(3,1)}; ambisonics family 2 (4 channels) and family 3 (projection encoder, 4 channels);
 * surround family 1 (6 channels).  Every single setting out of {defaults, OPUS_SET_BANDWIDTH x5, OPUS_SET_MAX_BANDWIDTH x4,
 * OPUS_SET_FORCE_CHANNELS 1/2, OPUS_SET_EXPERT_FRAME_DURATION x9} x frame_size argument {2.5,5,10,20,40,60 ms} x per-channel bitrate
 * {default, 12 kb/s, 64 kb/s} x 2 signals (one sweep per channel at different levels; speech-like), --secs-x10/10 seconds each, and
 * (thorough, 48 and 16 kHz) all cross-dimension pairs of the settings at 5/20/60 ms with bitrate and signal rotating over the pairs.  Each packet is split with the RFC 6716 Appendix B model (mc/rfc_framing.h)
 * into its per-stream packets and each non-empty one is checked:
 *   duration  : every stream's packet holds the requested duration (expert duration, else the frame_size argument);
 *   channels  : forced channel count 1 => every stream codes mono; 2 (only accepted when every stream is coupled) => every stream stereo;
 *   bandwidth : <= min(forced else maximum bandwidth, Nyquist band), MDCT medium-band exception as in the statement;
 *   layer     : RESTRICTED_LOWDELAY or < 10 ms => MDCT-only.
 * The surround encoder (family 1) documents that it chooses bandwidth, mode and channel coupling per stream itself from the rate
 * allocation, so for it only the duration and layer clauses (and the getters) are judged.  After every frame the getters of the setting
 * made must still read it (except FORCE_CHANNELS on surround: known finding F24 territory, not judged here).
 */
#include "c11_common.h"
#include "rfc_framing.h"

typedef struct { int S,Cp,family,ch; const char *name; } layout_t;
static const layout_t LAY[]={ {1,1,0,2,"ms(1,1)"},{2,0,255,2,"ms(2,0)"},{2,1,255,3,"ms(2,1)"},{2,2,255,4,"ms(2,2)"},{3,1,255,4,"ms(3,1)"},
   {0,0,2,4,"ambisonics-family2-4ch"},{0,0,3,4,"projection-family3-4ch"},{0,0,1,6,"surround-5.1"} };
#define NLAY 8
enum { D_NONE,D_BANDWIDTH,D_MAXBW,D_FORCECH,D_EXPERT };
typedef struct { int dim,val; } setting;
static setting SET[24]; static int nset;
static const int FSS[5]={48000,16000,8000,24000,12000}; static int nFs=2;
static const int APPS[3]={OPUS_APPLICATION_VOIP,OPUS_APPLICATION_AUDIO,OPUS_APPLICATION_RESTRICTED_LOWDELAY};
static const int ARGU[6]={1,2,4,8,16,24};
static const int RATES[3]={0,12000,64000};
static int SECS_X10=10;
static mc_ctr *c_enc,*c_eval,*c_empty,*c_streams,*c_skipped,*c_sub,*c_refused2;
static mc_set *S_obs,*S_streams;

static int nyq(int Fs){ return Fs<=8000?OPUS_BANDWIDTH_NARROWBAND:Fs<=12000?OPUS_BANDWIDTH_MEDIUMBAND:Fs<=16000?OPUS_BANDWIDTH_WIDEBAND:Fs<=24000?OPUS_BANDWIDTH_SUPERWIDEBAND:OPUS_BANDWIDTH_FULLBAND; }
static int fd_units(int v){ static const int u[]={0,1,2,4,8,16,24,32,40,48}; return u[v-OPUS_FRAMESIZE_ARG]; }
static const char *sname(const setting *s,int n){ static char b[120]; int i,k=0; b[0]=0; if(!n) snprintf(b,sizeof b,"defaults");
   for(i=0;i<n;i++) k+=snprintf(b+k,sizeof b-k,"%s%s=%d",i?", ":"",s[i].dim==D_BANDWIDTH?"BANDWIDTH":s[i].dim==D_MAXBW?"MAX_BANDWIDTH":s[i].dim==D_FORCECH?"FORCE_CHANNELS":"EXPERT_FRAME_DURATION",s[i].val); return b; }

typedef struct { int proj; OpusMSEncoder *ms; OpusProjectionEncoder *pj; int S,Cp; } menc;
static int ectl(menc *e,int req,opus_int32 v){ return e->proj? opus_projection_encoder_ctl(e->pj,req,v) : opus_multistream_encoder_ctl(e->ms,req,v); }
static int egetl(menc *e,int req,opus_int32 *v){ return e->proj? opus_projection_encoder_ctl(e->pj,req,v) : opus_multistream_encoder_ctl(e->ms,req,v); }

static void run(int li,int fi,int ai,const setting *s,int ns,int argi,int ri,int sg){
   const layout_t *L=&LAY[li]; int Fs=FSS[fi],app=APPS[ai],err=0,i,c,idx=0,units,fc=OPUS_AUTO,ubw=OPUS_AUTO,mbw=OPUS_BANDWIDTH_FULLBAND,expert=0,arg=ARGU[argi],surround=L->family==1; long pos=0,total=(long)SECS_X10*Fs/10;
   menc e; unsigned char map[8],out[8000]; short *pcm; siggen g[8]; char what[300]; int fsz;
   memset(&e,0,sizeof e);
   if(L->family==3){ e.proj=1; e.pj=opus_projection_ambisonics_encoder_create(Fs,L->ch,3,&e.S,&e.Cp,app,&err); if(!e.pj){ mc_fail("mshonour:create","%s Fs=%d app=%d err=%d",L->name,Fs,app,err); return; } }
   else if(L->family==1||L->family==2){ e.ms=opus_multistream_surround_encoder_create(Fs,L->ch,L->family,&e.S,&e.Cp,map,app,&err); if(!e.ms){ mc_fail("mshonour:create","%s Fs=%d app=%d err=%d",L->name,Fs,app,err); return; } }
   else { for(i=0;i<L->ch;i++) map[i]=i; e.S=L->S; e.Cp=L->Cp; e.ms=opus_multistream_encoder_create(Fs,L->ch,L->S,L->Cp,map,app,&err); if(!e.ms){ mc_fail("mshonour:create","%s Fs=%d app=%d err=%d",L->name,Fs,app,err); return; } }
   for(i=0;i<ns;i++){ int req= s[i].dim==D_BANDWIDTH?OPUS_SET_BANDWIDTH_REQUEST:s[i].dim==D_MAXBW?OPUS_SET_MAX_BANDWIDTH_REQUEST:s[i].dim==D_FORCECH?OPUS_SET_FORCE_CHANNELS_REQUEST:OPUS_SET_EXPERT_FRAME_DURATION_REQUEST;
      int r=ectl(&e,req,s[i].val);
      if(r!=OPUS_OK){ /* the one legal value an encoder may refuse: forced stereo when some stream is mono */
         if(!(s[i].dim==D_FORCECH&&s[i].val==2&&e.Cp<e.S)) mc_fail("mshonour:setting-refused","%s Fs=%d app=%d %s refused with %d before the first frame",L->name,Fs,app,sname(&s[i],1),r);
         else MC_INC(c_refused2);
         MC_INC(c_skipped); goto done; }
      switch(s[i].dim){ case D_FORCECH: fc=s[i].val; break; case D_BANDWIDTH: ubw=s[i].val; break; case D_MAXBW: mbw=s[i].val; break; default: expert=fd_units(s[i].val); break; } }
   if(RATES[ri]&&ectl(&e,OPUS_SET_BITRATE_REQUEST,RATES[ri]*L->ch)!=OPUS_OK){ mc_fail("mshonour:setting-refused","%s bitrate refused",L->name); goto done; }
   if(expert&&expert>arg) arg=48;
   if(expert>arg){ MC_INC(c_skipped); goto done; }
   units=expert?expert:arg; fsz=arg*Fs/400;
   snprintf(what,sizeof what,"%s Fs=%d app=%d settings{%s} frame_size=%gms bitrate/ch=%d signal=%s",L->name,Fs,app,sname(s,ns),arg*2.5,RATES[ri],sg?"speech-like":"sweeps");
   MC_INC(c_streams); mc_set_add(S_streams,mc_mix(mc_mix(li*64+fi*8+ai,argi*8+ri*2+sg),mc_hash(s,ns*sizeof(setting),3)));
   pcm=malloc(sizeof(short)*fsz*L->ch); { short *w=malloc(sizeof(short)*fsz); (void)w; free(w); }
   for(c=0;c<L->ch;c++) sig_init(&g[c],sg?SIG_SPEECH:SIG_SWEEP,Fs,1,11+c*3);
   mc_case("ms_encode","%s",what);
   while(pos<total){ int n,p0=0,k; short w[2880];
      for(c=0;c<L->ch;c++){ int q; for(q=0;q<fsz;q+=2880){ int m=fsz-q<2880?fsz-q:2880,j; sig_gen(&g[c],w,m); for(j=0;j<m;j++) pcm[(q+j)*L->ch+c]=(short)(w[j]>>(c%3)); } }
      n= e.proj? opus_projection_encode(e.pj,pcm,fsz,out,sizeof out) : opus_multistream_encode(e.ms,pcm,fsz,out,sizeof out); MC_INC(c_enc);
      if(n<=0){ mc_fail("mshonour:encode-error","%s packet#%d: encode returned %d",what,idx,n); break; }
      for(k=0;k<e.S;k++){ rfc_pkt m; int self= k<e.S-1, len, coupled= k<e.Cp, ne=1,q,bw,pc,celt,lim,limx,dur;
         rfc_parse(out+p0,n-p0,self,&m);
         if(!m.ok){ mc_fail("mshonour:unparseable-packet","%s packet#%d stream %d at offset %d of %d",what,idx,k,p0,n); goto done2; }
         len=m.consumed; for(q=0;q<m.count;q++) if(m.size[q]>1) ne=0;
         MC_INC(c_sub);
         dur=rfc_frame_48k(m.toc)*m.count;      /* at 48 kHz */
         if((long)dur*Fs/48000!=(long)units*Fs/400) mc_fail(expert?"mshonour:duration:expert":"mshonour:duration:argument","%s packet#%d stream %d toc=%02x x%d frames: %ld samples, requested %ld",what,idx,k,m.toc,m.count,(long)dur*Fs/48000,(long)units*Fs/400);
         if(ne){ MC_INC(c_empty); p0+=len; continue; }
         MC_INC(c_eval);
         bw=OPUS_BANDWIDTH_NARROWBAND+rfc_bandwidth(m.toc); pc=rfc_channels(m.toc); celt=rfc_mode(m.toc)==2;
         if((app==OPUS_APPLICATION_RESTRICTED_LOWDELAY||units<4)&&!celt) mc_fail(app==OPUS_APPLICATION_RESTRICTED_LOWDELAY?"mshonour:layer:lowdelay":"mshonour:layer:short-frame","%s packet#%d stream %d toc=%02x: not an MDCT-only packet",what,idx,k,m.toc);
         if(!surround){
            lim=nyq(Fs); if(ubw!=OPUS_AUTO){ if(ubw<lim) lim=ubw; } else if(mbw<lim) lim=mbw;
            limx=(celt&&lim==OPUS_BANDWIDTH_MEDIUMBAND)?OPUS_BANDWIDTH_WIDEBAND:lim;
            if(bw>limx) mc_fail(ubw!=OPUS_AUTO?"mshonour:bandwidth:forced":mbw<nyq(Fs)?"mshonour:bandwidth:max":"mshonour:bandwidth:nyquist","%s packet#%d stream %d toc=%02x: bandwidth %d exceeds limit %d (forced %d, max %d, Nyquist %d)",what,idx,k,m.toc,bw,limx,ubw,mbw,nyq(Fs));
            if(fc!=OPUS_AUTO&&pc!=fc) mc_fail("mshonour:channels:forced","%s packet#%d stream %d (%s) toc=%02x: %d channel(s), forced %d",what,idx,k,coupled?"coupled":"mono",m.toc,pc,fc);
         }
         if(!coupled&&pc!=1) mc_fail("mshonour:channels:mono-stream-codes-stereo","%s packet#%d stream %d toc=%02x",what,idx,k,m.toc);
         if(mc_set_add(S_obs,mc_mix(mc_mix(li*64+fi*8+ai,m.toc&0xFC),mc_mix(k,mc_hash(s,ns*sizeof(setting),5)))))
            mc_sample("%s packet#%d stream %d/%d: toc=%02x (%s, bandwidth %d, %d ch, %d frame(s)) — all clauses hold",what,idx,k,e.S,m.toc,celt?"MDCT":rfc_mode(m.toc)==1?"hybrid":"LP",bw,pc,m.count);
         p0+=len; }
      if(p0!=n) mc_fail("mshonour:packet-length","%s packet#%d: streams consume %d of %d bytes",what,idx,p0,n);
      { opus_int32 v=-1; int r;
        r=egetl(&e,OPUS_GET_MAX_BANDWIDTH_REQUEST,&v); if(r!=OPUS_OK||v!=mbw) mc_fail("mshonour:getter-drift:MAX_BANDWIDTH","%s after packet#%d: ret %d reads %d, set %d",what,idx,r,v,mbw);
        v=-1; r=egetl(&e,OPUS_GET_EXPERT_FRAME_DURATION_REQUEST,&v); { int want=OPUS_FRAMESIZE_ARG; for(i=0;i<ns;i++) if(s[i].dim==D_EXPERT) want=s[i].val; if(r!=OPUS_OK||v!=want) mc_fail("mshonour:getter-drift:EXPERT_FRAME_DURATION","%s after packet#%d: ret %d reads %d, set %d",what,idx,r,v,want); }
        if(!surround){ v=-1; r=egetl(&e,OPUS_GET_FORCE_CHANNELS_REQUEST,&v); if(r!=OPUS_OK||v!=fc) mc_fail("mshonour:getter-drift:FORCE_CHANNELS","%s after packet#%d: ret %d reads %d, set %d",what,idx,r,v,fc); }
        v=-1; r=egetl(&e,OPUS_GET_APPLICATION_REQUEST,&v); if(r!=OPUS_OK||v!=app) mc_fail("mshonour:getter-drift:APPLICATION","%s after packet#%d: ret %d reads %d, created with %d",what,idx,r,v,app); }
      pos+=(long)units*Fs/400; idx++;
      (void)fsz; if(expert&&expert<arg){ /* the encoder consumes only the expert duration of what is offered; keep feeding fresh audio */ }
   }
done2:
   free(pcm);
done:
   if(e.ms) opus_multistream_encoder_destroy(e.ms); if(e.pj) opus_projection_encoder_destroy(e.pj);
}

typedef struct { unsigned char li,fi,ai; signed char a,b; } item_t;
static item_t *IT; static long nit;
static void run_item(long k,void *u){ item_t *it=&IT[k]; setting s[2]; int ns=0,argi,ri,sg; (void)u;
   if(it->a>=0) s[ns++]=SET[it->a]; if(it->b>=0) s[ns++]=SET[it->b];
   if(it->b>=0){ /* pairs of settings: frame arguments 5/20/60 ms, bitrate and signal rotating with the pair */
      for(argi=1;argi<6;argi+=2) run(it->li,it->fi,it->ai,s,ns,argi,(it->a+it->b)%3,(it->a+argi)%2); return; }
   for(argi=0;argi<6;argi++) for(ri=0;ri<3;ri++) for(sg=0;sg<2;sg++){
      if(!MC.tier && (argi+ri+sg+it->li+it->fi+it->ai)%3) continue;      /* quick: a fixed third of the (frame, rate, signal) cube, rotating with the object */
      run(it->li,it->fi,it->ai,s,ns,argi,ri,sg); }
}
int main(int argc,char **argv){
   int li,fi,ai,i,j,pairs; mc_ctr *st,*dn;
   mc_init(argc,argv,"C11","mshonour");
   c_enc=mc_counter("transitions"); c_eval=mc_counter("evaluations"); c_empty=mc_counter("empty_subpackets_exempt"); c_streams=mc_counter("streams_encoded"); c_skipped=mc_counter("configs_not_applicable");
   c_sub=mc_counter("subpackets_split_by_rfc_model"); c_refused2=mc_counter("force_channels_2_refused_on_layout_with_mono_stream");
   S_obs=mc_set_new(22); S_streams=mc_set_new(22);
   SECS_X10=(int)mc_arg("--secs-x10",MC.tier?6:4); nFs=(int)mc_arg("--nfs",MC.tier?5:2); pairs=(int)mc_arg("--pairs",MC.tier?1:0);
   for(i=OPUS_BANDWIDTH_NARROWBAND;i<=OPUS_BANDWIDTH_FULLBAND;i++){ SET[nset].dim=D_BANDWIDTH; SET[nset++].val=i; }
   for(i=OPUS_BANDWIDTH_NARROWBAND;i<=OPUS_BANDWIDTH_SUPERWIDEBAND;i++){ SET[nset].dim=D_MAXBW; SET[nset++].val=i; }
   SET[nset].dim=D_FORCECH; SET[nset++].val=1; SET[nset].dim=D_FORCECH; SET[nset++].val=2;
   for(i=OPUS_FRAMESIZE_2_5_MS;i<=OPUS_FRAMESIZE_120_MS;i++){ if(!MC.tier&&(i==OPUS_FRAMESIZE_80_MS||i==OPUS_FRAMESIZE_100_MS||i==OPUS_FRAMESIZE_40_MS)) continue; SET[nset].dim=D_EXPERT; SET[nset++].val=i; }
   IT=calloc((size_t)NLAY*5*3*(1+nset+nset*nset),sizeof *IT);
   for(li=0;li<NLAY;li++) for(fi=0;fi<nFs;fi++) for(ai=0;ai<3;ai++){
      IT[nit].li=li; IT[nit].fi=fi; IT[nit].ai=ai; IT[nit].a=-1; IT[nit].b=-1; nit++;
      for(i=0;i<nset;i++){ IT[nit].li=li; IT[nit].fi=fi; IT[nit].ai=ai; IT[nit].a=i; IT[nit].b=-1; nit++; }
      if(pairs&&fi<2) for(i=0;i<nset;i++) for(j=i+1;j<nset;j++) if(SET[i].dim!=SET[j].dim){ IT[nit].li=li; IT[nit].fi=fi; IT[nit].ai=ai; IT[nit].a=i; IT[nit].b=j; nit++; } }
   mc_info("mshonour: %d layouts x %d rates x 3 applications x (1 + %d single settings%s) x frame argument x bitrate x signal",NLAY,nFs,nset,pairs?" + all cross-dimension pairs":"");
   mc_par(nit,run_item,NULL);
   st=mc_counter("states"); dn=mc_counter("distinct_nontrivial"); *st=mc_set_count(S_streams); *dn=mc_set_count(S_obs);
   return mc_finish();
}
