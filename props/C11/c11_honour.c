/* C11 part "honour" — settings in force before the first frame bind every non-DTX packet thereafter.
 *
 * E2 (deviation-bounded enumeration): for each of the 30 encoder bases (Fs in {8,12,16,24,48} kHz x channels {1,2} x application
 * {VOIP, AUDIO, RESTRICTED_LOWDELAY}) and every configuration that differs from the defaults in <= 1 (quick) / <= 2 (thorough)
 * of the 17 setting dimensions (57 single deviations, all their cross-dimension pairs), the settings are applied to a fresh
 * encoder BEFORE the first frame, then --secs seconds of each of 3 deterministic signals are encoded and EVERY produced packet's
 * TOC is checked against the statement:
 *   duration  : samples in the packet == the requested duration (OPUS_SET_EXPERT_FRAME_DURATION value, else the frame_size argument)
 *   channels  : TOC stereo bit == the forced channel count (when one is forced)
 *   bandwidth : <= min(forced bandwidth if any else maximum bandwidth, Nyquist band of Fs); an MDCT-only packet may say
 *               wideband where that limit is medium band (the MDCT layer has no medium band)
 *   layer     : RESTRICTED_LOWDELAY, or a duration below 10 ms  => MDCT-only TOC (bit 7 set)
 * Packets whose every frame carries <= 1 payload byte are "empty" (G5b: DTX / low-budget TOC-only packets) and exempt.
 * Schedule items ("thereafter" is a quantifier over what the stream does AFTER the setting was made): for every single setting
 * of the clause-relevant dimensions (default, forced bandwidth x5, maximum bandwidth x5 (FULLBAND = the defaults), forced channels x2, expert duration) on
 * every base, 40-packet streams whose CONDITIONS change at <= 2 switch points. A condition is a tuple of the encoder's decision
 * inputs: frame duration fed {2.5,5,10,20,60 ms} x bitrate {12 kb/s, 96 kb/s} x signal class {speech-like, noise, digital
 * silence} x {VBR, CBR} (60 conditions; bitrate/VBR are ctl calls made at the switch point).  Families:
 *   (S1) conditions within one deviation of (20 ms, 12 kb/s, speech, VBR): all streams A, A|B, A|B|A          (quick + thorough)
 *   (S2) any of the 60 conditions first, each switch changes exactly one input: A, A|B, A|B|C                 (thorough)
 * Every packet is checked against the same four TOC clauses (duration = the frame fed), the MDCT medium-band exception being
 * granted to MDCT-only packets alone, and after EVERY frame the getters of the settings made before the first frame
 * (max bandwidth, forced channels, expert duration, application) and of the condition (bitrate, VBR) must still read them.
 * Layer switches (LP/hybrid <-> MDCT-only between consecutive packets) are counted per setting dimension.
 * Mid-stream items: forced channel count changed A -> B after 6 packets; from the third packet after the change on, every
 * non-empty packet must carry B channels ("takes effect within three packets").
 */
#include "c11_common.h"

#define OPUS_SET_FORCE_MODE_REQ 11002   /* src/opus_private.h: OPUS_SET_FORCE_MODE (used by opus_demo); 1000 SILK, 1001 hybrid, 1002 CELT */
enum { D_BITRATE,D_VBR,D_CVBR,D_COMPLEXITY,D_BANDWIDTH,D_MAXBW,D_FORCECH,D_FORCEMODE,D_FEC,D_LOSS,D_DTX,D_LSB,D_PRED,D_PHASEINV,D_FRAMEDUR,D_FRAMEARG,D_SIGNAL,ND };
static const char *const DNAME[ND]={"BITRATE","VBR","VBR_CONSTRAINT","COMPLEXITY","BANDWIDTH","MAX_BANDWIDTH","FORCE_CHANNELS","FORCE_MODE","INBAND_FEC","PACKET_LOSS_PERC","DTX","LSB_DEPTH","PREDICTION_DISABLED","PHASE_INVERSION_DISABLED","EXPERT_FRAME_DURATION","frame_size_argument","SIGNAL"};
static const int DREQ[ND]={OPUS_SET_BITRATE_REQUEST,OPUS_SET_VBR_REQUEST,OPUS_SET_VBR_CONSTRAINT_REQUEST,OPUS_SET_COMPLEXITY_REQUEST,OPUS_SET_BANDWIDTH_REQUEST,OPUS_SET_MAX_BANDWIDTH_REQUEST,
   OPUS_SET_FORCE_CHANNELS_REQUEST,OPUS_SET_FORCE_MODE_REQ,OPUS_SET_INBAND_FEC_REQUEST,OPUS_SET_PACKET_LOSS_PERC_REQUEST,OPUS_SET_DTX_REQUEST,OPUS_SET_LSB_DEPTH_REQUEST,
   OPUS_SET_PREDICTION_DISABLED_REQUEST,OPUS_SET_PHASE_INVERSION_DISABLED_REQUEST,OPUS_SET_EXPERT_FRAME_DURATION_REQUEST,0,OPUS_SET_SIGNAL_REQUEST};
typedef struct { int dim, val; } setting;
static setting SING[80]; static int nsing;
static void adds(int d,int v){ SING[nsing].dim=d; SING[nsing].val=v; nsing++; }
static void build_settings(void){
   static const int br[]={500,6000,12000,16000,24000,32000,64000,128000,510000,OPUS_BITRATE_MAX}; int i;
   for(i=0;i<10;i++) adds(D_BITRATE,br[i]);
   adds(D_VBR,0); adds(D_CVBR,0); adds(D_COMPLEXITY,0); adds(D_COMPLEXITY,5); adds(D_COMPLEXITY,10);
   for(i=OPUS_BANDWIDTH_NARROWBAND;i<=OPUS_BANDWIDTH_FULLBAND;i++) adds(D_BANDWIDTH,i);
   for(i=OPUS_BANDWIDTH_NARROWBAND;i<=OPUS_BANDWIDTH_SUPERWIDEBAND;i++) adds(D_MAXBW,i);
   adds(D_FORCECH,1); adds(D_FORCECH,2);
   adds(D_FORCEMODE,1000); adds(D_FORCEMODE,1001); adds(D_FORCEMODE,1002);
   adds(D_FEC,1); adds(D_FEC,2); adds(D_LOSS,10); adds(D_LOSS,50); adds(D_DTX,1); adds(D_LSB,8); adds(D_LSB,16); adds(D_PRED,1); adds(D_PHASEINV,1);
   for(i=OPUS_FRAMESIZE_2_5_MS;i<=OPUS_FRAMESIZE_120_MS;i++) adds(D_FRAMEDUR,i);
   { static const int q[]={1,2,4,16,24,32,40,48}; for(i=0;i<8;i++) adds(D_FRAMEARG,q[i]); }   /* frame_size argument in units of 2.5 ms (default 8 = 20 ms) */
   adds(D_SIGNAL,OPUS_SIGNAL_VOICE); adds(D_SIGNAL,OPUS_SIGNAL_MUSIC);
}
/* duration in 2.5 ms units of an OPUS_FRAMESIZE_* constant */
static int fd_units(int v){ static const int u[]={0,1,2,4,8,16,24,32,40,48}; return u[v-OPUS_FRAMESIZE_ARG]; }

static const int FSS[5]={8000,12000,16000,24000,48000}; static const int APPS[3]={OPUS_APPLICATION_VOIP,OPUS_APPLICATION_AUDIO,OPUS_APPLICATION_RESTRICTED_LOWDELAY};
static const int SIGS[3]={SIG_SPEECH,SIG_NOISE,SIG_STEREOPAN};
static short *PCM[5][2][3];   /* precomputed before the fork: [Fs][ch-1][signal], max(SECS,3) s + 120 ms */
static short *ZEROS;           /* digital silence, same length at 48 kHz stereo */
static long PCMLEN[5];         /* samples per channel available in PCM[fi] */
static int SECS;

static mc_ctr *c_enc,*c_eval,*c_empty,*c_streams,*c_skipped,*c_encerr,*c_mid;
static mc_set *S_obs,*S_streams;

typedef struct { int fc,ubw,mbw,expert,arg; } force_t;

static int is_empty(const unsigned char *p,int n){ const unsigned char *fr[48]; opus_int16 sz[48]; unsigned char toc; int po,i; int c=opus_packet_parse(p,n,&toc,fr,sz,&po); if(c<=0) return 0; for(i=0;i<c;i++) if(sz[i]>1) return 0; return 1; }
static int nyquist_band(int Fs){ return Fs<=8000?OPUS_BANDWIDTH_NARROWBAND:Fs<=12000?OPUS_BANDWIDTH_MEDIUMBAND:Fs<=16000?OPUS_BANDWIDTH_WIDEBAND:Fs<=24000?OPUS_BANDWIDTH_SUPERWIDEBAND:OPUS_BANDWIDTH_FULLBAND; }

static const char *set_str(const setting *s,int n){
   static char b[160]; int i,k=0; b[0]=0; if(!n) snprintf(b,sizeof b,"defaults");
   for(i=0;i<n;i++) k+=snprintf(b+k,sizeof b-k,"%s%s=%d",i?", ":"",DNAME[s[i].dim],s[i].dim==D_FRAMEARG?s[i].val*25:s[i].val);
   return b;
}

/* checks one packet against the statement; returns 0 if fine */
static void check_packet(int Fs,int ch,int app,const force_t *f,const unsigned char *p,int n,int idx,const char *what,const char *sname,int fc_expected){
   int bw=opus_packet_get_bandwidth(p), pc=opus_packet_get_nb_channels(p), ns=opus_packet_get_nb_samples(p,n,Fs), celt=(p[0]&0x80)!=0;
   int want=(f->expert?f->expert:f->arg)*Fs/400, lim=nyquist_band(Fs), limx;
   MC_INC(c_eval);
   if (f->ubw!=OPUS_AUTO){ if(f->ubw<lim) lim=f->ubw; } else if (f->mbw<lim) lim=f->mbw;
   limx = (celt&&lim==OPUS_BANDWIDTH_MEDIUMBAND)?OPUS_BANDWIDTH_WIDEBAND:lim;
   if (ns!=want) mc_fail(f->expert?"honour:duration:expert":"honour:duration:argument","Fs=%d ch=%d app=%d %s signal=%s packet#%d toc=%02x len=%d: %d samples, requested %d",Fs,ch,app,what,sname,idx,p[0],n,ns,want);
   if (bw>limx) mc_fail(f->ubw!=OPUS_AUTO?"honour:bandwidth:forced":f->mbw<nyquist_band(Fs)?"honour:bandwidth:max":"honour:bandwidth:nyquist","Fs=%d ch=%d app=%d %s signal=%s packet#%d toc=%02x len=%d: bandwidth %d exceeds limit %d (forced %d, max %d, Nyquist %d)",Fs,ch,app,what,sname,idx,p[0],n,bw,limx,f->ubw,f->mbw,nyquist_band(Fs));
   if (fc_expected && pc!=fc_expected) mc_fail("honour:channels:forced","Fs=%d ch=%d app=%d %s signal=%s packet#%d toc=%02x len=%d: %d channel(s), forced %d",Fs,ch,app,what,sname,idx,p[0],n,pc,fc_expected);
   if ((app==OPUS_APPLICATION_RESTRICTED_LOWDELAY||(f->expert?f->expert:f->arg)<4) && !celt)
      mc_fail(app==OPUS_APPLICATION_RESTRICTED_LOWDELAY?"honour:layer:lowdelay":"honour:layer:short-frame","Fs=%d ch=%d app=%d %s signal=%s packet#%d toc=%02x len=%d: not an MDCT-only packet",Fs,ch,app,what,sname,idx,p[0],n);
}

/* one stream: settings applied before the first frame (mid>=0: force_channels changed to midB before packet #mid) */
static void run_stream(int fi,int ch,int ai,const setting *s,int ns,int sg,int mid,int midB){
   int Fs=FSS[fi],app=APPS[ai],err,i,idx=0; long pos=0,total=(long)SECS*Fs; force_t f; OpusEncoder *e; unsigned char out[7700]; const short *pcm=PCM[fi][ch-1][sg]; const char *what;
   f.fc=OPUS_AUTO; f.ubw=OPUS_AUTO; f.mbw=OPUS_BANDWIDTH_FULLBAND; f.expert=0; f.arg=8;
   e=opus_encoder_create(Fs,ch,app,&err); if(!e){ mc_fail("harness:create","encoder create failed %d",err); return; }
   for(i=0;i<ns;i++){
      int r;
      if (s[i].dim==D_FRAMEARG){ f.arg=s[i].val; continue; }
      r=opus_encoder_ctl(e,DREQ[s[i].dim],s[i].val);
      if (r!=OPUS_OK){ /* the only documented-legal value that an encoder may refuse: forced stereo on a mono encoder */
         if (!(s[i].dim==D_FORCECH&&s[i].val==2&&ch==1)) mc_fail("honour:setting-refused","Fs=%d ch=%d app=%d %s=%d refused with %d before the first frame",Fs,ch,app,DNAME[s[i].dim],s[i].val,r);
         MC_INC(c_skipped); opus_encoder_destroy(e); return; }
      switch(s[i].dim){ case D_FORCECH: f.fc=s[i].val; break; case D_BANDWIDTH: f.ubw=s[i].val; break; case D_MAXBW: f.mbw=s[i].val; break; case D_FRAMEDUR: f.expert=fd_units(s[i].val); break; default: break; }
   }
   if (f.expert){ int had_arg=0; for(i=0;i<ns;i++) if(s[i].dim==D_FRAMEARG) had_arg=1; if(!had_arg) f.arg=48; }   /* expert duration alone: offer a 120 ms buffer */
   if (f.expert>f.arg){ MC_INC(c_skipped); opus_encoder_destroy(e); return; }   /* requested duration longer than the audio offered: nothing to honour */
   { static char wbuf[240]; if (mid>=0) snprintf(wbuf,sizeof wbuf,"settings{%s} then FORCE_CHANNELS(%d) set before packet#%d",set_str(s,ns),midB,mid); else snprintf(wbuf,sizeof wbuf,"settings{%s}",set_str(s,ns)); what=wbuf; }
   MC_INC(c_streams); mc_set_add(S_streams,mc_mix(mc_mix(fi*6+ch*3+ai,sg),mc_hash(s,ns*sizeof(setting),mid*4+midB)));
   mc_case("encode","Fs=%d ch=%d app=%d %s signal=%s",Fs,ch,app,what,sig_name[SIGS[sg]]);
   while(pos<total){
      int n,nsamp,fc_expected;
      if (mid>=0 && idx==mid){ if (opus_encoder_ctl(e,OPUS_SET_FORCE_CHANNELS(midB))!=OPUS_OK){ mc_fail("honour:setting-refused","mid-stream FORCE_CHANNELS(%d) refused",midB); break; } }
      n=opus_encode(e,pcm+pos*ch,f.arg*Fs/400,out,sizeof out); MC_INC(c_enc);
      if (n<=0){ MC_INC(c_encerr); mc_info("encode error %d: Fs=%d ch=%d app=%d %s signal=%s packet#%d",n,Fs,ch,app,what,sig_name[SIGS[sg]],idx); break; }
      nsamp=opus_packet_get_nb_samples(out,n,Fs); if(nsamp<=0){ mc_fail("honour:unparseable-packet","Fs=%d ch=%d %s packet#%d",Fs,ch,what,idx); break; }
      if (is_empty(out,n)) MC_INC(c_empty);
      else {
         if (mid<0) fc_expected = f.fc==OPUS_AUTO?0:f.fc;
         else if (idx<mid) fc_expected = f.fc==OPUS_AUTO?0:f.fc;
         else if (idx>=mid+2) { fc_expected=midB; MC_INC(c_mid); }       /* third packet after the change and later */
         else fc_expected=0;
         check_packet(Fs,ch,app,&f,out,n,idx,what,sig_name[SIGS[sg]],fc_expected);
         if (mc_set_add(S_obs,mc_mix(mc_mix(fi*6+ch*3+ai,out[0]&0xFC),mc_hash(s,ns*sizeof(setting),mid*4+midB))))
            mc_sample("Fs=%d ch=%d app=%d %s signal=%s packet#%d: toc=%02x (%s, bandwidth %d, %d ch, %d samples) len=%d — all clauses hold",Fs,ch,app,what,sig_name[SIGS[sg]],idx,out[0],
                      (out[0]&0x80)?"MDCT":(out[0]&0x60)==0x60?"hybrid":"LP",opus_packet_get_bandwidth(out),opus_packet_get_nb_channels(out),nsamp,n);
      }
      pos+=nsamp; idx++;
   }
   opus_encoder_destroy(e);
}


/* ------------------------------------------------------------------ schedules of stream conditions */
typedef struct { unsigned char d,r,s,v; } cond_t;                 /* duration idx, rate idx, signal class, vbr */
static const int SD_UNITS[5]={1,2,4,8,24};                        /* 2.5, 5, 10, 20, 60 ms in 2.5 ms units */
static const int SR_RATE[2]={12000,96000};
static const char *const SS_NAME[3]={"speech-like","white-noise","silence"};
static const cond_t CREF={3,0,0,1};
static cond_t cond_of(int i){ cond_t c; c.d=i%5; c.r=(i/5)%2; c.s=(i/10)%3; c.v=(i/30)%2; return c; }
static int cond_dist(cond_t a,cond_t b){ return (a.d!=b.d)+(a.r!=b.r)+(a.s!=b.s)+(a.v!=b.v); }
/* settings explored under schedules: index 0 = defaults, then SING[] entries of these dimensions */
static int SCHSET[40], nschset;
enum { T_DEFAULT, T_BANDWIDTH, T_MAXBW, T_FORCECH, T_EXPERT, NT };
static const char *const TNAME[NT]={"default","BANDWIDTH","MAX_BANDWIDTH","FORCE_CHANNELS","EXPERT_FRAME_DURATION"};
static mc_ctr *c_sch[NT],*c_spk[NT],*c_ssw[NT],*c_appsw[3],*c_getter;
static int tag_of(int si){ if(si<0) return T_DEFAULT; switch(SING[si].dim){ case D_BANDWIDTH: return T_BANDWIDTH; case D_MAXBW: return T_MAXBW; case D_FORCECH: return T_FORCECH; default: return T_EXPERT; } }

static const char *sched_str(const cond_t *c,int nseg,const int *len,int expert){
   static char b[260]; int i,k=0; b[0]=0;
   for(i=0;i<nseg;i++){ k+=snprintf(b+k,sizeof b-k,"%s%dx(",i?" | ":"",len[i]); if(expert) k+=snprintf(b+k,sizeof b-k,"expert"); else k+=snprintf(b+k,sizeof b-k,"%gms",SD_UNITS[c[i].d]*2.5);
      k+=snprintf(b+k,sizeof b-k,",%db/s,%s,%s)",SR_RATE[c[i].r],SS_NAME[c[i].s],c[i].v?"VBR":"CBR"); }
   return b;
}
static void getter_check(OpusEncoder *e,int req,const char *name,int want,int Fs,int ch,int app,const char *what,int idx){
   opus_int32 v=-12345; int r=opus_encoder_ctl(e,req,&v);
   if (r!=OPUS_OK||v!=want){ char sig[64]; snprintf(sig,sizeof sig,"honour:getter-drift:%s",name); MC_INC(c_getter);
      mc_fail(sig,"Fs=%d ch=%d app=%d %s after packet#%d: GET_%s ret=%d reads %d, set to %d",Fs,ch,app,what,idx,name,r,v,want); }
}
/* one 40-packet stream: setting si (or -1) before the first frame, then conditions c[0..nseg-1] */
static void run_schedule(int fi,int ch,int ai,int si,const cond_t *c,int nseg){
   static const int LEN[3][3]={{40,0,0},{20,20,0},{13,13,14}};
   int Fs=FSS[fi],app=APPS[ai],err,idx=0,seg=0,left,prev_celt=-1,tag=tag_of(si),nsw=0; long pos=0; force_t f; OpusEncoder *e; unsigned char out[7700]; char what[420];
   const int *len=LEN[nseg-1];
   f.fc=OPUS_AUTO; f.ubw=OPUS_AUTO; f.mbw=OPUS_BANDWIDTH_FULLBAND; f.expert=0; f.arg=8;
   e=opus_encoder_create(Fs,ch,app,&err); if(!e){ mc_fail("harness:create","encoder create failed %d",err); return; }
   if (si>=0){
      int r=opus_encoder_ctl(e,DREQ[SING[si].dim],SING[si].val);
      if (r!=OPUS_OK){ if (!(SING[si].dim==D_FORCECH&&SING[si].val==2&&ch==1)) mc_fail("honour:setting-refused","Fs=%d ch=%d app=%d %s=%d refused with %d before the first frame",Fs,ch,app,DNAME[SING[si].dim],SING[si].val,r);
         MC_INC(c_skipped); opus_encoder_destroy(e); return; }
      switch(SING[si].dim){ case D_FORCECH: f.fc=SING[si].val; break; case D_BANDWIDTH: f.ubw=SING[si].val; break; case D_MAXBW: f.mbw=SING[si].val; break; case D_FRAMEDUR: f.expert=fd_units(SING[si].val); break; default: break; }
   }
   snprintf(what,sizeof what,"settings{%s} schedule[%s]",si>=0?set_str(&SING[si],1):"defaults",sched_str(c,nseg,len,f.expert));
   MC_INC(c_streams); MC_INC(c_sch[tag]);
   mc_set_add(S_streams,mc_mix(mc_mix(fi*6+ch*3+ai,si+7),mc_hash(c,nseg*sizeof(cond_t),0x5c4ed)));
   mc_case("encode-schedule","Fs=%d ch=%d app=%d %s",Fs,ch,app,what);
   left=len[0];
   for(idx=0;idx<40;idx++){
      int n,nsamp,celt,units; const short *pcm; cond_t k;
      if (left==0){ seg++; left=len[seg]; }
      k=c[seg];
      if (left==len[seg]){   /* segment start: the condition's ctl inputs */
         if (opus_encoder_ctl(e,OPUS_SET_BITRATE(SR_RATE[k.r]))!=OPUS_OK || opus_encoder_ctl(e,OPUS_SET_VBR(k.v))!=OPUS_OK){ mc_fail("honour:setting-refused","Fs=%d ch=%d app=%d %s: bitrate/VBR refused at packet#%d",Fs,ch,app,what,idx); break; }
      }
      left--;
      units = f.expert? f.expert : SD_UNITS[k.d]; f.arg=units;
      if (pos+(long)units*Fs/400 > PCMLEN[fi]) pos=0;
      pcm = k.s==2? ZEROS : PCM[fi][ch-1][k.s]+pos*ch;
      n=opus_encode(e,pcm,units*Fs/400,out,sizeof out); MC_INC(c_enc); MC_INC(c_spk[tag]);
      if (n<=0){ MC_INC(c_encerr); mc_info("encode error %d: Fs=%d ch=%d app=%d %s packet#%d",n,Fs,ch,app,what,idx); break; }
      nsamp=opus_packet_get_nb_samples(out,n,Fs); if(nsamp<=0){ mc_fail("honour:unparseable-packet","Fs=%d ch=%d %s packet#%d",Fs,ch,what,idx); break; }
      celt=(out[0]&0x80)!=0;
      if (prev_celt>=0 && celt!=prev_celt){ nsw++; MC_INC(c_ssw[tag]); MC_INC(c_appsw[ai]); }
      prev_celt=celt;
      if (is_empty(out,n)) MC_INC(c_empty);
      else {
         check_packet(Fs,ch,app,&f,out,n,idx,what,SS_NAME[k.s],f.fc==OPUS_AUTO?0:f.fc);
         if (mc_set_add(S_obs,mc_mix(mc_mix(fi*6+ch*3+ai,out[0]&0xFC),mc_mix(si+7,mc_mix(seg,mc_hash(&k,sizeof k,nsw>0))))))
            mc_sample("Fs=%d ch=%d app=%d %s packet#%d: toc=%02x (%s, bandwidth %d, %d ch, %d samples) len=%d, %d layer switch(es) so far — all clauses hold",Fs,ch,app,what,idx,out[0],
                      celt?"MDCT":(out[0]&0x60)==0x60?"hybrid":"LP",opus_packet_get_bandwidth(out),opus_packet_get_nb_channels(out),nsamp,n,nsw);
      }
      /* the settings made before the first frame, and the current condition, must still read back after every frame */
      getter_check(e,OPUS_GET_MAX_BANDWIDTH_REQUEST,"MAX_BANDWIDTH",f.mbw,Fs,ch,app,what,idx);
      getter_check(e,OPUS_GET_FORCE_CHANNELS_REQUEST,"FORCE_CHANNELS",f.fc,Fs,ch,app,what,idx);
      getter_check(e,OPUS_GET_EXPERT_FRAME_DURATION_REQUEST,"EXPERT_FRAME_DURATION",(si>=0&&SING[si].dim==D_FRAMEDUR)?SING[si].val:OPUS_FRAMESIZE_ARG,Fs,ch,app,what,idx);
      getter_check(e,OPUS_GET_APPLICATION_REQUEST,"APPLICATION",app,Fs,ch,app,what,idx);
      getter_check(e,OPUS_GET_BITRATE_REQUEST,"BITRATE",SR_RATE[k.r],Fs,ch,app,what,idx);
      getter_check(e,OPUS_GET_VBR_REQUEST,"VBR",k.v,Fs,ch,app,what,idx);
      pos+=nsamp;
   }
   opus_encoder_destroy(e);
}
/* all schedules of one (base, setting) whose first condition is `first` */
static void run_sched_item(int fi,int ch,int ai,int si,int first,int full){
   cond_t A=cond_of(first),c[3]; int expert = si>=0&&SING[si].dim==D_FRAMEDUR, b,k;
   if (expert && A.d!=CREF.d) return;                         /* with an expert duration the frame fed is that duration: the d axis is void */
   /* (S1) */
   if (cond_dist(A,CREF)<=1){
      c[0]=A; run_schedule(fi,ch,ai,si,c,1);
      for(b=0;b<60;b++){ cond_t B=cond_of(b); if (cond_dist(B,CREF)>1||!cond_dist(A,B)||(expert&&B.d!=CREF.d)) continue;
         c[1]=B; run_schedule(fi,ch,ai,si,c,2); c[2]=A; run_schedule(fi,ch,ai,si,c,3); }
   }
   if (!full) return;
   /* (S2) */
   if (cond_dist(A,CREF)>1){ c[0]=A; run_schedule(fi,ch,ai,si,c,1); }
   for(b=0;b<60;b++){ cond_t B=cond_of(b); if (cond_dist(A,B)!=1||(expert&&B.d!=CREF.d)) continue;
      c[0]=A; c[1]=B;
      if (!(cond_dist(A,CREF)<=1&&cond_dist(B,CREF)<=1)) run_schedule(fi,ch,ai,si,c,2);
      for(k=0;k<60;k++){ cond_t C=cond_of(k); if (cond_dist(B,C)!=1||(expert&&C.d!=CREF.d)) continue;
         if (!cond_dist(A,C)&&cond_dist(A,CREF)<=1&&cond_dist(B,CREF)<=1) continue;   /* already run by (S1) */
         c[2]=C; run_schedule(fi,ch,ai,si,c,3); }
   }
}

typedef struct { unsigned char base; short a,b; signed char mid,midA,midB; signed char sched; unsigned char first; } item_t;
static item_t *IT; static long nit;
static void run_item(long k,void *u){
   item_t *it=&IT[k]; int fi=it->base/6, ch=(it->base/3)%2+1, ai=it->base%3, sg; setting s[3]; int ns=0; (void)u;
   if (it->sched){ run_sched_item(fi,ch,ai,it->a,it->first,it->sched==2); return; }
   if (it->a>=0) s[ns++]=SING[it->a];
   if (it->b>=0) s[ns++]=SING[it->b];
   if (it->mid>=0 && it->midA!=0){ int i; for(i=ns;i>0;i--) s[i]=s[i-1]; s[0].dim=D_FORCECH; s[0].val=it->midA; ns++; }
   for(sg=0;sg<3;sg++) run_stream(fi,ch,ai,s,ns,sg,it->mid,it->midB);
}

int main(int argc,char **argv){
   int fi,ch,sg,b,i,j,pairs,midstream,sched; long cap;
   mc_init(argc,argv,"C11","honour");
   SECS=(int)mc_arg("--secs",2); pairs=(int)mc_arg("--pairs",MC.tier?1:0); midstream=(int)mc_arg("--mid",1); sched=(int)mc_arg("--sched",MC.tier?2:1);
   c_enc=mc_counter("transitions"); c_eval=mc_counter("evaluations"); c_empty=mc_counter("empty_packets_exempt"); c_streams=mc_counter("streams_encoded");
   c_skipped=mc_counter("configs_not_applicable"); c_encerr=mc_counter("encode_errors"); c_mid=mc_counter("midstream_packets_checked");
   S_obs=mc_set_new(23); S_streams=mc_set_new(23);
   build_settings();
   { int t; char nm[48]; static const char *const AN[3]={"VOIP","AUDIO","LOWDELAY"};
     for(t=0;t<NT;t++){ snprintf(nm,sizeof nm,"sched_streams_%s",TNAME[t]); c_sch[t]=mc_counter(nm); snprintf(nm,sizeof nm,"sched_packets_%s",TNAME[t]); c_spk[t]=mc_counter(nm);
                        snprintf(nm,sizeof nm,"sched_layer_switches_%s",TNAME[t]); c_ssw[t]=mc_counter(nm); }
     for(t=0;t<3;t++){ snprintf(nm,sizeof nm,"sched_layer_switches_app_%s",AN[t]); c_appsw[t]=mc_counter(nm); }
     c_getter=mc_counter("getter_drift_failures");
     ZEROS=calloc((size_t)(3*48000+48000*120/1000+16)*2+64,sizeof(short));
     /* settings put under schedules: defaults, forced bandwidth x5, max bandwidth NB..SWB (FULLBAND is the default and is what the "defaults" streams run with), forced channels x2,
        expert duration {5,20,60 ms} (quick) / all nine (thorough) */
     SCHSET[nschset++]=-1;
     for(i=0;i<nsing;i++) if (SING[i].dim==D_BANDWIDTH||SING[i].dim==D_MAXBW||SING[i].dim==D_FORCECH||
         (SING[i].dim==D_FRAMEDUR&&(sched==2||SING[i].val==OPUS_FRAMESIZE_5_MS||SING[i].val==OPUS_FRAMESIZE_20_MS||SING[i].val==OPUS_FRAMESIZE_60_MS))) SCHSET[nschset++]=i;
   }
   for(fi=0;fi<5;fi++) for(ch=1;ch<=2;ch++) for(sg=0;sg<3;sg++){
      siggen g; long n=(long)(SECS>3?SECS:3)*FSS[fi]+FSS[fi]*120/1000+16; PCM[fi][ch-1][sg]=malloc(sizeof(short)*n*ch); PCMLEN[fi]=n;
      sig_init(&g,SIGS[sg],FSS[fi],ch,7+sg); sig_gen(&g,PCM[fi][ch-1][sg],(int)n);
   }
   cap=30L*(1+nsing+(pairs?nsing*nsing/2:0))+30L*400+30L*40*60; IT=calloc(cap,sizeof(item_t));
   for(b=0;b<30;b++){
      IT[nit].base=b; IT[nit].a=-1; IT[nit].b=-1; IT[nit].mid=-1; nit++;
      for(i=0;i<nsing;i++){ IT[nit].base=b; IT[nit].a=i; IT[nit].b=-1; IT[nit].mid=-1; nit++; }
      if (pairs) for(i=0;i<nsing;i++) for(j=i+1;j<nsing;j++) if(SING[i].dim!=SING[j].dim){ IT[nit].base=b; IT[nit].a=i; IT[nit].b=j; IT[nit].mid=-1; nit++; }
      if (midstream && (b/3)%2==1){
         /* stereo bases: forced channels A -> B after 6 packets, crossed with one further setting that steers the layer / rate / duration */
         static const int AB[4][2]={{0,1},{0,2},{1,2},{2,1}}; int q;
         for(q=0;q<4;q++) for(i=-1;i<nsing;i++){
            if (i>=0 && !(SING[i].dim==D_BITRATE||SING[i].dim==D_FORCEMODE||SING[i].dim==D_FRAMEARG||SING[i].dim==D_FRAMEDUR||SING[i].dim==D_BANDWIDTH||SING[i].dim==D_VBR)) continue;
            if (!MC.tier && i>=0 && SING[i].dim==D_BITRATE && !(SING[i].val==12000||SING[i].val==32000||SING[i].val==128000)) continue;
            IT[nit].base=b; IT[nit].a=i; IT[nit].b=-1; IT[nit].mid=6; IT[nit].midA=AB[q][0]; IT[nit].midB=AB[q][1]; nit++;
         }
      }
   }
   /* schedule items (appended, so earlier item numbers and their replay files stay valid). RESTRICTED_LOWDELAY bases have a single layer:
      they get family (S1) only, and only in the thorough tier. */
   if (sched) for(b=0;b<30;b++) for(i=0;i<nschset;i++) for(j=0;j<60;j++){
      int lowdelay=(b%3)==2, full = sched==2 && !lowdelay;
      if (lowdelay && sched<2) continue;
      if (!full && cond_dist(cond_of(j),CREF)>1) continue;
      IT[nit].base=b; IT[nit].a=SCHSET[i]; IT[nit].b=-1; IT[nit].mid=-1; IT[nit].sched=full?2:1; IT[nit].first=j; nit++;
   }
   mc_par(nit,run_item,NULL);
   { mc_ctr *st=mc_counter("states"),*dn=mc_counter("distinct_nontrivial"); *st=mc_set_count(S_streams); *dn=mc_set_count(S_obs); }
   return mc_finish();
}
