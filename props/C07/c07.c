/* C07 — repacketizer, pad and unpad preserve frames and always emit valid packets.
 *
 * Parts (spec.json): seq = depth 3 on the full alphabet of 8 TOC configurations (one per frame duration 2.5/5/10/20/40/60 ms
 * plus two stereo ones); seqdeep = depth 5 (thorough 6) on a tiny alphabet; seq4 (thorough) = depth 4 on a reduced alphabet.
 * mode seq : explicit-state search (depth-bounded DFS with a shared visited set) over sequences of
 *            init / cat(p) on the REAL OpusRepacketizer object, p ranging over the packet alphabet P7 of one TOC
 *            configuration (valid packets of every code, CBR/VBR, 1/2/3/48 frames, five padding kinds, invalid
 *            packets, TOC-incompatible packets).  Every distinct state gets the full observation battery:
 *            out / out_range for ALL ranges 0<=b<e<=n and out-of-range pairs, maxlen in {1277*(e-b), need, need-1,
 *            need+1, 0, 1}, each output re-parsed by the RFC model and compared with the list-of-frames model.
 *            State = canonical image of the whole struct (pointers rewritten as (packet, offset)), including dead
 *            slots, paired with the model state (finer than the live state; hides nothing).
 * mode pad : opus_packet_pad / opus_packet_unpad in place on exact-size heap blocks, every alphabet packet (plus
 *            already-padded ones) x every new_len in a contiguous window and boundary values.
 * mode ms  : opus_multistream_packet_pad / _unpad over all tuples of sub-packet shapes for 1..4 streams
 *            (thorough: 5..8 streams with <=2 non-default positions), every stream re-parsed.
 * (decoded-audio equality lives in c07_audio.c, which needs the frozen encoder for real payloads.)
 *
 * Failure signatures reserved for defects already seen at design time (DESIGN section 5):
 *   F3  out_internal_error:unparsable_padding, pad_internal_error:unparsable_padding, ms_pad_internal_error:unparsable_padding
 *   F8  maxlen_1277n_insufficient:with_extensions
 *   F9  out_range_split_extensions:range_ends_inside, out_range_split_extensions:range_begins_inside
 * Everything else keeps its own signature.
 */
#include "c07_common.h"

static mc_ctr *c_states,*c_trans,*c_eval,*c_dn,*c_cat_ok,*c_cat_rej,*c_out_ok,*c_out_small,*c_out_badrange,*c_ranges,*c_f3,*c_f8,*c_f9e,*c_f9b,*c_extcheck,*c_maxframes;
static mc_set *S_state,*S_exp,*S_cls;

/* ------------------------------------------------------------------ output buffer with hard right edge */
#define OBN (1277*48+4096)
static unsigned char *OB;             /* the output for maxlen bytes is placed at OB+OBN-maxlen: ASan redzone right behind it */
static unsigned poison_ctr;
static unsigned char *ob_prepare(int maxlen,int fill){
   unsigned char *d=OB+OBN-(maxlen>0?maxlen:0), pz=(unsigned char)(0xA5^((poison_ctr++&1)?0xFF:0));
   if(fill>maxlen) fill=maxlen; if(fill>0) memset(d,pz,fill);
   memset(d-32,0xC3,32);
   return d;
}
static int ob_canary_ok(const unsigned char *d){ int i; for(i=1;i<=32;i++) if(d[-i]!=0xC3) return 0; return 1; }

/* ------------------------------------------------------------------ canonical struct image */
static int sorted[MAXP], nsorted;
static int cmp_base(const void *a,const void *b){ const unsigned char *x=A[*(const int*)a].b,*y=A[*(const int*)b].b; return x<y?-1:x>y; }
static void index_packets(void){ int i; for(i=0;i<NA;i++) sorted[i]=i; nsorted=NA; qsort(sorted,NA,sizeof(int),cmp_base); }
static void canon_ptr(const unsigned char *p,int32_t *out){
   int lo=0,hi=nsorted-1;
   if(!p){ out[0]=-1; out[1]=0; return; }
   while(lo<=hi){ int mid=(lo+hi)/2; const apkt *q=&A[sorted[mid]];
      if(p<q->b) hi=mid-1; else if(p>q->b+q->n) lo=mid+1; else { out[0]=sorted[mid]; out[1]=(int32_t)(p-q->b); return; } }
   out[0]=-2-(int32_t)((uintptr_t)p>>32); out[1]=(int32_t)(uintptr_t)p;      /* foreign pointer: keep it verbatim */
}
static uint64_t image_hash(const OpusRepacketizer *rp){
   int32_t rec[3+48*7]; int i,k=0;
   rec[k++]=rp->toc; rec[k++]=rp->nb_frames; rec[k++]=rp->framesize;
   for(i=0;i<48;i++){ canon_ptr(rp->frames[i],rec+k); k+=2; rec[k++]=rp->len[i]; canon_ptr(rp->paddings[i],rec+k); k+=2; rec[k++]=rp->padding_len[i]; rec[k++]=rp->padding_nb_frames[i]; }
   return mc_hash(rec,sizeof rec,0xC07);
}

/* ------------------------------------------------------------------ history printing */
static char HB[2400];
static const char *hist_str(const int *hist,int nh){
   int i,k=0; HB[0]=0;
   for(i=0;i<nh&&k<2000;i++){
      if(hist[i]<0) k+=snprintf(HB+k,sizeof HB-k,"init; ");
      else { const apkt *p=&A[hist[i]]; k+=snprintf(HB+k,sizeof HB-k,"cat[#%d %s len=%d %s%s]; ",hist[i],p->name,p->n,mc_hex(p->b,p->n<20?p->n:20),p->n>20?"..":""); }
   }
   return HB;
}

/* ------------------------------------------------------------------ per-range oracle */
static int SWEEP;
/* failures with a reserved (design-time) signature are counted every time but written out only for the first three
   occurrences per item: formatting millions of identical reports would dominate the run time */
static int kf_cnt[6]; static long kf_item=-2;
static int kf_report(int k){ long it=mc_cur_item(); if(it!=kf_item){ kf_item=it; memset(kf_cnt,0,sizeof kf_cnt); } return kf_cnt[k]++<3; }
typedef struct { const OpusRepacketizer *rp0; OpusRepacketizer *rp; const model *m; const int *hist; int nh; } bctx;

static int src_first(const model *m,int j){ return j-m->fi[j]; }          /* state index of the first frame of frame j's source packet */

/* extensions the C16 statement (last sentence) expects on the output of [b,e): those declared on the selected frames.
   packets whose padding is not a well-formed list contribute none. */
static int expected_exts(const model *m,int b,int e,xdecl *out,int *src_begins_before){
   int j,i,n=0;
   for(j=b;j<e;j++){ const apkt *p=&A[m->pk[j]]; for(i=0;i<p->nx;i++) if(p->x[i].frame==m->fi[j]&&n<64){ out[n]=p->x[i]; out[n].frame=j-b; src_begins_before[n]=src_first(m,j)<b; n++; } }
   return n;
}

static void observe(int kind,int code,int cnt,int vbr,int pad,int fit,int nstate,const bctx *c,int b,int e,int maxlen,int r){
   uint64_t h=mc_mix(mc_mix(kind,code),mc_mix(cnt<3?cnt:(cnt<48?3:4),vbr*4+pad*2+fit)); h=mc_mix(h,nstate<4?nstate:(nstate<48?4:5));
   if(mc_set_add(S_cls,h)){ MC_INC(c_dn);
      if(cnt>=2||kind==1) mc_sample("%s ops=[%s] out_range(%d,%d,maxlen=%d)=%d -> code %d, %d frames, vbr=%d, padding=%d: frames byte-identical to the model",kind==1?"ext-carrying":"plain",hist_str(c->hist,c->nh),b,e,maxlen,r,code,cnt,vbr,pad); }
}

/* one out/out_range call; returns r. checks: r<=maxlen, canary, and (r>0) frames == model frames b..e-1.  *vfail set if content was wrong */
static int call_out(const bctx *c,int b,int e,int maxlen,int fill,int use_out,unsigned char **pd,rfc_pkt *o,int *vfail){
   const model *m=c->m; int r,cnt=e-b,i,v; unsigned char *d=ob_prepare(maxlen,fill); const unsigned char *fp[48]; int fl[48];
   *pd=d; *vfail=0;
   r = use_out ? opus_repacketizer_out(c->rp,d,maxlen) : opus_repacketizer_out_range(c->rp,b,e,d,maxlen);
   MC_INC(c_trans); MC_INC(c_eval);
   if(!ob_canary_ok(d)){ mc_fail("out_writes_before_buffer","ops=[%s] out_range(%d,%d,maxlen=%d)=%d damaged the bytes in front of data",hist_str(c->hist,c->nh),b,e,maxlen,r); *vfail=1; }
   if(r>maxlen){ mc_fail("out_exceeds_maxlen","ops=[%s] out_range(%d,%d,maxlen=%d) returned %d",hist_str(c->hist,c->nh),b,e,maxlen,r); *vfail=1; return r; }
   if(r==0){ mc_fail("out_returns_zero","ops=[%s] out_range(%d,%d,maxlen=%d) returned 0",hist_str(c->hist,c->nh),b,e,maxlen); *vfail=1; return r; }
   if(r<0) return r;
   if(r>fill && fill<maxlen){ /* output longer than the poisoned prefix: redo with everything poisoned so stale bytes cannot pass for output */
      return call_out(c,b,e,maxlen,maxlen,use_out,pd,o,vfail); }
   for(i=0;i<cnt;i++){ fp[i]=mf_ptr(m,b+i); fl[i]=mf_len(m,b+i); }
   rfc_parse(d,r,0,o);
   v=frames_cmp(o,d,m->toc,cnt,fp,fl);
   if(v){ char sig[64]; snprintf(sig,sizeof sig,"out_content:%s",FCMP[v]); *vfail=1;
      mc_fail(sig,"ops=[%s] out_range(%d,%d,maxlen=%d)=%d output=%s%s does not parse back to model frames %d..%d (toc cfg %02x)",hist_str(c->hist,c->nh),b,e,maxlen,r,mc_hex(d,r<48?r:48),r>48?"..":"",b,e-1,m->toc&0xFC); }
   else if(!lib_parse_agrees(d,r,o)){ *vfail=1; mc_fail("out_content:opus_packet_parse_disagrees","ops=[%s] out_range(%d,%d,maxlen=%d)=%d output=%s: RFC model parses it to the right frames but opus_packet_parse does not",hist_str(c->hist,c->nh),b,e,maxlen,r,mc_hex(d,r<48?r:48)); }
   return r;
}

/* extension carriage on a successful output (C16 last sentence; needed here to attribute F9 'range begins inside') */
static void check_carriage(const bctx *c,int b,int e,int maxlen,int r,const unsigned char *d,const rfc_pkt *o){
   xdecl ex[64]; int before[64]; int nexp=expected_exts(c->m,b,e,ex,before), i,j,f; opus_extension_data got[64]; opus_int32 ng=64; int rr=0;
   int missing_inside=0, other=0; unsigned char used[64];
   MC_INC(c_extcheck);
   if(o->pad_len>0) rr=opus_packet_extensions_parse(d+o->pad_off,o->pad_len,got,&ng,o->count); else ng=0;
   if(rr<0){ mc_fail("out_extension_carriage:output_padding_unparsable","ops=[%s] out_range(%d,%d,maxlen=%d)=%d output=%s: padding does not parse as extensions (%d)",hist_str(c->hist,c->nh),b,e,maxlen,r,mc_hex(d,r<64?r:64),rr); return; }
   memset(used,0,sizeof used);
   /* per frame, in order: the k-th expected extension of frame f must be the k-th reported one of frame f */
   for(f=0;f<e-b;f++){ int gi=0;
      for(i=0;i<nexp;i++){ if(ex[i].frame!=f) continue;
         for(j=gi;j<ng;j++) if(got[j].frame==f&&!used[j]) break;
         if(j<ng && got[j].id==ex[i].id && got[j].len==ex[i].len && (!ex[i].len||!memcmp(got[j].data,ex[i].d,ex[i].len))){ used[j]=1; gi=j+1; }
         else { if(before[i]) missing_inside++; else other++; }
      }
   }
   for(j=0;j<ng;j++) if(!used[j]) other++;
   if(other){ mc_fail("out_extension_carriage:mismatch","ops=[%s] out_range(%d,%d,maxlen=%d)=%d output=%s: extensions on the output frames differ from those declared on the selected frames (%d expected, %d reported)",hist_str(c->hist,c->nh),b,e,maxlen,r,mc_hex(d,r<64?r:64),nexp,(int)ng); }
   else if(missing_inside){ MC_INC(c_f9b);
      if(kf_report(2)) mc_fail("out_range_split_extensions:range_begins_inside","ops=[%s] out_range(%d,%d,maxlen=%d)=%d output=%s: %d extension(s) of selected frames are missing; their source packet starts before frame %d (padding is stored at the packet's first frame only)",hist_str(c->hist,c->nh),b,e,maxlen,r,mc_hex(d,r<64?r:64),missing_inside,b); }
}

static void range_battery(const bctx *c,int b,int e){
   const model *m=c->m; int cnt=e-b,i,j,fl[48],need_min,need,has_ext=0,has_bad=0,f9end=0,r,vf,known=0; unsigned char *d; rfc_pkt o; int full=(b==0&&e==m->n);
   int big=1277*cnt, G;
   MC_INC(c_ranges);
   for(i=0;i<cnt;i++) fl[i]=mf_len(m,b+i);
   need_min=frames_min_len(cnt,fl,0);
   for(j=b;j<e;j++){ const apkt *p=&A[m->pk[j]]; if(p->nx) has_ext=1; if(p->padkind==PK_BAD) has_bad=1;
      if(src_first(m,j)>=b){ for(i=0;i<p->nx;i++) if(src_first(m,j)+p->x[i].frame>=e) f9end=1; } }
   if(!has_ext&&!has_bad){
      /* plain contents: the model knows the exact minimum */
      int ml[80],K=0,api; ml[K++]=big; ml[K++]=need_min; ml[K++]=need_min-1; ml[K++]=need_min+1; ml[K++]=0; ml[K++]=1;
      if(need_min<=SWEEP) for(i=2;i<=need_min+2&&K<80;i++) if(i!=need_min&&i!=need_min-1&&i!=need_min+1) ml[K++]=i;   /* every maxlen up to need+2 for small outputs */
      for(api=0;api<=full;api++) for(i=0;i<K;i++){ int maxlen=ml[i];
         r=call_out(c,b,e,maxlen,need_min+8,api,&d,&o,&vf);
         if(maxlen>=need_min){
            if(r<0){
               if(i==0) mc_fail("maxlen_1277n_insufficient:no_extensions","ops=[%s] out_range(%d,%d,maxlen=1277*%d=%d)=%d (%s); model minimum is %d bytes",hist_str(c->hist,c->nh),b,e,cnt,maxlen,r,errname(r),need_min);
               else { char sig[80]; snprintf(sig,sizeof sig,"out_refused_though_maxlen_sufficient:%s",errname(r)); mc_fail(sig,"ops=[%s] out_range(%d,%d,maxlen=%d)=%d; model minimum is %d bytes",hist_str(c->hist,c->nh),b,e,maxlen,r,need_min); }
            } else if(r>0&&!vf){ MC_INC(c_out_ok);
               if(r<need_min) mc_fail("harness_model_minimum_not_minimal","ops=[%s] out_range(%d,%d,maxlen=%d)=%d is a correct packet shorter than the model minimum %d",hist_str(c->hist,c->nh),b,e,maxlen,r,need_min);
               observe(0,o.toc&3,cnt,o.vbr,o.pad_len>0||o.has_pad_flag,r==maxlen,m->n,c,b,e,maxlen,r);
               if(o.pad_len>0) check_carriage(c,b,e,maxlen,r,d,&o);
            }
         } else {
            if(r>0){ if(!vf) mc_fail("out_succeeds_below_model_minimum","ops=[%s] out_range(%d,%d,maxlen=%d)=%d but the smallest RFC packet for these frames has %d bytes",hist_str(c->hist,c->nh),b,e,maxlen,r,need_min); }
            else if(r!=OPUS_BUFFER_TOO_SMALL){ char sig[80]; snprintf(sig,sizeof sig,"out_too_small_wrong_error:%s",errname(r)); mc_fail(sig,"ops=[%s] out_range(%d,%d,maxlen=%d)=%d, expected OPUS_BUFFER_TOO_SMALL (minimum %d)",hist_str(c->hist,c->nh),b,e,maxlen,r,need_min); }
            else MC_INC(c_out_small);
         }
      }
      return;
   }
   /* contents with extension-bearing or malformed padding in the range: the size is whatever the first generous call needs */
   G=big+1024;
   r=call_out(c,b,e,G,need_min+64,0,&d,&o,&vf);
   if(r<0){
      if(r==OPUS_INTERNAL_ERROR&&has_bad){ MC_INC(c_f3); known=1;
         if(kf_report(0)) mc_fail("out_internal_error:unparsable_padding","ops=[%s] out_range(%d,%d,maxlen=%d)=OPUS_INTERNAL_ERROR: an accepted packet in the range has padding that is not a well-formed extension list",hist_str(c->hist,c->nh),b,e,G); }
      else if(r==OPUS_BAD_ARG&&f9end){ MC_INC(c_f9e); known=1;
         if(kf_report(1)) mc_fail("out_range_split_extensions:range_ends_inside","ops=[%s] out_range(%d,%d,maxlen=%d)=OPUS_BAD_ARG for a valid range: a packet starting inside the range carries an extension for a frame at or beyond %d",hist_str(c->hist,c->nh),b,e,G,e); }
      else { char sig[80]; snprintf(sig,sizeof sig,"out_error_with_padding_contents:%s",errname(r)); known=1;
         mc_fail(sig,"ops=[%s] out_range(%d,%d,maxlen=%d)=%d on a valid range (has_ext=%d has_bad=%d)",hist_str(c->hist,c->nh),b,e,G,r,has_ext,has_bad); }
      need=-1;
   } else if(r>0&&!vf){ need=r; MC_INC(c_out_ok);
      if(need<need_min) mc_fail("harness_model_minimum_not_minimal","ops=[%s] out_range(%d,%d,maxlen=%d)=%d is shorter than the model minimum %d",hist_str(c->hist,c->nh),b,e,G,r,need_min);
      observe(1,o.toc&3,cnt,o.vbr,o.pad_len>0,0,m->n,c,b,e,G,r);
      check_carriage(c,b,e,G,r,d,&o);
   } else need=-1;
   {
      int ml[6],K=0; ml[K++]=big; if(need>0){ ml[K++]=need; ml[K++]=need-1; ml[K++]=need+1; } ml[K++]=0; ml[K++]=1;
      for(i=0;i<K;i++){ int maxlen=ml[i];
         r=call_out(c,b,e,maxlen,(need>0?need:need_min)+64,full&&(i&1),&d,&o,&vf);
         if(r>0){ if(!vf){ MC_INC(c_out_ok); check_carriage(c,b,e,maxlen,r,d,&o); observe(1,o.toc&3,cnt,o.vbr,o.pad_len>0,r==maxlen,m->n,c,b,e,maxlen,r); } continue; }
         if(r==0||known) continue;                    /* r==0 already reported; known: the generous call already failed for this range */
         if(need>0&&maxlen>=need){
            if(i==0&&r==OPUS_BUFFER_TOO_SMALL) { /* unreachable: maxlen>=need */ }
            { char sig[80]; snprintf(sig,sizeof sig,"out_refused_though_maxlen_sufficient:%s",errname(r)); mc_fail(sig,"ops=[%s] out_range(%d,%d,maxlen=%d)=%d although maxlen=%d yields a %d-byte packet",hist_str(c->hist,c->nh),b,e,maxlen,r,G,need); }
         } else if(need>0){
            if(r!=OPUS_BUFFER_TOO_SMALL){ char sig[80]; snprintf(sig,sizeof sig,"out_too_small_wrong_error:%s",errname(r)); mc_fail(sig,"ops=[%s] out_range(%d,%d,maxlen=%d)=%d, expected OPUS_BUFFER_TOO_SMALL (needs %d)",hist_str(c->hist,c->nh),b,e,maxlen,r,need); }
            else if(i==0){ /* 1277 bytes per selected frame were refused */
               if(has_ext){ MC_INC(c_f8); if(kf_report(3)) mc_fail("maxlen_1277n_insufficient:with_extensions","ops=[%s] out_range(%d,%d,maxlen=1277*%d=%d)=OPUS_BUFFER_TOO_SMALL: with the carried extensions the output needs %d bytes",hist_str(c->hist,c->nh),b,e,cnt,maxlen,need); }
               else mc_fail("maxlen_1277n_insufficient:no_extensions","ops=[%s] out_range(%d,%d,maxlen=1277*%d=%d)=OPUS_BUFFER_TOO_SMALL, needs %d, no extension is carried",hist_str(c->hist,c->nh),b,e,cnt,maxlen,need);
            } else MC_INC(c_out_small);
         }
      }
   }
}

static void battery(OpusRepacketizer *rp,const model *m,const int *hist,int nh){
   bctx c; int b,e,n=m->n,i,r; unsigned char *d;
   c.rp=rp; c.m=m; c.hist=hist; c.nh=nh;
   mc_case("seq_battery","out/out_range battery after ops=[%s]",hist_str(hist,nh));
   MC_MAX(c_maxframes,n);
   r=opus_repacketizer_get_nb_frames(rp); MC_INC(c_eval);
   if(r!=n) mc_fail("nb_frames_mismatch","ops=[%s] get_nb_frames=%d, model has %d",hist_str(hist,nh),r,n);
   for(b=0;b<n;b++) for(e=b+1;e<=n;e++) range_battery(&c,b,e);
   /* ranges that do not select frames must be refused */
   { int bad[7][2]={{-1,1},{0,0},{n,n},{0,n+1},{1,0},{n,n+1},{-1,0}};
     for(i=0;i<7;i++){ d=ob_prepare(1277,0); r=opus_repacketizer_out_range(rp,bad[i][0],bad[i][1],d,1277); MC_INC(c_trans); MC_INC(c_eval); MC_INC(c_out_badrange);
        if(r>=0) mc_fail("out_range_invalid_range_not_refused","ops=[%s] out_range(%d,%d,1277)=%d with %d frames held",hist_str(hist,nh),bad[i][0],bad[i][1],r,n); }
     if(n==0){ d=ob_prepare(1277,0); r=opus_repacketizer_out(rp,d,1277); MC_INC(c_trans); MC_INC(c_eval); if(r>=0) mc_fail("out_on_empty_not_refused","ops=[%s] out(1277)=%d with no frames held",hist_str(hist,nh),r); }
   }
}

/* ------------------------------------------------------------------ transitions and search */
static int MAXD;
static int *OPS[8], NOPS[8];    /* per config group: op = packet index, -1 = init */
static int NCFG; static int CFG_TOC[8];

/* returns 0 if implementation and model diverged (already reported): the subtree is not explored further */
static int apply_op(OpusRepacketizer *rp,model *m,int op,const int *hist,int nh){
   MC_INC(c_trans);
   if(op<0){ opus_repacketizer_init(rp); m->n=0; if(opus_repacketizer_get_nb_frames(rp)!=0){ mc_fail("init_not_empty","ops=[%s] init leaves %d frames",hist_str(hist,nh),opus_repacketizer_get_nb_frames(rp)); return 0; } return 1; }
   { const apkt *p=&A[op]; const char *why; int exp=model_cat_ok(m,p,&why), before=m->n, r, nb; char sig[96];
     r=opus_repacketizer_cat(rp,p->b,p->n); MC_INC(c_eval);
     nb=opus_repacketizer_get_nb_frames(rp);
     if((r==OPUS_OK)!=exp){
        snprintf(sig,sizeof sig,"cat_%s:%s",exp?"rejects_acceptable":"accepts_unacceptable",why);
        mc_fail(sig,"ops=[%s] then cat[#%d %s len=%d %s]=%d (%s) with %d frames held (toc cfg %02x); statement: accept exactly when valid, configuration-compatible and total <= 120 ms -> model says %s",hist_str(hist,nh),op,p->name,p->n,mc_hex(p->b,p->n<24?p->n:24),r,errname(r),before,m->toc&0xFC,why);
        return 0; }
     if(exp){ model_cat(m,op); MC_INC(c_cat_ok); } else MC_INC(c_cat_rej);
     if(nb!=m->n){ snprintf(sig,sizeof sig,"cat_nb_frames:%s",exp?"after_accept":"changed_by_rejected_cat"); mc_fail(sig,"ops=[%s] then cat[#%d %s]=%d: get_nb_frames=%d, model %d",hist_str(hist,nh),op,p->name,r,nb,m->n); return 0; }
   }
   return 1;
}

static void explore(OpusRepacketizer *rp,model *m,int cfg,int remaining,int *hist,int nh){
   uint64_t key=mc_mix(image_hash(rp),model_hash(m)); int i,r;
   if(mc_set_add(S_state,key)){
      MC_INC(c_states);
      battery(rp,m,hist,nh);
      { uint64_t k2=mc_mix(image_hash(rp),model_hash(m));
        if(k2!=key){ /* an out call modified the object: that is a new state reached by an 'out' transition; give it the battery too */
           if(mc_set_add(S_state,k2)){ MC_INC(c_states); battery(rp,m,hist,nh); }
           key=k2; } }
   }
   if(remaining<=0) return;
   for(r=remaining;r<=MAXD;r++) if(mc_set_has(S_exp,mc_mix(key,r))) return;
   mc_set_add(S_exp,mc_mix(key,remaining));
   { OpusRepacketizer snap=*rp; model ms=*m;
     for(i=0;i<NOPS[cfg];i++){
        *rp=snap; *m=ms;
        mc_case("seq_cat","ops=[%s] then op %d",hist_str(hist,nh),OPS[cfg][i]);
        if(!apply_op(rp,m,OPS[cfg][i],hist,nh)) continue;
        hist[nh]=OPS[cfg][i];
        explore(rp,m,cfg,remaining-1,hist,nh+1);
     }
     *rp=snap; *m=ms; }
}

static int SPLIT; static long ITEM_BASE[9];
static void seq_item(long it,void *ctx){
   int cfg=0,hist[8],nh=0,pre[2],np,i; OpusRepacketizer *rp=calloc(1,opus_repacketizer_get_size()); model m; (void)ctx;
   while(cfg+1<NCFG && it>=ITEM_BASE[cfg+1]) cfg++;
   it-=ITEM_BASE[cfg];
   if(SPLIT==1){ pre[0]=(int)it; np=1; } else { pre[0]=(int)(it/NOPS[cfg]); pre[1]=(int)(it%NOPS[cfg]); np=2; }
   if(np>MAXD) np=MAXD;
   memset(&m,0,sizeof m); opus_repacketizer_init(rp);
   /* walk the forced prefix (every intermediate state gets its battery once, through the shared visited set) */
   for(i=0;i<np;i++){
      uint64_t key=mc_mix(image_hash(rp),model_hash(&m));
      if(mc_set_add(S_state,key)){ MC_INC(c_states); battery(rp,&m,hist,nh); }
      mc_case("seq_cat","ops=[%s] then op %d",hist_str(hist,nh),OPS[cfg][pre[i]]);
      if(!apply_op(rp,&m,OPS[cfg][pre[i]],hist,nh)){ free(rp); return; }
      hist[nh++]=OPS[cfg][pre[i]];
   }
   explore(rp,&m,cfg,MAXD-np,hist,nh);
   free(rp);
}

static void build_seq_alphabet(int ncfg,int reduced){
   static const int T[8]={0x80,0x08,0x18,0x6C,0x88,0x90,0x10,0xFC};  /* 2.5 ms CELT, 20 ms SILK, 60 ms SILK, 20 ms hybrid stereo, 5 ms, 10 ms CELT, 40 ms SILK, 20 ms CELT FB stereo */ int c,k;
   NCFG=ncfg;
   for(c=0;c<ncfg;c++){ int first=NA; CFG_TOC[c]=T[c]; build_group(T[c],c,reduced);
      OPS[c]=malloc(sizeof(int)*(NA-first+1)); NOPS[c]=0; OPS[c][NOPS[c]++]=-1; for(k=first;k<NA;k++) OPS[c][NOPS[c]++]=k; }
}

/* ================================================================== pad / unpad */
static mc_ctr *c_pad_ok,*c_pad_rej,*c_unpad,*c_pad_f3;
static mc_set *S_padcls;
static int DWIN;

static void pad_one(const apkt *p,int new_len){
   int n=p->n, cap=new_len>n?new_len:n, r,u,u2,i,v; unsigned char *buf; rfc_pkt o; const unsigned char *fp[48]; int fl[48];
   if(cap<1) cap=1;
   buf=malloc(cap); if(n) memcpy(buf,p->b,n); if(cap>n) memset(buf+n,0x77,cap-n);
   mc_case_bytes("pad",p->b,n<64?n:64,n,new_len,0);
   r=opus_packet_pad(buf,n,new_len); MC_INC(c_trans); MC_INC(c_eval);
   if(!p->m.ok){ /* no clause speaks about padding an invalid packet; memory safety only (ASan, exact-size block) */ free(buf); return; }
   for(i=0;i<p->m.count;i++){ fp[i]=p->b+p->m.off[i]; fl[i]=p->m.size[i]; }
   if(new_len<n){ if(r>=0) mc_fail("pad_to_shorter_not_refused","pad(%s len=%d -> %d)=%d",p->name,n,new_len,r); else MC_INC(c_pad_rej); free(buf); return; }
   if(r!=OPUS_OK){
      if(r==OPUS_INTERNAL_ERROR&&p->padkind==PK_BAD){ MC_INC(c_pad_f3); if(kf_report(4)) mc_fail("pad_internal_error:unparsable_padding","opus_packet_pad(%s = %s, len=%d, new_len=%d)=OPUS_INTERNAL_ERROR: valid packet whose padding is not a well-formed extension list",p->name,mc_hex(p->b,n<40?n:40),n,new_len); }
      else { char sig[96]; snprintf(sig,sizeof sig,"pad_fails:%s:%s",errname(r),p->nx?"with_extensions":(p->padkind==PK_BAD?"unparsable_padding":"plain")); mc_fail(sig,"opus_packet_pad(%s = %s%s, len=%d, new_len=%d)=%d",p->name,mc_hex(p->b,n<40?n:40),n>40?"..":"",n,new_len,r); }
      free(buf); return; }
   MC_INC(c_pad_ok);
   rfc_parse(buf,new_len,0,&o); v=frames_cmp(&o,buf,p->m.toc,p->m.count,fp,fl);
   if(v||!lib_parse_agrees(buf,new_len,&o)){ char sig[64]; snprintf(sig,sizeof sig,"pad_content:%s",v?FCMP[v]:"opus_packet_parse_disagrees"); mc_fail(sig,"opus_packet_pad(%s = %s%s, len=%d, new_len=%d)=OK but the %d-byte result %s%s does not hold the same frames",p->name,mc_hex(p->b,n<40?n:40),n>40?"..":"",n,new_len,new_len,mc_hex(buf,new_len<48?new_len:48),new_len>48?"..":""); free(buf); return; }
   { uint64_t h=mc_mix(mc_mix(o.toc&3,o.count<3?o.count:3),mc_mix(o.vbr,o.pad_len==0?0:o.pad_len<254?1:o.pad_len<508?2:3)); h=mc_mix(h,p->padkind);
     if(mc_set_add(S_padcls,h)){ MC_INC(c_dn); if(o.count>=2||p->padkind!=PK_NONE) mc_sample("pad(%s = %s%s, len=%d -> new_len=%d)=OK -> code %d, %d frames, %d padding data bytes, frames identical; unpad canonical+idempotent",p->name,mc_hex(p->b,n<24?n:24),n>24?"..":"",n,new_len,o.toc&3,o.count,o.pad_len); } }
   /* unpad of the padded packet: never longer, canonical (the unique smallest packet with these frames), idempotent */
   { static unsigned char canon[70000]; int cl=frames_min_build(canon,p->m.toc,p->m.count,fp,fl,0); unsigned char *b2;
     u=opus_packet_unpad(buf,new_len); MC_INC(c_trans); MC_INC(c_eval); MC_INC(c_unpad);
     if(u<=0||u>new_len) mc_fail(u<=0?"unpad_fails":"unpad_longer_than_input","unpad(pad(%s,len=%d,new_len=%d))=%d",p->name,n,new_len,u);
     else if(u!=cl||memcmp(buf,canon,cl)) mc_fail("unpad_not_canonical","unpad(pad(%s,len=%d,new_len=%d))=%d bytes %s%s, the smallest packet with these frames has %d bytes %s",p->name,n,new_len,u,mc_hex(buf,u<40?u:40),u>40?"..":"",cl,mc_hex(canon,cl<40?cl:40));
     else { b2=malloc(u); memcpy(b2,buf,u); u2=opus_packet_unpad(b2,u); MC_INC(c_trans); MC_INC(c_eval);
        if(u2!=u||memcmp(b2,buf,u)) mc_fail("unpad_not_idempotent","unpad(unpad(pad(%s,len=%d,new_len=%d)))=%d, first unpad gave %d",p->name,n,new_len,u2,u);
        free(b2); }
   }
   free(buf);
}
static void pad_item(long it,void *ctx){
   const apkt *p=&A[it]; int n=p->n,d,i; static const int extra[]={763,764,765,766,767,1017,1018,1019,1020,1021,1022,1275,1276,1277,2000}; (void)ctx;
   for(d=-1;d<=DWIN;d++) pad_one(p,n+d);
   for(i=0;i<(int)(sizeof extra/sizeof extra[0]);i++) if(extra[i]>DWIN) pad_one(p,n+extra[i]);
   if(1500>n+DWIN) pad_one(p,1500);
   if(p->m.ok){ /* unpad of the packet itself */
      unsigned char *b=malloc(n), *b2; static unsigned char canon[70000]; const unsigned char *fp[48]; int fl[48],cl,u,u2;
      for(i=0;i<p->m.count;i++){ fp[i]=p->b+p->m.off[i]; fl[i]=p->m.size[i]; }
      cl=frames_min_build(canon,p->m.toc,p->m.count,fp,fl,0);
      memcpy(b,p->b,n); mc_case_bytes("unpad",p->b,n<64?n:64,n,0,0);
      u=opus_packet_unpad(b,n); MC_INC(c_trans); MC_INC(c_eval); MC_INC(c_unpad);
      if(u<=0||u>n) mc_fail(u<=0?"unpad_fails":"unpad_longer_than_input","unpad(%s = %s, len=%d)=%d",p->name,mc_hex(p->b,n<40?n:40),n,u);
      else if(u!=cl||memcmp(b,canon,cl)) mc_fail("unpad_not_canonical","unpad(%s = %s%s, len=%d)=%d bytes %s, smallest packet with these frames: %d bytes %s",p->name,mc_hex(p->b,n<40?n:40),n>40?"..":"",n,u,mc_hex(b,u<40?u:40),cl,mc_hex(canon,cl<40?cl:40));
      else { b2=malloc(u); memcpy(b2,b,u); u2=opus_packet_unpad(b2,u); MC_INC(c_trans); MC_INC(c_eval); if(u2!=u||memcmp(b2,b,u)) mc_fail("unpad_not_idempotent","unpad(unpad(%s))=%d vs %d",p->name,u2,u); free(b2); }
      free(b);
   } else if(n>0){ unsigned char *b=malloc(n); memcpy(b,p->b,n); mc_case_bytes("unpad",p->b,n<64?n:64,n,0,0); (void)opus_packet_unpad(b,n); MC_INC(c_trans); free(b); }
}
static void build_pad_extras(void){
   static const int Z[]={1,2,253,254,255,256,507,508,509,510,511}; int t,i,M,vbr,sz[48]; static const int T[2]={0x80,0x6C};
   for(t=0;t<2;t++) for(i=0;i<(int)(sizeof Z/sizeof Z[0]);i++) for(M=1;M<=3;M++) for(vbr=0;vbr<2;vbr++){
      if(M==1) sz[0]=252; else if(M==2){ sz[0]=vbr?0:3; sz[1]=3; } else { sz[0]=1; sz[1]=vbr?252:1; sz[2]=1; }
      add_pkt(T[t],3,vbr,M,sz,PK_ZEROSN,Z[i],-1,""); }
}

/* ================================================================== multistream pad / unpad */
#define NQ 12
typedef struct { int toc,code,vbr,M,sz[3],padkind,zn; } qshape;
static const qshape Q[NQ]={
   {0x80,0,0,1,{1,0,0},PK_NONE,0},      /* default shape */
   {0x08,0,0,1,{0,0,0},PK_NONE,0},      /* TOC only */
   {0x6C,0,0,1,{252,0,0},PK_NONE,0},
   {0x18,1,0,2,{2,2,0},PK_NONE,0},
   {0x80,2,0,2,{1,252,0},PK_NONE,0},
   {0x48,2,0,2,{252,0,0},PK_NONE,0},
   {0x08,3,0,2,{3,3,0},PK_NONE,0},
   {0x80,3,1,3,{2,0,7},PK_ZEROSN,2},
   {0x6C,3,0,1,{5,0,0},PK_EXT0,0},
   {0x80,3,1,2,{4,1,0},PK_BAD,0},
   {0xF8,3,0,1,{1275,0,0},PK_ZEROS255,0},
   {0x08,3,0,2,{0,0,0},PK_EMPTY,0},
};
static struct { unsigned char *sd,*st; int nsd,nst; const unsigned char *fp[3]; int fl[3]; unsigned char *fb; } QB[NQ];
static mc_ctr *c_ms_pad,*c_ms_unpad,*c_ms_f3,*c_ms_trunc;
static mc_set *S_mscls;
static void build_q(void){
   int q,f,i; static unsigned char tmp[4000],pd[600]; xdecl x[4]; int nx;
   for(q=0;q<NQ;q++){ const qshape *s=&Q[q]; int o=0,pad; QB[q].fb=malloc(1300);
      for(f=0;f<s->M;f++){ QB[q].fp[f]=QB[q].fb+o; QB[q].fl[f]=s->sz[f]; for(i=0;i<s->sz[f];i++) QB[q].fb[o++]=fillb(200+q,f,i); }
      pad=pad_bytes(s->padkind,s->M,s->zn,pd,x,&nx);
      QB[q].nsd=rfc_build(tmp,s->toc,s->code,s->vbr,s->M,QB[q].fp,QB[q].fl,s->code==3?pad:-1,pd,1); QB[q].sd=malloc(QB[q].nsd); memcpy(QB[q].sd,tmp,QB[q].nsd);
      QB[q].nst=rfc_build(tmp,s->toc,s->code,s->vbr,s->M,QB[q].fp,QB[q].fl,s->code==3?pad:-1,pd,0); QB[q].st=malloc(QB[q].nst); memcpy(QB[q].st,tmp,QB[q].nst);
      if(QB[q].nsd<0||QB[q].nst<0){ fprintf(stderr,"Q build failed\n"); exit(2); } }
}
static const char *tuple_str(const int *t,int S){ static char b[64]; int i,k=0; for(i=0;i<S;i++) k+=snprintf(b+k,sizeof b-k,"%s%d",i?",":"",t[i]); return b; }
/* parse an S-stream packet; returns 0 if every stream parses, holds the tuple's frames and the last stream ends exactly at N */
static int ms_check(const unsigned char *b,int N,const int *t,int S,int *which){
   int s,pos=0; for(s=0;s<S;s++){ rfc_pkt o; int sd=s!=S-1,v; *which=s;
      if(pos>=N) return 1; rfc_parse(b+pos,N-pos,sd,&o); v=frames_cmp(&o,b+pos,Q[t[s]].toc,Q[t[s]].M,QB[t[s]].fp,QB[t[s]].fl); if(v) return v; pos+=o.consumed; }
   return pos==N?0:6;
}
static int ms_canon(unsigned char *o,const int *t,int S){ int s,k=0; for(s=0;s<S;s++) k+=frames_min_build(o+k,Q[t[s]].toc,Q[t[s]].M,QB[t[s]].fp,QB[t[s]].fl,s!=S-1); return k; }
static void ms_tuple(const int *t,int S){
   static const int D[]={-1,0,1,2,3,4,253,254,255,256,257,258,509,510,511,512,1000}; static unsigned char src[12000],canon[12000]; int n=0,s,di,cl,which;
   for(s=0;s<S;s++){ if(s!=S-1){ memcpy(src+n,QB[t[s]].sd,QB[t[s]].nsd); n+=QB[t[s]].nsd; } else { memcpy(src+n,QB[t[s]].st,QB[t[s]].nst); n+=QB[t[s]].nst; } }
   cl=ms_canon(canon,t,S); MC_INC(c_states);
   mc_case("ms","streams=%d tuple=(%s) len=%d",S,tuple_str(t,S),n);
   for(di=0;di<(int)(sizeof D/sizeof D[0]);di++){
      int new_len=n+D[di], cap=new_len>n?new_len:n, r,u,u2,v; unsigned char *buf=malloc(cap), *b2;
      memcpy(buf,src,n); if(cap>n) memset(buf+n,0x77,cap-n);
      r=opus_multistream_packet_pad(buf,n,new_len,S); MC_INC(c_trans); MC_INC(c_eval); MC_INC(c_ms_pad);
      if(new_len<n){ if(r>=0) mc_fail("ms_pad_to_shorter_not_refused","ms_pad(streams=%d tuple=(%s) len=%d -> %d)=%d",S,tuple_str(t,S),n,new_len,r); free(buf); continue; }
      if(r!=OPUS_OK){
         if(r==OPUS_INTERNAL_ERROR&&Q[t[S-1]].padkind==PK_BAD){ MC_INC(c_ms_f3); if(kf_report(5)) mc_fail("ms_pad_internal_error:unparsable_padding","opus_multistream_packet_pad(streams=%d tuple=(%s) %s%s, len=%d, new_len=%d)=OPUS_INTERNAL_ERROR: last stream's padding is not a well-formed extension list",S,tuple_str(t,S),mc_hex(src,n<40?n:40),n>40?"..":"",n,new_len); }
         else { char sig[96]; snprintf(sig,sizeof sig,"ms_pad_fails:%s:%s",errname(r),Q[t[S-1]].padkind==PK_EXT0?"with_extensions":"plain"); mc_fail(sig,"opus_multistream_packet_pad(streams=%d tuple=(%s) %s%s, len=%d, new_len=%d)=%d",S,tuple_str(t,S),mc_hex(src,n<40?n:40),n>40?"..":"",n,new_len,r); }
         free(buf); continue; }
      v=ms_check(buf,new_len,t,S,&which);
      if(v){ char sig[64]; snprintf(sig,sizeof sig,"ms_pad_content:%s",v==6?"length_not_exact":FCMP[v]); mc_fail(sig,"opus_multistream_packet_pad(streams=%d tuple=(%s), len=%d, new_len=%d)=OK but stream %d of the result %s%s is wrong",S,tuple_str(t,S),n,new_len,which,mc_hex(buf,new_len<48?new_len:48),new_len>48?"..":""); free(buf); continue; }
      { uint64_t h=mc_mix(mc_mix(S,t[S-1]),D[di]); if(mc_set_add(S_mscls,h)){ MC_INC(c_dn); if(S>=2&&D[di]>0&&(t[0]||t[S-1])) mc_sample("ms_pad(streams=%d shapes=(%s) %s%s, len=%d -> %d)=OK: every stream re-parses to its frames; ms_unpad -> %d bytes canonical, idempotent",S,tuple_str(t,S),mc_hex(src,n<24?n:24),n>24?"..":"",n,new_len,cl); } }
      u=opus_multistream_packet_unpad(buf,new_len,S); MC_INC(c_trans); MC_INC(c_eval); MC_INC(c_ms_unpad);
      if(u<=0||u>new_len) mc_fail(u<=0?"ms_unpad_fails":"ms_unpad_longer_than_input","ms_unpad(ms_pad(streams=%d tuple=(%s), %d -> %d))=%d",S,tuple_str(t,S),n,new_len,u);
      else if(u!=cl||memcmp(buf,canon,cl)) mc_fail("ms_unpad_not_canonical","ms_unpad(ms_pad(streams=%d tuple=(%s), %d -> %d))=%d bytes %s, per-stream smallest packets: %d bytes %s",S,tuple_str(t,S),n,new_len,u,mc_hex(buf,u<48?u:48),cl,mc_hex(canon,cl<48?cl:48));
      else { b2=malloc(u); memcpy(b2,buf,u); u2=opus_multistream_packet_unpad(b2,u,S); MC_INC(c_trans); MC_INC(c_eval); if(u2!=u||memcmp(b2,buf,u)) mc_fail("ms_unpad_not_idempotent","streams=%d tuple=(%s): %d then %d",S,tuple_str(t,S),u,u2); free(b2); }
      free(buf);
   }
   /* unpad of the packet as built */
   { unsigned char *b=malloc(n); int u; memcpy(b,src,n); u=opus_multistream_packet_unpad(b,n,S); MC_INC(c_trans); MC_INC(c_eval); MC_INC(c_ms_unpad);
     if(u<=0||u>n) mc_fail(u<=0?"ms_unpad_fails":"ms_unpad_longer_than_input","ms_unpad(streams=%d tuple=(%s) %s, len=%d)=%d",S,tuple_str(t,S),mc_hex(src,n<48?n:48),n,u);
     else if(u!=cl||memcmp(b,canon,cl)) mc_fail("ms_unpad_not_canonical","ms_unpad(streams=%d tuple=(%s) %s, len=%d)=%d bytes %s, expected %d bytes %s",S,tuple_str(t,S),mc_hex(src,n<48?n:48),n,u,mc_hex(b,u<48?u:48),cl,mc_hex(canon,cl<48?cl:48));
     free(b); }
   /* truncations and wrong stream counts: no clause applies, memory safety only (exact-size blocks under ASan) */
   if(S<=3){ int L; for(L=0;L<n&&L<40;L++){ unsigned char *b=malloc(L+3); memcpy(b,src,L); (void)opus_multistream_packet_pad(b,L,L+3,S); memcpy(b,src,L); (void)opus_multistream_packet_unpad(b,L,S); MC_ADD(c_trans,2); MC_INC(c_ms_trunc); free(b); }
      { unsigned char *b=malloc(n+3); memcpy(b,src,n); (void)opus_multistream_packet_pad(b,n,n+3,S+1); memcpy(b,src,n); (void)opus_multistream_packet_unpad(b,n,S+1); MC_ADD(c_trans,2); free(b); } }
}
static int MS_FULL_S, MS_MAX_S;
static long ms_nitems(void){ return (long)MS_FULL_S*NQ + (MS_MAX_S>MS_FULL_S?(long)(MS_MAX_S-MS_FULL_S)*8:0); }
static void ms_item(long it,void *ctx){
   int t[8],S,i; (void)ctx;
   if(it<(long)MS_FULL_S*NQ){ long k,tot=1; S=(int)(it/NQ)+1; t[0]=(int)(it%NQ); for(i=1;i<S;i++) tot*=NQ;
      for(k=0;k<tot;k++){ long r=k; for(i=1;i<S;i++){ t[i]=(int)(r%NQ); r/=NQ; } ms_tuple(t,S); }
   } else { int a,b2,va,vb; it-=(long)MS_FULL_S*NQ; S=MS_FULL_S+1+(int)(it/8); a=(int)(it%8); if(a>=S) return;
      /* <=2 non-default positions, the first of them at position a (a==0 also covers the all-default tuple) */
      for(i=0;i<S;i++) t[i]=0;
      if(a==0) ms_tuple(t,S);
      for(va=1;va<NQ;va++){ for(i=0;i<S;i++) t[i]=0; t[a]=va; ms_tuple(t,S);
         for(b2=a+1;b2<S;b2++) for(vb=1;vb<NQ;vb++){ for(i=0;i<S;i++) t[i]=0; t[a]=va; t[b2]=vb; ms_tuple(t,S); } }
   }
}

/* ================================================================== */
int main(int argc,char **argv){
   const char *mode; int i;
   mc_init(argc,argv,"C07","seq");
   mode=mc_arg_s("--mode","seq"); MC.part=mc_arg_s("--part",mode);
   c_states=mc_counter("states"); c_trans=mc_counter("transitions"); c_eval=mc_counter("evaluations"); c_dn=mc_counter("distinct_nontrivial");
   OB=malloc(OBN);
   if(!strcmp(mode,"seq")){
      int ncfg=(int)mc_arg("--cfgs",4), reduced=(int)mc_arg("--reduced",0); long nit=0; SWEEP=(int)mc_arg("--sweep",40);
      MAXD=(int)mc_arg("--depth",3); SPLIT=(int)mc_arg("--split",1); if(MAXD>6) MAXD=6; if(SPLIT>MAXD) SPLIT=MAXD;
      c_cat_ok=mc_counter("cat_accepted"); c_cat_rej=mc_counter("cat_rejected"); c_out_ok=mc_counter("out_verified"); c_out_small=mc_counter("out_buffer_too_small_as_expected");
      c_out_badrange=mc_counter("out_invalid_range_calls"); c_ranges=mc_counter("ranges_checked"); c_extcheck=mc_counter("extension_carriage_checks"); c_maxframes=mc_counter("max_frames_in_a_state");
      c_f3=mc_counter("hits_F3_out_internal_error"); c_f8=mc_counter("hits_F8_1277n"); c_f9e=mc_counter("hits_F9_range_ends_inside"); c_f9b=mc_counter("hits_F9_range_begins_inside");
      S_state=mc_set_new(MC.tier?26:24); S_exp=mc_set_new(MC.tier?27:25); S_cls=mc_set_new(14);
      build_seq_alphabet(ncfg,reduced); index_packets(); check_decl_table();
      for(i=0;i<NCFG;i++){ ITEM_BASE[i]=nit; nit+= SPLIT==1? NOPS[i] : (long)NOPS[i]*NOPS[i]; } ITEM_BASE[NCFG]=nit;
      { char b[160]; int k=0; for(i=0;i<NCFG;i++) k+=snprintf(b+k,sizeof b-k,"%s%02x:%d",i?" ":"",CFG_TOC[i],NOPS[i]);
        mc_info("seq: %d config groups (toc:ops %s), %d packets, alphabet level %d, depth %d, maxlen sweep up to %d, %ld items",NCFG,b,NA,reduced,MAXD,SWEEP,nit); }
      mc_par(nit,seq_item,NULL);
      { mc_ctr *d=mc_counter("alphabet_packets"); *d=NA; d=mc_counter("depth"); *d=MAXD; }
   } else if(!strcmp(mode,"pad")){
      DWIN=(int)mc_arg("--win",MC.tier?4000:1600);
      c_pad_ok=mc_counter("pad_ok"); c_pad_rej=mc_counter("pad_shorter_refused"); c_unpad=mc_counter("unpad_calls"); c_pad_f3=mc_counter("hits_F3_pad_internal_error");
      S_padcls=mc_set_new(14);
      build_seq_alphabet(8,0); build_pad_extras(); index_packets(); check_decl_table();
      mc_info("pad: %d packets, new_len window len-1..len+%d plus boundary values",NA,DWIN);
      mc_par(NA,pad_item,NULL);
      *c_states=NA;
   } else if(!strcmp(mode,"ms")){
      MS_FULL_S=(int)mc_arg("--full",MC.tier?5:4); MS_MAX_S=(int)mc_arg("--max",8); if(MS_MAX_S>8) MS_MAX_S=8; if(MS_FULL_S>MS_MAX_S) MS_FULL_S=MS_MAX_S;
      c_ms_pad=mc_counter("ms_pad_calls"); c_ms_unpad=mc_counter("ms_unpad_calls"); c_ms_f3=mc_counter("hits_F3_ms_pad_internal_error"); c_ms_trunc=mc_counter("ms_truncated_inputs");
      S_mscls=mc_set_new(14);
      build_q();
      mc_par(ms_nitems(),ms_item,NULL);
   } else { fprintf(stderr,"unknown mode %s\n",mode); return 2; }
   return mc_finish();
}
