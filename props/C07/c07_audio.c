/* C07 (audio part) — "padding to any new length gives ... the same decoded audio and final range".
 *
 * Packets with real payload come from the FROZEN reference encoder (mc/corpus.h: SILK/hybrid/CELT, all durations,
 * mono/stereo, FEC, DTX, CBR-padded, mode transitions, 40-120 ms multi-frame packets, re-framed code 1/2/3 packets,
 * packets with an extension in the padding).  For every stream and every delta in D the TREE's decoder decodes the
 * original packet sequence and, in a second decoder, the same sequence with every packet padded by delta bytes
 * (in place, exact-size heap block) — and in a third decoder the unpadded padded packets.  PCM, return value and
 * OPUS_GET_FINAL_RANGE must be identical packet by packet.  The same is done for 2- and 3-stream multistream
 * packets assembled from mono 20 ms streams (opus_multistream_packet_pad / _unpad, multistream decoder).
 * Enumeration is exhaustive over (stream, packet, delta); nothing is sampled.
 */
#include <stdlib.h>
#include <string.h>
#include "opus.h"
#include "opus_multistream.h"
#include "mc.h"
#include "corpus.h"

static corpus C;
static const int D[]={1,2,3,4,253,254,255,256,257,258,509,510,511,512,765,1000};
#define ND ((int)(sizeof D/sizeof D[0]))
static mc_ctr *c_states,*c_trans,*c_eval,*c_dn,*c_dec,*c_padded,*c_unpadded,*c_ms;
static mc_set *S_cls,*S_smp;

typedef struct { int ret; opus_uint32 rng; short *pcm; } dres;
static int dec1(OpusDecoder *d,const unsigned char *p,int n,int ch,dres *o){
   o->ret=opus_decode(d,p,n,o->pcm,5760,0); MC_INC(c_dec); MC_INC(c_trans);
   o->rng=0; opus_decoder_ctl(d,OPUS_GET_FINAL_RANGE(&o->rng)); (void)ch; return o->ret;
}
static int same(const dres *a,const dres *b,int ch){ if(a->ret!=b->ret||a->rng!=b->rng) return 0; if(a->ret>0&&memcmp(a->pcm,b->pcm,sizeof(short)*a->ret*ch)) return 0; return 1; }

/* decode a list of packets three ways for one delta */
static void run_chain(const char *what,int sid,cpkt **pk,int np,int ch,int delta,dres *ref){
   int err,i; OpusDecoder *dB=opus_decoder_create(48000,ch,&err),*dC=opus_decoder_create(48000,ch,&err); dres b,c;
   b.pcm=malloc(sizeof(short)*5760*2); c.pcm=malloc(sizeof(short)*5760*2);
   for(i=0;i<np;i++){ cpkt *p=pk[i]; int nl=p->len+delta,r,u; unsigned char *buf=malloc(nl);
      memcpy(buf,p->data,p->len); memset(buf+p->len,0x77,delta);
      mc_case_bytes("audio_pad",p->data,p->len<64?p->len:64,p->len,nl,sid);
      r=opus_packet_pad(buf,p->len,nl); MC_INC(c_trans); MC_INC(c_eval);
      if(r!=OPUS_OK){ char sig[80]; snprintf(sig,sizeof sig,"pad_fails_on_encoder_packet:%d",r); mc_fail(sig,"stream '%s' %s packet %d (kind %d, len %d, %s%s) pad to %d = %d",C.s[sid].name,what,i,p->kind,p->len,mc_hex(p->data,p->len<32?p->len:32),p->len>32?"..":"",nl,r); free(buf); break; }
      MC_INC(c_padded);
      dec1(dB,buf,nl,ch,&b);
      if(!same(&ref[i],&b,ch)) { mc_fail("pad_changes_decoded_audio","stream '%s' %s packet %d (kind %d len %d %s%s) padded by %d: decode ret %d/%d final range %08x/%08x%s",C.s[sid].name,what,i,p->kind,p->len,mc_hex(p->data,p->len<32?p->len:32),p->len>32?"..":"",delta,ref[i].ret,b.ret,ref[i].rng,b.rng,(ref[i].ret==b.ret&&ref[i].rng==b.rng)?" PCM differs":""); free(buf); break; }
      u=opus_packet_unpad(buf,nl); MC_INC(c_trans); MC_INC(c_eval);
      if(u<=0||u>nl){ mc_fail("unpad_fails_on_padded_encoder_packet","stream '%s' %s packet %d padded by %d: unpad=%d",C.s[sid].name,what,i,delta,u); free(buf); break; }
      MC_INC(c_unpadded);
      { unsigned char *b2=malloc(u); memcpy(b2,buf,u); dec1(dC,b2,u,ch,&c); free(b2); }
      if(!same(&ref[i],&c,ch)) { mc_fail("unpad_changes_decoded_audio","stream '%s' %s packet %d (kind %d len %d) padded by %d then unpadded to %d: decode ret %d/%d final range %08x/%08x",C.s[sid].name,what,i,p->kind,p->len,delta,u,ref[i].ret,c.ret,ref[i].rng,c.rng); free(buf); break; }
      if(ref[i].ret>0){ uint64_t h=mc_mix(mc_mix(sid,delta),p->kind*4+(p->data[0]&3)); if(mc_set_add(S_cls,h)) MC_INC(c_dn);
         if(mc_set_add(S_smp,mc_mix(p->kind*4+(p->data[0]&3),rfc_mode(p->data[0])*8+(p->data[0]>>2&1)))){
         mc_sample("stream '%s' %s packet %d (kind %d, code %d, len %d): +%d bytes -> %d samples, final range %08x, PCM identical before/after pad and after unpad (%d bytes)",C.s[sid].name,what,i,p->kind,p->data[0]&3,p->len,delta,ref[i].ret,ref[i].rng,u); } }
      free(buf);
   }
   free(b.pcm); free(c.pcm); opus_decoder_destroy(dB); opus_decoder_destroy(dC);
}

static void stream_item(int sid){
   cstream *st=&C.s[sid]; int ch=st->ch,i,k,err,di; cpkt *seq[64]; int nseq=0; dres ref[64]; OpusDecoder *dA;
   for(i=0;i<st->n&&nseq<64;i++) if(C.p[st->first+i].kind==0) seq[nseq++]=&C.p[st->first+i];
   MC_INC(c_states);
   /* reference run of the sequence */
   dA=opus_decoder_create(48000,ch,&err);
   for(i=0;i<nseq;i++){ ref[i].pcm=malloc(sizeof(short)*5760*2); mc_case_bytes("audio_ref",seq[i]->data,seq[i]->len<64?seq[i]->len:64,seq[i]->len,0,sid); dec1(dA,seq[i]->data,seq[i]->len,ch,&ref[i]);
      if(ref[i].ret<=0) mc_info("stream '%s' packet %d does not decode (%d)",st->name,i,ref[i].ret); }
   opus_decoder_destroy(dA);
   for(di=0;di<ND;di++) run_chain("sequence",sid,seq,nseq,ch,D[di],ref);
   for(i=0;i<nseq;i++) free(ref[i].pcm);
   /* derived packets of this stream (re-framed, CBR-padded, extension-bearing): each from a fresh decoder */
   for(k=0;k<C.n;k++){ cpkt *p=&C.p[k]; dres r1; if(p->stream!=sid||p->kind==0) continue;
      r1.pcm=malloc(sizeof(short)*5760*2); dA=opus_decoder_create(48000,ch,&err); mc_case_bytes("audio_ref",p->data,p->len<64?p->len:64,p->len,0,sid); dec1(dA,p->data,p->len,ch,&r1); opus_decoder_destroy(dA);
      for(di=0;di<ND;di++) run_chain("derived",sid,&p,1,ch,D[di],&r1);
      free(r1.pcm); }
}

/* ---- multistream: S mono 20 ms streams side by side ---- */
static int mono20[64], nmono20;
static int to_sd(const cpkt *p,unsigned char *o){ rfc_pkt m; const unsigned char *fr[48]; int sz[48],k; rfc_parse(p->data,p->len,0,&m); if(!m.ok) return -1;
   for(k=0;k<m.count;k++){ fr[k]=p->data+m.off[k]; sz[k]=m.size[k]; }
   return rfc_build(o,p->data[0],p->data[0]&3,m.vbr,m.count,fr,sz,m.has_pad_flag?m.pad_len:-1,p->data+m.pad_off,1); }
static void ms_item(int g){
   int S=2+(g&1), base=(g>>1), s,i,err,di,np=64; unsigned char map[3]={0,1,2}; static unsigned char pk[8][6000]; int pl[8]; short *ref[8],*out=malloc(sizeof(short)*5760*3); int rret[8]; opus_uint32 rrng[8];
   OpusMSDecoder *dA;
   if(base+S>nmono20){ free(out); return; }
   for(s=0;s<S;s++){ cstream *st=&C.s[mono20[base+s]]; int n=0; for(i=0;i<st->n;i++) if(C.p[st->first+i].kind==0) n++; if(n<np) np=n; }
   if(np>8) np=8;
   MC_INC(c_states);
   for(i=0;i<np;i++){ int n=0; for(s=0;s<S;s++){ cstream *st=&C.s[mono20[base+s]]; cpkt *p=&C.p[st->first+i]; if(p->dur48!=960||p->kind!=0){ np=i; break; } if(s!=S-1){ int k=to_sd(p,pk[i]+n); if(k<0){ free(out); return; } n+=k; } else { memcpy(pk[i]+n,p->data,p->len); n+=p->len; } } if(np==i) break; pl[i]=n; }
   if(np<1){ free(out); return; }
   dA=opus_multistream_decoder_create(48000,S,S,0,map,&err);
   for(i=0;i<np;i++){ ref[i]=malloc(sizeof(short)*5760*3); mc_case_bytes("audio_ms_ref",pk[i],pl[i]<64?pl[i]:64,pl[i],S,base); rret[i]=opus_multistream_decode(dA,pk[i],pl[i],ref[i],5760,0); rrng[i]=0; opus_multistream_decoder_ctl(dA,OPUS_GET_FINAL_RANGE(&rrng[i])); MC_INC(c_dec); MC_INC(c_trans); }
   opus_multistream_decoder_destroy(dA);
   for(di=0;di<ND;di++){ OpusMSDecoder *dB=opus_multistream_decoder_create(48000,S,S,0,map,&err),*dC=opus_multistream_decoder_create(48000,S,S,0,map,&err);
      for(i=0;i<np;i++){ int nl=pl[i]+D[di],r,u,ret; opus_uint32 rng=0; unsigned char *buf=malloc(nl); memcpy(buf,pk[i],pl[i]); memset(buf+pl[i],0x77,D[di]);
         mc_case_bytes("audio_ms_pad",pk[i],pl[i]<64?pl[i]:64,pl[i],nl,S);
         r=opus_multistream_packet_pad(buf,pl[i],nl,S); MC_INC(c_trans); MC_INC(c_eval); MC_INC(c_ms);
         if(r!=OPUS_OK){ mc_fail("ms_pad_fails_on_encoder_packet","%d mono streams from '%s', packet %d len %d -> %d: %d",S,C.s[mono20[base]].name,i,pl[i],nl,r); free(buf); break; }
         ret=opus_multistream_decode(dB,buf,nl,out,5760,0); opus_multistream_decoder_ctl(dB,OPUS_GET_FINAL_RANGE(&rng)); MC_INC(c_dec); MC_INC(c_trans);
         if(ret!=rret[i]||rng!=rrng[i]||(ret>0&&memcmp(out,ref[i],sizeof(short)*ret*S))){ mc_fail("ms_pad_changes_decoded_audio","%d mono streams from '%s', packet %d (len %d) padded by %d: ret %d/%d range %08x/%08x",S,C.s[mono20[base]].name,i,pl[i],D[di],rret[i],ret,rrng[i],rng); free(buf); break; }
         u=opus_multistream_packet_unpad(buf,nl,S); MC_INC(c_trans); MC_INC(c_eval);
         if(u<=0||u>nl){ mc_fail("ms_unpad_fails_on_padded_encoder_packet","%d mono streams, packet %d padded by %d: %d",S,i,D[di],u); free(buf); break; }
         { unsigned char *b2=malloc(u); memcpy(b2,buf,u); ret=opus_multistream_decode(dC,b2,u,out,5760,0); rng=0; opus_multistream_decoder_ctl(dC,OPUS_GET_FINAL_RANGE(&rng)); free(b2); MC_INC(c_dec); MC_INC(c_trans); }
         if(ret!=rret[i]||rng!=rrng[i]||(ret>0&&memcmp(out,ref[i],sizeof(short)*ret*S))){ mc_fail("ms_unpad_changes_decoded_audio","%d mono streams from '%s', packet %d padded by %d then unpadded to %d: ret %d/%d range %08x/%08x",S,C.s[mono20[base]].name,i,D[di],u,rret[i],ret,rrng[i],rng); free(buf); break; }
         if(ret>0){ uint64_t h=mc_mix(mc_mix(1000+g,D[di]),7); if(mc_set_add(S_cls,h)) MC_INC(c_dn); if(mc_set_add(S_smp,mc_mix(77,S))){ mc_sample("multistream: %d mono 20 ms streams starting at '%s', packet %d (%d bytes) +%d bytes: %d samples/channel, final range %08x, PCM identical before/after ms_pad and after ms_unpad (%d bytes)",S,C.s[mono20[base]].name,i,pl[i],D[di],ret,rng,u); } }
         free(buf); }
      opus_multistream_decoder_destroy(dB); opus_multistream_decoder_destroy(dC); }
   for(i=0;i<np;i++) free(ref[i]); free(out);
}
static void item(long it,void *ctx){ (void)ctx; if(it<C.ns) stream_item((int)it); else ms_item((int)(it-C.ns)); }

int main(int argc,char **argv){
   int s,level;
   mc_init(argc,argv,"C07","audio");
   level=(int)mc_arg("--level",MC.tier?1:0);
   c_states=mc_counter("states"); c_trans=mc_counter("transitions"); c_eval=mc_counter("evaluations"); c_dn=mc_counter("distinct_nontrivial");
   c_dec=mc_counter("decodes"); c_padded=mc_counter("padded_packets_decoded"); c_unpadded=mc_counter("unpadded_packets_decoded"); c_ms=mc_counter("ms_pad_calls");
   S_cls=mc_set_new(16); S_smp=mc_set_new(10);
   corpus_build(&C,level); corpus_add_reframed(&C);
   for(s=0;s<C.ns;s++) if(C.s[s].ch==1&&C.s[s].dur_x10==200&&C.s[s].fs==48000&&nmono20<64) mono20[nmono20++]=s;
   mc_info("audio: corpus level %d: %d streams, %d packets, %d mono 20 ms streams for multistream, %d deltas",level,C.ns,C.n,nmono20,ND);
   mc_par(C.ns+2*(nmono20>1?nmono20-1:0),item,NULL);
   { mc_ctr *d=mc_counter("corpus_packets"); *d=C.n; }
   return mc_finish();
}
