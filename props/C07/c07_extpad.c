/* C07 part "extpad" — the repacketizer / pad / unpad on packets whose padding carries a LONG extension: EVERY extension size.
 *
 * The size accounting of the code-3 padding (one 0xFF length byte per 254 bytes, then a final byte) has thresholds at every multiple
 * of 254/255 of the regenerated extension block; the sequence alphabet of parts seq/pad only carries 5..9-byte extension blocks.
 * Here, exhaustively: payload length L = 0..LMAX (every value; LMAX 1400 -> extension block 1..1401 bytes, beyond 5 x 255)
 *   x frame length f in {0,1,2,10,251,252,253,600}          (1-/2-byte frame-length codes, empty frames)
 *   x frames per packet M in {1,2,3} x the frame fi < M the extension belongs to (frame separators in front of it)
 *   x scenario: (A) cat(P), out            (B) cat(Q), cat(P), cat(R), out        (C) same, out_range(1,1+M)
 *               (D) opus_packet_pad(P, n+d), d in {1,2,3,254,255,256,509,510}; then opus_packet_unpad
 *     (Q, R: plain one-frame packets of the same configuration).
 * Oracle (statement): out > 0 and <= maxlen; the RFC framing model (mc/rfc_framing.h) accepts the output; it holds exactly the selected
 * frames, byte for byte and in order, with the TOC configuration bits; its padding parses to exactly the one extension (id, payload)
 * on the output frame that holds its audio frame; a second call with maxlen == the returned size gives the same bytes, maxlen one less is
 * refused with OPUS_BUFFER_TOO_SMALL and does not touch the byte after the buffer; pad gives exactly new_len, same frames, same
 * extension; unpad gives a packet no longer than its input with the same frames, and unpad of that is the identity.
 */
#include <stdlib.h>
#include <string.h>
#include <stdio.h>
#include "opus.h"
#include "opus_private.h"
#include "mc.h"
#include "rfc_framing.h"

static const int FL[8]={0,1,2,10,251,252,253,600};
static const int DPAD[8]={1,2,3,254,255,256,509,510};
static int LMAX=1400, TOC=0x08;           /* SILK NB 20 ms mono: 3 frames = 60 ms */
static mc_ctr *c_trans,*c_eval,*c_states,*c_dn,*c_out,*c_pad,*c_unpad,*c_small;
static mc_set *S_obs;

static unsigned char fb(int k,int i){ return (unsigned char)(k*37+i*5+3); }
static unsigned char xb(int L,int i){ return (unsigned char)(L*13+i*7+0x41); }

/* P: M frames of length f, extension id 33 with L payload bytes on frame fi. Returns length; *extlen = bytes of the extension block */
static int build_P(unsigned char *o,int M,int f,int fi,int L,int seed){
   static unsigned char fr_[3][1275], pd[3000]; const unsigned char *fr[3]; int sz[3],i,k,p=0;
   for(k=0;k<M;k++){ for(i=0;i<f;i++) fr_[k][i]=fb(seed+k,i); fr[k]=fr_[k]; sz[k]=f; }
   for(k=0;k<fi;k++) pd[p++]=0x02;                      /* frame separator, increment 1 */
   pd[p++]=(unsigned char)(33<<1);                      /* id 33, L=0: payload is the rest */
   for(i=0;i<L;i++) pd[p++]=xb(L,i);
   return rfc_build(o,TOC,3,1,M,fr,sz,p,pd,0);
}
static int build_plain(unsigned char *o,int f,int seed){ int i; o[0]=(unsigned char)(TOC&0xFC); for(i=0;i<f;i++) o[1+i]=fb(seed,i); return 1+f; }

/* checks an output packet: nf expected frames (pointers/lengths), the extension expected on frame xf (or -1: none expected / not judged) */
static int check_pkt(const char *what,const char *sigp,const unsigned char *d,int n,int nf,const unsigned char **ef,const int *el,int xf,int L){
   rfc_pkt m; int k; char sig[96];
   rfc_parse(d,n,0,&m);
   if(!m.ok){ snprintf(sig,sizeof sig,"%s:output_invalid",sigp); mc_fail(sig,"%s: output of %d bytes is not a valid packet: %s",what,n,mc_hex(d,n>48?48:n)); return 0; }
   if((m.toc&0xFC)!=(TOC&0xFC)||m.count!=nf){ snprintf(sig,sizeof sig,"%s:frames_differ",sigp); mc_fail(sig,"%s: toc %02x count %d, expected toc %02x count %d",what,m.toc,m.count,TOC,nf); return 0; }
   for(k=0;k<nf;k++) if(m.size[k]!=el[k]||(el[k]&&memcmp(d+m.off[k],ef[k],el[k]))){ int j=0; if(m.size[k]==el[k]) while(j<el[k]&&d[m.off[k]+j]==ef[k][j]) j++;
      snprintf(sig,sizeof sig,"%s:frames_differ",sigp); mc_fail(sig,"%s: frame %d: size %d (expected %d), first differing byte %d: got %02x expected %02x",what,k,m.size[k],el[k],j,m.size[k]==el[k]&&j<el[k]?d[m.off[k]+j]:0,j<el[k]?ef[k][j]:0); return 0; }
   if(xf>=0){ opus_extension_data ex[8]; opus_int32 ne=8; int r= m.pad_len>0? opus_packet_extensions_parse(d+m.pad_off,m.pad_len,ex,&ne,m.count) : (ne=0,0); int i,ok;
      ok = r>=0 && ne==1 && ex[0].id==33 && ex[0].frame==xf && ex[0].len==L;
      if(ok) for(i=0;i<L;i++) if(ex[0].data[i]!=xb(L,i)){ ok=0; break; }
      if(!ok){ snprintf(sig,sizeof sig,"%s:extension_lost_or_changed",sigp); mc_fail(sig,"%s: padding of %d bytes parses to r=%d, %d extension(s)%s; expected exactly id 33 on frame %d with %d payload bytes",what,m.pad_len,r,(int)ne,(r>=0&&ne>=1)?" (first: other id/frame/len/payload)":"",xf,L); return 0; } }
   return 1;
}

static void item(long it,void *ctx){
   int L=(int)it,fq,M,fi,sc; static unsigned char P[6000],Q[1400],R[1400],out[12000],out2[12000]; OpusRepacketizer *rp=opus_repacketizer_create(); (void)ctx;
   for(fq=0;fq<8;fq++) for(M=1;M<=3;M++) for(fi=0;fi<M;fi++){
      int f=FL[fq],n,nq,nr,k; const unsigned char *ef[5]; int el[5]; char what[200]; rfc_pkt pm;
      if(f>253&&M*f+L>5000) continue;
      n=build_P(P,M,f,fi,L,L+fq); if(n<0) continue; nq=build_plain(Q,f,L+50); nr=build_plain(R,f,L+90);
      rfc_parse(P,n,0,&pm); if(!pm.ok){ mc_fail("harness:bad_input","L=%d f=%d M=%d",L,f,M); continue; }
      for(sc=0;sc<3;sc++){ int nf,xf,r,r2,b=0,e;
         opus_repacketizer_init(rp);
         if(sc==0){ if(opus_repacketizer_cat(rp,P,n)!=OPUS_OK){ mc_fail("extpad:cat_refused","valid packet with a %d-byte extension refused (L=%d f=%d M=%d fi=%d)",L+1+fi,L,f,M,fi); continue; } nf=M; xf=fi; for(k=0;k<M;k++){ ef[k]=P+pm.off[k]; el[k]=f; } e=M; }
         else { if(opus_repacketizer_cat(rp,Q,nq)!=OPUS_OK||opus_repacketizer_cat(rp,P,n)!=OPUS_OK||opus_repacketizer_cat(rp,R,nr)!=OPUS_OK){ mc_fail("extpad:cat_refused","compatible packets refused (L=%d f=%d M=%d fi=%d)",L,f,M,fi); continue; }
            if(sc==1){ nf=M+2; xf=1+fi; ef[0]=Q+1; el[0]=f; for(k=0;k<M;k++){ ef[1+k]=P+pm.off[k]; el[1+k]=f; } ef[M+1]=R+1; el[M+1]=f; b=0; e=M+2; }
            else { nf=M; xf=fi; for(k=0;k<M;k++){ ef[k]=P+pm.off[k]; el[k]=f; } b=1; e=1+M; } }
         snprintf(what,sizeof what,"scenario %c: extension payload %d bytes on frame %d of a %d-frame packet, frame length %d",'A'+sc,L,fi,M,f);
         mc_case("extpad_out","%s",what);
         memset(out,0xA5,sizeof out);
         r= sc==2? opus_repacketizer_out_range(rp,b,e,out,8000) : opus_repacketizer_out(rp,out,8000); MC_INC(c_trans); MC_INC(c_out);
         if(r<=0){ mc_fail("extpad:out_fails","%s: out returned %d with maxlen 8000",what,r); continue; }
         if(r>8000||out[r]!=0xA5){ mc_fail("extpad:out_overruns","%s: returned %d, byte after the output %02x",what,r,out[r]); continue; }
         MC_INC(c_eval);
         if(!check_pkt(what,"extpad:out",out,r,nf,ef,el,xf,L)) continue;
         /* exact maxlen: same bytes; one less: refused cleanly */
         memset(out2,0xA5,sizeof out2);
         r2= sc==2? opus_repacketizer_out_range(rp,b,e,out2,r) : opus_repacketizer_out(rp,out2,r);
         if(r2!=r||memcmp(out,out2,r)||out2[r]!=0xA5) mc_fail("extpad:exact_maxlen","%s: maxlen=%d (the size just produced) returns %d%s",what,r,r2,r2==r?" with different bytes or a write past the buffer":"");
         memset(out2,0xA5,sizeof out2);
         r2= sc==2? opus_repacketizer_out_range(rp,b,e,out2,r-1) : opus_repacketizer_out(rp,out2,r-1); MC_INC(c_small);
         if(r2>=0||out2[r-1]!=0xA5){
            /* a shorter valid output is acceptable only if it still satisfies every clause (frames and extension) */
            if(r2>0&&r2<=r-1&&out2[r-1]==0xA5){ if(!check_pkt(what,"extpad:out_smaller",out2,r2,nf,ef,el,xf,L)) continue; }
            else mc_fail("extpad:small_maxlen","%s: maxlen=%d returns %d, byte at maxlen %02x",what,r-1,r2,out2[r-1]); }
         mc_set_add(S_obs,mc_mix(mc_mix(sc,M*4+fi),mc_mix(fq,(L+1+fi)/254*8+((L+1+fi)%254<3?(L+1+fi)%254:3))));
      }
      /* (D) pad / unpad */
      { int di; for(di=0;di<8;di++){ int nl=n+DPAD[di],r,u,u2; const unsigned char *ef2[3]; int el2[3];
           for(k=0;k<M;k++){ ef2[k]=P+pm.off[k]; el2[k]=f; }
           memcpy(out,P,n); memset(out+n,0xA5,sizeof out-n);
           snprintf(what,sizeof what,"pad: extension payload %d bytes on frame %d of a %d-frame packet, frame length %d, len %d -> new_len %d",L,fi,M,f,n,nl);
           mc_case("extpad_pad","%s",what);
           r=opus_packet_pad(out,n,nl); MC_INC(c_trans); MC_INC(c_pad);
           if(r!=OPUS_OK){ mc_fail("extpad:pad_fails","%s: returned %d",what,r); continue; }
           if(out[nl]!=0xA5){ mc_fail("extpad:pad_overruns","%s",what); continue; }
           MC_INC(c_eval);
           if(!check_pkt(what,"extpad:pad",out,nl,M,ef2,el2,fi,L)) continue;
           u=opus_packet_unpad(out,nl); MC_INC(c_unpad);
           if(u<=0||u>nl){ mc_fail("extpad:unpad_fails_or_grows","%s then unpad: returned %d",what,u); continue; }
           if(!check_pkt(what,"extpad:unpad",out,u,M,ef2,el2,-1,L)) continue;
           memcpy(out2,out,u); u2=opus_packet_unpad(out2,u);
           if(u2!=u||memcmp(out,out2,u)) mc_fail("extpad:unpad_not_idempotent","%s then unpad twice: %d then %d bytes",what,u,u2);
        } }
   }
   opus_repacketizer_destroy(rp);
}

int main(int argc,char **argv){
   mc_init(argc,argv,"C07","extpad"); MC.part=mc_arg_s("--name","extpad");
   c_trans=mc_counter("transitions"); c_eval=mc_counter("evaluations"); c_states=mc_counter("states"); c_dn=mc_counter("distinct_nontrivial");
   c_out=mc_counter("out_calls"); c_pad=mc_counter("pad_calls"); c_unpad=mc_counter("unpad_calls"); c_small=mc_counter("maxlen_minus_one_probes");
   S_obs=mc_set_new(20);
   LMAX=(int)mc_arg("--lmax",1400);
   mc_info("extpad: every extension payload length 0..%d x 8 frame lengths x (M,frame of the extension) in 6 shapes x {out, merged out, out_range, pad x8 + unpad}",LMAX);
   mc_par(LMAX+1,item,NULL);
   *c_states=mc_set_count(S_obs); *c_dn=mc_set_count(S_obs);
   return mc_finish();
}
