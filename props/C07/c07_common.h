/* c07_common.h — packet alphabet P7, list-of-frames reference model and shared oracles for C07
 * (repacketizer / pad / unpad).  Everything here is harness-side and independent of src/repacketizer.c:
 * packets are assembled by mc/rfc_framing.h's writer, outputs are re-parsed by mc/rfc_framing.h's RFC model.
 *
 * Extensions: C07 only needs to know, for every alphabet packet, whether its padding is (a) absent / plain,
 * (b) a well-formed extension list (and then which extensions sit on which frame) or (c) not a well-formed
 * extension list.  That is DECLARED by hand per padding kind below (fixed byte strings), never derived from
 * the library; at start-up the declaration is cross-checked against opus_packet_extensions_parse so that a
 * disagreement is loud ("alphabet_ext_table_mismatch") instead of silently mis-attributing a failure.
 */
#ifndef C07_COMMON_H
#define C07_COMMON_H
#include <stdlib.h>
#include <string.h>
#include <stdio.h>
#include "opus.h"
#include "opus_multistream.h"
#include "opus_private.h"
#include "mc.h"
#include "rfc_framing.h"

#define MAXP 1100
enum { PK_NONE=0, PK_EMPTY, PK_ZEROS255, PK_EXT0, PK_EXTALL, PK_BAD, PK_ZEROSN, PK_NKIND };
static const char *const PKNAME[PK_NKIND]={"nopad","pad0","pad255z","ext0","extall","badext","padNz"};
typedef struct { int frame,id,len; unsigned char d[4]; } xdecl;        /* one declared extension */
typedef struct {
   unsigned char *b; int n;     /* exact-size heap block */
   int cfg;                     /* config group the packet was generated for (index) ; -1 none */
   int foreign;                 /* 1: TOC deliberately differs from the group's in one config bit */
   rfc_pkt m;                   /* RFC model parse of the packet (m.ok == valid) */
   int padkind; int nx; xdecl x[4];
   char name[44];
} apkt;
static apkt A[MAXP]; static int NA;

static unsigned char fillb(int pk,int fr,int i){ return (unsigned char)(pk*31+fr*7+i*3+1); }

/* padding data for (kind, M): returns number of padding data bytes (-1: no padding flag) */
static int pad_bytes(int kind,int M,int zn,unsigned char *o,xdecl *x,int *nx){
   *nx=0;
   switch(kind){
   case PK_NONE: return -1;
   case PK_EMPTY: return 0;
   case PK_ZEROS255: memset(o,0,255); return 255;
   case PK_ZEROSN: memset(o,0,zn); return zn;
   case PK_BAD: o[0]=0x41; o[1]=0x05; o[2]=0x09; return 3;            /* id 32, L=1, length 5, one byte left */
   case PK_EXT0: o[0]=0x43; o[1]=0x03; o[2]=0xAA; o[3]=0xBB; o[4]=0xCC; /* id 33, L=1, 3 payload bytes, frame 0 */
      x[0].frame=0; x[0].id=33; x[0].len=3; x[0].d[0]=0xAA; x[0].d[1]=0xBB; x[0].d[2]=0xCC; *nx=1; return 5;
   case PK_EXTALL:
      x[0].frame=0; x[0].id=3; x[0].len=1; x[0].d[0]=0x55;
      if (M==1){ o[0]=0x07;o[1]=0x55;o[2]=0x40;o[3]='x';o[4]='y';                 /* f0: id3 [55]; f0: id32 "xy" (L=0, rest) */
         x[1].frame=0; x[1].id=32; x[1].len=2; x[1].d[0]='x'; x[1].d[1]='y'; *nx=2; return 5; }
      if (M==2){ o[0]=0x07;o[1]=0x55;o[2]=0x02;o[3]=0x40;o[4]='x';o[5]='y';       /* f0: id3 [55]; sep; f1: id32 "xy" */
         x[1].frame=1; x[1].id=32; x[1].len=2; x[1].d[0]='x'; x[1].d[1]='y'; *nx=2; return 6; }
      if (M==3){ o[0]=0x07;o[1]=0x55;o[2]=0x02;o[3]=0x41;o[4]=0x02;o[5]='x';o[6]='y';o[7]=0x02;o[8]=0x08; /* f0 id3; f1 id32 "xy"; f2 id4 (no payload) */
         x[1].frame=1; x[1].id=32; x[1].len=2; x[1].d[0]='x'; x[1].d[1]='y';
         x[2].frame=2; x[2].id=4; x[2].len=0; *nx=3; return 9; }
      /* M>3: f0 id3 [55]; separator +(M-1); f(M-1): id32 "z" */
      o[0]=0x07;o[1]=0x55;o[2]=0x03;o[3]=(unsigned char)(M-1);o[4]=0x40;o[5]='z';
      x[1].frame=M-1; x[1].id=32; x[1].len=1; x[1].d[0]='z'; *nx=2; return 6;
   }
   return -1;
}

static apkt *add_raw(const unsigned char *b,int n,int cfg,const char *name){
   apkt *p=&A[NA]; if(NA>=MAXP){ fprintf(stderr,"alphabet overflow\n"); exit(2); }
   memset(p,0,sizeof *p); p->b=malloc(n?n:1); if(n) memcpy(p->b,b,n); p->n=n; p->cfg=cfg; snprintf(p->name,sizeof p->name,"%s",name);
   rfc_parse(p->b,n,0,&p->m); NA++; return p;
}
/* framed packet with position-dependent payload */
static apkt *add_pkt(int toc,int code,int vbr,int M,const int *sz,int padkind,int zn,int cfg,const char *tag){
   static unsigned char tmp[70000], fb[48*1275+8], pd[600]; const unsigned char *fr[48]; int i,f,o=0,n,pad; apkt *p; xdecl x[4]; int nx; char nm[64];
   for(f=0;f<M;f++){ fr[f]=fb+o; for(i=0;i<sz[f];i++) fb[o++]=fillb(NA,f,i); }
   pad=pad_bytes(padkind,M,zn,pd,x,&nx);
   n=rfc_build(tmp,toc,code,vbr,M,fr,sz,code==3?pad:-1,pd,0);
   if(n<0){ fprintf(stderr,"rfc_build failed for %s\n",tag); exit(2); }
   snprintf(nm,sizeof nm,"%02x.c%d%s.M%d.%s%s",toc&0xFC,code,code==3?(vbr?"v":"c"):"",M,PKNAME[padkind],tag);
   p=add_raw(tmp,n,cfg,nm); p->padkind=padkind; p->nx=nx; memcpy(p->x,x,sizeof x);
   return p;
}

/* the C07 packet group for one TOC configuration (DESIGN section 4 C07, alphabet P7).
   level 0: full group; 1: reduced; 2: tiny (for the deeper searches) */
static void c3_sizes(int M,int vbr,int *sz){ int i;
   if (M==1) sz[0]=5;
   else if (M==2){ if(vbr){ sz[0]=252; sz[1]=1; } else sz[0]=sz[1]=4; }
   else if (M==3){ if(vbr){ sz[0]=2; sz[1]=0; sz[2]=7; } else sz[0]=sz[1]=sz[2]=2; }
   else for(i=0;i<M;i++) sz[i]=vbr?i%3:1;
}
static void build_group(int toc,int cfg,int level){
   static const int L0[5]={0,1,251,252,1275}, V2[3]={0,1,252};
   int a,b,M,vbr,pk,sz[49],i,k; int dur=rfc_frame_48k(toc), Mmax=5760/dur; int reduced=level>=1, tiny=level>=2;
   int Ms[6],nM=0; Ms[nM++]=1; Ms[nM++]=2; Ms[nM++]=3; if(Mmax>3) Ms[nM++]=Mmax;      /* Mmax frames = exactly 120 ms */
   if(Mmax+1<=48&&Mmax+1>3) Ms[nM++]=Mmax+1;                                         /* one frame over 120 ms: invalid (R5) */
   if(Mmax!=48&&Mmax+1!=48) Ms[nM++]=48;                                             /* 48 frames of a longer duration: invalid */
   for(a=0;a<5;a++){ if(reduced&&(a==2)) continue; if(tiny&&a!=1) continue; sz[0]=L0[a]; add_pkt(toc,0,0,1,sz,PK_NONE,0,cfg,""); }
   sz[0]=sz[1]=3; add_pkt(toc,1,0,2,sz,PK_NONE,0,cfg,"");
   if(!reduced){ sz[0]=sz[1]=0; add_pkt(toc,1,0,2,sz,PK_NONE,0,cfg,".L0"); }
   for(a=0;a<3;a++) for(b=0;b<3;b++){ if(reduced&&a!=b&&!(a==2||b==2)) continue; if(tiny&&!(a==1&&b==2)) continue; sz[0]=V2[a]; sz[1]=V2[b]; add_pkt(toc,2,0,2,sz,PK_NONE,0,cfg,""); }
   for(k=0;k<nM;k++) for(vbr=0;vbr<2;vbr++) for(pk=0;pk<=PK_BAD;pk++){
      int valid; M=Ms[k]; valid = M*dur<=5760;
      if (!valid && (pk!=PK_NONE||(reduced&&vbr))) continue;  /* one over-long representative per (M,vbr) is enough */
      if (reduced && (pk==PK_EMPTY||pk==PK_ZEROS255) && !(M==2&&vbr)) continue;
      if (reduced && M>3 && pk!=PK_NONE && pk!=PK_EXTALL) continue;
      if (tiny){ /* one packet per interesting kind */
         int keep = (M==2&&!vbr&&pk==PK_NONE)||(M==3&&vbr&&pk==PK_ZEROS255)||(M==1&&!vbr&&pk==PK_EXT0)||(M==2&&vbr&&pk==PK_EXTALL)||(M==3&&!vbr&&pk==PK_EXTALL)||(M==1&&vbr&&pk==PK_BAD)||(M==2&&vbr&&pk==PK_EMPTY)||(M>3&&valid&&vbr&&pk==PK_EXTALL)||(!valid&&!vbr&&M==Mmax+1);
         if(!keep) continue; }
      c3_sizes(M,vbr,sz);
      add_pkt(toc,3,vbr,M,sz,pk,0,cfg,"");
   }
   /* largest frame in a code-3 packet, without and with an extension (F8 shape) */
   sz[0]=1275; if(!tiny) add_pkt(toc,3,0,1,sz,PK_NONE,0,cfg,".L1275"); add_pkt(toc,3,0,1,sz,PK_EXT0,0,cfg,".L1275");
   /* invalid packets */
   { unsigned char r[1300]; int n;
     add_raw(r,0,cfg,"inv.len0");
     r[0]=toc|3; if(!tiny) add_raw(r,1,cfg,"inv.c3.nocount");
     r[0]=toc|3; r[1]=0; r[2]=1; add_raw(r,3,cfg,"inv.c3.M0");
     r[0]=toc|1; r[1]=1; r[2]=2; r[3]=3; if(!tiny) add_raw(r,4,cfg,"inv.c1.odd");
     r[0]=toc|2; r[1]=5; r[2]=1; if(!tiny) add_raw(r,3,cfg,"inv.c2.short");
     r[0]=toc|3; r[1]=2; r[2]=1; r[3]=2; r[4]=3; if(!tiny) add_raw(r,5,cfg,"inv.c3c.indivisible");
     r[0]=toc|3; r[1]=0x41; r[2]=9; r[3]=1; add_raw(r,4,cfg,"inv.c3.padoverrun");
     r[0]=toc|3; r[1]=0x83; r[2]=1; r[3]=9; r[4]=7; add_raw(r,5,cfg,"inv.c3v.lenoverrun");
     if(!reduced){ r[0]=toc|3; r[1]=49; for(i=0;i<49;i++) r[2+i]=(unsigned char)(i+1); add_raw(r,51,cfg,"inv.c3.M49");
       r[0]=toc; for(n=1;n<=1276;n++) r[n]=(unsigned char)n; add_raw(r,1277,cfg,"inv.c0.L1276"); }
   }
   /* TOC-incompatible packets: the group's TOC with exactly one configuration bit flipped */
   for(i=2;i<8;i++){ apkt *p; char t[16]; if(reduced&&i!=2&&i!=3&&i!=7) continue; if(tiny&&i!=2) continue; sz[0]=1; snprintf(t,sizeof t,".xbit%d",i); p=add_pkt(toc^(1<<i),0,0,1,sz,PK_NONE,0,cfg,t); p->foreign=1; }
}

/* cross-check of the hand declaration against the library's extension parser (classification only) */
static void check_decl_table(void){
   int k,i;
   for(k=0;k<NA;k++){ apkt *p=&A[k]; opus_extension_data ex[16]; opus_int32 ne=16; int r,bad=0;
      if(!p->m.ok||p->padkind==PK_NONE) continue;
      r=opus_packet_extensions_parse(p->b+p->m.pad_off,p->m.pad_len,ex,&ne,p->m.count);
      if(p->padkind==PK_BAD){ if(r>=0) bad=1; }
      else if(r<0||ne!=p->nx) bad=1;
      else for(i=0;i<ne;i++) if(ex[i].frame!=p->x[i].frame||ex[i].id!=p->x[i].id||ex[i].len!=p->x[i].len||(ex[i].len&&memcmp(ex[i].data,p->x[i].d,ex[i].len))) bad=1;
      if(bad) mc_fail("alphabet_ext_table_mismatch","packet %s (%s): declared kind %s with %d extensions, opus_packet_extensions_parse returns %d with %d",p->name,mc_hex(p->b,p->n<40?p->n:40),PKNAME[p->padkind],p->nx,r,(int)ne);
   }
}

/* ---------------- list-of-frames model ---------------- */
typedef struct { int n, toc; short pk[48]; unsigned char fi[48]; } model;
static inline const unsigned char *mf_ptr(const model *m,int j){ const apkt *p=&A[m->pk[j]]; return p->b+p->m.off[m->fi[j]]; }
static inline int mf_len(const model *m,int j){ return A[m->pk[j]].m.size[m->fi[j]]; }
/* statement: accepted exactly when valid, configuration-compatible and total <= 120 ms */
static int model_cat_ok(const model *m,const apkt *p,const char **why){
   if(!p->m.ok){ *why="invalid_packet"; return 0; }
   if(m->n && ((m->toc&0xFC)!=(p->m.toc&0xFC))){ *why="toc_incompatible"; return 0; }
   if((m->n+p->m.count)*rfc_frame_48k(p->m.toc)>5760){ *why="over_120ms"; return 0; }
   *why="acceptable"; return 1;
}
static void model_cat(model *m,int pi){ const apkt *p=&A[pi]; int i; if(!m->n) m->toc=p->m.toc; for(i=0;i<p->m.count;i++){ m->pk[m->n]=(short)pi; m->fi[m->n]=(unsigned char)i; m->n++; } }
static uint64_t model_hash(const model *m){ uint64_t h=mc_mix(m->n,m->n?m->toc:0); int i; for(i=0;i<m->n;i++) h=mc_mix(h,(uint64_t)m->pk[i]*64+m->fi[i]); return h; }

/* smallest RFC 6716 packet holding frames of the given lengths (standard or self-delimited framing), no padding */
static int frames_min_len(int cnt,const int *fl,int sd){
   int i,t,eq=1; for(i=1;i<cnt;i++) if(fl[i]!=fl[0]) eq=0;
   if(cnt==1) t=1+fl[0];
   else if(cnt==2&&eq) t=1+2*fl[0];
   else if(cnt==2) t=1+1+(fl[0]>=252)+fl[0]+fl[1];
   else if(eq) t=2+cnt*fl[0];
   else { t=2; for(i=0;i<cnt-1;i++) t+=1+(fl[i]>=252)+fl[i]; t+=fl[cnt-1]; }
   if(sd) t+=1+(fl[cnt-1]>=252);
   return t;
}
/* ... and its bytes (unique: each code's header is forced once the smallest code is chosen) */
static int frames_min_build(unsigned char *o,int toc,int cnt,const unsigned char **fp,const int *fl,int sd){
   int i,eq=1,code,vbr=0; for(i=1;i<cnt;i++) if(fl[i]!=fl[0]) eq=0;
   if(cnt==1) code=0; else if(cnt==2&&eq) code=1; else if(cnt==2) code=2; else { code=3; vbr=!eq; }
   return rfc_build(o,toc,code,vbr,cnt,fp,fl,-1,NULL,sd);
}

/* do the frames of an RFC-parsed output equal the expected ones? 0 ok, else 1 unparsable,2 count,3 toc cfg,4 size,5 bytes */
static int frames_cmp(const rfc_pkt *o,const unsigned char *ob,int toc,int cnt,const unsigned char **fp,const int *fl){
   int i; if(!o->ok) return 1; if(o->count!=cnt) return 2; if((o->toc&0xFC)!=(toc&0xFC)) return 3;
   for(i=0;i<cnt;i++){ if(o->size[i]!=fl[i]) return 4; if(fl[i]&&memcmp(ob+o->off[i],fp[i],fl[i])) return 5; }
   return 0;
}
static const char *const FCMP[6]={"ok","unparsable","frame_count","toc_config_bits","frame_size","frame_bytes"};
static const char *errname(int r){ switch(r){ case 0:return "OK"; case -1:return "BAD_ARG"; case -2:return "BUFFER_TOO_SMALL"; case -3:return "INTERNAL_ERROR"; case -4:return "INVALID_PACKET"; case -5:return "UNIMPLEMENTED"; case -6:return "INVALID_STATE"; case -7:return "ALLOC_FAIL"; } return r>0?"positive":"unknown_error"; }

/* the library's own parser must accept what the library emits, with the same frames */
static int lib_parse_agrees(const unsigned char *b,int n,const rfc_pkt *o){
   unsigned char t; const unsigned char *fr[48]; opus_int16 sz[48]; int po,i; int c=opus_packet_parse(b,n,&t,fr,sz,&po);
   if(c!=o->count||t!=o->toc) return 0; for(i=0;i<c;i++) if(sz[i]!=o->size[i]||fr[i]-b!=o->off[i]) return 0; return 1;
}
#endif
