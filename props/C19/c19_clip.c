/* C19 (first half) — opus_pcm_soft_clip obeys its contract.
 *
 * The soft clipper is an explicit-state machine: state = the memory vector declip_mem[C] (one float per
 * channel), input letter = one frame (N x C floats), transition = one real call of opus_pcm_soft_clip.
 *
 * --mode small  (E3 + E1, small-scope exhaustive):
 *   A  chain, C=1: the reachable memory states are computed layer by layer (layer 0 = {0,+-0.1,+-0.25};
 *      layer d+1 = memories left by any frame of length <=3 from a layer-d state); from EVERY state of
 *      layers 0..D-1 EVERY frame of length 1..Nmax over the core alphabet is applied (so every history of
 *      D calls whose first D-1 frames have length <=3 and whose last frame has length <=Nmax is executed
 *      once per distinct intermediate state).  The run measures whether longer frames leave memories
 *      outside the precomputed layers (counter succ_outside_layers; 0 = layers are exact for <=Nmax).
 *   B  C=2, every pair (channel-0 frame, channel-1 frame) of length N<=3 x every pair of memories.
 *   C  C=3, every triple of frames of length N<=2 x memory triples.
 *   D  C=2,3, N<=Nmax: channel 0 runs over every frame, channel c over a bijective re-indexing of it.
 *   E  C=1, wide alphabet (adds +-2, +-3, +-2^-19, -0.0), N<=Nw, from the layer-0 states.
 *   F  C=1, every float peak value in (1,2] (all 2^23 bit patterns), both signs, four short frames each.
 * --mode long   (prod-asan, exact-size heap buffers): every N in 0..5760, C<=8, 18 deterministic pattern
 *      families over two consecutive frames sharing the memory; isolated peaks at every position for a
 *      list of lengths; degenerate calls.
 *
 * Oracle (statement only): every output in [-1,1]; all |x|<=1 and all memories 0 => output bit-identical
 * and memories still 0; no sample changes sign (in>0 => out>=0 ..., and a non-zero sample never becomes 0);
 * interleaved call == per-channel calls with that channel's memory, bit for bit, outputs and memories;
 * degenerate calls (N<1, C<1, NULL x, NULL mem) touch nothing.
 *
 * Sign-flip signatures (DESIGN §5 F5): a flip gets "softclip_signflip:vanishing_input_in_start_ramp" ONLY if
 * |in| < 2^-20 and |out| < 2^-20 and the sample lies in the frame-start ramp region (before the first zero
 * crossing of its channel, with an over-range sample later in that same-sign run).  A flip in that region with
 * a larger magnitude gets "...:start_ramp_residue_ge_2pow-20", any other flip "...:outside_start_ramp".
 */
#include <stdlib.h>
#include <string.h>
#include <math.h>
#include <limits.h>
#include "opus.h"
#include "mc.h"

static inline uint32_t fbits(float f){ uint32_t u; __builtin_memcpy(&u,&f,4); return u; }
#define FNE(a,b) (fbits(a)!=fbits(b))
#define VB 9.5367431640625e-07f   /* 2^-20 */
#define NMAXLONG 5760
#define CMAX 8

static mc_ctr *c_eval,*c_trans,*c_pass,*c_clip,*c_flipv,*c_flipl,*c_flipo,*c_zeroed,*c_outside,*c_indep,*c_degen,*c_maxflipx,*c_maxflipy;
static mc_set *S_states,*S_obs,*S_obs_nt;
static const char *g_ctx="";          /* short description of the enumeration section (for messages) */

/* ------------------------------------------------------------------ alphabet */
static float AW[20]; static int NA=13, NAW=20;
static void mk_alpha(void){
   float n1=nextafterf(1.f,2.f); int k=0;
   AW[k++]=0.f; AW[k++]=1e-30f; AW[k++]=-1e-30f; AW[k++]=0.5f; AW[k++]=-0.5f; AW[k++]=1.f; AW[k++]=-1.f;
   AW[k++]=n1; AW[k++]=-n1; AW[k++]=1.5f; AW[k++]=-1.5f; AW[k++]=1e6f; AW[k++]=-1e6f;          /* core 13 */
   AW[k++]=2.f; AW[k++]=-2.f; AW[k++]=3.f; AW[k++]=-3.f;                                      /* 17 */
   AW[k++]=1.9073486328125e-06f; AW[k++]=-1.9073486328125e-06f; AW[k++]=-0.f;                 /* 20: +-2^-19, -0 */
}
static const float L0[5]={0.f,0.1f,-0.1f,0.25f,-0.25f};

/* ------------------------------------------------------------------ helpers */
static const char *fl(const float *x,int n){
   static char ring[4][1600]; static int r; char *o=ring[r=(r+1)&3]; int i,k=0;
   for(i=0;i<n&&k<1500;i++) k+=snprintf(o+k,1600-k,"%s%.9g",i?",":"",x[i]);
   if(i<n) snprintf(o+k,1600-k,",...(%d values)",n); return o;
}
static const char *flhex(const float *x,int n){
   static char ring[4][1600]; static int r; char *o=ring[r=(r+1)&3]; int i,k=0;
   for(i=0;i<n&&k<1500;i++){ uint32_t u; memcpy(&u,&x[i],4); k+=snprintf(o+k,1600-k,"%s%08x",i?",":"",u); }
   if(i<n) snprintf(o+k,1600-k,",..."); return o;
}
/* is sample i of channel c in the frame-start ramp region? (input x, interleaved) */
static int in_ramp(const float *x,int N,int C,int c,int i){
   int j,sg=0,e=N,k;
   for(j=0;j<N;j++){ float v=x[j*C+c]; int s=(v>0)-(v<0); if(!s) continue; if(!sg) sg=s; else if(s!=sg){ e=j; break; } }
   if(i>=e) return 0;
   for(k=i+1;k<e;k++) if(fabsf(x[k*C+c])>1.f) return 1;
   return 0;
}
/* one real call + the per-call clauses. x: input (interleaved, N*C), m: memories in; y,mo receive results.
   desc: printable description of the case when the literal input is too long (may be NULL). Returns flags: 1 = something changed */
static int oracle_call(int C,int N,const float *x,const float *m,float *y,float *mo,const char *desc){
   int i,c,allin=1,allm0=1,changed=0,n=N*C;
   memcpy(y,x,sizeof(float)*n); memcpy(mo,m,sizeof(float)*C);
   opus_pcm_soft_clip(y,N,C,mo);
   MC_INC(c_eval); MC_INC(c_trans);
   for(c=0;c<C;c++) if(m[c]!=0.f) allm0=0;
   for(i=0;i<n;i++){
      float xi=x[i], v=y[i];
      if(!(v>=-1.f&&v<=1.f))
         mc_fail("softclip_range:output_outside_pm1","%s C=%d N=%d mem_in={%s} sample %d (ch %d idx %d): in=%.9g out=%.9g | x={%s} %s",g_ctx,C,N,fl(m,C),i,i%C,i/C,xi,v,fl(x,n<40?n:40),desc?desc:"");
      if(xi>1.f||xi<-1.f) allin=0;
      if(FNE(xi,v)) changed=1;
      if((xi>0.f&&v<0.f)||(xi<0.f&&v>0.f)){
         int ramp=in_ramp(x,N,C,i%C,i/C); float ax=fabsf(xi), ay=fabsf(v);
         MC_MAX(c_maxflipx,(long)(ax*1e12)); MC_MAX(c_maxflipy,(long)(ay*1e12));
         if(ramp && ax<VB && ay<VB){ static long loc; MC_INC(c_flipv);
            if(loc++<40) mc_fail("softclip_signflip:vanishing_input_in_start_ramp","%s C=%d N=%d mem_in={%s} sample idx %d of ch %d: in=%.9g out=%.9g (|in|,|out| < 2^-20, inside the frame-start ramp) | x={%s} hex={%s} %s",g_ctx,C,N,fl(m,C),i/C,i%C,xi,v,fl(x,n<24?n:24),flhex(x,n<24?n:24),desc?desc:""); }
         else if(ramp){ static long loc; MC_INC(c_flipl);
            if(loc++<40) mc_fail("softclip_signflip:start_ramp_residue_ge_2pow-20","%s C=%d N=%d mem_in={%s} sample idx %d of ch %d: in=%.9g out=%.9g (frame-start ramp residue, magnitude not below 2^-20) | x={%s} %s",g_ctx,C,N,fl(m,C),i/C,i%C,xi,v,fl(x,n<24?n:24),desc?desc:""); }
         else { MC_INC(c_flipo);
            mc_fail("softclip_signflip:outside_start_ramp","%s C=%d N=%d mem_in={%s} sample idx %d of ch %d: in=%.9g out=%.9g | x={%s} %s",g_ctx,C,N,fl(m,C),i/C,i%C,xi,v,fl(x,n<24?n:24),desc?desc:""); }
      } else if(xi!=0.f && v==0.f){ MC_INC(c_zeroed);
         mc_fail("softclip_zeroed:nonzero_sample_became_zero","%s C=%d N=%d mem_in={%s} sample idx %d of ch %d: in=%.9g out=%.9g | x={%s} %s",g_ctx,C,N,fl(m,C),i/C,i%C,xi,v,fl(x,n<24?n:24),desc?desc:""); }
   }
   for(c=0;c<C;c++) if(FNE(m[c],mo[c])) changed=1;
   if(allin&&allm0){
      MC_INC(c_pass);
      if(n>0&&memcmp(x,y,sizeof(float)*n)){ for(i=0;i<n;i++) if(FNE(x[i],y[i])) break;
         mc_fail("softclip_passthrough:inrange_cleared_memory_modified","%s C=%d N=%d all |x|<=1, memories 0: sample %d in=%.9g (%s) out=%.9g (%s) | x={%s} %s",g_ctx,C,N,i,x[i],flhex(&x[i],1),y[i],flhex(&y[i],1),fl(x,n<24?n:24),desc?desc:""); }
      for(c=0;c<C;c++) if(mo[c]!=0.f)
         mc_fail("softclip_passthrough:memory_not_left_zero","%s C=%d N=%d all |x|<=1, memories 0: memory[%d] became %.9g | x={%s} %s",g_ctx,C,N,c,mo[c],fl(x,n<24?n:24),desc?desc:"");
   } else if(changed) MC_INC(c_clip);
   return changed;
}
/* observation class of a call (small N: exact masks) */
static void observe(int C,int N,const float *x,const float *m,const float *y,const float *mo,int changed,int sec){
   /* class = (section, C, N bucket, per channel: #changed samples {0,1,2,3+}, any output at +-1, sign of memory in/out) */
   uint64_t h=mc_mix(mc_mix(C,N<=8?N:8+(N>64)+(N>960)),sec); int i,c; static int budget=3;
   for(c=0;c<C;c++){ int cnt=0,lim=0;
      for(i=0;i<N;i++){ if(FNE(x[i*C+c],y[i*C+c])) cnt++; if(fabsf(y[i*C+c])==1.f) lim=1; }
      h=mc_mix(h,(uint64_t)((cnt>3?3:cnt)*2+lim)); h=mc_mix(h,(uint64_t)((m[c]>0)-(m[c]<0)+1)*3+(uint64_t)((mo[c]>0)-(mo[c]<0)+1)); }
   mc_set_add(S_obs,h);
   if(changed && mc_set_add(S_obs_nt,h) && budget>0 && N*C<=18 && N>=3){ budget--;
      mc_sample("%s C=%d N=%d mem_in={%s} x={%s} -> y={%s} mem_out={%s}",g_ctx,C,N,fl(m,C),fl(x,N*C),fl(y,N*C),fl(mo,C)); }
}
static void add_state(const float *mo,int C){ mc_set_add(S_states,mc_hash(mo,sizeof(float)*C,C)); }

/* ================================================================== mode small */
#define MAXST 4096
static float ST[MAXST]; static int ST_layer[MAXST]; static int nst, nexp; /* nexp: states that get expanded (layers < D) */
static int D=2, NMAX=6, NW=4, MEMSET=5 /* size of memory set used in B */, TRI=3 /* per-channel memory alphabet size in C */, DVAR=2;
static int g_layer;
static int st_find(float v){ int i; for(i=0;i<nst;i++) if(!FNE(ST[i],v)) return i; return -1; }
static void closure(void){
   int i,d,N,lo=0; nst=0;
   for(i=0;i<5;i++){ ST[nst]=L0[i]; ST_layer[nst++]=0; }
   for(d=0;d<D-1;d++){ int hi=nst,s;
      for(s=lo;s<hi;s++){ int idx[3];
         for(N=1;N<=3;N++){ long tot=1,t; for(i=0;i<N;i++) tot*=17;
            for(t=0;t<tot;t++){ float x[3],m=ST[s]; long q=t; for(i=0;i<N;i++){ idx[i]=q%17; q/=17; x[i]=AW[idx[i]]; }
               opus_pcm_soft_clip(x,N,1,&m);
               if(st_find(m)<0){ if(nst<MAXST){ ST[nst]=m; ST_layer[nst++]=d+1; } else mc_capped("memory-state table full (4096); deeper layers truncated"); } } } }
      lo=hi; }
   nexp=nst;   /* every state in layers 0..D-1 is expanded; the successors of layer D-1 are only counted */
}
/* odometer over frames of length N whose first npre samples are fixed */
typedef void (*frame_fn)(int N,const int *dig,void *u);
static void for_frames(int N,int npre,int *dig,int na,frame_fn fn,void *u){
   int i; for(i=npre;i<N;i++) dig[i]=0;
   for(;;){ fn(N,dig,u); for(i=npre;i<N;i++){ if(++dig[i]<na) break; dig[i]=0; } if(i>=N) break; }
}
static void chainA_frame(int N,const int *dig,void *u){
   float x[16],y[16],m=*(float*)u,mo; int i,ch; for(i=0;i<N;i++) x[i]=AW[dig[i]];
   ch=oracle_call(1,N,x,&m,y,&mo,NULL); observe(1,N,x,&m,y,&mo,ch,0); add_state(&mo,1);
   if(g_layer<D-1 && st_find(mo)<0) MC_INC(c_outside);
}
static void secA(long it){ int s=(int)(it/(NA*NA)), a0=(int)(it/NA%NA), a1=(int)(it%NA), N, dig[16]; float m=ST[s];
   g_layer=ST_layer[s]; g_ctx="A:chain"; mc_case("softclip_chain","state=%.9g (layer %d) prefix=%.9g,%.9g",m,ST_layer[s],AW[a0],AW[a1]);
   if(a1==0){ dig[0]=a0; chainA_frame(1,dig,&m); }
   for(N=2;N<=NMAX;N++){ dig[0]=a0; dig[1]=a1; for_frames(N,2,dig,NA,chainA_frame,&m); }
}
/* reference table for B/C: single-channel result of every frame of length <=3 from every state in the memory set */
typedef struct { float y[3]; float mo; } refent;
static refent *REF[MAXST][4]; static long P13[8];
static void mk_ref(int nstates){ int s,N,i; for(s=0;s<nstates;s++) for(N=1;N<=3;N++){ long t; REF[s][N]=malloc(sizeof(refent)*P13[N]);
   for(t=0;t<P13[N];t++){ float x[3],m=ST[s]; long q=t; for(i=0;i<N;i++){ x[i]=AW[q%NA]; q/=NA; } opus_pcm_soft_clip(x,N,1,&m); memcpy(REF[s][N][t].y,x,sizeof(float)*N); REF[s][N][t].mo=m; } } }
static void cmp_channels(int C,int N,const float *x,const float *m,const float *y,const float *mo,const refent **r){
   int c,i; MC_INC(c_indep);
   for(c=0;c<C;c++){ for(i=0;i<N;i++) if(FNE(y[i*C+c],r[c]->y[i])){
         mc_fail("softclip_channels:interleaved_differs_from_per_channel","%s C=%d N=%d mem_in={%s} channel %d sample %d: interleaved out=%.9g, single-channel call out=%.9g | x={%s}",g_ctx,C,N,fl(m,C),c,i,y[i*C+c],r[c]->y[i],fl(x,N*C)); break; }
      if(FNE(mo[c],r[c]->mo))
         mc_fail("softclip_channels:memory_differs_from_per_channel","%s C=%d N=%d mem_in={%s} channel %d: interleaved mem=%.9g, single-channel call mem=%.9g | x={%s}",g_ctx,C,N,fl(m,C),c,mo[c],r[c]->mo,fl(x,N*C)); }
}
static void secB(long it){ int mp=(int)(it/(3*NA)), N=(int)(it/NA%3)+1, a0=(int)(it%NA), s0=mp/MEMSET, s1=mp%MEMSET; long f0,f1; float m[2]; int i;
   g_ctx="B:C=2 full product"; m[0]=ST[s0]; m[1]=ST[s1]; mc_case("softclip_c2","mem={%.9g,%.9g} N=%d a0=%d",m[0],m[1],N,a0);
   for(f0=a0;f0<P13[N];f0+=NA) for(f1=0;f1<P13[N];f1++){ float x[6],y[6],mo[2]; long q0=f0,q1=f1; const refent *r[2]; int ch;
      for(i=0;i<N;i++){ x[2*i]=AW[q0%NA]; q0/=NA; x[2*i+1]=AW[q1%NA]; q1/=NA; }
      ch=oracle_call(2,N,x,m,y,mo,NULL); observe(2,N,x,m,y,mo,ch,1); add_state(mo,2);
      r[0]=&REF[s0][N][f0]; r[1]=&REF[s1][N][f1]; cmp_channels(2,N,x,m,y,mo,r); }
}
static int NF2; /* frames of length <=2: 13+169 */
static void secC(long it){ int mt=(int)(it/NF2), f=(int)(it%NF2), N=f<NA?1:2; long f0=f<NA?f:f-NA, f1,f2; int s[3],i; float m[3];
   static const int trimap[5]={0,1,4,2,3}; /* TRI=3 -> {0,0.1,-0.25} */
   g_ctx="C:C=3 full product"; s[0]=trimap[mt/(TRI*TRI)]; s[1]=trimap[mt/TRI%TRI]; s[2]=trimap[mt%TRI]; for(i=0;i<3;i++) m[i]=ST[s[i]];
   mc_case("softclip_c3","mem={%.9g,%.9g,%.9g} N=%d f0=%ld",m[0],m[1],m[2],N,f0);
   for(f1=0;f1<P13[N];f1++) for(f2=0;f2<P13[N];f2++){ float x[6],y[6],mo[3]; long q0=f0,q1=f1,q2=f2; const refent *r[3]; int ch;
      for(i=0;i<N;i++){ x[3*i]=AW[q0%NA]; q0/=NA; x[3*i+1]=AW[q1%NA]; q1/=NA; x[3*i+2]=AW[q2%NA]; q2/=NA; }
      ch=oracle_call(3,N,x,m,y,mo,NULL); observe(3,N,x,m,y,mo,ch,2); add_state(mo,3);
      r[0]=&REF[s[0]][N][f0]; r[1]=&REF[s[1]][N][f1]; r[2]=&REF[s[2]][N][f2]; cmp_channels(3,N,x,m,y,mo,r); }
}
typedef struct { int C,v,m0; } dctx;
static void secD_frame(int N,const int *dig,void *u){
   static const long P[3]={1,7,11}; static const long Q[4][3]={{0,5,77},{0,1005,31414},{0,170,2},{0,99991,123457}};
   dctx *d=u; int C=d->C,c,i,ch; float x[24],yr[24],yi[24],m[3],mr[3],mo[3]; long idx=0;
   for(i=N-1;i>=0;i--) idx=idx*NA+dig[i];
   for(c=0;c<C;c++){ long q=(idx*P[c]+Q[d->v][c])%P13[N]; float xc[8],mc=L0[(d->m0+c*(1+d->v))%5]; m[c]=mc;
      for(i=0;i<N;i++){ xc[i]=AW[q%NA]; q/=NA; x[i*C+c]=xc[i]; }
      opus_pcm_soft_clip(xc,N,1,&mc); MC_INC(c_trans);            /* per-channel call with that channel's memory */
      for(i=0;i<N;i++) yr[i*C+c]=xc[i]; mr[c]=mc; }
   ch=oracle_call(C,N,x,m,yi,mo,NULL); observe(C,N,x,m,yi,mo,ch,3); add_state(mo,C); MC_INC(c_indep);
   for(c=0;c<C;c++){ for(i=0;i<N;i++) if(FNE(yi[i*C+c],yr[i*C+c])){
         mc_fail("softclip_channels:interleaved_differs_from_per_channel","%s C=%d N=%d mem_in={%s} channel %d sample %d: interleaved out=%.9g, single-channel call out=%.9g | x={%s}",g_ctx,C,N,fl(m,C),c,i,yi[i*C+c],yr[i*C+c],fl(x,N*C)); break; }
      if(FNE(mo[c],mr[c]))
         mc_fail("softclip_channels:memory_differs_from_per_channel","%s C=%d N=%d mem_in={%s} channel %d: interleaved mem=%.9g, single-channel call mem=%.9g | x={%s}",g_ctx,C,N,fl(m,C),c,mo[c],mr[c],fl(x,N*C)); }
}
static void secD(long it){ dctx d; int a1=(int)(it%NA), a0=(int)(it/NA%NA), N, dig[16]; long r=it/(NA*NA); d.m0=(int)(r%5); r/=5; d.v=(int)(r%DVAR); r/=DVAR; d.C=2+(int)r;
   g_ctx="D:C=2,3 re-indexed channels"; mc_case("softclip_cD","C=%d variant=%d m0=%d prefix=%d,%d",d.C,d.v,d.m0,a0,a1);
   if(a1==0){ dig[0]=a0; secD_frame(1,dig,&d); }
   for(N=2;N<=NMAX;N++){ dig[0]=a0; dig[1]=a1; for_frames(N,2,dig,NA,secD_frame,&d); }
}
static void secE_frame(int N,const int *dig,void *u){
   float x[16],y[16],m=*(float*)u,mo; int i,ch; for(i=0;i<N;i++) x[i]=AW[dig[i]];
   ch=oracle_call(1,N,x,&m,y,&mo,NULL); observe(1,N,x,&m,y,&mo,ch,4); add_state(&mo,1);
}
static void secE(long it){ int s=(int)(it/(NAW*NAW)), a0=(int)(it/NAW%NAW), a1=(int)(it%NAW), N, dig[16]; float m=L0[s];
   g_ctx="E:wide alphabet"; mc_case("softclip_wide","state=%.9g prefix=%d,%d",m,a0,a1);
   if(a1==0){ dig[0]=a0; secE_frame(1,dig,&m); }
   for(N=2;N<=NW;N++){ dig[0]=a0; dig[1]=a1; for_frames(N,2,dig,NAW,secE_frame,&m); }
}
/* F: every float peak value m in (1,2] (2^23 values), both signs: frames {m}, {0.75m, m}, {m, -m} from memory 0 and {m} from the
   opposite-signed memory 0.25 (continuation of the previous curve first) */
static void secF(long it){ uint32_t u0=0x3f800001u+(uint32_t)it*65536u,u; int sg;
   g_ctx="F:peak sweep"; mc_case("softclip_peaks","peak bit patterns %08x..%08x",u0,u0+65535u);
   for(u=u0;u<u0+65536u&&u<=0x40000000u;u++) for(sg=0;sg<2;sg++){ float m,x[2],y[2],mi=0.f,mo; int ch; uint32_t v=u|(sg?0x80000000u:0); __builtin_memcpy(&m,&v,4);
      x[0]=m; ch=oracle_call(1,1,x,&mi,y,&mo,NULL); if((u&4095)==0){ observe(1,1,x,&mi,y,&mo,ch,8); add_state(&mo,1); }
      x[0]=0.75f*m; x[1]=m; oracle_call(1,2,x,&mi,y,&mo,NULL);
      x[0]=m; x[1]=-m; oracle_call(1,2,x,&mi,y,&mo,NULL);
      mi=sg?0.25f:-0.25f; x[0]=m; oracle_call(1,1,x,&mi,y,&mo,NULL); mi=0.f; }
}
static long nA,nB,nC,nD,nE,nF=128;
static void item_small(long it,void *ctx){ (void)ctx;
   if(it<nF){ secF(it); return; } it-=nF;
   if(it<nA){ secA(it); return; } it-=nA;
   if(it<nB){ secB(it); return; } it-=nB;
   if(it<nC){ secC(it); return; } it-=nC;
   if(it<nD){ secD(it); return; } it-=nD;
   secE(it);
}

/* ================================================================== mode long */
#define NFAM 18
static int QUICKC=1, PEAKFULL=0;
static float tab_sin[4096];
static float fsin(double ph){ /* deterministic table sine, ph in cycles */ double f=ph-floor(ph); return tab_sin[(int)(f*4096)&4095]; }
static void gen(int fam,int N,int cp,int k,float *o){
   static const float V4[8]={1.0000001f,1.5f,2.f,1e6f,-1.0000001f,-1.5f,-3.f,-1e6f};
   static const float leads[4]={0.5f,0.9f,1.0f,1.5f}, bgs[4]={1e-30f,4.76837158203125e-07f,1.9073486328125e-06f,1e-5f}, pks[4]={1.5f,2.f,1e6f,1.0000001f};
   int i; long t0=(long)k*N; uint32_t lcg=(uint32_t)(fam*7919u+cp*104729u+k*1299709u+N*15485863u+1u);
   float sg=(cp&1)?-1.f:1.f;
   for(i=0;i<N;i++){ long t=t0+i; float v=0;
      switch(fam){
      case 0: v=(((t+17*cp)&255)*(1/32.f)-4.f)/(1+(cp%3)); break;
      case 1: v=1.2f*fsin(t*(0.021+0.0013*cp)); break;
      case 2: v=1e6f*fsin(t*0.0093+0.1*cp); break;
      case 3: v=0.999f*fsin(t*(0.013+0.002*cp)); break;
      case 4: v=V4[cp&7]; break;
      case 5: v=sg; break;
      case 6: v=sg*((((t*3)/(N>0?N:1))%3==1)?1.7f:0.3f); break;
      case 7: v=(cp&1)? (((t/7)&1)?3.f:-3.f) : ((t&1)?1.5f:-1.5f); break;
      case 8: if(!(k&1)) v=sg*1.8f*(i+1)/N; else v=(cp&2)? sg*1.8f*(1.f-2.f*i/N) : -sg*1.8f*(1.f-(float)i/N); break;
      case 9: v=1.5f*(((int)(mc_lcg(&lcg)>>8)-(1<<23))/(float)(1<<23)); break;
      case 10:{ float n=0.2f*(((int)(mc_lcg(&lcg)>>8)-(1<<23))/(float)(1<<23)); v=(t%97==(cp*11)%97)? n*1e7f : n; } break;
      case 11: case 17:{ float s=(fam==17)?-1.f:1.f; int li=cp&3; float pk=pks[(N>>1)&3]; if(li==3&&pk<2.f) pk=2.f;
               v= i==0? leads[li] : i==N-1? pk : bgs[((cp>>2)+((N&1)<<1)+k)&3]; v*=s; } break;
      case 12: v= (i==(int)(((long)N*(cp+1))/9))? sg*pks[cp&3] : 0.f; break;
      case 13: v= (i==N/2)? sg*1e6f : sg*1e-40f; break;
      case 14: v=((t+cp)&1)?1e6f:-1e6f; break;
      case 15: v=(((t/5)&1)?-1.f:1.f)*1e-6f*powf(10.f,12.f*i/(N>0?N:1)); break;
      case 16: v=sg*1e-30f; break;
      }
      o[i]=v; }
}
static const char *famname[NFAM]={"saw-tooth(test_soft_clip)","sine 1.2","sine 1e6","sine 0.999 (in range)","constant above range","constant +-1","run above range in mid-frame","square +-1.5/+-3","frame-edge sign change / run crossing the edge","LCG noise 1.5","LCG noise with 1e6 spikes","lead,tiny,...,peak at N-1 (start ramp)","isolated peak","denormal floor + 1e6 peak","alternating +-1e6","exponential 1e-6..1e6","constant 1e-30","negative lead,tiny,...,peak (start ramp)"};

static void item_long_N(int N){
   /* per item: reference C=1 results for every (fam, cparam) over two consecutive frames, each checked by the per-call oracle.
      oracle_call() runs the clipper on its y / mo arguments: those are exact-size heap blocks here. */
   static float *gen_[NFAM][CMAX][2]; static mc_gbuf ref_[NFAM][CMAX][2]; static float refm[NFAM][CMAX][2]; float minit[CMAX];
   int fam,cp,k,C,c,i; char desc[240];
   int useC[CMAX+1],maxC=4,famsel[NFAM],allfam;
   /* quick tier: every N is visited with C=1 (>=4 channel parameters), C=2, C=1+N%8 and (N%16==0) C=8; N<=64 with every C<=8;
      all 18 families when N<=240 or N is a multiple of 120, otherwise the 6 families with fam%3==N%3.  thorough: full product. */
   for(C=1;C<=CMAX;C++){ useC[C]= !QUICKC || C<=2 || C==1+N%8 || (C==8&&N%16==0) || N<=64; if(useC[C]&&C>maxC) maxC=C; }
   allfam= !QUICKC || N<=240 || N%120==0;
   for(fam=0;fam<NFAM;fam++) famsel[fam]= allfam || fam%3==N%3;
   for(cp=0;cp<CMAX;cp++) minit[cp]=(N&1)?L0[cp%5]:0.f;
   for(fam=0;fam<NFAM;fam++) for(cp=0;cp<CMAX;cp++){ gen_[fam][cp][0]=gen_[fam][cp][1]=NULL; ref_[fam][cp][0].base=ref_[fam][cp][1].base=NULL; }
   for(fam=0;fam<NFAM;fam++) for(cp=0;cp<maxC;cp++){ float m=minit[cp]; int need=0;
      need= famsel[(fam-cp+NFAM)%NFAM] || (famsel[fam]&&cp<4);   /* (fam,cp) is channel cp of the interleaved cases of base family fam-cp, and a C=1 case of its own */
      if(!need) continue;
      for(k=0;k<2;k++){ mc_gbuf *gy=&ref_[fam][cp][k]; float mo; int ch; float *x=malloc(sizeof(float)*(N?N:1));
         mc_galloc(gy,sizeof(float)*N);
         gen(fam,N,cp,k,x); gen_[fam][cp][k]=x;
         snprintf(desc,sizeof desc,"[family %d '%s' cparam=%d frame k=%d]",fam,famname[fam],cp,k);
         g_ctx="L:long C=1"; mc_case("softclip_long","N=%d C=1 %s mem=%.9g",N,desc,m);
         ch=oracle_call(1,N,x,&m,(float*)gy->p,&mo,desc); observe(1,N,x,&m,(float*)gy->p,&mo,ch,5); add_state(&mo,1);
         if(!mc_gcheck(gy)) mc_fail("softclip_overrun:canary","N=%d C=1 %s",N,desc);
         refm[fam][cp][k]=mo; m=mo; } }
   /* interleaved cases */
   for(C=2;C<=CMAX;C++){
      if(!useC[C]) continue;
      for(fam=0;fam<NFAM;fam++){ float m[CMAX];
         if(!famsel[fam]) continue;
         for(c=0;c<C;c++) m[c]=minit[c];
         for(k=0;k<2;k++){ mc_gbuf gy,gm; float *x=malloc(sizeof(float)*(N?N*C:1)),*y,*mo; int ch;
            mc_galloc(&gy,sizeof(float)*N*C); mc_galloc(&gm,sizeof(float)*C); y=(float*)gy.p; mo=(float*)gm.p;
            for(c=0;c<C;c++){ const float *s=gen_[(fam+c)%NFAM][c][k]; for(i=0;i<N;i++) x[i*C+c]=s[i]; }
            snprintf(desc,sizeof desc,"[channel c = family (%d+c)%%18, cparam=c, frame k=%d; family %d='%s']",fam,k,fam,famname[fam]);
            g_ctx="L:long interleaved"; mc_case("softclip_long","N=%d C=%d %s",N,C,desc);
            ch=oracle_call(C,N,x,m,y,mo,desc); observe(C,N,x,m,y,mo,ch,6); add_state(mo,C); MC_INC(c_indep);
            for(c=0;c<C;c++){ const float *r=(const float*)ref_[(fam+c)%NFAM][c][k].p;
               for(i=0;i<N;i++) if(FNE(y[i*C+c],r[i])){
                  mc_fail("softclip_channels:interleaved_differs_from_per_channel","long N=%d C=%d %s channel %d sample %d: in=%.9g interleaved out=%.9g single-channel out=%.9g",N,C,desc,c,i,x[i*C+c],y[i*C+c],r[i]); break; }
               if(FNE(mo[c],refm[(fam+c)%NFAM][c][k]))
                  mc_fail("softclip_channels:memory_differs_from_per_channel","long N=%d C=%d %s channel %d: interleaved mem=%.9g single-channel mem=%.9g",N,C,desc,c,mo[c],refm[(fam+c)%NFAM][c][k]); }
            if(!mc_gcheck(&gy)||!mc_gcheck(&gm)) mc_fail("softclip_overrun:canary","N=%d C=%d %s",N,C,desc);
            memcpy(m,mo,sizeof(float)*C);
            free(x); mc_gfree(&gy); mc_gfree(&gm); } } }
   for(fam=0;fam<NFAM;fam++) for(cp=0;cp<CMAX;cp++) for(k=0;k<2;k++){ free(gen_[fam][cp][k]); if(ref_[fam][cp][k].base) mc_gfree(&ref_[fam][cp][k]); }
}
/* a direct call on exact-size pcm and memory blocks (no oracle besides ASan / canaries) */
static void exact_call(int N,int C,const float *x,const float *m){
   mc_gbuf gx,gm; mc_galloc(&gx,sizeof(float)*N*C); mc_galloc(&gm,sizeof(float)*C); memcpy(gx.p,x,sizeof(float)*N*C); memcpy(gm.p,m,sizeof(float)*C);
   opus_pcm_soft_clip((float*)gx.p,N,C,(float*)gm.p); MC_INC(c_trans);
   if(!mc_gcheck(&gx)||!mc_gcheck(&gm)) mc_fail("softclip_overrun:canary","exact-size call N=%d C=%d",N,C);
   mc_gfree(&gx); mc_gfree(&gm);
}
/* isolated peak at every position */
static int LP[96], nLP;
static void item_peaks(int N,int p0,int p1){
   static const float leads[3]={0.f,0.9f,1.5f}, bgs[5]={0.f,1e-30f,0.5f,1.9073486328125e-06f,1e-5f}, pks[4]={1.0000001f,1.5f,1e6f,2.f};
   float *x=malloc(sizeof(float)*(N?N:1)*2),*y=malloc(sizeof(float)*(N?N:1)*2),*x1=malloc(sizeof(float)*(N?N:1)),*y0=malloc(sizeof(float)*(N?N:1)),*y1=malloc(sizeof(float)*(N?N:1));
   int p,li,bi,pi,sg,i,k; char desc[200];
   for(p=p0;p<p1;p++) for(li=0;li<3;li++) for(bi=0;bi<5;bi++) for(pi=0;pi<4;pi++) for(sg=0;sg<2;sg++){
      float s=sg?-1.f:1.f, m=0.f, mo, m2[2]={0.f,0.f}, mo2[2], ma=0.f, mb=0.f; int ch;
      if(!PEAKFULL && N>1000 && !(li==1&&(bi==1||bi==4)&&(pi==1||pi==3))) continue;   /* quick tier: 8 of the 120 (lead,background,peak,sign) combinations for the longest frames */
      for(i=0;i<N;i++) x[i]=s*bgs[bi];
      if(li) x[0]=s*leads[li]; x[p]=s*pks[pi];
      snprintf(desc,sizeof desc,"[isolated peak: x[0]=%.9g, background %.9g, x[%d]=%.9g]",x[0],s*bgs[bi],p,x[p]);
      g_ctx="P:isolated peak"; mc_case("softclip_peak","N=%d %s",N,desc);
      for(k=0;k<2;k++){ ch=oracle_call(1,N,x,&m,y,&mo,desc); if(k==0) observe(1,N,x,&m,y,&mo,ch,7); add_state(&mo,1); m=mo; }
      /* C=2: channel 0 = this frame, channel 1 = mirrored, negated frame; vs single-channel calls */
      if(((p+li+bi+pi)&3)==0){ float *xx=malloc(sizeof(float)*2*N), *yy=malloc(sizeof(float)*2*N);
         for(i=0;i<N;i++){ x1[i]=-x[N-1-i]; xx[2*i]=x[i]; xx[2*i+1]=x1[i]; }
         for(k=0;k<2;k++){
            memcpy(y0,x,sizeof(float)*N); opus_pcm_soft_clip(y0,N,1,&ma); memcpy(y1,x1,sizeof(float)*N); opus_pcm_soft_clip(y1,N,1,&mb); MC_ADD(c_trans,2);
            ch=oracle_call(2,N,xx,m2,yy,mo2,desc); MC_INC(c_indep);
            for(i=0;i<N;i++) if(FNE(yy[2*i],y0[i])||FNE(yy[2*i+1],y1[i])){
               mc_fail("softclip_channels:interleaved_differs_from_per_channel","peaks N=%d C=2 %s (channel 1 = mirrored negated) sample %d: interleaved {%.9g,%.9g} single-channel {%.9g,%.9g}",N,desc,i,yy[2*i],yy[2*i+1],y0[i],y1[i]); break; }
            if(FNE(mo2[0],ma)||FNE(mo2[1],mb))
               mc_fail("softclip_channels:memory_differs_from_per_channel","peaks N=%d C=2 %s: interleaved mem {%.9g,%.9g} single-channel {%.9g,%.9g}",N,desc,mo2[0],mo2[1],ma,mb);
            m2[0]=mo2[0]; m2[1]=mo2[1]; }
         if(((p+bi)&31)==0) exact_call(N,2,xx,m2);
         free(xx); free(yy); }
   }
   free(x); free(y); free(x1); free(y0); free(y1);
}
/* degenerate calls: nothing may be touched */
static void item_degenerate(void){
   static const int Ns[]={INT_MIN,-5760,-1,0,1,2,960,5760}, Cs[]={INT_MIN,-8,-1,0,1,2,3,8}; int a,b,mode,i;
   g_ctx="G:degenerate";
   for(a=0;a<8;a++) for(b=0;b<8;b++) for(mode=0;mode<4;mode++){
      int N=Ns[a], C=Cs[b], degenerate=(N<1||C<1||mode>0), n=(N>0&&C>0)?N*C:0, nc=C>0?C:0; mc_gbuf gx,gm; float *x,*m,*x0,*m0; int bad=0;
      if(!degenerate) continue;
      /* the buffers that ARE passed have exactly the advertised size (0 bytes when N*C<=0): any touch is an ASan report or a canary hit */
      mc_galloc(&gx,sizeof(float)*n); mc_galloc(&gm,sizeof(float)*nc); x=(float*)gx.p; m=(float*)gm.p; x0=malloc(sizeof(float)*(n+1)); m0=malloc(sizeof(float)*(nc+1));
      for(i=0;i<n;i++) x0[i]=x[i]=(i&1)?3.f:-1.25f; for(i=0;i<nc;i++) m0[i]=m[i]=(i&1)?-0.2f:0.15f;
      mc_case("softclip_degenerate","N=%d C=%d x=%s mem=%s",N,C,(mode&1)?"NULL":"valid",(mode&2)?"NULL":"valid");
      opus_pcm_soft_clip((mode&1)?NULL:x,N,C,(mode&2)?NULL:m); MC_INC(c_eval); MC_INC(c_trans); MC_INC(c_degen);
      if(n&&memcmp(x,x0,sizeof(float)*n)) bad=1; if(nc&&memcmp(m,m0,sizeof(float)*nc)) bad|=2; if(!mc_gcheck(&gx)||!mc_gcheck(&gm)) bad|=4;
      if(bad) mc_fail("softclip_degenerate:buffer_or_memory_touched","N=%d C=%d x=%s mem=%s: %s%s%s",N,C,(mode&1)?"NULL":"valid",(mode&2)?"NULL":"valid",(bad&1)?"pcm changed ":"",(bad&2)?"memory changed ":"",(bad&4)?"canary damaged":"");
      mc_set_add(S_obs,mc_mix(mc_mix(N<1,C<1),mode+100));
      free(x0); free(m0); mc_gfree(&gx); mc_gfree(&gm); }
   mc_sample("G:degenerate N in {INT_MIN,-5760,-1,0,1,2,960,5760} x C in {INT_MIN,-8,-1,0,1,2,3,8} x {x NULL, mem NULL, both, neither}: every call with N<1, C<1 or a NULL pointer leaves pcm, memory and canaries untouched");
}
static long nLN,nLPk; static struct { int N,p0,p1; } *PK;
static void item_long(long it,void *ctx){ (void)ctx;
   if(it<nLN){ item_long_N((int)it); return; } it-=nLN;
   if(it<nLPk){ item_peaks(PK[it].N,PK[it].p0,PK[it].p1); return; }
   item_degenerate();
}

/* ================================================================== main */
int main(int argc,char **argv){
   const char *mode; int i; mc_ctr *st,*dn;
   mc_init(argc,argv,"C19","clip");
   mode=mc_arg_s("--mode","small"); MC.part=mc_arg_s("--name",mode);
   mk_alpha();
   c_eval=mc_counter("evaluations"); c_trans=mc_counter("transitions"); st=mc_counter("states"); dn=mc_counter("distinct_nontrivial");
   c_pass=mc_counter("passthrough_cases"); c_clip=mc_counter("cases_where_clipper_acted"); c_indep=mc_counter("interleaved_vs_per_channel_comparisons");
   c_flipv=mc_counter("signflips_vanishing_in_start_ramp"); c_flipl=mc_counter("signflips_start_ramp_ge_2pow-20"); c_flipo=mc_counter("signflips_elsewhere"); c_zeroed=mc_counter("nonzero_became_zero");
   c_maxflipx=mc_counter("max_flipped_abs_input_x1e12"); c_maxflipy=mc_counter("max_flipped_abs_output_x1e12");
   c_outside=mc_counter("succ_outside_layers"); c_degen=mc_counter("degenerate_calls");
   S_states=mc_set_new(22); S_obs=mc_set_new(22); S_obs_nt=mc_set_new(22);
   P13[0]=1;
   if(!strcmp(mode,"small")){
      NA=(int)mc_arg("--na",13); NMAX=(int)mc_arg("--nmax",6); D=(int)mc_arg("--depth",MC.tier?4:3); NW=(int)mc_arg("--nwide",MC.tier?5:4);
      MEMSET=(int)mc_arg("--memset",5); TRI=(int)mc_arg("--tri",MC.tier?5:3); DVAR=(int)mc_arg("--dvar",MC.tier?4:2);
      if(NA>17) NA=17; if(NMAX>12) NMAX=12; if(TRI>5) TRI=5; if(DVAR>4) DVAR=4;
      for(i=1;i<8;i++) P13[i]=P13[i-1]*NA;
      closure();
      if(MEMSET>nst) MEMSET=nst;
      mk_ref(MEMSET>5?MEMSET:5);
      NF2=NA+NA*NA;
      nA=(long)nexp*NA*NA; nB=(long)MEMSET*MEMSET*3*NA; nC=(long)TRI*TRI*TRI*NF2; nD=(long)2*DVAR*5*NA*NA; nE=(long)5*NAW*NAW;
      { int l,cnt[16]={0}; for(i=0;i<nst;i++) if(ST_layer[i]<16) cnt[ST_layer[i]]++; for(l=0;l<D&&l<16;l++) mc_info("memory-state layer %d: %d states (reached by %d call(s) with frames of length <=3 over the 17-value alphabet)",l,cnt[l],l); }
      mc_info("alphabet size %d, Nmax %d, depth (calls per history) %d, expanded states %d; sections: A %ld items, B %ld (memory set %d), C %ld (per-channel memories %d), D %ld (variants %d), E %ld (wide alphabet %d, N<=%d), F %ld (every float peak in (1,2], both signs, 4 frames each)",NA,NMAX,D,nexp,nA,nB,MEMSET,nC,TRI,nD,DVAR,nE,NAW,NW,nF);
      mc_par(nF+nA+nB+nC+nD+nE,item_small,NULL);
      if(*c_outside) mc_info("%ld successor memories (from frames longer than 3) are not in the precomputed layers: histories through them are not expanded",*c_outside);
   } else {
      int n,Nlim=(int)mc_arg("--nlim",NMAXLONG);
      QUICKC=(int)mc_arg("--quickc",MC.tier?0:1); PEAKFULL=(int)mc_arg("--peakfull",MC.tier?1:0);
      for(i=0;i<4096;i++) tab_sin[i]=(float)sin(2*M_PI*i/4096.0);
      nLP=0; for(n=1;n<=48;n++) LP[nLP++]=n; { static const int more[]={64,120,240,480,960,1920,2880,5760}; for(i=0;i<8;i++) if(more[i]<=Nlim && (MC.tier||more[i]!=1920)) LP[nLP++]=more[i]; }
      nLN=Nlim+1; nLPk=0; PK=malloc(sizeof(*PK)*100000);
      for(i=0;i<nLP;i++){ int N=LP[i],blk= N<=64?N: N<=960?64:16,p; for(p=0;p<N;p+=blk){ PK[nLPk].N=N; PK[nLPk].p0=p; PK[nLPk].p1=p+blk<N?p+blk:N; nLPk++; } }
      mc_info("long: N=0..%d x C (quick subset=%d) x %d families x 2 consecutive frames; isolated peaks at every position for %d lengths (%ld blocks; full combination set for N>1000: %d); degenerate suite",Nlim,QUICKC,NFAM,nLP,nLPk,PEAKFULL);
      mc_par(nLN+nLPk+1,item_long,NULL);
      mc_sample("L:long N=5760 C=8 channel c = family (11+c)%%18 cparam=c, two consecutive frames sharing the memory: range, sign, pass-through, interleaved == per-channel (bit-exact) on exact-size heap blocks");
   }
   *st=mc_set_count(S_states); *dn=mc_set_count(S_obs_nt);
   { mc_ctr *oc=mc_counter("observation_classes"); *oc=mc_set_count(S_obs); }
   return mc_finish();
}
