/* C19 (second half) — OPUS_SET_GAIN(g) multiplies the decoded signal by 10^(g/5120) and does nothing else.
 *
 * Twin decoders on packet streams produced by the FROZEN encoder (mc/corpus.h): one without gain (float a[], 16-bit,
 * 24-bit) and, per gain g, a float, a 16-bit and a 24-bit decoder with OPUS_SET_GAIN(g).
 *   --mode allgains : every g in -32768..32767 on short streams (3 coded packets + one concealed frame each)
 *   --mode alphabet : gain alphabet + mid-stream gain changes on every corpus stream (all modes, bandwidths, durations,
 *                     transitions with redundancy, FEC, DTX, re-framed / padded / extension-bearing packets, one PLC call)
 *                     x decoder rates x decoder channels.
 * Oracle per decode call (statement only):
 *   - OPUS_SET_GAIN accepted, OPUS_GET_GAIN reads g back;
 *   - return value (sample count), OPUS_GET_FINAL_RANGE and OPUS_GET_LAST_PACKET_DURATION equal the twin's;
 *   - float: ONE float G per gain with |G/10^(g/5120)-1| < 1e-4 (calibrated: max 7.7e-7 over all 65536 gains; limit from
 *     DESIGN) such that every sample of every packet equals (float)(twin*G) exactly; g==0: bit-identical to the twin;
 *   - 16-bit (never wraps): |b|>=1 => same sign and |s|>=8192 (b = the gained float signal; the 16-bit path soft-clips, and the
 *     clipper may map an over-range sample anywhere in about [0.6,1] — e.g. -2,-2,-2,0,-2 after a negative excursion gives
 *     -0.9375,-0.875,-0.8125 — so "at the limit" is counted, not demanded; calibrated minimum 0.61, limit 0.25);
 *     |b|>=2^-10 => sign never opposite; as long as every sample since decoder creation is inside [-1,1] (clipper memory
 *     provably 0; concealed frames bypass the clipper and leave its memory stale, so "previous frame in range" is not enough):
 *     |s - round(32768 b)| <= 1;
 *   - 24-bit: sign never opposite to b, t monotone non-decreasing in b over the frame (never wraps); where |2^23 b| < 2^31:
 *     |t - round(2^23 b)| <= 1.
 * F6 signature: "gain:decode24_wraps" is used only when a sample with |2^23 b| >= 2^31-128 has the wrong sign or breaks
 * monotonicity; any other 24-bit failure is "gain:decode24_sign_or_order".
 */
#include <stdlib.h>
#include <string.h>
#include <math.h>
#include <limits.h>
#include "opus.h"
#include "mc.h"
#include "corpus.h"

static corpus CO;
static mc_ctr *c_sat16lim,*c_min16,*c_twice_inorder,*c_twice,*c_eval,*c_trans,*c_samples,*c_worstG,*c_sat16,*c_big24,*c_wrap24,*c_vac,*c_inr16,*c_runs;
static mc_set *S_states,*S_obs;
static int TOL_PPB=100000; /* 1e-4 */
static int OBS_GAIN_EXACT=0;

/* ------------------------------------------------------------------ op sequences */
typedef struct { const unsigned char *d; int len; int plc; int fec; int reset; } op_t;   /* reset: OPUS_RESET_STATE instead of a decode call (the gain is a setting and stays) */
#define MAXOP 40
typedef struct { op_t op[MAXOP]; int n; int stream; } seq_t;
static int SPL[2]={-1,-1};   /* corpus indices of a mid-stream CELT-only and SILK-only 20 ms packet (splice material) */
static void find_splices(void){ int s2; for(s2=0;s2<CO.ns;s2++){ cstream *t=&CO.s[s2]; if(t->n<3||t->dur_x10!=200||t->fec||t->dtx) continue; if(SPL[0]<0&&t->mode==REF_MODE_CELT_ONLY&&(CO.p[t->first+1].data[0]&0x80)) SPL[0]=t->first+1; if(SPL[1]<0&&t->mode==REF_MODE_SILK_ONLY&&!(CO.p[t->first+1].data[0]&0x80)&&(CO.p[t->first+1].data[0]&0x60)!=0x60) SPL[1]=t->first+1; } }
static void mk_seq(seq_t *q,int s,int with_derived){
   int i; cstream *st=&CO.s[s]; q->n=0; q->stream=s;
   for(i=0;i<st->n&&q->n<MAXOP-12;i++){ cpkt *p=&CO.p[st->first+i]; q->op[q->n].d=p->data; q->op[q->n].len=p->len; q->op[q->n].plc=0; q->op[q->n].fec=0; q->op[q->n].reset=0; q->n++; }
   q->op[q->n].d=NULL; q->op[q->n].len=0; q->op[q->n].plc=1; q->op[q->n].fec=0; q->op[q->n].reset=0; q->n++;      /* one concealed frame */
   if(st->fec && st->n>=2){ cpkt *p=&CO.p[st->first+st->n-1]; q->op[q->n].d=p->data; q->op[q->n].len=p->len; q->op[q->n].plc=0; q->op[q->n].fec=1; q->op[q->n].reset=0; q->n++; }  /* LBRR decode of the last packet */
   /* OPUS_RESET_STATE in mid-stream (twin and gained decoders alike), then the first packets again: the gain must still be applied */
   memset(&q->op[q->n],0,sizeof(op_t)); q->op[q->n].reset=1; q->n++;
   for(i=0;i<st->n&&i<2&&q->n<MAXOP-4;i++){ cpkt *p=&CO.p[st->first+i]; memset(&q->op[q->n],0,sizeof(op_t)); q->op[q->n].d=p->data; q->op[q->n].len=p->len; q->n++; }
   /* splices without a redundancy frame, both directions across the CELT-only boundary: a mid-stream CELT-only packet of another stream,
      this stream's first packet, a mid-stream SILK-only packet of another stream, this stream's first packet (the transition cross-fade
      of opus_decode_frame conceals with the OLD mode first: the gain must not be applied to that audio twice) */
   if(with_derived&&SPL[0]>=0&&SPL[1]>=0&&st->n>0){ int k2;   /* alphabet mode only: the all-gains sweep keeps its sequences short */ for(k2=0;k2<2;k2++){ cpkt *p=&CO.p[SPL[k2]], *p0=&CO.p[st->first];
      memset(&q->op[q->n],0,sizeof(op_t)); q->op[q->n].d=p->data; q->op[q->n].len=p->len; q->n++;
      memset(&q->op[q->n],0,sizeof(op_t)); q->op[q->n].d=p0->data; q->op[q->n].len=p0->len; q->n++; } }
   if(with_derived) for(i=0;i<CO.n&&q->n<MAXOP;i++) if(CO.p[i].stream==s&&CO.p[i].kind!=0){ q->op[q->n].d=CO.p[i].data; q->op[q->n].len=CO.p[i].len; q->op[q->n].plc=0; q->op[q->n].fec=0; q->op[q->n].reset=0; q->n++; }
}
/* one decoded sequence in one sample format */
typedef struct { int ret[MAXOP]; opus_uint32 rng[MAXOP]; int dur[MAXOP]; float *f[MAXOP]; opus_int16 *s[MAXOP]; opus_int32 *t[MAXOP]; } dec_out;
static void out_free(dec_out *o,int n){ int i; for(i=0;i<n;i++){ free(o->f[i]); free(o->s[i]); free(o->t[i]); o->f[i]=NULL; o->s[i]=NULL; o->t[i]=NULL; } }
/* fmt 0 float, 1 int16, 2 int24. gains[op]: gain in force for that op (set before the op when it differs from the previous). */
static int run_dec(const seq_t *q,int fs,int ch,int fmt,const int *gains,dec_out *o,const char *what){
   int err,i,prev=0,maxf=fs/25*3,lastdur=fs/50; OpusDecoder *d=opus_decoder_create(fs,ch,&err);
   memset(o,0,sizeof *o);
   if(!d){ mc_fail("gain:decoder_create","fs=%d ch=%d err=%d",fs,ch,err); return 0; }
   for(i=0;i<q->n;i++){ const op_t *op=&q->op[i]; int fsz= op->plc? lastdur : op->fec? lastdur : maxf, r=0, gg=-99999; size_t n=(size_t)fsz*ch;
      if(gains[i]!=prev || i==0){ int e=opus_decoder_ctl(d,OPUS_SET_GAIN(gains[i])); opus_decoder_ctl(d,OPUS_GET_GAIN(&gg));
         if(e!=OPUS_OK||gg!=gains[i]) mc_fail("gain:ctl_rejected_or_readback","%s: OPUS_SET_GAIN(%d) returned %d, OPUS_GET_GAIN reads %d",what,gains[i],e,gg);
         prev=gains[i]; }
      if(op->reset){ int e=opus_decoder_ctl(d,OPUS_RESET_STATE), g2=-99999; opus_decoder_ctl(d,OPUS_GET_GAIN(&g2));
         if(e!=OPUS_OK||g2!=gains[i]) mc_fail("gain:reset_state_changed_gain_setting","%s op %d: OPUS_RESET_STATE returned %d, OPUS_GET_GAIN then reads %d (gain in force %d)",what,i,e,g2,gains[i]);
         o->ret[i]=0; opus_decoder_ctl(d,OPUS_GET_FINAL_RANGE(&o->rng[i])); opus_decoder_ctl(d,OPUS_GET_LAST_PACKET_DURATION(&o->dur[i])); lastdur=fs/50; MC_INC(c_trans); continue; }
      mc_case(fmt==0?"gain_decode_float":fmt==1?"gain_decode16":"gain_decode24","%s op %d gain %d len %d plc %d fec %d",what,i,gains[i],op->len,op->plc,op->fec);
      /* exact-size output blocks */
      if(fmt==0){ o->f[i]=malloc(sizeof(float)*n); r=opus_decode_float(d,op->d,op->len,o->f[i],fsz,op->fec); }
      else if(fmt==1){ o->s[i]=malloc(sizeof(opus_int16)*n); r=opus_decode(d,op->d,op->len,o->s[i],fsz,op->fec); }
      else { o->t[i]=malloc(sizeof(opus_int32)*n); r=opus_decode24(d,op->d,op->len,o->t[i],fsz,op->fec); }
      o->ret[i]=r; opus_decoder_ctl(d,OPUS_GET_FINAL_RANGE(&o->rng[i])); opus_decoder_ctl(d,OPUS_GET_LAST_PACKET_DURATION(&o->dur[i]));
      if(r>0) lastdur=r;
      MC_INC(c_trans);
   }
   { /* "state" = one decoder history: (stream, format, rate, channels, gain plan, trace of return values and final ranges) */
      uint64_t h=mc_hash(o->rng,sizeof(opus_uint32)*q->n,fmt); h=mc_mix(h,mc_hash(o->ret,sizeof(int)*q->n,fs+ch)); h=mc_mix(h,mc_hash(gains,sizeof(int)*q->n,7)); mc_set_add(S_states,mc_mix(h,q->stream)); }
   opus_decoder_destroy(d); return 1;
}
static float ulp_step(float v,int k){ while(k>0){ v=nextafterf(v,INFINITY); k--; } while(k<0){ v=nextafterf(v,-INFINITY); k++; } return v; }
static int fits(const float *a,const float *b,int n,float G){ int j; for(j=0;j<n;j++){ volatile float p=a[j]*G; if(!(p==b[j])) return 0; } return 1; }

static int is_transition_op(const seq_t *q,int i){ int p;
   if(!q->op[i].d||q->op[i].len<1) return 0;
   for(p=i-1;p>=0;p--) if(q->op[p].d&&q->op[p].len>=1) return ((q->op[p].d[0]&0x80)!=0)!=((q->op[i].d[0]&0x80)!=0);
   return 0; }
static int cmp_idx_b(const void *x,const void *y);
static const float *g_sortb;
static int cmp_idx_b(const void *x,const void *y){ float a=g_sortb[*(const int*)x], b=g_sortb[*(const int*)y]; return (a>b)-(a<b); }

/* all checks of one gained run (float/16/24 outputs og) against the twin o0 */
static void check_run(const seq_t *q,int fs,int ch,const int *gains,const dec_out *a0,const dec_out *bf,const dec_out *b16,const dec_out *b24,const char *what){
   int i,j,k; int dg[8],ndg=0; static int sample_budget=2;
   /* --- count / range / timing, per op and per format */
   for(i=0;i<q->n;i++){ const dec_out *o[3]={bf,b16,b24}; static const char *fn[3]={"opus_decode_float","opus_decode","opus_decode24"}; int f;
      MC_INC(c_eval);
      for(f=0;f<3;f++){
         if(o[f]->ret[i]!=a0->ret[i]) mc_fail("gain:sample_count_changed","%s op %d gain %d: %s returns %d, twin without gain %d",what,i,gains[i],fn[f],o[f]->ret[i],a0->ret[i]);
         if(o[f]->rng[i]!=a0->rng[i]) mc_fail("gain:final_range_changed","%s op %d gain %d: %s final range %08x, twin %08x",what,i,gains[i],fn[f],o[f]->rng[i],a0->rng[i]);
         if(o[f]->dur[i]!=a0->dur[i]) mc_fail("gain:last_packet_duration_changed","%s op %d gain %d: %s last_packet_duration %d, twin %d",what,i,gains[i],fn[f],o[f]->dur[i],a0->dur[i]); }
      for(k=0;k<ndg;k++) if(dg[k]==gains[i]) break; if(k==ndg&&ndg<8) dg[ndg++]=gains[i];
   }
   /* --- float: one G per distinct gain value */
   for(k=0;k<ndg;k++){ int g=dg[k], found=0, tfound=0, c, nonvac=0; float G=0, tG=0, cand[9]; long tmis=0; int ncand=0; double ex=pow(10.0,g/5120.0);
      for(i=0;i<q->n;i++){ int n; if(gains[i]!=g||a0->ret[i]<=0||bf->ret[i]!=a0->ret[i]) continue; n=a0->ret[i]*ch;
         for(j=0;j<n;j++) if(!isfinite(bf->f[i][j])){ mc_fail("gain:float_nonfinite","%s op %d gain %d sample %d: %g (twin %g)",what,i,g,j,bf->f[i][j],a0->f[i][j]); break; }
         if(g==0){ if(memcmp(a0->f[i],bf->f[i],sizeof(float)*n)) mc_fail("gain:zero_gain_twin_differs","%s op %d: gain 0 output differs from the untouched twin",what,i); continue; }
         if(!ncand){ int jm=-1; float am=0; for(j=0;j<n;j++) if(fabsf(a0->f[i][j])>am){ am=fabsf(a0->f[i][j]); jm=j; }
            if(jm>=0){ float g0=bf->f[i][jm]/a0->f[i][jm]; for(c=-4;c<=4;c++) cand[ncand++]=ulp_step(g0,c); } }
      }
      if(g==0) continue;
      for(c=0;c<ncand&&!found;c++){ int ok=1,conf=1; long mis=0;
         for(i=0;i<q->n&&conf;i++){ int n,tr,w; if(gains[i]!=g||a0->ret[i]<=0||bf->ret[i]!=a0->ret[i]) continue; n=a0->ret[i]*ch;
            if(fits(a0->f[i],bf->f[i],n,cand[c])) continue;
            ok=0; tr=is_transition_op(q,i); w=fs/200*ch;            /* first 5 ms of a packet whose mode class (CELT-only / not) differs from the previous packet's */
            for(j=0;j<n;j++){ volatile float p=a0->f[i][j]*cand[c]; if(!(p==bf->f[i][j])){ mis++; if(!tr||j>=w){ conf=0; break; } } } }
         if(ok){ found=1; G=cand[c]; }
         else if(conf&&mis>0&&!tfound){ tfound=1; tG=cand[c]; tmis=mis; } }
      if(!found&&tfound){ int bi=-1,bj=-1;
         for(i=0;i<q->n&&bi<0;i++){ if(gains[i]!=g||a0->ret[i]<=0||bf->ret[i]!=a0->ret[i]) continue; for(j=0;j<a0->ret[i]*ch;j++){ volatile float p=a0->f[i][j]*tG; if(!(p==bf->f[i][j])){ bi=i; bj=j; break; } } }
         MC_INC(c_twice); if(bi<CO.s[q->stream].n) MC_INC(c_twice_inorder);
         mc_fail("gain:applied_twice_in_mode_transition_crossfade","%s gain %d: G=%.9g reproduces every sample except %ld samples, all inside the first 5 ms of packets that switch between CELT-only and SILK/hybrid without redundancy (transition cross-fade); first: op %d (toc %02x) sample %d: twin %.9g, gained %.9g, ratio %.9g (G^2=%.9g)",what,g,tG,tmis,bi,q->op[bi].d?q->op[bi].d[0]:0,bj,a0->f[bi][bj],bf->f[bi][bj],bf->f[bi][bj]/a0->f[bi][bj],tG*tG);
         found=1; G=tG; }
      if(!ncand){ /* every twin sample is 0: the gained output must be 0 too */
         for(i=0;i<q->n;i++){ int n; if(gains[i]!=g||a0->ret[i]<=0||bf->ret[i]!=a0->ret[i]) continue; n=a0->ret[i]*ch; for(j=0;j<n;j++) if(bf->f[i][j]!=0.f){ mc_fail("gain:float_not_single_constant_multiple","%s op %d gain %d: twin is all-zero but sample %d = %g",what,i,g,j,bf->f[i][j]); break; } }
         MC_INC(c_vac); continue; }
      nonvac=1;
      if(!found){ /* describe the first misfit with the central candidate */
         int bi=-1,bj=-1; for(i=0;i<q->n&&bi<0;i++){ if(gains[i]!=g||a0->ret[i]<=0||bf->ret[i]!=a0->ret[i]) continue; for(j=0;j<a0->ret[i]*ch;j++){ volatile float p=a0->f[i][j]*cand[4]; if(!(p==bf->f[i][j])){ bi=i; bj=j; break; } } }
         mc_fail("gain:float_not_single_constant_multiple","%s gain %d: no single float G (tried %.9g +-4 ulp) reproduces every sample; first misfit op %d sample %d: twin %.9g, gained %.9g, ratio %.9g",what,g,cand[4],bi,bj,bi>=0?a0->f[bi][bj]:0.f,bi>=0?bf->f[bi][bj]:0.f,bi>=0?bf->f[bi][bj]/a0->f[bi][bj]:0.f);
      } else { double rel=fabs(G/ex-1.0); MC_MAX(c_worstG,(long)(rel*1e9));
         if(!(rel<TOL_PPB*1e-9)) mc_fail("gain:float_factor_off_10pow_g_5120","%s gain %d: every sample is scaled by G=%.9g but 10^(g/5120)=%.9g (relative error %.3g >= 1e-4)",what,g,G,ex,rel);
         if(sample_budget>0&&abs(g)>1){ sample_budget--; mc_sample("%s gain %d: G=%.9g (10^(g/5120)=%.9g, rel %.2g) fits every sample of %d decode calls exactly; counts/ranges/durations equal the twin's",what,g,G,ex,rel,q->n); } }
      (void)nonvac;
   }
   /* --- integer outputs against the gained float signal b */
   { int ever_out=0;
     for(i=0;i<q->n;i++){ int n=a0->ret[i]*ch, in=1; const float *b; if(q->op[i].reset) continue; if(a0->ret[i]<=0||bf->ret[i]!=a0->ret[i]||b16->ret[i]!=a0->ret[i]||b24->ret[i]!=a0->ret[i]){ ever_out=1; continue; }
      b=bf->f[i]; MC_ADD(c_samples,n);
      for(j=0;j<n;j++) if(!(fabsf(b[j])<=1.f)){ in=0; break; }
      /* 16-bit (this path soft-clips coded frames and hard-clips concealed ones) */
      if(!in) ever_out=1;
      for(j=0;j<n;j++){ float v=b[j]; int s=b16->s[i][j];
         if(v>=1.f||v<=-1.f){ int as=s<0?-s:s; if(v>=2.f||v<=-2.f){ MC_INC(c_sat16); if(s==(v>0?32767:-32768)) MC_INC(c_sat16lim); }
            MC_MAX(c_min16,32768-as);
            if((v>0&&s<8192)||(v<0&&s>-8192)) mc_fail("gain:decode16_sign_or_wrap","%s op %d gain %d sample %d: gained float %.9g (beyond full scale), opus_decode gives %d",what,i,gains[i],j,v,s); }
         else if(fabsf(v)>=0.0009765625f){ if((v>0&&s<0)||(v<0&&s>0)) mc_fail("gain:decode16_sign_or_wrap","%s op %d gain %d sample %d: gained float %.9g, opus_decode gives %d (opposite sign)",what,i,gains[i],j,v,s); }
         if(!ever_out){ float e=v*32768.f; long r; if(e>32767.f) e=32767.f; if(e<-32768.f) e=-32768.f; r=lrintf(e);
            if(labs(r-s)>1) mc_fail("gain:decode16_not_scaled_signal","%s op %d gain %d sample %d: every sample since the decoder was created is inside [-1,1]: gained float %.9g -> expected %ld, opus_decode gives %d",what,i,gains[i],j,v,r,s); } }
      if(!ever_out) MC_INC(c_inr16);
      /* 24-bit: sign, magnitude where representable, monotone */
      { int bad=0; const opus_int32 *t=b24->t[i];
        for(j=0;j<n&&!bad;j++){ float v=b[j], e=8388608.f*v; int big= !(fabsf(e)<2147483520.f);
           if(big) MC_INC(c_big24);
           if((v>0&&t[j]<0)||(v<0&&t[j]>0)){ bad=1; if(big) MC_INC(c_wrap24);
              mc_fail(big?"gain:decode24_wraps":"gain:decode24_sign_or_order","%s op %d gain %d sample %d: gained float %.9g (x2^23 = %.9g%s), opus_decode24 gives %d (opposite sign)",what,i,gains[i],j,v,e,big?", outside int32":"",t[j]); }
           else if(!big){ long r=lrintf(e); if(labs(r-(long)t[j])>1){ bad=1; mc_fail("gain:decode24_not_scaled_signal","%s op %d gain %d sample %d: gained float %.9g -> expected %ld, opus_decode24 gives %d",what,i,gains[i],j,v,r,t[j]); } } }
        if(!bad&&n>1){ int *ix=malloc(sizeof(int)*n); for(j=0;j<n;j++) ix[j]=j; g_sortb=b; qsort(ix,n,sizeof(int),cmp_idx_b);
           for(j=1;j<n;j++) if(t[ix[j]]<t[ix[j-1]] && b[ix[j]]>b[ix[j-1]]){ int big= !(fabsf(8388608.f*b[ix[j]])<2147483520.f)||!(fabsf(8388608.f*b[ix[j-1]])<2147483520.f);
              mc_fail(big?"gain:decode24_wraps":"gain:decode24_sign_or_order","%s op %d gain %d: not monotone: float %.9g -> %d but float %.9g -> %d",what,i,gains[i],b[ix[j-1]],t[ix[j-1]],b[ix[j]],t[ix[j]]); break; }
           free(ix); } }
      { /* observation class: (decoder rate, channels, count, PLC/FEC/coded + TOC config, signal inside [-1,1]?, gain class: sign (alphabet mode) or the gain itself (allgains mode)); only counted when the twin frame is not all-zero */
        int nz=0; for(j=0;j<n;j++) if(a0->f[i][j]!=0.f){ nz=1; break; }
        if(nz&&gains[i]!=0){ uint64_t h=mc_mix(mc_mix(a0->ret[i],q->op[i].plc*2+q->op[i].fec),mc_mix(in,OBS_GAIN_EXACT?gains[i]+40000:(gains[i]>0?1:2))); h=mc_mix(h,mc_mix(fs,ch)); if(q->op[i].d) h=mc_mix(h,q->op[i].d[0]>>3);
           mc_set_add(S_obs,h); } }
   } }
   MC_INC(c_runs);
}
/* one (sequence, decoder config): twin, then every run in the gain plan */
static void do_config(const seq_t *q,int fs,int ch,const int (*plan)[2],int nplan,int switch_at,const char *tag){
   dec_out a0,a16,a24,bf,b16,b24; int gains[MAXOP],i,r; char what[200]; int zero[MAXOP]; cstream *st=&CO.s[q->stream];
   memset(zero,0,sizeof zero);
   snprintf(what,sizeof what,"%s stream %d '%s' dec %dHz/%dch",tag,q->stream,st->name,fs,ch);
   if(!run_dec(q,fs,ch,0,zero,&a0,what)) return;
   for(r=0;r<nplan;r++){ char w2[260];
      for(i=0;i<q->n;i++) gains[i]= i<switch_at? plan[r][0] : plan[r][1];
      if(plan[r][0]==plan[r][1]) for(i=0;i<q->n;i++) gains[i]=plan[r][0];
      snprintf(w2,sizeof w2,"%s gains %d->%d@op%d",what,plan[r][0],plan[r][1],plan[r][0]==plan[r][1]?0:switch_at);
      run_dec(q,fs,ch,0,gains,&bf,w2); run_dec(q,fs,ch,1,gains,&b16,w2); run_dec(q,fs,ch,2,gains,&b24,w2);
      check_run(q,fs,ch,gains,&a0,&bf,&b16,&b24,w2);
      out_free(&bf,q->n); out_free(&b16,q->n); out_free(&b24,q->n); }
   (void)a16; (void)a24;
   out_free(&a0,q->n);
}

/* ------------------------------------------------------------------ modes */
static int AG_S[4], nAG; static int AG_BLK=32;
static void item_allgains(long it,void *ctx){ int g0=(int)it*AG_BLK-32768, g, s; (void)ctx;
   for(s=0;s<nAG;s++){ seq_t q; int plan[64][2]; mk_seq(&q,AG_S[s],0);
      for(g=0;g<AG_BLK;g++){ plan[g][0]=plan[g][1]=g0+g; }
      do_config(&q,CO.s[AG_S[s]].fs,CO.s[AG_S[s]].ch,plan,AG_BLK,0,"allgains"); }
}
static int ALPHA[32], nALPHA; static int FSD[5]={48000,8000,16000,12000,24000}, nFSD=5, CHD=2; static int (*PLAN)[2]; static int nPLAN;
static void item_alpha(long it,void *ctx){ int s=(int)(it/(nFSD*CHD)), fi=(int)(it/CHD%nFSD), ch=(int)(it%CHD)+1; seq_t q; (void)ctx;
   if(CHD==1) ch=CO.s[s].ch;
   mk_seq(&q,s,1);
   do_config(&q,FSD[fi],ch,PLAN,nPLAN,2,"alphabet");
}

int main(int argc,char **argv){
   const char *mode; int i; mc_ctr *st,*dn;
   mc_init(argc,argv,"C19","gain");
   mode=mc_arg_s("--mode","alphabet"); MC.part=mc_arg_s("--name",mode);
   c_eval=mc_counter("evaluations"); c_trans=mc_counter("transitions"); st=mc_counter("states"); dn=mc_counter("distinct_nontrivial");
   c_samples=mc_counter("samples_compared"); c_worstG=mc_counter("worst_rel_error_of_G_x1e9"); c_sat16=mc_counter("samples_16bit_beyond_pm2"); c_sat16lim=mc_counter("of_which_exactly_at_int16_limit"); c_min16=mc_counter("32768_minus_min_abs_16bit_for_overrange");
   c_big24=mc_counter("samples_24bit_outside_int32"); c_wrap24=mc_counter("samples_24bit_wrapped"); c_vac=mc_counter("all_zero_twin_runs"); c_inr16=mc_counter("frames_16bit_exact_scaling_checked"); c_runs=mc_counter("gained_runs"); c_twice=mc_counter("runs_with_gain_applied_twice_in_transition"); c_twice_inorder=mc_counter("twice_cases_in_encoder_ordered_part");
   S_states=mc_set_new(22); S_obs=mc_set_new(22);
   TOL_PPB=(int)mc_arg("--tol-ppb",100000);
   if(!strcmp(mode,"allgains")){
      int nstreams=(int)mc_arg("--streams",MC.tier?3:2);
      memset(&CO,0,sizeof CO);
      { ccfg k={REF_MODE_CELT_ONLY,BWF,100,0,96000}; AG_S[0]=corpus_stream(&CO,"celt fb 10ms stereo full-scale square",48000,2,OPUS_APPLICATION_AUDIO,SIG_SQUARE,&k,5,NULL,0,0,0,0,2); }
      { ccfg k={REF_MODE_SILK_ONLY,BWW,200,0,24000};  AG_S[1]=corpus_stream(&CO,"silk wb 20ms mono speech",16000,1,OPUS_APPLICATION_VOIP,SIG_SPEECH,&k,5,NULL,0,0,0,0,2); }
      { ccfg k={REF_MODE_HYBRID,BWF,200,0,48000};     AG_S[2]=corpus_stream(&CO,"hybrid fb 20ms stereo speech",48000,2,OPUS_APPLICATION_VOIP,SIG_SPEECH,&k,5,NULL,0,0,0,0,2); }
      find_splices(); OBS_GAIN_EXACT=1; nAG=nstreams>3?3:nstreams; AG_BLK=(int)mc_arg("--blk",32);
      mc_info("allgains: every gain -32768..32767 x %d streams (3 coded packets + 1 concealed frame each) x {float,16-bit,24-bit} twin comparison; %d gains per item",nAG,AG_BLK);
      mc_par(65536/AG_BLK,item_allgains,NULL);
   } else {
      static const int A7[]={-32768,-3000,-1,1,256,3000,32767}, AX[]={-20000,-10000,-5120,-256,2,5120,10000,13256,13257,20000}; int n=0,j,lvl=(int)mc_arg("--level",MC.tier?1:0);
      nALPHA=0; for(i=0;i<7;i++) ALPHA[nALPHA++]=A7[i]; if(mc_arg("--wide",MC.tier?1:0)) for(i=0;i<10;i++) ALPHA[nALPHA++]=AX[i];
      nFSD=(int)mc_arg("--nfs",5); CHD=(int)mc_arg("--chd",2);
      corpus_build(&CO,lvl); corpus_add_reframed(&CO); find_splices();
      PLAN=malloc(sizeof(int[2])*(4*nALPHA+8));
      for(i=0;i<nALPHA;i++){ PLAN[n][0]=PLAN[n][1]=ALPHA[i]; n++; }
      PLAN[n][0]=PLAN[n][1]=0; n++;                                                   /* explicit OPUS_SET_GAIN(0) */
      for(i=0;i<nALPHA;i++){ PLAN[n][0]=0; PLAN[n][1]=ALPHA[i]; n++; PLAN[n][0]=ALPHA[i]; PLAN[n][1]=0; n++; }   /* switched on / off in mid-stream */
      for(j=0;j<nALPHA;j++){ PLAN[n][0]=ALPHA[j]; PLAN[n][1]=ALPHA[(j+3)%nALPHA]; n++; }                          /* changed in mid-stream */
      nPLAN=n;
      mc_info("alphabet: %d streams (%d packets incl. re-framed/padded/extension-bearing) x %d decoder rates x %d channel counts x %d gain plans (%d constant gains, on/off/change at op 2) x {float,16,24}",CO.ns,CO.n,nFSD,CHD,nPLAN,nALPHA+1);
      mc_par((long)CO.ns*nFSD*CHD,item_alpha,NULL);
   }
   *st=mc_set_count(S_states); *dn=mc_set_count(S_obs);
   return mc_finish();
}
