/* C19 (second half, multistream / projection) — OPUS_SET_GAIN(g) on an OpusMSDecoder / OpusProjectionDecoder multiplies the decoded
 * signal by 10^(g/5120) and does nothing else.
 *
 * Packet streams come from the FROZEN multistream / projection encoders (ref_ build).  For every (layout, mapping variant, mode,
 * signal level, decoder rate) a twin decoder without gain is run through the op sequence
 *       packets 0..np-1, one concealed frame (NULL), OPUS_RESET_STATE, packet np-1 again, packet 0 again
 * and, for every gain plan (constant gains, gain switched on / off / changed before op 2), a float, a 16-bit and a 24-bit decoder with
 * the plan applied through opus_multistream_decoder_ctl / opus_projection_decoder_ctl.
 * Oracle per decode call (statement only):
 *   - OPUS_SET_GAIN accepted and OPUS_GET_GAIN reads g back; out-of-range gains (-32769, 32768) are rejected and change nothing;
 *   - sample count, OPUS_GET_FINAL_RANGE and OPUS_GET_LAST_PACKET_DURATION equal the twin's;
 *   - multistream float: ONE float G per gain, |G/10^(g/5120)-1| < 1e-4, such that every sample of every channel equals (float)(twin*G)
 *     exactly (every stream decoder receives the same gain, the mapping only copies); g==0: bit-identical; channels mapped to 255 stay 0;
 *   - projection float: out = D*(G*streams); the matrix products round, so |b - G*a| <= 4e-6*G*max|a over the frame| + 1e-30
 *     (calibrated, see --tol) with G = (float)10^(g/5120)-candidate fitted on the largest sample;
 *   - 16-bit: for |b| >= 1 (b = gained float output) the sample has the same sign and magnitude >= 8192 (saturates / soft-clips, never
 *     wraps); |b| >= 2^-10 => sign never opposite; while every sample since creation is inside [-1,1]: |s - round(32768 b)| <= 1 (+1 for
 *     the projection mixer's own rounding);
 *   - 24-bit: sign never opposite to b; where |2^23 b| < 2^31-128: |t - round(2^23 b)| <= 1 (projection: <= 1 + 2^23*tol).
 */
#include <stdlib.h>
#include <string.h>
#include <stdio.h>
#include <math.h>
#include "opus.h"
#include "opus_multistream.h"
#include "opus_projection.h"
#include "mc.h"
#include "signals.h"
#include "ref_api.h"

#define MAXP 10
#define MAXOP 16
typedef struct { char name[160]; int S,Cp,nsc,np,fsz48; unsigned char *pk[MAXP]; int len[MAXP]; int proj,nsc_in; unsigned char matrix[512]; int msz; } msstream;
static msstream *MS; static int NMS;
static const double NATPK[SIG_NFAM]={1,1,1,1,1,1,1,1,1};
static mc_ctr *c_eval,*c_trans,*c_samples,*c_worstG,*c_sat16,*c_big24,*c_runs,*c_projerr,*c_inr16,*c_vac,*c_rej,*c_pmodel,*c_pwide;
static mc_set *S_states,*S_obs;
static double PROJ_TOL=4e-6;

static void build_ms(int S,int Cp,const char *mname,int mode,int bw,int dur_x10,int brch,int app,int sig,double peak,int np){
   msstream *m=&MS[NMS++]; int nsc=S+Cp,err,i,j,c,fsz=(int)(48000L*dur_x10/10000); unsigned char map[8]; OpusMSEncoder *e; siggen g; short *w; float *xf; unsigned char out[8000];
   memset(m,0,sizeof *m); m->S=S; m->Cp=Cp; m->nsc=nsc; m->fsz48=fsz;
   snprintf(m->name,sizeof m->name,"ms{%d streams,%d coupled} %s %s peak %.2f",S,Cp,mname,sig_name[sig],peak);
   for(i=0;i<nsc;i++) map[i]=i;
   e=ref_opus_multistream_encoder_create(48000,nsc,S,Cp,map,app,&err); if(!e){ fprintf(stderr,"msgain corpus: create failed %d\n",err); exit(2); }
   ref_opus_multistream_encoder_ctl(e,OPUS_SET_FORCE_MODE(mode)); ref_opus_multistream_encoder_ctl(e,OPUS_SET_BANDWIDTH(bw)); ref_opus_multistream_encoder_ctl(e,OPUS_SET_BITRATE(brch*nsc));
   sig_init(&g,sig,48000,1,(uint32_t)(NMS*7+1)); w=malloc(sizeof(short)*fsz); xf=malloc(sizeof(float)*fsz*nsc);
   for(i=0;i<np+1;i++){ int n;
      sig_gen(&g,w,fsz);
      for(j=0;j<fsz;j++) for(c=0;c<nsc;c++){ double gain=peak/NATPK[sig]; if(c%3==2) gain=-gain*0.5; xf[j*nsc+c]=(float)(w[j]/32768.0*gain); }
      n=ref_opus_multistream_encode_float(e,xf,fsz,out,sizeof out);
      if(n<0){ fprintf(stderr,"msgain corpus: encode failed %d (%s)\n",n,m->name); exit(2); }
      if(i>=1){ m->pk[m->np]=malloc(n); memcpy(m->pk[m->np],out,n); m->len[m->np]=n; m->np++; }
   }
   free(w); free(xf); ref_opus_multistream_encoder_destroy(e);
}
static void build_proj(int channels,int sig,double peak,int np){
   msstream *m=&MS[NMS++]; int S=0,Cp=0,err,i,j,c,fsz=960,msz=0; OpusProjectionEncoder *e; siggen g; short *w,*x; unsigned char out[16000];
   memset(m,0,sizeof *m);
   e=ref_opus_projection_ambisonics_encoder_create(48000,channels,3,&S,&Cp,OPUS_APPLICATION_AUDIO,&err); if(!e){ fprintf(stderr,"msgain proj corpus: create failed %d\n",err); exit(2); }
   m->S=S; m->Cp=Cp; m->nsc=channels; m->nsc_in=S+Cp; m->proj=1; m->fsz48=fsz;
   ref_opus_projection_encoder_ctl(e,OPUS_SET_BITRATE(64000*channels));
   ref_opus_projection_encoder_ctl(e,OPUS_PROJECTION_GET_DEMIXING_MATRIX_SIZE(&msz));
   if(msz<=0||msz>(int)sizeof m->matrix){ fprintf(stderr,"msgain proj corpus: matrix size %d\n",msz); exit(2); }
   ref_opus_projection_encoder_ctl(e,OPUS_PROJECTION_GET_DEMIXING_MATRIX(m->matrix,msz)); m->msz=msz;
   snprintf(m->name,sizeof m->name,"projection{%d ch: %d streams,%d coupled} celt 20ms %s peak %.2f",channels,S,Cp,sig_name[sig],peak);
   sig_init(&g,sig,48000,1,(uint32_t)(NMS*7+1)); w=malloc(sizeof(short)*fsz); x=malloc(sizeof(short)*fsz*channels);
   for(i=0;i<np+1;i++){ int n;
      sig_gen(&g,w,fsz);
      for(j=0;j<fsz;j++) for(c=0;c<channels;c++){ double v=w[j]*peak/NATPK[sig]*(c==0?1.0:(c==1?0.7:(c==2?-0.5:0.3))); x[j*channels+c]=(short)sig_clip16(v); }
      n=ref_opus_projection_encode(e,x,fsz,out,sizeof out);
      if(n<0){ fprintf(stderr,"msgain proj corpus: encode failed %d\n",n); exit(2); }
      if(i>=1){ m->pk[m->np]=malloc(n); memcpy(m->pk[m->np],out,n); m->len[m->np]=n; m->np++; }
   }
   free(w); free(x); ref_opus_projection_encoder_destroy(e);
}

/* ------------------------------------------------------------------ decoders */
typedef struct { int proj; OpusMSDecoder *ms; OpusProjectionDecoder *pj; } anydec;
static int mk(anydec *d,const msstream *m,int fs,int v,int *nch_out,unsigned char *map){
   int err=0,i,nch; memset(d,0,sizeof *d); d->proj=m->proj&&v!=2;
   if(v==2){ nch=m->nsc_in; for(i=0;i<nch;i++) map[i]=i; d->ms=opus_multistream_decoder_create(fs,nch,m->S,m->Cp,map,&err); *nch_out=nch; return d->ms!=NULL; }
   if(m->proj){ nch=m->nsc; d->pj=opus_projection_decoder_create(fs,nch,m->S,m->Cp,(unsigned char*)m->matrix,m->msz,&err); *nch_out=nch; return d->pj!=NULL; }
   if(v==0){ nch=m->nsc; for(i=0;i<nch;i++) map[i]=i; }
   else { nch=m->nsc+2; map[0]=0; map[1]=0; map[2]=255; for(i=3;i<nch;i++) map[i]=m->nsc-1-(i-3); }
   d->ms=opus_multistream_decoder_create(fs,nch,m->S,m->Cp,map,&err); *nch_out=nch; return d->ms!=NULL;
}
static void unmk(anydec *d){ if(d->ms) opus_multistream_decoder_destroy(d->ms); if(d->pj) opus_projection_decoder_destroy(d->pj); d->ms=NULL; d->pj=NULL; }
#define DCTL(d,req) ((d)->proj? opus_projection_decoder_ctl((d)->pj,req) : opus_multistream_decoder_ctl((d)->ms,req))

typedef struct { const unsigned char *d; int len; int plc; int reset; } op_t;
typedef struct { int ret[MAXOP]; opus_uint32 rng[MAXOP]; int dur[MAXOP]; float *f[MAXOP]; opus_int16 *s[MAXOP]; opus_int32 *t[MAXOP]; } dec_out;
static void out_free(dec_out *o,int n){ int i; for(i=0;i<n;i++){ free(o->f[i]); free(o->s[i]); free(o->t[i]); o->f[i]=NULL; o->s[i]=NULL; o->t[i]=NULL; } }

static int run_dec(const msstream *m,const op_t *op,int nop,int fs,int v,int fmt,const int *gains,dec_out *o,int *nch_out,const char *what){
   anydec d; int i,prev=0,nch,lastdur=fs/50,maxf=fs/25*3; unsigned char map[16];
   memset(o,0,sizeof *o);
   if(!mk(&d,m,fs,v,&nch,map)){ mc_fail("msgain:decoder_create","%s fs=%d",what,fs); return 0; }
   *nch_out=nch;
   for(i=0;i<nop;i++){ int fsz= op[i].plc? lastdur : maxf, r=0, gg=-99999; size_t n=(size_t)fsz*nch;
      if(gains[i]!=prev||i==0){ int e=DCTL(&d,OPUS_SET_GAIN(gains[i])), e2, e3; DCTL(&d,OPUS_GET_GAIN(&gg));
         if(e!=OPUS_OK||gg!=gains[i]) mc_fail(m->proj?"msgain:proj_ctl_rejected_or_readback":"msgain:ms_ctl_rejected_or_readback","%s: OPUS_SET_GAIN(%d) returned %d, OPUS_GET_GAIN reads %d",what,gains[i],e,gg);
         e2=DCTL(&d,OPUS_SET_GAIN(32768)); e3=DCTL(&d,OPUS_SET_GAIN(-32769)); gg=-99999; DCTL(&d,OPUS_GET_GAIN(&gg)); MC_INC(c_rej);
         if(e2!=OPUS_BAD_ARG||e3!=OPUS_BAD_ARG||gg!=gains[i]) mc_fail("msgain:out_of_range_gain_not_rejected_cleanly","%s: OPUS_SET_GAIN(32768) -> %d, OPUS_SET_GAIN(-32769) -> %d, OPUS_GET_GAIN then reads %d (set %d)",what,e2,e3,gg,gains[i]);
         prev=gains[i]; }
      if(op[i].reset){ int e=DCTL(&d,OPUS_RESET_STATE), g2=-99999; DCTL(&d,OPUS_GET_GAIN(&g2));
         if(e!=OPUS_OK||g2!=gains[i]) mc_fail("msgain:reset_state_changed_gain_setting","%s op %d: OPUS_RESET_STATE returned %d, OPUS_GET_GAIN then reads %d (gain in force %d)",what,i,e,g2,gains[i]);
         o->ret[i]=0; lastdur=fs/50; MC_INC(c_trans); continue; }
      mc_case(fmt==0?"msgain_decode_float":fmt==1?"msgain_decode16":"msgain_decode24","%s op %d gain %d len %d plc %d",what,i,gains[i],op[i].len,op[i].plc);
      if(fmt==0){ o->f[i]=malloc(sizeof(float)*n); r= d.proj? opus_projection_decode_float(d.pj,op[i].d,op[i].len,o->f[i],fsz,0) : opus_multistream_decode_float(d.ms,op[i].d,op[i].len,o->f[i],fsz,0); }
      else if(fmt==1){ o->s[i]=malloc(sizeof(opus_int16)*n); r= d.proj? opus_projection_decode(d.pj,op[i].d,op[i].len,o->s[i],fsz,0) : opus_multistream_decode(d.ms,op[i].d,op[i].len,o->s[i],fsz,0); }
      else { o->t[i]=malloc(sizeof(opus_int32)*n); r= d.proj? opus_projection_decode24(d.pj,op[i].d,op[i].len,o->t[i],fsz,0) : opus_multistream_decode24(d.ms,op[i].d,op[i].len,o->t[i],fsz,0); }
      o->ret[i]=r; o->rng[i]=0; o->dur[i]=0; DCTL(&d,OPUS_GET_FINAL_RANGE(&o->rng[i])); DCTL(&d,OPUS_GET_LAST_PACKET_DURATION(&o->dur[i]));
      if(r>0) lastdur=r;
      MC_INC(c_trans);
   }
   { uint64_t h=mc_hash(o->rng,sizeof(opus_uint32)*nop,fmt); h=mc_mix(h,mc_hash(o->ret,sizeof(int)*nop,fs+v)); h=mc_mix(h,mc_hash(gains,sizeof(int)*nop,7)); mc_set_add(S_states,mc_mix(h,(uint64_t)(m-MS))); }
   unmk(&d); return 1;
}
static float ulp_step(float v,int k){ while(k>0){ v=nextafterf(v,INFINITY); k--; } while(k<0){ v=nextafterf(v,-INFINITY); k++; } return v; }
static int fits(const float *a,const float *b,int n,float G){ int j; for(j=0;j<n;j++){ volatile float p=a[j]*G; if(!(p==b[j])) return 0; } return 1; }

static void check_run(const msstream *m,const op_t *op,int nop,int fs,int nch,const unsigned char *map255,const int *gains,const dec_out *a0,const dec_out *bf,const dec_out *b16,const dec_out *b24,const char *what){
   int i,j,k,dg[8],ndg=0; static int sample_budget=3; (void)op;
   for(i=0;i<nop;i++){ const dec_out *o[3]={bf,b16,b24}; static const char *fn[3]={"decode_float","decode","decode24"}; int f;
      MC_INC(c_eval);
      for(f=0;f<3;f++){
         if(o[f]->ret[i]!=a0->ret[i]) mc_fail("msgain:sample_count_changed","%s op %d gain %d: %s returns %d, twin without gain %d",what,i,gains[i],fn[f],o[f]->ret[i],a0->ret[i]);
         if(o[f]->rng[i]!=a0->rng[i]) mc_fail("msgain:final_range_changed","%s op %d gain %d: %s final range %08x, twin %08x",what,i,gains[i],fn[f],o[f]->rng[i],a0->rng[i]);
         if(o[f]->dur[i]!=a0->dur[i]) mc_fail("msgain:last_packet_duration_changed","%s op %d gain %d: %s last_packet_duration %d, twin %d",what,i,gains[i],fn[f],o[f]->dur[i],a0->dur[i]); }
      for(k=0;k<ndg;k++) if(dg[k]==gains[i]) break; if(k==ndg&&ndg<8) dg[ndg++]=gains[i];
   }
   for(k=0;k<ndg;k++){ int g=dg[k],c,found=0,ncand=0; float cand[9],G=0; double ex=pow(10.0,g/5120.0);
      for(i=0;i<nop;i++){ int n; if(gains[i]!=g||a0->ret[i]<=0||bf->ret[i]!=a0->ret[i]) continue; n=a0->ret[i]*nch;
         for(j=0;j<n;j++) if(!isfinite(bf->f[i][j])){ mc_fail("msgain:float_nonfinite","%s op %d gain %d sample %d: %g",what,i,g,j,bf->f[i][j]); break; }
         if(g==0){ if(memcmp(a0->f[i],bf->f[i],sizeof(float)*n)) mc_fail("msgain:zero_gain_twin_differs","%s op %d: gain 0 output differs from the untouched twin",what,i); continue; }
         if(map255) for(j=0;j<n;j++) if(map255[j%nch]==255&&bf->f[i][j]!=0.f){ mc_fail("msgain:muted_channel_not_zero","%s op %d gain %d sample %d (channel %d mapped to 255) = %g",what,i,g,j,j%nch,bf->f[i][j]); break; }
         if(!ncand){ int jm=-1; float am=0; for(j=0;j<n;j++) if(fabsf(a0->f[i][j])>am){ am=fabsf(a0->f[i][j]); jm=j; }
            if(jm>=0){ float g0= m->proj? (float)ex : bf->f[i][jm]/a0->f[i][jm]; for(c=-4;c<=4;c++) cand[ncand++]=ulp_step(g0,c); } }
      }
      if(g==0) continue;
      if(!ncand){ for(i=0;i<nop;i++){ int n; if(gains[i]!=g||a0->ret[i]<=0||bf->ret[i]!=a0->ret[i]) continue; n=a0->ret[i]*nch; for(j=0;j<n;j++) if(bf->f[i][j]!=0.f){ mc_fail("msgain:float_not_single_constant_multiple","%s op %d gain %d: twin all-zero but sample %d = %g",what,i,g,j,bf->f[i][j]); break; } } MC_INC(c_vac); continue; }
      if(m->proj) continue;   /* projection: check_proj_model() */
      for(c=0;c<ncand&&!found;c++){ int ok=1; for(i=0;i<nop&&ok;i++){ int n; if(gains[i]!=g||a0->ret[i]<=0||bf->ret[i]!=a0->ret[i]) continue; n=a0->ret[i]*nch; if(!fits(a0->f[i],bf->f[i],n,cand[c])) ok=0; } if(ok){ found=1; G=cand[c]; } }
      if(!found){ int bi=-1,bj=-1; for(i=0;i<nop&&bi<0;i++){ if(gains[i]!=g||a0->ret[i]<=0||bf->ret[i]!=a0->ret[i]) continue; for(j=0;j<a0->ret[i]*nch;j++){ volatile float p=a0->f[i][j]*cand[4]; if(!(p==bf->f[i][j])){ bi=i; bj=j; break; } } }
         mc_fail("msgain:float_not_single_constant_multiple","%s gain %d: no single float G (tried %.9g +-4 ulp) reproduces every sample of every channel; first misfit op %d sample %d (channel %d): twin %.9g, gained %.9g, ratio %.9g",what,g,cand[4],bi,bj,bj>=0?bj%nch:-1,bi>=0?a0->f[bi][bj]:0.f,bi>=0?bf->f[bi][bj]:0.f,bi>=0?bf->f[bi][bj]/a0->f[bi][bj]:0.f);
      } else { double rel=fabs(G/ex-1.0); MC_MAX(c_worstG,(long)(rel*1e9));
         if(!(rel<1e-4)) mc_fail("msgain:float_factor_off_10pow_g_5120","%s gain %d: every sample is scaled by G=%.9g but 10^(g/5120)=%.9g (relative error %.3g >= 1e-4)",what,g,G,ex,rel);
         if(sample_budget>0&&abs(g)>1){ sample_budget--; mc_sample("%s gain %d: G=%.9g (10^(g/5120)=%.9g) fits every sample of every channel of %d decode calls exactly; counts/ranges/durations equal the twin's",what,g,G,ex,nop); } }
   }
   { int ever_out=0; double ptol=0.0, p24=0.0;
     for(i=0;i<nop&&!m->proj;i++){ int n=a0->ret[i]*nch, in=1; const float *b; float am=0; if(op[i].reset) continue; if(a0->ret[i]<=0||bf->ret[i]!=a0->ret[i]||b16->ret[i]!=a0->ret[i]||b24->ret[i]!=a0->ret[i]){ ever_out=1; continue; }
      b=bf->f[i]; MC_ADD(c_samples,n);
      for(j=0;j<n;j++){ if(!(fabsf(b[j])<=1.f)) in=0; if(fabsf(b[j])>am) am=fabsf(b[j]); }
      if(!in) ever_out=1;
      for(j=0;j<n;j++){ float v=b[j]; int s=b16->s[i][j];
         if(v>=1.f||v<=-1.f){ if(v>=2.f||v<=-2.f) MC_INC(c_sat16);
            if((v>0&&s<8192)||(v<0&&s>-8192)) mc_fail(m->proj?"msgain:proj_decode16_sign_or_wrap":"msgain:ms_decode16_sign_or_wrap","%s op %d gain %d sample %d: gained float %.9g (beyond full scale), 16-bit decode gives %d",what,i,gains[i],j,v,s); }
         else if(fabsf(v)>=0.0009765625f){ if((v>0&&s<0)||(v<0&&s>0)) mc_fail(m->proj?"msgain:proj_decode16_sign_or_wrap":"msgain:ms_decode16_sign_or_wrap","%s op %d gain %d sample %d: gained float %.9g, 16-bit decode gives %d (opposite sign)",what,i,gains[i],j,v,s); }
         if(!ever_out){ float e=v*32768.f; long r; if(e>32767.f) e=32767.f; if(e<-32768.f) e=-32768.f; r=lrintf(e);
            if(labs(r-s)>1+(long)ptol) mc_fail("msgain:decode16_not_scaled_signal","%s op %d gain %d sample %d: every sample since creation is inside [-1,1]: gained float %.9g -> expected %ld, 16-bit decode gives %d",what,i,gains[i],j,v,r,s); } }
      if(!ever_out) MC_INC(c_inr16);
      { const opus_int32 *t=b24->t[i];
        for(j=0;j<n;j++){ float v=b[j], e=8388608.f*v; int big= !(fabsf(e)<2147483520.f);
           if(big) MC_INC(c_big24);
           if((v>0&&t[j]<0)||(v<0&&t[j]>0)){ if(fabsf(e)>1.5f+p24*am){ mc_fail(big?"msgain:decode24_wraps":"msgain:decode24_sign","%s op %d gain %d sample %d: gained float %.9g (x2^23 = %.9g), 24-bit decode gives %d (opposite sign)",what,i,gains[i],j,v,e,t[j]); break; } }
           else if(!big){ long r=lrintf(e); if(labs(r-(long)t[j])>1+(long)(p24*am+0.5)){ mc_fail("msgain:decode24_not_scaled_signal","%s op %d gain %d sample %d: gained float %.9g -> expected %ld, 24-bit decode gives %d",what,i,gains[i],j,v,r,t[j]); break; } } } }
      { int nz=0; for(j=0;j<n;j++) if(a0->f[i][j]!=0.f){ nz=1; break; }
        if(nz&&gains[i]!=0){ uint64_t h=mc_mix(mc_mix(a0->ret[i],op[i].plc),mc_mix(in,gains[i]+40000)); h=mc_mix(h,mc_mix(fs,nch)); h=mc_mix(h,m->proj*64+m->S*8+m->Cp); mc_set_add(S_obs,h); } }
   } }
   MC_INC(c_runs);
}

/* ------------------------------------------------------------------ projection: integer outputs against the documented mixing of the (gained) stream signals
 * xs = float output of a plain multistream decoder (identity mapping over the S+Cp decoded channels) run with the same gain plan: the
 * projection decoder's input rows.  Float: out_c = sum_j m[c][j]/32768 * x_j up to float rounding.  24-bit: every stream sample is
 * converted like opus_decode24 does (round(2^23 x), saturated to the 32-bit range), products are rounded to 1/32768 and summed; the sum
 * saturates at the 32-bit limits (either once at the end or at every addition - both are "saturating"; a wrapped sum matches neither).
 * 16-bit: the same sum / 256, rounded, saturated to 16 bits. */
static long long sat32ll(long long v){ return v>2147483647LL?2147483647LL:v<-2147483648LL?-2147483648LL:v; }
static void check_proj_model(const msstream *m,int nop,int nch,const int *gains,const dec_out *xs,const dec_out *bf,const dec_out *b16,const dec_out *b24,const char *what){
   int i,j,c,k,nin=m->nsc_in,ever_out=0; short M[16][16];
   for(k=0;k<nin;k++) for(c=0;c<nch;c++){ int ix=nch*k+c; M[c][k]=(short)(m->matrix[2*ix]|(m->matrix[2*ix+1]<<8)); }
   for(i=0;i<nop;i++){ int n=bf->ret[i]; if(n==0&&xs->ret[i]==0&&b16->ret[i]==0&&b24->ret[i]==0) continue;   /* the reset op */
      if(n<=0||xs->ret[i]!=n||b16->ret[i]!=n||b24->ret[i]!=n){ ever_out=1; continue; }
      /* the 16-bit entry point soft-clips every stream before mixing: its model applies while no stream sample has left [-1,1] since creation */
      for(j=0;j<n*nin&&!ever_out;j++) if(!(fabsf(xs->f[i][j])<=1.f)) ever_out=1;
      if(!ever_out) MC_INC(c_inr16);
      for(j=0;j<n;j++) for(c=0;c<nch;c++){ double fsum=0,fabsum=0; long long once=0,step=0; int wide=0; float bo=bf->f[i][j*nch+c]; long long t=b24->t[i][j*nch+c], s=b16->s[i][j*nch+c], e16a,e16b;
         for(k=0;k<nin;k++){ float x=xs->f[i][j*nin+k], e=8388608.f*x; long long sj,term; double ft=(double)M[c][k]/32768.0*x;
            if(e>2147483520.f) e=2147483520.f; if(e<-2147483648.f) e=-2147483648.f; sj=llrintf(e);
            term=((long long)M[c][k]*sj+16384)>>15; once+=term; step=sat32ll(step+term); if(once!=step) wide=1;
            fsum+=ft; fabsum+=fabs(ft); }
         MC_INC(c_pmodel); if(wide) MC_INC(c_pwide);
         { double e=fabs((double)bo-fsum), lim=PROJ_TOL*fabsum+1e-30; if(fabsum>0){ long q=(long)(e/fabsum*1e9); MC_MAX(c_projerr,q); }
           if(!(e<=lim)){ mc_fail("msgain:proj_float_not_mix_of_gained_streams","%s op %d gain %d sample %d ch %d: float output %.9g, demixing of the gained stream signals gives %.9g (error %.3g > %.3g)",what,i,gains[i],j,c,bo,fsum,e,lim); return; } }
         once=sat32ll(once);
         if(llabs(t-once)>nin+1&&llabs(t-step)>nin+1){ mc_fail(llabs(once)>=2147483647LL||wide?"msgain:proj_decode24_wraps":"msgain:proj_decode24_not_mix_of_gained_streams","%s op %d gain %d sample %d ch %d: 24-bit output %lld, saturating mix of the gained streams gives %lld (saturating once) / %lld (saturating every addition); float output %.9g",what,i,gains[i],j,c,t,once,step,bo); return; }
         e16a=(once+128)>>8; e16b=(step+128)>>8; e16a=e16a>32767?32767:e16a<-32768?-32768:e16a; e16b=e16b>32767?32767:e16b<-32768?-32768:e16b;
         if(!ever_out&&llabs(s-e16a)>2&&llabs(s-e16b)>2){ mc_fail(llabs(e16a)>=32767?"msgain:proj_decode16_wraps":"msgain:proj_decode16_not_mix_of_gained_streams","%s op %d gain %d sample %d ch %d: 16-bit output %lld, saturating mix of the gained streams gives %lld / %lld; float output %.9g",what,i,gains[i],j,c,s,e16a,e16b,bo); return; }
      } }
}

static int FSD[5]={48000,16000,8000,24000,12000}, nFSD=2; static int (*PLAN)[2]; static int nPLAN;
static void item(long it,void *ctx){
   int si=(int)(it/(nFSD*2)), fi=(int)(it/2%nFSD), v=(int)(it%2), fs=FSD[fi], nch=0,nch2=0,i,r,nop=0; msstream *m=&MS[si]; op_t op[MAXOP]={{0}}; dec_out a0,bf,b16,b24; int zero[MAXOP],gains[MAXOP]; char what[260]; unsigned char map[16],mapx[16]; (void)ctx;
   if(m->proj&&v) return;
   for(i=0;i<m->np;i++){ op[nop].d=m->pk[i]; op[nop].len=m->len[i]; op[nop].plc=0; nop++; }
   op[nop].d=NULL; op[nop].len=0; op[nop].plc=1; nop++;
   op[nop].d=NULL; op[nop].len=0; op[nop].plc=0; op[nop].reset=1; nop++;      /* OPUS_RESET_STATE: the gain is a setting and stays */
   op[nop].d=m->pk[m->np-1]; op[nop].len=m->len[m->np-1]; op[nop].plc=0; nop++;
   op[nop].d=m->pk[0]; op[nop].len=m->len[0]; op[nop].plc=0; nop++;
   memset(zero,0,sizeof zero);
   if(!m->proj){ if(v==0){ for(i=0;i<m->nsc;i++) map[i]=i; } else { map[0]=0; map[1]=0; map[2]=255; for(i=3;i<m->nsc+2;i++) map[i]=m->nsc-1-(i-3); } }
   snprintf(what,sizeof what,"'%s' dec %dHz mapping-variant %d",m->name,fs,v);
   if(!run_dec(m,op,nop,fs,v,0,zero,&a0,&nch,what)) return;
   memset(mapx,0,sizeof mapx); if(!m->proj) memcpy(mapx,map,nch);
   for(r=0;r<nPLAN;r++){ char w2[320];
      for(i=0;i<nop;i++) gains[i]= i<2? PLAN[r][0] : PLAN[r][1];
      snprintf(w2,sizeof w2,"%s gains %d->%d@op2",what,PLAN[r][0],PLAN[r][1]);
      run_dec(m,op,nop,fs,v,0,gains,&bf,&nch2,w2); run_dec(m,op,nop,fs,v,1,gains,&b16,&nch2,w2); run_dec(m,op,nop,fs,v,2,gains,&b24,&nch2,w2);
      check_run(m,op,nop,fs,nch,m->proj?NULL:mapx,gains,&a0,&bf,&b16,&b24,w2);
      if(m->proj){ dec_out xs; int nin=0; if(run_dec(m,op,nop,fs,2,0,gains,&xs,&nin,w2)){ check_proj_model(m,nop,nch,gains,&xs,&bf,&b16,&b24,w2); out_free(&xs,nop); } }
      out_free(&bf,nop); out_free(&b16,nop); out_free(&b24,nop); }
   out_free(&a0,nop);
}

int main(int argc,char **argv){
   static const struct { const char *n; int mode,bw,dur,br,app; } M[]={
      {"celt fb 20ms",REF_MODE_CELT_ONLY,OPUS_BANDWIDTH_FULLBAND,200,96000,OPUS_APPLICATION_AUDIO},
      {"silk wb 20ms",REF_MODE_SILK_ONLY,OPUS_BANDWIDTH_WIDEBAND,200,32000,OPUS_APPLICATION_VOIP},
      {"hybrid fb 20ms",REF_MODE_HYBRID,OPUS_BANDWIDTH_FULLBAND,200,48000,OPUS_APPLICATION_VOIP},
      {"celt fb 2.5ms",REF_MODE_CELT_ONLY,OPUS_BANDWIDTH_FULLBAND,25,128000,OPUS_APPLICATION_RESTRICTED_LOWDELAY},
      {"silk nb 60ms",REF_MODE_SILK_ONLY,OPUS_BANDWIDTH_NARROWBAND,600,16000,OPUS_APPLICATION_VOIP} };
   static const struct { int S,Cp; } L[]={ {1,1},{2,0},{2,1},{3,2} };
   static const struct { int sig; double peak; } SG[]={ {SIG_SWEEP,0.5},{SIG_SWEEP,1.9},{SIG_SQUARE,1.0},{SIG_NOISE,0.9} };
   static const int A7[]={-32768,-3000,-1,1,256,3000,32767}, AX[]={-20000,-10000,-5120,-256,2,5120,10000,13256,13257,20000};
   int ALPHA[24],nA=0,i,l,mm,s,n=0,nm,ns; mc_ctr *st,*dn;
   mc_init(argc,argv,"C19","msgain"); MC.part=mc_arg_s("--name","msgain");
   c_eval=mc_counter("evaluations"); c_trans=mc_counter("transitions"); st=mc_counter("states"); dn=mc_counter("distinct_nontrivial");
   c_samples=mc_counter("samples_compared"); c_worstG=mc_counter("worst_rel_error_of_G_x1e9"); c_sat16=mc_counter("samples_16bit_beyond_pm2"); c_big24=mc_counter("samples_24bit_outside_int32");
   c_runs=mc_counter("gained_runs"); c_projerr=mc_counter("worst_projection_error_rel_frame_peak_x1e9"); c_inr16=mc_counter("frames_16bit_exact_scaling_checked"); c_vac=mc_counter("all_zero_twin_runs"); c_rej=mc_counter("out_of_range_gain_probes"); c_pmodel=mc_counter("projection_samples_checked_against_mix_model"); c_pwide=mc_counter("of_which_partial_sum_beyond_int32");
   S_states=mc_set_new(22); S_obs=mc_set_new(20);
   PROJ_TOL=mc_arg("--tol-ppb",4000)*1e-9;
   nFSD=(int)mc_arg("--nfs",MC.tier?5:2); nm=(int)mc_arg("--nmodes",MC.tier?5:3); ns=(int)mc_arg("--nsig",MC.tier?4:3);
   for(i=0;i<7;i++) ALPHA[nA++]=A7[i]; if(mc_arg("--wide",MC.tier?1:0)) for(i=0;i<10;i++) ALPHA[nA++]=AX[i];
   MS=calloc(4*5*4+16,sizeof *MS); NMS=0;
   for(l=0;l<4;l++) for(mm=0;mm<nm;mm++) for(s=0;s<ns;s++) build_ms(L[l].S,L[l].Cp,M[mm].n,M[mm].mode,M[mm].bw,M[mm].dur,M[mm].br,M[mm].app,SG[s].sig,SG[s].peak,M[mm].dur<100?6:3);
   for(s=0;s<ns;s++) build_proj(4,SG[s].sig,SG[s].peak,3);
   if(MC.tier) for(s=0;s<ns;s++) build_proj(9,SG[s].sig,SG[s].peak,3);
   PLAN=malloc(sizeof(int[2])*(4*nA+8));
   for(i=0;i<nA;i++){ PLAN[n][0]=PLAN[n][1]=ALPHA[i]; n++; }
   PLAN[n][0]=PLAN[n][1]=0; n++;
   for(i=0;i<nA;i++){ PLAN[n][0]=0; PLAN[n][1]=ALPHA[i]; n++; PLAN[n][0]=ALPHA[i]; PLAN[n][1]=0; n++; }
   for(i=0;i<nA;i++){ PLAN[n][0]=ALPHA[i]; PLAN[n][1]=ALPHA[(i+3)%nA]; n++; }
   nPLAN=n;
   mc_info("msgain: %d multistream/projection packet streams (frozen encoders) x %d decoder rates x 2 mapping variants x %d gain plans (%d constant gains, on/off/change before op 2) x {float,16,24}",NMS,nFSD,nPLAN,nA+1);
   mc_par((long)NMS*nFSD*2,item,NULL);
   *st=mc_set_count(S_states); *dn=mc_set_count(S_obs);
   return mc_finish();
}
