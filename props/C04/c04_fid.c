/* C04 — encode -> decode reproduces the input at the reported delay.
 *
 * E3 (plain product enumeration) over the CONFIGURATION GRID of the real encoder/decoder, each configuration
 * driven with six deterministic signal families (mc/signals.h) and, for stereo, three channel-identity pairs.
 * This is the property where model checking gives least (the statement is numeric over all signals): the run is
 * exhaustive over the grid below x the fixed signal set only; level claimed = "exploration".
 *
 * part ss (single stream): item = (Fs 5) x (channels 2) x (application 3) x (frame duration 9: 2.5..120 ms) x
 *      (bitrate level 5 = per-mode floor x {1,1.5,2.5,4,8}) x (complexity {0,5,10}) x {VBR,CBR};
 *      per item: families {multitone, log-sweep, speech-like, band-noise, clicks, stereo-pan}
 *      (+ {L-only, R-only, L=-R} when stereo); sample format int16/int24/float in rotation (item+family) mod 3.
 *      per-mode bitrate floor (statement: "bitrate >= a per-mode floor"): mono 64/32/20/16 kb/s for
 *      2.5/5/10/>=20 ms frames, stereo 1.5x that.
 *      quick tier: durations {2.5,5,10,20,60,120} ms, complexities {0,10}, 0.6 s excerpts; thorough: everything, 1.5 s.
 * part ms (multistream / projection): layouts {stereo (family 1), 5.1 (family 1), dual-mono (two uncoupled streams),
 *      ambisonics projection order 1,2,3 (family 3: 4, 9, 16 channels; decoder built from the encoder's demixing matrix, its gain
 *      applied through OPUS_SET_GAIN)} x Fs x application x duration x 3 per-channel bitrate levels (per-mode floor x {2,4,6}) x
 *      complexity x {VBR,CBR}; every channel carries its own signal (5 families rotated over the channels, per-channel level
 *      offsets, the 5.1 LFE channel two low tones); plus one-hot runs (one channel active, all others silent) on the
 *      (20 ms, top level, complexity 10, VBR) sub-grid.  quick: Fs {16,48} kHz, durations {2.5,5,10,20,60} ms, complexity 10;
 *      thorough: all 5 rates, all 9 durations, complexity {0,5,10}.
 * parts hist / mshist (added after an independently seeded change showed that "application" is also reachable through a ctl): the
 *      same measured run behind every <=1-step history — encoder created with application A, then one of 18 ctls
 *      (OPUS_SET_APPLICATION x3 = all ordered pairs create -> ctl, OPUS_SET_EXPERT_FRAME_DURATION, OPUS_SET_FORCE_MODE x3,
 *      OPUS_SET_BANDWIDTH x5, OPUS_SET_FORCE_CHANNELS x2, OPUS_SET_COMPLEXITY x2, OPUS_SET_SIGNAL x2) applied before the first frame,
 *      after a prefix + OPUS_RESET_STATE (encoder and decoder), or mid-stream after a prefix. Refused ctls are counted, not run.
 *      OPUS_GET_LOOKAHEAD is read AFTER the history and again after the run ("lookahead_changed_during_run" if they differ).
 *      Same oracles; thresholds keyed by (history class, application in force, level, bandwidth, family) / (class, layout, app, bw).
 *
 * Oracles (all from the statement):
 *  (a) delay: the lag maximising the normalised input/output cross-correlation (summed over channels; searched from 5 ms below to
 *      6 ms above the reported value) equals OPUS_GET_LOOKAHEAD. Exactly (integer peak) for aperiodic broadband input (sweep,
 *      band noise, clicks) when every packet in the analysed span is CELT-only; to within 0.1 ms (sub-sample peak by parabolic
 *      interpolation) when SILK / hybrid packets (resamplers) are in the path — the statement's own tolerance — and for tonal /
 *      low-frequency-dominated input (see judge() for why); not applied to the single 440 Hz carrier of the stereo-pan family.
 *      Applied only where the coder is above its per-mode floor, operationalised as SNR >= 6 dB at the best or the reported lag
 *      (design-time calibration: all disagreements sat at negative SNR).
 *  (b) SNR at the reported lag, segmental SNR (20 ms segments) and per-band energy error (21 CELT-like bands,
 *      eband5ms x 200 Hz, inside the coded bandwidth, bands carrying >= -30 dB of the input energy) must stay inside
 *      the calibrated bounds of thresholds.h (worst observed on the unchanged tree over the whole grid -/+ 3 dB).
 *  (c) channel identity: L-only / R-only / L=-R: energy stays on its side (>= 20 dB separation), sign preserved (normalised
 *      correlation with the own input > 0), level within 1 dB — these three strictly at >= 64 kb/s and >= 2.5 x the per-mode floor;
 *      at the floor itself only "energy stays on its side" (> 0 dB) and "no sign flip" (correlation > -0.5);
 *      multistream / projection: the input channel an output channel is most strongly correlated with (|rho| >= 0.5) must be
 *      its own, with positive sign; one-hot: >= 20 dB below the active channel on every other output, level of the active
 *      channel within 1 dB, positive correlation.
 *  Also: every encode returns a packet, every decode returns exactly frame_size samples (otherwise "roundtrip_error").
 *
 * Thresholds: `--calibrate <file>` runs the same grid, records the worst value per cell and writes the table (props/C04/calibrate.sh).
 * `--dump 1` prints one line of metrics per run on stderr (used to study the unchanged tree; not used by ./check).
 */
#include <stdlib.h>
#include <string.h>
#include <stdio.h>
#include <math.h>
#include <unistd.h>
#include "opus.h"
#include "opus_multistream.h"
#include "opus_projection.h"
#include "opus_private.h"   /* OPUS_SET_FORCE_MODE, MODE_* (the ctl the multistream encoder itself uses) */
#include "mc.h"
#include "signals.h"
#include "thresholds.h"


/* ------------------------------------------------------------------ grid */
static const int FSS[5]={8000,12000,16000,24000,48000};
static const int APPS[3]={OPUS_APPLICATION_VOIP,OPUS_APPLICATION_AUDIO,OPUS_APPLICATION_RESTRICTED_LOWDELAY};
static const char *const APPN[3]={"voip","audio","lowdelay"};
static const int DURX2[9]={5,10,20,40,80,120,160,200,240};          /* frame duration in half-milliseconds */
static const int CPLX[3]={0,5,10};
static const double LVMUL[5]={1,1.5,2.5,4,8};
static const char *const BWN[5]={"NB","MB","WB","SWB","FB"};
static const char *const FMTN[3]={"int16","int24","float"};
enum { F_MULTI=0,F_SWEEP,F_SPEECH,F_BANDN,F_CLICKS,F_PAN,F_LONLY,F_RONLY,F_LNEGR,NFAM };
static const char *const FAMN[NFAM]={"multitone","log-sweep","speech-like","band-noise","clicks","stereo-pan","L-only","R-only","L=-R"};
static const int FAMSIG[6]={SIG_MULTITONE,SIG_SWEEP,SIG_SPEECH,SIG_BANDNOISE,SIG_CLICKS,SIG_STEREOPAN};

static int floor_bps(int durx2,int ch){ int f = durx2<=5?64000: durx2<=10?32000: durx2<=20?20000:16000; return ch==2? f*3/2 : f; }
static int level_bps(int durx2,int ch,int lv){ double b=floor_bps(durx2,ch)*LVMUL[lv]; return b>510000?510000:(int)b; }
static int durclass(int durx2){ return durx2<=5?0:durx2<=10?1:durx2<=20?2:3; }

/* ---- <=1-step histories in front of the measured run (parts hist / mshist) ----
 * Every setting that enters the encoder's delay path or mode decision, applied through the documented ctl
 *   P=0 before the first frame, P=1 after a prefix of frames + OPUS_RESET_STATE, P=2 mid-stream after a prefix (no reset),
 * on an encoder CREATED with application A (all ordered pairs create-application -> ctl-application included).
 * A ctl the encoder rejects (e.g. another application mid-stream, forced stereo on mono) is not a configuration: counted, not run.
 * OPUS_GET_LOOKAHEAD is read AFTER the history and again after the run. */
enum { S_APP0=0,S_APP1,S_APP2,S_FD,S_MSILK,S_MHYB,S_MCELT,S_BWNB,S_BWMB,S_BWWB,S_BWSWB,S_BWFB,S_FC1,S_FC2,S_CX0,S_CX5,S_VOICE,S_MUSIC,NSET };
static const char *const SETN[NSET]={"OPUS_SET_APPLICATION(VOIP)","OPUS_SET_APPLICATION(AUDIO)","OPUS_SET_APPLICATION(RESTRICTED_LOWDELAY)","OPUS_SET_EXPERT_FRAME_DURATION(frame)",
   "OPUS_SET_FORCE_MODE(SILK)","OPUS_SET_FORCE_MODE(HYBRID)","OPUS_SET_FORCE_MODE(CELT)","OPUS_SET_BANDWIDTH(NB)","OPUS_SET_BANDWIDTH(MB)","OPUS_SET_BANDWIDTH(WB)","OPUS_SET_BANDWIDTH(SWB)","OPUS_SET_BANDWIDTH(FB)",
   "OPUS_SET_FORCE_CHANNELS(1)","OPUS_SET_FORCE_CHANNELS(2)","OPUS_SET_COMPLEXITY(0)","OPUS_SET_COMPLEXITY(5)","OPUS_SET_SIGNAL(VOICE)","OPUS_SET_SIGNAL(MUSIC)"};
static const char *const PLACEN[3]={"before the first frame","after a prefix + OPUS_RESET_STATE","mid-stream after a prefix"};
typedef struct { int A,S,P; } hist;
static void set_req(int S,int duri,int *req,opus_int32 *val){
   static const int bw[5]={OPUS_BANDWIDTH_NARROWBAND,OPUS_BANDWIDTH_MEDIUMBAND,OPUS_BANDWIDTH_WIDEBAND,OPUS_BANDWIDTH_SUPERWIDEBAND,OPUS_BANDWIDTH_FULLBAND};
   if (S<=S_APP2){ *req=OPUS_SET_APPLICATION_REQUEST; *val=S==S_APP0?OPUS_APPLICATION_VOIP:S==S_APP1?OPUS_APPLICATION_AUDIO:OPUS_APPLICATION_RESTRICTED_LOWDELAY; }
   else if (S==S_FD){ *req=OPUS_SET_EXPERT_FRAME_DURATION_REQUEST; *val=OPUS_FRAMESIZE_2_5_MS+duri; }
   else if (S<=S_MCELT){ *req=OPUS_SET_FORCE_MODE_REQUEST; *val=MODE_SILK_ONLY+(S-S_MSILK); }
   else if (S<=S_BWFB){ *req=OPUS_SET_BANDWIDTH_REQUEST; *val=bw[S-S_BWNB]; }
   else if (S<=S_FC2){ *req=OPUS_SET_FORCE_CHANNELS_REQUEST; *val=1+(S-S_FC1); }
   else if (S<=S_CX5){ *req=OPUS_SET_COMPLEXITY_REQUEST; *val=S==S_CX0?0:5; }
   else { *req=OPUS_SET_SIGNAL_REQUEST; *val=S==S_VOICE?OPUS_SIGNAL_VOICE:OPUS_SIGNAL_MUSIC; }
}
/* history class used in the threshold key: 0 application set to the create value, 1 application switched, 2.. one per other setting */
static int hkind_of(const hist *h){ return h->S<=S_APP2 ? (h->S==h->A?0:1) : 2+(h->S-S_FD); }
#define NHK (2+NSET-S_FD)
static int app_index(opus_int32 a){ return a==OPUS_APPLICATION_VOIP?0:a==OPUS_APPLICATION_AUDIO?1:2; }
static int prefix_frames(int fs,int fsz){ int n=(fs/10+fsz-1)/fsz; return n<2?2:n; }

/* tier-dependent enumeration lists */
static int nDUR, DURI[9], nCPX, CPXI[3];
static double SIG_SECONDS, SKIP_SECONDS, PRE_SECONDS;

typedef struct { int fsi,ch,app,duri,lv,cpi,cbr; } sscfg;
static long ss_items(void){ return 5L*2*3*nDUR*5*nCPX*2; }
static void ss_decode(long it,sscfg *c){
   c->cbr=it%2; it/=2; c->cpi=CPXI[it%nCPX]; it/=nCPX; c->lv=it%5; it/=5; c->duri=DURI[it%nDUR]; it/=nDUR;
   c->app=it%3; it/=3; c->ch=1+it%2; it/=2; c->fsi=(int)it;
}

/* ------------------------------------------------------------------ thresholds / calibration */
#define SS_CELLS (3*5*5*NFAM*2*4)
static int ss_cell(int app,int lv,int bw,int fam,int ch,int dc){ return ((((app*5+lv)*5+bw)*NFAM+fam)*2+(ch-1))*4+dc; }
#define NLAY 7   /* 0 stereo, 1 5.1, 2 dual-mono, 3..5 projection order 1..3, 6 = the LFE channel of 5.1 */
static const char *const LAYN[NLAY]={"ms-stereo","ms-5.1","dual-mono","proj-o1","proj-o2","proj-o3","ms-5.1-LFE"};
static const int LAYCH[6]={2,6,2,4,9,16};
#define MS_CELLS (NLAY*3*3*5*4)
static int ms_cell(int lay,int app,int lv,int bw,int dc){ return (((lay*3+app)*3+lv)*5+bw)*4+dc; }
#define HIST_CELLS (NHK*3*5*5*6)
static int hist_cell(int hk,int app,int lv,int bw,int fam){ return (((hk*3+app)*5+lv)*5+bw)*6+fam; }
#define MSH_CELLS (NHK*6*3*5)
static int msh_cell(int hk,int lay,int app,int bw){ return ((hk*6+lay)*3+app)*5+bw; }
#define MAXCELLS HIST_CELLS
#define NA_CDB (-32768)
typedef struct { long snr,seg,bgain,bloss,n; } cellv;       /* centi-dB; snr/seg are minima, bgain/bloss maxima */
static cellv *CAL;            /* shared: observed in this run (calibrate mode and evidence) */
static cellv THR[MAXCELLS];   /* compiled-in worst-observed values, densified */
static int ncells, kind /* 0 ss, 1 ms, 2 hist, 3 mshist */, calibrating;
#define is_ms (kind==1)
static const char *calib_path;

static void cas_min(long *p,long v){ long o=__atomic_load_n(p,__ATOMIC_RELAXED); while(v<o && !__atomic_compare_exchange_n(p,&o,v,1,__ATOMIC_RELAXED,__ATOMIC_RELAXED)); }
static void cas_max(long *p,long v){ long o=__atomic_load_n(p,__ATOMIC_RELAXED); while(v>o && !__atomic_compare_exchange_n(p,&o,v,1,__ATOMIC_RELAXED,__ATOMIC_RELAXED)); }
static long cdb(double db){ if(db>300) db=300; if(db<-300) db=-300; return (long)floor(db*100.0); }

static void thr_load(void){
   const c04_thr_row *t; int n,i;
#define PICK(T,Q) do{ if (MC.tier){ t=T; n=sizeof T/sizeof *t; } else { t=Q; n=sizeof Q/sizeof *t; } }while(0)
   if (kind==0) PICK(C04_THR_THOROUGH_SS,C04_THR_QUICK_SS); else if (kind==1) PICK(C04_THR_THOROUGH_MS,C04_THR_QUICK_MS);
   else if (kind==2) PICK(C04_THR_THOROUGH_HIST,C04_THR_QUICK_HIST); else PICK(C04_THR_THOROUGH_MSHIST,C04_THR_QUICK_MSHIST);
   for(i=0;i<MAXCELLS;i++){ THR[i].n=0; THR[i].snr=THR[i].seg=NA_CDB; THR[i].bgain=THR[i].bloss=NA_CDB; }
   for(i=0;i<n;i++) if (t[i].cell>=0 && t[i].cell<ncells){ cellv *c=&THR[t[i].cell]; c->snr=t[i].snr_cdb; c->seg=t[i].seg_cdb; c->bgain=t[i].bgain_cdb; c->bloss=t[i].bloss_cdb; c->n=t[i].n; }
}
/* bounds for a cell; when the exact cell was never seen in calibration (only possible on a changed tree, e.g. a
 * different bandwidth decision) fall back to the worst over all cells sharing (application, level, bandwidth) —
 * the statement's own key — and then over (application, level). returns 0 if no bound exists at all. */
typedef struct { int app,lv,bw; } coarse_key;
static coarse_key cell_coarse(int cell){
   coarse_key k;
   if (kind==0){ int x=cell/4/2/NFAM; k.bw=x%5; x/=5; k.lv=x%5; k.app=x/5; }
   else if (kind==1){ int x=cell/4; k.bw=x%5; x/=5; k.lv=x%3; x/=3; k.app=x%3; }
   else if (kind==2){ int x=cell/6; k.bw=x%5; x/=5; k.lv=x%5; x/=5; k.app=x%3; }
   else { k.bw=cell%5; k.app=(cell/5)%3; k.lv=0; }
   return k;
}
static int thr_get(int cell,cellv *out,int *how){
   int i,pass; coarse_key k;
   if (THR[cell].n>0){ *out=THR[cell]; *how=0; return 1; }
   k=cell_coarse(cell);
   for(pass=0;pass<2;pass++){
      cellv a; a.n=0; a.snr=a.seg=100000; a.bgain=a.bloss=-100000;
      for(i=0;i<ncells;i++) if (THR[i].n>0){ coarse_key q=cell_coarse(i);
         if (q.app==k.app&&q.lv==k.lv&&(pass||q.bw==k.bw)){ a.n+=THR[i].n; if(THR[i].snr<a.snr)a.snr=THR[i].snr; if(THR[i].seg<a.seg)a.seg=THR[i].seg; if(THR[i].bgain>a.bgain)a.bgain=THR[i].bgain; if(THR[i].bloss>a.bloss)a.bloss=THR[i].bloss; } }
      if (a.n>0){ *out=a; *how=1+pass; return 1; }
   }
   return 0;
}
static void cal_note(int cell,double snr,double seg,double bgain,double bloss){
   cellv *c=&CAL[cell];
   cas_min(&c->snr,cdb(snr)); cas_min(&c->seg,cdb(seg)); cas_max(&c->bgain,cdb(bgain)+1); cas_max(&c->bloss,cdb(bloss)+1);
   __atomic_fetch_add(&c->n,1,__ATOMIC_RELAXED);
}
static void cal_write(void){
   FILE *f; int i; char name[64]; long rows=0;
   static const char *const KN[4]={"SS","MS","HIST","MSHIST"}, *const KM[4]={"ss","ms","hist","mshist"};
   static const char *const KC[4]={"((((app*5+level)*5+bandwidth)*9+family)*2+(ch-1))*4+durclass","(((layout*3+app)*3+level)*5+bandwidth)*4+durclass",
      "(((histclass*3+app)*5+level)*5+bandwidth)*6+family","((histclass*6+layout)*3+app)*5+bandwidth"};
   snprintf(name,sizeof name,"C04_THR_%s_%s",MC.tier?"THOROUGH":"QUICK",KN[kind]);
   f=fopen(calib_path,"w"); if(!f){ perror(calib_path); exit(2); }
   fprintf(f,"/* GENERATED by `c04_fid --mode %s --tier %s --calibrate <this file>` on the unchanged tree (see thresholds.h).\n"
             " * worst observed values in centi-dB, margin applied at check time. cell index = %s */\n",
             KM[kind],MC.tier?"thorough":"quick",KC[kind]);
   fprintf(f,"static const c04_thr_row %s[] = {\n",name);
   for(i=0;i<ncells;i++) if (CAL[i].n>0){ fprintf(f," {%d,%ld,%ld,%ld,%ld,%ld},\n",i,CAL[i].snr<-32000?-32000:CAL[i].snr>32000?32000:CAL[i].snr,CAL[i].seg<-32000?-32000:CAL[i].seg>32000?32000:CAL[i].seg,
         CAL[i].bgain>32000?32000:CAL[i].bgain,CAL[i].bloss>32000?32000:CAL[i].bloss,CAL[i].n); rows++; }
   fprintf(f," {-1,0,0,0,0,0}\n};\n"); fclose(f);
   mc_info("calibration table %s written to %s: %ld cells",name,calib_path,rows);
}

/* ------------------------------------------------------------------ numeric helpers */
#define MAXCH 16
#define MAXN (72000+11520)   /* 1.5 s at 48 kHz + the longest history prefix */
static float *X[MAXCH], *Y[MAXCH];       /* planar input / output, per worker */
static short *x16; static opus_int32 *x24; static float *xf; static short *y16; static opus_int32 *y24; static float *yf;
static unsigned char *pkt;
static void bufs_init(void){
   int c; if (X[0]) return;
   for(c=0;c<MAXCH;c++){ X[c]=malloc(sizeof(float)*MAXN); Y[c]=malloc(sizeof(float)*MAXN); }
   x16=malloc(2*MAXN*MAXCH); x24=malloc(4*MAXN*MAXCH); xf=malloc(4*MAXN*MAXCH);
   y16=malloc(2*5760*MAXCH); y24=malloc(4*5760*MAXCH); yf=malloc(4*5760*MAXCH); pkt=malloc(8*7700+64);
}

typedef float v8f __attribute__((vector_size(32)));
/* sum_i a[i]*b[i], i in [0,n) : float lanes over blocks of 2048, blocks accumulated in double */
static double dotf(const float *a,const float *b,int n){
   double tot=0; int i=0;
   while(i<n){ int m=n-i>2048?2048:n-i, j=0; v8f acc={0,0,0,0,0,0,0,0}; float s=0; int k;
      for(;j+8<=m;j+=8){ v8f va,vb; memcpy(&va,a+i+j,32); memcpy(&vb,b+i+j,32); acc+=va*vb; }
      for(;j<m;j++) s+=a[i+j]*b[i+j];
      for(k=0;k<8;k++) s+=acc[k];
      tot+=s; i+=m; }
   return tot;
}
static double errf(const float *x,const float *y,int n){ double e=0; int i; for(i=0;i<n;i++){ double d=(double)y[i]-x[i]; e+=d*d; } return e; }
static double db10(double num,double den){ return 10.0*log10((num+1e-30)/(den+1e-30)); }

/* complex radix-2 FFT (in place), n <= 1024 */
static float TW_C[512],TW_S[512]; static int TW_N;
static void fft(float *re,float *im,int n){
   int i,j,k,len;
   if (TW_N!=n){ for(i=0;i<n/2;i++){ TW_C[i]=(float)cos(2*M_PI*i/n); TW_S[i]=(float)-sin(2*M_PI*i/n); } TW_N=n; }
   for(i=1,j=0;i<n;i++){ int bit=n>>1; for(;j&bit;bit>>=1) j^=bit; j^=bit; if(i<j){ float t=re[i];re[i]=re[j];re[j]=t; t=im[i];im[i]=im[j];im[j]=t; } }
   for(len=2;len<=n;len<<=1){ int h=len/2, st=n/len;
      for(i=0;i<n;i+=len) for(k=0;k<h;k++){ float c=TW_C[k*st],s=TW_S[k*st]; int a=i+k,b=i+k+h; float tr=re[b]*c-im[b]*s, ti=re[b]*s+im[b]*c; re[b]=re[a]-tr; im[b]=im[a]-ti; re[a]+=tr; im[a]+=ti; } }
}
static const int EBAND_HZ[22]={0,200,400,600,800,1000,1200,1400,1600,2000,2400,2800,3200,4000,4800,5600,6800,8000,9600,12000,15600,20000};
static const int BWCUT[5]={4000,6000,8000,12000,20000};
static int bw_index(int opus_bw){ return opus_bw==OPUS_BANDWIDTH_NARROWBAND?0:opus_bw==OPUS_BANDWIDTH_MEDIUMBAND?1:opus_bw==OPUS_BANDWIDTH_WIDEBAND?2:opus_bw==OPUS_BANDWIDTH_SUPERWIDEBAND?3:4; }

/* per-band energies of x (delayed by lag) and y over [s0,s1): Hann frames, hop n/2, both spectra from one complex FFT */
static void band_energies(const float *x,const float *y,int lag,int s0,int s1,int fs,double ein[21],double eout[21]){
   int n = fs>=48000?1024: fs>=16000?512:256, b,i,p; static float re[1024],im[1024],win[1024]; static int wn;
   if (wn!=n){ for(i=0;i<n;i++) win[i]=(float)(0.5-0.5*cos(2*M_PI*(i+0.5)/n)); wn=n; }
   for(b=0;b<21;b++) ein[b]=eout[b]=0;
   for(p=s0;p+n<=s1;p+=n/2){
      for(i=0;i<n;i++){ re[i]=x[p+i-lag]*win[i]; im[i]=y[p+i]*win[i]; }
      fft(re,im,n);
      for(b=0;b<21;b++){ int k0=(int)ceil(EBAND_HZ[b]*(double)n/fs), k1=(int)ceil(EBAND_HZ[b+1]*(double)n/fs), k; if(k0<1)k0=1; if(k1>n/2)k1=n/2;
         for(k=k0;k<k1;k++){ float ar=re[k],ai=im[k],br=re[n-k],bi=im[n-k];
            float xr=0.5f*(ar+br), xi=0.5f*(ai-bi), yr=0.5f*(ai+bi), yi=0.5f*(br-ar);
            ein[b]+=xr*xr+xi*xi; eout[b]+=yr*yr+yi*yi; } }
   }
}

typedef struct {
   int la,best,lo,hi; double frac,dsnr_la,snr_best;   /* delay: peak, sub-sample peak, SNR at reported / best lag over the delay channels */
   double snr_la,seg,bgain,bloss; int nbands;
} fid;
/* delay part: normalised cross-correlation over the channels in mask; fills best, frac, snr_best (SNR at the best lag) */
static void analyse_delay(int nch,unsigned mask,int N,int la,int s0,int lagl,int lagh,fid *m){
   int lag,c,best=lagl; double bestc=-1e300, cm=0,cp=0,c0=0; int L=N-s0; static double cc[2048]; double nb=0,den=0;
   m->la=la; m->lo=lagl; m->hi=lagh;
   /* normalised cross-correlation c(lag)/sqrt(Exx(lag)): the plain sum is biased towards lags at which a louder stretch of a
    * non-stationary input slides into the window */
   { double exx=0; for(c=0;c<nch;c++) if(mask>>c&1) exx+=dotf(X[c]+s0-lagl,X[c]+s0-lagl,L);
     for(lag=lagl;lag<=lagh;lag++){ double s=0;
        if (lag>lagl) for(c=0;c<nch;c++) if(mask>>c&1){ double a=X[c][s0-lag], b=X[c][N-lag]; exx+=a*a-b*b; }
        for(c=0;c<nch;c++) if(mask>>c&1) s+=dotf(X[c]+s0-lag,Y[c]+s0,L);
        s/=sqrt(exx>1e-20?exx:1e-20); cc[lag-lagl]=s; if(s>bestc){bestc=s;best=lag;} } }
   m->best=best; m->frac=best;
   if (best>lagl&&best<lagh){ cm=cc[best-1-lagl]; c0=cc[best-lagl]; cp=cc[best+1-lagl]; if (cm-2*c0+cp<0) m->frac=best+0.5*(cm-cp)/(cm-2*c0+cp); }
   for(c=0;c<nch;c++) if(mask>>c&1){ nb+=dotf(X[c]+s0-best,X[c]+s0-best,L); den+=errf(X[c]+s0-best,Y[c]+s0,L); }
   m->snr_best=db10(nb,den);
   if (best==la) m->dsnr_la=m->snr_best; else { nb=den=0; for(c=0;c<nch;c++) if(mask>>c&1){ nb+=dotf(X[c]+s0-la,X[c]+s0-la,L); den+=errf(X[c]+s0-la,Y[c]+s0,L); } m->dsnr_la=db10(nb,den); }
}
/* joint analysis over the channels in mask */
static void analyse(int nch,unsigned mask,int N,int fs,int la,int s0,int lagl,int lagh,int bw,fid *m){
   int c,b; int L=N-s0;
   double num=0,den_la=0; double ein[21],eout[21],tin[21],tout[21],tot=0;
   analyse_delay(nch,mask,N,la,s0,lagl,lagh,m);
   for(c=0;c<nch;c++) if(mask>>c&1){ num+=dotf(X[c]+s0-la,X[c]+s0-la,L); den_la+=errf(X[c]+s0-la,Y[c]+s0,L); }
   m->snr_la=db10(num,den_la);
   /* segmental SNR at the reported lag: 20 ms segments whose input energy is above -50 dBFS (per sample), each clamped to [-10,40] dB */
   { int seg=fs/50, p, ns=0; double acc=0;
     for(p=s0;p+seg<=N;p+=seg){ double sn=0,se=0; for(c=0;c<nch;c++) if(mask>>c&1){ sn+=dotf(X[c]+p-la,X[c]+p-la,seg); se+=errf(X[c]+p-la,Y[c]+p,seg); }
        if (sn/seg>1e-5){ double v=db10(sn,se); if(v>40)v=40; if(v<-10)v=-10; acc+=v; ns++; } }
     m->seg = ns? acc/ns : 40.0; }
   /* per-band energy error */
   for(b=0;b<21;b++) tin[b]=tout[b]=0;
   for(c=0;c<nch;c++) if(mask>>c&1){ band_energies(X[c],Y[c],la,s0,N,fs,ein,eout); for(b=0;b<21;b++){ tin[b]+=ein[b]; tout[b]+=eout[b]; } }
   m->bgain=0; m->bloss=0; m->nbands=0;
   for(b=0;b<21;b++) if (EBAND_HZ[b+1]<=BWCUT[bw] && EBAND_HZ[b+1]<=fs/2) tot+=tin[b];
   for(b=0;b<21;b++) if (EBAND_HZ[b+1]<=BWCUT[bw] && EBAND_HZ[b+1]<=fs/2 && tin[b]>=1e-3*tot && tin[b]>0){
      double e=db10(tout[b],tin[b]); if(e>m->bgain)m->bgain=e; if(-e>m->bloss)m->bloss=-e; m->nbands++; }
}

/* ------------------------------------------------------------------ shared bookkeeping */
static mc_ctr *c_eval,*c_frames,*c_delay_exact,*c_delay_checked,*c_delay_gated,*c_fid_checked,*c_ident_checked,*c_silkpath,*c_fallback,*c_dn,*c_onehot,*c_rejected,*c_la_requery;
static mc_set *cells_seen,*sample_classes;
static int dump;
static void dumpline(const char *s){ if(dump){ size_t n=strlen(s); if(write(2,s,n)<0){} } }

/* common verdicts on one analysed run. desc = human-readable case; cell = threshold cell */
/* delay classes: 2 = sharp (aperiodic broadband input: sweep, band noise, clicks): the peak position is decidable to the sample, so
 * CELT-only spans must match exactly and spans with SILK/hybrid packets to within 0.1 ms; 1 = tonal / low-frequency dominated input
 * (multitone, speech-like and the identity pairs built from the multitone): the encoder's mandatory input high-pass (3 Hz DC reject, or the
 * VOIP pitch-adaptive high-pass) advances low partials by up to ~0.04 ms (measured; 39 us at 110 Hz for the 3 Hz filter), which displaces
 * the correlation peak by a sample or two at 48 kHz although the delay is right; these are held to 0.1 ms only (weaker than the
 * statement, hence sound); 0 = no delay clause (single 440 Hz carrier: a pure tone cannot separate delay from phase). */
static void judge(const char *desc,int cell,const fid *m,int fs,int modemask,const char *modetag,int dclass){
   cellv t; int how=0; char sig[96];
   /* (a) delay */
   if (dclass==0) ;
   else if (m->snr_best>=6.0 || m->dsnr_la>=6.0){
      int exact = modemask==4 && dclass==2; double tol = exact?0.0:1e-4*fs+1e-9, dev=fabs(m->frac-m->la);
      MC_INC(c_delay_checked); if(modemask!=4) MC_INC(c_silkpath); if (exact) MC_INC(c_delay_exact);
      if (exact ? (m->best!=m->la) : (dev>tol)){
         snprintf(sig,sizeof sig,"delay_mismatch:%s",modetag);
         mc_fail(sig,"%s: OPUS_GET_LOOKAHEAD=%d but the input/output cross-correlation peaks at lag %d (sub-sample %.3f; %+.4f ms; tolerance %.4f ms; searched %d..%d); SNR at reported lag %.2f dB, at best lag %.2f dB",
                 desc,m->la,m->best,m->frac,(m->frac-m->la)*1000.0/fs,tol*1000.0/fs,m->lo,m->hi,m->dsnr_la,m->snr_best);
      }
   } else MC_INC(c_delay_gated);
   /* (b) fidelity bounds */
   if (calibrating){ cal_note(cell,m->snr_la,m->seg,m->bgain,m->bloss); return; }
   __atomic_fetch_add(&CAL[cell].n,1,__ATOMIC_RELAXED);
   if (!thr_get(cell,&t,&how)){ MC_INC(c_fallback); return; }
   if (how) MC_INC(c_fallback);
   MC_INC(c_fid_checked);
   if (cdb(m->snr_la) < t.snr-C04_MARGIN_CDB){ snprintf(sig,sizeof sig,"snr_below_floor:%s",modetag);
      mc_fail(sig,"%s: SNR at the reported lag %.2f dB < floor %.2f dB (worst calibrated %.2f dB - 3 dB, cell %d%s)",desc,m->snr_la,(t.snr-C04_MARGIN_CDB)/100.0,t.snr/100.0,cell,how?" via coarse fallback":""); }
   if (cdb(m->seg) < t.seg-C04_MARGIN_CDB){ snprintf(sig,sizeof sig,"segsnr_below_floor:%s",modetag);
      mc_fail(sig,"%s: segmental SNR %.2f dB < floor %.2f dB (worst calibrated %.2f dB - 3 dB, cell %d%s)",desc,m->seg,(t.seg-C04_MARGIN_CDB)/100.0,t.seg/100.0,cell,how?" via coarse fallback":""); }
   if (cdb(m->bgain) > t.bgain+C04_MARGIN_CDB){ snprintf(sig,sizeof sig,"band_energy_gain:%s",modetag);
      mc_fail(sig,"%s: a band gained %.2f dB of energy > bound %.2f dB (worst calibrated %.2f dB + 3 dB, cell %d%s)",desc,m->bgain,(t.bgain+C04_MARGIN_CDB)/100.0,t.bgain/100.0,cell,how?" via coarse fallback":""); }
   if (cdb(m->bloss) > t.bloss+C04_MARGIN_CDB){ snprintf(sig,sizeof sig,"band_energy_loss:%s",modetag);
      mc_fail(sig,"%s: a band lost %.2f dB of energy > bound %.2f dB (worst calibrated %.2f dB + 3 dB, cell %d%s)",desc,m->bloss,(t.bloss+C04_MARGIN_CDB)/100.0,t.bloss/100.0,cell,how?" via coarse fallback":""); }
}
static const char *modetag_of(int modemask){ return modemask==4?"celt":modemask==1?"silk":modemask==2?"hybrid":(modemask&4)?"mixed-celt":"silk+hybrid"; }

/* ------------------------------------------------------------------ single stream */
static int gen_ss(int fam,int fs,int ch,int N){   /* N = history prefix + measured samples, one continuous signal */
   siggen g; int i, skip=(int)(PRE_SECONDS*fs);
   int sf = fam<6?FAMSIG[fam]:SIG_MULTITONE;
   sig_init(&g,sf,fs,ch,1000+fam);
   while(skip>0){ int n=skip>4096?4096:skip; sig_gen(&g,x16,n); skip-=n; }
   sig_gen(&g,x16,N);
   if (ch==2){
      if (fam==F_LONLY) for(i=0;i<N;i++) x16[2*i+1]=0;
      if (fam==F_RONLY) for(i=0;i<N;i++) x16[2*i]=0;
      if (fam==F_LNEGR) for(i=0;i<N;i++) x16[2*i+1]=(short)-x16[2*i];
   }
   return 0;
}
static void to_formats(int n){ int i; for(i=0;i<n;i++){ x24[i]=(opus_int32)x16[i]*256; xf[i]=x16[i]*(1.0f/32768.0f); } }

typedef struct { int la,la2,N,fsz,minbw,modemask,err,rejected,app_final,npre; long bytes; int npk; unsigned char toc_mid; } runinfo;

/* h==NULL: the plain grid run. Otherwise the encoder is created with application h->A, the history is applied, and the measured
 * run starts after it (X/Y hold the measured span only; the signal is continuous across the prefix). */
static void run_ss(const sscfg *c,int fam,int fmt,const hist *h,runinfo *r){
   int fs=FSS[c->fsi], ch=c->ch, fsz=fs*DURX2[c->duri]/2000, N=(int)(SIG_SECONDS*fs), err=0, f,i,k, nf, la=0, npre, P=h?h->P:0;
   int bps=level_bps(DURX2[c->duri],ch,c->lv), s0; opus_int32 appv=0;
   OpusEncoder *e; OpusDecoder *d;
   memset(r,0,sizeof *r); r->minbw=4; N-=N%fsz; nf=N/fsz; r->N=N; r->fsz=fsz;
   npre = (h&&P>0)? prefix_frames(fs,fsz) : 0; r->npre=npre;
   gen_ss(fam,fs,ch,N+npre*fsz); to_formats((N+npre*fsz)*ch);
   for(k=0;k<ch;k++) for(i=0;i<N;i++) X[k][i]=xf[(npre*fsz+i)*ch+k];
   e=opus_encoder_create(fs,ch,APPS[h?h->A:c->app],&err); if(!e||err){ r->err=1; return; }
   d=opus_decoder_create(fs,ch,&err); if(!d||err){ r->err=2; opus_encoder_destroy(e); return; }
   if (opus_encoder_ctl(e,OPUS_SET_BITRATE(bps))||opus_encoder_ctl(e,OPUS_SET_COMPLEXITY(CPLX[c->cpi]))||opus_encoder_ctl(e,OPUS_SET_VBR(c->cbr?0:1))) r->err=3;
   s0=(int)(SKIP_SECONDS*fs);
   for(f=0;f<npre+nf&&!r->err;f++){
      int n,got,mf=f-npre; long off=(long)f*fsz*ch;
      if (f==npre){   /* end of the history: (reset,) setting, then read the lookahead the encoder now reports */
         if (h){ int req; opus_int32 val;
            if (P==1 && (opus_encoder_ctl(e,OPUS_RESET_STATE)||opus_decoder_ctl(d,OPUS_RESET_STATE))){ r->err=4; break; }
            set_req(h->S,c->duri,&req,&val);
            if (opus_encoder_ctl(e,req,val)!=OPUS_OK){ r->rejected=1; break; } }
         if (opus_encoder_ctl(e,OPUS_GET_LOOKAHEAD(&la))||opus_encoder_ctl(e,OPUS_GET_APPLICATION(&appv))){ r->err=3; break; }
         r->la=la; r->app_final=app_index(appv); }
      if (fmt==0) n=opus_encode(e,x16+off,fsz,pkt,7700); else if (fmt==1) n=opus_encode24(e,x24+off,fsz,pkt,7700); else n=opus_encode_float(e,xf+off,fsz,pkt,7700);
      if (n<1){ r->err=10; break; }
      if (mf>=0){ r->bytes+=n; r->npk++;
         if ((mf+1)*fsz>s0){ int bw=bw_index(opus_packet_get_bandwidth(pkt)); if(bw<r->minbw) r->minbw=bw; r->modemask |= (pkt[0]&0x80)?4:((pkt[0]&0x60)==0x60?2:1); }
         if (mf==nf/2) r->toc_mid=pkt[0]; }
      if (fmt==0){ got=opus_decode(d,pkt,n,y16,fsz,0); if(got==fsz&&mf>=0) for(k=0;k<ch;k++) for(i=0;i<fsz;i++) Y[k][mf*fsz+i]=y16[i*ch+k]*(1.0f/32768.0f); }
      else if (fmt==1){ got=opus_decode24(d,pkt,n,y24,fsz,0); if(got==fsz&&mf>=0) for(k=0;k<ch;k++) for(i=0;i<fsz;i++) Y[k][mf*fsz+i]=y24[i*ch+k]*(1.0f/8388608.0f); }
      else { got=opus_decode_float(d,pkt,n,yf,fsz,0); if(got==fsz&&mf>=0) for(k=0;k<ch;k++) for(i=0;i<fsz;i++) Y[k][mf*fsz+i]=yf[i*ch+k]; }
      if (got!=fsz){ r->err=20; break; }
   }
   r->la2=r->la; if (!r->err&&!r->rejected&&opus_encoder_ctl(e,OPUS_GET_LOOKAHEAD(&r->la2))) r->err=3;
   opus_encoder_destroy(e); opus_decoder_destroy(d);
   if (r->rejected){ MC_INC(c_rejected); return; }
   MC_INC(c_eval); MC_ADD(c_frames,r->npk);
}

static double chan_energy(const float *p,int n){ return dotf(p,p,n); }

static void ss_item(long it,void *ctx){
   sscfg c; int fam,nfam,fs,durx2,bps; char desc[400]; (void)ctx;
   bufs_init(); ss_decode(it,&c); fs=FSS[c.fsi]; durx2=DURX2[c.duri]; bps=level_bps(durx2,c.ch,c.lv);
   nfam = c.ch==2?NFAM:6;
   for(fam=0;fam<nfam;fam++){
      runinfo r; fid m; int fmt=(int)((it+fam)%3), s0,lagl,lagh,cell; const char *mt;
      mc_case("ss_roundtrip","Fs=%d ch=%d app=%s dur=%.1fms bitrate=%d(level %d) complexity=%d %s signal=%s format=%s",fs,c.ch,APPN[c.app],durx2/2.0,bps,c.lv,CPLX[c.cpi],c.cbr?"CBR":"VBR",FAMN[fam],FMTN[fmt]);
      run_ss(&c,fam,fmt,NULL,&r);
      snprintf(desc,sizeof desc,"Fs=%d ch=%d app=%s dur=%.1fms bitrate=%d(level %d) complexity=%d %s signal=%s format=%s [%s %s, %d packets, %ld bytes]",fs,c.ch,APPN[c.app],durx2/2.0,bps,c.lv,CPLX[c.cpi],c.cbr?"CBR":"VBR",FAMN[fam],FMTN[fmt],
               modetag_of(r.modemask),BWN[r.minbw],r.npk,r.bytes);
      if (r.err){ mc_fail("roundtrip_error:ss","%s: create/ctl/encode/decode failed (stage %d)",desc,r.err); continue; }
      s0=(int)(SKIP_SECONDS*fs);
      lagl=r.la-(r.la<fs/200?r.la:fs/200); lagh=r.la+fs*6/1000;
      if (fam==F_PAN){ lagl=r.la-fs/1000; lagh=r.la+fs/1000; if(lagl<0)lagl=0; }   /* 440 Hz carrier: stay inside half a period */
      analyse(c.ch,(1u<<c.ch)-1,r.N,fs,r.la,s0,lagl,lagh,r.minbw,&m);
      mt=modetag_of(r.modemask);
      cell=ss_cell(c.app,c.lv,r.minbw,fam,c.ch,durclass(durx2));
      if (dump){ char l[700]; snprintf(l,sizeof l,"D ss it=%ld %s | la=%d best=%d frac=%.3f snr_la=%.2f snr_best=%.2f seg=%.2f bgain=%.2f bloss=%.2f nb=%d cell=%d\n",it,desc,m.la,m.best,m.frac,m.snr_la,m.snr_best,m.seg,m.bgain,m.bloss,m.nbands,cell); dumpline(l); }
      judge(desc,cell,&m,fs,r.modemask,mt, fam==F_PAN?0:(fam==F_SWEEP||fam==F_BANDN||fam==F_CLICKS)?2:1);
      if (m.snr_best>0 && mc_set_add(cells_seen,mc_mix(cell,17))){ MC_INC(c_dn);
         if (mc_set_add(sample_classes,mc_mix(mc_mix(fam,c.app),mc_mix(r.modemask,c.ch)))) mc_sample("%s -> lookahead=%d, correlation peak at lag %d (%.2f), SNR %.2f dB, segSNR %.2f dB, band error +%.2f/-%.2f dB over %d bands",desc,m.la,m.best,m.frac,m.snr_la,m.seg,m.bgain,m.bloss,m.nbands); }
      /* (c) channel identity on the stereo pairs */
      if (fam>=F_LONLY){
         int L=r.N-s0; const float *xl=X[0]+s0-r.la,*xr=X[1]+s0-r.la,*yl=Y[0]+s0,*yr=Y[1]+s0;
         double eil=chan_energy(xl,L),eir=chan_energy(xr,L),eol=chan_energy(yl,L),eor=chan_energy(yr,L),cl=dotf(xl,yl,L),cr=dotf(xr,yr,L);
         /* "keeps identity and level" is judged strictly where the coder is comfortably above its floor: bitrate >= 64 kb/s and
          * >= 2.5 x the per-mode floor (level >= 2); at the floor itself only "energy stays on its side" and "no sign flip" */
         int hi = bps>=64000 && c.lv>=2; double sep,rl,rr; char l[700];
         rl=cl/sqrt(eil*eol+1e-30); rr=cr/sqrt(eir*eor+1e-30);
         MC_INC(c_ident_checked);
         if (dump){ snprintf(l,sizeof l,"I ss it=%ld %s | ein=%.2f/%.2f eout=%.2f/%.2f dB rho=%.3f/%.3f\n",it,desc,db10(eil,L),db10(eir,L),db10(eol,L),db10(eor,L),rl,rr); dumpline(l); }
         if (fam==F_LONLY||fam==F_RONLY){
            double eown=fam==F_LONLY?eol:eor, eoth=fam==F_LONLY?eor:eol, ein=fam==F_LONLY?eil:eir, ro=fam==F_LONLY?rl:rr;
            sep=db10(eown,eoth);
            if (sep < (hi?20.0:0.0)) mc_fail("channel_identity:separation","%s: output energy own side %.2f dB, other side %.2f dB: separation %.2f dB < %s",desc,db10(eown,L),db10(eoth,L),sep,hi?"20 dB (bitrate >= 64 kb/s, level >= 2)":"0 dB (energy moved to the other side)");
            if (!(ro > (hi?0.0:-0.5))) mc_fail("channel_identity:sign","%s: active output channel is %s its input (normalised correlation %.4f)",desc,hi?"not positively correlated with":"sign-inverted relative to",ro);
            if (hi && fabs(db10(eown,ein))>1.0) mc_fail("channel_identity:level","%s: level of the active channel changed by %+.2f dB (> 1 dB)",desc,db10(eown,ein));
         } else {
            if (!(rl>(hi?0.0:-0.5))||!(rr>(hi?0.0:-0.5))) mc_fail("channel_identity:sign","%s: L=-R input: normalised corr(outL,inL)=%.4f corr(outR,inR)=%.4f (both must be > %s)",desc,rl,rr,hi?"0":"-0.5");
            if (hi && (fabs(db10(eol,eil))>1.0||fabs(db10(eor,eir))>1.0)) mc_fail("channel_identity:level","%s: L=-R input: level changed by %+.2f / %+.2f dB (> 1 dB)",desc,db10(eol,eil),db10(eor,eir));
         }
      }
   }
}

/* ------------------------------------------------------------------ single stream with a <=1-step history */
typedef struct { int fsi,ch,duri,lv; hist h; } hcfg;
static int nHFS,HFSI[5],nHDUR,HDURI[9],nHLV,HLVI[5],nHFAM,HFAM[6];
static long hist_items(void){ return (long)nHFS*2*nHDUR*nHLV*3*NSET*3; }
static void hist_decode(long it,hcfg *c){
   c->h.P=it%3; it/=3; c->h.S=it%NSET; it/=NSET; c->h.A=it%3; it/=3; c->lv=HLVI[it%nHLV]; it/=nHLV; c->duri=HDURI[it%nHDUR]; it/=nHDUR; c->ch=1+it%2; it/=2; c->fsi=HFSI[it%nHFS];
}
/* lookahead clause shared by hist / mshist: the value read after the history must still be reported after the run */
static void lookahead_stable(const char *desc,const runinfo *r){
   MC_INC(c_la_requery);
   if (r->la2!=r->la) mc_fail("lookahead_changed_during_run","%s: OPUS_GET_LOOKAHEAD returned %d after the history and %d after the run",desc,r->la,r->la2);
}
static void hist_item(long it,void *ctx){
   hcfg c; sscfg b; int fi,fs,durx2,bps; char desc[600]; (void)ctx;
   bufs_init(); hist_decode(it,&c); fs=FSS[c.fsi]; durx2=DURX2[c.duri]; bps=level_bps(durx2,c.ch,c.lv);
   b.fsi=c.fsi; b.ch=c.ch; b.app=c.h.A; b.duri=c.duri; b.lv=c.lv; b.cpi=2; b.cbr=0;
   for(fi=0;fi<nHFAM;fi++){
      runinfo r; fid m; int fam=HFAM[fi], fmt=(int)((it+fi)%3), s0,lagl,lagh,cell; const char *mt;
      mc_case("hist_roundtrip","Fs=%d ch=%d create=%s then %s %s; dur=%.1fms bitrate=%d(level %d) signal=%s format=%s",fs,c.ch,APPN[c.h.A],SETN[c.h.S],PLACEN[c.h.P],durx2/2.0,bps,c.lv,FAMN[fam],FMTN[fmt]);
      run_ss(&b,fam,fmt,&c.h,&r);
      if (r.rejected) break;      /* the ctl is refused in this state: not a configuration (same for every family) */
      snprintf(desc,sizeof desc,"Fs=%d ch=%d history: create(application=%s)%s, %s %s -> application now %s; dur=%.1fms bitrate=%d(level %d) complexity=10 VBR signal=%s format=%s [%s %s, %d packets, %ld bytes]",
               fs,c.ch,APPN[c.h.A],r.npre?", encode prefix":"",SETN[c.h.S],PLACEN[c.h.P],APPN[r.app_final],durx2/2.0,bps,c.lv,FAMN[fam],FMTN[fmt],modetag_of(r.modemask),BWN[r.minbw],r.npk,r.bytes);
      if (r.err){ mc_fail("roundtrip_error:hist","%s: create/ctl/encode/decode failed (stage %d)",desc,r.err); continue; }
      lookahead_stable(desc,&r);
      s0=(int)(SKIP_SECONDS*fs);
      lagl=r.la-(r.la<fs/200?r.la:fs/200); lagh=r.la+fs*6/1000;
      if (fam==F_PAN){ lagl=r.la-fs/1000; lagh=r.la+fs/1000; if(lagl<0)lagl=0; }
      analyse(c.ch,(1u<<c.ch)-1,r.N,fs,r.la,s0,lagl,lagh,r.minbw,&m);
      mt=modetag_of(r.modemask);
      cell=hist_cell(hkind_of(&c.h),r.app_final,c.lv,r.minbw,fam);
      if (dump){ char l[900]; snprintf(l,sizeof l,"D hist it=%ld %s | la=%d best=%d frac=%.3f snr_la=%.2f snr_best=%.2f seg=%.2f bgain=%.2f bloss=%.2f nb=%d cell=%d\n",it,desc,m.la,m.best,m.frac,m.snr_la,m.snr_best,m.seg,m.bgain,m.bloss,m.nbands,cell); dumpline(l); }
      judge(desc,cell,&m,fs,r.modemask,mt, fam==F_PAN?0:(fam==F_SWEEP||fam==F_BANDN||fam==F_CLICKS)?2:1);
      if (m.snr_best>0 && mc_set_add(cells_seen,mc_mix(mc_mix(cell,c.h.P),mc_mix(c.h.A,c.h.S)))){ MC_INC(c_dn);
         if (mc_set_add(sample_classes,mc_mix(mc_mix(c.h.S,c.h.A),mc_mix(c.h.P,c.ch)))) mc_sample("%s -> lookahead=%d (after the run %d), correlation peak at lag %d (%.2f), SNR %.2f dB, segSNR %.2f dB",desc,m.la,r.la2,m.best,m.frac,m.snr_la,m.seg); }
   }
}

/* ------------------------------------------------------------------ multistream / projection */
typedef struct { int lay,fsi,app,duri,lv,cpi,cbr; } mscfg;
static int nMSFS, MSFSI[5], nMSDUR, MSDURI[9], nMSCPX, MSCPXI[3];
static long ms_items(void){ return 6L*nMSFS*3*nMSDUR*3*nMSCPX*2; }
static void ms_decode(long it,mscfg *c){
   c->cbr=it%2; it/=2; c->cpi=MSCPXI[it%nMSCPX]; it/=nMSCPX; c->lv=it%3; it/=3; c->duri=MSDURI[it%nMSDUR]; it/=nMSDUR;
   c->app=it%3; it/=3; c->fsi=MSFSI[it%nMSFS]; it/=nMSFS; c->lay=(int)it;
}
static int ms_perch_bps(int durx2,int lv){ return floor_bps(durx2,1)*(2+2*lv); }   /* 20 ms: 32, 64, 96 kb/s per channel */

typedef struct { int kind; OpusMSEncoder *me; OpusMSDecoder *md; OpusProjectionEncoder *pe; OpusProjectionDecoder *pd; int nch,streams,coupled; } mscodec;
static int ms_open(mscodec *m,int lay,int fs,int app){
   int err=0; unsigned char map[255]; memset(m,0,sizeof *m); m->nch=LAYCH[lay];
   if (lay<=1){ m->me=opus_multistream_surround_encoder_create(fs,m->nch,1,&m->streams,&m->coupled,map,app,&err); if(!m->me||err) return 1;
      m->md=opus_multistream_decoder_create(fs,m->nch,m->streams,m->coupled,map,&err); if(!m->md||err) return 2; }
   else if (lay==2){ map[0]=0; map[1]=1; m->streams=2; m->coupled=0; m->me=opus_multistream_encoder_create(fs,2,2,0,map,app,&err); if(!m->me||err) return 1;
      m->md=opus_multistream_decoder_create(fs,2,2,0,map,&err); if(!m->md||err) return 2; }
   else { opus_int32 msz=0; unsigned char *mat; m->kind=1;
      m->pe=opus_projection_ambisonics_encoder_create(fs,m->nch,3,&m->streams,&m->coupled,app,&err); if(!m->pe||err) return 1;
      if (opus_projection_encoder_ctl(m->pe,OPUS_PROJECTION_GET_DEMIXING_MATRIX_SIZE(&msz))||msz<=0) return 3;
      mat=malloc(msz); if (opus_projection_encoder_ctl(m->pe,OPUS_PROJECTION_GET_DEMIXING_MATRIX(mat,msz))){ free(mat); return 3; }
      m->pd=opus_projection_decoder_create(fs,m->nch,m->streams,m->coupled,mat,msz,&err); free(mat); if(!m->pd||err) return 2;
      /* the demixing matrix is stored normalised; its gain (Q8 dB) is to be applied as the decoder's output gain (opus_projection.h) */
      { opus_int32 g=0; if (opus_projection_encoder_ctl(m->pe,OPUS_PROJECTION_GET_DEMIXING_MATRIX_GAIN(&g))) return 3; if (opus_projection_decoder_ctl(m->pd,OPUS_SET_GAIN(g))) return 3; } }
   return 0;
}
static void ms_close(mscodec *m){ if(m->me)opus_multistream_encoder_destroy(m->me); if(m->md)opus_multistream_decoder_destroy(m->md); if(m->pe)opus_projection_encoder_destroy(m->pe); if(m->pd)opus_projection_decoder_destroy(m->pd); }
#define MS_ECTL(m,...) ((m)->kind?opus_projection_encoder_ctl((m)->pe,__VA_ARGS__):opus_multistream_encoder_ctl((m)->me,__VA_ARGS__))

/* input: channel k carries family (k+rot) mod 5 of {multitone, sweep, speech-like, band-noise, clicks} (the pure 440 Hz tone of
 * the stereo-pan family cannot carry a delay or routing decision) from its own mono generator: seed k+1, advanced by k*13.7 ms,
 * and for the m-th reuse of a family (m=k/5) a nominal rate of Fs*(1+0.09m), which moves its tone / pitch / sweep frequencies so that
 * channels of the same family stay mutually distinct; level scaled by (1-0.02k)*amp. The 5.1 LFE channel carries 120+180 Hz tones (above the VOIP input high-pass, inside the two bands an LFE stream codes).
 * onehot>=0: only that channel is non-silent (multitone; LFE: its tones) */
static void gen_ms(int lay,int fs,int N,int rot,int onehot){
   int nch=LAYCH[lay],k,i; static short tmp[MAXN]; double amp = lay>=3?0.3:0.8;
   for(k=0;k<nch;k++){
      int lfe = (lay==1&&k==5);
      if (onehot>=0 && k!=onehot){ for(i=0;i<N;i++) x16[i*nch+k]=0; continue; }
      if (lfe){ for(i=0;i<N;i++){ double t=(i+PRE_SECONDS*fs)/fs; x16[i*nch+k]=(short)lrint(6000*sin(2*M_PI*120*t)+6000*sin(2*M_PI*180*t+1.0)); } continue; }
      { siggen g; int skip=(int)(PRE_SECONDS*fs)+(int)(k*0.0137*fs); double a=amp*(1.0-0.02*k);
        sig_init(&g,onehot>=0?SIG_MULTITONE:FAMSIG[(k+rot)%5],onehot>=0?fs:fs*(100+9*(k/5))/100,1,k+1);
        while(skip>0){ int n=skip>4096?4096:skip; sig_gen(&g,tmp,n); skip-=n; }
        sig_gen(&g,tmp,N); for(i=0;i<N;i++) x16[i*nch+k]=(short)lrint(tmp[i]*a); }
   }
}
#define MS_DCTL(m,...) ((m)->kind?opus_projection_decoder_ctl((m)->pd,__VA_ARGS__):opus_multistream_decoder_ctl((m)->md,__VA_ARGS__))
static void run_ms(const mscfg *c,int fmt,int rot,int onehot,const hist *h,runinfo *r){
   int fs=FSS[c->fsi], nch=LAYCH[c->lay], durx2=DURX2[c->duri], fsz=fs*durx2/2000, N=(int)(SIG_SECONDS*fs), f,i,k,nf,la=0,s0,e,npre,P=h?h->P:0;
   int bps=ms_perch_bps(durx2,c->lv)*nch; mscodec m; opus_int32 appv=0;
   memset(r,0,sizeof *r); r->minbw=4; N-=N%fsz; nf=N/fsz; r->N=N; r->fsz=fsz;
   npre=(h&&P>0)?prefix_frames(fs,fsz):0; r->npre=npre;
   gen_ms(c->lay,fs,N+npre*fsz,rot,onehot); to_formats((N+npre*fsz)*nch);
   for(k=0;k<nch;k++) for(i=0;i<N;i++) X[k][i]=xf[(npre*fsz+i)*nch+k];
   e=ms_open(&m,c->lay,fs,APPS[h?h->A:c->app]); if(e){ r->err=e; ms_close(&m); return; }
   if (MS_ECTL(&m,OPUS_SET_BITRATE(bps))||MS_ECTL(&m,OPUS_SET_COMPLEXITY(CPLX[c->cpi]))||MS_ECTL(&m,OPUS_SET_VBR(c->cbr?0:1))) r->err=4;
   s0=(int)(SKIP_SECONDS*fs);
   for(f=0;f<npre+nf&&!r->err;f++){
      int n,got=-1,mf=f-npre; long off=(long)f*fsz*nch; int maxb=7700*m.streams;
      if (f==npre){
         if (h){ int req; opus_int32 val;
            if (P==1 && (MS_ECTL(&m,OPUS_RESET_STATE)||MS_DCTL(&m,OPUS_RESET_STATE))){ r->err=5; break; }
            set_req(h->S,c->duri,&req,&val);
            if (MS_ECTL(&m,req,val)!=OPUS_OK){ r->rejected=1; break; } }
         if (MS_ECTL(&m,OPUS_GET_LOOKAHEAD(&la))||MS_ECTL(&m,OPUS_GET_APPLICATION(&appv))){ r->err=4; break; }
         r->la=la; r->app_final=app_index(appv); }
      if (!m.kind){ n= fmt==0?opus_multistream_encode(m.me,x16+off,fsz,pkt,maxb): fmt==1?opus_multistream_encode24(m.me,x24+off,fsz,pkt,maxb):opus_multistream_encode_float(m.me,xf+off,fsz,pkt,maxb); }
      else        { n= fmt==0?opus_projection_encode(m.pe,x16+off,fsz,pkt,maxb): fmt==1?opus_projection_encode24(m.pe,x24+off,fsz,pkt,maxb):opus_projection_encode_float(m.pe,xf+off,fsz,pkt,maxb); }
      if (n<1){ r->err=10; break; }
      if (mf>=0){ r->bytes+=n; r->npk++; }
      if (mf>=0 && (mf+1)*fsz>s0){ /* walk the streams: bandwidth and mode of every stream */
         const unsigned char *p=pkt; int left=n,s;
         for(s=0;s<m.streams;s++){ unsigned char toc; opus_int16 sz[48]; opus_int32 po=0; int bw; int cnt=opus_packet_parse_impl(p,left,s!=m.streams-1,&toc,NULL,sz,NULL,&po,NULL,NULL);
            if (cnt<0){ r->err=11; break; }
            if (!(c->lay==1&&s==m.streams-1)){ bw=bw_index(opus_packet_get_bandwidth(&toc)); if(bw<r->minbw) r->minbw=bw; r->modemask |= (toc&0x80)?4:((toc&0x60)==0x60?2:1); }
            p+=po; left-=po; }
         if (r->err) break; }
      if (!m.kind){ if(fmt==0) got=opus_multistream_decode(m.md,pkt,n,y16,fsz,0); else if(fmt==1) got=opus_multistream_decode24(m.md,pkt,n,y24,fsz,0); else got=opus_multistream_decode_float(m.md,pkt,n,yf,fsz,0); }
      else        { if(fmt==0) got=opus_projection_decode(m.pd,pkt,n,y16,fsz,0); else if(fmt==1) got=opus_projection_decode24(m.pd,pkt,n,y24,fsz,0); else got=opus_projection_decode_float(m.pd,pkt,n,yf,fsz,0); }
      if (got!=fsz){ r->err=20; break; }
      if (mf>=0) for(k=0;k<nch;k++) for(i=0;i<fsz;i++) Y[k][mf*fsz+i]= fmt==0? y16[i*nch+k]*(1.0f/32768.0f): fmt==1? y24[i*nch+k]*(1.0f/8388608.0f): yf[i*nch+k];
   }
   r->la2=r->la; if (!r->err&&!r->rejected&&MS_ECTL(&m,OPUS_GET_LOOKAHEAD(&r->la2))) r->err=4;
   ms_close(&m);
   if (r->rejected){ MC_INC(c_rejected); return; }
   MC_INC(c_eval); MC_ADD(c_frames,r->npk);
}

static void ms_item(long it,void *ctx){
   mscfg c; int fs,durx2,nch,perch,fmt,rot,s0,lagl,lagh,k,j,cell,L; runinfo r; fid m; char desc[400]; const char *mt; unsigned mask; (void)ctx;
   bufs_init(); ms_decode(it,&c); fs=FSS[c.fsi]; durx2=DURX2[c.duri]; nch=LAYCH[c.lay]; perch=ms_perch_bps(durx2,c.lv);
   fmt=(int)(it%3); rot=(int)(it%5);
   mc_case("ms_roundtrip","layout=%s Fs=%d app=%s dur=%.1fms bitrate=%dx%d complexity=%d %s format=%s rot=%d",LAYN[c.lay],fs,APPN[c.app],durx2/2.0,nch,perch,CPLX[c.cpi],c.cbr?"CBR":"VBR",FMTN[fmt],rot);
   run_ms(&c,fmt,rot,-1,NULL,&r);
   snprintf(desc,sizeof desc,"layout=%s Fs=%d app=%s dur=%.1fms bitrate=%dx%d(level %d) complexity=%d %s format=%s family-rotation=%d [%s %s, %d packets, %ld bytes]",LAYN[c.lay],fs,APPN[c.app],durx2/2.0,nch,perch,c.lv,CPLX[c.cpi],c.cbr?"CBR":"VBR",FMTN[fmt],rot,modetag_of(r.modemask),BWN[r.minbw],r.npk,r.bytes);
   if (r.err){ mc_fail("roundtrip_error:ms","%s: create/ctl/encode/decode failed (stage %d)",desc,r.err); return; }
   s0=(int)(SKIP_SECONDS*fs); L=r.N-s0;
   lagl=r.la-(r.la<fs/200?r.la:fs/200); lagh=r.la+fs*6/1000;
   mask=(1u<<nch)-1; if (c.lay==1) mask&=~(1u<<5);
   analyse(nch,mask,r.N,fs,r.la,s0,lagl,lagh,r.minbw,&m);
   {  /* delay is decided on the channels that carry a sharp family (sweep, band noise, clicks) — see judge() */
      unsigned sharp=0; fid md; for(k=0;k<nch;k++) if ((mask>>k&1) && ((k+rot)%5==1||(k+rot)%5==3||(k+rot)%5==4)) sharp|=1u<<k;
      analyse_delay(nch,sharp,r.N,r.la,s0,lagl,lagh,&md); m.best=md.best; m.frac=md.frac; m.snr_best=md.snr_best; m.dsnr_la=md.dsnr_la; }
   mt=modetag_of(r.modemask);
   cell=ms_cell(c.lay,c.app,c.lv,r.minbw,durclass(durx2));
   if (dump){ char l[700]; snprintf(l,sizeof l,"D ms it=%ld %s | la=%d best=%d frac=%.3f snr_la=%.2f snr_best=%.2f seg=%.2f bgain=%.2f bloss=%.2f nb=%d cell=%d\n",it,desc,m.la,m.best,m.frac,m.snr_la,m.snr_best,m.seg,m.bgain,m.bloss,m.nbands,cell); dumpline(l); }
   judge(desc,cell,&m,fs,r.modemask,mt,2);
   if (m.snr_best>0 && mc_set_add(cells_seen,mc_mix(mc_mix(cell,rot),99))){ MC_INC(c_dn);
      if (mc_set_add(sample_classes,mc_mix(mc_mix(c.lay,c.app),r.modemask))) mc_sample("%s -> lookahead=%d, correlation peak at lag %d (%.2f), SNR %.2f dB, segSNR %.2f dB, band error +%.2f/-%.2f dB",desc,m.la,m.best,m.frac,m.snr_la,m.seg,m.bgain,m.bloss); }
   if (c.lay==1){ /* the LFE channel has its own cell (only the two lowest bands are coded); no delay clause on two pure low tones */
      fid ml; int lc=ms_cell(6,c.app,c.lv,0,durclass(durx2)); cellv t; int how;
      analyse(nch,1u<<5,r.N,fs,r.la,s0,r.la,r.la,0,&ml);
      if (dump){ char l[700]; snprintf(l,sizeof l,"D lfe it=%ld %s | snr_la=%.2f seg=%.2f bgain=%.2f bloss=%.2f nb=%d cell=%d\n",it,desc,ml.snr_la,ml.seg,ml.bgain,ml.bloss,ml.nbands,lc); dumpline(l); }
      if (calibrating) cal_note(lc,ml.snr_la,ml.seg,ml.bgain,ml.bloss);
      else { __atomic_fetch_add(&CAL[lc].n,1,__ATOMIC_RELAXED); if (thr_get(lc,&t,&how)){
         if (cdb(ml.snr_la)<t.snr-C04_MARGIN_CDB) mc_fail("snr_below_floor:lfe","%s: LFE channel SNR %.2f dB < floor %.2f dB",desc,ml.snr_la,(t.snr-C04_MARGIN_CDB)/100.0);
         if (cdb(ml.bloss)>t.bloss+C04_MARGIN_CDB||cdb(ml.bgain)>t.bgain+C04_MARGIN_CDB) mc_fail("band_energy_error:lfe","%s: LFE channel band energy error +%.2f/-%.2f dB outside bound +%.2f/-%.2f dB",desc,ml.bgain,ml.bloss,(t.bgain+C04_MARGIN_CDB)/100.0,(t.bloss+C04_MARGIN_CDB)/100.0); } }
   }
   /* (c) every input channel returns on its own output channel: among all input channels, the one an output channel is most
    * strongly correlated with (|rho| >= 0.5, i.e. some input is clearly present) must be its own, with positive sign */
   {  double ex[MAXCH]; MC_INC(c_ident_checked);
      for(j=0;j<nch;j++) ex[j]=chan_energy(X[j]+s0-r.la,L);
      for(k=0;k<nch;k++){ double ey=chan_energy(Y[k]+s0,L), bestr=0, own=0; int bj=-1;
         for(j=0;j<nch;j++){ double rho=dotf(X[j]+s0-r.la,Y[k]+s0,L)/sqrt(ex[j]*ey+1e-30); if(j==k) own=rho; if(fabs(rho)>fabs(bestr)){bestr=rho;bj=j;} }
         if (dump){ char l[300]; snprintf(l,sizeof l,"R ms it=%ld %s ch=%d own rho=%.3f strongest=%d (%.3f) level %+.2f dB\n",it,LAYN[c.lay],k,own,bj,bestr,db10(ey,ex[k])); dumpline(l); }
         if (fabs(bestr)<0.5) continue;
         if (bj!=k){ char sig[64]; snprintf(sig,sizeof sig,"ms_identity:routing:%s",c.lay>=3?"projection":"multistream"); mc_fail(sig,"%s: output channel %d carries input channel %d (rho %.3f) rather than its own input (rho %.3f)",desc,k,bj,bestr,own); break; }
         if (!(own>0)){ char sig[64]; snprintf(sig,sizeof sig,"ms_identity:sign:%s",c.lay>=3?"projection":"multistream"); mc_fail(sig,"%s: output channel %d is the sign-inverted input channel %d (rho %.3f)",desc,k,k,own); break; }
      }
   }
   /* one-hot runs on the (20 ms, top level, complexity 10, VBR) sub-grid */
   if (durx2==40 && c.lv==2 && CPLX[c.cpi]==10 && !c.cbr){
      for(k=0;k<nch;k++){ runinfo r1; double eo[MAXCH],ein,worst=1e300; int wj=-1; char d1[500];
         mc_case("ms_onehot","layout=%s Fs=%d app=%s channel=%d",LAYN[c.lay],fs,APPN[c.app],k);
         int f1=(int)((it+k+1)%3);
         run_ms(&c,f1,rot,k,NULL,&r1); MC_INC(c_onehot);
         snprintf(d1,sizeof d1,"one-hot run (only channel %d active, multitone%s) layout=%s Fs=%d app=%s dur=%.1fms bitrate=%dx%d(level %d) complexity=%d VBR format=%s",k,(c.lay==1&&k==5)?" -> LFE tones":"",LAYN[c.lay],fs,APPN[c.app],durx2/2.0,nch,perch,c.lv,CPLX[c.cpi],FMTN[f1]);
         if (r1.err){ mc_fail("roundtrip_error:ms","%s: create/ctl/encode/decode failed (stage %d)",d1,r1.err); break; }
         ein=chan_energy(X[k]+s0-r1.la,L);
         for(j=0;j<nch;j++) eo[j]=chan_energy(Y[j]+s0,L);
         for(j=0;j<nch;j++) if(j!=k){ double sep=db10(eo[k],eo[j]); if(sep<worst){worst=sep;wj=j;} }
         if (dump){ char l[700]; snprintf(l,sizeof l,"O ms it=%ld %s | level %+.2f dB worst separation %.2f dB (ch %d) corr=%.3g\n",it,d1,db10(eo[k],ein),worst,wj,dotf(X[k]+s0-r1.la,Y[k]+s0,L)); dumpline(l); }
         if (worst<20.0){ char sig[64]; snprintf(sig,sizeof sig,"ms_identity:separation:%s",c.lay>=3?"projection":"multistream"); mc_fail(sig,"%s: only %.2f dB between the active output channel and output channel %d (>= 20 dB required)",d1,worst,wj); }
         if (!(dotf(X[k]+s0-r1.la,Y[k]+s0,L)>0)){ char sig[64]; snprintf(sig,sizeof sig,"ms_identity:sign:%s",c.lay>=3?"projection":"multistream"); mc_fail(sig,"%s: active output channel not positively correlated with its input",d1); }
         if (fabs(db10(eo[k],ein))>1.0){ char sig[64]; snprintf(sig,sizeof sig,"ms_identity:level:%s",c.lay>=3?"projection":"multistream"); mc_fail(sig,"%s: level of the active channel changed by %+.2f dB (> 1 dB)",d1,db10(eo[k],ein)); }
      }
   }
}

/* ------------------------------------------------------------------ multistream / projection with a <=1-step history */
typedef struct { int lay,fsi,duri,lv; hist h; } mhcfg;
static int nMHFS,MHFSI[5],nMHDUR,MHDURI[9],nMHLV,MHLVI[3];
static long mshist_items(void){ return 6L*nMHFS*nMHDUR*nMHLV*3*NSET*3; }
static void mshist_decode(long it,mhcfg *c){
   c->h.P=it%3; it/=3; c->h.S=it%NSET; it/=NSET; c->h.A=it%3; it/=3; c->lv=MHLVI[it%nMHLV]; it/=nMHLV; c->duri=MHDURI[it%nMHDUR]; it/=nMHDUR; c->fsi=MHFSI[it%nMHFS]; it/=nMHFS; c->lay=(int)it;
}
static void mshist_item(long it,void *ctx){
   mhcfg c; mscfg b; int fs,durx2,nch,perch,fmt,rot,s0,lagl,lagh,k,j,cell,L; runinfo r; fid m; char desc[700]; const char *mt; unsigned mask,sharp=0; fid md; (void)ctx;
   bufs_init(); mshist_decode(it,&c); fs=FSS[c.fsi]; durx2=DURX2[c.duri]; nch=LAYCH[c.lay]; perch=ms_perch_bps(durx2,c.lv);
   b.lay=c.lay; b.fsi=c.fsi; b.app=c.h.A; b.duri=c.duri; b.lv=c.lv; b.cpi=2; b.cbr=0;
   fmt=(int)(it%3); rot=(int)((it/7)%5);
   mc_case("mshist_roundtrip","layout=%s Fs=%d create=%s then %s %s; dur=%.1fms bitrate=%dx%d format=%s rot=%d",LAYN[c.lay],fs,APPN[c.h.A],SETN[c.h.S],PLACEN[c.h.P],durx2/2.0,nch,perch,FMTN[fmt],rot);
   run_ms(&b,fmt,rot,-1,&c.h,&r);
   if (r.rejected) return;
   snprintf(desc,sizeof desc,"layout=%s Fs=%d history: create(application=%s)%s, %s %s -> application now %s; dur=%.1fms bitrate=%dx%d(level %d) complexity=10 VBR format=%s family-rotation=%d [%s %s, %d packets, %ld bytes]",
            LAYN[c.lay],fs,APPN[c.h.A],r.npre?", encode prefix":"",SETN[c.h.S],PLACEN[c.h.P],APPN[r.app_final],durx2/2.0,nch,perch,c.lv,FMTN[fmt],rot,modetag_of(r.modemask),BWN[r.minbw],r.npk,r.bytes);
   if (r.err){ mc_fail("roundtrip_error:mshist","%s: create/ctl/encode/decode failed (stage %d)",desc,r.err); return; }
   lookahead_stable(desc,&r);
   s0=(int)(SKIP_SECONDS*fs); L=r.N-s0;
   lagl=r.la-(r.la<fs/200?r.la:fs/200); lagh=r.la+fs*6/1000;
   mask=(1u<<nch)-1; if (c.lay==1) mask&=~(1u<<5);
   analyse(nch,mask,r.N,fs,r.la,s0,lagl,lagh,r.minbw,&m);
   for(k=0;k<nch;k++) if ((mask>>k&1) && ((k+rot)%5==1||(k+rot)%5==3||(k+rot)%5==4)) sharp|=1u<<k;
   analyse_delay(nch,sharp,r.N,r.la,s0,lagl,lagh,&md); m.best=md.best; m.frac=md.frac; m.snr_best=md.snr_best; m.dsnr_la=md.dsnr_la;
   mt=modetag_of(r.modemask);
   cell=msh_cell(hkind_of(&c.h),c.lay,r.app_final,r.minbw);
   if (dump){ char l[1000]; snprintf(l,sizeof l,"D mshist it=%ld %s | la=%d best=%d frac=%.3f snr_la=%.2f snr_best=%.2f seg=%.2f bgain=%.2f bloss=%.2f nb=%d cell=%d\n",it,desc,m.la,m.best,m.frac,m.snr_la,m.snr_best,m.seg,m.bgain,m.bloss,m.nbands,cell); dumpline(l); }
   judge(desc,cell,&m,fs,r.modemask,mt,2);
   if (m.snr_best>0 && mc_set_add(cells_seen,mc_mix(mc_mix(cell,c.h.P),mc_mix(c.h.A,c.h.S)))){ MC_INC(c_dn);
      if (mc_set_add(sample_classes,mc_mix(mc_mix(c.h.S,c.h.A),mc_mix(c.h.P,c.lay)))) mc_sample("%s -> lookahead=%d (after the run %d), correlation peak at lag %d (%.2f), SNR %.2f dB, segSNR %.2f dB",desc,m.la,r.la2,m.best,m.frac,m.snr_la,m.seg); }
   /* routing / sign as in part ms; not under OPUS_SET_FORCE_CHANNELS(1), which asks the coupled streams to be coded as mono */
   if (c.h.S!=S_FC1){ double ex[MAXCH]; MC_INC(c_ident_checked);
      for(j=0;j<nch;j++) ex[j]=chan_energy(X[j]+s0-r.la,L);
      for(k=0;k<nch;k++){ double ey=chan_energy(Y[k]+s0,L), bestr=0, own=0; int bj=-1;
         for(j=0;j<nch;j++){ double rho=dotf(X[j]+s0-r.la,Y[k]+s0,L)/sqrt(ex[j]*ey+1e-30); if(j==k) own=rho; if(fabs(rho)>fabs(bestr)){bestr=rho;bj=j;} }
         if (fabs(bestr)<0.5) continue;
         if (bj!=k){ char sig[64]; snprintf(sig,sizeof sig,"ms_identity:routing:%s",c.lay>=3?"projection":"multistream"); mc_fail(sig,"%s: output channel %d carries input channel %d (rho %.3f) rather than its own input (rho %.3f)",desc,k,bj,bestr,own); break; }
         if (!(own>0)){ char sig[64]; snprintf(sig,sizeof sig,"ms_identity:sign:%s",c.lay>=3?"projection":"multistream"); mc_fail(sig,"%s: output channel %d is the sign-inverted input channel %d (rho %.3f)",desc,k,k,own); break; }
      }
   }
}

/* ------------------------------------------------------------------ main */
int main(int argc,char **argv){
   const char *mode; int i; long skipped;
   mc_init(argc,argv,"C04","ss");
   mode=mc_arg_s("--mode","ss"); kind=!strcmp(mode,"ms")?1:!strcmp(mode,"hist")?2:!strcmp(mode,"mshist")?3:0; MC.part=kind==1?"ms":kind==2?"hist":kind==3?"mshist":"ss";
   dump=(int)mc_arg("--dump",0); calib_path=mc_arg_s("--calibrate",NULL); calibrating=calib_path!=NULL;
   if (MC.tier){ nDUR=9; for(i=0;i<9;i++) DURI[i]=i; nCPX=3; for(i=0;i<3;i++) CPXI[i]=i; SIG_SECONDS=1.5; SKIP_SECONDS=0.25; PRE_SECONDS=0.0;
      nMSFS=5; for(i=0;i<5;i++) MSFSI[i]=i; nMSDUR=9; for(i=0;i<9;i++) MSDURI[i]=i; nMSCPX=3; for(i=0;i<3;i++) MSCPXI[i]=i;
      /* histories: all rates, frames {2.5,10,20,60} ms, levels {0,2,4}, all six families; ms: {16,48} kHz, {5,20} ms, levels {0,2} */
      nHFS=5; for(i=0;i<5;i++) HFSI[i]=i; nHDUR=4; HDURI[0]=0; HDURI[1]=2; HDURI[2]=3; HDURI[3]=5; nHLV=3; HLVI[0]=0; HLVI[1]=2; HLVI[2]=4; nHFAM=6; for(i=0;i<6;i++) HFAM[i]=i;
      nMHFS=2; MHFSI[0]=2; MHFSI[1]=4; nMHDUR=2; MHDURI[0]=1; MHDURI[1]=3; nMHLV=2; MHLVI[0]=0; MHLVI[1]=2; }
   else { static const int d[6]={0,1,2,3,5,8}; nDUR=6; for(i=0;i<6;i++) DURI[i]=d[i]; nCPX=2; CPXI[0]=0; CPXI[1]=2; SIG_SECONDS=0.6; SKIP_SECONDS=0.16; PRE_SECONDS=0.5;
      nMSFS=2; MSFSI[0]=2; MSFSI[1]=4; nMSDUR=5; { static const int dm[5]={0,1,2,3,5}; for(i=0;i<5;i++) MSDURI[i]=dm[i]; } nMSCPX=1; MSCPXI[0]=2;
      /* histories: {16,48} kHz, frames {5,20,60} ms, levels {0,3}, families {multitone, sweep, band noise, clicks}; ms: 48 kHz, 20 ms, level 1 */
      nHFS=2; HFSI[0]=2; HFSI[1]=4; nHDUR=3; HDURI[0]=1; HDURI[1]=3; HDURI[2]=5; nHLV=2; HLVI[0]=0; HLVI[1]=3; nHFAM=4; HFAM[0]=F_MULTI; HFAM[1]=F_SWEEP; HFAM[2]=F_BANDN; HFAM[3]=F_CLICKS;
      nMHFS=1; MHFSI[0]=4; nMHDUR=1; MHDURI[0]=3; nMHLV=1; MHLVI[0]=1; }
   ncells=kind==0?SS_CELLS:kind==1?MS_CELLS:kind==2?HIST_CELLS:MSH_CELLS;
   CAL=mc_shared(sizeof(cellv)*MAXCELLS);
   for(i=0;i<MAXCELLS;i++){ CAL[i].snr=CAL[i].seg=1000000; CAL[i].bgain=CAL[i].bloss=-1000000; CAL[i].n=0; }
   thr_load();
   c_eval=mc_counter("evaluations"); c_dn=mc_counter("distinct_nontrivial"); c_frames=mc_counter("frames_coded");
   c_delay_checked=mc_counter("delay_clause_checked"); c_delay_exact=mc_counter("delay_clause_checked_exact_to_the_sample"); c_delay_gated=mc_counter("delay_clause_skipped_snr_below_6dB"); c_silkpath=mc_counter("delay_checked_with_silk_in_path");
   c_fid_checked=mc_counter("fidelity_bounds_checked"); c_ident_checked=mc_counter("channel_identity_checked"); c_onehot=mc_counter("onehot_runs");
   c_fallback=mc_counter("cells_without_exact_calibration");
   c_rejected=mc_counter("history_ctl_rejected_not_run"); c_la_requery=mc_counter("lookahead_requeried_after_run");
   cells_seen=mc_set_new(16); sample_classes=mc_set_new(12);
   mc_info("mode=%s tier=%s signal %.2f s (generator pre-advanced %.2f s), analysed from %.2f s; %ld items%s",mode,MC.tier?"thorough":"quick",SIG_SECONDS,PRE_SECONDS,SKIP_SECONDS,kind==0?ss_items():kind==1?ms_items():kind==2?hist_items():mshist_items(),calibrating?" [CALIBRATING]":"");
   skipped = kind==0? mc_par(ss_items(),ss_item,NULL) : kind==1? mc_par(ms_items(),ms_item,NULL) : kind==2? mc_par(hist_items(),hist_item,NULL) : mc_par(mshist_items(),mshist_item,NULL);
   { long used=0; for(i=0;i<ncells;i++) if(CAL[i].n>0) used++; *mc_counter("threshold_cells_exercised")=used; }
   if (calibrating){ if (skipped||MC.only_item>=0) mc_info("calibration NOT written: the grid was not completed"); else cal_write(); }
   return mc_finish();
}
