/* C04 part "onehot" — channel identity and level for EVERY channel count the surround / ambisonics creators accept.
 *
 * The calibrated grid of part `ms` covers six layouts (stereo, 5.1, dual mono, projection orders 1-3).  The identity clause
 * ("channels keep their identity and level: left stays left, no swap, sign flip or gain change") needs no calibration per layout, so it is
 * enumerated here over every layout: mapping family 0 (1, 2 channels), family 1 (1..8 channels: mono, stereo, 3.0, quad, 5.0, 5.1, 6.1, 7.1),
 * family 2 (ambisonics 4, 6, 9, 11 channels), family 255 (3 uncoupled channels) x Fs x application x frame duration x sample format,
 * one run per CHANNEL with only that channel active (5-tone multitone 220..3500 Hz at -14 dBFS; the LFE channel of 5.1/6.1/7.1 gets 45 + 90 Hz
 * because that channel is documented to be band-limited), 1.2 s, 96 kb/s per channel, VBR, complexity 10.
 * Decoded with a multistream decoder built from the mapping the creator returned; compared over the last 0.8 s at the lookahead the encoder reports:
 *   level      : |10 log10(E_out[k]/E_in[k])| <= LEVEL_DB
 *   separation : every other output channel >= SEP_DB below the active one
 *   sign       : <in[k] delayed, out[k]> > 0
 * Thresholds: measured on the unchanged tree over the thorough space (3888 runs): worst level error 0.26 dB, worst LFE-channel level error
 * 2.68 dB, worst separation > 200 dB (the silent inputs decode to digital silence) - see the worst_* counters of every run ->
 * LEVEL_DB 1.0 (the value part `ms` uses), LFE_LEVEL_DB 6.0, SEP_DB 20 (statement-level: "no swap").
 */
#include <stdlib.h>
#include <string.h>
#include <stdio.h>
#include <math.h>
#include "opus.h"
#include "opus_multistream.h"
#include "mc.h"

#define LEVEL_DB 1.0
#define SEP_DB 20.0
#define LFE_LEVEL_DB 6.0   /* the LFE stream is band-limited and given few bits by design: only a gross level change is judged */
typedef struct { int family,ch; } lay_t;
static const lay_t LAY[]={ {0,1},{0,2},{1,1},{1,2},{1,3},{1,4},{1,5},{1,6},{1,7},{1,8},{2,4},{2,6},{2,9},{2,11},{255,3} };
#define NLAY ((int)(sizeof LAY/sizeof LAY[0]))
static const int FSS[3]={48000,16000,24000}; static const int APPS[3]={OPUS_APPLICATION_AUDIO,OPUS_APPLICATION_VOIP,OPUS_APPLICATION_RESTRICTED_LOWDELAY};
static const int DURX2[3]={40,20,10};   /* half ms */
static int nFs=1,nApp=1,nDur=1,nFmt=1;
static mc_ctr *c_eval,*c_trans,*c_states,*c_dn,*c_worstlvl,*c_worstsep,*c_runs,*c_worstlfe;
static mc_set *S_obs;

static int lfe_index(const lay_t *L){ return (L->family==1&&L->ch>=6)?L->ch-1:-1; }

static void item(long it,void *u){
   int li=(int)(it%NLAY), fi=(int)(it/NLAY%nFs), ai=(int)(it/NLAY/nFs%nApp), di=(int)(it/NLAY/nFs/nApp%nDur), fmt=(int)(it/NLAY/nFs/nApp/nDur%nFmt);
   const lay_t *L=&LAY[li]; int fs=FSS[fi],app=APPS[ai],fsz=fs*DURX2[di]/2000,nch=L->ch,S=0,C=0,err=0,k,la=0; unsigned char map[16]; int N=(int)(1.2*fs)/fsz*fsz, nf=N/fsz; (void)u;
   float *x=calloc((size_t)N*nch,sizeof(float)), *y=calloc((size_t)(N+fsz)*nch,sizeof(float)); short *x16=malloc(sizeof(short)*fsz*nch), *y16=malloc(sizeof(short)*fsz*nch); unsigned char pkt[16000];
   for(k=0;k<nch;k++){ OpusMSEncoder *e; OpusMSDecoder *d; int f,i,j,lfe=(k==lfe_index(L)); char what[240]; double ein=0,eo[16],dot=0,worst=1e300; int wj=-1,s0,Lw;
      static const double TF[5]={220,440,1000,2500,3500}, LF[2]={45,90};
      if(L->family==0||L->family==255){ S= L->family==0?1:nch; C= (L->family==0&&nch==2)?1:0; for(i=0;i<nch;i++) map[i]=i; e=opus_multistream_encoder_create(fs,nch,S,C,map,app,&err); }
      else e=opus_multistream_surround_encoder_create(fs,nch,L->family,&S,&C,map,app,&err);
      snprintf(what,sizeof what,"family %d, %d channels (%d streams, %d coupled) Fs=%d app=%d frame=%gms format=%s: only channel %d active%s",L->family,nch,S,C,fs,app,DURX2[di]/2.0,fmt?"int16":"float",k,lfe?" (LFE: 45+90 Hz)":"");
      mc_case("onehot","%s",what);
      if(!e){ mc_fail("onehot:create","%s: encoder create failed (%d)",what,err); break; }
      d=opus_multistream_decoder_create(fs,nch,S,C,map,&err); if(!d){ mc_fail("onehot:create","%s: decoder create failed (%d)",what,err); opus_multistream_encoder_destroy(e); break; }
      opus_multistream_encoder_ctl(e,OPUS_SET_BITRATE(96000*nch)); opus_multistream_encoder_ctl(e,OPUS_SET_COMPLEXITY(10)); opus_multistream_encoder_ctl(e,OPUS_GET_LOOKAHEAD(&la));
      memset(x,0,sizeof(float)*N*nch);
      for(i=0;i<N;i++){ double t=(double)i/fs,v=0; if(lfe){ for(j=0;j<2;j++) v+=sin(2*M_PI*LF[j]*t+j); v*=0.1; } else { for(j=0;j<5;j++) if(TF[j]<fs*0.4) v+=sin(2*M_PI*TF[j]*t+j); v*=0.04; } x[(size_t)i*nch+k]=(float)v; }
      for(f=0;f<nf;f++){ int n,r;
         if(fmt){ for(i=0;i<fsz*nch;i++) x16[i]=(short)lrint(32768.0*x[(size_t)f*fsz*nch+i]); n=opus_multistream_encode(e,x16,fsz,pkt,sizeof pkt); }
         else n=opus_multistream_encode_float(e,x+(size_t)f*fsz*nch,fsz,pkt,sizeof pkt);
         MC_INC(c_trans);
         if(n<=0){ mc_fail("onehot:encode","%s: frame %d encode returned %d",what,f,n); goto next; }
         if(fmt){ r=opus_multistream_decode(d,pkt,n,y16,fsz,0); if(r==fsz) for(i=0;i<fsz*nch;i++) y[(size_t)f*fsz*nch+i]=y16[i]/32768.f; }
         else r=opus_multistream_decode_float(d,pkt,n,y+(size_t)f*fsz*nch,fsz,0);
         if(r!=fsz){ mc_fail("onehot:decode","%s: frame %d decode returned %d",what,f,r); goto next; } }
      /* compare the last 0.8 s: out[i] ~ in[i-la] */
      s0=(int)(0.4*fs); Lw=N-s0;
      for(j=0;j<nch;j++) eo[j]=0;
      for(i=s0;i<N;i++){ double a=x[(size_t)(i-la)*nch+k]; ein+=a*a; dot+=a*y[(size_t)i*nch+k]; for(j=0;j<nch;j++){ double b=y[(size_t)i*nch+j]; eo[j]+=b*b; } }
      MC_INC(c_eval); MC_INC(c_runs); (void)Lw;
      { double lvl=10*log10((eo[k]+1e-30)/(ein+1e-30)); long q=(long)(fabs(lvl)*1000); if(lfe) MC_MAX(c_worstlfe,q); else MC_MAX(c_worstlvl,q);
        for(j=0;j<nch;j++) if(j!=k){ double sep=10*log10((eo[k]+1e-30)/(eo[j]+1e-30)); if(sep<worst){ worst=sep; wj=j; } }
        if(nch>1){ long q2=(long)(1000000-worst*1000); MC_MAX(c_worstsep,q2); }
        if(fabs(lvl)>(lfe?LFE_LEVEL_DB:LEVEL_DB)) mc_fail(lfe?"onehot:level:lfe":"onehot:level","%s: level of the active channel changed by %+.2f dB (> %.1f dB) at lookahead %d",what,lvl,lfe?LFE_LEVEL_DB:LEVEL_DB,la);
        else if(nch>1&&worst<SEP_DB) mc_fail("onehot:separation","%s: only %.2f dB between the active output channel and output channel %d (>= %.0f dB required)",what,worst,wj,SEP_DB);
        else if(!(dot>0)) mc_fail("onehot:sign","%s: active output channel not positively correlated with its input",what);
        else if(mc_set_add(S_obs,mc_mix(mc_mix(li*16+k,fi*9+ai*3+di),fmt))) mc_sample("%s: level %+.2f dB, worst separation %.1f dB (ch %d), lookahead %d",what,lvl,nch>1?worst:0.0,wj,la); }
next:
      opus_multistream_encoder_destroy(e); opus_multistream_decoder_destroy(d);
   }
   free(x); free(y); free(x16); free(y16);
}
int main(int argc,char **argv){
   mc_init(argc,argv,"C04","onehot"); MC.part=mc_arg_s("--name","onehot");
   c_eval=mc_counter("evaluations"); c_trans=mc_counter("transitions"); c_states=mc_counter("states"); c_dn=mc_counter("distinct_nontrivial"); c_runs=mc_counter("one_hot_runs");
   c_worstlvl=mc_counter("worst_abs_level_error_mdB"); c_worstlfe=mc_counter("worst_abs_level_error_lfe_channel_mdB"); c_worstsep=mc_counter("worst_separation_as_1000000_minus_mdB");
   S_obs=mc_set_new(16);
   nFs=(int)mc_arg("--nfs",MC.tier?3:1); nApp=(int)mc_arg("--napp",MC.tier?3:1); nDur=(int)mc_arg("--ndur",MC.tier?3:1); nFmt=(int)mc_arg("--nfmt",MC.tier?2:1);
   mc_info("onehot: %d layouts (families 0, 1 (1..8 ch), 2, 255) x %d rates x %d applications x %d frame durations x %d sample formats, one run per channel",NLAY,nFs,nApp,nDur,nFmt);
   mc_par((long)NLAY*nFs*nApp*nDur*nFmt,item,NULL);
   *c_states=mc_set_count(S_obs); *c_dn=mc_set_count(S_obs);
   return mc_finish();
}
