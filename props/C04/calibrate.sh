#!/bin/sh
# Regenerates the eight C04 threshold tables (thr_<tier>_<part>.h, included by thresholds.h) on the UNCHANGED tree.
# The numbers are deterministic (no clock, no rand, fixed signal seeds), so the machine load does not matter.
#   usage: props/C04/calibrate.sh [quick|thorough|both]     (VERIF_REPO must be unset or /repo)
set -e
cd "$(dirname "$0")/../.."
which=${1:-both}
# build the prod variant and the two harness binaries with the driver's own build functions
python3 - <<'PY'
import importlib.machinery, importlib.util, json
l=importlib.machinery.SourceFileLoader('chk','./check'); sp=importlib.util.spec_from_loader('chk',l); m=importlib.util.module_from_spec(sp); l.exec_module(m)
b=m.build_variant('prod')
for p in json.load(open('props/C04/spec.json'))['parts']: print('built', m.compile_part('C04',p,b,'prod'))
PY
out=/tmp/C04-calib; mkdir -p $out
for tier in quick thorough; do
  [ "$which" = both ] || [ "$which" = "$tier" ] || continue
  for part in ss ms hist mshist; do
    build/bin/C04-$part-prod --tier $tier --mode $part --out $out --calibrate "$PWD/props/C04/thr_${tier}_${part}.h" | grep -E '^@(INFO|STAT (evaluations|failures|exhaustive)|FAIL|CAP)'
  done
done
rm -rf $out
echo "now run: ./check C04 --tier quick && ./check C04 --tier thorough"
