/* C09 part "switch" — packet loss around MODE SWITCHES: every loss pattern over a window that covers a SILK/hybrid/CELT -> other -> other
 * double switch (the packets that carry the 5 ms redundancy frames, both directions), explored as a snapshot tree on the real decoder.
 *
 * streams  : FROZEN encoder (ref_ build), 48 kHz, mono / stereo, speech-like signal, VBR, rate high enough for redundancy; the mode is
 *            forced per segment: X x4 packets, Y x n2 packets (n2 = 1,2,3), Z x4 packets for every ordered triple X!=Y, Y!=Z over
 *            {SILK-only WB, hybrid FB, CELT-only FB} (12 triples), frames of 20 ms and 10 ms.
 * window   : packets 2 .. 2+K-1 (K = 4 + n2 + 2 <= 9: from two packets before the first switch to two after the second); each packet
 *            of the window is {received, lost}: all 2^K patterns; tree node = decoder image (memcpy), child = ONE call.
 * shapes   : a lost packet is concealed by PLC (decode(NULL)) of its duration; or, shape "fec", recovered from the next packet with
 *            decode_fec=1 when that packet is received (PLC otherwise).
 * decoders : the stream's own rate/channels (48 kHz, ch) and 16 kHz mono.
 * oracle (statement clauses that need no calibration): every call returns exactly the requested duration and writes every sample
 * (sentinel pre-fill) with finite values; every RECEIVED packet decodes to its duration and leaves OPUS_GET_FINAL_RANGE equal to the
 * range the encoder reported for that packet, whatever was lost before it.
 */
#include <stdlib.h>
#include <string.h>
#include <stdio.h>
#include <math.h>
#include "opus.h"
#include "mc.h"
#include "signals.h"
#include "ref_api.h"

#define MAXPK 16
typedef struct { char name[120]; int ch,dur48,np; unsigned char *pk[MAXPK]; int len[MAXPK]; opus_uint32 rng[MAXPK]; int mode[MAXPK]; int w0,K; } stream_t;
static stream_t *ST; static int NST;
static const int MODES[3]={REF_MODE_SILK_ONLY,REF_MODE_HYBRID,REF_MODE_CELT_ONLY};
static const char *const MN[3]={"silk","hybrid","celt"};
static mc_ctr *c_trans,*c_eval,*c_states,*c_dn,*c_pat,*c_recv,*c_plc,*c_fec,*c_red;
static mc_set *S_states,*S_obs;

static void build(int ch,int dur_x10,int x,int y,int z,int n2){
   stream_t *s=&ST[NST++]; int err,i,fsz=48000/10000*dur_x10*1, seg[3]={4,n2,4}, md[3]={x,y,z}, k=0; OpusEncoder *e=ref_opus_encoder_create(48000,ch,OPUS_APPLICATION_VOIP,&err); siggen g; short *pcm; unsigned char out[1500];
   fsz=(int)(48000L*dur_x10/10000);
   if(!e){ fprintf(stderr,"c09 switch: encoder_create %d\n",err); exit(2); }
   memset(s,0,sizeof *s); s->ch=ch; s->dur48=fsz; snprintf(s->name,sizeof s->name,"%s x4 -> %s x%d -> %s x4, %g ms, %s",MN[x],MN[y],n2,MN[z],dur_x10/10.0,ch==1?"mono":"stereo");
   ref_opus_encoder_ctl(e,OPUS_SET_BITRATE(ch==1?40000:64000)); ref_opus_encoder_ctl(e,OPUS_SET_INBAND_FEC(1)); ref_opus_encoder_ctl(e,OPUS_SET_PACKET_LOSS_PERC(15));
   sig_init(&g,SIG_SPEECH,48000,ch,(uint32_t)(NST*3+1)); pcm=malloc(sizeof(short)*ch*fsz);
   for(i=0;i<3;i++){ int j; ref_opus_encoder_ctl(e,OPUS_SET_FORCE_MODE(MODES[md[i]])); ref_opus_encoder_ctl(e,OPUS_SET_BANDWIDTH(md[i]==0?OPUS_BANDWIDTH_WIDEBAND:OPUS_BANDWIDTH_FULLBAND));
      for(j=0;j<seg[i];j++){ int n; sig_gen(&g,pcm,fsz); n=ref_opus_encode(e,pcm,fsz,out,1500); if(n<0){ fprintf(stderr,"c09 switch: encode %d\n",n); exit(2); }
         s->pk[k]=malloc(n); memcpy(s->pk[k],out,n); s->len[k]=n; ref_opus_encoder_ctl(e,OPUS_GET_FINAL_RANGE(&s->rng[k])); s->mode[k]= (out[0]&0x80)?2:((out[0]&0x60)==0x60?1:0); k++; } }
   s->np=k; s->w0=2; s->K=4+n2+2-2; if(s->w0+s->K>s->np) s->K=s->np-s->w0;
   free(pcm); ref_opus_encoder_destroy(e);
}

typedef struct { const stream_t *s; int fs,ch,sz,shape,DUR; char what[220]; float *out; } ctx_t;
/* one call on decoder image d; data==NULL: PLC. returns 1 ok */
static int call(ctx_t *c,OpusDecoder *d,const unsigned char *data,int len,int fec,int pki,const char *kind,unsigned pattern,int pos){
   int n=c->DUR*c->ch,r,i; uint32_t u; const char *sigk=data?(fec?"fec":"recv"):"plc"; char sig[64];
   mc_case("switch_decode","%s dec %dHz/%dch shape=%s pattern=%03x pos=%d %s",c->s->name,c->fs,c->ch,c->shape?"fec":"plc",pattern,pos,kind);
   memset(c->out,0xFF,sizeof(float)*n);
   r=opus_decode_float(d,data,len,c->out,c->DUR,fec); MC_INC(c_trans); MC_INC(c_eval);
   if(r!=c->DUR){ snprintf(sig,sizeof sig,"count:switch:%s",sigk); mc_fail(sig,"%s dec %dHz/%dch pattern=%03x packet %d (%s): returned %d, requested %d",c->s->name,c->fs,c->ch,pattern,pki,kind,r,c->DUR); return 0; }
   for(i=0;i<n;i++){ memcpy(&u,&c->out[i],4); if(u==0xFFFFFFFFu){ snprintf(sig,sizeof sig,"unwritten:switch:%s",sigk); mc_fail(sig,"%s dec %dHz/%dch pattern=%03x packet %d (%s): sample %d never written",c->s->name,c->fs,c->ch,pattern,pki,kind,i); return 0; }
      if(!(fabsf(c->out[i])<=3.0e38f)){ snprintf(sig,sizeof sig,"nonfinite:switch:%s",sigk); mc_fail(sig,"%s dec %dHz/%dch pattern=%03x packet %d (%s): sample %d = %g",c->s->name,c->fs,c->ch,pattern,pki,kind,i,c->out[i]); return 0; } }
   if(data&&!fec){ opus_uint32 rng=0; opus_decoder_ctl(d,OPUS_GET_FINAL_RANGE(&rng)); MC_INC(c_recv);
      if(rng!=c->s->rng[pki]){ snprintf(sig,sizeof sig,"range:switch:received:%s",MN[c->s->mode[pki]]);
         mc_fail(sig,"%s dec %dHz/%dch shape=%s pattern=%03x (bit i set = packet %d+i lost): packet %d (%s, %d bytes) was received but the decoder's final range is %08x, the encoder's %08x",c->s->name,c->fs,c->ch,c->shape?"fec":"plc",pattern,c->s->w0,pki,MN[c->s->mode[pki]],len,rng,c->s->rng[pki]); return 0; } }
   else if(data) MC_INC(c_fec); else MC_INC(c_plc);
   return 1;
}
/* DFS over window positions; img[lvl] = decoder image before packet w0+lvl; pend = 1 if packet w0+lvl-1 was lost and is still to be recovered by FEC from the next */
static void dfs(ctx_t *c,unsigned char **img,int lvl,unsigned pattern,int pend){
   const stream_t *s=c->s; int pki=s->w0+lvl;
   if(lvl==s->K){ /* tail: everything received */
      OpusDecoder *d=(OpusDecoder*)img[lvl]; int i;
      if(pend){ if(!call(c,d,s->pk[pki],s->len[pki],1,pki-1,"fec from next",pattern,lvl)) return; }
      for(i=pki;i<s->np;i++) if(!call(c,d,s->pk[i],s->len[i],0,i,"received (tail)",pattern,lvl)) return;
      MC_INC(c_pat); mc_set_add(S_obs,mc_mix(mc_mix((uint64_t)(s-ST),c->fs+c->shape),pattern)); return; }
   mc_set_add(S_states,mc_hash(img[lvl],c->sz,mc_mix(lvl,pend)));
   /* received */
   memcpy(img[lvl+1],img[lvl],c->sz);
   { OpusDecoder *d=(OpusDecoder*)img[lvl+1]; int ok=1;
     if(pend) ok=call(c,d,s->pk[pki],s->len[pki],1,pki-1,"fec from next",pattern,lvl);
     if(ok&&call(c,d,s->pk[pki],s->len[pki],0,pki,"received",pattern,lvl)) dfs(c,img,lvl+1,pattern,0); }
   /* lost */
   memcpy(img[lvl+1],img[lvl],c->sz);
   { OpusDecoder *d=(OpusDecoder*)img[lvl+1]; int ok=1;
     if(pend) ok=call(c,d,NULL,0,0,pki-1,"plc (next lost too)",pattern|(1u<<lvl),lvl);
     if(ok){ if(c->shape==1) dfs(c,img,lvl+1,pattern|(1u<<lvl),1);
             else if(call(c,d,NULL,0,0,pki,"plc",pattern|(1u<<lvl),lvl)) dfs(c,img,lvl+1,pattern|(1u<<lvl),0); } }
}
static void item(long it,void *u){
   int si=(int)(it/4), dv=(int)(it/2%2), shape=(int)(it%2), i; const stream_t *s=&ST[si]; ctx_t c; unsigned char *img[MAXPK+2]; OpusDecoder *d; (void)u;
   memset(&c,0,sizeof c); c.s=s; c.fs=dv?16000:48000; c.ch=dv?1:s->ch; c.shape=shape; c.DUR=(int)((long)s->dur48*c.fs/48000); c.sz=opus_decoder_get_size(c.ch);
   c.out=malloc(sizeof(float)*c.DUR*c.ch);
   for(i=0;i<=s->K+1;i++) img[i]=malloc(c.sz);
   d=(OpusDecoder*)img[0]; if(opus_decoder_init(d,c.fs,c.ch)!=OPUS_OK){ mc_fail("harness:init","decoder init"); return; }
   for(i=0;i<s->w0;i++) if(!call(&c,d,s->pk[i],s->len[i],0,i,"received (head)",0,-1)) goto out;
   dfs(&c,img,0,0,0);
out:
   for(i=0;i<=s->K+1;i++) free(img[i]); free(c.out);
}
int main(int argc,char **argv){
   int ch,di,x,y,z,n2,ndur;
   mc_init(argc,argv,"C09","switch"); MC.part=mc_arg_s("--part","switch");
   c_trans=mc_counter("transitions"); c_eval=mc_counter("evaluations"); c_states=mc_counter("states"); c_dn=mc_counter("distinct_nontrivial");
   c_pat=mc_counter("loss_patterns"); c_recv=mc_counter("received_decodes"); c_plc=mc_counter("plc_calls"); c_fec=mc_counter("fec_calls"); c_red=mc_counter("streams");
   S_states=mc_set_new(24); S_obs=mc_set_new(22);
   ndur=(int)mc_arg("--ndur",MC.tier?2:1);
   ST=calloc(12*3*2*2+4,sizeof *ST);
   for(ch=1;ch<=2;ch++) for(di=0;di<ndur;di++) for(x=0;x<3;x++) for(y=0;y<3;y++) for(z=0;z<3;z++) for(n2=1;n2<=3;n2++){ if(x==y||y==z) continue; if(!MC.tier&&n2==2&&ch==2) continue; build(ch,di?100:200,x,y,z,n2); }
   *c_red=NST;
   mc_info("switch: %d streams (12 mode triples x middle segment 1..3 packets x mono/stereo x %d frame durations) x 2 decoders x {plc,fec} x all 2^K loss patterns (K<=9)",NST,ndur);
   mc_par((long)NST*4,item,NULL);
   *c_states=mc_set_count(S_states); *c_dn=mc_set_count(S_obs);
   return mc_finish();
}
