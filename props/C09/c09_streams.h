/* c09_streams.h — stream configurations for C09 (packet loss), built on mc/corpus.h.
 * Streams come from the FROZEN reference encoder (ref_*), FEC on / expected loss 20 %, fixed mode, so that
 * editing the tree's encoder cannot change what the decoder under test is fed (DESIGN 3.3 / 4 C09).
 * A stream is ~48 packets (more for short frames so that it spans several syllables); burst items ask for
 * a stream long enough to hold a 10 s gap plus the recovery tail. */
#ifndef C09_STREAMS_H
#define C09_STREAMS_H
#include "corpus.h"

typedef struct { int mode, bw, dur_x10, bitrate1, bitrate2; const char *tag; } c09_class;
/* class index is the key of the calibrated threshold tables in c09_loss.c */
enum { K_SILK_NB20, K_SILK_NB60, K_SILK_WB20, K_SILK_WB60, K_HYB_FB20, K_CELT_2_5, K_CELT_10, K_CELT_20, K_NCLASS };
static const c09_class c09_classes[K_NCLASS] = {
   { REF_MODE_SILK_ONLY, BWN, 200, 20000, 26000, "silk-nb-20ms" },
   { REF_MODE_SILK_ONLY, BWN, 600, 20000, 26000, "silk-nb-60ms" },
   { REF_MODE_SILK_ONLY, BWW, 200, 24000, 40000, "silk-wb-20ms" },
   { REF_MODE_SILK_ONLY, BWW, 600, 24000, 40000, "silk-wb-60ms" },
   { REF_MODE_HYBRID,    BWF, 200, 40000, 64000, "hybrid-fb-20ms" },
   { REF_MODE_CELT_ONLY, BWF,  25, 96000, 160000, "celt-fb-2.5ms" },
   { REF_MODE_CELT_ONLY, BWF, 100, 64000, 96000, "celt-fb-10ms" },
   { REF_MODE_CELT_ONLY, BWF, 200, 64000, 96000, "celt-fb-20ms" },
};

typedef struct { int klass, ch, sig, decfs; char name[80]; int ench; /* encoder channels when they differ from the decoder's (ch); 0 = same */ } c09_cfg;

/* signal families: the two shared ones (mc/signals.h) plus two level-stepping voiced families generated here. The concealment code reads
 * from the last good frame: SILK the gains of its last two 5 ms sub-frames, the LTP taps, the pitch lag, the signal type and the noise
 * scale; CELT the pitch, the band energies and the loss duration. The stepping families put level steps (ratios 2..20, both directions),
 * onsets, decays and voiced<->unvoiced switches at every sub-frame offset: their segment lengths (47 ms, 13 ms) are incommensurate with the
 * 2.5..60 ms frames, so the loss positions of a window meet steps in every alignment. */
#define C09_SIG_STEP47 100
#define C09_SIG_STEP13 101
#define C09_NSIG 4
static const char *const c09_signame[C09_NSIG]={"speech","tone","steps47","steps13"};
static int c09_sigk(int sig){ return sig==SIG_SPEECH?0:sig==SIG_MULTITONE?1:sig==C09_SIG_STEP47?2:3; }
static const int c09_sigid[C09_NSIG]={SIG_SPEECH,SIG_MULTITONE,C09_SIG_STEP47,C09_SIG_STEP13};

static void c09_cfg_name(c09_cfg *c){
   if (c->ench && c->ench!=c->ch) snprintf(c->name,sizeof c->name,"%s/%s-stream-into-%s-decoder/%s/dec%dk",c09_classes[c->klass].tag,c->ench==1?"mono":"stereo",c->ch==1?"mono":"stereo",c09_signame[c09_sigk(c->sig)],c->decfs/1000);
   else snprintf(c->name,sizeof c->name,"%s/%s/%s/dec%dk",c09_classes[c->klass].tag,c->ch==1?"mono":"stereo",c09_signame[c09_sigk(c->sig)],c->decfs/1000);
}
/* voiced source: f0 = 150 +- 20 Hz, 10 harmonics with 1/h roll-off (peak ~1.85 x level), plus 10 LSB of noise.
 * steps47: the level holds one of 8 values for 47 ms each: 400 ->x20 8000 ->/5 1600 ->x2 3200 ->/10 320 ->x20 6400 ->/2 3200 ->/5 640 ->/1.6 400 ...
 * steps13: 13 ms segments, level from {500,5000,1000,10000,500,2500,8000} (x10 /5 x10 /20 x5 x3.2 /16); every 5th segment is UNVOICED (white
 *          noise at that level: voiced<->unvoiced switches), segments 4 mod 7 DECAY exponentially (tau 5 ms), segments 6 mod 7 are ONSETS
 *          (linear ramp over their first 5 ms). */
typedef struct { long n; double ph; uint32_t lcg; } c09_gen;
static double c09_rnd(c09_gen *g){ g->lcg=g->lcg*1664525u+1013904223u; return ((g->lcg>>8)&0xFFFF)/32768.0-1.0; }
static void c09_gen_fill(c09_gen *g,int fam,int fs,int ch,short *out,int ns){
   static const double LA[8]={400,8000,1600,3200,320,6400,3200,640}, LB[7]={500,5000,1000,10000,500,2500,8000};
   int i,h,c;
   for(i=0;i<ns;i++){
      double t=(double)g->n/fs, f0=150+20*sin(2*M_PI*0.5*t), v=0, lvl, x; int voiced=1;
      g->n++; g->ph+=2*M_PI*f0/fs; if (g->ph>2*M_PI) g->ph-=2*M_PI;
      if (fam==C09_SIG_STEP47) lvl=LA[(long)(t/0.047)%8];
      else { long seg=(long)(t/0.013); double tau=t-seg*0.013; lvl=LB[seg%7];
         if (seg%5==3) voiced=0;
         if (seg%7==4) lvl*=exp(-tau/0.005); else if (seg%7==6 && tau<0.005) lvl*=tau/0.005; }
      if (voiced) for(h=1;h<=10;h++) v+=sin(h*g->ph)/h; else v=1.5*c09_rnd(g);
      x=lvl*v+10*c09_rnd(g);
      for(c=0;c<ch;c++) out[i*ch+c]=(short)sig_clip16(c?0.7*x:x);
   }
}
/* number of packets of the short (tree) stream for a class: last window + 12 + room for the convergence deadline */
static int c09_tree_packets(int klass){ int d=c09_classes[klass].dur_x10; return d==600?72:d==200?120:d==100?152:480; }
/* window offsets (packet index of the first packet whose fate is chosen): early, mid-syllable, and one that runs into the
   speech-like signal's pause at t = 1.0 s; the fourth (thorough only) is the very start of the stream */
static int c09_offsets(int klass,int *off){ int d=c09_classes[klass].dur_x10;
   if (d==600){ off[0]=6; off[1]=13; off[2]=24; off[3]=0; }
   else if (d==200){ off[0]=6; off[1]=24; off[2]=45; off[3]=0; }
   else if (d==100){ off[0]=12; off[1]=58; off[2]=95; off[3]=0; }
   else { off[0]=40; off[1]=150; off[2]=396; off[3]=0; }
   return 4; }

/* build the stream: npk packets after 2 warm-up frames the decoder never sees */
static void c09_build(corpus *cp,const c09_cfg *c,int npk){
   const c09_class *k=&c09_classes[c->klass]; ccfg cc; int app, ech=c->ench?c->ench:c->ch;
   cc.mode=k->mode; cc.bw=k->bw; cc.dur_x10=k->dur_x10; cc.ch_force=0; cc.bitrate=ech==1?k->bitrate1:k->bitrate2;
   app = k->mode==REF_MODE_CELT_ONLY ? OPUS_APPLICATION_AUDIO : OPUS_APPLICATION_VOIP;
   memset(cp,0,sizeof *cp);
   if (c->sig<100){ corpus_stream(cp,c->name,48000,ech,app,c->sig,&cc,npk+2,NULL,0,1,0,0,2); return; }
   {  /* same encoder set-up as corpus_stream (FEC on, expected loss 20 %, forced mode / bandwidth / bitrate), own signal */
      int err,i,sid,fsz=(int)(48000L*cc.dur_x10/10000); OpusEncoder *e=ref_opus_encoder_create(48000,ech,app,&err); c09_gen g; short *pcm; unsigned char out[1500];
      if(!e){ fprintf(stderr,"c09: encoder_create failed %d\n",err); exit(2); }
      sid=corpus_new_stream(cp,c->name,48000,ech); cp->s[sid].mode=cc.mode; cp->s[sid].bw=cc.bw; cp->s[sid].dur_x10=cc.dur_x10; cp->s[sid].fec=1;
      memset(&g,0,sizeof g); g.lcg=12345u; pcm=malloc(sizeof(short)*ech*fsz);
      ref_opus_encoder_ctl(e,OPUS_SET_INBAND_FEC(1)); ref_opus_encoder_ctl(e,OPUS_SET_PACKET_LOSS_PERC(20));
      corpus_apply(e,&cc);
      for(i=0;i<npk+2;i++){ int n; opus_uint32 rng=0;
         c09_gen_fill(&g,c->sig,48000,ech,pcm,fsz);
         n=ref_opus_encode(e,pcm,fsz,out,1500); if(n<0){ fprintf(stderr,"c09: encode failed %d (%s)\n",n,c->name); exit(2); }
         ref_opus_encoder_ctl(e,OPUS_GET_FINAL_RANGE(&rng));
         if (i>=2) corpus_push(cp,out,n,sid,i,rng,cc.dur_x10*48/10,0); }
      cp->s[sid].n=cp->n-cp->s[sid].first; free(pcm); ref_opus_encoder_destroy(e);
   }
}
static void c09_free(corpus *cp){ int i; for(i=0;i<cp->n;i++) free(cp->p[i].data); free(cp->p); free(cp->s); memset(cp,0,sizeof *cp); }
#endif
