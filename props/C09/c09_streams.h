/* c09_streams.h — stream configurations for C09 (packet loss), built on mc/corpus.h.
 * Streams come from the FROZEN reference encoder (ref_*), FEC on / expected loss 20 %, fixed mode, so that
 * editing the tree's encoder cannot change what the decoder under test is fed (DESIGN 3.3 / 4 C09).
 * A stream is ~48 packets (more for short frames so that it spans several syllables); burst items ask for
 * a stream long enough to hold a 10 s gap plus the recovery tail. */
#ifndef C09_STREAMS_H
#define C09_STREAMS_H
#include "corpus.h"

typedef struct { int mode, bw, dur_x10, bitrate1, bitrate2; const char *tag; } c09_class;
/* class index is the key of the calibrated threshold tables in c09_loss.c */
enum { K_SILK_NB20, K_SILK_NB60, K_SILK_WB20, K_SILK_WB60, K_HYB_FB20, K_CELT_2_5, K_CELT_10, K_CELT_20, K_NCLASS };
static const c09_class c09_classes[K_NCLASS] = {
   { REF_MODE_SILK_ONLY, BWN, 200, 20000, 26000, "silk-nb-20ms" },
   { REF_MODE_SILK_ONLY, BWN, 600, 20000, 26000, "silk-nb-60ms" },
   { REF_MODE_SILK_ONLY, BWW, 200, 24000, 40000, "silk-wb-20ms" },
   { REF_MODE_SILK_ONLY, BWW, 600, 24000, 40000, "silk-wb-60ms" },
   { REF_MODE_HYBRID,    BWF, 200, 40000, 64000, "hybrid-fb-20ms" },
   { REF_MODE_CELT_ONLY, BWF,  25, 96000, 160000, "celt-fb-2.5ms" },
   { REF_MODE_CELT_ONLY, BWF, 100, 64000, 96000, "celt-fb-10ms" },
   { REF_MODE_CELT_ONLY, BWF, 200, 64000, 96000, "celt-fb-20ms" },
};

typedef struct { int klass, ch, sig, decfs; char name[80]; } c09_cfg;

static void c09_cfg_name(c09_cfg *c){
   snprintf(c->name,sizeof c->name,"%s/%s/%s/dec%dk",c09_classes[c->klass].tag,c->ch==1?"mono":"stereo",c->sig==SIG_SPEECH?"speech":"tone",c->decfs/1000);
}
/* number of packets of the short (tree) stream for a class: last window + 12 + room for the convergence deadline */
static int c09_tree_packets(int klass){ int d=c09_classes[klass].dur_x10; return d==600?72:d==200?120:d==100?152:480; }
/* window offsets (packet index of the first packet whose fate is chosen): early, mid-syllable, and one that runs into the
   speech-like signal's pause at t = 1.0 s; the fourth (thorough only) is the very start of the stream */
static int c09_offsets(int klass,int *off){ int d=c09_classes[klass].dur_x10;
   if (d==600){ off[0]=6; off[1]=13; off[2]=24; off[3]=0; }
   else if (d==200){ off[0]=6; off[1]=24; off[2]=45; off[3]=0; }
   else if (d==100){ off[0]=12; off[1]=58; off[2]=95; off[3]=0; }
   else { off[0]=40; off[1]=150; off[2]=396; off[3]=0; }
   return 4; }

/* build the stream: npk packets after 2 warm-up frames the decoder never sees */
static void c09_build(corpus *cp,const c09_cfg *c,int npk){
   const c09_class *k=&c09_classes[c->klass]; ccfg cc; int app;
   cc.mode=k->mode; cc.bw=k->bw; cc.dur_x10=k->dur_x10; cc.ch_force=0; cc.bitrate=c->ch==1?k->bitrate1:k->bitrate2;
   app = k->mode==REF_MODE_CELT_ONLY ? OPUS_APPLICATION_AUDIO : OPUS_APPLICATION_VOIP;
   memset(cp,0,sizeof *cp);
   corpus_stream(cp,c->name,48000,c->ch,app,c->sig,&cc,npk+2,NULL,0,1,0,0,2);
}
static void c09_free(corpus *cp){ int i; for(i=0;i<cp->n;i++) free(cp->p[i].data); free(cp->p); free(cp->s); memset(cp,0,sizeof *cp); }
#endif
