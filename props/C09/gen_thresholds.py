#!/usr/bin/env python3
"""gen_thresholds.py CALIBRATION.txt > c09_thresholds.h

Turns the per-configuration extremes measured by `c09_loss --tier thorough --calib 1` on the UNCHANGED tree (lines
"CAL name=... key=value ...") into the threshold tables used by the check (DESIGN G1: measured extreme over the whole
explored space, relaxed by >= 2x for ratios / packet counts and >= 3 dB for levels). Keys: class x signal family
(x voice-activity bit for level / decay). A key that was never exercised gets a vacuous entry (marked in the comment)."""
import sys, math, re

NCLASS = 8
NSIG = 4    # speech, tone, steps47, steps13
TAGS = ["silk-nb-20ms", "silk-nb-60ms", "silk-wb-20ms", "silk-wb-60ms", "hybrid-fb-20ms", "celt-fb-2.5ms", "celt-fb-10ms", "celt-fb-20ms"]
CELT = {5, 6, 7}
def tailroom(k):            # must mirror tailroom() in c09_loss.c
    if k in CELT: return 64 if k == 5 else 40
    return 20 if k in (1, 3) else 44
NSTAY_TAIL = 4

rows = []
for line in open(sys.argv[1]):
    if not line.startswith("CAL "): continue
    d = dict(kv.split("=", 1) for kv in line.split()[1:])
    rows.append(d)
if not rows: sys.exit("no CAL lines")

def f(x):
    try:
        v = float(x)
        return None if math.isnan(v) else v
    except ValueError: return None

def ext(k, s, key, fn):
    vals = [f(r[key]) for r in rows if int(r["klass"]) == k and int(r["sig"]) == s]
    vals = [v for v in vals if v is not None]
    return fn(vals) if vals else None

out = []
def table2(name, key, fn, relax, vac, cmt, ctype="double", fmt="%.2f"):
    ent = []; meas = []
    for k in range(NCLASS):
        row = []; mrow = []
        for s in range(NSIG):
            m = ext(k, s, key, fn); mrow.append("n/a" if m is None else fmt % m)
            row.append(vac if m is None else relax(m))
        ent.append(row); meas.append(mrow)
    out.append("/* %s\n   measured [class][speech,tone,steps47,steps13]: %s */" % (cmt, " ".join("{%s}" % ",".join(m) for m in meas)))
    out.append("static const %s %s[K_NCLASS][C09_NSIG]={%s};" % (ctype, name, ",".join("{%s}" % ",".join((fmt % v) if ctype == "double" else str(v) for v in r) for r in ent)))

def table3(name, keys, fn, relax, vac, cmt):
    ent = []; meas = []
    for k in range(NCLASS):
        row = []; mrow = []
        for s in range(NSIG):
            pair = []; mp = []
            for key in keys:     # order: [vad=0, vad=1]
                m = ext(k, s, key, fn); mp.append("n/a" if m is None else "%.2f" % m)
                pair.append(vac if m is None else relax(m))
            row.append(pair); mrow.append(mp)
        ent.append(row); meas.append(mrow)
    out.append("/* %s\n   measured [class][speech,tone,steps47,steps13][novad,vad]: %s */" % (cmt, " ".join("{%s}" % ",".join("{%s}" % ",".join(p) for p in r) for r in meas)))
    out.append("static const double %s[K_NCLASS][C09_NSIG][2]={%s};" % (name, ",".join("{%s}" % ",".join("{%s}" % ",".join("%.2f" % v for v in p) for p in r) for r in ent)))

up2 = lambda m: math.ceil(max(2.0 * m, 2.0) * 100) / 100.0          # ratios: >= 2x the measured maximum
dn3 = lambda m: math.floor((m - 3.0) * 10) / 10.0                  # dB minima: >= 3 dB below the measured minimum

table3("T_KAPPA", ["kappa_novad_max", "kappa_vad_max"], max, up2, 99.0,
       "O3: concealed peak <= T_KAPPA x peak of the last 40 ms before the loss run (2x the measured maximum ratio)")
table2("T_KAPPA_L", "kappa_lbrr_max", max, up2, 99.0,
       "O3: LBRR reconstruction peak <= T_KAPPA_L x max(pre-loss peak, true frame peak) (2x measured maximum)")
table3("T_DECAY", ["decay_novad_min", "decay_vad_min"], min, dn3, -99.0,
       "O4: >= 400 ms into a loss run a concealment call is at least T_DECAY dB below the pre-loss level (measured minimum - 3 dB)")
table2("T_DSNR_ITEM", "dsnr_item_min", min, dn3, -99.0,
       "O6a: per tree, PLC error energy / FEC error energy over all LBRR FEC events, dB (measured minimum - 3 dB)")
table2("T_SNRFEC_ITEM", "snrfec_item_min", min, dn3, -99.0,
       "O6b: per tree, SNR of the FEC reconstructions against the loss-free twin, dB (measured minimum - 3 dB)")
table2("T_DSNR_EV", "dsnr_ev_min", min, dn3, -99.0,
       "O6c: single FEC event, PLC error / FEC error, dB (measured minimum - 3 dB): FEC is never much worse than PLC")
table2("T_STAY", "stay_min", min, lambda m: min(dn3(m), 27.0), -99.0,
       "O7b: after convergence every audible received packet stays at >= T_STAY dB SNR against the twin (measured minimum - 3 dB, never above the 27 dB convergence criterion)")

# convergence deadline: 2x the largest measured convergence time (+1); 0 = no deadline (never converged within the tail room somewhere)
ent = []; meas = []
for k in range(NCLASS):
    row = []; mrow = []
    for s in range(NSIG):
        a = ext(k, s, "tconv_tree_max", max); b = ext(k, s, "tconv_burst_max", max)
        m = max([v for v in (a, b) if v is not None], default=None)
        mrow.append("n/a" if m is None else "%d" % m)
        if m is None: row.append(-1)      # never measured: no deadline, tails not cut
        else:
            d = int(2 * m + 1)
            row.append(d if d + NSTAY_TAIL + 2 <= tailroom(k) else 0)
    ent.append(row); meas.append(mrow)
out.append("/* O7a: within T_NCONV audible packets after reception resumes two consecutive packets are >= 27 dB SNR from the twin\n"
           "   (2 x measured maximum + 1; 0 = no deadline, -1 = key never measured: the measured time, or its lower bound where the tail room ended first, does not fit twice into the tail room)\n"
           "   measured [class][speech,tone,steps47,steps13]: %s */" % " ".join("{%s}" % ",".join(m) for m in meas))
out.append("static const int T_NCONV[K_NCLASS][C09_NSIG]={%s};" % ",".join("{%s}" % ",".join(str(v) for v in r) for r in ent))

print("/* c09_thresholds.h - GENERATED by gen_thresholds.py from %s (%d configurations); do not edit by hand.\n"
      "   class order: %s */" % (sys.argv[1].split("/")[-1], len(rows), ", ".join(TAGS)))
print("\n".join(out))
