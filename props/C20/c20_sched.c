/* C20 / part E2 — activity schedules on the real encoder (and the tree decoder), explored as a DFS with
 * encoder snapshots (memcpy of the flat OpusEncoder image).
 *
 * item          = one configuration of the grid
 *                   Fs {8,16,48 kHz} x channels {1,2} x application {VOIP,AUDIO,RESTRICTED_LOWDELAY} x complexity {5,7,10}
 *                   x frame duration {2.5,5,10,20,40,60,80,100,120 ms} x {VBR,CBR} x bitrate {12k,32k,96k} x DTX {on,off}
 *                 (a tier may take a stated sub-grid, see --cfgset); every configuration is explored under all passes of the tier.
 * input / frame = digital silence | robustly active signal (FM tone 250 Hz + 1800 Hz tone + white noise, about -6 dBFS peak,
 *                 taken from one fixed time line so that an active frame at time t is always the same samples)
 * schedules     = after a >= 400 ms all-active warm-up: every activity sequence over a 1.6 s horizon that is constant
 *                 between the points of a grid (step = largest multiple of the frame duration <= g, at least one frame)
 *                 and has at most k switch points; a final active segment (no switch left) is followed for
 *                 max(3 frames, 60 ms), every other segment to the horizon.  A pass is "k:g:n1" (n1 > 0 restricts the FIRST
 *                 switch - the moment the initial activity stops - to the first n1 grid points; 0 = anywhere); a tier runs
 *                 several passes per configuration (--passes for DTX-on, --passes-off for DTX-off configurations).
 *                 Plus, per DTX-on configuration, one long gap (--long ms of silence, then activity; 5 s = the statement's bound).
 *                 Explored depth-first; the encoder image at a branch point is memcpy'd, so each schedule shares the
 *                 encodes of its prefix.  states = distinct (configuration, encoder image, monitor, position, switches used)
 *                 at grid points.
 * oracle (statement only; a "DTX packet" is a packet of <= 2 bytes as the statement defines it):
 *   onset_late / onset_early  (only when the activity analysis runs: complexity >= 7 [>= 10 in the fixed-point build], Fs >= 16 kHz)
 *                   the first DTX packet of a silent stretch starts within one frame duration of the 200 ms mark
 *   run_too_long    a maximal run of DTX packets lasts < 400 ms + one frame duration           (every configuration)
 *   in_dtx_false    OPUS_GET_IN_DTX is true after every DTX packet                              (every configuration, DTX on)
 *   resume_not_coded the first active frame after silence is > 2 bytes                          (every configuration)
 *   dtxoff_tiny_*   DTX off: no packet <= 2 bytes when bitrate*T/8 >= 3 and max_data_bytes >= 3
 *   encode_error    opus_encode fails
 * --mode dec: the produced stream is decoded by two tree decoders (DTX packets as given / replaced by NULL):
 *   dec:duration    every call returns the requested frame size
 *   dec:gap_loud    output energy over the DTX packets >= GAP_DB below the decoded active level
 *   dec:after_weak / dec:after_loud  output energy of the renewed activity within AFTER_DB of the decoded pre-gap level
 * --mode budget: E3 product enumeration of the DTX-off clause over low bitrates / small buffers (see budget_item).
 */
#include <stdlib.h>
#include <string.h>
#include <math.h>
#include "opus.h"
#include "mc.h"

/* ---- calibrated thresholds ----
 * Calibration run: thorough tier, part dec, unchanged tree (2026-09-29): all 2916 DTX-on configurations of the full grid x silence
 * lengths 40 ms .. 1.2 s on the 40 ms grid, plus resumption inside the frame after 280 / 500 ms of silence at every intra-frame
 * offset, two channels / one channel active (108 864 streams, each decoded as given and with DTX packets as losses).
 *   gap:    loudest decoder output over DTX packets     = -45.9 dB relative to the decoded pre-gap activity -> limit -30 dB (DESIGN asks for 30 dB)
 *   after:  renewed activity relative to pre-gap level  = -4.0 .. +5.6 dB                    -> limit +-9 dB  (>= 3 dB margin)
 *   after, one of two channels active                   = -7.2 .. -1.4 dB                    -> limit +-12 dB (>= 3 dB margin)
 *   resume: loud part of the first frame of renewed activity (from 10 ms after the resumption) >= -18.5 dB -> limit -25 dB
 * (the cal_* counters of every run report the observed extremes as milli-dB + 200000) */
#define GAP_DB    30.0   /* gap at least this far below the active level */
#define RESUME_DB 25.0   /* loud part of the first frame of renewed activity at most this far below the pre-gap level */
#define AFTER_DB_ONECH 12.0 /* same, when the renewed activity has only one of two channels active (pre-gap level is two-channel) */
#define AFTER_DB  9.0    /* renewed activity within this many dB of the pre-gap level */

#ifdef FIXED_POINT
#define ANALYSIS_MIN_CX 10
#else
#define ANALYSIS_MIN_CX 7
#endif

static const int FSS[3]={8000,16000,48000};
static const int APPS[3]={OPUS_APPLICATION_VOIP,OPUS_APPLICATION_AUDIO,OPUS_APPLICATION_RESTRICTED_LOWDELAY};
static const char *const APPN[3]={"voip","audio","lowdelay"};
static const int CXS[3]={5,7,10};
static const int TQ[9]={5,10,20,40,80,120,160,200,240};          /* frame duration in half ms */
static const int RATES[3]={12000,32000,96000};
#define NCFG (3*2*3*3*9*2*3*2)

typedef struct { int fi,ch,ai,ci,di,vbr,ri,dtx; int Fs,app,cx,tq,rate,fsz,analysis; int sk; char name[200]; } cfg_t;
static const char *const SKN[4]={"decorrelated","dual-mono","near-mono","right-channel-silent"};
static const int LOWRATES[3]={16000,20000,24000};
/* idx = base + NCFG*(sk + 4*rx): sk = stereo active-signal kind (stereo alphabet part), rx > 0 overrides the bitrate with a low stereo rate */
static void cfg_decode(long idx,cfg_t *c){
   long ext=idx/NCFG; int rx; idx%=NCFG; c->sk=(int)(ext%4); rx=(int)(ext/4);
   c->dtx=idx%2; idx/=2; c->ri=idx%3; idx/=3; c->vbr=idx%2; idx/=2; c->di=idx%9; idx/=9; c->ci=idx%3; idx/=3; c->ai=idx%3; idx/=3; c->ch=1+idx%2; idx/=2; c->fi=idx%3;
   c->Fs=FSS[c->fi]; c->app=APPS[c->ai]; c->cx=CXS[c->ci]; c->tq=TQ[c->di]; c->rate=rx?LOWRATES[rx-1]:RATES[c->ri]; c->fsz=c->Fs/2000*c->tq;
   c->analysis = c->cx>=ANALYSIS_MIN_CX && c->Fs>=16000;
   snprintf(c->name,sizeof c->name,"Fs=%d ch=%d app=%s complexity=%d frame=%gms %s bitrate=%d dtx=%d%s%s",c->Fs,c->ch,APPN[c->ai],c->cx,c->tq/2.0,c->vbr?"VBR":"CBR",c->rate,c->dtx,(c->ch==2&&ext)?" stereo-signal=":"",(c->ch==2&&ext)?SKN[c->sk]:"");
}
/* sub-grids: 0 = full grid; 1 = quick grid (complexity {5,10}, bitrate {12k,32k}: SILK, hybrid and CELT all occur);
   2 = small grid for the sanitizer / decoder parts (complexity {5,10}; voip at 12k and 32k, audio at 32k, lowdelay at 12k) */
static int cfg_in_set(const cfg_t *c,int set){
   if (set==0) return 1;
   if (set==1) return c->ci!=1 && c->ri!=2;
   if (set==5) return c->ci!=1 && c->ri!=1;
   if (set==2) return c->ci!=1 && ((c->ai==0 && c->ri!=2) || (c->ai==1 && c->ri==1) || (c->ai==2 && c->ri==0));
   if (set==3) return c->ci!=0;     /* complexity {7,10} */
   if (set==4) return c->ci!=0 && c->ri!=2;   /* fixed-point part: complexity {7,10} (there 7: analysis off, 10: on), bitrate {12k,32k} */
   return 1;
}

/* ---- signal ---- */
static short *g_act[3][3]; static short *g_act2[3][4]; static int g_actlen[3];   /* [fs][ch] absolute time line, 6.4 s */
static short *g_sil;
static void mk_signals(void){
   int fi,ch; g_sil=calloc(48000/1000*120*2,sizeof(short));
   for(fi=0;fi<3;fi++){
      int Fs=FSS[fi], n=Fs*64/10, i; unsigned rs=1; g_actlen[fi]=n;
      for(ch=1;ch<=2;ch++) g_act[fi][ch]=malloc(sizeof(short)*n*ch); for(ch=1;ch<4;ch++) g_act2[fi][ch]=malloc(sizeof(short)*n*2); g_act2[fi][0]=g_act[fi][2];
      for(i=0;i<n;i++){ double t=i/(double)Fs; int v,v2; rs=rs*1664525u+1013904223u;
         v=(int)(10000*sin(2*M_PI*(250+60*sin(7*t))*t)+5000*sin(2*M_PI*1800*t))+(int)(((rs>>16)&0x7fff)-16384)/3;
         v2=(int)(8000*sin(2*M_PI*(250+60*sin(7*t))*t+0.6)+6000*sin(2*M_PI*1800*t+1.1))+(int)(((rs>>8)&0x7fff)-16384)/3;
         if(v>32767)v=32767; if(v<-32768)v=-32768; if(v2>32767)v2=32767; if(v2<-32768)v2=-32768;
         g_act[fi][1][i]=(short)v; g_act[fi][2][2*i]=(short)v; g_act[fi][2][2*i+1]=(short)v2;
         /* stereo active-signal alphabet: dual-mono (L==R), near-mono (R = 0.9 L + small noise), right channel digitally silent */
         g_act2[fi][1][2*i]=(short)v; g_act2[fi][1][2*i+1]=(short)v;
         { int nm=(int)(0.9*v)+(int)(((rs>>4)&0x3ff)-512)/2; if(nm>32767)nm=32767; if(nm<-32768)nm=-32768; g_act2[fi][2][2*i]=(short)v; g_act2[fi][2][2*i+1]=(short)nm; }
         g_act2[fi][3][2*i]=(short)v; g_act2[fi][3][2*i+1]=0; }
   }
}

/* ---- exploration context ---- */
typedef struct { int since,run,seen,last_active,extra,cold; } mon_t;    /* times in half ms; cold: no activity since the encoder was created / reset ("after activity stops" has no meaning yet: onset clauses not applicable) */
#define MAXLVL 6
typedef struct {
   cfg_t c; int k,gs,P,W,Lt,Lt0,encsz,n1,passidx,mixed,skiptrunk; int swo[MAXLVL+1]; int swone[MAXLVL+1]; OpusEncoder *enc[MAXLVL+1]; mon_t mon[MAXLVL+1]; int sw[MAXLVL+1]; int nsw;
   long nfail; int decmode;
} ctx_t;

static mc_ctr *c_dtxmode[3],*c_mixed,*c_advlate,*c_advlate_max,*c_cold;
static int g_cold_q1=0,g_coldwalk=0;
static mc_ctr *c_sched,*c_enc,*c_eval,*c_dtxpk,*c_refresh,*c_cfg,*c_maxrun,*c_dec,*c_decpk;
static mc_ctr *c_gapmax_mdB,*c_aftermin_mdB[2],*c_aftermax_mdB[2],*c_resmin_mdB;
static mc_set *S_states,*S_obs;
static int g_hash_states=1;

static const char *swstr(ctx_t *x){ static char b[300]; int i,k=0; b[0]=0;
   for(i=0;i<x->nsw;i++){ k+=snprintf(b+k,sizeof b-k,"%s%gms",i?",":"",(x->sw[i]*x->gs)*x->c.tq/2.0); if(x->swo[i]) k+=snprintf(b+k,sizeof b-k,"+%gms(inside the frame)",x->swo[i]/2.0); if(x->swone[i]) k+=snprintf(b+k,sizeof b-k,"[one channel active]"); }
   if(!x->nsw) snprintf(b,sizeof b,"none"); return b; }

/* intra-frame switch offsets (half ms) for a frame of tq half ms: 1/4, 1/2, 3/4 of the frame, 5 and 10 ms before its end, every
   20 ms sub-frame boundary; only offsets that are multiples of 2.5 ms strictly inside the frame; frames of >= 10 ms */
static int mix_offsets(int tq,int *o){
   int n=0,c[16],nc=0,i,j;
   if (tq<20) return 0;
   c[nc++]=tq/4; c[nc++]=tq/2; c[nc++]=3*tq/4; c[nc++]=tq-10; c[nc++]=tq-20; for(i=40;i<tq&&nc<16;i+=40) c[nc++]=i;
   for(i=0;i<nc;i++){ int v=c[i],dup=0; if(v<=0||v>=tq||v%5) continue; for(j=0;j<n;j++) if(o[j]==v)dup=1; if(!dup) o[n++]=v; }
   return n;
}

static OpusEncoder *mk_encoder(const cfg_t *c,int *psz){
   int sz=opus_encoder_get_size(c->ch); OpusEncoder *e=malloc(sz); if(psz)*psz=sz;
   if (opus_encoder_init(e,c->Fs,c->ch,c->app)!=OPUS_OK){ mc_fail("e2:init","opus_encoder_init failed for %s",c->name); }
   opus_encoder_ctl(e,OPUS_SET_DTX(c->dtx)); opus_encoder_ctl(e,OPUS_SET_COMPLEXITY(c->cx)); opus_encoder_ctl(e,OPUS_SET_BITRATE(c->rate)); opus_encoder_ctl(e,OPUS_SET_VBR(c->vbr));
   return e;
}

/* one encode + monitor.  frame index fidx is absolute on the time line (warm-up included). Returns packet length. */
/* one encode + monitor.  frame index fidx is absolute on the time line (warm-up included).  `active` is the state the frame ends in;
   mixo > 0 (half ms): MIXED frame, its first mixo half-ms are in the opposite state (the switch lies inside the frame);
   onech: the active samples have channel 0 digitally silent (stereo only).  Returns packet length.
   Oracle for a mixed frame (statement): a frame that contains renewed activity (loud samples after silence) is the first frame of
   renewed activity and must be coded normally; a frame that begins active and turns silent is an active frame, the silence
   after it started mixo into the frame. */
static short g_mixbuf[5760*2];
static int step2(ctx_t *x,OpusEncoder *e,mon_t *m,int active,int mixo,int onech,int fidx,unsigned char *pkt){
   const cfg_t *c=&x->c; int T=c->tq, n, dtx=-1, tiny; const char *why=NULL; char sig[64];
   const short *actl = c->ch==2 ? g_act2[c->fi][c->sk] : g_act[c->fi][1];
   const short *in = active ? actl+(size_t)fidx*c->fsz*c->ch : g_sil;
   int start=m->since, kind, loud = active || mixo>0;
   if (mixo>0 || (onech && active)){
      int i, os=c->Fs/2000*mixo, ch=c->ch; const short *a=actl+(size_t)fidx*c->fsz*ch;
      for(i=0;i<c->fsz;i++){ int on = (i>=os) ? active : !active, k; for(k=0;k<ch;k++) g_mixbuf[i*ch+k] = (on && !(onech && k==0)) ? a[i*ch+k] : 0; }
      in=g_mixbuf;
   }
   n=opus_encode(e,in,c->fsz,pkt,1500); MC_INC(c_enc);
   opus_encoder_ctl(e,OPUS_GET_IN_DTX(&dtx));
   tiny = n>0 && n<=2;
   if (n<=0) why="encode_error";
   if (!c->dtx){
      /* statement: no packet of two bytes or fewer as long as bitrate and buffer allow >= 3 bytes per frame (always true on this grid) */
      if (tiny && (long)c->rate*T/16000>=3) why="dtxoff_tiny_packet";
      kind = loud?0:1;
   } else {
      if (loud){
         if (!m->last_active && tiny && !why) why = mixo>0 ? "resume_not_coded_mixed" : "resume_not_coded";
         /* the 200 ms mark is counted from the end of the last frame that contains activity (the encoder is handed frames; a frame that
            is not digitally silent is not 'digital silence' input).  extra = silence already elapsed inside a frame that turned silent:
            used for an advisory statistic only (onset later than 200 ms + T measured from the true end of activity) */
         m->since=0; m->extra=(mixo>0 && !active) ? T-mixo : 0; m->seen=0; m->cold=0; kind = tiny?5:(mixo>0?6:0);
      } else {
         if (!m->seen) m->since=start+T;
         if (tiny){
            if (c->analysis && !m->seen && !m->cold && start<400-T && !why) why="onset_early";
            kind = 2;
            m->seen=1;
         } else {
            if (c->analysis && !m->seen && !m->cold && start>400 && !why) why="onset_late";
            else if (c->analysis && !m->seen && !m->cold && start+m->extra>400){ MC_INC(c_advlate); MC_MAX(c_advlate_max,start+m->extra-400); }
            kind = m->seen?3:1; if (m->seen && m->run>0) MC_INC(c_refresh);
         }
      }
      if (tiny){
         MC_INC(c_dtxpk); MC_INC(c_dtxmode[pkt[0]>=0x80?2:pkt[0]>=0x60?1:0]);
         m->run+=T; if (m->run>=800+T && !why) why="run_too_long";
         if (dtx!=1 && !why) why="in_dtx_false";
         MC_MAX(c_maxrun,m->run);
      } else m->run=0;
   }
   m->last_active=active;
   if (mixo>0) MC_INC(c_mixed);
   if (n>0) mc_set_add(S_obs, mc_mix(mc_mix(c->dtx*2+c->analysis, c->di*2+c->vbr), mc_mix(kind*2+(dtx==1), mc_mix(pkt[0]>>3, n>2?3:n))));
   if (why){
      x->nfail++;
      snprintf(sig,sizeof sig,"e2:%s:%s",why,!c->dtx?"dtxoff":c->analysis?"opusdtx":"noanalysis");
      if (getenv("C20_DUMP")) fprintf(stderr,"DUMP %s Fs=%d ch=%d app=%s cx=%d T=%g %s rate=%d sw=%s frame@%g mixo=%g active=%d n=%d since=%g\n",sig,c->Fs,c->ch,APPN[c->ai],c->cx,T/2.0,c->vbr?"VBR":"CBR",c->rate,swstr(x),(fidx-x->W)*T/2.0,mixo/2.0,active,n,start/2.0);
      mc_fail(sig,"[%s] switch points at %s (after a %g ms active warm-up): %s frame at %g ms%s: opus_encode=%d bytes (%s) OPUS_GET_IN_DTX=%d; silent for %g ms before this frame, DTX run now %g ms",
              c->name,swstr(x),x->W*T/2.0,mixo>0?(active?"MIXED silence->ACTIVE":"MIXED active->silence"):active?"ACTIVE":"silent",(fidx-x->W)*T/2.0,(onech&&loud)?" (one channel active)":"",n,n>0?mc_hex(pkt,n<8?n:8):"",dtx,start/2.0,m->run/2.0);
   }
   return n;
}
static int step(ctx_t *x,OpusEncoder *e,mon_t *m,int active,int fidx,unsigned char *pkt){ return step2(x,e,m,active,0,0,fidx,pkt); }

static void hash_state(ctx_t *x,int lvl,int pos,int active,int used){
   if (!g_hash_states) return;
   { uint64_t h=mc_hash(x->enc[lvl],x->encsz,0xC20); h=mc_mix(h,mc_hash(&x->mon[lvl],sizeof(mon_t),1)); h=mc_mix(h,mc_mix(pos*2+active,used));
     h=mc_mix(h,mc_hash(&x->c,8*sizeof(int),2)); h=mc_mix(h,mc_mix(x->c.sk,x->c.rate)); mc_set_add(S_states,h); }
}

/* mixo/onech describe how this segment was entered (first frame mixed / active samples on one channel only); mixused: the
   schedule already contains its one intra-frame (or one-channel) switch */
static void walk(ctx_t *x,int lvl,int pos,int active,int used,int mixo,int onech,int mixused){
   unsigned char pkt[1500]; int p,f; const int H=x->P*x->gs;
   MC_INC(c_sched);
   for(p=pos;p<x->P;p++){
      if (x->nfail>40) return;
      if (lvl==0 && x->n1>0 && p>=x->n1 && x->passidx>0) return;   /* the all-active trunk was already walked by the first pass */
      if (used<x->k && !(lvl>0&&p==pos) && !(lvl==0 && x->n1>0 && p>=x->n1)){
         int offs[17],no=1,oi,v; offs[0]=0;
         if (x->mixed && !mixused) no+=mix_offsets(x->c.tq,offs+1);
         for(oi=0;oi<no;oi++) for(v=0;v<((x->mixed && !mixused && !active && x->c.ch==2)?2:1);v++){
            /* v==1: the new active segment has only one channel active (counts as the schedule's one non-plain switch) */
            memcpy(x->enc[lvl+1],x->enc[lvl],x->encsz); x->mon[lvl+1]=x->mon[lvl]; x->sw[x->nsw]=p; x->swo[x->nsw]=offs[oi]; x->swone[x->nsw]=v; x->nsw++;
            walk(x,lvl+1,p,!active,used+1,offs[oi],v,mixused||offs[oi]>0||v);
            x->nsw--;
         }
      }
      if (active && used==x->k){
         int fr0=p*x->gs; for(f=0;f<x->Lt && fr0+f<H;f++){ step2(x,x->enc[lvl],&x->mon[lvl],1,mixo,onech,x->W+fr0+f,pkt); mixo=0; }
         return;
      }
      for(f=0;f<x->gs;f++){ step2(x,x->enc[lvl],&x->mon[lvl],active,mixo,onech,x->W+p*x->gs+f,pkt); mixo=0; }
      hash_state(x,lvl,p+1,active,used);
   }
}

/* ---- decoder mode: one schedule A(warm-up) S(b) A(tail), stream decoded as given and with DTX packets as losses ---- */
static double dB(double a,double b){ if(a<1e-9)a=1e-9; if(b<1e-9)b=1e-9; return 10*log10(a/b); }
static void dec_schedule(ctx_t *x,int bframes,int mixo,int onech){
   const cfg_t *c=&x->c; int T=c->tq, W=x->W, tailf=(400+T-1)/T /*200 ms*/, total=W+bframes+tailf, f, v, err;
   OpusEncoder *e=x->enc[1]; mon_t m={0,0,0,1}; unsigned char pkt[1500]; short *out=malloc(sizeof(short)*c->fsz*c->ch);
   OpusDecoder *d[2]; double e_pre[2]={0,0},e_gap[2]={0,0},e_after[2]={0,0},e_res[2]={0,0}; long n_pre=0,n_gap=0,n_after=0,n_res=0; int skip=(80+T-1)/T; /* skip 40 ms of convergence */
   int ndtx=0;
   memcpy(e,x->enc[0],x->encsz);   /* encoder right after creation */
   for(v=0;v<2;v++) d[v]=opus_decoder_create(c->Fs,c->ch,&err);
   x->nsw=0; x->swo[0]=0; x->swone[0]=0; x->sw[x->nsw++]=0; x->swo[1]=mixo; x->swone[1]=onech; x->sw[x->nsw++]=bframes; { int gs=x->gs; x->gs=1;
   for(f=0;f<total;f++){
      int active = f<W || f>=W+bframes, n, i;
      n=step2(x,e,&m,active,(f==W+bframes)?mixo:0,(f>=W+bframes)?onech:0,f,pkt); if(n<=0) break;
      for(v=0;v<2;v++){
         int asloss = v==1 && n<=2, r; double en=0;
         r=opus_decode(d[v],asloss?NULL:pkt,asloss?0:n,out,c->fsz,0); MC_INC(c_decpk);
         if (r!=c->fsz){ mc_fail(asloss?"dec:duration:as_loss":"dec:duration:as_given","[%s] silence of %g ms after %g ms: packet %d (%d bytes %s, %s) decoded %s returns %d, requested %d samples",c->name,bframes*T/2.0,W*T/2.0,f,n,mc_hex(pkt,n<4?n:4),active?"active":"silent",asloss?"as loss (NULL)":"as given",r,c->fsz); x->nfail++; goto done; }
         for(i=0;i<c->fsz*c->ch;i++) en+=(double)out[i]*out[i];
         if (f==W+bframes && T-mixo>=40){   /* first frame of renewed activity: its loud part, less 10 ms of codec delay / onset, must be audible */
            int s0=c->Fs/2000*(mixo+20), j; double er=0; for(j=s0*c->ch;j<c->fsz*c->ch;j++) er+=(double)out[j]*out[j];
            e_res[v]=er; if(!v) n_res=(c->fsz-s0)*c->ch;
         }
         if (f<W && f>=skip){ e_pre[v]+=en; if(!v)n_pre+=c->fsz*c->ch; }
         else if (!active && n<=2){ e_gap[v]+=en; if(!v){n_gap+=c->fsz*c->ch; ndtx++;} }
         else if (f>=W+bframes+skip){ e_after[v]+=en; if(!v)n_after+=c->fsz*c->ch; }
      }
   }
   MC_INC(c_dec);
   for(v=0;v<2&&n_pre>0;v++){
      double pre=e_pre[v]/n_pre;
      if (n_gap>0){ double g=dB(e_gap[v]/n_gap,pre); MC_MAX(c_gapmax_mdB,(long)(g*1000)+200000);
         if (g>-GAP_DB){ mc_fail(v?"dec:gap_loud:as_loss":"dec:gap_loud:as_given","[%s] silence of %g ms: decoder output over the %d DTX packets (%s) is only %.1f dB below the decoded active level (limit %.0f dB)",c->name,bframes*T/2.0,ndtx,v?"fed as losses":"fed as given",-g,GAP_DB); x->nfail++; } }
      if (n_res>0){ double r=dB(e_res[v]/n_res,pre); MC_MAX(c_resmin_mdB,(long)(-r*1000)+200000);
         if (r<-RESUME_DB){ mc_fail(v?"dec:resume_frame_inaudible:as_loss":"dec:resume_frame_inaudible:as_given","[%s] silence of %g ms, activity resumes %g ms into the next frame%s: the decoded output of that frame (from 10 ms after the resumption) is %.1f dB below the decoded pre-gap level (limit %.0f dB) - the frame of renewed activity was not coded",c->name,bframes*T/2.0,mixo/2.0,onech?" (one channel active)":"",-r,RESUME_DB); x->nfail++; } }
      if (n_after>0){ double a=dB(e_after[v]/n_after,pre), lim=onech?AFTER_DB_ONECH:AFTER_DB;
         MC_MAX(c_aftermax_mdB[onech],(long)(a*1000)+200000); MC_MAX(c_aftermin_mdB[onech],(long)(-a*1000)+200000);
         if (a<-lim){ mc_fail(v?"dec:after_weak:as_loss":"dec:after_weak:as_given","[%s] silence of %g ms (%d DTX packets %s), resumption %g ms into the frame%s: renewed activity decodes %.1f dB below the pre-gap level (limit %.0f dB)",c->name,bframes*T/2.0,ndtx,v?"fed as losses":"fed as given",mixo/2.0,onech?" (one channel active)":"",-a,lim); x->nfail++; }
         if (a> lim){ mc_fail(v?"dec:after_loud:as_loss":"dec:after_loud:as_given","[%s] silence of %g ms (%d DTX packets %s), resumption %g ms into the frame%s: renewed activity decodes %.1f dB above the pre-gap level (limit %.0f dB)",c->name,bframes*T/2.0,ndtx,v?"fed as losses":"fed as given",mixo/2.0,onech?" (one channel active)":"",a,lim); x->nfail++; } }
   }
done:
   x->gs=gs; }
   for(v=0;v<2;v++) opus_decoder_destroy(d[v]); free(out);
}

/* ---- items ---- */
static long *g_items; static long g_nitems; static int g_mode; /* mode 0 sched, 1 dec */
static int g_long_q1, g_mixgap_q1[2];

static void sample_trunk(ctx_t *x){
   /* written-out explored case: packet sizes of the schedule "silent from the end of the warm-up to the horizon" */
   char b[1200]; int k=0,f,prev=-2,cnt=0; unsigned char pkt[1500]; OpusEncoder *e=x->enc[MAXLVL]; mon_t m=x->mon[0]; const int H=x->P*x->gs; long keep=x->nfail;
   memcpy(e,x->enc[0],x->encsz);
   for(f=0;f<=H;f++){ int n= f<H? step(x,e,&m,0,x->W+f,pkt):-3; int cls = n<0?n:(n<=2?n:3);
      if (cls!=prev){ if(cnt) k+=snprintf(b+k,sizeof b-k,"%s x%d, ",prev==3?"regular":prev==1?"1-byte":prev==2?"2-byte":"?",cnt); prev=cls; cnt=0; if(k>1100)break; } cnt++; }
   x->nfail=keep;
   mc_sample("[%s] warm-up %g ms active, then digital silence to the horizon -> packets: %s(in-DTX true on every DTX packet)",x->c.name,x->W*x->c.tq/2.0,b);
}

typedef struct { int k,grid_q1,n1,mixed; } pass_t;
static pass_t g_pass[3][8]; static int g_npass[3];   /* [0] DTX-on configurations, [1] DTX-off configurations, [2] stereo-alphabet items */
static void parse_passes(const char *s,int which){
   int n=0; while(*s && n<8){ int k=0,g=0,n1=0,m=0; if(sscanf(s,"%d:%d:%d:%d",&k,&g,&n1,&m)<2) break; if(k>MAXLVL-1)k=MAXLVL-1; g_pass[which][n].k=k; g_pass[which][n].grid_q1=2*g; g_pass[which][n].n1=n1; g_pass[which][n].mixed=m; n++; s=strchr(s,','); if(!s)break; s++; }
   g_npass[which]=n;
}
static void set_pass(ctx_t *x,const pass_t *p,int idx){
   x->k=p->k; x->gs=p->grid_q1/x->c.tq; if(x->gs<1)x->gs=1; x->P=(3200/x->c.tq)/x->gs; x->n1=p->n1; x->passidx=idx+x->skiptrunk; x->mixed=p->mixed;
   x->Lt = x->Lt0; if (x->mixed){ x->Lt=(80+x->c.tq-1)/x->c.tq; if(x->Lt<2)x->Lt=2; }   /* mixed passes follow a final active segment for max(2 frames, 40 ms) */
}

static void sched_item(long it,void *vctx){
   ctx_t x; int i,f,pi; unsigned char pkt[1500]; long cidx=g_items[it]; OpusEncoder *base; mon_t mon0; int which;
   (void)vctx; memset(&x,0,sizeof x);
   cfg_decode(cidx,&x.c); which= cidx>=NCFG ? 2 : !x.c.dtx;
   x.W=(800+x.c.tq-1)/x.c.tq; x.Lt=(120+x.c.tq-1)/x.c.tq; if(x.Lt<3)x.Lt=3; x.Lt0=x.Lt;
   x.skiptrunk = which==2;   /* stereo-alphabet items: the all-active schedule carries no DTX clause and is not walked again */
   set_pass(&x,&g_pass[which][0],0);
   mc_case("e2","%s",x.c.name);
   x.enc[0]=mk_encoder(&x.c,&x.encsz); for(i=1;i<=MAXLVL;i++) x.enc[i]=malloc(x.encsz); base=malloc(x.encsz);
   MC_INC(c_cfg);
   x.mon[0].last_active=1;
   if (g_mode==1){
      /* decoder mode: silence lengths on the grid, 0 < b <= 1.2 s */
      int b, offs[16], no=mix_offsets(x.c.tq,offs), oi, v, bm;
      for(b=x.gs; b*x.c.tq<=2400 && x.nfail<6; b+=x.gs) dec_schedule(&x,b,0,0);
      /* mixed resumption: activity resumes inside the frame that follows --mixgap ms of silence (rounded up to frames; default 280 ms:
         inside the first DTX run), at every intra-frame offset, both channels / one channel active */
      for(bm=0;bm<2 && g_mixgap_q1[bm]>0;bm++){ b=(g_mixgap_q1[bm]+x.c.tq-1)/x.c.tq;
         for(v=0;v<x.c.ch && x.nfail<6;v++) for(oi=(v?-1:0);oi<no && x.nfail<6;oi++) dec_schedule(&x,b,oi<0?0:offs[oi],v); }
   } else {
      for(f=0;f<x.W;f++) step(&x,x.enc[0],&x.mon[0],1,f,pkt);
      memcpy(base,x.enc[0],x.encsz); mon0=x.mon[0];
      if (x.c.dtx && (cidx%97)==3) sample_trunk(&x);
      /* (cidx includes the stereo-alphabet extension) */
      if (x.c.dtx && g_long_q1>0 && which!=2){
         /* one long gap: silence for --long ms (statement: gaps up to 5 s), then renewed activity */
         int L=g_long_q1/x.c.tq, gs=x.gs; x.gs=1; x.nsw=0; x.swo[0]=x.swo[1]=x.swone[0]=x.swone[1]=0; x.sw[x.nsw++]=0; x.sw[x.nsw++]=L;
         mc_case("e2","%s long gap %g ms",x.c.name,L*x.c.tq/2.0);
         memcpy(x.enc[1],base,x.encsz); x.mon[1]=mon0; MC_INC(c_sched);
         for(f=0;f<L;f++) step(&x,x.enc[1],&x.mon[1],0,x.W+f,pkt);
         for(f=0;f<x.Lt;f++) step(&x,x.enc[1],&x.mon[1],1,x.W+L+f,pkt);
         x.gs=gs; x.nsw=0;
      }
      if (x.c.dtx && g_cold_q1>0 && which!=2){
         /* cold starts: the stream BEGINS with digital silence (fresh encoder; and warmed-up encoder after OPUS_RESET_STATE) for --cold ms, then
            activity.  No activity has stopped yet, so the onset clauses do not apply; run length, in-DTX and resumption do. */
         int L=g_cold_q1/x.c.tq, gs=x.gs, v; x.gs=1;
         for(v=0;v<2;v++){ OpusEncoder *e=x.enc[1]; mon_t m; memset(&m,0,sizeof m); m.cold=1; m.last_active=0;
            x.nsw=0; x.swo[0]=x.swo[1]=x.swone[0]=x.swone[1]=0; x.sw[x.nsw++]=0; x.sw[x.nsw++]=L;
            mc_case("e2","%s cold start (%s) %g ms of silence",x.c.name,v?"after OPUS_RESET_STATE":"fresh encoder",L*x.c.tq/2.0);
            if (v){ memcpy(e,base,x.encsz); opus_encoder_ctl(e,OPUS_RESET_STATE); } else { OpusEncoder *f0=mk_encoder(&x.c,NULL); memcpy(e,f0,x.encsz); free(f0); }
            MC_INC(c_sched); MC_INC(c_cold);
            for(f=0;f<L;f++) step(&x,e,&m,0,x.W+f,pkt);
            for(f=0;f<x.Lt;f++) step(&x,e,&m,1,x.W+L+f,pkt);
            if (MC.tier || g_coldwalk){ /* every schedule with <= 2 switch points on a 200 ms grid from the cold start, beginning in silence */
               { pass_t cp; cp.k=2; cp.grid_q1=2*200; cp.n1=0; cp.mixed=0; set_pass(&x,&cp,1); }   /* <= 2 switch points on a 200 ms grid, first switch anywhere */
               if (v){ memcpy(x.enc[0],base,x.encsz); opus_encoder_ctl(x.enc[0],OPUS_RESET_STATE); } else { OpusEncoder *f0=mk_encoder(&x.c,NULL); memcpy(x.enc[0],f0,x.encsz); free(f0); }
               memset(&x.mon[0],0,sizeof(mon_t)); x.mon[0].cold=1; x.nsw=0;
               walk(&x,0,0,0,0,0,0,0); x.gs=1; } }
         x.gs=gs; x.nsw=0;
      }
      for(pi=0;pi<g_npass[which];pi++){
         set_pass(&x,&g_pass[which][pi],pi);
         mc_case("e2","%s pass k=%d grid=%gms n1=%d mixed=%d",x.c.name,x.k,x.gs*x.c.tq/2.0,x.n1,x.mixed);
         memcpy(x.enc[0],base,x.encsz); x.mon[0]=mon0; x.nsw=0;
         walk(&x,0,0,1,0,0,0,0);
      }
   }
   for(i=0;i<=MAXLVL;i++) free(x.enc[i]); free(base);
}

/* ---- E3: DTX-off clause over low bitrates and small buffers ----
 * product: Fs x ch x app x complexity{5,10} x duration(9) x {VBR, CVBR, CBR} x bitrate alphabet x max_data_bytes alphabet;
 * per case 4 active frames, 3 silent, 2 active.  Clause: with DTX off no packet <= 2 bytes when bitrate*T/8 >= 3 and max_data_bytes >= 3.
 * Tiny packets are classified by the documented low-budget rule of the encoder for frames longer than 20 ms
 * (bitrate < 2400 b/s, or buffer*frame_rate < 300 bytes/s) so that this known corner has its own narrow signatures. */
static const int BR_T[]={500,599,600,601,800,1000,1199,1200,1500,2000,2399,2400,2401,3000,4000,4799,4800,6000,9599,9600,9601,12000,24000,64000};
static const int MB_T[]={1,2,3,4,5,8,11,12,13,18,19,20,24,29,30,31,37,38,39,60,100,400,1276,1500};
static const int BR_Q[]={500,600,1000,2399,2400,4800,9599,9600,24000,64000};
static const int MB_Q[]={1,2,3,4,11,12,13,18,19,37,38,100,1500};
static const int *BR,*MB; static int NBR,NMB,NFR_B,NCX_B;
static void budget_item(long it,void *vctx){
   int di=it%9, ai=(it/9)%3, ch=1+(it/27)%2, fi=(it/54)%3, cxi=(it/162)%2, vm,bi,mi,f;
   const int na=(NFR_B+1)/2, ns=NFR_B/3;   /* na active, ns silent, rest active */
   int Fs=FSS[fi], tq=TQ[di], fsz=Fs/2000*tq, cx=cxi?10:5, sz=opus_encoder_get_size(ch); OpusEncoder *e=malloc(sz); unsigned char pkt[1600];
   (void)vctx;
   for(vm=0;vm<3;vm++) for(bi=0;bi<NBR;bi++) for(mi=0;mi<NMB;mi++){
      int rate=BR[bi], mb=MB[mi]; long bpf16=(long)rate*tq; /* bytes per frame *16000 */
      mc_case("budget","Fs=%d ch=%d app=%s cx=%d frame=%gms vbrmode=%d bitrate=%d max_data_bytes=%d",Fs,ch,APPN[ai],cx,tq/2.0,vm,rate,mb);
      opus_encoder_init(e,Fs,ch,APPS[ai]); opus_encoder_ctl(e,OPUS_SET_DTX(0)); opus_encoder_ctl(e,OPUS_SET_COMPLEXITY(cx)); opus_encoder_ctl(e,OPUS_SET_BITRATE(rate));
      opus_encoder_ctl(e,OPUS_SET_VBR(vm!=2)); opus_encoder_ctl(e,OPUS_SET_VBR_CONSTRAINT(vm==1));
      for(f=0;f<NFR_B;f++){
         int active = f<na||f>=na+ns, n; const short *in= active? g_act[fi][ch]+(size_t)f*fsz*ch : g_sil;
         n=opus_encode(e,in,fsz,pkt,mb); MC_INC(c_enc); MC_INC(c_eval);
         mc_set_add(S_obs, mc_mix(mc_mix(di,vm), mc_mix(n<0?100+(-n):(n>3?3:n), mc_mix(bpf16>=48000, mb>=3))));
         if (n<0){
            /* the statement says nothing about errors with tiny buffers; an error when >= 3 bytes are allowed would be C05's business */
            continue;
         }
         if (n<=2 && bpf16>=3*16000 && mb>=3){
            char sig[96]; int frame_rate=2000/tq; const char *cls;
            if (tq>40 && rate<2400) cls="frame_gt20ms:bitrate_lt2400";
            else if (tq>40 && (long)mb*frame_rate<300) cls="frame_gt20ms:buffer_x_framerate_lt300";
            else if (n==2 && pkt[1]==0 && (pkt[0]&0x83)==0) cls="silk_busted_budget_plc";   /* [SILK/hybrid code-0 TOC, 0x00]: "SILK encoder busted its target, tell the decoder to call the PLC" */
            else cls="other";
            if (getenv("C20_DUMP")) fprintf(stderr,"DUMP %s Fs=%d ch=%d app=%s cx=%d T=%g vm=%d rate=%d mb=%d f=%d n=%d pkt=%s\n",cls,Fs,ch,APPN[ai],cx,tq/2.0,vm,rate,mb,f,n,mc_hex(pkt,n));
            snprintf(sig,sizeof sig,"e3:dtxoff_tiny_packet:%s:%s",vm==2?"cbr":"vbr",cls);
            mc_fail(sig,"DTX off, Fs=%d ch=%d app=%s complexity=%d frame=%g ms %s bitrate=%d b/s (= %.2f bytes per frame) max_data_bytes=%d: frame %d (%s) -> %d-byte packet %s although bitrate and buffer allow >= 3 bytes per frame",
                    Fs,ch,APPN[ai],cx,tq/2.0,vm==0?"VBR":vm==1?"CVBR":"CBR",rate,rate*tq/16000.0,mb,f,active?"active":"silent",n,mc_hex(pkt,n));
            break;
         }
      }
   }
   free(e);
}

int main(int argc,char **argv){
   const char *mode; int cfgset; long i; mc_ctr *st,*tr,*dn;
   mc_init(argc,argv,"C20","sched");
   MC.part=mc_arg_s("--part","sched"); mode=mc_arg_s("--mode","sched");
   parse_passes(mc_arg_s("--passes","2:100:0"),0); parse_passes(mc_arg_s("--passes-off","2:200:0"),1); parse_passes(mc_arg_s("--passes-stereo",""),2);
   g_cold_q1=(int)(2*mc_arg("--cold",0)); g_coldwalk=(int)mc_arg("--coldwalk",0);
   g_long_q1=(int)(2*mc_arg("--long",0)); g_mixgap_q1[0]=(int)(2*mc_arg("--mixgap",280)); g_mixgap_q1[1]=(int)(2*mc_arg("--mixgap2",0));
   cfgset=(int)mc_arg("--cfgset",0); g_hash_states=(int)mc_arg("--hash",1);
   c_sched=mc_counter("schedules"); c_enc=mc_counter("encodes"); c_eval=mc_counter("evaluations"); c_dtxpk=mc_counter("dtx_packets"); c_refresh=mc_counter("refresh_packets");
   c_dtxmode[0]=mc_counter("dtx_packets_silk_toc"); c_dtxmode[1]=mc_counter("dtx_packets_hybrid_toc"); c_dtxmode[2]=mc_counter("dtx_packets_celt_toc");
   c_mixed=mc_counter("mixed_frames"); c_advlate=mc_counter("adv_late_vs_true_stop_frames"); c_cold=mc_counter("cold_start_streams"); c_advlate_max=mc_counter("adv_late_vs_true_stop_max_q1");
   c_cfg=mc_counter("configurations"); c_maxrun=mc_counter("max_dtx_run_q1"); c_dec=mc_counter("decoded_streams"); c_decpk=mc_counter("decoded_packets");
   c_gapmax_mdB=mc_counter("cal_gap_max_mdB_plus200000"); c_aftermin_mdB[0]=mc_counter("cal_after_min_neg_mdB_plus200000"); c_aftermax_mdB[0]=mc_counter("cal_after_max_mdB_plus200000"); c_aftermin_mdB[1]=mc_counter("cal_after1ch_min_neg_mdB_plus200000"); c_aftermax_mdB[1]=mc_counter("cal_after1ch_max_mdB_plus200000"); c_resmin_mdB=mc_counter("cal_resume_min_neg_mdB_plus200000");
   st=mc_counter("states"); tr=mc_counter("transitions"); dn=mc_counter("distinct_nontrivial");
   S_states=mc_set_new((int)mc_arg("--setlog",25)); S_obs=mc_set_new(16);
   mk_signals();
   if (!strcmp(mode,"budget")){
      g_mode=2;
      if (MC.tier){ BR=BR_T; NBR=sizeof BR_T/sizeof BR_T[0]; MB=MB_T; NMB=sizeof MB_T/sizeof MB_T[0]; NFR_B=9; NCX_B=2; }
      else        { BR=BR_Q; NBR=sizeof BR_Q/sizeof BR_Q[0]; MB=MB_Q; NMB=sizeof MB_Q/sizeof MB_Q[0]; NFR_B=6; NCX_B=1; }
      mc_par(9*3*2*3*NCX_B,budget_item,NULL);
      *st=mc_set_count(S_obs); *tr=*c_enc; *dn=mc_set_count(S_obs);
      mc_sample("E3 every (Fs,ch,app,complexity %s,frame 2.5..120 ms) x {VBR,CVBR,CBR} x bitrate {500..64000: %d values} x max_data_bytes {1..1500: %d values}: %d frames (active, silent, active) with DTX off",NCX_B==2?"{5,10}":"5",NBR,NMB,NFR_B);
      return mc_finish();
   }
   g_mode=!strcmp(mode,"dec");
   g_items=malloc(sizeof(long)*NCFG); g_nitems=0;
   for(i=0;i<NCFG;i++){ cfg_t c; cfg_decode(i,&c); if(!cfg_in_set(&c,cfgset)) continue; if(g_mode==1&&!c.dtx) continue; g_items[g_nitems++]=i; }
   if (g_mode==0 && g_npass[2]>0){
      /* stereo alphabet (--passes-stereo): DTX-on stereo configurations of the sub-grid x active-signal kind {decorrelated, dual-mono,
         near-mono, right channel silent} x bitrate {the grid's own; from the 12k base also the low stereo rates 16, 20, 24 kb/s};
         the (decorrelated, own rate) combination is already an ordinary item */
      g_items=realloc(g_items,sizeof(long)*NCFG*17);
      for(i=0;i<NCFG;i++){ cfg_t c; int sk,rx; cfg_decode(i,&c); if(!cfg_in_set(&c,cfgset)||c.ch!=2||!c.dtx) continue;
         for(rx=0;rx<4;rx++) for(sk=0;sk<4;sk++){ if(rx&&c.ri!=0) continue; if(!rx&&!sk) continue; if(rx&&!MC.tier&&(sk==1||sk==3)) continue; /* quick: low rates only with the two signal kinds whose mid-only decision depends on the rate */ g_items[g_nitems++]=i+(long)NCFG*(sk+4*rx); } }
   }
   mc_par(g_nitems,sched_item,NULL);
   *c_eval = g_mode? *c_dec : *c_sched;
   *st=mc_set_count(S_states); *tr=*c_enc+*c_decpk; *dn=mc_set_count(S_obs);
   return mc_finish();
}
