/* C20 / part E1 — explicit-state BFS over ALL reachable states of the real static decide_dtx_mode().
 *
 * The TU includes src/opus_encoder.c (so the function under test is the library's own code, compiled with the
 * library's own flags; this TU then provides the opus_encoder.c symbols to the link, shadowing the archive member).
 *
 * Transition system: state = (nb_no_activity_ms_Q1 counter  [the function's only state],
 *                             monitor { inactive time since activity stopped, current DTX run length, longest frame
 *                                       in the run, "a DTX frame was already seen in this inactive stretch" })
 * input alphabet  = activity in {0,1} x frame size in {2.5,5,10,20,40,60 ms} (every sub-frame size the encoder can pass;
 *                   sizes may change freely from call to call).
 * The BFS visits every reachable (counter, monitor) state and applies every input to it.  Monitor clauses, all
 * taken from the statement and observed only through the function's return value:
 *   onset_early  : a DTX frame starts more than one frame duration before the 200 ms mark after activity stopped
 *   onset_late   : a silent frame that starts after the 200 ms mark is still not DTX (first onset of the stretch)
 *   run_too_long : a run of consecutive DTX frames reaches 400 ms + one frame duration (longest frame of the run)
 *   dtx_on_active: an active frame is answered with DTX (activity must zero everything; the next stretch needs
 *                  the full 200 ms again -> checked by onset_early after the monitor's own reset)
 * "a refresh follows" is the same fact as the run bound (a maximal run is ended by a non-DTX answer).
 * States in which a clause failed are not expanded further.  All times in Q1 (half milliseconds).
 */
#include "src/opus_encoder.c"
#include <stdlib.h>
#include <string.h>
#include "mc.h"

typedef struct { int counter; int since; int run; short runmaxf; unsigned char seen; unsigned char pad; } st_t;
#define SAT 100000
static const int FR[6]={5,10,20,40,80,120};

static st_t *tab; static unsigned char *used; static long cap, nstates; static long *queue;
static int *parent; static unsigned char *pin; /* for counterexample traces */
static uint64_t hs(const st_t *s){ return mc_hash(s,sizeof *s,20); }
static long find_or_add(const st_t *s,int *isnew){
   uint64_t i=hs(s)&(cap-1);
   for(;;){ if(!used[i]){ if(nstates>=cap-cap/4){ *isnew=0; return -1; } used[i]=1; tab[i]=*s; nstates++; *isnew=1; return (long)i; }
            if(!memcmp(&tab[i],s,sizeof *s)){ *isnew=0; return (long)i; } i=(i+1)&(cap-1); }
}
static const char *trace(long idx){
   static char buf[2400]; int seq[4096],n=0,k=0,i; buf[0]=0;
   while(idx>=0 && parent[idx]>=0 && n<4096){ seq[n++]=pin[idx]; idx=parent[idx]; }
   /* run-length coded input history, oldest first */
   for(i=n-1;i>=0;){ int j=i,c=0; while(j>=0&&seq[j]==seq[i]){ j--; c++; } k+=snprintf(buf+k,sizeof buf-k,"%s%gms x%d ",(seq[i]&1)?"act/":"sil/",FR[seq[i]>>1]/2.0,c); if(k>2300) break; i=j; }
   return buf;
}

static mc_ctr *c_states,*c_trans,*c_eval,*c_dn,*c_dtx,*c_maxrun,*c_maxcounter,*c_refresh_gap;

static void item(long it,void *ctx){
   long head=0,tail=0; st_t s0; int isnew; long i0; mc_set *obs=(mc_set*)ctx;
   (void)it;
   memset(&s0,0,sizeof s0); s0.seen=0; s0.since=0;   /* fresh encoder: counter 0, as after activity */
   i0=find_or_add(&s0,&isnew); parent[i0]=-1; queue[tail++]=i0;
   mc_case("decide_dtx_mode","BFS");
   while(head<tail){
      long cur=queue[head++]; int a,fi;
      for(a=0;a<2;a++) for(fi=0;fi<6;fi++){
         st_t s=tab[cur]; int f=FR[fi], ret, start=s.since, bad=0; long ni; const char *why=NULL;
         ret=decide_dtx_mode(a,&s.counter,f);
         MC_INC(c_trans); MC_INC(c_eval);
         if (ret!=0&&ret!=1){ why="decide:bad_return"; bad=1; }
         if (a){
            if (ret){ why="decide:dtx_on_active"; bad=1; }
            s.since=0; s.seen=0; s.run=0; s.runmaxf=0;
         } else {
            if (!s.seen) s.since=start+f;
            if (ret){
               MC_INC(c_dtx);
               if (!s.seen && start < 400-f){ why="decide:onset_early"; bad=1; }
               s.seen=1; s.since=SAT;
               s.run+=f; if (f>s.runmaxf) s.runmaxf=(short)f;
               if (s.run >= 800+s.runmaxf){ why="decide:run_too_long"; bad=1; }
               MC_MAX(c_maxrun,s.run);
            } else {
               if (!s.seen && start>400){ why="decide:onset_late"; bad=1; }
               s.run=0; s.runmaxf=0;
            }
         }
         MC_MAX(c_maxcounter,s.counter);
         mc_set_add(obs, mc_mix(mc_mix(a,fi), mc_mix(ret, mc_mix(s.seen, (s.counter>400)+(s.counter>=1200)+(tab[cur].counter==0)*4))));
         if (bad){
            mc_fail(why,"decide_dtx_mode(activity=%d, counter=%d -> %d, frame=%g ms) returned %d; inactive for %g ms before this frame, DTX run now %g ms (longest frame in run %g ms); input history: %s then %s/%gms",
                    a,tab[cur].counter,s.counter,f/2.0,ret,start>=SAT?-1.0:start/2.0,s.run/2.0,s.runmaxf/2.0,trace(cur),a?"act":"sil",f/2.0);
            continue;   /* do not expand beyond a failed state */
         }
         ni=find_or_add(&s,&isnew);
         if (ni<0){ mc_capped("E1 state table full (a changed decide_dtx_mode makes the counter unbounded?)"); return; }
         if (isnew){ parent[ni]=(int)cur; pin[ni]=(unsigned char)(fi*2+a); queue[tail++]=ni; }
      }
   }
   MC_ADD(c_states,nstates);
   /* a few written-out explored cases */
   { long k; int shown=0; for(k=0;k<tail&&shown<4;k++){ st_t *s=&tab[queue[k]]; if((s->run==800&&shown<2)||(s->counter==1200&&s->runmaxf==120&&shown<4)){ mc_sample("E1 reachable state counter=%d (%.1f ms) run=%.1f ms seen_dtx=%d reached by: %s",s->counter,s->counter/2.0,s->run/2.0,s->seen,trace(queue[k])); shown++; } } }
}

int main(int argc,char **argv){
   mc_set *obs;
   mc_init(argc,argv,"C20","decide");
   MC.part=mc_arg_s("--part","decide");
   c_states=mc_counter("states"); c_trans=mc_counter("transitions"); c_eval=mc_counter("evaluations"); c_dn=mc_counter("distinct_nontrivial");
   c_dtx=mc_counter("dtx_answers"); c_maxrun=mc_counter("max_run_q1"); c_maxcounter=mc_counter("max_counter_q1");
   cap=1L<<22; tab=mc_shared(cap*sizeof(st_t)); used=mc_shared(cap); queue=mc_shared(cap*sizeof(long)); parent=mc_shared(cap*sizeof(int)); pin=mc_shared(cap);
   obs=mc_set_new(12);
   mc_par(1,item,obs);
   *c_dn=mc_set_count(obs);
   return mc_finish();
}
