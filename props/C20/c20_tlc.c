/* C20 / secondary cross-check (the claim does not depend on it; part is a "complement": it never decides the verdict).
 *
 * props/C20/Dtx.tla models the Opus-level DTX counter for 20 ms frames driven by an activity input with <= 3 switch
 * points over 40 frames; TLC enumerates all reachable states (every state carries its history, so the states at depth 40 are
 * the behaviours) and checks the statement's run-length / onset invariants on the model.  This harness runs `tlc -dump`,
 * reads the behaviours back and replays every one of them on the real encoder (configurations in which the activity
 * analysis runs: Fs {16,48 kHz} x ch {1,2} x application x {VBR,CBR} x bitrate {12k,32k,96k}, complexity 10, 20 ms frames,
 * 400 ms active warm-up; input per frame = digital silence | the active signal of c20_sched.c): the predicted kind of
 * every packet (DTX <= 2 bytes | regular) must equal the observed one.  traces_validated_against_impl = behaviours x
 * configurations that matched.  A mismatch is reported as advisory information (the model is this check's reading of the
 * code, not the statement); if `tlc` cannot be run the part reports that and validates nothing.
 * Behaviours are replayed in lexicographic order with one encoder snapshot per depth, so shared prefixes are encoded once.
 */
#include <stdlib.h>
#include <string.h>
#include <math.h>
#include <unistd.h>
#include "opus.h"
#include "mc.h"

#define NF 40
typedef struct { char in[NF+1], kind[NF+1]; } beh_t;
static beh_t *B; static long nB;
static int cmpb(const void *a,const void *b){ return memcmp(((const beh_t*)a)->in,((const beh_t*)b)->in,NF); }

static const int FSS[2]={16000,48000};
static const int APPS[3]={OPUS_APPLICATION_VOIP,OPUS_APPLICATION_AUDIO,OPUS_APPLICATION_RESTRICTED_LOWDELAY};
static const char *const APPN[3]={"voip","audio","lowdelay"};
static const int RATES[3]={12000,32000,96000};
static short *g_act[2][3], *g_sil;
static mc_ctr *c_ok,*c_mis,*c_enc,*c_beh,*c_states;

static void mk_signals(void){
   int fi,ch; g_sil=calloc(960*2,sizeof(short));
   for(fi=0;fi<2;fi++){ int Fs=FSS[fi], n=Fs*2, i; unsigned rs=1;
      for(ch=1;ch<=2;ch++) g_act[fi][ch]=malloc(sizeof(short)*n*ch);
      for(i=0;i<n;i++){ double t=i/(double)Fs; int v,v2; rs=rs*1664525u+1013904223u;
         v=(int)(10000*sin(2*M_PI*(250+60*sin(7*t))*t)+5000*sin(2*M_PI*1800*t))+(int)(((rs>>16)&0x7fff)-16384)/3;
         v2=(int)(8000*sin(2*M_PI*(250+60*sin(7*t))*t+0.6)+6000*sin(2*M_PI*1800*t+1.1))+(int)(((rs>>8)&0x7fff)-16384)/3;
         if(v>32767)v=32767; if(v<-32768)v=-32768; if(v2>32767)v2=32767; if(v2<-32768)v2=-32768;
         g_act[fi][1][i]=(short)v; g_act[fi][2][2*i]=(short)v; g_act[fi][2][2*i+1]=(short)v2; } }
}

static void item(long it,void *ctx){
   int ri=it%3, vbr=(it/3)%2, ai=(it/6)%3, ch=1+(it/18)%2, fi=(it/36)%2, Fs=FSS[fi], fsz=Fs/50, W=20, sz=opus_encoder_get_size(ch), d, f; long i;
   OpusEncoder *snap[NF+1]; unsigned char pkt[1500]; char got[NF+1]; long bad=0;
   (void)ctx;
   for(d=0;d<=NF;d++) snap[d]=malloc(sz);
   opus_encoder_init(snap[0],Fs,ch,APPS[ai]); opus_encoder_ctl(snap[0],OPUS_SET_DTX(1)); opus_encoder_ctl(snap[0],OPUS_SET_COMPLEXITY(10));
   opus_encoder_ctl(snap[0],OPUS_SET_BITRATE(RATES[ri])); opus_encoder_ctl(snap[0],OPUS_SET_VBR(vbr));
   mc_case("tlc_replay","Fs=%d ch=%d app=%s %s bitrate=%d",Fs,ch,APPN[ai],vbr?"VBR":"CBR",RATES[ri]);
   for(f=0;f<W;f++){ opus_encode(snap[0],g_act[fi][ch]+(size_t)f*fsz*ch,fsz,pkt,1500); MC_INC(c_enc); }
   memset(got,0,sizeof got);
   for(i=0;i<nB;i++){
      int L=0, mism=-1;
      if (i>0){ while(L<NF && B[i].in[L]==B[i-1].in[L]) L++; }
      for(d=L;d<NF;d++){
         int n; memcpy(snap[d+1],snap[d],sz);
         n=opus_encode(snap[d+1], B[i].in[d]=='1'? g_act[fi][ch]+(size_t)(W+d)*fsz*ch : g_sil, fsz,pkt,1500); MC_INC(c_enc);
         got[d] = (n>0&&n<=2)?'1':'0';
      }
      for(d=0;d<NF;d++) if (got[d]!=B[i].kind[d]){ mism=d; break; }
      if (mism<0) MC_INC(c_ok);
      else { MC_INC(c_mis); if (bad++<2) mc_info("ADVISORY model/encoder mismatch: Fs=%d ch=%d app=%s %s bitrate=%d input(1=active)=%s model-kind(1=DTX)=%s encoder-kind=%s first difference at frame %d",Fs,ch,APPN[ai],vbr?"VBR":"CBR",RATES[ri],B[i].in,B[i].kind,got,mism); }
   }
   for(d=0;d<=NF;d++) free(snap[d]);
}

int main(int argc,char **argv){
   char dir[1024], cmd[4096], line[65536], tdir[1200]; FILE *f; long tcur=-1; char *p; int rc; long nstates=0;
   mc_ctr *tv,*ev,*st,*tr,*dn;
   mc_init(argc,argv,"C20","tlc"); MC.part=mc_arg_s("--part","tlc");
   c_ok=mc_counter("behaviours_matched"); c_mis=mc_counter("model_mismatches_advisory"); c_enc=mc_counter("encodes"); c_beh=mc_counter("tlc_behaviours"); c_states=mc_counter("tlc_states");
   tv=mc_counter("traces_validated_against_impl"); ev=mc_counter("evaluations"); st=mc_counter("states"); tr=mc_counter("transitions"); dn=mc_counter("distinct_nontrivial");
   snprintf(dir,sizeof dir,"%s",__FILE__); p=strrchr(dir,'/'); if(p)*p=0; else strcpy(dir,".");
   snprintf(tdir,sizeof tdir,"%s/tlc",MC.outdir);
   snprintf(cmd,sizeof cmd,"rm -rf '%s' && mkdir -p '%s' && cd '%s' && tlc -metadir '%s/meta' -workers 2 -dump '%s/dump' -config Dtx.cfg Dtx.tla > '%s/tlc.out' 2>&1",tdir,tdir,dir,tdir,tdir,tdir);
   rc=system(cmd);
   snprintf(cmd,sizeof cmd,"%s/dump.dump",tdir); f=fopen(cmd,"r");
   if (rc!=0 || !f){ mc_info("tlc could not be run (rc=%d) - secondary cross-check skipped, nothing validated",rc); mc_capped("tlc unavailable: secondary cross-check skipped"); return mc_finish(); }
   B=malloc(sizeof(beh_t)*200000); nB=0;
   { int inh=0,n=0; beh_t b; memset(&b,0,sizeof b);
   while(fgets(line,sizeof line,f)){
      char *q=line;
      if (!strncmp(line,"State ",6)){ nstates++; tcur=-1; }
      if (!strncmp(line,"/\\ t = ",7)) tcur=atol(line+7);
      if (!strncmp(line,"/\\ hist = ",10)){ inh=1; n=0; memset(&b,0,sizeof b); q=line+10; }
      else if (inh && (!strncmp(line,"/\\ ",3) || line[0]=='\n' || !strncmp(line,"State ",6))){
         if (n==NF && nB<200000) B[nB++]=b;
         inh=0;
      }
      if (inh){ /* tuples <<a, k>> possibly one per line */
         while((q=strstr(q,"<<"))){ while(*q=='<')q++; if((*q=='0'||*q=='1') && q[1]==',' && q[2]==' ' && (q[3]=='0'||q[3]=='1') && q[4]=='>'){ if(n<NF){ b.in[n]=q[0]; b.kind[n]=q[3]; } n++; q+=4; } }
      }
   }
   if (inh && n==NF && nB<200000) B[nB++]=b;
   }
   fclose(f);
   { /* model-level verdict of TLC itself */
     char out[1300]; int okline=0; snprintf(out,sizeof out,"%s/tlc.out",tdir); f=fopen(out,"r");
     if(f){ while(fgets(line,sizeof line,f)){ if(strstr(line,"No error has been found")) okline=1; if(strstr(line,"distinct states found")) mc_info("TLC: %s",line); } fclose(f); }
     if(!okline) mc_info("ADVISORY: TLC did not report 'No error has been found' for Dtx.tla (see %s)",out);
   }
   snprintf(cmd,sizeof cmd,"rm -rf '%s/meta' '%s/dump.dump'",tdir,tdir); system(cmd);
   (void)tcur;
   qsort(B,nB,sizeof(beh_t),cmpb);
   *c_beh=nB; *c_states=nstates;
   mk_signals();
   if (nB>0){ mc_sample("TLC behaviour replayed on the encoder: input(1=active)=%s predicted kind(1=DTX)=%s",B[nB/3].in,B[nB/3].kind);
              mc_sample("TLC behaviour replayed on the encoder: input(1=active)=%s predicted kind(1=DTX)=%s",B[0].in,B[0].kind); }
   mc_par(72,item,NULL);
   *tv=*c_ok; *ev=*c_ok+*c_mis; *st=nstates; *tr=*c_enc; *dn=nB;
   return mc_finish();
}
