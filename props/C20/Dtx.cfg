CONSTANTS T = 40  N = 40  K = 3
INIT Init
NEXT Next
INVARIANTS OnsetNotEarly OnsetNotLate RunBounded NoDtxOnActive
CHECK_DEADLOCK FALSE
