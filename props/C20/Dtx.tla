------------------------------- MODULE Dtx -------------------------------
(* C20 secondary cross-check (the claim does not depend on it).
   The Opus-level DTX counter nb_no_activity_ms_Q1 of src/opus_encoder.c (decide_dtx_mode) for a constant frame
   duration T (in half milliseconds), driven by an activity input with at most K switch points over N frames
   (the input starts active, as after the harness's warm-up).
   Every state carries its history, so the states at depth N are exactly the behaviours: `tlc -dump` writes them out
   and props/C20/c20_tlc.c replays them against the real encoder (predicted packet kind = observed packet kind).
   Invariants = the statement's clauses: first DTX frame of a silent stretch starts within one frame duration of the
   200 ms mark, a run of DTX frames stays below 400 ms + T, an active frame is never DTX. *)
EXTENDS Naturals, Sequences
CONSTANTS T, N, K
VARIABLES cnt, t, sw, act, hist, since, run, seen, early, late

vars == <<cnt, t, sw, act, hist, since, run, seen, early, late>>

Init == /\ cnt = 0 /\ t = 0 /\ sw = 0 /\ act = 1 /\ hist = <<>>
        /\ since = 0 /\ run = 0 /\ seen = 0 /\ early = FALSE /\ late = FALSE

Step(a) ==
   /\ t < N
   /\ ((a # act) => (sw < K))
   /\ sw' = IF a # act THEN sw + 1 ELSE sw
   /\ act' = a
   /\ t' = t + 1
   /\ LET c1  == IF a = 1 THEN 0 ELSE cnt + T
          dtx == IF (a = 0) /\ (c1 > 400) /\ (c1 <= 1200) THEN 1 ELSE 0
          c2  == IF (a = 0) /\ (c1 > 1200) THEN 400 ELSE c1
      IN /\ cnt' = c2
         /\ hist' = Append(hist, <<a, dtx>>)
         /\ run' = IF dtx = 1 THEN run + T ELSE 0
         /\ seen' = IF a = 1 THEN 0 ELSE (IF dtx = 1 THEN 1 ELSE seen)
         /\ since' = IF a = 1 THEN 0 ELSE since + T
         /\ early' = (early \/ ((dtx = 1) /\ (seen = 0) /\ (since + T < 400)))
         /\ late'  = (late  \/ ((a = 0) /\ (dtx = 0) /\ (seen = 0) /\ (since > 400)))

Next == \E a \in {0, 1} : Step(a)

Spec == Init /\ [][Next]_vars

OnsetNotEarly == early = FALSE
OnsetNotLate  == late = FALSE
RunBounded    == run < 800 + T
NoDtxOnActive == (Len(hist) > 0) => ((hist[Len(hist)][1] = 1) => (hist[Len(hist)][2] = 0))
=============================================================================
