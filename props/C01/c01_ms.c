/* C01 (part ms) — multistream and projection decoders: total and memory-safe for arbitrary packets and call histories.
 *
 * state      = byte image of the OpusMSDecoder / OpusProjectionDecoder object (all stream decoders inside), memcpy snapshot
 * transition = {multistream,projection}_decode / _decode24 / _decode_float (packet, frame_size, fec), plc(frame_size)
 * stage 1    = BFS over the history alphabet from the fresh object, visited set keyed by mc_hash of the image (depth 2 / 3)
 * stage 2    = fresh object x { EVERY byte string of length <= 2 (thorough: <= 3 on two layouts), all self-delimited
 *              concatenations of base packets (pairs / triples, equal and unequal durations), their structural closure
 *              (prefixes, byte substitutions around headers and stream boundaries), packets of the frozen projection encoder }
 *              x 3 sample formats x FEC x frame sizes
 * Oracle as in part ss; "valid framing" = every stream parses under the RFC model (Appendix B self-delimited framing for
 * all but the last stream) and all streams announce the same duration.  data==NULL with len>0 is outside the claim (G5).
 */
#include <stdarg.h>
#include "c01_common.h"

typedef struct { int kind, fs, fec; const unsigned char *p; int len; char tag[96]; } mop_t;   /* kind: 0 dec16,1 dec24,2 decf (p==NULL: plc) */
typedef struct { const char *name; int proj, Fs, ch, S, coupled, F25, sz; unsigned char map[8]; unsigned char *fresh; mop_t *H; int nH; mop_t *A; int nA; unsigned char *bp[3]; int bl[3]; char nmbuf[64]; } lay_t;
static lay_t LY[12]; static int nlay;
static lay_t BG[48]; static int nbig;      /* large layouts: sized to the limits the API accepts */
static corpus C;
static unsigned char g_foa_matrix[64]; static int g_foa_msize;
static cpkt *g_projpk; static int g_nprojpk;

static mc_ctr *c_trans,*c_eval,*c_decoded,*c_rejected,*c_valid,*c_adv_lastdur,*c_bfs_trans;
static mc_set *obs,*lastlevel; static htab *T_states; static int g_quiet,g_depth;
static const char *const API_NAME[2][3]={{"ms_decode16","ms_decode24","ms_decodef"},{"proj_decode16","proj_decode24","proj_decodef"}};
static const int API_BYTES[3]={2,4,4};

static long ms_model(const unsigned char *p,int len,int S,int Fs){
   int s; long prev=-1;
   for(s=0;s<S;s++){ rfc_pkt m; long d; if(len<=0) return -1; rfc_parse(p,len,s!=S-1,&m); if(!m.ok) return -1; d=(long)m.count*rfc_frame_48k(m.toc)*Fs/48000; if(s>0&&d!=prev) return -1; prev=d; p+=m.consumed; len-=m.consumed; }
   return prev;
}
static int ms_call(const lay_t *L,void *d,int api,const unsigned char *p,int len,void *out,int fs,int fec){
   if (L->proj){ OpusProjectionDecoder *q=d; return api==0?opus_projection_decode(q,p,len,out,fs,fec):api==1?opus_projection_decode24(q,p,len,out,fs,fec):opus_projection_decode_float(q,p,len,out,fs,fec); }
   else { OpusMSDecoder *q=d; return api==0?opus_multistream_decode(q,p,len,out,fs,fec):api==1?opus_multistream_decode24(q,p,len,out,fs,fec):opus_multistream_decode_float(q,p,len,out,fs,fec); }
}
static int ms_lastdur(const lay_t *L,void *d,opus_int32 *dur){ return L->proj?opus_projection_decoder_ctl((OpusProjectionDecoder*)d,OPUS_GET_LAST_PACKET_DURATION(dur)):opus_multistream_decoder_ctl((OpusMSDecoder*)d,OPUS_GET_LAST_PACKET_DURATION(dur)); }

static int run_ms(const lay_t *L,void *d,const char *ctx,int api,const unsigned char *p,int len,int fs,int fec){
   long n=(long)fs*L->ch; void *out=pcmbuf(n*API_BYTES[api]); int ret; char sig[96]; const char *an=API_NAME[L->proj][api]; const char *shape=(len==0)?"plc":(fec?"fec":"pkt");
   if (!g_quiet){ char cs[48]; snprintf(cs,sizeof cs,"ms:%s:%s",an,shape); mc_case(cs,"layout=%s Fs=%d %s | %s(len=%d,frame_size=%d,fec=%d) pkt=%s",L->name,L->Fs,ctx,an,len,fs,fec,(p&&len>0)?mc_hex(p,len>560?560:len):"-"); }
   ret=ms_call(L,d,api,p,len,out,fs,fec);
   if (g_quiet) return ret;
   MC_INC(c_trans); MC_INC(c_eval);
#define FAIL(clause,...) do{ snprintf(sig,sizeof sig,"ms:%s:%s:%s",an,shape,clause); mc_fail(sig,__VA_ARGS__); }while(0)
#define CALLDESC "layout=%s Fs=%d %s | %s(len=%d,frame_size=%d,fec=%d) pkt=%s -> %d"
#define CALLARGS L->name,L->Fs,ctx,an,len,fs,fec,(p&&len>0)?mc_hex(p,len>560?560:len):"-",ret
   if (ret==0) FAIL("zero_count",CALLDESC,CALLARGS);
   else if (ret>0 && (fs<=0||ret>fs)) FAIL("count_exceeds_frame_size",CALLDESC,CALLARGS);
   else if (ret==OPUS_INTERNAL_ERROR) FAIL("internal_error",CALLDESC,CALLARGS);
   else if (ret<OPUS_ALLOC_FAIL) FAIL("undocumented_code",CALLDESC,CALLARGS);
   if (ret>0) MC_INC(c_decoded); else MC_INC(c_rejected);
   if (ret>0 && api==2){ const float *f=out; long i,m=(long)ret*L->ch; for(i=0;i<m;i++) if(!(fabsf(f[i])<=3.0e38f)){ FAIL("nonfinite_sample",CALLDESC " sample[%ld]=%g",CALLARGS,i,(double)f[i]); break; } }
   if (p && len>0 && fec==0){ long D=ms_model(p,len,L->S,L->Fs);
      if (D>0 && D<=fs){ opus_int32 dur=-1; MC_INC(c_valid);
         if (ret!=D) FAIL("valid_framing_count",CALLDESC " announced=%ld",CALLARGS,D);
         else if (ms_lastdur(L,d,&dur)!=OPUS_OK||dur!=D) FAIL("valid_framing_last_duration",CALLDESC " announced=%ld last_packet_duration=%d",CALLARGS,D,(int)dur); } }
   if (ret>0 && p && len>0 && fec!=0 && ms_model(p,len,L->S,L->Fs)>0){ opus_int32 dur=-1;   /* FEC call on a validly framed packet: the count returned is what the query then reports */
      if (ms_lastdur(L,d,&dur)!=OPUS_OK||dur!=ret) FAIL("valid_framing_last_duration",CALLDESC " last_packet_duration=%d",CALLARGS,(int)dur); }
   if (ret>0){ opus_int32 dur=-1; uint64_t h; ms_lastdur(L,d,&dur); if(dur!=ret) MC_INC(c_adv_lastdur);
      h=mc_mix(mc_mix(mc_hash(L->name,strlen(L->name),L->Fs),api),mc_mix(fec,ret)); h=mc_mix(h,(p&&len>0)?p[0]:0x1FF); h=mc_mix(h,len>3?4:len);
      if (mc_set_add(obs,h) && (h&255)==0) mc_sample("layout=%s Fs=%d %s | %s(len=%d,frame_size=%d,fec=%d) pkt=%s -> n=%d (last_packet_duration=%d)",L->name,L->Fs,ctx,an,len,fs,fec,(p&&len>0)?mc_hex(p,len>48?48:len):"-",ret,(int)dur); }
   return ret;
}

static void *g_base,*g_work; static int g_worksz;
static void need_work(int sz){ if(sz>g_worksz){ free(g_base); free(g_work); g_base=malloc(sz); g_work=malloc(sz); g_worksz=sz; } }
static void hist_desc(const lay_t *L,uint64_t h,char *buf,int cap){ int k,n=0,d=H_DEPTH(h); n+=snprintf(buf+n,cap-n,"hist=["); for(k=0;k<d&&n<cap-100;k++) n+=snprintf(buf+n,cap-n,"%s%s",k?"; ":"",L->H[H_OP(h,k)].tag); snprintf(buf+n,cap-n,"]"); }
static void hist_build(const lay_t *L,uint64_t h,void *d){ int k,dep=H_DEPTH(h),q=g_quiet; memcpy(d,L->fresh,L->sz); g_quiet=1; for(k=0;k<dep;k++){ const mop_t *o=&L->H[H_OP(h,k)]; run_ms(L,d,"",o->kind,o->p,o->len,o->fs,o->fec); } g_quiet=q; }

typedef struct { uint64_t *front; long n; int last; } bfs_ctx;
static void bfs_item(long it,void *vctx){
   bfs_ctx *b=vctx; uint64_t h=b->front[it]; int li=H_CFG(h),k; const lay_t *L=&LY[li]; char ctx[500];
   need_work(L->sz); hist_build(L,h,g_base); hist_desc(L,h,ctx,sizeof ctx);
   for(k=0;k<L->nH;k++){ const mop_t *o=&L->H[k]; uint64_t sh;
      memcpy(g_work,g_base,L->sz); run_ms(L,g_work,ctx,o->kind,o->p,o->len,o->fs,o->fec); MC_INC(c_bfs_trans);
      sh=mc_hash(g_work,L->sz,0xC01500+li);
      if (b->last) mc_set_add(lastlevel,sh); else htab_put(T_states,sh,h_push(h,k)); }
}
static int F_ms(const lay_t *L,int *f){ int q=L->F25,n=0; f[n++]=q; f[n++]=8*q; f[n++]=8*q+1; f[n++]=48*q; if(MC.tier){ f[n++]=0; f[n++]=q-1; f[n++]=4*q; f[n++]=24*q; f[n++]=L->Fs; } return n; }
static int F_rel(const lay_t *L,const unsigned char *p,int len,int *f){ long D=ms_model(p,len,L->S,L->Fs); int q=L->F25,n=0; if(D<=0) D=8*q; if(D-q>0) f[n++]=(int)D-q; f[n++]=(int)D; f[n++]=(int)D+1; if(D!=48*q) f[n++]=48*q; if(MC.tier) f[n++]=L->Fs; return n; }

/* fresh x all byte strings of length <= 2: item = (layout, first byte); length 0 handled with first byte 0 */
static unsigned char *g_blk[4];
static void small_item(long it,void *vctx){
   int b0=(int)(it&255), li=(int)(it>>8), x,api,fec,i,nf,f[12]; const lay_t *L=&LY[li]; (void)vctx;
   need_work(L->sz); if(!g_blk[1]){ g_blk[1]=malloc(1); g_blk[2]=malloc(2); g_blk[3]=malloc(3); }
   nf=F_ms(L,f);
   for(x=-2;x<256;x++){ const unsigned char *p; int len;
      if (x==-2){ if(b0) continue; p=g_zero; len=0; } else if (x==-1){ g_blk[1][0]=(unsigned char)b0; p=g_blk[1]; len=1; } else { g_blk[2][0]=(unsigned char)b0; g_blk[2][1]=(unsigned char)x; p=g_blk[2]; len=2; }
      for(api=0;api<3;api++) for(fec=0;fec<2;fec++) for(i=0;i<nf;i++){ memcpy(g_work,L->fresh,L->sz); run_ms(L,g_work,"fresh",api,p,len,f[i],fec); }
   }
}
/* thorough: all 3-byte strings; item = (layout slot, b0, b1) */
static int S3L[4], nS3;
static void s3_item(long it,void *vctx){
   int b1=(int)(it&255), b0=(int)((it>>8)&255), k=(int)(it>>16), x; const lay_t *L=&LY[S3L[k]]; (void)vctx;
   need_work(L->sz); if(!g_blk[1]){ g_blk[1]=malloc(1); g_blk[2]=malloc(2); g_blk[3]=malloc(3); }
   g_blk[3][0]=(unsigned char)b0; g_blk[3][1]=(unsigned char)b1;
   for(x=0;x<256;x++){ g_blk[3][2]=(unsigned char)x;
      memcpy(g_work,L->fresh,L->sz); run_ms(L,g_work,"fresh",2,g_blk[3],3,48*L->F25,0);
      memcpy(g_work,L->fresh,L->sz); run_ms(L,g_work,"fresh",x&1,g_blk[3],3,8*L->F25,0);
      memcpy(g_work,L->fresh,L->sz); run_ms(L,g_work,"fresh",(x>>1)&1,g_blk[3],3,24*L->F25,1);
   }
}
/* fresh x built alphabet A (item = layout, index in A): the packet itself with relative sizes, and its closure when flagged */
static void alpha_item(long it,void *vctx){
   int li=(int)(it>>12), ai=(int)(it&4095),api,fec,i,nf,f[12]; const lay_t *L=&LY[li]; const mop_t *a; char ctx[200]; (void)vctx;
   if (ai>=L->nA) return;
   a=&L->A[ai]; need_work(L->sz); nf=F_rel(L,a->p,a->len,f); snprintf(ctx,sizeof ctx,"fresh; %s",a->tag);
   for(api=0;api<3;api++) for(fec=0;fec<2;fec++) for(i=0;i<nf;i++){ memcpy(g_work,L->fresh,L->sz); run_ms(L,g_work,ctx,api,a->p,a->len,f[i],fec); }
   if (a->kind){  /* closure requested */
      long v,nv=a->len+4L*a->len; unsigned char *tmp=malloc(a->len+1);
      for(v=0;v<nv;v++){ int len=a->len; unsigned char *q; char d2[48];
         if (v<a->len){ len=(int)v; memcpy(tmp,a->p,len); snprintf(d2,sizeof d2,"prefix%d",len); }
         else { long w=v-a->len; int pos=(int)(w>>2),s=(int)(w&3); if(!MC.tier && pos>=24 && pos%5) continue; memcpy(tmp,a->p,a->len); tmp[pos]= s==0?0:s==1?0xFF:s==2?(a->p[pos]^0x80):(a->p[pos]^1); snprintf(d2,sizeof d2,"subst[%d]=%02x",pos,tmp[pos]); }
         snprintf(ctx,sizeof ctx,"fresh; %s %s",a->tag,d2); q=xdup(tmp,len);
         for(fec=0;fec<2;fec++){ api=(int)((v+fec)%3); memcpy(g_work,L->fresh,L->sz); run_ms(L,g_work,ctx,api,q,len,48*L->F25,fec); if(MC.tier){ memcpy(g_work,L->fresh,L->sz); run_ms(L,g_work,ctx,2,q,len,48*L->F25,fec); } }
         xfree(q); }
      free(tmp);
   }
}

/* ------------------------------------------------------------------ large layouts.
 * Every stack / VLA allocation in the decode entry points is sized by frame_size x channels or by the number of streams, so
 * the layouts are pushed to what the API accepts: 255 channels on one stream, 255 mono streams, 127 coupled + 1 mono, and a
 * projection decoder for every ambisonics order whose (n+1)^2 or (n+1)^2+2 channels the create/init functions accept.
 * Depth is kept small (fresh object, and the object after one all-streams packet); calls = concealment / normal / FEC
 * on all three sample formats x frame sizes up to 120 ms + 2.5 ms and one second, under the default stack limit, with
 * exact-size heap output blocks. item = (layout, state, call). */
#define BIG_NCALL 66
static const char *const BPN[3]={"all-streams silkNB20m","all-streams hybFB20m","all-streams toc-only 48"};
static void big_item(long it,void *vctx){
   int call=(int)(it%BIG_NCALL), stt=(int)((it/BIG_NCALL)%2), li=(int)(it/BIG_NCALL/2); const lay_t *L=&BG[li]; int q=L->F25,api=call%3,k=call/3,fs,fec=0,pk=-1; char ctx[160]; (void)vctx;
   /* k: 0..4 concealment sizes; 5..16 three packets x 4 sizes; 17..21 FEC sizes */
   if (k<5){ static const int m[5]={1,8,48,49,0}; fs=m[k]?m[k]*q:L->Fs; }
   else if (k<17){ static const int m[4]={7,8,49,0}; pk=(k-5)/4; fs=m[(k-5)%4]?m[(k-5)%4]*q:L->Fs; }
   else { static const int m[5]={8,16,49,0,-1}; pk=0; fec=1; fs=m[k-17]>0?m[k-17]*q:(m[k-17]==0?L->Fs:8*q+1); }
   need_work(L->sz); memcpy(g_work,L->fresh,L->sz);
   if (stt){ int qq=g_quiet; g_quiet=1; run_ms(L,g_work,"",2,L->bp[0],L->bl[0],48*q,0); g_quiet=qq; }
   snprintf(ctx,sizeof ctx,"%s%s%s",stt?"hist=[f:all-streams silkNB20m]":"fresh",pk>=0?"; packet=":"",pk>=0?BPN[pk]:"");
   run_ms(L,g_work,ctx,api,pk>=0?L->bp[pk]:NULL,pk>=0?L->bl[pk]:0,fs,fec);
}

/* ------------------------------------------------------------------ alphabet construction */
static int find_pkt(const char *name,int pos){ int s; for(s=0;s<C.ns;s++) if(!strcmp(C.s[s].name,name)){ if(pos<C.s[s].n) return C.s[s].first+pos; } fprintf(stderr,"c01: corpus stream '%s' pos %d missing\n",name,pos); exit(2); }
/* self-delimited re-writing of a standard packet by the harness's own writer */
static int to_selfdelim(const unsigned char *p,int len,unsigned char *out){
   rfc_pkt m,m2; const unsigned char *fr[48]; int sz[48],i,n; rfc_parse(p,len,0,&m); if(!m.ok) return -1;
   for(i=0;i<m.count;i++){ fr[i]=p+m.off[i]; sz[i]=m.size[i]; }
   n=rfc_build(out,m.toc,m.toc&3,m.vbr,m.count,fr,sz,(m.toc&3)==3&&m.has_pad_flag?m.pad_len:-1,p+m.pad_off,1);
   if (n<0) return -1;
   rfc_parse(out,n,1,&m2); if(!m2.ok||m2.consumed!=n||m2.count!=m.count){ fprintf(stderr,"c01: self-delimited writer/model disagree\n"); exit(2); }
   return n;
}
static mop_t *push_op(mop_t **arr,int *n){ *arr=realloc(*arr,(*n+1)*sizeof(mop_t)); memset(&(*arr)[*n],0,sizeof(mop_t)); return &(*arr)[(*n)++]; }
static void add_H(lay_t *L,int kind,int fs,int fec,const unsigned char *p,int len,const char *fmt,...){ mop_t *o=push_op(&L->H,&L->nH); va_list ap; o->kind=kind; o->fs=fs; o->fec=fec; o->p=p?xdup(p,len):NULL; o->len=p?len:0; va_start(ap,fmt); vsnprintf(o->tag,sizeof o->tag,fmt,ap); va_end(ap); }
static void add_A(lay_t *L,int closure,const unsigned char *p,int len,const char *fmt,...){ mop_t *o=push_op(&L->A,&L->nA); va_list ap; o->kind=closure; o->p=xdup(p,len); o->len=len; va_start(ap,fmt); vsnprintf(o->tag,sizeof o->tag,fmt,ap); va_end(ap); }

static int PB[16], nPB; static const char *PBN[16];
static void build_layout(lay_t *L,const char *name,int proj,int Fs,int ch,int S,int coupled,const unsigned char *map,unsigned char *matrix,int msize){
   int idx[3],tot,nvalid=0,nclos=0,i,q=Fs/400,full=48*q,npick; static unsigned char buf[8192];
   memset(L,0,sizeof *L); L->name=name; L->proj=proj; L->Fs=Fs; L->ch=ch; L->S=S; L->coupled=coupled; L->F25=q; memcpy(L->map,map,ch<8?ch:8);
   if (proj){ L->sz=opus_projection_decoder_get_size(ch,S,coupled); L->fresh=malloc(L->sz); if(!L->sz||opus_projection_decoder_init((OpusProjectionDecoder*)L->fresh,Fs,ch,S,coupled,matrix,msize)!=OPUS_OK){ fprintf(stderr,"projection init failed (%s)\n",name); exit(2); } }
   else { L->sz=opus_multistream_decoder_get_size(S,coupled); L->fresh=malloc(L->sz); if(!L->sz||opus_multistream_decoder_init((OpusMSDecoder*)L->fresh,Fs,ch,S,coupled,map)!=OPUS_OK){ fprintf(stderr,"ms init failed (%s)\n",name); exit(2); } }
   /* all S-tuples over the first npick base packets */
   npick = S==1?nPB:(S==2?nPB:(MC.tier?7:6)); tot=1; for(i=0;i<S;i++) tot*=npick;
   for(i=0;i<tot;i++){ int s,t=i,len=0,ok=1; long D; char tag[96]; int tn=0;
      for(s=0;s<S;s++){ idx[s]=t%npick; t/=npick; }
      tn+=snprintf(tag+tn,sizeof tag-tn,"built(");
      for(s=0;s<S&&ok;s++){ cpkt *b=&C.p[PB[idx[s]]]; int n; if(s<S-1){ n=to_selfdelim(b->data,b->len,buf+len); if(n<0) ok=0; else len+=n; } else { memcpy(buf+len,b->data,b->len); len+=b->len; } tn+=snprintf(tag+tn,sizeof tag-tn,"%s%s",s?"+":"",PBN[idx[s]]); }
      if (!ok) continue; snprintf(tag+tn,sizeof tag-tn,")");
      D=ms_model(buf,len,S,Fs);
      { int clos = (D>0 && (nvalid%(MC.tier?3:5))==0 && nclos<(MC.tier?16:8)); if(clos) nclos++; add_A(L,clos,buf,len,"%s",tag); }
      if (D>0){ if(nvalid%(S==1?1:(S==2?2:3))==0){ add_H(L,2,full,0,buf,len,"f:%s",tag); }
         if(nvalid%11==0) add_H(L,0,(int)D,0,buf,len,"s:%s",tag); if(nvalid%13==5) add_H(L,1,(int)D+8*q<=full?(int)D+8*q:full,1,buf,len,"i24-fec:%s",tag); if(nvalid%17==3) add_H(L,2,(int)D,1,buf,len,"f-fec:%s",tag);
         nvalid++; }
      else if (i%9==4) add_H(L,2,full,0,buf,len,"f:invalid %s",tag);
   }
   if (proj && ch==4){ for(i=0;i<g_nprojpk;i++){ add_A(L,i==0,g_projpk[i].data,g_projpk[i].len,"projection-encoder packet %d",i); add_H(L,2,full,0,g_projpk[i].data,g_projpk[i].len,"f:projenc#%d",i); } }
   { static const int plcs[5]={1,4,8,24,48}; for(i=0;i<5;i++) add_H(L,i%3==0?2:(i%3==1?0:1),plcs[i]*q,0,NULL,0,"plc%s(%d)",i%3==0?"f":i%3==1?"16":"24",plcs[i]*q); }
   { /* truncated valid packet */ for(i=0;i<L->nA;i++) if(L->A[i].kind){ add_H(L,2,full,0,L->A[i].p,L->A[i].len-2,"f:truncated %s",L->A[i].tag); break; } }
   if (L->nH>=8192||L->nA>=4096){ fprintf(stderr,"alphabet too large\n"); exit(2); }
}

static int init_layout_obj(lay_t *L,const unsigned char *map,unsigned char *matrix,int msize){
   if (L->proj){ L->sz=opus_projection_decoder_get_size(L->ch,L->S,L->coupled); if(!L->sz) return 0; L->fresh=malloc(L->sz); if(opus_projection_decoder_init((OpusProjectionDecoder*)L->fresh,L->Fs,L->ch,L->S,L->coupled,matrix,msize)!=OPUS_OK){ free(L->fresh); return 0; } }
   else { L->sz=opus_multistream_decoder_get_size(L->S,L->coupled); if(!L->sz) return 0; L->fresh=malloc(L->sz); if(opus_multistream_decoder_init((OpusMSDecoder*)L->fresh,L->Fs,L->ch,L->S,L->coupled,map)!=OPUS_OK){ free(L->fresh); return 0; } }
   return 1;
}
/* returns 1 if the API accepted the layout */
static int build_big(const char *name,int proj,int ch,int S,int coupled,const unsigned char *map){
   lay_t *L=&BG[nbig]; int k,s; static unsigned char mtx[2*255*255]; static unsigned char sd[4096]; static unsigned char toc48[1]={0x48};
   const unsigned char *src[3]; int srcl[3];
   memset(L,0,sizeof *L); snprintf(L->nmbuf,sizeof L->nmbuf,"%s",name); L->name=L->nmbuf; L->proj=proj; L->Fs=48000; L->ch=ch; L->S=S; L->coupled=coupled; L->F25=120;
   if (proj){ int in=S+coupled,r,c; /* identity-like demixing matrix (column-major, ch rows x in columns, little-endian int16): 0.5 on the diagonal, 1/128 elsewhere */
      if ((long)ch*in*2>(long)sizeof mtx) return 0;
      for(c=0;c<in;c++) for(r=0;r<ch;r++){ int v=(r==c)?16384:256; mtx[2*(c*ch+r)]=(unsigned char)(v&255); mtx[2*(c*ch+r)+1]=(unsigned char)(v>>8); }
      if (!init_layout_obj(L,NULL,mtx,ch*in*2)) return 0; }
   else if (!init_layout_obj(L,map,NULL,0)) return 0;
   src[0]=C.p[PB[0]].data; srcl[0]=C.p[PB[0]].len; src[1]=C.p[PB[2]].data; srcl[1]=C.p[PB[2]].len; src[2]=toc48; srcl[2]=1;
   for(k=0;k<3;k++){ int n=to_selfdelim(src[k],srcl[k],sd),len=0; if(n<0){ fprintf(stderr,"c01: big packet build\n"); exit(2); }
      L->bp[k]=malloc((size_t)(S-1)*n+srcl[k]); for(s=0;s<S-1;s++){ memcpy(L->bp[k]+len,sd,n); len+=n; } memcpy(L->bp[k]+len,src[k],srcl[k]); len+=srcl[k]; L->bl[k]=len;
      if (ms_model(L->bp[k],len,S,48000)!=960){ fprintf(stderr,"c01: big packet model\n"); exit(2); } }
   nbig++; return 1;
}
static void make_projection_packets(void){
   int streams=0,coupled=0,err=0,i; opus_int32 msz=0; OpusProjectionEncoder *e=ref_opus_projection_ambisonics_encoder_create(48000,4,3,&streams,&coupled,OPUS_APPLICATION_AUDIO,&err); siggen g; short pcm[960*4]; unsigned char out[4000];
   if(!e||streams!=2||coupled!=2){ fprintf(stderr,"c01: projection encoder create failed (%d, %d streams, %d coupled)\n",err,streams,coupled); exit(2); }
   ref_opus_projection_encoder_ctl(e,OPUS_PROJECTION_GET_DEMIXING_MATRIX_SIZE(&msz)); if(msz<=0||msz>(int)sizeof g_foa_matrix){ fprintf(stderr,"c01: matrix size %d\n",(int)msz); exit(2); }
   ref_opus_projection_encoder_ctl(e,OPUS_PROJECTION_GET_DEMIXING_MATRIX(g_foa_matrix,msz)); g_foa_msize=msz;
   sig_init(&g,SIG_MULTITONE,48000,4,77); g_projpk=calloc(4,sizeof(cpkt));
   for(i=0;i<5;i++){ int n; sig_gen(&g,pcm,960); n=ref_opus_projection_encode(e,pcm,960,out,sizeof out); if(n<=0){ fprintf(stderr,"c01: projection encode %d\n",n); exit(2); } if(i>=2){ g_projpk[g_nprojpk].data=malloc(n); memcpy(g_projpk[g_nprojpk].data,out,n); g_projpk[g_nprojpk].len=n; g_nprojpk++; } }
   ref_opus_projection_encoder_destroy(e);
}

#include <time.h>
static double now_s(void){ struct timespec t; clock_gettime(CLOCK_MONOTONIC,&t); return t.tv_sec+1e-9*t.tv_nsec; }
static double g_t; static long g_tr;
static void stage_info(const char *nm,long items){ double t=now_s(); mc_info("stage %s: items=%ld wall=%.1fs transitions=%ld",nm,items,t-g_t,*c_trans-g_tr); g_t=t; g_tr=*c_trans; }

int main(int argc,char **argv){
   int i,d,stages; long skipped=0; mc_ctr *st,*dn,*lvl[5];
   static const unsigned char m1[1]={0}, m2[2]={0,1}, m3[3]={0,1,2}, m7[7]={0,4,1,255,2,3,0}, m4[4]={0,1,2,3};
   static unsigned char mtx3[18];
   mc_init(argc,argv,"C01","ms"); g_replay=MC.only_item; exact_init();
   g_depth=(int)mc_arg("--depth",MC.tier?3:2); stages=(int)mc_arg("--stages",15);
   c_trans=mc_counter("transitions"); c_eval=mc_counter("evaluations"); c_decoded=mc_counter("calls_returning_samples"); c_rejected=mc_counter("calls_returning_error");
   c_valid=mc_counter("valid_framing_clause_checked"); c_adv_lastdur=mc_counter("advisory_last_duration_differs"); c_bfs_trans=mc_counter("bfs_transitions");
   st=mc_counter("states"); dn=mc_counter("distinct_nontrivial");
   obs=mc_set_new(18); lastlevel=mc_set_new(MC.tier?24:20); T_states=htab_new(MC.tier?19:16);
   corpus_build(&C,0); corpus_add_reframed(&C); make_projection_packets();
   { static const char *const nm[][3]={{"silk bw0 200ms/10 ch1 r0","0","silkNB20m"},{"silk wb 20ms fec ch2","1","silkWB20s-lbrr"},{"hybrid bw1 200ms/10 ch1 r0","0","hybFB20m"},{"celt bw3 200ms/10 ch2 r0","0","celtFB20s"},
        {"silk dtx silence ch1","3","dtx20"},{"celt bw3 25ms/10 ch1 r0","0","celtFB2.5m"},{"celt bw1 100ms/10 ch1 r0","0","celtWB10m"},{"silk bw2 600ms/10 ch1 r0","0","silkWB60m"},{"hybrid bw0 100ms/10 ch2 r0","0","hybSWB10s"},{"transition hybrid->celt ch1","2","hyb-redund20m"}};
     for(i=0;i<10;i++){ PB[nPB]=find_pkt(nm[i][0],atoi(nm[i][1])); PBN[nPB++]=nm[i][2]; }
     /* one re-framed code-3 packet (40 ms, two 20 ms frames) and one padded packet */
     for(i=0;i<C.n;i++) if(C.p[i].kind==1&&C.p[i].dur48==1920&&C.p[i].len<300){ PB[nPB]=i; PBN[nPB++]="repack40"; break; }
     for(i=0;i<C.n;i++) if(C.p[i].kind==2&&C.p[i].dur48==960&&C.p[i].len<100){ PB[nPB]=i; PBN[nPB++]="padded20"; break; } }
   for(i=0;i<9;i++){ mtx3[2*i]=0; mtx3[2*i+1]=(i%4==0)?0x40:0x10; }
   build_layout(&LY[nlay++],"ms-1s0c-1ch",0,48000,1,1,0,m1,NULL,0);
   build_layout(&LY[nlay++],"ms-1s1c-2ch",0,16000,2,1,1,m2,NULL,0);
   build_layout(&LY[nlay++],"ms-2s1c-3ch",0,48000,3,2,1,m3,NULL,0);
   build_layout(&LY[nlay++],"ms-3s2c-7ch-map{0,4,1,255,2,3,0}",0,8000,7,3,2,m7,NULL,0);
   build_layout(&LY[nlay++],"proj-foa-2s2c-4ch",1,48000,4,2,2,m4,g_foa_matrix,g_foa_msize);
   build_layout(&LY[nlay++],"proj-2s1c-3ch",1,24000,3,2,1,m3,mtx3,18);
   if (MC.tier){ build_layout(&LY[nlay++],"ms-2s1c-3ch",0,12000,3,2,1,m3,NULL,0); build_layout(&LY[nlay++],"ms-3s2c-7ch-map{0,4,1,255,2,3,0}",0,48000,7,3,2,m7,NULL,0); build_layout(&LY[nlay++],"proj-foa-2s2c-4ch",1,16000,4,2,2,m4,g_foa_matrix,g_foa_msize); }
   { static unsigned char mp[255]; char nm[64]; int n,rej=0; char rejs[400]; int rn=0; rejs[0]=0;
     for(i=0;i<255;i++) mp[i]=0;            build_big("big-ms-1s0c-255ch(all->stream0)",0,255,1,0,mp);
     for(i=0;i<255;i++) mp[i]=(unsigned char)i; build_big("big-ms-255s0c-255ch",0,255,255,0,mp); build_big("big-ms-128s127c-255ch",0,255,128,127,mp);
     for(i=0;i<255;i++) mp[i]=(unsigned char)(i%3==2?255:(i&1)); build_big("big-ms-1s1c-255ch(L,R,muted...)",0,255,1,1,mp);
     for(n=0;n<=14;n++){ int v; for(v=0;v<2;v++){ int ch=(n+1)*(n+1)+2*v; if(ch>255) continue; snprintf(nm,sizeof nm,"big-proj-order%d%s-%dch-%ds%dc",n,v?"+2":"",ch,(ch+1)/2,ch/2);
        if(!build_big(nm,1,ch,(ch+1)/2,ch/2,NULL)){ rej++; if(rn<350) rn+=snprintf(rejs+rn,sizeof rejs-rn,"%d ",ch); } } }
     mc_info("large layouts accepted by the API: %d (projection channel counts rejected by get_size/init: %s)",nbig,rejs); }
   for(i=0;i<nlay;i++) mc_info("layout %d %s Fs=%d: image=%d bytes, |H|=%d, built alphabet=%d",i,LY[i].name,LY[i].Fs,LY[i].sz,LY[i].nH,LY[i].nA);
   if((stages&4)&&MC.tier){ S3L[nS3++]=2; S3L[nS3++]=4; }
   long n_small=(long)nlay*256, n_alpha=(long)nlay*4096, n_s3=(long)nS3*65536;
   long b_alpha=stage_reserve(n_alpha), b_small=stage_reserve(n_small), b_s3=stage_reserve(n_s3);
   long n_big=(long)nbig*2*BIG_NCALL, b_big=stage_reserve(n_big);
   g_t=now_s();
   if(stages&8){ stage_par_at(b_big,n_big,big_item,NULL,0); stage_info("large-layouts",n_big); }
   for(i=0;i<nlay;i++) htab_put(T_states,mc_hash(LY[i].fresh,LY[i].sz,0xC01500+i),h_root(i));
   for(d=0;d<g_depth;d++){ bfs_ctx b; char nm[32]; b.front=htab_collect(T_states,d,&b.n); b.last=(d==g_depth-1);
      snprintf(nm,sizeof nm,"bfs_level%d_states",d); lvl[d]=mc_counter(nm); *lvl[d]=b.n;
      skipped+=stage_par(b.n,bfs_item,&b,1); free(b.front); stage_info(nm,b.n);
      if (skipped){ mc_capped("BFS level incomplete (deadline)"); break; } }
   if(stages&2){ stage_par_at(b_alpha,n_alpha,alpha_item,NULL,0); stage_info("alphabet",(long)nlay*4096); }
   if(stages&1){ stage_par_at(b_small,n_small,small_item,NULL,0); stage_info("small",(long)nlay*256); }
   if(nS3){ stage_par_at(b_s3,n_s3,s3_item,NULL,0); stage_info("s3",(long)nS3*65536); }
   *st=__atomic_load_n(&T_states->count,__ATOMIC_RELAXED)+mc_set_count(lastlevel); *dn=mc_set_count(obs);
   return mc_finish();
}
