/* C01 (part ss) — single-stream decoder: decoding is total and memory-safe for arbitrary packets and call histories.
 *
 * Explicit-state exploration of the REAL OpusDecoder object.
 *   state      = byte image of the decoder (opus_decoder_get_size bytes; memcpy snapshot / restore)
 *   transition = decode16 / decode24 / decode_float (packet, frame_size, fec), plc(frame_size), reset, set_gain
 *   BFS        = breadth-first search over the history alphabet H from the fresh state, visited set keyed by mc_hash of the
 *                whole image (depth 2 quick / 3 thorough); every transition is judged by the oracle; the minimal history of
 *                every state and of every state class is kept (deterministic whatever the worker scheduling)
 *   probes     = argument-rejection probes (fec in {-1,2,...}, negative len / frame_size), zero-length packets
 *   closure    = from the fresh state: structural closure of base packets (every prefix, byte substitutions {00,FF,^80,^01}
 *                at every position, all 256 TOC bytes, 24 re-framings) x 3 sample formats x FEC x packet-relative frame sizes,
 *                and all inspection functions on every variant
 *   classes    = from one representative (the minimal history) of every reachable *state class* (mode, prev_mode,
 *                prev_redundancy, stream_channels, [bandwidth: thorough], frame_size, CELT loss_duration>0 / skip_plc, SILK
 *                nChannelsInternal / fs_kHz) the leaf alphabet L: all 256 TOC-only packets, structurally distinct 2-byte
 *                packets, three payloads under the 256 TOC bytes, corpus packets, concealment of every size in F
 *   small      = from the fresh state and from primed states: EVERY byte string of length <= 2 x 3 sample formats x FEC x
 *                frame-size alphabet F, with all inspection functions (thorough: every byte string of length 3 as well)
 *   s4         = from the fresh state and two primed states: every TOC byte followed by EVERY string of 3 (quick: 4 as well from the fresh 48 kHz state; thorough 3..5 everywhere)
 *                bytes over the 8-value structural alphabet {00,01,02,41,7F,80,FC,FF} (frame counts, VBR / padding flags, length
 *                bytes at the 251/252 boundary, range-coder extremes), float decode + 16/24-bit FEC decode, inspection functions
 *   fill       = from the fresh state: TOC x EVERY two-byte payload prefix (65 536) followed by a run of one range-coder extreme byte
 *                (FF: every later symbol falls into the LAST interval of its distribution - Laplace tails, largest PVQ / pitch /
 *                gain indices; 00: the first interval; thorough also 7F / 80) - float decode, finiteness and count clauses
 * Stages run in this order (a wall-clock deadline cuts from the end). Item numbers are fixed per stage, so a replay of an item
 * re-runs only the BFS levels it depends on.
 * Oracle (statement only): ASan-clean on exact-size heap blocks (packet copy without slack, PCM block of exactly
 * frame_size*channels samples), no crash / hardening abort / CPU-timeout, return in {documented negative codes except
 * OPUS_INTERNAL_ERROR} or 0<n<=frame_size, float samples finite, and  RFC-valid framing + enough capacity (fec=0)
 * => n == announced duration == OPUS_GET_LAST_PACKET_DURATION; RFC-valid framing + fec=1 + a count returned => OPUS_GET_LAST_PACKET_DURATION == that count.
 * Outside the claim (G5): frame_size*channels beyond one second; not generated.
 */
#include <stdarg.h>
#include <unistd.h>
#include <sys/wait.h>
#include "c01_common.h"
#include "control.h"
#include "structs.h"

/* ------------------------------------------------------------------ mirrors of private structs (class abstraction only) */
typedef struct { int celt_dec_offset, silk_dec_offset, channels; opus_int32 Fs; silk_DecControlStruct DecControl; int decode_gain, complexity, arch;
   int stream_channels, bandwidth, mode, prev_mode, frame_size, prev_redundancy, last_packet_duration; float softclip_mem[2]; opus_uint32 rangeFinal; } odec_mirror;
typedef struct { const void *mode; int overlap, channels, stream_channels, downsample, start, end, signalling, disable_inv, complexity, arch;
   opus_uint32 rng; int error, last_pitch_index, loss_duration, skip_plc, postfilter_period; } celt_mirror;
typedef struct { silk_decoder_state channel_state[2]; stereo_dec_state sStereo; opus_int nChannelsAPI, nChannelsInternal, prev_decode_only_middle; } silk_mirror;
static int mirror_ok=1;

/* ------------------------------------------------------------------ alphabets */
enum { K_DEC16=0, K_DEC24=1, K_DECF=2, K_PLC=3, K_RESET=4, K_GAIN=5 };
typedef struct { int kind, fs, fec, arg; const unsigned char *p; int len; char tag[72]; } op_t;
typedef struct { int Fs, ch, F25, sz; unsigned char *fresh; op_t *H; int nH; int primed[8][2]; int nprimed; } cfg_t;
static cfg_t CF[10]; static int ncfg;
static corpus C;
static int *LB; static int nLB;          /* corpus packets used by the leaf alphabet */
static int B12[16], nB12;                /* base packets whose closure is explored */
static int RW[3];                        /* payloads for the 256 TOC rewrites */

static mc_ctr *c_trans,*c_eval,*c_decoded,*c_rejected,*c_insp,*c_valid,*c_adv_lastdur,*c_adv_plc,*c_bfs_trans;
static mc_set *obs, *lastlevel;
static htab *T_states, *T_classes;
static int g_depth, g_quiet, g_classkey;

static const char *const API_NAME[3]={"decode16","decode24","decodef"};
static const int API_BYTES[3]={2,4,4};

/* ------------------------------------------------------------------ the judged call */
static int run_decode(const cfg_t *c,OpusDecoder *d,const char *ctx,int api,const unsigned char *p,int len,int fs,int fec){
   long n=(long)fs*c->ch; void *out=pcmbuf(n*API_BYTES[api]); int ret; char sig[96]; const char *shape=(p==NULL||len==0)?"plc":(fec?"fec":"pkt");
   if (!g_quiet){ char cs[40]; snprintf(cs,sizeof cs,"ss:%s:%s",API_NAME[api],shape); mc_case(cs,"Fs=%d ch=%d %s | %s(len=%d,frame_size=%d,fec=%d) pkt=%s",c->Fs,c->ch,ctx,API_NAME[api],len,fs,fec,(p&&len>0)?mc_hex(p,len>560?560:len):"-"); }
   if (api==0) ret=opus_decode(d,p,len,(opus_int16*)out,fs,fec);
   else if (api==1) ret=opus_decode24(d,p,len,(opus_int32*)out,fs,fec);
   else ret=opus_decode_float(d,p,len,(float*)out,fs,fec);
   if (g_quiet) return ret;
   MC_INC(c_trans); MC_INC(c_eval);
#define FAIL(clause,...) do{ snprintf(sig,sizeof sig,"ss:%s:%s:%s",API_NAME[api],shape,clause); mc_fail(sig,__VA_ARGS__); }while(0)
#define CALLDESC "Fs=%d ch=%d %s | %s(len=%d,frame_size=%d,fec=%d) pkt=%s -> %d"
#define CALLARGS c->Fs,c->ch,ctx,API_NAME[api],len,fs,fec,(p&&len>0)?mc_hex(p,len>560?560:len):"-",ret
   if (ret==0) FAIL("zero_count",CALLDESC,CALLARGS);
   else if (ret>0 && (fs<=0||ret>fs)) FAIL("count_exceeds_frame_size",CALLDESC,CALLARGS);
   else if (ret==OPUS_INTERNAL_ERROR) FAIL("internal_error",CALLDESC,CALLARGS);
   else if (ret<OPUS_ALLOC_FAIL) FAIL("undocumented_code",CALLDESC,CALLARGS);
   if (ret>0) MC_INC(c_decoded); else MC_INC(c_rejected);
   if (ret>0 && api==2){ const float *f=out; long i,m=(long)ret*c->ch; for(i=0;i<m;i++) if(!(fabsf(f[i])<=3.0e38f)){ FAIL("nonfinite_sample",CALLDESC " sample[%ld]=%g",CALLARGS,i,(double)f[i]); break; } }
   if (p && len>0 && fec==0){
      rfc_pkt m; rfc_parse(p,len,0,&m);
      if (m.ok){ long D=(long)m.count*rfc_frame_48k(m.toc)*c->Fs/48000;
         if (D<=fs){ opus_int32 dur=-1; MC_INC(c_valid);
            if (ret!=D) FAIL("valid_framing_count",CALLDESC " announced=%ld",CALLARGS,D);
            else if (opus_decoder_ctl(d,OPUS_GET_LAST_PACKET_DURATION(&dur))!=OPUS_OK || dur!=D) FAIL("valid_framing_last_duration",CALLDESC " announced=%ld last_packet_duration=%d",CALLARGS,D,(int)dur);
         } }
   }
   if (ret>0 && p && len>0 && fec!=0){ rfc_pkt m; rfc_parse(p,len,0,&m);      /* FEC call on a validly framed packet: the count returned is what the query then reports */
      if (m.ok){ opus_int32 dur=-1; if (opus_decoder_ctl(d,OPUS_GET_LAST_PACKET_DURATION(&dur))!=OPUS_OK || dur!=ret) FAIL("valid_framing_last_duration",CALLDESC " last_packet_duration=%d",CALLARGS,(int)dur); } }
   if (ret>0){ opus_int32 dur=-1; opus_decoder_ctl(d,OPUS_GET_LAST_PACKET_DURATION(&dur)); if(dur!=ret) MC_INC(c_adv_lastdur);       /* advisory: not in the statement for PLC (null packet) calls */
      if ((p==NULL||len==0) && ret!=fs) MC_INC(c_adv_plc);
      { uint64_t h=mc_mix(mc_mix(c->Fs,c->ch),mc_mix(api,fec)); h=mc_mix(h,(p&&len>0)?p[0]:0x1FF); h=mc_mix(h,ret); h=mc_mix(h,len>2?3:len);
        if (mirror_ok){ const odec_mirror *o=(const odec_mirror*)d; h=mc_mix(h,o->prev_mode*4+o->prev_redundancy); }
        if (mc_set_add(obs,h) && (h&1023)==0) mc_sample("Fs=%d ch=%d %s | %s(len=%d,frame_size=%d,fec=%d) pkt=%s -> n=%d (last_packet_duration=%d)",c->Fs,c->ch,ctx,API_NAME[api],len,fs,fec,(p&&len>0)?mc_hex(p,len>48?48:len):"-",ret,(int)dur); } }
   return ret;
}

/* inspection functions on an exact-size packet block: ASan-clean, terminate, sane codes, pointers inside the packet */
static const unsigned char **g_frames; static opus_int16 *g_sizes;
static void run_inspect(const cfg_t *c,const unsigned char *p,int len,const char *ctx){
   unsigned char toc=0; int po=-1,r,i; char sig[64];
   if (!g_frames){ g_frames=malloc(48*sizeof(*g_frames)); g_sizes=malloc(48*sizeof(opus_int16)); }
#define ICHK(name,call) do{ mc_case("ss:inspect:" name,"Fs=%d %s len=%d pkt=%s",c->Fs,ctx,len,mc_hex(p,len>560?560:len)); r=(call); MC_INC(c_insp); MC_INC(c_eval); \
      if (r==OPUS_INTERNAL_ERROR||r<OPUS_ALLOC_FAIL){ snprintf(sig,sizeof sig,"ss:inspect:%s:bad_code",name); mc_fail(sig,"%s on len=%d pkt=%s returned %d",name,len,mc_hex(p,len>560?560:len),r); } }while(0)
   ICHK("parse",opus_packet_parse(p,len,&toc,g_frames,g_sizes,&po));
   if (r>0){ long tot=0; if(r>48) mc_fail("ss:inspect:parse:count_gt_48","len=%d pkt=%s count=%d",len,mc_hex(p,len>560?560:len),r);
      for(i=0;i<r&&i<48;i++){ if(g_sizes[i]<0||g_frames[i]<p||g_frames[i]+g_sizes[i]>p+len){ mc_fail("ss:inspect:parse:frame_outside_packet","len=%d pkt=%s frame %d off=%ld size=%d",len,mc_hex(p,len>560?560:len),i,(long)(g_frames[i]-p),g_sizes[i]); break; } tot+=g_sizes[i]; } (void)tot; }
   ICHK("parse_noopt",opus_packet_parse(p,len,NULL,NULL,g_sizes,NULL));
   ICHK("get_nb_frames",opus_packet_get_nb_frames(p,len));
   ICHK("get_nb_samples",opus_packet_get_nb_samples(p,len,c->Fs));
   ICHK("decoder_get_nb_samples",opus_decoder_get_nb_samples((const OpusDecoder*)c->fresh,p,len));
   if (len>=1){
      ICHK("has_lbrr",opus_packet_has_lbrr(p,len));
      ICHK("get_bandwidth",opus_packet_get_bandwidth(p));
      ICHK("get_nb_channels",opus_packet_get_nb_channels(p));
      ICHK("get_samples_per_frame",opus_packet_get_samples_per_frame(p,c->Fs));
   }
}

static int apply_op(const cfg_t *c,OpusDecoder *d,const op_t *o,const char *ctx){
   switch(o->kind){
   case K_DEC16: case K_DEC24: case K_DECF: return run_decode(c,d,ctx,o->kind,o->p,o->len,o->fs,o->fec);
   case K_PLC: return run_decode(c,d,ctx,o->arg,NULL,0,o->fs,0);
   case K_RESET: if(!g_quiet){ mc_case("ss:reset","Fs=%d ch=%d %s | reset",c->Fs,c->ch,ctx); MC_INC(c_trans); } { int r=opus_decoder_ctl(d,OPUS_RESET_STATE); if(r!=OPUS_OK&&!g_quiet) mc_fail("ss:ctl:reset_failed","%s -> %d",ctx,r); return r; }
   case K_GAIN: if(!g_quiet){ mc_case("ss:set_gain","Fs=%d ch=%d %s | set_gain(%d)",c->Fs,c->ch,ctx,o->arg); MC_INC(c_trans); } { int r=opus_decoder_ctl(d,OPUS_SET_GAIN(o->arg)); if(r!=OPUS_OK&&!g_quiet) mc_fail("ss:ctl:set_gain_failed","%s gain=%d -> %d",ctx,o->arg,r); return r; }
   }
   return 0;
}

/* rebuild the state a history denotes (ops already judged when first explored) and describe it */
static void hist_desc(const cfg_t *c,uint64_t h,char *buf,int cap){ int k,n=0,d=H_DEPTH(h); n+=snprintf(buf+n,cap-n,"hist=["); for(k=0;k<d&&n<cap-80;k++) n+=snprintf(buf+n,cap-n,"%s%s",k?"; ":"",c->H[H_OP(h,k)].tag); snprintf(buf+n,cap-n,"]"); }
static void hist_build(const cfg_t *c,uint64_t h,OpusDecoder *d){ int k,dep=H_DEPTH(h),q=g_quiet; memcpy(d,c->fresh,c->sz); g_quiet=1; for(k=0;k<dep;k++) apply_op(c,d,&c->H[H_OP(h,k)],""); g_quiet=q; }

static uint64_t class_key(const cfg_t *c,const OpusDecoder *d,int cfgi){
   uint64_t k=mc_mix(0xC01,cfgi);
   if (mirror_ok){ const odec_mirror *o=(const odec_mirror*)d; const celt_mirror *ce=(const celt_mirror*)((const char*)d+o->celt_dec_offset); const silk_mirror *si=(const silk_mirror*)((const char*)d+o->silk_dec_offset);
      k=mc_mix(k,o->mode); k=mc_mix(k,o->prev_mode); k=mc_mix(k,o->prev_redundancy); k=mc_mix(k,o->stream_channels); if(g_classkey==0) k=mc_mix(k,o->bandwidth); k=mc_mix(k,o->frame_size);
      k=mc_mix(k,ce->loss_duration>0); k=mc_mix(k,ce->skip_plc); k=mc_mix(k,si->nChannelsInternal); k=mc_mix(k,si->channel_state[0].fs_kHz);
   } else { opus_int32 bw=0,ld=0,g=0,pi=0; OpusDecoder *dd=(OpusDecoder*)d; opus_decoder_ctl(dd,OPUS_GET_BANDWIDTH(&bw)); opus_decoder_ctl(dd,OPUS_GET_LAST_PACKET_DURATION(&ld)); opus_decoder_ctl(dd,OPUS_GET_GAIN(&g)); opus_decoder_ctl(dd,OPUS_GET_PITCH(&pi));
      k=mc_mix(k,bw); k=mc_mix(k,ld); k=mc_mix(k,g>0?2:g<0?1:0); k=mc_mix(k,pi>0); }
   return k;
}

/* ------------------------------------------------------------------ stage 1: BFS level */
typedef struct { uint64_t *front; long n; int last; } bfs_ctx;
static OpusDecoder *g_base,*g_work; static int g_worksz;
static void need_work(int sz){ if(sz>g_worksz){ free(g_base); free(g_work); g_base=malloc(sz); g_work=malloc(sz); g_worksz=sz; } }
static void bfs_item(long it,void *vctx){
   bfs_ctx *b=vctx; uint64_t h=b->front[it]; int ci=H_CFG(h),k; const cfg_t *c=&CF[ci]; char ctx[400];
   need_work(c->sz); hist_build(c,h,g_base); hist_desc(c,h,ctx,sizeof ctx);
   for(k=0;k<c->nH;k++){ uint64_t sh,h2;
      memcpy(g_work,g_base,c->sz);
      apply_op(c,g_work,&c->H[k],ctx); MC_INC(c_bfs_trans);
      sh=mc_hash(g_work,c->sz,0xC01000+ci); h2=h_push(h,k);
      if (b->last) mc_set_add(lastlevel,sh); else htab_put(T_states,sh,h2);
      htab_put(T_classes,class_key(c,g_work,ci),h2);
   }
}

/* ------------------------------------------------------------------ frame-size alphabets */
static int F_full(const cfg_t *c,int *f){ int q=c->F25,n=0; f[n++]=0; f[n++]=1; f[n++]=q-1; f[n++]=q; f[n++]=2*q; f[n++]=3*q; f[n++]=4*q; f[n++]=5*q; f[n++]=6*q; f[n++]=8*q; f[n++]=8*q+1; f[n++]=16*q; f[n++]=24*q; f[n++]=32*q; f[n++]=40*q; f[n++]=48*q; f[n++]=49*q; f[n++]=c->Fs; return n; }
static int F_small(const cfg_t *c,int *f){ int q=c->F25,n=0; f[n++]=q; f[n++]=4*q; f[n++]=8*q; f[n++]=8*q+1; f[n++]=24*q; f[n++]=48*q; return n; }
static int F_mid(const cfg_t *c,int *f){ int q=c->F25,n=0; f[n++]=0; f[n++]=q-1; f[n++]=q; f[n++]=4*q; f[n++]=8*q; f[n++]=8*q+1; f[n++]=24*q; f[n++]=48*q; f[n++]=c->Fs; return n; }
static int F_three(const cfg_t *c,int *f){ int q=c->F25,n=0; f[n++]=q; f[n++]=8*q; f[n++]=48*q; return n; }
/* packet-relative sizes: just too small, exact, exact+1 (not a 2.5 ms multiple), exact + 20 ms, 120 ms */
static int F_rel(const cfg_t *c,const unsigned char *p,int len,int *f){ rfc_pkt m; int n=0,q=c->F25; long D; rfc_parse(p,len,0,&m); D=m.ok?(long)m.count*rfc_frame_48k(m.toc)*c->Fs/48000:(len>0?(long)rfc_frame_48k(p[0])*c->Fs/48000:8*q);
   if (D>48*q) D=48*q; if(D-q>0) f[n++]=(int)D-q; f[n++]=(int)D; f[n++]=(int)D+1; if(D+8*q<48*q) f[n++]=(int)D+8*q; if(D!=48*q) f[n++]=48*q; return n; }

/* ------------------------------------------------------------------ stage 2: leaf alphabet from class representatives */
typedef struct { uint64_t *reps; long n; } cls_ctx;
static unsigned char *g_blk1,*g_blk2;
/* sizes: 0 = 120 ms only; 1 = packet-relative set F_rel; 2 = {just too small, exact, 120 ms} */
static void leaf_packet(const cfg_t *c,const char *ctx,const unsigned char *p,int len,int apis,int fecs,int sizes){
   int f[8],nf,i,api,fec;
   if (sizes==1) nf=F_rel(c,p,len,f); else if (sizes==2){ int g[8],ng=F_rel(c,p,len,g); nf=0; for(i=0;i<ng&&nf<2;i++) f[nf++]=g[i]; if(f[nf-1]!=48*c->F25) f[nf++]=48*c->F25; } else { f[0]=48*c->F25; nf=1; }
   for(api=0;api<3;api++) if(apis&(1<<api)) for(fec=0;fec<2;fec++) if(fecs&(1<<fec)) for(i=0;i<nf;i++){ memcpy(g_work,g_base,c->sz); run_decode(c,g_work,ctx,api,p,len,f[i],fec); }
}
static void cls_item(long it,void *vctx){
   cls_ctx *cc=vctx; uint64_t h=cc->reps[it]; int ci=H_CFG(h),t,x,k,i; const cfg_t *c=&CF[ci]; char ctx[400]; int f[20],nf; int thorough=MC.tier;
   static const unsigned char second[9]={0x00,0x02,0x81,0x01,0x30,0x03,0x31,0x41,0x82};
   need_work(c->sz); hist_build(c,h,g_base); hist_desc(c,h,ctx,sizeof ctx);
   if(!g_blk1){ g_blk1=malloc(1); g_blk2=malloc(2); }
   /* (a) every TOC-only packet, (b) two-byte packets with the structurally distinct second bytes */
   for(t=0;t<256;t++){ g_blk1[0]=(unsigned char)t; leaf_packet(c,ctx,g_blk1,1,thorough?5:4,3,thorough?2:0);
      for(x=0;x<(thorough?9:3);x++){ g_blk2[0]=(unsigned char)t; g_blk2[1]=second[x]; leaf_packet(c,ctx,g_blk2,2,4,thorough?3:1,0); } }
   /* (c) three payloads under each of the 256 TOC bytes (quick: frame codes 0 and one other per payload) */
   for(k=0;k<3;k++){ cpkt *b=&C.p[RW[k]]; unsigned char *q=xdup(b->data,b->len); for(t=0;t<256;t++){ if(!thorough && (t&3)!=0 && (t&3)!=(k+1)) continue; q[0]=(unsigned char)t; leaf_packet(c,ctx,q,b->len,4,thorough?3:1,0); } xfree(q); }
   /* (d) corpus packets, packet-relative frame sizes, all sample formats (quick: 16/24-bit alternate with the packet index) */
   for(i=0;i<nLB;i++){ cpkt *b=&C.p[LB[i]]; unsigned char *q=xdup(b->data,b->len); leaf_packet(c,ctx,q,b->len,thorough?7:(4|(1<<(i%2))),3,2); xfree(q); }
   /* (e) concealment of every size in F, all formats */
   nf=F_full(c,f); for(k=0;k<3;k++) for(i=0;i<nf;i++){ memcpy(g_work,g_base,c->sz); run_decode(c,g_work,ctx,k,NULL,0,f[i],0); }
}

/* ------------------------------------------------------------------ stage 3: fresh / primed states x exhaustive small packets, closure, probes */
/* item = (cfg, primed index pi (0 = fresh), toc): packets [toc] and [toc,x] for all x */
static void small_item(long it,void *vctx){
   int toc=(int)(it&255), pi=(int)((it>>8)%8), ci=(int)(it>>11), x,api,fec,i,nf,f[20]; const cfg_t *c=&CF[ci]; char ctx[400]; uint64_t h=h_root(ci); (void)vctx;
   if (pi>c->nprimed) return;
   if (pi>0){ h=h_push(h,c->primed[pi-1][0]); if(c->primed[pi-1][1]>=0) h=h_push(h,c->primed[pi-1][1]); }
   need_work(c->sz); hist_build(c,h,g_base); hist_desc(c,h,ctx,sizeof ctx);
   if(!g_blk1){ g_blk1=malloc(1); g_blk2=malloc(2); }
   nf = pi==0 ? (MC.tier?F_full(c,f):F_mid(c,f)) : (MC.tier?F_small(c,f):F_three(c,f));
   for(x=-1;x<256;x++){ const unsigned char *p; int len;
      if (x<0){ g_blk1[0]=(unsigned char)toc; p=g_blk1; len=1; } else { g_blk2[0]=(unsigned char)toc; g_blk2[1]=(unsigned char)x; p=g_blk2; len=2; }
      if (pi==0) run_inspect(c,p,len,"");
      for(api=0;api<3;api++) for(fec=0;fec<2;fec++) for(i=0;i<nf;i++){ memcpy(g_work,g_base,c->sz); run_decode(c,g_work,ctx,api,p,len,f[i],fec); }
   }
}
/* item = (cfg, base packet, slice): closure of the base packet from the fresh state */
#define CL_SLICES 8
static void closure_item(long it,void *vctx){
   int sl=(int)(it%CL_SLICES), bi=(int)((it/CL_SLICES)%nB12), ci=(int)(it/CL_SLICES/nB12); const cfg_t *c=&CF[ci]; cpkt *b=&C.p[B12[bi]]; long v,nv=closure_count(b->len); char ctx[400],d2[64]; static unsigned char out[70000]; (void)vctx;
   need_work(c->sz); memcpy(g_base,c->fresh,c->sz);
   for(v=sl-1;v<nv;v+=CL_SLICES){ int len,f[8],nf,i,api,fec; unsigned char *q;
      if (v<0){ memcpy(out,b->data,b->len); len=b->len; snprintf(d2,sizeof d2,"unchanged"); } else len=closure_make(b->data,b->len,v,out,d2,sizeof d2);
      if (len<0) break;
      snprintf(ctx,sizeof ctx,"fresh; base='%s'#%d %s",C.s[b->stream].name,b->idx,d2);
      q=xdup(out,len); run_inspect(c,q,len,ctx);
      if (len>0){ if(MC.tier){ nf=F_rel(c,q,len,f); f[nf++]=c->F25; } else { int g[8],ng=F_rel(c,q,len,g); nf=0; for(i=0;i<ng&&nf<2;i++) f[nf++]=g[i]; if(f[nf-1]!=48*c->F25) f[nf++]=48*c->F25; }
         for(api=0;api<3;api++) for(fec=0;fec<2;fec++) for(i=0;i<nf;i++){ memcpy(g_work,g_base,c->sz); run_decode(c,g_work,ctx,api,q,len,f[i],fec); } }
      xfree(q);
   }
}
/* argument-rejection probes and the zero-length packet; one item per cfg */
static void probe_item(long it,void *vctx){
   int ci=(int)it,api,k; const cfg_t *c=&CF[ci]; cpkt *b=&C.p[B12[0]]; unsigned char *q=xdup(b->data,b->len); static const int badfec[4]={-1,2,256,-2147483647-1}; (void)vctx;
   need_work(c->sz);
   for(api=0;api<3;api++){
      for(k=0;k<4;k++){ memcpy(g_work,c->fresh,c->sz); run_decode(c,g_work,"fresh; probe bad fec",api,q,b->len,48*c->F25,badfec[k]); }
      memcpy(g_work,c->fresh,c->sz); run_decode(c,g_work,"fresh; probe negative len",api,q,-1,48*c->F25,0);
      memcpy(g_work,c->fresh,c->sz); run_decode(c,g_work,"fresh; probe negative frame_size",api,q,b->len,-1,0);
      memcpy(g_work,c->fresh,c->sz); run_decode(c,g_work,"fresh; probe negative frame_size plc",api,NULL,0,-c->F25,0);
      memcpy(g_work,c->fresh,c->sz); run_decode(c,g_work,"fresh; zero-length packet (non-NULL pointer)",api,g_zero,0,8*c->F25,0);
      memcpy(g_work,c->fresh,c->sz); run_decode(c,g_work,"fresh; zero-length packet fec",api,g_zero,0,8*c->F25,1);
   }
   run_inspect(c,g_zero,0,"zero-length packet");
   xfree(q);
}
/* the one inspection function that takes (packet,len) and is not guarded for len==0. The call runs in a forked child of its
   own so that its ASan abort is an ordinary, attributable failure record and cannot hide or abort anything else. */
static void probe_lbrr0_item(long it,void *vctx){ pid_t pid; int stt=0; (void)it; (void)vctx;
   mc_case("ss:inspect:has_lbrr:len0","opus_packet_has_lbrr(packet=<zero-length heap region>, len=0)"); MC_INC(c_insp); MC_INC(c_eval);
   fflush(stdout); pid=fork();
   if (pid==0){ int r=opus_packet_has_lbrr(g_zero,0); _exit((r>0||r==OPUS_INTERNAL_ERROR||r<OPUS_ALLOC_FAIL)?3:0); }
   if (pid<0 || waitpid(pid,&stt,0)<0) return;
   if (WIFSIGNALED(stt)) mc_fail("ss:inspect:has_lbrr:len0:overread","opus_packet_has_lbrr(packet=<zero-length heap region: one past a 1-byte malloc block>, len=0) died with signal %d (AddressSanitizer report in the out directory: READ of packet[0])",WTERMSIG(stt));
   else if (WIFEXITED(stt)&&WEXITSTATUS(stt)==3) mc_fail("ss:inspect:has_lbrr:len0:bad_code","opus_packet_has_lbrr(packet,0) returned a positive or undocumented value");
   else if (WIFEXITED(stt)&&WEXITSTATUS(stt)!=0) mc_fail("ss:inspect:has_lbrr:len0:overread","opus_packet_has_lbrr(packet=<zero-length heap region>, len=0): child exited with status %d",WEXITSTATUS(stt));
}
/* thorough: every 3-byte string from the fresh state; item = (cfg slot, toc, second byte) */
static int S3CFG[4], nS3;
static void s3_item(long it,void *vctx){
   int b1=(int)(it&255), toc=(int)((it>>8)&255), k=(int)(it>>16), x; const cfg_t *c=&CF[S3CFG[k]]; static unsigned char *blk3; (void)vctx;
   need_work(c->sz); if(!blk3) blk3=malloc(3);
   blk3[0]=(unsigned char)toc; blk3[1]=(unsigned char)b1;
   for(x=0;x<256;x++){ blk3[2]=(unsigned char)x;
      if (k==0) run_inspect(c,blk3,3,"");
      memcpy(g_work,c->fresh,c->sz); run_decode(c,g_work,"fresh",2,blk3,3,48*c->F25,0);
      memcpy(g_work,c->fresh,c->sz); run_decode(c,g_work,"fresh",(x&1)?0:1,blk3,3,24*c->F25,1);
   }
}

/* every TOC followed by every string of 3..maxbody bytes over a structural 8-value alphabet; item = (cfg slot, primed index, toc) */
static int S4CFG[4], nS4, g_s4max;
static const unsigned char S4A[8]={0x00,0x01,0x02,0x41,0x7F,0x80,0xFC,0xFF};
static void s4_item(long it,void *vctx){
   int toc=(int)(it&255), pi=(int)((it>>8)%3), k=(int)(it/(256*3)), L; const cfg_t *c=&CF[S4CFG[k]]; char ctx[400]; uint64_t h=h_root(S4CFG[k]); unsigned char *blk; (void)vctx;
   if (pi>c->nprimed) return;
   if (pi>0){ h=h_push(h,c->primed[pi-1][0]); if(c->primed[pi-1][1]>=0) h=h_push(h,c->primed[pi-1][1]); }
   need_work(c->sz); hist_build(c,h,g_base); hist_desc(c,h,ctx,sizeof ctx);
   for(L=3;L<=g_s4max;L++){ long v,nv=1L<<(3*L); int j;
      if (!MC.tier && L==g_s4max && L>3 && (pi!=0||k!=0)) continue;      /* quick: the longest length only from the fresh 48 kHz stereo state */
      blk=malloc(1+L); blk[0]=(unsigned char)toc;
      for(v=0;v<nv;v++){ for(j=0;j<L;j++) blk[1+j]=S4A[(v>>(3*j))&7];
         if (pi==0 && k==0) run_inspect(c,blk,1+L,"");
         memcpy(g_work,g_base,c->sz); run_decode(c,g_work,ctx,2,blk,1+L,48*c->F25,0);
         memcpy(g_work,g_base,c->sz); run_decode(c,g_work,ctx,(v&1)?0:1,blk,1+L,(v&2)?24*c->F25:8*c->F25,1);
      }
      free(blk);
   }
}

/* TOC x every two-byte prefix x extreme-byte run; item = (cfg slot, toc index, fill index, b1) */
static int FCFG[3], nFC; static unsigned char FTOC[64]; static int nFT, nFILL, nFLEN; static const unsigned char FILLV[4]={0xFF,0x00,0x7F,0x80}; static const int FLEN[2]={41,160};
static void fill_item(long it,void *vctx){
   int b1=(int)(it&255), fi=(int)((it>>8)%nFILL), ti=(int)((it>>8)/nFILL%nFT), k=(int)((it>>8)/nFILL/nFT), b2,li; const cfg_t *c=&CF[FCFG[k]]; char ctx[64]; (void)vctx;
   need_work(c->sz);
   for(li=0;li<nFLEN;li++){ int len=FLEN[li]; unsigned char *blk=malloc(len); memset(blk,FILLV[fi],len); blk[0]=FTOC[ti]; blk[1]=(unsigned char)b1;
      snprintf(ctx,sizeof ctx,"fresh; fill=%02x from byte 3",FILLV[fi]);
      for(b2=0;b2<256;b2++){ blk[2]=(unsigned char)b2; memcpy(g_work,c->fresh,c->sz); run_decode(c,g_work,ctx,2,blk,len,48*c->F25,0); }
      free(blk); }
}

/* ------------------------------------------------------------------ alphabet construction */
static int find_pkt(const char *name,int pos){ int s; for(s=0;s<C.ns;s++) if(!strcmp(C.s[s].name,name)){ if(pos<C.s[s].n) return C.s[s].first+pos; } fprintf(stderr,"c01: corpus stream '%s' pos %d missing\n",name,pos); exit(2); }
static void add_op(cfg_t *c,int kind,int fs,int fec,int arg,const cpkt *b,const unsigned char *raw,int rawlen,const char *tagfmt,...){
   op_t *o; va_list ap; c->H=realloc(c->H,(c->nH+1)*sizeof(op_t)); o=&c->H[c->nH++]; memset(o,0,sizeof *o); o->kind=kind; o->fs=fs; o->fec=fec; o->arg=arg;
   if (b){ o->p=xdup(b->data,b->len); o->len=b->len; } else if (raw){ o->p=xdup(raw,rawlen); o->len=rawlen; }
   va_start(ap,tagfmt); vsnprintf(o->tag,sizeof o->tag,tagfmt,ap); va_end(ap);
}
static int must_stream(const char *n){ static const char *const m[]={"silk bw2 200ms/10 ch1 r0","celt bw3 200ms/10 ch2 r0","hybrid bw1 200ms/10 ch2 r0","silk nb 60ms fec ch2","celt bw1 25ms/10 ch1 r0"}; int i; for(i=0;i<5;i++) if(!strcmp(n,m[i])) return 1; return 0; }
static void build_cfg(cfg_t *c,int Fs,int ch,int hstride){
   int s,q=Fs/400,full=48*q,i,fi; static const int plcs[7]={1,2,4,8,16,24,48};
   memset(c,0,sizeof *c); c->Fs=Fs; c->ch=ch; c->F25=q; c->sz=opus_decoder_get_size(ch); c->fresh=malloc(c->sz);
   if (opus_decoder_init((OpusDecoder*)c->fresh,Fs,ch)!=OPUS_OK){ fprintf(stderr,"decoder_init failed\n"); exit(2); }
   /* packets of the history alphabet: first packet of every hstride-th stream, every packet of the transition / switch streams */
   for(s=0;s<C.ns;s++){ cstream *st=&C.s[s]; int trans=(strstr(st->name,"transition")||strstr(st->name,"->"));
      if (trans){ for(i=0;i<st->n&&i<5;i++) if(hstride==1||i==1||i==2||i==3) add_op(c,K_DECF,full,0,0,&C.p[st->first+i],NULL,0,"f('%s'#%d)",st->name,C.p[st->first+i].idx); }
      else if ((s%hstride==0||must_stream(st->name)) && st->n>0) add_op(c,K_DECF,full,0,0,&C.p[st->first],NULL,0,"f('%s'#%d)",st->name,C.p[st->first].idx);
      if (st->fec && st->n>1){ cpkt *b=&C.p[st->first+1]; long D=(long)b->dur48*Fs/48000; add_op(c,K_DECF,(int)D,1,0,b,NULL,0,"f-fec('%s'#%d,fs=%ld)",st->name,b->idx,D); if(D+8*q<=full) add_op(c,K_DEC16,(int)D+8*q,1,0,b,NULL,0,"s-fec('%s'#%d,fs=%ld)",st->name,b->idx,D+8*q); }
   }
   /* repacketised / padded / extension-bearing packets (kinds 1..3): one of each kind per third stream */
   for(i=0,fi=0;i<C.n;i++) if(C.p[i].kind>0){ if((fi++)%(3*hstride)==0) add_op(c,K_DECF,full,0,0,&C.p[i],NULL,0,"f('%s' kind%d #%d)",C.s[C.p[i].stream].name,C.p[i].kind,C.p[i].idx); }
   /* 16- and 24-bit formats (soft-clip memory, wrappers) */
   add_op(c,K_DEC16,full,0,0,&C.p[find_pkt("celt bw3 200ms/10 ch2 r0",0)],NULL,0,"s(celt fb 20ms ch2)");
   add_op(c,K_DEC16,full,0,0,&C.p[find_pkt("silk wb 20ms fec ch1",1)],NULL,0,"s(silk wb 20ms fec ch1)");
   add_op(c,K_DEC24,full,0,0,&C.p[find_pkt("hybrid bw1 200ms/10 ch2 r0",0)],NULL,0,"i24(hybrid fb 20ms ch2)");
   /* garbage: payload re-interpreted under other TOCs, truncated packets, TOC-only (DTX) packets */
   { cpkt *b=&C.p[find_pkt("silk bw2 200ms/10 ch1 r0",0)]; static const int tocs[6]={0x60,0x7C,0xFC,0x9B,0x03,0x1D}; unsigned char tmp[1500];
     for(i=0;i<6;i++){ memcpy(tmp,b->data,b->len); tmp[0]=(unsigned char)tocs[i]; add_op(c,K_DECF,full,0,0,NULL,tmp,b->len,"f(silk-wb payload as toc %02x)",tocs[i]); }
     add_op(c,K_DECF,full,0,0,NULL,b->data,b->len/2,"f(silk-wb prefix %d)",b->len/2);
     b=&C.p[find_pkt("transition hybrid->celt ch1",2)]; add_op(c,K_DECF,full,0,0,NULL,b->data,b->len-3,"f(hybrid-redundancy prefix %d)",b->len-3); { int n; for(n=8;n<b->len-3;n+=8) add_op(c,K_DECF,full,0,0,NULL,b->data,n,"f(hybrid-redundancy prefix %d)",n); }
     b=&C.p[find_pkt("celt bw3 200ms/10 ch2 r0",0)]; add_op(c,K_DECF,full,0,0,NULL,b->data,b->len/3,"f(celt-fb prefix %d)",b->len/3);
     { static const int t1[7]={0x08,0x0C,0x38,0x68,0x7C,0x80,0xFC}; for(i=0;i<7;i++){ tmp[0]=(unsigned char)t1[i]; add_op(c,K_DECF,full,0,0,NULL,tmp,1,"f(toc-only %02x)",t1[i]); } }
     tmp[0]=0x0B; tmp[1]=0x03; add_op(c,K_DECF,full,0,0,NULL,tmp,2,"f(0b 03: three empty silk frames)");
   }
   for(i=0;i<7;i++) add_op(c,K_PLC,plcs[i]*q,0,i==3?0:(i==5?1:2),NULL,NULL,0,"plc%s(%d)",i==3?"16":i==5?"24":"f",plcs[i]*q);
   add_op(c,K_RESET,0,0,0,NULL,NULL,0,"reset");
   add_op(c,K_GAIN,0,0,-32768,NULL,NULL,0,"gain(-32768)"); add_op(c,K_GAIN,0,0,0,NULL,NULL,0,"gain(0)"); add_op(c,K_GAIN,0,0,32767,NULL,NULL,0,"gain(32767)");
   if (c->nH>=8192){ fprintf(stderr,"H too large\n"); exit(2); }
}
static int find_op(const cfg_t *c,const char *tagpart){ int i; for(i=0;i<c->nH;i++) if(strstr(c->H[i].tag,tagpart)) return i; fprintf(stderr,"c01: no op with tag '%s'\n",tagpart); exit(2); }

static void self_check_body(void){
   /* mirrors must agree with what the public getters say, otherwise fall back to a getter-only class key */
   int ci; for(ci=0;ci<ncfg&&mirror_ok;ci++){ cfg_t *c=&CF[ci]; OpusDecoder *d=malloc(c->sz); const odec_mirror *o=(const odec_mirror*)d; opus_int32 bw=0,ld=0; float *out=malloc(sizeof(float)*48*c->F25*c->ch); cpkt *b=&C.p[find_pkt("silk bw2 200ms/10 ch1 r0",0)]; int r;
      memcpy(d,c->fresh,c->sz);
      if (o->channels!=c->ch||o->Fs!=c->Fs||o->frame_size!=c->F25||o->stream_channels!=c->ch||o->silk_dec_offset<(int)sizeof(odec_mirror)-8||o->celt_dec_offset<=o->silk_dec_offset||o->celt_dec_offset>=c->sz) mirror_ok=0;
      else { const celt_mirror *ce=(const celt_mirror*)((const char*)d+o->celt_dec_offset); const silk_mirror *si=(const silk_mirror*)((const char*)d+o->silk_dec_offset);
         if (ce->channels!=c->ch||ce->overlap!=120||ce->downsample!=48000/c->Fs) mirror_ok=0;
         r=opus_decode_float(d,b->data,b->len,out,48*c->F25,0); opus_decoder_ctl(d,OPUS_GET_BANDWIDTH(&bw)); opus_decoder_ctl(d,OPUS_GET_LAST_PACKET_DURATION(&ld));
         if (r!=8*c->F25||o->mode!=1000||o->prev_mode!=1000||o->bandwidth!=bw||bw!=OPUS_BANDWIDTH_WIDEBAND||o->last_packet_duration!=ld||si->channel_state[0].fs_kHz!=16||si->nChannelsInternal!=1||(char*)&si->prev_decode_only_middle+sizeof(int)>(char*)ce) mirror_ok=0;
      }
      free(out); free(d);
   }
}
/* runs in a forked child: the parent never executes codec code on a packet itself, so a library defect can only ever
   kill a worker, not the enumerator */
static void self_check(void){
   int *res=mc_shared(sizeof(int)); pid_t pid; int stt=0; fflush(stdout); pid=fork();
   if (pid==0){ self_check_body(); *res=mirror_ok?1:2; _exit(0); }
   if (pid>0) waitpid(pid,&stt,0);
   mirror_ok = (*res==1);
   if (!mirror_ok) mc_info("struct mirrors do not match this build: state classes fall back to public getters (bandwidth, last duration, gain sign, pitch>0)");
}

static void dump_corpus(void){ int i; for(i=0;i<C.n;i++) printf("%4d '%s' idx=%d kind=%d len=%d dur48=%d %s\n",i,C.s[C.p[i].stream].name,C.p[i].idx,C.p[i].kind,C.p[i].len,C.p[i].dur48,mc_hex(C.p[i].data,C.p[i].len>40?40:C.p[i].len)); }

#include <time.h>
static double now_s(void){ struct timespec t; clock_gettime(CLOCK_MONOTONIC,&t); return t.tv_sec+1e-9*t.tv_nsec; }
static double g_t; static long g_tr;
static void stage_info(const char *nm,long items){ double t=now_s(); mc_info("stage %s: items=%ld wall=%.1fs transitions=%ld",nm,items,t-g_t,*c_trans-g_tr); g_t=t; g_tr=*c_trans; }
int main(int argc,char **argv){
   static const int RATES[5]={48000,16000,8000,24000,12000}; int i,d,hstride,lbstride,do_s3; long n,skipped=0; mc_ctr *st,*dn,*cls,*lvl[5];
   mc_init(argc,argv,"C01","ss");
   g_replay=MC.only_item; exact_init();
   g_depth=(int)mc_arg("--depth",MC.tier?3:2); hstride=(int)mc_arg("--hstride",MC.tier?2:1); lbstride=(int)mc_arg("--lbstride",MC.tier?6:12); g_classkey=(int)mc_arg("--classkey",MC.tier?0:1); do_s3=(int)mc_arg("--s3",MC.tier?1:0); int stages=(int)mc_arg("--stages",63); g_s4max=(int)mc_arg("--s4max",MC.tier?5:4);
   c_trans=mc_counter("transitions"); c_eval=mc_counter("evaluations"); c_decoded=mc_counter("calls_returning_samples"); c_rejected=mc_counter("calls_returning_error"); c_insp=mc_counter("inspection_calls");
   c_valid=mc_counter("valid_framing_clause_checked"); c_adv_lastdur=mc_counter("advisory_last_duration_differs"); c_adv_plc=mc_counter("advisory_plc_count_not_exact"); c_bfs_trans=mc_counter("bfs_transitions");
   st=mc_counter("states"); dn=mc_counter("distinct_nontrivial"); cls=mc_counter("state_classes");
   obs=mc_set_new(20); lastlevel=mc_set_new(MC.tier?26:22); T_states=htab_new(MC.tier?21:19); T_classes=htab_new(16);
   corpus_build(&C,0); corpus_add_reframed(&C);
   if (mc_arg("--dump",0)){ dump_corpus(); return 0; }
   /* configurations: quick 4 (rate,channel) pairs, thorough all 10 */
   { const char *cs=mc_arg_s("--cfgs",MC.tier?"all":"quick");
     if (!strcmp(cs,"all")){ for(i=0;i<5;i++){ build_cfg(&CF[ncfg++],RATES[i],2,hstride); build_cfg(&CF[ncfg++],RATES[i],1,hstride); } }
     else { build_cfg(&CF[ncfg++],48000,2,hstride); build_cfg(&CF[ncfg++],48000,1,hstride); build_cfg(&CF[ncfg++],16000,1,hstride); build_cfg(&CF[ncfg++],8000,2,hstride); } }
   for(i=0;i<C.n;i++) if(i%lbstride==0){ LB=realloc(LB,(nLB+1)*sizeof(int)); LB[nLB++]=i; }
   { static const char *const nm[][2]={{"silk bw0 200ms/10 ch1 r0","0"},{"silk bw2 600ms/10 ch1 r0","0"},{"silk bw1 200ms/10 ch2 r0","0"},{"silk wb 20ms fec ch2","1"},{"hybrid bw1 200ms/10 ch1 r0","0"},{"hybrid bw0 100ms/10 ch2 r0","0"},
        {"celt bw3 200ms/10 ch2 r0","0"},{"celt bw3 25ms/10 ch1 r0","0"},{"celt bw1 100ms/10 ch1 r0","0"},{"transition silk->celt ch1","2"},{"transition celt->silk ch2","2"},{"transition hybrid->celt ch1","2"},{"silk dtx silence ch1","3"}};
     int nb=(int)mc_arg("--nbase",MC.tier?13:12); for(i=0;i<nb&&i<13;i++) B12[nB12++]=find_pkt(nm[i][0],atoi(nm[i][1]));
     if (MC.tier){ /* thorough: plus one re-framed multi-frame packet */ for(i=0;i<C.n;i++) if(C.p[i].kind==1&&C.p[i].len<400){ B12[nB12++]=i; break; } }
     RW[0]=find_pkt("silk wb 20ms fec ch2",1); RW[1]=find_pkt("transition hybrid->celt ch1",2); RW[2]=find_pkt("celt bw3 200ms/10 ch2 r0",0); }
   for(i=0;i<ncfg;i++){ cfg_t *c=&CF[i]; int k=0;
      c->primed[k][0]=find_op(c,"f('silk bw2 200ms/10 ch1 r0'"); c->primed[k++][1]=-1;
      c->primed[k][0]=find_op(c,"f('celt bw3 200ms/10 ch2 r0'"); c->primed[k++][1]=find_op(c,"plcf(");
      if (MC.tier){ c->primed[k][0]=find_op(c,"f('hybrid bw1 200ms/10 ch2 r0'"); c->primed[k++][1]=-1; c->primed[k][0]=find_op(c,"f('silk nb 60ms fec ch2'"); c->primed[k++][1]=find_op(c,"plc16("); c->primed[k][0]=find_op(c,"f('celt bw1 25ms/10 ch1 r0'"); c->primed[k++][1]=find_op(c,"gain(32767)"); }
      c->nprimed=k; }
   self_check();
   mc_info("corpus: %d packets in %d streams (frozen reference encoder); |H|=%d ops; leaf corpus packets=%d; closure bases=%d; configs=%d; depth=%d; mirror_ok=%d",C.n,C.ns,CF[0].nH,nLB,nB12,ncfg,g_depth,mirror_ok);

   /* fixed item ranges for the stages that do not depend on the BFS (cheap replays), then the data-dependent ones */
   if (do_s3){ S3CFG[nS3++]=0; for(i=0;i<ncfg;i++) if(CF[i].Fs==16000&&CF[i].ch==1){ S3CFG[nS3++]=i; break; } }
   S4CFG[nS4++]=0; for(i=0;i<ncfg;i++) if(CF[i].Fs==16000&&CF[i].ch==1){ S4CFG[nS4++]=i; break; } for(i=0;i<ncfg;i++) if(CF[i].Fs==8000&&CF[i].ch==2){ S4CFG[nS4++]=i; break; }
   { static const unsigned char qt[14]={0x08,0x48,0x58,0x4C,0x68,0x78,0x7C,0x80,0x98,0xB8,0xD8,0xE0,0xF8,0xFC}; int t;
     if (MC.tier){ for(t=0;t<64;t++) FTOC[nFT++]=(unsigned char)(t<<2); nFILL=4; nFLEN=2; FCFG[nFC++]=0; for(i=0;i<ncfg;i++) if(CF[i].Fs==16000&&CF[i].ch==1){ FCFG[nFC++]=i; break; } }
     else { for(t=0;t<14;t++) FTOC[nFT++]=qt[t]; nFILL=2; nFLEN=1; FCFG[nFC++]=0; } }
   long n_fill=(long)nFC*nFT*nFILL*256, b_fill;
   long n_probe=ncfg, n_clo=(long)ncfg*nB12*CL_SLICES, n_small=(long)ncfg*8*256, n_s3=(long)nS3*65536, n_s4=(long)nS4*3*256;
   long b_probe=stage_reserve(n_probe), b_lbrr=stage_reserve(1), b_clo=stage_reserve(n_clo), b_small=stage_reserve(n_small), b_s3=stage_reserve(n_s3), b_s4=stage_reserve(n_s4); b_fill=stage_reserve(n_fill);
   g_t=now_s();
   /* ---------------- stage 1: BFS on full-image hashes */
   for(i=0;i<ncfg;i++){ uint64_t h=h_root(i); htab_put(T_states,mc_hash(CF[i].fresh,CF[i].sz,0xC01000+i),h); htab_put(T_classes,class_key(&CF[i],(OpusDecoder*)CF[i].fresh,i),h); }
   for(d=0;d<g_depth;d++){ bfs_ctx b; char nm[32]; b.front=htab_collect(T_states,d,&b.n); b.last=(d==g_depth-1);
      snprintf(nm,sizeof nm,"bfs_level%d_states",d); lvl[d]=mc_counter(nm); *lvl[d]=b.n;
      skipped+=stage_par(b.n,bfs_item,&b,1); free(b.front); stage_info(nm,b.n);
      if (skipped){ mc_capped("BFS level incomplete (deadline); deeper levels and class stage see a partial frontier"); break; } }
   /* ---------------- later stages, most discriminating first (a deadline cuts from the end) */
   if(stages&8){ stage_par_at(b_probe,n_probe,probe_item,NULL,0); stage_par_at(b_lbrr,1,probe_lbrr0_item,NULL,0); }
   if(stages&4) stage_par_at(b_clo,n_clo,closure_item,NULL,0); stage_info("closure",(long)ncfg*nB12*CL_SLICES);
   if(stages&1){ cls_ctx cc; cc.reps=htab_collect(T_classes,-1,&cc.n); *cls=cc.n; stage_par(cc.n,cls_item,&cc,0); free(cc.reps); stage_info("classes",cc.n); }
   if(stages&2) stage_par_at(b_small,n_small,small_item,NULL,0); stage_info("small",(long)ncfg*8*256);
   if (do_s3){ stage_par_at(b_s3,n_s3,s3_item,NULL,0); stage_info("s3",(long)nS3*65536); }
   if(stages&16){ stage_par_at(b_s4,n_s4,s4_item,NULL,0); stage_info("s4",n_s4); }
   if(stages&32){ stage_par_at(b_fill,n_fill,fill_item,NULL,0); stage_info("fill",n_fill); }
   n=__atomic_load_n(&T_states->count,__ATOMIC_RELAXED);
   *st=n+mc_set_count(lastlevel); *dn=mc_set_count(obs);
   return mc_finish();
}
