/* c01_common.h — shared pieces of the C01 harness: staged mc_par with global item numbering (so that a
 * replay of one item re-runs exactly the prerequisite stages), deterministic shared hash tables, exact-size
 * buffers, packet-closure generator. */
#ifndef C01_COMMON_H
#define C01_COMMON_H
#include <stdlib.h>
#include <string.h>
#include <stdio.h>
#include <math.h>
#include "opus.h"
#include "opus_multistream.h"
#include "opus_projection.h"
#include "mc.h"
#include "corpus.h"

/* ------------------------------------------------------------------ staged parallel runs */
static long g_stage_base=0, g_cur_base=0, g_replay=-1; static mc_item_fn g_stage_fn;
static void stage_wrap(long item,void *ctx){ if(item<g_cur_base) return; g_stage_fn(item-g_cur_base,ctx); }
/* Item numbers are global and fixed per stage, independent of the order in which stages are executed: stages whose size is
 * known up front reserve their range first (stage_reserve), data-dependent stages (BFS levels, class stage) take ranges after
 * them.  prereq: later stages need this stage's complete result (BFS levels), so a replay of a later item re-runs it fully;
 * a replay of an item in a reserved range skips the BFS entirely. Returns items skipped. */
static long stage_reserve(long n){ long b=g_stage_base; g_stage_base+=n; return b; }
static long stage_par_at(long base,long n,mc_item_fn fn,void *ctx,int prereq){
   long r; g_cur_base=base; g_stage_fn=fn;
   if (n<=0) return 0;
   if (g_replay>=0){
      if (g_replay<base) return 0;                       /* target lies in a lower-numbered stage */
      if (g_replay>=base+n){ if(!prereq) return 0; MC.only_item=-1; r=mc_par(base+n,stage_wrap,ctx); MC.only_item=g_replay; return r; }
      return mc_par(base+n,stage_wrap,ctx);
   }
   return mc_par(base+n,stage_wrap,ctx);
}
static long stage_par(long n,mc_item_fn fn,void *ctx,int prereq){ return stage_par_at(stage_reserve(n),n,fn,ctx,prereq); }

/* ------------------------------------------------------------------ shared (hash -> minimal history) table */
typedef struct { uint64_t h, v; } hent;
typedef struct { uint64_t cap, mask; long count; hent tab[]; } htab;
static htab *htab_new(int log2cap){ uint64_t cap=1ULL<<log2cap; htab *t=mc_shared(sizeof(htab)+cap*sizeof(hent)); t->cap=cap; t->mask=cap-1; return t; }
/* returns 1 if the key is new. The smallest hist wins regardless of arrival order (stored inverted, atomic max). */
static int htab_put(htab *t,uint64_t h,uint64_t hist){
   uint64_t i,inv=~hist; int isnew=0; if(!h) h=1; i=(h*0x9e3779b97f4a7c15ULL)>>9 & t->mask;
   if ((uint64_t)__atomic_load_n(&t->count,__ATOMIC_RELAXED) > t->cap-(t->cap>>2)){ mc_capped("state table filled"); return 0; }
   for(;;){
      uint64_t v=__atomic_load_n(&t->tab[i].h,__ATOMIC_ACQUIRE);
      if (v==0){ uint64_t e=0; if(__atomic_compare_exchange_n(&t->tab[i].h,&e,h,0,__ATOMIC_ACQ_REL,__ATOMIC_ACQUIRE)){ __atomic_fetch_add(&t->count,1,__ATOMIC_RELAXED); isnew=1; v=h; } else v=e; }
      if (v==h){ uint64_t o=__atomic_load_n(&t->tab[i].v,__ATOMIC_RELAXED); while(inv>o && !__atomic_compare_exchange_n(&t->tab[i].v,&o,inv,1,__ATOMIC_RELAXED,__ATOMIC_RELAXED)); return isnew; }
      i=(i+1)&t->mask;
   }
}
static int cmp_u64(const void *a,const void *b){ uint64_t x=*(const uint64_t*)a,y=*(const uint64_t*)b; return x<y?-1:x>y; }
/* all stored histories with the given depth (or any depth if depth<0), sorted */
#define H_DEPTH(h) ((int)((h)>>60)&7)
#define H_CFG(h)   ((int)((h)>>56)&15)
#define H_OP(h,k)  ((int)((h)>>(39-13*(k)))&0x1FFF)
static uint64_t h_push(uint64_t h,int op){ int d=H_DEPTH(h); h&=~(7ULL<<60); h|=(uint64_t)op<<(39-13*d); h|=(uint64_t)(d+1)<<60; return h; }
static uint64_t h_root(int cfg){ return (uint64_t)cfg<<56; }
static uint64_t *htab_collect(htab *t,int depth,long *n){
   uint64_t i; long k=0; uint64_t *out=malloc((t->count+1)*sizeof(uint64_t));
   for(i=0;i<t->cap;i++) if(t->tab[i].h){ uint64_t hist=~t->tab[i].v; if(depth<0||H_DEPTH(hist)==depth) out[k++]=hist; }
   qsort(out,k,sizeof(uint64_t),cmp_u64); *n=k; return out;
}

/* ------------------------------------------------------------------ exact-size buffers */
static unsigned char *g_zero;                       /* address of a zero-length heap region: any access is an ASan report */
static void exact_init(void){ unsigned char *b=malloc(1); b[0]=0; g_zero=b+1; }
static unsigned char *xdup(const unsigned char *p,int n){ unsigned char *q; if(n<=0) return g_zero; q=malloc(n); memcpy(q,p,n); return q; }
static void xfree(unsigned char *q){ if(q&&q!=g_zero) free(q); }
/* per-process cache of exact-size output blocks keyed by byte size */
static struct { long bytes; void *p; } g_pcm[512]; static int g_npcm;
static void *pcmbuf(long bytes){
   int i; if(bytes<=0) return g_zero;
   /* very large blocks (255-channel layouts x 1 s): one exact-size block at a time, re-allocated when the size changes */
   if (bytes>(4L<<20)){ static void *big; static long bigsz; if(bigsz!=bytes){ free(big); big=malloc(bytes); bigsz=bytes; if(!big){ fprintf(stderr,"oom\n"); exit(2); } } return big; }
   for(i=0;i<g_npcm;i++) if(g_pcm[i].bytes==bytes) return g_pcm[i].p;
   if(g_npcm==512){ free(g_pcm[0].p); g_pcm[0]=g_pcm[--g_npcm]; }
   g_pcm[g_npcm].bytes=bytes; g_pcm[g_npcm].p=malloc(bytes); if(!g_pcm[g_npcm].p){ fprintf(stderr,"oom\n"); exit(2); }
   memset(g_pcm[g_npcm].p,0,bytes);
   return g_pcm[g_npcm++].p;
}

/* ------------------------------------------------------------------ closure of a base packet (DESIGN 3.3) */
/* Variant v of base packet (b,n): writes into out (cap >= 8200), returns length; *desc gets a short description.
 * Index space: [0,n) proper prefixes; [n,5n) byte substitutions; [5n,5n+256) TOC rewrites; then re-framings. Returns -1 past the end. */
#define CL_NREFRAME 24
static long closure_count(int n){ return (long)n + 4L*n + 256 + CL_NREFRAME; }
static int closure_make(const unsigned char *b,int n,long v,unsigned char *out,char *desc,int dcap){
   if (v<n){ memcpy(out,b,v); snprintf(desc,dcap,"prefix%ld",v); return (int)v; }
   v-=n;
   if (v<4L*n){ int pos=(int)(v>>2),s=(int)(v&3); memcpy(out,b,n); out[pos]= s==0?0x00: s==1?0xFF: s==2?(b[pos]^0x80):(b[pos]^0x01); snprintf(desc,dcap,"subst[%d]=%02x",pos,out[pos]); return n; }
   v-=4L*n;
   if (v<256){ memcpy(out,b,n); if(n>0) out[0]=(unsigned char)v; snprintf(desc,dcap,"toc=%02lx",v); return n; }
   v-=256;
   if (v<CL_NREFRAME){
      rfc_pkt m; const unsigned char *fr[49]; int sz[49],i,len=-1; const unsigned char *pl; int ps; static unsigned char padz[520]; static unsigned char plbuf[1280];
      rfc_parse(b,n,0,&m);
      if (m.ok && m.count>0){ pl=b+m.off[0]; ps=m.size[0]; } else { pl=b+(n>0); ps=n>0?n-1:0; }
      if (ps>1275) ps=1275;
      /* the payload is copied into a zero-padded scratch so that re-framings which announce more bytes than the base frame has
         (e.g. one-byte frames cut from an empty DTX frame) never read outside the base packet */
      memset(plbuf,0,sizeof plbuf); if(ps>0) memcpy(plbuf,pl,ps); pl=plbuf;
      for(i=0;i<49;i++){ fr[i]=pl; sz[i]=ps; }
      snprintf(desc,dcap,"reframe%ld",v);
      switch((int)v){
      case 0: len=rfc_build(out,b[0],1,0,2,fr,sz,-1,NULL,0); break;                                    /* code 1 */
      case 1: sz[1]=ps/2; len=rfc_build(out,b[0],2,0,2,fr,sz,-1,NULL,0); break;                         /* code 2 */
      case 2: sz[0]=0; len=rfc_build(out,b[0],2,0,2,fr,sz,-1,NULL,0); break;                            /* code 2, empty first frame */
      case 3: sz[1]=0; len=rfc_build(out,b[0],2,0,2,fr,sz,-1,NULL,0); break;                            /* code 2, empty second frame */
      case 4: len=rfc_build(out,b[0],3,0,1,fr,sz,-1,NULL,0); break;                                    /* code 3 CBR M=1 */
      case 5: len=rfc_build(out,b[0],3,0,2,fr,sz,-1,NULL,0); break;
      case 6: len=rfc_build(out,b[0],3,0,3,fr,sz,-1,NULL,0); break;
      case 7: for(i=0;i<49;i++) sz[i]=ps<10?ps:10; len=rfc_build(out,b[0],3,0,48,fr,sz,-1,NULL,0); break;
      case 8: for(i=0;i<49;i++) sz[i]=ps<10?ps:10; len=rfc_build(out,b[0],3,0,49,fr,sz,-1,NULL,0); break;
      case 9: len=rfc_build(out,b[0],3,1,1,fr,sz,-1,NULL,0); break;                                    /* code 3 VBR M=1 */
      case 10: sz[0]=ps/2; len=rfc_build(out,b[0],3,1,2,fr,sz,-1,NULL,0); break;
      case 11: sz[0]=0; sz[1]=ps; sz[2]=1; len=rfc_build(out,b[0],3,1,3,fr,sz,-1,NULL,0); break;
      case 12: for(i=0;i<49;i++) sz[i]=(i%3==0)?(ps<10?ps:10):(i%3==1?0:1); len=rfc_build(out,b[0],3,1,48,fr,sz,-1,NULL,0); break;
      case 13: for(i=0;i<49;i++) sz[i]=ps<3?ps:3; len=rfc_build(out,b[0],3,1,49,fr,sz,-1,NULL,0); break;
      case 14: len=rfc_build(out,b[0],3,0,1,fr,sz,0,padz,0); break;                                    /* padding lengths */
      case 15: len=rfc_build(out,b[0],3,0,1,fr,sz,1,padz,0); break;
      case 16: len=rfc_build(out,b[0],3,0,1,fr,sz,254,padz,0); break;
      case 17: len=rfc_build(out,b[0],3,0,1,fr,sz,255,padz,0); break;
      case 18: len=rfc_build(out,b[0],3,0,1,fr,sz,256,padz,0); break;
      case 19: len=rfc_build(out,b[0],3,1,2,fr,sz,509,padz,0); break;
      case 20: len=rfc_build(out,b[0],3,0,1,fr,sz,254,padz,0); if(len>3) len-=3; break;               /* padding announced but truncated */
      case 21: len=rfc_build(out,b[0],3,1,2,fr,sz,-1,NULL,0); if(len>3){ out[2]=255; out[3]=255; } break; /* VBR length past the end */
      case 22: len=rfc_build(out,b[0],2,0,2,fr,sz,-1,NULL,0); if(len>1 && len-2<251) out[1]=251; break;            /* code 2 first length too long */
      case 23: sz[0]=1; sz[1]=1; len=rfc_build(out,b[0],1,0,2,fr,sz,-1,NULL,0); break;                 /* code 1 with two 1-byte (DTX) frames */
      }
      if (len<0) len=0;
      return len;
   }
   return -1;
}
#endif
