/* C06 — the packet parser accepts exactly RFC 6716 framing and reports the true frames.
 *
 * E3: exhaustive enumeration of header shapes.  Acceptance and every reported field depend only on
 * the TOC, the code-3 count byte, the padding-length chain, the frame-length bytes and the total
 * length N, never on payload bytes, so the input space factors into header shapes:
 *   item = (TOC byte 0..255, framing in {standard, self-delimited})
 *   code 0/1 : every N in Nset (standard); every 1- and 2-byte length encoding x Nset (self-delimited)
 *   code 2   : every first-length encoding (1276) x Nset (x second-length alphabet for self-delimited)
 *   code 3   : all 256 count bytes x padding chains x CBR over Nset;
 *              VBR: M-1 (M) length fields, all "1" except <=k positions ranging over
 *              {0,1,251,252/0,252/1,255/0,255/255}, N over every threshold the fields define.
 * Oracle: mc/rfc_framing.h (transcribed from the RFC text) — accept/reject and every field; pointers
 * inside the input; exact-size heap block so any read outside it is an ASan report.
 */
#include <stdlib.h>
#include <string.h>
#include "opus.h"
#include "mc.h"
#include "rfc_framing.h"

int opus_packet_parse_impl(const unsigned char *data, opus_int32 len,int self_delimited, unsigned char *out_toc,
      const unsigned char *frames[48], opus_int16 size[48],int *payload_offset, opus_int32 *packet_offset,
      const unsigned char **padding, opus_int32 *padding_len);

#define NMAX 4100
static unsigned char *blk[NMAX+1];     /* blk[N]: exact-size heap block of N bytes */
static mc_ctr *c_eval,*c_acc,*c_rej,*c_helper;
static mc_set *shapes;                 /* distinct (accept, count, sizes-class) observation classes */
static int deep_k, deep_allpads, nset_full;

static unsigned char hdr[256]; static int hlen;

static void cmp1(int N,int sd){
   rfc_pkt m; unsigned char toc=0xEE; const unsigned char *fr[48]; opus_int16 sz[48]; int po=-7; opus_int32 pko=-7; const unsigned char *pp=NULL; opus_int32 pl=-7;
   unsigned char *b=blk[N]; int r,i,bad=0,w=hlen<N?hlen:N;
   memcpy(b,hdr,w);
   if (N>w) memset(b+w,0x01,(N-w)<100?(N-w):100);   /* deterministic bytes where a parser could look for further length fields */
   rfc_parse(b,N,sd,&m);
   r=opus_packet_parse_impl(b,N,sd,&toc,fr,sz,&po,&pko,&pp,&pl);
   MC_INC(c_eval);
   if ((r>=0)!=m.ok) bad=1;
   else if (r>=0){
      MC_INC(c_acc);
      if (r!=m.count||toc!=m.toc||po!=m.payload_offset||pko!=m.consumed||pl!=m.pad_len||(pp-b)!=m.pad_off) bad=2;
      for(i=0;i<m.count&&!bad;i++) if (sz[i]!=m.size[i]||(fr[i]-b)!=m.off[i]) bad=3;
      if (!bad && (m.pad_off+m.pad_len>N || m.payload_offset>N)) bad=5;
      if (!bad){ uint64_t h=mc_mix(mc_mix(m.count,m.toc&3),mc_mix(sd,m.pad_len>0)); h=mc_mix(h,m.size[0]>251); h=mc_mix(h,m.size[m.count-1]>251); h=mc_mix(h,m.vbr); h=mc_mix(h,hlen); if(mc_set_add(shapes,h)) mc_sample("accepted: framing=%s N=%d header=%s -> count=%d size0=%d last=%d payload_offset=%d pad=%d consumed=%d (parser == RFC model)",sd?"self-delimited":"standard",N,mc_hex(hdr,hlen<16?hlen:16),m.count,m.size[0],m.size[m.count-1],m.payload_offset,m.pad_len,m.consumed); }
   } else { MC_INC(c_rej); if (r!=OPUS_INVALID_PACKET) bad=4; }
   if (!sd && !bad){
      /* public opus_packet_parse must agree with the non-self-delimited impl */
      unsigned char t2; const unsigned char *f2[48]; opus_int16 s2[48]; int po2; int r2=opus_packet_parse(b,N,&t2,f2,s2,&po2);
      if (r2!=r) bad=6; else if (r>=0){ if(t2!=toc||po2!=po) bad=6; for(i=0;i<r&&!bad;i++) if(s2[i]!=sz[i]||f2[i]!=fr[i]) bad=6; }
   }
   if (bad){
      char sig[64]; snprintf(sig,sizeof sig,"parse_mismatch:%s:code%d:kind%d",sd?"sd":"std",hdr[0]&3,bad);
      mc_fail(sig,"N=%d sd=%d impl=%d model.ok=%d model.count=%d header=%s | impl po=%d pko=%d padlen=%d sz0=%d ; model po=%d consumed=%d padlen=%d sz0=%d",
              N,sd,r,m.ok,m.count,mc_hex(hdr,hlen<24?hlen:24),po,(int)pko,(int)pl,r>0?sz[0]:-1,m.payload_offset,m.consumed,m.pad_len,m.size[0]);
   }
}

/* N alphabet: everything small, and the boundaries of every constant in the rules */
static int nset[NMAX+1], nn;
static void mk_nset(void){
   int i; nn=0;
   if (nset_full){ for(i=0;i<=1600;i++) nset[nn++]=i; }
   else { for(i=0;i<=300;i++) nset[nn++]=i; for(i=505;i<=515;i++) nset[nn++]=i; for(i=1270;i<=1290;i++) nset[nn++]=i; nset[nn++]=1500; nset[nn++]=1600; }
   for(i=2545;i<=2565;i++) nset[nn++]=i;
   nset[nn++]=3000; nset[nn++]=3830; nset[nn++]=4000;
}
static void all_n(int sd){ int i; for(i=0;i<nn;i++) cmp1(nset[i],sd); }
/* thresholds around a computed minimal total T */
static void near_n(int T,int sd){
   static const int d[]={-2,-1,0,1,2,1273,1274,1275,1276,1277};
   int i; for(i=0;i<=hlen+3&&i<=NMAX;i++) cmp1(i,sd);
   for(i=0;i<10;i++){ int N=T+d[i]; if(N>hlen+3&&N<=NMAX) cmp1(N,sd); }
}

static const unsigned char LF[7][2]={{1,0},{0,0},{251,0},{252,0},{252,1},{255,0},{255,255}}; /* default first */
static const int LFN[7]={1,1,1,2,2,2,2};
static int lf_val(int k){ return LFN[k]==1?LF[k][0]:4*LF[k][1]+LF[k][0]; }
static int put_lf(int k){ hdr[hlen++]=LF[k][0]; if(LFN[k]==2) hdr[hlen++]=LF[k][1]; return lf_val(k); }

static const int PADCH[11][4]={{-1},{0,-1},{1,-1},{253,-1},{254,-1},{255,0,-1},{255,1,-1},{255,254,-1},{255,255,0,-1},{255,255,254,-1},{255,255,255,-1}};
/* writes chain i, returns padding data amount (last chain runs off the end: caller treats as open) */
static int put_pad(int i){ int k,pad=0; for(k=0;k<4&&PADCH[i][k]>=0;k++){ int x=PADCH[i][k]; hdr[hlen++]=(unsigned char)x; pad+= x==255?254:x; } return pad; }

static void vbr_shapes(int toc,int sd,int fcbase,int M,int padi,int k){
   /* fields: M-1 (standard) or M (self-delimited); all default except <=k positions */
   int nf = sd? M : M-1, sel[3], val[3], a,b,c,va,vb,vc, base, pad;
   int nsel;
   for(nsel=0;nsel<=k&&nsel<=nf;nsel++){
      /* enumerate position combinations */
      int lim_a = nsel>=1?nf:1;
      for(a=0;a<lim_a;a++) for(b=(nsel>=2?a+1:0); b<(nsel>=2?nf:1); b++) for(c=(nsel>=3?b+1:0); c<(nsel>=3?nf:1); c++)
      for(va=1;va<(nsel>=1?7:2);va++) for(vb=1;vb<(nsel>=2?7:2);vb++) for(vc=1;vc<(nsel>=3?7:2);vc++){
         int i,sum=0;
         sel[0]=a;sel[1]=b;sel[2]=c;val[0]=va;val[1]=vb;val[2]=vc;
         hlen=0; hdr[hlen++]=(unsigned char)toc; hdr[hlen++]=(unsigned char)(fcbase|M);
         pad = (fcbase&0x40)? put_pad(padi):0; base=hlen;
         for(i=0;i<nf;i++){ int kk=0,j; for(j=0;j<nsel;j++) if(sel[j]==i) kk=val[j]; sum+=put_lf(kk); }
         near_n(hlen+sum+pad,sd);
         (void)base;
      }
   }
}

/* items: one per (toc, framing) for codes 0-2; for code 3 one per (toc, framing, count byte) so that the deep VBR enumerations of the
   thorough tier stay well below the per-item CPU watchdog */
static void item(long it,void *ctx){
   int toc, sd, code, i,j, fc_only=-1;
   (void)ctx;
   if (it<384){ int t=(int)(it>>1); toc=(t/3)*4+(t%3); sd=(int)(it&1); }
   else { long r=it-384; fc_only=(int)(r&255); r>>=8; sd=(int)(r&1); toc=(int)(r>>1)*4+3; }
   code=toc&3;
   mc_case("parse","toc=%02x sd=%d",toc,sd);
   if (code==0||code==1){
      hlen=0; hdr[hlen++]=(unsigned char)toc;
      if (!sd) all_n(0);
      else { for(i=0;i<256;i++){ if(i<252){ hlen=1; hdr[hlen++]=(unsigned char)i; all_n(1); } else for(j=0;j<256;j++){ hlen=1; hdr[hlen++]=(unsigned char)i; hdr[hlen++]=(unsigned char)j; all_n(1);} } }
   } else if (code==2){
      for(i=0;i<256;i++) for(j=0;j<(i<252?1:256);j++){
         hlen=1; hdr[hlen++]=(unsigned char)i; if(i>=252) hdr[hlen++]=(unsigned char)j;
         if (!sd) all_n(0);
         else { int k,h0=hlen; for(k=0;k<7;k++){ hlen=h0; put_lf(k); near_n(hlen+(i<252?i:4*j+i)+lf_val(k),1); if(k==0||k==2) all_n(1);} }
      }
   } else {
      int fc;
      for(fc=0;fc<256;fc++){
         int M=fc&0x3F, pf=(fc>>6)&1, vbr=(fc>>7)&1, npad= pf?11:1, pi;
         if (fc!=fc_only) continue;
         for(pi=(pf?1:0); pi<(pf?npad:1); pi++){
            hlen=0; hdr[hlen++]=(unsigned char)toc; hdr[hlen++]=(unsigned char)fc; if(pf) put_pad(pi);
            if (!vbr){
               if (!sd) all_n(0);
               else { int k,h0=hlen; for(k=0;k<7;k++){ hlen=h0; put_lf(k); all_n(1);} }
            } else {
               /* VBR: shallow everywhere; deep shapes on a reduced chain set unless thorough */
               int legal = M>0 && rfc_frame_48k(toc)*M<=5760;
               if (!legal){ all_n(sd); continue; }
               {
                  int k = deep_k;
                  int heavy = (pi==0||pi==2||pi==6||!pf);
                  if (!deep_allpads && !heavy && k>1) k=1;
                  if (k>2 && M>16) k=2;
                  /* restrict deep enumeration to one TOC per frame-duration class and channel/stereo-agnostic: acceptance
                     depends on the TOC only through the frame duration (R5), which vbr_shapes gets through M's legality */
                  if (k>1 && (toc&0x04)) k=1;         /* stereo bit is never inspected by the framing rules */
                  vbr_shapes(toc,sd,fc&0xC0,M,pi,k);
               }
            }
         }
      }
   }
}

/* helpers: every TOC x rates, against the RFC's Table 2 */
static void helpers(void){
   static const int rates[5]={8000,12000,16000,24000,48000}; int toc,r,bad=0;
   for(toc=0;toc<256;toc++){
      unsigned char p[2]={(unsigned char)toc,0}; int bw=opus_packet_get_bandwidth(p), ch=opus_packet_get_nb_channels(p);
      static const int BW[5]={OPUS_BANDWIDTH_NARROWBAND,OPUS_BANDWIDTH_MEDIUMBAND,OPUS_BANDWIDTH_WIDEBAND,OPUS_BANDWIDTH_SUPERWIDEBAND,OPUS_BANDWIDTH_FULLBAND};
      MC_INC(c_helper);
      if (bw!=BW[rfc_bandwidth(toc)]){ mc_fail("helper:bandwidth","toc=%02x got %d",toc,bw); bad++; }
      if (ch!=rfc_channels(toc)){ mc_fail("helper:channels","toc=%02x got %d",toc,ch); bad++; }
      for(r=0;r<5;r++){
         int spf=opus_packet_get_samples_per_frame(p,rates[r]); long want=(long)rfc_frame_48k(toc)*rates[r]/48000;
         if (spf!=want) { mc_fail("helper:samples_per_frame","toc=%02x Fs=%d got %d want %ld",toc,rates[r],spf,want); bad++; }
      }
   }
}
/* nb_frames / nb_samples / decoder_get_nb_samples agree with the model on a shape set; has_lbrr agrees with the flags read by the
   real range decoder (RFC 4.2.3-4.2.4: VAD flags then LBRR flag per channel, each a p=1/2 binary symbol) */
#include "entdec.h"
static void helpers2(long it,void *ctx){
   int toc=(int)it, N, fc; static const int rates[5]={8000,12000,16000,24000,48000}; (void)ctx;
   mc_case("helpers","toc=%02x",toc);
   for(fc=0;fc<256;fc++) for(N=0;N<=12;N++){
      unsigned char *b=blk[N]; rfc_pkt m; int r,nf,ns;
      if(N>0) b[0]=(unsigned char)toc; if(N>1) b[1]=(unsigned char)fc; if(N>2) memset(b+2,1,N-2);
      rfc_parse(b,N,0,&m); MC_INC(c_helper);
      nf = N>=1? opus_packet_get_nb_frames(b,N) : OPUS_BAD_ARG;
      if (N>=1){
         /* get_nb_frames looks at the first two bytes only */
         int want = (toc&3)==0?1:(toc&3)!=3?2:(N<2?OPUS_INVALID_PACKET:(fc&0x3F));
         if (nf!=want) mc_fail("helper:nb_frames","toc=%02x fc=%02x N=%d got %d want %d",toc,fc,N,nf,want);
      }
      for(r=0;r<5&&N>=1;r++){
         ns=opus_packet_get_nb_samples(b,N,rates[r]);
         if (m.ok){ long want=(long)m.count*rfc_frame_48k(toc)*rates[r]/48000; if(ns!=want) mc_fail("helper:nb_samples","toc=%02x fc=%02x N=%d Fs=%d got %d want %ld",toc,fc,N,rates[r],ns,want); }
         else if (ns>0 && (long)ns*25 > (long)rates[r]*3) mc_fail("helper:nb_samples_over120ms","toc=%02x fc=%02x N=%d Fs=%d got %d",toc,fc,N,rates[r],ns);
      }
      if ((fc==0||fc==0x41)&&N<=6){
         /* LBRR flag: all first-frame first bytes */
         int b0; for(b0=0;b0<256;b0++){
            int h,want; if(m.ok&&m.count>0&&m.size[0]>0) b[m.off[0]]=(unsigned char)b0;
            h=opus_packet_has_lbrr(b,N); MC_INC(c_helper);
            if (!m.ok) { if (h>0) mc_fail("helper:has_lbrr_invalid","toc=%02x N=%d returns %d on an invalid packet",toc,N,h); }
            else if (rfc_mode(toc)==2 || m.size[0]==0) { if(h!=0) mc_fail("helper:has_lbrr_none","toc=%02x N=%d size0=%d returns %d",toc,N,m.size[0],h); }
            else { ec_dec d; int c,i,nfr=rfc_frame_48k(toc)>960?rfc_frame_48k(toc)/960:1; unsigned char tmp[8]={0}; memcpy(tmp,b+m.off[0],m.size[0]<8?m.size[0]:8);
               ec_dec_init(&d,tmp,m.size[0]<8?m.size[0]:8); want=0; for(c=0;c<rfc_channels(toc);c++){ for(i=0;i<nfr;i++) ec_dec_bit_logp(&d,1); want|=ec_dec_bit_logp(&d,1); }
               if (h!=want) mc_fail("helper:has_lbrr","toc=%02x N=%d b0=%02x got %d, range decoder reads %d",toc,N,b0,h,want); }
            if (!(m.ok&&m.count>0&&m.size[0]>0)) break;
         }
      }
   }
}

int main(int argc,char **argv){
   int i; const char *mode;
   mc_init(argc,argv,"C06","shapes");
   mode=mc_arg_s("--mode","shapes"); MC.part=mode;
   deep_k=(int)mc_arg("--k",MC.tier?3:2); deep_allpads=(int)mc_arg("--allpads",MC.tier?1:0); nset_full=(int)mc_arg("--fulln",MC.tier?1:0);
   c_eval=mc_counter("evaluations"); c_acc=mc_counter("accepted"); c_rej=mc_counter("rejected"); c_helper=mc_counter("helper_checks");
   shapes=mc_set_new(16);
   for(i=0;i<=NMAX;i++){ blk[i]=malloc(i?i:1); memset(blk[i],0x5A,i); }
   mk_nset();
   if (!strcmp(mode,"helpers")){
      helpers();
      mc_par(256,helpers2,NULL);
      *c_eval=*c_helper;
      { mc_ctr *st=mc_counter("states"),*tr=mc_counter("transitions"),*dn=mc_counter("distinct_nontrivial"); *st=256; *tr=*c_helper; *dn=256; }
      mc_sample("toc=0x0b count=0x41 N=0..12: nb_frames/nb_samples at 5 rates vs model; has_lbrr for all 256 first bytes vs real range decoder");
   } else {
      mc_par(384+64*2*256,item,NULL);
      { mc_ctr *st=mc_counter("states"),*tr=mc_counter("transitions"),*dn=mc_counter("distinct_nontrivial");
        *st=mc_set_count(shapes); *tr=*c_eval; *dn=mc_set_count(shapes); }
      mc_sample("toc=0x03 count-byte=0xC3 pad-chain=[255,1] VBR fields {1,252/1}: N over header truncations and T-2..T+2, T+1273..T+1277: accept/reject + all fields vs RFC model");
      mc_sample("toc=0x78 self-delimited length bytes fd 03 (=265) N over 0..600,1270..1290,...");
   }
   return mc_finish();
}
