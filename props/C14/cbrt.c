/* cbrt.c — callback runtime that replaces libtsan for the C14 checks.
 *
 * The library is compiled with clang -fsanitize=thread (instrumentation pass only) and linked against this
 * file instead of the ThreadSanitizer runtime, so every load/store/function entry/exit in libopus calls us.
 *
 * mode CB_TRACK (S1, dependency tracking): logical threads are run one at a time in one OS thread; every access
 *   to memory that is neither the stack nor a heap block owned by the accessing logical thread is recorded in a
 *   shadow map {8-byte granule -> reader set, writer set, first pcs}. A granule with a writer and a second thread is
 *   a conflict (there is no synchronisation in libopus that could order the two accesses).
 * mode CB_SCHED (S2, preemption-bounded scheduling): real pthreads run one at a time; function entries and exits are
 *   yield points; a schedule is replayed from a small decision list.
 * This TU is NOT instrumented.
 */
#define _GNU_SOURCE
#include <stdio.h>
#include <stdlib.h>
#include <string.h>
#include <stdint.h>
#include <pthread.h>
#include <semaphore.h>
#include "cbrt.h"

int cb_mode = CB_OFF;
int cb_tid = 0;                         /* S1: current logical thread (0 = harness) */
static __thread int my_tid = 0;         /* S2: this OS thread's logical id */

/* ------------------------------------------------------------------ S1: tracking */
static uintptr_t stk_lo, stk_hi;
#define MAXB 8192
static uintptr_t bl[MAXB], bh[MAXB]; static int bo[MAXB]; static int nb;
#define HS (1u<<22)
typedef struct { uintptr_t g; void *wpc, *rpc; unsigned short r, w; } shad;
static shad *sh;
cb_stats CB;

void cb_track_begin(void){
   pthread_attr_t a; void *sa; size_t ss;
   pthread_getattr_np(pthread_self(), &a); pthread_attr_getstack(&a, &sa, &ss); pthread_attr_destroy(&a);
   stk_lo=(uintptr_t)sa; stk_hi=stk_lo+ss;
   if (!sh) sh=calloc(HS,sizeof(shad));
   memset(&CB,0,sizeof CB); nb=0;
   cb_mode=CB_TRACK;
}
void cb_own(void *p, size_t n, int owner){ if(nb<MAXB){ bl[nb]=(uintptr_t)p; bh[nb]=(uintptr_t)p+(n?n:1); bo[nb]=owner; nb++; } }
void cb_disown(void *p){ int i; for(i=nb-1;i>=0;i--) if(bl[i]==(uintptr_t)p){ bl[i]=bl[nb-1]; bh[i]=bh[nb-1]; bo[i]=bo[nb-1]; nb--; return; } }

static inline void mark(uintptr_t a, int w, void *pc){
   uintptr_t g=a>>3; unsigned h=(unsigned)((g*0x9E3779B97F4A7C15ull)>>40)&(HS-1);
   while(sh[h].g && sh[h].g!=g) h=(h+1)&(HS-1);
   if(!sh[h].g){ sh[h].g=g; CB.granules++; }
   if(w){ if(!sh[h].w) sh[h].wpc=pc; sh[h].w|=(unsigned short)(1u<<cb_tid); }
   else { if(!(sh[h].r&~(1u<<cb_tid)) ) sh[h].rpc=pc; sh[h].r|=(unsigned short)(1u<<cb_tid); }
}
static inline void acc(uintptr_t a, size_t n, int w, void *pc){
   int i, t=cb_tid; uintptr_t e;
   if (t<=0) return;
   if (w) CB.writes++; else CB.reads++;
   if (a>=stk_lo && a<stk_hi) return;
   for(i=nb-1;i>=0;i--) if(a>=bl[i]&&a<bh[i]){
      if (bo[i]==t) return;                                  /* own heap */
      if (bo[i]>0){ CB.foreign_heap++; if(CB.nforeign<8){ CB.foreign_pc[CB.nforeign]=pc; CB.foreign_by[CB.nforeign]=t; CB.foreign_owner[CB.nforeign]=bo[i]; CB.nforeign++; } return; }
      break;                                                 /* owner 0: shared harness data, tracked like a global */
   }
   if (w) CB.shared_writes++; else CB.shared_reads++;
   for(e=a+n; a<e; a=(a|7)+1) mark(a,w,pc);
}
int cb_conflicts(cb_conflict *out, int max){
   unsigned i; int n=0;
   for(i=0;i<HS;i++) if(sh[i].g && sh[i].w){
      unsigned all=sh[i].r|sh[i].w;
      CB.written_granules++;
      if (all&(all-1)){ if(n<max){ out[n].addr=(void*)(sh[i].g<<3); out[n].readers=sh[i].r; out[n].writers=sh[i].w; out[n].wpc=sh[i].wpc; out[n].rpc=sh[i].rpc; } n++; }
   }
   return n;
}

/* ------------------------------------------------------------------ S2: scheduling */
#define MAXT 4
static sem_t sem[MAXT+1];
static volatile int done_[MAXT+1];
static volatile long steps_[MAXT+1];
static cb_schedule SCH; static volatile int next_dec;
static int nthreads;
/* recording of first occurrences of call sites (serial run) */
static cb_record *REC;

void cb_sched_setup(int nthr, const cb_schedule *s, cb_record *rec){
   int i; nthreads=nthr; SCH=*s; next_dec=0; REC=rec;
   for(i=0;i<=MAXT;i++){ sem_init(&sem[i],0,0); done_[i]=0; steps_[i]=0; }
   cb_mode=CB_SCHED;
}
void cb_thread_enter(int tid){ my_tid=tid; sem_wait(&sem[tid]); }
static int pick_next(int after_exit_of){
   int i, k=0, cand[MAXT], want;
   for(i=1;i<=nthreads;i++) if(!done_[i]) cand[k++]=i;
   if(!k) return 0;
   want = SCH.exit_choice[after_exit_of] % k;
   return cand[want];
}
void cb_thread_exit(void){
   int t=my_tid, nx; done_[t]=1; my_tid=0;
   nx=pick_next(t);
   sem_post(&sem[nx]);                    /* 0 = the main thread waits on sem[0] */
}
void cb_sched_start(void){ int f=SCH.first; sem_post(&sem[f]); sem_wait(&sem[0]); cb_mode=CB_OFF; }
long cb_steps(int tid){ return steps_[tid]; }

static inline void yield_point(void *pc, int is_exit){
   int t=my_tid; long s;
   if (t<=0) return;
   s=steps_[t]++;
   if (REC && s<CB_MAXREC){ REC->pc[t][s]=(uintptr_t)pc^(uintptr_t)is_exit; REC->n[t]=s+1; }
   if (next_dec<SCH.npre && SCH.pre[next_dec].tid==t && SCH.pre[next_dec].step==s){
      int to=SCH.pre[next_dec].to; next_dec++;
      if (to>0 && to<=nthreads && !done_[to] && to!=t){ sem_post(&sem[to]); sem_wait(&sem[t]); }
   }
}

/* ------------------------------------------------------------------ the 21 instrumentation entry points */
void __tsan_init(void){}
void __tsan_func_entry(void *pc){ if(cb_mode==CB_SCHED) yield_point(pc,0); }
void __tsan_func_exit(void){ if(cb_mode==CB_SCHED) yield_point(__builtin_return_address(0),1); }
#define RW(n) \
 void __tsan_read##n(void *a){ if(cb_mode==CB_TRACK) acc((uintptr_t)a,n,0,__builtin_return_address(0)); } \
 void __tsan_write##n(void *a){ if(cb_mode==CB_TRACK) acc((uintptr_t)a,n,1,__builtin_return_address(0)); } \
 void __tsan_unaligned_read##n(void *a){ if(cb_mode==CB_TRACK) acc((uintptr_t)a,n,0,__builtin_return_address(0)); } \
 void __tsan_unaligned_write##n(void *a){ if(cb_mode==CB_TRACK) acc((uintptr_t)a,n,1,__builtin_return_address(0)); }
RW(1) RW(2) RW(4) RW(8) RW(16)
void __tsan_read_range(void *a, unsigned long n){ if(cb_mode==CB_TRACK) acc((uintptr_t)a,n,0,__builtin_return_address(0)); }
void __tsan_write_range(void *a, unsigned long n){ if(cb_mode==CB_TRACK) acc((uintptr_t)a,n,1,__builtin_return_address(0)); }
void __tsan_vptr_update(void **a, void *b){ (void)a; (void)b; }
void __tsan_vptr_read(void **a){ (void)a; }

/* libc entry points referenced by the library, via -Wl,--wrap */
void *__real_malloc(size_t); void __real_free(void*); void *__real_calloc(size_t,size_t); void *__real_realloc(void*,size_t);
void *__real_memcpy(void*,const void*,size_t); void *__real_memmove(void*,const void*,size_t); void *__real_memset(void*,int,size_t);
void *__wrap_malloc(size_t n){ void *p=__real_malloc(n); if(cb_mode==CB_TRACK && cb_tid>0 && p){ cb_own(p,n,cb_tid); CB.mallocs++; } return p; }
void *__wrap_calloc(size_t a,size_t b){ void *p=__real_calloc(a,b); if(cb_mode==CB_TRACK && cb_tid>0 && p){ cb_own(p,a*b,cb_tid); CB.mallocs++; } return p; }
void *__wrap_realloc(void *q,size_t n){ void *p; if(cb_mode==CB_TRACK && cb_tid>0 && q) cb_disown(q); p=__real_realloc(q,n); if(cb_mode==CB_TRACK && cb_tid>0 && p) cb_own(p,n,cb_tid); return p; }
void __wrap_free(void *p){ if(cb_mode==CB_TRACK && cb_tid>0 && p){ cb_disown(p); CB.frees++; } __real_free(p); }
void *__wrap_memcpy(void *d,const void *s,size_t n){ if(cb_mode==CB_TRACK && n){ void *pc=__builtin_return_address(0); acc((uintptr_t)s,n,0,pc); acc((uintptr_t)d,n,1,pc); } return __real_memcpy(d,s,n); }
void *__wrap_memmove(void *d,const void *s,size_t n){ if(cb_mode==CB_TRACK && n){ void *pc=__builtin_return_address(0); acc((uintptr_t)s,n,0,pc); acc((uintptr_t)d,n,1,pc); } return __real_memmove(d,s,n); }
void *__wrap_memset(void *d,int c,size_t n){ if(cb_mode==CB_TRACK && n) acc((uintptr_t)d,n,1,__builtin_return_address(0)); return __real_memset(d,c,n); }
