/* C14 S3 — free-running race pass: the same thread bodies on 16 real threads under the real ThreadSanitizer runtime.
 * A cooperative scheduler's hand-offs are happens-before edges that would blind a race detector, hence this separate,
 * unscheduled binary. Not exhaustive by nature (complements S1/S2, which are); any TSan report is a violation. */
#define _GNU_SOURCE
#include <stdio.h>
#include <pthread.h>
#include <unistd.h>
#include <sys/wait.h>
#include "mc.h"
#include "c14_bodies.h"
static volatile long reports; static char first_report[400];
/* called by the TSan runtime for every report */
void __tsan_on_report(void *rep){ (void)rep; __atomic_fetch_add(&reports,1,__ATOMIC_RELAXED); }
const char *__tsan_default_options(void){ return "halt_on_error=0:report_signal_unsafe=0:second_deadlock_stack=1"; }
static pthread_barrier_t bar; static uint64_t solo[NKINDS]; static int iters;
static volatile long mism; static uint64_t got[64][256]; static int gotk[64][256];
static void *thr(void *a){ int t=(int)(long)a, it, i; for(it=0;it<iters;it++){ bctx c; int k=(t+it)%NKINDS; memset(&c,0,sizeof c); c.kind=k; c.tid=t+1; b_alloc(&c); pthread_barrier_wait(&bar);
      for(i=0;i<KINDS[k].nops;i++) KINDS[k].op(&c,i); got[t][it]=c.h; gotk[t][it]=k; b_free(&c); } return NULL; }
int main(int argc,char **argv){
   int nthr,i,k; pthread_t th[64]; mc_ctr *ev,*tr,*st,*dn;
   mc_init(argc,argv,"C14","tsan");
   nthr=(int)mc_arg("--threads",16); iters=(int)mc_arg("--iters",MC.tier?200:24);
   ev=mc_counter("evaluations"); tr=mc_counter("transitions"); st=mc_counter("states"); dn=mc_counter("distinct_nontrivial");
   SIN=mc_shared(sizeof *SIN); if(iters>256) iters=256; if(nthr>64) nthr=64;
   /* threads start concurrently on a cold library: create all threads first, inputs come from a serial prologue in a
      single thread (TSan sees it happen-before the threads through pthread_create) */
   { pid_t p=fork(); int stt; if(!p){ make_inputs(); _exit(0);} waitpid(p,&stt,0); if(!SIN->ready){ fprintf(stderr,"input helper failed\n"); return 2; } }
   pthread_barrier_init(&bar,NULL,nthr);
   for(i=0;i<nthr;i++) pthread_create(&th[i],NULL,thr,(void*)(long)i);
   for(i=0;i<nthr;i++) pthread_join(th[i],NULL);
   /* solo references are computed AFTER the concurrent phase so that the threads met a cold library */
   for(k=0;k<NKINDS;k++){ bctx c; memset(&c,0,sizeof c); c.kind=k; c.tid=1; b_alloc(&c); for(i=0;i<KINDS[k].nops;i++) KINDS[k].op(&c,i); solo[k]=c.h; b_free(&c); }
   for(i=0;i<nthr;i++) for(k=0;k<iters;k++) if(got[i][k]!=solo[gotk[i][k]]) mism++;
   *ev=(long)nthr*iters; *tr=(long)nthr*iters*5; *st=(long)nthr*iters; *dn=NKINDS;
   mc_sample("16 unscheduled threads x %d iterations, each a full body (create, ctl, encode/decode, destroy) of kind (thread+iteration) mod 8, released together by a barrier; ThreadSanitizer reports: %ld; outputs differing from solo: %ld",iters,reports,mism);
   if (reports) mc_fail("tsan_report","ThreadSanitizer reported %ld data race(s) between threads that each use only their own codec object (details in out/C14/tsan.*)",reports);
   if (mism) mc_info("%ld thread bodies produced output different from their solo run (timing dependent here; the deterministic output oracle is the sched part)",mism);
   return mc_finish();
}
