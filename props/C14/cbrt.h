#ifndef CBRT_H
#define CBRT_H
#include <stdint.h>
#include <stddef.h>
enum { CB_OFF=0, CB_TRACK=1, CB_SCHED=2 };
extern int cb_mode, cb_tid;
typedef struct { long reads, writes, shared_reads, shared_writes, foreign_heap, granules, written_granules, mallocs, frees;
                 int nforeign; void *foreign_pc[8]; int foreign_by[8], foreign_owner[8]; } cb_stats;
extern cb_stats CB;
typedef struct { void *addr; unsigned readers, writers; void *wpc, *rpc; } cb_conflict;
void cb_track_begin(void);
void cb_own(void *p, size_t n, int owner);
void cb_disown(void *p);
int  cb_conflicts(cb_conflict *out, int max);

#define CB_MAXPRE 3
#define CB_MAXREC 400000
typedef struct { int first; int npre; struct { int tid; long step; int to; } pre[CB_MAXPRE]; int exit_choice[5]; } cb_schedule;
typedef struct { long n[5]; uintptr_t pc[5][CB_MAXREC]; } cb_record;
void cb_sched_setup(int nthreads, const cb_schedule *s, cb_record *rec);
void cb_thread_enter(int tid);   /* first call in a scheduled thread: blocks until scheduled */
void cb_thread_exit(void);       /* last call: hands the processor on */
void cb_sched_start(void);       /* main: release the first thread and wait until all are done */
long cb_steps(int tid);
#endif
