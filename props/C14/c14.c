/* C14 — independent codec instances do not interfere when used concurrently.
 *
 * libopus has no lock/atomic/condvar, so the only way two objects can interfere is a conflicting access to a
 * byte that is neither on the accessing thread's stack nor in its own heap blocks. The library is compiled with
 * the ThreadSanitizer instrumentation pass and linked to cbrt.c (our callback runtime), which makes every access
 * and every function entry/exit visible.
 *
 *  --mode dpor  (S1): for every tuple of body kinds, run the bodies interleaved at op granularity in a FRESH
 *      process (so first-use paths are first uses) and build the conflict set. Empty conflict set => all
 *      transitions of different threads are independent => every interleaving is Mazurkiewicz-equivalent to a
 *      serial one: exhaustive exploration collapses to one class (we still run every serial order and compare outputs).
 *  --mode sched (S2): real threads under a hand-off scheduler; ALL schedules with <=1 preemption at every function
 *      entry/exit of every thread (quick), <=2 preemptions at the first occurrence of every distinct function
 *      (thorough); each schedule in a fresh process; oracle: every thread's output hash equals its solo-run hash.
 */
#define _GNU_SOURCE
#include <stdio.h>
#include <pthread.h>
#include <unistd.h>
#include <sys/wait.h>
#include <dlfcn.h>
#include "mc.h"
#include "cbrt.h"
#define C14_OWN(p,n,t) cb_own(p,n,t)
#define C14_DISOWN(p) cb_disown(p)
#include "c14_bodies.h"

static mc_ctr *c_eval,*c_trans,*c_acc,*c_shr,*c_shw,*c_gran,*c_conf,*c_sched,*c_div;
static mc_set *outcomes, *statesv;

static const char *symname(void *pc){ static char buf[4][160]; static int r; Dl_info di; char *o=buf[r=(r+1)&3];
   if (pc && dladdr(pc,&di) && di.dli_sname) snprintf(o,160,"%s+0x%lx",di.dli_sname,(unsigned long)((char*)pc-(char*)di.dli_saddr)); else snprintf(o,160,"%p",pc); return o; }

/* run fn in a forked child; returns exit status (0 ok) */
static int in_child(void (*fn)(void*),void *arg){ pid_t p; int st; fflush(stdout); p=fork(); if(p<0){perror("fork");exit(2);} if(!p){ fn(arg); fflush(stdout); _exit(0);} waitpid(p,&st,0); return st; }

/* ------------------------------------------------------------------ solo reference hashes (one fresh process per kind) */
typedef struct { uint64_t solo[NKINDS]; long steps[NKINDS]; long nfo[NKINDS]; long fo[NKINDS][4096]; long nfx[NKINDS]; long fx[NKINDS][8192]; } refs_t;
static refs_t *REFS;
static void solo_run(void *a){ int k=*(int*)a,i; bctx c; memset(&c,0,sizeof c); c.kind=k; c.tid=1; b_alloc(&c); for(i=0;i<KINDS[k].nops;i++) KINDS[k].op(&c,i); REFS->solo[k]=c.h; b_free(&c); }

/* ------------------------------------------------------------------ S1 */
typedef struct { int n; int kind[3]; int order; } tuple;
static tuple *TUP; static int NTUP;
static void s1_child(void *a){
   tuple *t=a; bctx c[3]; int pos[3]={0,0,0},i,live,nconf; cb_conflict cf[16]; char names[200]="";
   for(i=0;i<t->n;i++){ memset(&c[i],0,sizeof(bctx)); c[i].kind=t->kind[i]; c[i].tid=i+1; strcat(names,KINDS[t->kind[i]].name); if(i+1<t->n) strcat(names,"|"); }
   mc_case("s1","tuple=%s order=%d",names,t->order);
   cb_track_begin();
   for(i=0;i<t->n;i++){ cb_tid=0; b_alloc(&c[i]); }
   if (t->order==0){ /* op-level round robin */
      do { live=0; for(i=0;i<t->n;i++) if(pos[i]<KINDS[c[i].kind].nops){ cb_tid=i+1; KINDS[c[i].kind].op(&c[i],pos[i]++); cb_tid=0; MC_INC(c_trans); live=1; mc_set_add(statesv,mc_mix(mc_mix(t->kind[0]*256+t->kind[1]*16+(t->n>2?t->kind[2]:15),pos[0]*100+pos[1]*10+pos[2]),t->n)); } } while(live);
   } else { /* serial orders: order-1 = rotation start, then reversed for odd */
      int k; for(k=0;k<t->n;k++){ i=((t->order-1)+k)%t->n; if((t->order-1)>=t->n) i=t->n-1-i; cb_tid=i+1; { int j; for(j=0;j<KINDS[c[i].kind].nops;j++){ KINDS[c[i].kind].op(&c[i],j); MC_INC(c_trans);} } cb_tid=0; }
   }
   cb_mode=CB_OFF;
   nconf=cb_conflicts(cf,16);
   MC_ADD(c_acc,CB.reads+CB.writes); MC_ADD(c_shr,CB.shared_reads); MC_ADD(c_shw,CB.shared_writes); MC_MAX(c_gran,CB.granules); MC_ADD(c_conf,nconf+CB.foreign_heap);
   for(i=0;i<nconf&&i<3;i++){ char sig[200]; snprintf(sig,sizeof sig,"race:shared_write:%s",names);
      mc_fail(sig,"conflicting accesses to non-stack, non-own-heap memory at %p (readers mask %x, writers mask %x); first write from %s, other access from %s; tuple %s order %d",cf[i].addr,cf[i].readers,cf[i].writers,symname(cf[i].wpc),symname(cf[i].rpc),names,t->order); }
   if (CB.foreign_heap){ char sig[200]; snprintf(sig,sizeof sig,"race:foreign_heap:%s",names); mc_fail(sig,"%ld accesses to a heap block owned by another thread; first: thread %d touched block of thread %d from %s",CB.foreign_heap,CB.foreign_by[0],CB.foreign_owner[0],symname(CB.foreign_pc[0])); }
   for(i=0;i<t->n;i++){ mc_set_add(outcomes,mc_mix(c[i].h,c[i].kind)); if (c[i].h!=REFS->solo[c[i].kind]){ char sig[200]; snprintf(sig,sizeof sig,"output_differs_from_solo:s1:%s",KINDS[c[i].kind].name); mc_fail(sig,"thread %d (%s) produced %016llx, alone it produces %016llx; tuple %s order %d",i+1,KINDS[c[i].kind].name,(unsigned long long)c[i].h,(unsigned long long)REFS->solo[c[i].kind],names,t->order); } }
   if (mc_cur_item()<3) mc_sample("S1 tuple (%s) order %d: %ld instrumented accesses, %ld reads / %ld writes of shared (non-stack, non-own-heap) memory in %ld granules, %d conflicts",names,t->order,CB.reads+CB.writes,CB.shared_reads,CB.shared_writes,CB.granules,nconf);
}
static void s1_item(long it,void *ctx){ int st; (void)ctx; st=in_child(s1_child,&TUP[it]); MC_INC(c_eval);
   if (st!=0) mc_fail("crash:s1","child for tuple %ld ended with status %x",it,st); }

/* ------------------------------------------------------------------ S2 */
typedef struct { int ka,kb; int first; long k0,k1; int bound2; long j0,j1; int fx; } s2job;
static s2job *JOBS2; static long NJOBS2;
typedef struct { int n; int kind[3]; cb_schedule s; uint64_t h[3]; long steps[3]; } s2run;
static s2run *RUN;   /* per-worker shared slot for the child to report into */
static cb_record *RECBUF;

static bctx TC[3];
static void *thr(void *a){ bctx *c=a; int i; cb_thread_enter(c->tid); for(i=0;i<KINDS[c->kind].nops;i++) KINDS[c->kind].op(c,i); cb_thread_exit(); return NULL; }
static void s2_child(void *a){
   s2run *r=a; pthread_t th[3]; int i, n=r->n?r->n:2;
   for(i=0;i<n;i++){ memset(&TC[i],0,sizeof(bctx)); TC[i].kind=r->kind[i]; TC[i].tid=i+1; b_alloc(&TC[i]); }
   cb_sched_setup(n,&r->s,RECBUF);
   for(i=0;i<n;i++) pthread_create(&th[i],NULL,thr,&TC[i]);
   cb_sched_start();
   for(i=0;i<n;i++) pthread_join(th[i],NULL);
   for(i=0;i<n;i++){ r->h[i]=TC[i].h; r->steps[i]=cb_steps(i+1); }
}
/* recording run for kind k alone as thread 1 (thread 2 = trivial repacketizer-free body? no: run k as both threads serially) */
static void rec_child(void *a){
   int k=*(int*)a; s2run r; long i,n=0; memset(&r,0,sizeof r); r.kind[0]=k; r.kind[1]=k; r.s.first=1; r.s.npre=0;
   RECBUF=calloc(1,sizeof(cb_record)); s2_child(&r);
   REFS->steps[k]=r.steps[0];
   /* first occurrence of every distinct function entry (even pcs: entries; odd: exits) */
   { mc_set *seen=mc_set_new(16); for(i=0;i<RECBUF->n[1]&&i<CB_MAXREC;i++){ uintptr_t pc=RECBUF->pc[1][i]; if(mc_set_add(seen,pc)){ if(REFS->nfx[k]<8192) REFS->fx[k][REFS->nfx[k]++]=i; if(!(pc&1) && n<4096) REFS->fo[k][n++]=i; } } REFS->nfo[k]=n; }
   if (r.h[0]!=REFS->solo[k]||r.h[1]!=REFS->solo[k]) REFS->nfo[k]=-1;
}
static void s2_one(s2run *r,const char *what){
   int st,i; char names[120];
   snprintf(names,sizeof names,"%s|%s",KINDS[r->kind[0]].name,KINDS[r->kind[1]].name);
   mc_case("s2","pair=%s first=%d npre=%d pre0=(T%d,step %ld->T%d) pre1=(T%d,step %ld->T%d)",names,r->s.first,r->s.npre,r->s.pre[0].tid,r->s.pre[0].step,r->s.pre[0].to,r->s.pre[1].tid,r->s.pre[1].step,r->s.pre[1].to);
   r->h[0]=r->h[1]=0;
   st=in_child(s2_child,r); MC_INC(c_sched); MC_INC(c_eval); MC_ADD(c_trans,1+r->s.npre+1);
   mc_set_add(outcomes,mc_mix(mc_mix(r->h[0],r->h[1]),r->kind[0]*16+r->kind[1]));
   if (st!=0){ char sig[160]; snprintf(sig,sizeof sig,"crash:s2:%s",names); MC_INC(c_div); mc_fail(sig,"schedule child ended with status %x: %s first=%d pre0=(T%d,%ld) pre1=(T%d,%ld)",st,what,r->s.first,r->s.pre[0].tid,r->s.pre[0].step,r->s.pre[1].tid,r->s.pre[1].step); return; }
   for(i=0;i<2;i++) if(r->h[i]!=REFS->solo[r->kind[i]]){ char sig[160]; snprintf(sig,sizeof sig,"output_differs_from_solo:s2:%s",names); MC_INC(c_div);
      mc_fail(sig,"thread T%d (%s) produced %016llx under schedule [first=T%d; preempt T%d at yield %ld -> T%d%s], alone it produces %016llx",i+1,KINDS[r->kind[i]].name,(unsigned long long)r->h[i],r->s.first,r->s.pre[0].tid,r->s.pre[0].step,r->s.pre[0].to,r->s.npre>1?"; second preemption":"",(unsigned long long)REFS->solo[r->kind[i]]); break; }
}
static void s2_item(long it,void *ctx){
   s2job *j=&JOBS2[it]; s2run *r=&RUN[mc_worker_id()]; long k,q; (void)ctx;
   memset(r,0,sizeof *r); r->kind[0]=j->ka; r->kind[1]=j->kb; r->s.first=j->first;
   if (!j->bound2){
      for(k=j->k0;k<j->k1;k++){ r->s.npre=1; r->s.pre[0].tid=j->first; r->s.pre[0].step= j->fx? REFS->fx[j->first==1?j->ka:j->kb][k] : k; r->s.pre[0].to=3-j->first; s2_one(r,"bound1"); if(k==j->k0&&it<2) mc_sample("S2 schedule: threads (%s | %s), T%d starts, preempted at its yield point %ld (function entry/exit), T%d runs to completion, T%d resumes: outputs == solo outputs",KINDS[j->ka].name,KINDS[j->kb].name,j->first,k,3-j->first,j->first); }
   } else {
      int a=j->first, b=3-a, ka=(a==1)?j->ka:j->kb, kb=(a==1)?j->kb:j->ka;
      for(k=j->k0;k<j->k1;k++) for(q=j->j0;q<j->j1;q++){
         r->s.npre=2; r->s.pre[0].tid=a; r->s.pre[0].step=REFS->fo[ka][k]; r->s.pre[0].to=b; r->s.pre[1].tid=b; r->s.pre[1].step=REFS->fo[kb][q]; r->s.pre[1].to=a; s2_one(r,"bound2"); }
   }
}

/* ---- three threads, one preemption: first thread a is preempted at the first occurrence of every distinct (function, entry/exit),
   either other thread runs next, and at every thread exit either remaining thread may be picked */
typedef struct { int kind[3]; int first; long k0,k1; } s3job;
static s3job *JOBS3; static long NJOBS3;
static void s3_item(long it,void *ctx){
   s3job *j=&JOBS3[it]; s2run *r=&RUN[mc_worker_id()]; long k; int to,ec,i,st; char names[200]; (void)ctx;
   snprintf(names,sizeof names,"%s|%s|%s",KINDS[j->kind[0]].name,KINDS[j->kind[1]].name,KINDS[j->kind[2]].name);
   for(k=j->k0;k<j->k1;k++) for(to=1;to<=3;to++) for(ec=0;ec<2;ec++){
      if (to==j->first) continue;
      memset(r,0,sizeof *r); r->n=3; for(i=0;i<3;i++) r->kind[i]=j->kind[i];
      r->s.first=j->first; r->s.npre=1; r->s.pre[0].tid=j->first; r->s.pre[0].step=REFS->fx[j->kind[j->first-1]][k]; r->s.pre[0].to=to;
      for(i=0;i<5;i++) r->s.exit_choice[i]=ec;
      mc_case("s3","triple=%s first=T%d preempt at yield %ld -> T%d exit_choice=%d",names,j->first,r->s.pre[0].step,to,ec);
      st=in_child(s2_child,r); MC_INC(c_sched); MC_INC(c_eval); MC_ADD(c_trans,4);
      mc_set_add(outcomes,mc_mix(mc_mix(mc_mix(r->h[0],r->h[1]),r->h[2]),j->kind[0]*256+j->kind[1]*16+j->kind[2]));
      if (st!=0){ char sig[240]; snprintf(sig,sizeof sig,"crash:s3:%s",names); MC_INC(c_div); mc_fail(sig,"schedule child ended with status %x (first=T%d, preempt at yield %ld -> T%d, exit choice %d)",st,j->first,r->s.pre[0].step,to,ec); continue; }
      for(i=0;i<3;i++) if(r->h[i]!=REFS->solo[r->kind[i]]){ char sig[240]; snprintf(sig,sizeof sig,"output_differs_from_solo:s3:%s",names); MC_INC(c_div);
         mc_fail(sig,"thread T%d (%s) produced %016llx under schedule [first=T%d; preempt at its yield %ld -> T%d; at exits pick remaining thread #%d], alone it produces %016llx",i+1,KINDS[r->kind[i]].name,(unsigned long long)r->h[i],j->first,r->s.pre[0].step,to,ec,(unsigned long long)REFS->solo[r->kind[i]]); break; }
      if (k==j->k0&&to!=j->first&&ec==0&&it<1) mc_sample("S2 three threads (%s): T%d starts, preempted at yield %ld, T%d runs to completion, then the lowest remaining thread, then the last: outputs == solo outputs",names,j->first,r->s.pre[0].step,to);
   }
}

int main(int argc,char **argv){
   const char *mode; int i,j,k;
   mc_init(argc,argv,"C14","dpor");
   mode=mc_arg_s("--mode","dpor"); MC.part=mode;
   c_eval=mc_counter("evaluations"); c_trans=mc_counter("transitions"); c_acc=mc_counter("instrumented_accesses"); c_shr=mc_counter("shared_reads"); c_shw=mc_counter("shared_writes");
   c_gran=mc_counter("max_shared_granules"); c_conf=mc_counter("conflicts"); c_sched=mc_counter("schedules"); c_div=mc_counter("divergent_schedules");
   outcomes=mc_set_new(16); statesv=mc_set_new(18);
   SIN=mc_shared(sizeof *SIN); REFS=mc_shared(sizeof *REFS); RUN=mc_shared(sizeof(s2run)*64);
   { int st=in_child((void(*)(void*))make_inputs,NULL); if(st||!SIN->ready){ fprintf(stderr,"input helper failed\n"); return 2; } }
   for(k=0;k<NKINDS;k++){ int st=in_child(solo_run,&k); if(st){ mc_fail("crash:solo","solo run of %s ended with status %x",KINDS[k].name,st); } }

   if (!strcmp(mode,"dpor")){
      int maxt=(NKINDS*(NKINDS+1)/2)*3 + NKINDS*NKINDS*NKINDS*4; TUP=calloc(maxt,sizeof(tuple));
      for(i=0;i<NKINDS;i++) for(j=i;j<NKINDS;j++) for(k=0;k<3;k++){ tuple t={2,{i,j,0},k}; TUP[NTUP++]=t; }
      /* triples: every multiset in thorough; in quick the ones containing two equal kinds (first-use sharing is likeliest) */
      for(i=0;i<NKINDS;i++) for(j=i;j<NKINDS;j++) for(k=j;k<NKINDS;k++){ int o; if(!MC.tier && !(i==j||j==k)) continue; for(o=0;o<(MC.tier?4:1);o++){ tuple t={3,{i,j,k},o}; TUP[NTUP++]=t; } }
      mc_par(NTUP,s1_item,NULL);
      { mc_ctr *st=mc_counter("states"),*dn=mc_counter("distinct_nontrivial"),*tv=mc_counter("traces_validated_against_impl"); *st=mc_set_count(statesv); *dn=mc_set_count(outcomes); *tv=*c_eval; }
   } else if (!strcmp(mode,"sched")){
      long chunk=mc_arg("--chunk",400); int b2=(int)mc_arg("--bound2",MC.tier?1:0); long cap=200000; NJOBS2=0; JOBS2=calloc(cap,sizeof(s2job));
      for(k=0;k<NKINDS;k++){ int st=in_child(rec_child,&k); if(st||REFS->nfo[k]<0){ mc_fail("machinery:s2_recording","recording run of %s failed (status %x, nfo %ld)",KINDS[k].name,st,REFS->nfo[k]); } mc_info("kind %s: %ld yield points, %ld distinct functions",KINDS[k].name,REFS->steps[k],REFS->nfo[k]); }
      /* bound 1: quick = every yield point for same-kind pairs and encoder|decoder, first occurrence of every distinct
         (function, entry/exit) for all other pairs; thorough = every yield point of every pair */
      for(i=0;i<NKINDS;i++) for(j=i;j<NKINDS;j++){ int f, full = MC.tier || i==j || (i==0&&j==2); for(f=1;f<=2;f++){ int kk=f==1?i:j; long n= full?REFS->steps[kk]:REFS->nfx[kk],s; if(i==j&&f==2) continue; for(s=0;s<n;s+=chunk){ s2job jb={i,j,f,s,s+chunk<n?s+chunk:n,0,0,0,!full}; if(NJOBS2<cap) JOBS2[NJOBS2++]=jb; } } }
      if (b2){ /* two preemptions at first occurrences of distinct functions; same-kind pairs and pairs with the decoder */
         for(i=0;i<NKINDS;i++) for(j=i;j<NKINDS;j++){ int f; if(!(i==j||i==2||j==2||i==8||j==8)) continue; for(f=1;f<=2;f++){ int ka=f==1?i:j,kb=f==1?j:i; long s; if(i==j&&f==2) continue; for(s=0;s<REFS->nfo[ka];s+=4){ s2job jb={i,j,f,s,s+4<REFS->nfo[ka]?s+4:REFS->nfo[ka],1,0,REFS->nfo[kb],0}; if(NJOBS2<cap) JOBS2[NJOBS2++]=jb; } } } }
      mc_par(NJOBS2,s2_item,NULL);
      {  /* three-thread schedules: same-kind triples (symmetric: first = T1 only) in both tiers, four mixed triples with every first thread in thorough */
         static const int MIX[4][3]={{0,2,8},{3,4,5},{1,9,7},{6,8,4}}; long c3=20000; int t,f; JOBS3=calloc(c3,sizeof(s3job)); NJOBS3=0;
         for(k=0;k<NKINDS;k++){ long s; for(s=0;s<REFS->nfx[k];s+=50){ s3job jb={{k,k,k},1,s,s+50<REFS->nfx[k]?s+50:REFS->nfx[k]}; if(NJOBS3<c3) JOBS3[NJOBS3++]=jb; } }
         if (MC.tier) for(t=0;t<4;t++) for(f=1;f<=3;f++){ int kk=MIX[t][f-1]; long s; for(s=0;s<REFS->nfx[kk];s+=50){ s3job jb={{MIX[t][0],MIX[t][1],MIX[t][2]},f,s,s+50<REFS->nfx[kk]?s+50:REFS->nfx[kk]}; if(NJOBS3<c3) JOBS3[NJOBS3++]=jb; } }
         mc_par(NJOBS3,s3_item,NULL);
      }
      { mc_ctr *st=mc_counter("states"),*dn=mc_counter("distinct_nontrivial"),*tv=mc_counter("traces_validated_against_impl"); *st=*c_sched; *dn=mc_set_count(outcomes); *tv=*c_sched; }
   }
   return mc_finish();
}
