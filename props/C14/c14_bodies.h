/* c14_bodies.h — thread bodies for C14: each body drives ONE codec object of its own through
 * create -> ctl -> 1-2 encode/decode -> destroy, as a sequence of ops so that the S1 pass can interleave bodies
 * at op granularity and the S2/S3 passes can run a whole body per thread. Inputs are deterministic. Packets that
 * decoder bodies consume are pre-computed in a separate helper process (so the exploring process has never
 * executed library code and first-use paths are really first uses) and live in shared read-only memory. */
#ifndef C14_BODIES_H
#define C14_BODIES_H
#include <stdlib.h>
#include <string.h>
#include <math.h>
#include <stdint.h>
#include "opus.h"
#include "opus_multistream.h"
#include "opus_projection.h"
#include "opus_private.h"

#ifndef C14_OWN
#define C14_OWN(p,n,t) ((void)0)
#define C14_DISOWN(p) ((void)0)
#endif

typedef struct { int len[4]; unsigned char d[4][1500]; } pktset;
typedef struct { pktset st48s, ms3, celt10, silk16fec; int ready; } shared_in;
static shared_in *SIN;

typedef struct {
   int kind, tid; uint64_t h;
   void *o1, *o2; short *pcm; float *fpcm; short *out; float *fout; unsigned char *pk; int n1, n2;
} bctx;

static uint64_t fnv(uint64_t h,const void *p,size_t n){ const unsigned char *b=p; size_t i; for(i=0;i<n;i++){ h^=b[i]; h*=1099511628211ull; } return h; }
#define HI(c,x) do{ int v_=(x); (c)->h=fnv((c)->h,&v_,sizeof v_); }while(0)
#define HB(c,p,n) do{ if((n)>0) (c)->h=fnv((c)->h,(p),(n)); }while(0)

static void b_alloc(bctx *c){
   c->pcm=malloc(sizeof(short)*5760*4); c->fpcm=malloc(sizeof(float)*5760*4); c->out=malloc(sizeof(short)*5760*4); c->fout=malloc(sizeof(float)*5760*4); c->pk=malloc(4000);
   C14_OWN(c->pcm,sizeof(short)*5760*4,c->tid); C14_OWN(c->fpcm,sizeof(float)*5760*4,c->tid); C14_OWN(c->out,sizeof(short)*5760*4,c->tid); C14_OWN(c->fout,sizeof(float)*5760*4,c->tid); C14_OWN(c->pk,4000,c->tid);
   c->h=1469598103934665603ull;
}
static void b_free(bctx *c){ C14_DISOWN(c->pcm); C14_DISOWN(c->fpcm); C14_DISOWN(c->out); C14_DISOWN(c->fout); C14_DISOWN(c->pk); free(c->pcm); free(c->fpcm); free(c->out); free(c->fout); free(c->pk); }
static void b_sig(bctx *c,int n,int ch,int f){ int i; for(i=0;i<n*ch;i++){ double v=9000*sin(i*0.013*(1+c->kind%3)+f)+3000*sin(i*0.11+c->kind); c->pcm[i]=(short)v; c->fpcm[i]=(float)(v/32768.0); } }

/* kind 0: OpusEncoder 48k stereo VOIP, int16 */
static void k0(bctx *c,int i){ int e; OpusEncoder *s=c->o1;
   switch(i){ case 0: c->o1=opus_encoder_create(48000,2,OPUS_APPLICATION_VOIP,&e); HI(c,e); break;
   case 1: HI(c,opus_encoder_ctl(s,OPUS_SET_BITRATE(32000))); HI(c,opus_encoder_ctl(s,OPUS_SET_COMPLEXITY(5))); break;
   case 2: case 3: b_sig(c,960,2,i); c->n1=opus_encode(s,c->pcm,960,c->pk,1500); HI(c,c->n1); HB(c,c->pk,c->n1); { opus_uint32 r; opus_encoder_ctl(s,OPUS_GET_FINAL_RANGE(&r)); HI(c,(int)r); } break;
   case 4: opus_encoder_destroy(s); break; } }
/* kind 1: OpusEncoder 16k mono AUDIO, float API, FEC on (runs the tonality analysis) */
static void k1(bctx *c,int i){ int e; OpusEncoder *s=c->o1;
   switch(i){ case 0: c->o1=opus_encoder_create(16000,1,OPUS_APPLICATION_AUDIO,&e); HI(c,e); break;
   case 1: HI(c,opus_encoder_ctl(s,OPUS_SET_INBAND_FEC(1))); HI(c,opus_encoder_ctl(s,OPUS_SET_PACKET_LOSS_PERC(10))); HI(c,opus_encoder_ctl(s,OPUS_SET_BITRATE(20000))); break;
   case 2: case 3: b_sig(c,320,1,i); c->n1=opus_encode_float(s,c->fpcm,320,c->pk,1500); HI(c,c->n1); HB(c,c->pk,c->n1); break;
   case 4: opus_encoder_destroy(s); break; } }
/* kind 2: OpusDecoder 48k stereo: two packets, one PLC, one FEC-flag decode */
static void k2(bctx *c,int i){ int e,n; OpusDecoder *s=c->o1;
   switch(i){ case 0: c->o1=opus_decoder_create(48000,2,&e); HI(c,e); break;
   case 1: HI(c,opus_decoder_ctl(s,OPUS_SET_GAIN(256))); break;
   case 2: case 3: n=opus_decode(s,SIN->st48s.d[i-2],SIN->st48s.len[i-2],c->out,960,0); HI(c,n); HB(c,c->out,n>0?n*4:0); break;
   case 4: n=opus_decode_float(s,NULL,0,c->fout,960,0); HI(c,n); HB(c,c->fout,n>0?n*8:0); break;
   case 5: opus_decoder_destroy(s); break; } }
/* kind 3: multistream surround encoder, 3 channels, family 1 */
static void k3(bctx *c,int i){ int e,st,cp; unsigned char map[8]; OpusMSEncoder *s=c->o1;
   switch(i){ case 0: c->o1=opus_multistream_surround_encoder_create(48000,3,1,&st,&cp,map,OPUS_APPLICATION_AUDIO,&e); HI(c,e); HI(c,st); HI(c,cp); break;
   case 1: HI(c,opus_multistream_encoder_ctl(s,OPUS_SET_BITRATE(96000))); break;
   case 2: b_sig(c,960,3,i); c->n1=opus_multistream_encode(s,c->pcm,960,c->pk,3000); HI(c,c->n1); HB(c,c->pk,c->n1); break;
   case 3: opus_multistream_encoder_destroy(s); break; } }
/* kind 4: multistream decoder, 3 channels (2 streams, 1 coupled) */
static void k4(bctx *c,int i){ int e,n; static const unsigned char map[3]={0,2,1}; OpusMSDecoder *s=c->o1;
   switch(i){ case 0: c->o1=opus_multistream_decoder_create(48000,3,2,1,map,&e); HI(c,e); break;
   case 1: n=opus_multistream_decode(s,SIN->ms3.d[0],SIN->ms3.len[0],c->out,960,0); HI(c,n); HB(c,c->out,n>0?n*6:0); break;
   case 2: n=opus_multistream_decode_float(s,SIN->ms3.d[1],SIN->ms3.len[1],c->fout,960,0); HI(c,n); HB(c,c->fout,n>0?n*12:0); break;
   case 3: n=opus_multistream_decode(s,NULL,0,c->out,960,0); HI(c,n); HB(c,c->out,n>0?n*6:0); break;
   case 4: opus_multistream_decoder_destroy(s); break; } }
/* kind 5: repacketizer + pad/unpad + extension generate/parse */
static void k5(bctx *c,int i){ OpusRepacketizer *s=c->o1; int n;
   switch(i){ case 0: c->o1=opus_repacketizer_create(); break;
   case 1: HI(c,opus_repacketizer_cat(s,SIN->celt10.d[0],SIN->celt10.len[0])); HI(c,opus_repacketizer_cat(s,SIN->celt10.d[1],SIN->celt10.len[1])); break;
   case 2: c->n1=opus_repacketizer_out(s,c->pk,3000); HI(c,c->n1); HB(c,c->pk,c->n1); break;
   case 3: if(c->n1>0){ HI(c,opus_packet_pad(c->pk,c->n1,c->n1+300)); HB(c,c->pk,c->n1+300); n=opus_packet_unpad(c->pk,c->n1+300); HI(c,n); } break;
   case 4: { opus_extension_data ex[2], got[4]; opus_int32 ng=4; static const unsigned char pl[3]={1,2,3}; ex[0].id=33; ex[0].frame=0; ex[0].data=pl; ex[0].len=3; ex[1].id=4; ex[1].frame=1; ex[1].data=pl; ex[1].len=1;
        n=opus_packet_extensions_generate(c->pk,100,ex,2,2,0); HI(c,n); HB(c,c->pk,n); if(n>0){ HI(c,opus_packet_extensions_parse(c->pk,n,got,&ng,2)); HI(c,ng); } } break;
   case 5: opus_repacketizer_destroy(s); break; } }
/* kind 6: projection (ambisonics order 1, family 3) encoder + decoder */
static void k6(bctx *c,int i){ int e,st=0,cp=0,n; OpusProjectionEncoder *s=c->o1; OpusProjectionDecoder *d=c->o2;
   switch(i){ case 0: c->o1=opus_projection_ambisonics_encoder_create(48000,4,3,&st,&cp,OPUS_APPLICATION_AUDIO,&e); HI(c,e); HI(c,st); HI(c,cp); break;
   case 1: b_sig(c,960,4,i); c->n1=opus_projection_encode(s,c->pcm,960,c->pk,3000); HI(c,c->n1); HB(c,c->pk,c->n1); break;
   case 2: { opus_int32 sz=0; unsigned char mtx[256]; opus_projection_encoder_ctl(s,OPUS_PROJECTION_GET_DEMIXING_MATRIX_SIZE(&sz)); HI(c,sz); if(sz>0&&sz<=256){ HI(c,opus_projection_encoder_ctl(s,OPUS_PROJECTION_GET_DEMIXING_MATRIX(mtx,sz))); HB(c,mtx,sz);
        c->o2=opus_projection_decoder_create(48000,4,2,2,mtx,sz,&e); HI(c,e); } } break;
   case 3: if(d&&c->n1>0){ n=opus_projection_decode(d,c->pk,c->n1,c->out,960,0); HI(c,n); HB(c,c->out,n>0?n*8:0); } break;
   case 4: opus_projection_encoder_destroy(s); if(d) opus_projection_decoder_destroy(d); break; } }
/* kind 7: low-delay CELT encoder 48k mono, 2.5 ms frames, plus its own decoder (24-bit) */
static void k7(bctx *c,int i){ int e,n; OpusEncoder *s=c->o1; OpusDecoder *d=c->o2;
   switch(i){ case 0: c->o1=opus_encoder_create(48000,1,OPUS_APPLICATION_RESTRICTED_LOWDELAY,&e); HI(c,e); c->o2=opus_decoder_create(48000,1,&e); HI(c,e); break;
   case 1: case 2: case 3: b_sig(c,120,1,i); c->n1=opus_encode(s,c->pcm,120,c->pk,400); HI(c,c->n1); HB(c,c->pk,c->n1); n=opus_decode24(d,c->pk,c->n1,(opus_int32*)c->fout,120,0); HI(c,n); HB(c,c->fout,n>0?n*4:0); break;
   case 4: opus_encoder_destroy(s); opus_decoder_destroy(d); break; } }

/* kind 8: CELT-only decoder 48k mono: two packets, then pitch-based concealment twice, then a packet (first-loss PLC needs >= 2 good packets) */
static void k8(bctx *c,int i){ int e,n; OpusDecoder *s=c->o1;
   switch(i){ case 0: c->o1=opus_decoder_create(48000,1,&e); HI(c,e); break;
   case 1: case 2: n=opus_decode(s,SIN->celt10.d[i-1],SIN->celt10.len[i-1],c->out,480,0); HI(c,n); HB(c,c->out,n>0?n*2:0); break;
   case 3: case 4: n=opus_decode(s,NULL,0,c->out,480,0); HI(c,n); HB(c,c->out,n>0?n*2:0); break;
   case 5: n=opus_decode_float(s,SIN->celt10.d[3],SIN->celt10.len[3],c->fout,480,0); HI(c,n); HB(c,c->fout,n>0?n*4:0); break;
   case 6: opus_decoder_destroy(s); break; } }
/* kind 9: SILK decoder 16k mono with in-band FEC: two packets, one lost packet recovered from the next packet's LBRR, that packet, then PLC */
static void k9(bctx *c,int i){ int e,n; OpusDecoder *s=c->o1;
   switch(i){ case 0: c->o1=opus_decoder_create(16000,1,&e); HI(c,e); break;
   case 1: case 2: n=opus_decode(s,SIN->silk16fec.d[i-1],SIN->silk16fec.len[i-1],c->out,320,0); HI(c,n); HB(c,c->out,n>0?n*2:0); break;
   case 3: n=opus_decode(s,SIN->silk16fec.d[3],SIN->silk16fec.len[3],c->out,320,1); HI(c,n); HB(c,c->out,n>0?n*2:0); break;
   case 4: n=opus_decode(s,SIN->silk16fec.d[3],SIN->silk16fec.len[3],c->out,320,0); HI(c,n); HB(c,c->out,n>0?n*2:0); break;
   case 5: n=opus_decode(s,NULL,0,c->out,320,0); HI(c,n); HB(c,c->out,n>0?n*2:0); { opus_int32 pitch=0; opus_decoder_ctl(s,OPUS_GET_PITCH(&pitch)); HI(c,pitch); } break;
   case 6: opus_decoder_destroy(s); break; } }

typedef struct { const char *name; int nops; void (*op)(bctx*,int); } bkind;
static const bkind KINDS[]={ {"enc48s",5,k0},{"enc16m-float-fec",5,k1},{"dec48s",6,k2},{"msenc3",4,k3},{"msdec3+plc",5,k4},{"repacketizer+ext",6,k5},{"projection4",5,k6},{"lowdelay+dec24",5,k7},{"dec-celt+plc",7,k8},{"dec-silk+fec+plc",7,k9} };
#define NKINDS 10

/* helper process: produce the packets the decoder bodies need (runs library code; never in an exploring process) */
static void make_inputs(void){
   int e,i,st,cp; unsigned char map[8]; bctx c; memset(&c,0,sizeof c); c.kind=0; b_alloc(&c);
   { OpusEncoder *s=opus_encoder_create(48000,2,OPUS_APPLICATION_VOIP,&e); opus_encoder_ctl(s,OPUS_SET_BITRATE(32000)); for(i=0;i<2;i++){ b_sig(&c,960,2,i); SIN->st48s.len[i]=opus_encode(s,c.pcm,960,SIN->st48s.d[i],1500); } opus_encoder_destroy(s); }
   { OpusMSEncoder *s=opus_multistream_surround_encoder_create(48000,3,1,&st,&cp,map,OPUS_APPLICATION_AUDIO,&e); for(i=0;i<2;i++){ b_sig(&c,960,3,i); SIN->ms3.len[i]=opus_multistream_encode(s,c.pcm,960,SIN->ms3.d[i],1500); } opus_multistream_encoder_destroy(s); }
   { OpusEncoder *s=opus_encoder_create(48000,1,OPUS_APPLICATION_RESTRICTED_LOWDELAY,&e); opus_encoder_ctl(s,OPUS_SET_BITRATE(64000)); for(i=0;i<4;i++){ b_sig(&c,480,1,i); SIN->celt10.len[i]=opus_encode(s,c.pcm,480,SIN->celt10.d[i],1500); } opus_encoder_destroy(s); }
   { OpusEncoder *s=opus_encoder_create(16000,1,OPUS_APPLICATION_VOIP,&e); opus_encoder_ctl(s,OPUS_SET_BITRATE(24000)); opus_encoder_ctl(s,OPUS_SET_INBAND_FEC(1)); opus_encoder_ctl(s,OPUS_SET_PACKET_LOSS_PERC(25));
     for(i=0;i<4;i++){ b_sig(&c,320,1,i); SIN->silk16fec.len[i]=opus_encode(s,c.pcm,320,SIN->silk16fec.d[i],1500); } opus_encoder_destroy(s); }
   b_free(&c); SIN->ready=1;
}
#endif
