/* C13 (encoder relation) — "Feeding the same audio to the encoder as 16-bit integers, as 24-bit integers (value x 256)
 * or as floats (value / 32768), with the encoder's LSB depth set to 16 bits or fewer, produces identical packets."
 * "The multistream API obeys the same relations stream by stream."
 *
 * E2/E3: deviation-bounded product enumeration on the REAL encoders.
 *   mode enc : item = (base, deviation);  base = (Fs in {8,12,16,24,48} kHz) x (channels 1,2) x (application VOIP, AUDIO,
 *              RESTRICTED_LOWDELAY) = 30 bases;  deviation = one entry of DEV[] (every single non-default setting of the
 *              encoder's configuration vector, plus a few named compound entries such as FEC+loss, plus max_data_bytes).
 *              Inside an item: OPUS_SET_LSB_DEPTH in {8,12,16} (8..16 for the default vector) x every int16 signal family of
 *              mc/signals.h x every frame duration 2.5..120 ms x a run of consecutive frames on persistent encoders.
 *   mode ms  : the same through opus_multistream_encode / _encode24 / _encode_float: item = (layout, Fs, application, deviation);
 *              layouts: mono, coupled pair, dual mono, 2+1, 4 inputs with one ignored (255), 5.1 surround (family 1, with the
 *              per-format surround analysis), first-order ambisonics (family 2).
 * For every frame three twin encoders (created and configured identically) get x as opus_int16, 256*x as opus_int32 and
 * x/32768 as float (both conversions are exact).  Oracle (statement only): equal return values, byte-identical packets and
 * equal OPUS_GET_FINAL_RANGE on every frame.  Inputs and outputs live in exact-size heap blocks (ASan build).
 * Nothing is sampled; VERIF_SEED only rotates the item order.
 */
#include <stdlib.h>
#include <string.h>
#include <stdio.h>
#include "opus.h"
#include "opus_multistream.h"
#include "mc.h"
#include "signals.h"

#ifndef OPUS_SET_FORCE_MODE_REQUEST
#define OPUS_SET_FORCE_MODE_REQUEST 11002
#define OPUS_SET_FORCE_MODE(x) OPUS_SET_FORCE_MODE_REQUEST, (opus_int32)(x)
#endif

/* ------------------------------------------------------------------ configuration deviations */
typedef struct { char name[64]; int n; int req[3]; int val[3]; int maxbytes; int ms_ok; } cdev;
#define MAXDEV 128
static cdev DEV[MAXDEV]; static int NDEV;
static void dev1(const char *nm,int v,int req,int ms_ok){ cdev *d=&DEV[NDEV++]; memset(d,0,sizeof *d); snprintf(d->name,sizeof d->name,nm,v); d->n=1; d->req[0]=req; d->val[0]=v; d->ms_ok=ms_ok; }
static void dev2(const char *nm,int r0,int v0,int r1,int v1,int ms_ok){ cdev *d=&DEV[NDEV++]; memset(d,0,sizeof *d); snprintf(d->name,sizeof d->name,"%s",nm); d->n=2; d->req[0]=r0; d->val[0]=v0; d->req[1]=r1; d->val[1]=v1; d->ms_ok=ms_ok; }
static void devb(int maxbytes,int ms_ok){ cdev *d=&DEV[NDEV++]; memset(d,0,sizeof *d); snprintf(d->name,sizeof d->name,"max_data_bytes=%d",maxbytes); d->maxbytes=maxbytes; d->ms_ok=ms_ok; }
static void mk_devs(void){
   static const int br[]={500,6000,10000,16000,24000,32000,48000,64000,96000,128000,256000,510000,OPUS_BITRATE_MAX};
   static const int msbr[]={0,0,0,1,0,0,0,1,0,0,1,0,1};
   static const int fd[]={OPUS_FRAMESIZE_2_5_MS,OPUS_FRAMESIZE_5_MS,OPUS_FRAMESIZE_10_MS,OPUS_FRAMESIZE_20_MS,OPUS_FRAMESIZE_40_MS,OPUS_FRAMESIZE_60_MS,OPUS_FRAMESIZE_80_MS,OPUS_FRAMESIZE_100_MS,OPUS_FRAMESIZE_120_MS};
   static const int mb[]={1,2,3,8,40,100,500,1275,4000};
   int i;
   NDEV=0;
   { cdev *d=&DEV[NDEV++]; memset(d,0,sizeof *d); snprintf(d->name,sizeof d->name,"defaults"); d->ms_ok=1; }
   for(i=0;i<13;i++) dev1(br[i]==OPUS_BITRATE_MAX?"bitrate=MAX(%d)":"bitrate=%d",br[i],OPUS_SET_BITRATE_REQUEST,msbr[i]);
   dev1("vbr=%d",0,OPUS_SET_VBR_REQUEST,1);
   dev1("vbr_constraint=%d",0,OPUS_SET_VBR_CONSTRAINT_REQUEST,1);
   for(i=0;i<=10;i++) if(i!=9) dev1("complexity=%d",i,OPUS_SET_COMPLEXITY_REQUEST,i==0||i==5||i==10);
   for(i=OPUS_BANDWIDTH_NARROWBAND;i<=OPUS_BANDWIDTH_FULLBAND;i++) dev1("bandwidth=%d",i,OPUS_SET_BANDWIDTH_REQUEST,i==OPUS_BANDWIDTH_NARROWBAND||i==OPUS_BANDWIDTH_WIDEBAND||i==OPUS_BANDWIDTH_FULLBAND);
   for(i=OPUS_BANDWIDTH_NARROWBAND;i<OPUS_BANDWIDTH_FULLBAND;i++) dev1("max_bandwidth=%d",i,OPUS_SET_MAX_BANDWIDTH_REQUEST,i==OPUS_BANDWIDTH_MEDIUMBAND);
   dev1("force_channels=%d",1,OPUS_SET_FORCE_CHANNELS_REQUEST,1);
   dev1("force_channels=%d",2,OPUS_SET_FORCE_CHANNELS_REQUEST,0);
   dev1("force_mode=%d(silk)",1000,OPUS_SET_FORCE_MODE_REQUEST,1);
   dev1("force_mode=%d(hybrid)",1001,OPUS_SET_FORCE_MODE_REQUEST,1);
   dev1("force_mode=%d(celt)",1002,OPUS_SET_FORCE_MODE_REQUEST,1);
   dev1("inband_fec=%d",1,OPUS_SET_INBAND_FEC_REQUEST,0);
   dev1("inband_fec=%d",2,OPUS_SET_INBAND_FEC_REQUEST,0);
   dev1("packet_loss=%d",10,OPUS_SET_PACKET_LOSS_PERC_REQUEST,0);
   dev1("packet_loss=%d",50,OPUS_SET_PACKET_LOSS_PERC_REQUEST,1);
   dev2("inband_fec=1+packet_loss=20",OPUS_SET_INBAND_FEC_REQUEST,1,OPUS_SET_PACKET_LOSS_PERC_REQUEST,20,1);
   dev2("inband_fec=2+packet_loss=20",OPUS_SET_INBAND_FEC_REQUEST,2,OPUS_SET_PACKET_LOSS_PERC_REQUEST,20,0);
   dev1("dtx=%d",1,OPUS_SET_DTX_REQUEST,1);
   dev2("dtx=1+force_mode=silk",OPUS_SET_DTX_REQUEST,1,OPUS_SET_FORCE_MODE_REQUEST,1000,0);
   dev1("prediction_disabled=%d",1,OPUS_SET_PREDICTION_DISABLED_REQUEST,1);
   dev1("phase_inversion_disabled=%d",1,OPUS_SET_PHASE_INVERSION_DISABLED_REQUEST,1);
   dev1("signal=%d(voice)",OPUS_SIGNAL_VOICE,OPUS_SET_SIGNAL_REQUEST,1);
   dev1("signal=%d(music)",OPUS_SIGNAL_MUSIC,OPUS_SET_SIGNAL_REQUEST,1);
   for(i=0;i<9;i++) dev1("expert_frame_duration=%d",fd[i],OPUS_SET_EXPERT_FRAME_DURATION_REQUEST,i==2||i==3);
   for(i=0;i<9;i++) devb(mb[i],mb[i]==8||mb[i]==100);
}

/* ------------------------------------------------------------------ shared state */
static const int FS[5]={8000,12000,16000,24000,48000};
static const int APP[3]={OPUS_APPLICATION_VOIP,OPUS_APPLICATION_AUDIO,OPUS_APPLICATION_RESTRICTED_LOWDELAY};
static const char *const APPN[3]={"voip","audio","lowdelay"};
static const int DUR[9]={1,2,4,8,16,24,32,40,48};            /* x 2.5 ms */
static const int NFR[9]={8,8,8,4,3,3,3,3,3};                 /* consecutive frames per run */
static unsigned sigmask=0x1ff, durmask=0x1ff; static int lsbs[16], nlsb, lsb_full_default, frscale=1;
static mc_ctr *c_nsmp,*c_states,*c_trans,*c_eval,*c_dn,*c_runs,*c_inappl,*c_errret,*c_tiny,*c_bytes;
static mc_set *S_pk,*S_nt;

typedef struct { int ms; int fs,ch,app; int layout; char base[96]; } basecfg;

typedef struct {
   void *e[3]; int ms;
} trip;
static int t_ctl(trip *t,int k,int req,int val){ return t->ms? opus_multistream_encoder_ctl((OpusMSEncoder*)t->e[k],req,val) : opus_encoder_ctl((OpusEncoder*)t->e[k],req,val); }
static opus_uint32 t_range(trip *t,int k){ opus_uint32 r=0; if(t->ms) opus_multistream_encoder_ctl((OpusMSEncoder*)t->e[k],OPUS_GET_FINAL_RANGE(&r)); else opus_encoder_ctl((OpusEncoder*)t->e[k],OPUS_GET_FINAL_RANGE(&r)); return r; }
static void t_destroy(trip *t){ int k; for(k=0;k<3;k++) if(t->e[k]){ if(t->ms) opus_multistream_encoder_destroy(t->e[k]); else opus_encoder_destroy(t->e[k]); t->e[k]=NULL; } }

/* multistream layouts */
typedef struct { const char *name; int ch, family; int streams, coupled; unsigned char map[8]; } layout_t;
static const layout_t LAY[]={
   {"mono(1 stream)",1,-1,1,0,{0}},
   {"stereo(1 coupled)",2,-1,1,1,{0,1}},
   {"dual-mono(2 streams)",2,-1,2,0,{0,1}},
   {"3ch(1 coupled+1 mono)",3,-1,2,1,{0,1,2}},
   {"4in(one ignored:0,255,1,2)",4,-1,2,1,{0,255,1,2}},
   {"surround5.1(family1)",6,1,0,0,{0}},
   {"ambisonics-foa(family2)",4,2,0,0,{0}},
   /* permuted mappings (appended): the coupled stream's left/right inputs are not channels (0,1) - the per-format analysis down-mixers
      receive the mapped channel indices (c1,c2), so every index value incl. 0 must occur in the c2 position */
   {"stereo-swapped(1 coupled:1,0)",2,-1,1,1,{1,0}},
   {"3ch-rotated(1 coupled+1 mono:1,2,0)",3,-1,2,1,{1,2,0}},
   {"3ch-rotated(1 coupled+1 mono:2,0,1)",3,-1,2,1,{2,0,1}},
   {"4ch-reversed(2 coupled:3,2,1,0)",4,-1,2,2,{3,2,1,0}},
};
#define NLAY ((int)(sizeof LAY/sizeof LAY[0]))

static int t_create(trip *t,const basecfg *b){
   int k,err=0; t->ms=b->ms; t->e[0]=t->e[1]=t->e[2]=NULL;
   for(k=0;k<3;k++){
      if(!b->ms) t->e[k]=opus_encoder_create(b->fs,b->ch,b->app,&err);
      else { const layout_t *L=&LAY[b->layout];
         if (L->family<0){ unsigned char m[8]; memcpy(m,L->map,8); t->e[k]=opus_multistream_encoder_create(b->fs,L->ch,L->streams,L->coupled,m,b->app,&err); }
         else { int s=0,c=0; unsigned char m[8]; t->e[k]=opus_multistream_surround_encoder_create(b->fs,L->ch,L->family,&s,&c,m,b->app,&err); } }
      if(!t->e[k]||err!=OPUS_OK){ t_destroy(t); return 0; }
   }
   return 1;
}

static const char *first_diff(const unsigned char *a,const unsigned char *b,int n){
   static char s[200]; int i; for(i=0;i<n;i++) if(a[i]!=b[i]) break;
   if(i==n){ snprintf(s,sizeof s,"(no byte differs)"); return s; }
   snprintf(s,sizeof s,"first difference at byte %d: %s vs %s",i,mc_hex(a+i,n-i<12?n-i:12),mc_hex(b+i,n-i<12?n-i:12)); return s;
}


/* ------------------------------------------------------------------ derived int16 signals for the depth grid (mode depth / msdepth)
 * Everything in the encoder that reads lsb_depth decides on LOW-LEVEL content: is_digital_silence (peak <= 2^-lsb_depth), the
 * analysis noise floor (5.7e-4 / 2^(lsb_depth-8)) that drives bandwidth detection, and CELT's dynalloc floor.  So each family
 * is also generated attenuated by 20/40/60 dB, band-limited (8th-order Butterworth low-pass at 2/4/8 kHz, computed in double
 * and rounded to int16, so the upper bands hold nothing but 16-bit rounding noise), and as near-silence patterns whose peak
 * sits on the is_digital_silence thresholds of LSB depth 16/12/8 (1, 8|9, 128|129 LSB). */
typedef struct { int fam; int att_db; int lp_hz; int special; char name[72]; } sigspec;
typedef struct { siggen g; const sigspec *sp; int ch; double gain; double b0[4],b1[4],b2[4],a1[4],a2[4]; double z[8][4][2]; long n; uint32_t lcg; } xgen;
static void xg_init(xgen *x,const sigspec *sp,int fs,int ch){
   static const double Q[4]={0.50979558,0.60134489,0.89997622,2.56291545}; int k;
   memset(x,0,sizeof *x); x->sp=sp; x->ch=ch; x->gain=pow(10.0,-sp->att_db/20.0); x->lcg=12345u+sp->special;
   sig_init(&x->g,sp->fam,fs,ch,(uint32_t)(sp->fam+1));
   if(sp->lp_hz>0&&sp->lp_hz*2<fs){ double w=2*M_PI*sp->lp_hz/fs,cs=cos(w),sn=sin(w);
      for(k=0;k<4;k++){ double al=sn/(2*Q[k]),a0=1+al; x->b0[k]=(1-cs)/2/a0; x->b1[k]=(1-cs)/a0; x->b2[k]=(1-cs)/2/a0; x->a1[k]=-2*cs/a0; x->a2[k]=(1-al)/a0; } }
}
static void xg_gen(xgen *x,opus_int16 *out,int fsz){
   const sigspec *sp=x->sp; int i,c,k,ch=x->ch;
   if(sp->special){
      for(i=0;i<fsz;i++){ long n=x->n++; int v=0;
         switch(sp->special){
         case 1: v=(n&1)?1:-1; break;                               /* +-1 LSB at Nyquist */
         case 2: v=(n%100==50)?1:0; break;                          /* a lone 1-LSB tick */
         case 3: x->lcg=x->lcg*1664525u+1013904223u; v=(int)((x->lcg>>24)%3)-1; break;   /* {-1,0,1} dither */
         default: { int A=sp->special; v=((n/32)&1)?A:-A; } break;  /* square of amplitude A LSB (8,9,128,129) */
         }
         for(c=0;c<ch;c++) out[i*ch+c]=(opus_int16)((c&1)?-v:v); }
      return;
   }
   sig_gen(&x->g,out,fsz);
   if(sp->att_db==0&&sp->lp_hz==0) return;
   for(i=0;i<fsz;i++) for(c=0;c<ch;c++){ double v=out[i*ch+c];
      if(sp->lp_hz>0&&x->b0[0]!=0) for(k=0;k<4;k++){ double *z=x->z[c][k]; double y=x->b0[k]*v+z[0]; z[0]=x->b1[k]*v-x->a1[k]*y+z[1]; z[1]=x->b2[k]*v-x->a2[k]*y; v=y; }
      out[i*ch+c]=(opus_int16)sig_clip16(v*x->gain); }
}
#define MAXSPEC 96
static sigspec SPEC[MAXSPEC]; static int NSPEC;
static void add_spec(int fam,int att,int lp,int special){ sigspec *q=&SPEC[NSPEC++]; q->fam=fam; q->att_db=att; q->lp_hz=lp; q->special=special;
   if(special) snprintf(q->name,sizeof q->name,special==1?"near-silence +-1 LSB alternating":special==2?"near-silence lone 1-LSB ticks":special==3?"near-silence {-1,0,1} dither":"near-silence square +-%d LSB",special);
   else if(lp) snprintf(q->name,sizeof q->name,"%s -%d dB low-pass %d Hz",sig_name[fam],att,lp);
   else snprintf(q->name,sizeof q->name,"%s -%d dB",sig_name[fam],att); }
static void mk_specs(int full){
   static const int fams_full[8]={SIG_SQUARE,SIG_NOISE,SIG_MULTITONE,SIG_SWEEP,SIG_SPEECH,SIG_BANDNOISE,SIG_CLICKS,SIG_STEREOPAN};
   static const int fams_q[5]={SIG_NOISE,SIG_MULTITONE,SIG_SWEEP,SIG_SPEECH,SIG_BANDNOISE};
   static const int lps[3]={2000,4000,8000}, lpf[3]={SIG_NOISE,SIG_MULTITONE,SIG_SPEECH}, sp[7]={1,2,3,8,9,128,129};
   int i,a,l; NSPEC=0;
   for(i=0;i<(full?8:5);i++) for(a=(full?0:20);a<=60;a+=20) add_spec(full?fams_full[i]:fams_q[i],a,0,0);
   for(i=0;i<3;i++) for(l=0;l<3;l++){ add_spec(lpf[i],20,lps[l],0); if(full) add_spec(lpf[i],40,lps[l],0); }
   for(i=0;i<7;i++) add_spec(SIG_SILENCE,0,0,sp[i]);
}

/* one run: twin-triplet encoders, consecutive frames of one signal at one duration */
static void run_seq(const basecfg *b,const cdev *d,int lsb,int sig,int di,const sigspec *sp,int nfr_over){
   trip T; int k,f,ch=b->ch,fsz=b->fs/400*DUR[di],nfr=nfr_over?nfr_over:NFR[di]*frscale,maxb=d->maxbytes?d->maxbytes:(b->ms?6000:1500),j;
   siggen g; xgen xg; const char *sname=sp?sp->name:sig_name[sig]; opus_int16 *a; opus_int32 *x24; float *xf; unsigned char *p[3]; int n[3]; opus_uint32 rng[3];
   static const char *const fmt[3]={"int16","int24","float"};
   if(!t_create(&T,b)){ mc_fail(b->ms?"ms_encoder_create_failed":"encoder_create_failed","base %s",b->base); return; }
   for(j=0;j<d->n;j++){ int r0=t_ctl(&T,0,d->req[j],d->val[j]),r1=t_ctl(&T,1,d->req[j],d->val[j]),r2=t_ctl(&T,2,d->req[j],d->val[j]);
      if(r0!=r1||r0!=r2){ mc_fail("ctl_differs_between_twins","base %s dev %s: %d %d %d",b->base,d->name,r0,r1,r2); t_destroy(&T); return; }
      if(r0!=OPUS_OK){ MC_INC(c_inappl); t_destroy(&T); return; } }     /* setting rejected for this base: vector equals another one */
   for(k=0;k<3;k++) if(t_ctl(&T,k,OPUS_SET_LSB_DEPTH_REQUEST,lsb)!=OPUS_OK){ mc_fail("set_lsb_depth_rejected","base %s lsb %d",b->base,lsb); t_destroy(&T); return; }
   a=malloc(sizeof(opus_int16)*fsz*ch); x24=malloc(sizeof(opus_int32)*fsz*ch); xf=malloc(sizeof(float)*fsz*ch);
   for(k=0;k<3;k++) p[k]=malloc(maxb);
   if(sp) xg_init(&xg,sp,b->fs,ch); else sig_init(&g,sig,b->fs,ch,(uint32_t)(sig+1));
   MC_INC(c_runs);
   for(f=0;f<nfr;f++){
      int bad=0; const char *pair=NULL,*what=NULL; int ka=0,kb=0,fa=0,fb=1;
      if(sp) xg_gen(&xg,a,fsz); else sig_gen(&g,a,fsz);
      for(j=0;j<fsz*ch;j++){ x24[j]=(opus_int32)a[j]*256; xf[j]=(float)a[j]/32768.f; }
      for(k=0;k<3;k++) memset(p[k],0xA0+k,maxb);
      mc_case(b->ms?"ms_encode_triplet":"encode_triplet","base %s dev %s lsb_depth %d signal %s duration %g ms frame %d (frame_size %d, max_data_bytes %d)",b->base,d->name,lsb,sname,DUR[di]*2.5,f,fsz,maxb);
      if(!b->ms){
         n[0]=opus_encode((OpusEncoder*)T.e[0],a,fsz,p[0],maxb);
         n[1]=opus_encode24((OpusEncoder*)T.e[1],x24,fsz,p[1],maxb);
         n[2]=opus_encode_float((OpusEncoder*)T.e[2],xf,fsz,p[2],maxb);
      } else {
         n[0]=opus_multistream_encode((OpusMSEncoder*)T.e[0],a,fsz,p[0],maxb);
         n[1]=opus_multistream_encode24((OpusMSEncoder*)T.e[1],x24,fsz,p[1],maxb);
         n[2]=opus_multistream_encode_float((OpusMSEncoder*)T.e[2],xf,fsz,p[2],maxb);
      }
      for(k=0;k<3;k++) rng[k]=t_range(&T,k);
      MC_ADD(c_trans,3); MC_INC(c_eval);
      for(ka=0;ka<2&&!bad;ka++) for(kb=ka+1;kb<3&&!bad;kb++){
         if(n[ka]!=n[kb]){ bad=1; what="return"; }
         else if(n[ka]>0&&memcmp(p[ka],p[kb],n[ka])){ bad=1; what="bytes"; }
         else if(n[ka]>0&&rng[ka]!=rng[kb]){ bad=1; what="final_range"; }
         if(bad){ static char pr[32]; snprintf(pr,sizeof pr,"%s_vs_%s",fmt[ka],fmt[kb]); pair=pr; fa=ka; fb=kb; break; }
      }
      ka=fa; kb=fb;
      if(bad){
         char sg[96]; int m; snprintf(sg,sizeof sg,"%s_packets_differ:%s:%s",b->ms?"ms_encode":"encode",pair,what);
         m=n[ka]<n[kb]?n[ka]:n[kb];
         mc_fail(sg,"base %s dev %s lsb_depth %d signal %s duration %g ms frame %d: returns int16=%d int24=%d float=%d, final ranges %08x %08x %08x; %s; %s packet head %s",
                 b->base,d->name,lsb,sname,DUR[di]*2.5,f,n[0],n[1],n[2],rng[0],rng[1],rng[2],m>0?first_diff(p[ka],p[kb],m):"",fmt[ka],n[ka]>0?mc_hex(p[ka],n[ka]<24?n[ka]:24):"-");
         break;
      }
      if(n[0]<0){ MC_INC(c_errret); }
      else {
         uint64_t h=mc_mix(mc_hash(p[0],n[0],n[0]),rng[0]); MC_ADD(c_bytes,n[0]);
         if(mc_set_add(S_pk,h)){ MC_INC(c_states);
            if(n[0]>2*(b->ms?8:1)){ MC_INC(c_dn);
               if(mc_set_add(S_nt,mc_mix(mc_mix(b->ms*64+b->layout*8+(b->fs/8000),sp?100+(int)(sp-SPEC):sig),(p[0][0]>>3)*16+di)))
                  if(MC_INC(c_nsmp)<3) mc_sample("%s base %s dev %s lsb_depth %d signal %s duration %g ms frame %d: int16/int24/float packets byte-identical, len %d, final range %08x, head %s",b->ms?"multistream":"encoder",b->base,d->name,lsb,sname,DUR[di]*2.5,f,n[0],rng[0],mc_hex(p[0],n[0]<12?n[0]:12)); }
            else MC_INC(c_tiny); }
      }
   }
   free(a); free(x24); free(xf); for(k=0;k<3;k++) free(p[k]); t_destroy(&T);
}

static basecfg *BASES; static int NBASE; static int *ITEM_B,*ITEM_D; static long NITEM;

static void item_fn(long it,void *ctx){
   const basecfg *b=&BASES[ITEM_B[it]]; const cdev *d=&DEV[ITEM_D[it]]; int li,s,di; (void)ctx;
   for(li=0;li<(ITEM_D[it]==0&&lsb_full_default?9:nlsb);li++){ int lsb=(ITEM_D[it]==0&&lsb_full_default)?8+li:lsbs[li];
      for(s=0;s<SIG_NFAM;s++) if(sigmask>>s&1) for(di=0;di<9;di++) if(durmask>>di&1) run_seq(b,d,lsb,s,di,NULL,0); }
}

/* ---- depth grid: item = (base, bitrate per channel, complexity); inside: LSB depth x derived low-level signals x long runs */
static const int DBR[5]={12000,16000,24000,32000,44000}, DCX[3]={5,7,10};
static unsigned dbrmask=0x1f, dcxmask=7, ddurmask=0x08; static int dframes20=24;
static int *DIT_B,*DIT_R,*DIT_C; static long NDIT;
static void depth_item(long it,void *ctx){
   const basecfg *b=&BASES[DIT_B[it]]; cdev d; int li,s,di; (void)ctx;
   memset(&d,0,sizeof d); d.n=2; d.req[0]=OPUS_SET_BITRATE_REQUEST; d.val[0]=DBR[DIT_R[it]]*b->ch; d.req[1]=OPUS_SET_COMPLEXITY_REQUEST; d.val[1]=DCX[DIT_C[it]]; d.ms_ok=1;
   snprintf(d.name,sizeof d.name,"bitrate=%d(%d/ch)+complexity=%d",d.val[0],DBR[DIT_R[it]],d.val[1]);
   for(li=0;li<nlsb;li++) for(s=0;s<NSPEC;s++) for(di=0;di<9;di++) if(ddurmask>>di&1){
      int nfr = di==3?dframes20 : (di<3? dframes20*4/3 : (dframes20*20/(DUR[di]*5/2)<8?8:dframes20*20/(DUR[di]*5/2)));
      run_seq(b,&d,lsbs[li],0,di,&SPEC[s],nfr); }
}

int main(int argc,char **argv){
   const char *mode; int i,d; unsigned fsmask,appmask,laymask; const char *ls;
   mc_init(argc,argv,"C13","enc");
   mode=mc_arg_s("--mode","enc"); MC.part=mc_arg_s("--part",!strcmp(mode,"ms")?"msenc":"enc");
   { int depth=!strcmp(mode,"depth")||!strcmp(mode,"msdepth"); if(depth){ dbrmask=(unsigned)mc_arg("--brs",0x1f); dcxmask=(unsigned)mc_arg("--cxs",7); ddurmask=(unsigned)mc_arg("--ddurs",0x08); dframes20=(int)mc_arg("--frames",24); mk_specs((int)mc_arg("--fullspecs",0)); } }
   sigmask=(unsigned)mc_arg("--sigs",0x1ff); durmask=(unsigned)mc_arg("--durs",0x1ff); frscale=(int)mc_arg("--frscale",1);
   fsmask=(unsigned)mc_arg("--fs",0x1f); appmask=(unsigned)mc_arg("--apps",7); laymask=(unsigned)mc_arg("--layouts",0x7ff);
   lsb_full_default=(int)mc_arg("--lsbfull",0);
   ls=mc_arg_s("--lsbs","8,12,16"); nlsb=0; { const char *q=ls; while(*q&&nlsb<16){ lsbs[nlsb++]=atoi(q); while(*q&&*q!=',') q++; if(*q==',') q++; } }
   mk_devs();
   c_states=mc_counter("states"); c_trans=mc_counter("transitions"); c_eval=mc_counter("evaluations"); c_dn=mc_counter("distinct_nontrivial");
   c_runs=mc_counter("runs"); c_nsmp=mc_counter("sample_candidates"); c_inappl=mc_counter("runs_setting_rejected_for_base"); c_errret=mc_counter("frames_all_three_return_same_error"); c_tiny=mc_counter("distinct_tiny_packets"); c_bytes=mc_counter("packet_bytes_compared");
   S_pk=mc_set_new(24); S_nt=mc_set_new(16);
   BASES=calloc(256,sizeof *BASES); NBASE=0;
   if(strcmp(mode,"ms")&&strcmp(mode,"msdepth")){ int f,c,a;
      for(f=0;f<5;f++) if(fsmask>>f&1) for(c=1;c<=2;c++) for(a=0;a<3;a++) if(appmask>>a&1){ basecfg *b=&BASES[NBASE++]; b->ms=0; b->fs=FS[f]; b->ch=c; b->app=APP[a]; b->layout=0; snprintf(b->base,sizeof b->base,"{Fs %d, %d ch, %s}",FS[f],c,APPN[a]); }
   } else { int l,f,a;
      for(l=0;l<NLAY;l++) if(laymask>>l&1) for(f=0;f<5;f++) if(fsmask>>f&1) for(a=0;a<3;a++) if(appmask>>a&1){ basecfg *b=&BASES[NBASE++]; b->ms=1; b->fs=FS[f]; b->ch=LAY[l].ch; b->app=APP[a]; b->layout=l; snprintf(b->base,sizeof b->base,"{multistream %s, Fs %d, %s}",LAY[l].name,FS[f],APPN[a]); }
   }
   if(!strcmp(mode,"depth")||!strcmp(mode,"msdepth")){ int r,c;
      DIT_B=malloc(sizeof(int)*NBASE*15); DIT_R=malloc(sizeof(int)*NBASE*15); DIT_C=malloc(sizeof(int)*NBASE*15); NDIT=0;
      for(i=0;i<NBASE;i++) for(r=0;r<5;r++) if(dbrmask>>r&1) for(c=0;c<3;c++) if(dcxmask>>c&1){ DIT_B[NDIT]=i; DIT_R[NDIT]=r; DIT_C[NDIT]=c; NDIT++; }
      mc_info("mode %s: %d bases x bitrate/ch mask %x x complexity mask %x -> %ld items; lsb depths %s; %d derived low-level signals (first: %s; last: %s); duration mask %x, %d frames per 20 ms run",mode,NBASE,dbrmask,dcxmask,NDIT,ls,NSPEC,SPEC[0].name,SPEC[NSPEC-1].name,ddurmask,dframes20);
      mc_par(NDIT,depth_item,NULL);
      mc_set_count(S_pk);
      return mc_finish();
   }
   ITEM_B=malloc(sizeof(int)*NBASE*NDEV); ITEM_D=malloc(sizeof(int)*NBASE*NDEV); NITEM=0;
   for(i=0;i<NBASE;i++) for(d=0;d<NDEV;d++){ if(BASES[i].ms&&!DEV[d].ms_ok) continue; ITEM_B[NITEM]=i; ITEM_D[NITEM]=d; NITEM++; }
   mc_info("mode %s: %d bases x %d deviations -> %ld items; lsb depths %s%s; signal mask %x; duration mask %x; frames per run x%d",mode,NBASE,NDEV,NITEM,ls,lsb_full_default?" (8..16 for the default vector)":"",sigmask,durmask,frscale);
   mc_par(NITEM,item_fn,NULL);
   mc_set_count(S_pk);
   return mc_finish();
}
