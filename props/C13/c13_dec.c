/* C13 (decoder relations) — "The 24-bit decoder output equals the float output scaled by 2^23 and rounded to nearest, and the
 * 16-bit output equals the float output passed through the library's soft clipper, scaled by 2^15, rounded and saturated; all
 * three report the same sample count and final range.  The multistream API obeys the same relations stream by stream; the
 * projection API's 16-bit output tracks its float output to within the rounding of the matrix products and saturates, never
 * wraps, at the 16-bit limits."
 *
 * All packets are RECEIVED packets (no PLC / FEC calls: those bypass the soft clipper and are not part of this relation) and
 * come from the FROZEN reference encoder (mc/corpus.h alphabet: SILK/hybrid/CELT x bandwidths x durations x mono/stereo, FEC,
 * DTX, CBR, mode transitions, multi-frame, re-framed, padded, extension-bearing) PLUS loud streams built here with the frozen
 * float encoder: near-full-scale, full-scale and over-full-scale (peaks up to 2.0 and beyond) sines, squares, noise, clicks,
 * so that the soft clipper, the 16-bit saturation and 24-bit values beyond 2^23 are really exercised (counted in the evidence).
 *
 *   mode dec   : item = stream; for every decoder (Fs in 8/12/16/24/48 kHz) x (1,2 channels): twin-triplet decoders
 *                opus_decode / opus_decode24 / opus_decode_float over the whole stream; per packet: equal return, equal final
 *                range, |pcm24[i] - 2^23*f[i]| <= 0.5 (NOT saturated), |pcm16[i] - sat16(2^15*softclip(f)[i])| <= 0.5 where
 *                softclip is the PUBLIC opus_pcm_soft_clip applied by the harness to a copy of the float frame with its own
 *                memory carried from packet to packet.
 *   mode msdec : the same through opus_multistream_decode / _decode24 / _decode_float on multistream packets of the frozen
 *                multistream encoder (5 layouts x codec modes x loudness x phase), decoder mappings: identity, reversed,
 *                and one with a duplicated and a muted (255) channel; soft clip twin with one memory per output channel.
 *   mode proj  : opus_projection_decode vs opus_projection_decode_float for every demixing matrix of an alphabet (identity,
 *                all-ones [row sums up to 6], halves, sign patterns, -32768 diagonal, tiny entries, a fixed mixed table, and
 *                the frozen encoder's own first-order-ambisonics demixing matrix), square and single-row.  With the decoded
 *                streams observed through twin multistream decoders on the same packets:
 *                  clean frame (no stream sample outside [-1,1] and the soft-clip twin changes nothing):
 *                       |pcm16 - clamp16(2^15 * float)| <= B,  B = sum over non-zero entries (0.5 + |m|/32768 * e) + 0.5
 *                       (e = 0.5 rounding of the stream sample to 16 bits, 1 when the sample lies above 32767/32768; 0.5 rounding
 *                       of each product; 0.5 for comparing with the unrounded float) — the rounding of the matrix products;
 *                  every frame: where the exact product of the matrix with the 16-bit stream outputs lies beyond the 16-bit
 *                       limits by more than the rounding, the output must sit at that limit ("saturates, never wraps").
 * Enumeration is exhaustive over (stream, decoder configuration[, mapping | matrix], packet); nothing is sampled.
 */
#include <stdlib.h>
#include <string.h>
#include <stdio.h>
#include <math.h>
#include "opus.h"
#include "opus_multistream.h"
#include "opus_projection.h"
#include "mc.h"
#include "corpus.h"

static corpus C;
static mc_ctr *c_nsmp2,*c_conceal,*c_dnconceal,*c_fork,*c_chains,*c_resets,*c_nsmp,*c_beyond32,*c_states,*c_trans,*c_eval,*c_dn,*c_samples,*c_clipchg,*c_sat16,*c_over24,*c_errs,*c_nonfinite;
static mc_ctr *c_pclean,*c_pdirty,*c_psat,*c_pmaxdev,*c_pmaxratio,*c_pcmp,*c_pwrap;
static mc_set *S_obs,*S_cls;
static const int FSD[5]={8000,12000,16000,24000,48000};

/* natural peak (fraction of full scale) of the mc/signals.h families on channel 0, used to scale to a target peak */
static const double NATPEAK[SIG_NFAM]={1,1.0,0.5,0.55,0.3662,0.45,0.6,0.9155,0.3662};

/* ------------------------------------------------------------------ loud single streams (frozen float encoder) */
static void loud_stream(const char *nm,int fs,int ch,int app,const ccfg *k,int sig,double peakL,double peakR,int nfr,int warm){
   int err,i,j,sid,fsz=(int)((long)fs*k->dur_x10/10000); OpusEncoder *e=ref_opus_encoder_create(fs,ch,app,&err); siggen g; short *pcm; float *xf; unsigned char out[1500];
   if(!e){ fprintf(stderr,"loud: encoder_create failed %d\n",err); exit(2); }
   sid=corpus_new_stream(&C,nm,fs,ch); C.s[sid].mode=k->mode; C.s[sid].bw=k->bw; C.s[sid].dur_x10=k->dur_x10;
   corpus_apply(e,k);
   sig_init(&g,sig,fs,ch,(uint32_t)(sid*7+1)); pcm=malloc(sizeof(short)*ch*fsz); xf=malloc(sizeof(float)*ch*fsz);
   for(i=0;i<nfr;i++){ int n; opus_uint32 rng=0;
      sig_gen(&g,pcm,fsz);
      for(j=0;j<fsz;j++){ xf[j*ch]=(float)(pcm[j*ch]/32768.0*peakL/NATPEAK[sig]); if(ch==2) xf[j*ch+1]=(float)(pcm[j*ch+1]/32768.0*peakR/NATPEAK[sig]); }
      n=ref_opus_encode_float(e,xf,fsz,out,1500);
      if(n<0){ fprintf(stderr,"loud: encode failed %d (%s)\n",n,nm); exit(2); }
      ref_opus_encoder_ctl(e,OPUS_GET_FINAL_RANGE(&rng));
      if(i>=warm) corpus_push(&C,out,n,sid,i,rng,k->dur_x10*48/10,0);
   }
   C.s[sid].n=C.n-C.s[sid].first;
   free(pcm); free(xf); ref_opus_encoder_destroy(e);
}
static void build_loud(int level){
   static const struct { const char *n; ccfg k; int app; } M[]={
      {"silk wb 20ms",{REF_MODE_SILK_ONLY,BWW,200,0,40000},OPUS_APPLICATION_VOIP},
      {"silk nb 60ms",{REF_MODE_SILK_ONLY,BWN,600,0,20000},OPUS_APPLICATION_VOIP},
      {"hybrid fb 20ms",{REF_MODE_HYBRID,BWF,200,0,64000},OPUS_APPLICATION_VOIP},
      {"hybrid swb 10ms",{REF_MODE_HYBRID,BWS,100,0,48000},OPUS_APPLICATION_VOIP},
      {"celt fb 20ms",{REF_MODE_CELT_ONLY,BWF,200,0,128000},OPUS_APPLICATION_AUDIO},
      {"celt fb 2.5ms",{REF_MODE_CELT_ONLY,BWF,25,0,160000},OPUS_APPLICATION_RESTRICTED_LOWDELAY},
      {"celt wb 10ms",{REF_MODE_CELT_ONLY,BWW,100,0,64000},OPUS_APPLICATION_AUDIO},
      {"celt nb 5ms lowrate",{REF_MODE_CELT_ONLY,BWN,50,0,24000},OPUS_APPLICATION_AUDIO},
   };
   static const struct { int sig; double peak; } L[]={ {SIG_SWEEP,0.95},{SIG_SWEEP,1.9},{SIG_SQUARE,1.0},{SIG_SQUARE,2.0},{SIG_NOISE,1.0},{SIG_NOISE,3.0},{SIG_CLICKS,2.0},{SIG_SPEECH,1.6},{SIG_MULTITONE,1.3} };
   int m,l,ch; char nm[96];
   for(ch=1;ch<=2;ch++) for(m=0;m<8;m++) for(l=0;l<9;l++){ ccfg k=M[m].k; int np=(k.dur_x10<100?10:5)*(level?2:1);
      k.bitrate*=ch;
      snprintf(nm,96,"loud %s ch%d %s peak %.2f%s",M[m].n,ch,sig_name[L[l].sig],L[l].peak,(ch==2&&(l&1))?" (right x0.25)":"");
      loud_stream(nm,48000,ch,M[m].app,&k,L[l].sig,L[l].peak,(l&1)?L[l].peak*0.25:L[l].peak,np+1,1); }
}

/* ------------------------------------------------------------------ mode dec */
static inline double clamp16(double y){ return y>32767.0?32767.0:(y<-32768.0?-32768.0:y); }

typedef struct { const unsigned char *d; int len; int kind,idx; } pref;
static int stream_seq(int sid,pref *seq,int cap){
   cstream *st=&C.s[sid]; int i,n=0;
   for(i=0;i<st->n&&n<cap;i++){ cpkt *p=&C.p[st->first+i]; seq[n].d=p->data; seq[n].len=p->len; seq[n].kind=p->kind; seq[n].idx=p->idx; n++; }
   for(i=0;i<C.n&&n<cap;i++) if(C.p[i].stream==sid&&C.p[i].kind!=0){ seq[n].d=C.p[i].data; seq[n].len=C.p[i].len; seq[n].kind=C.p[i].kind; seq[n].idx=C.p[i].idx; n++; }
   return n;
}
/* compares one decoded triple; returns 0 if a failure was recorded */
/* ---- twin triple (16-bit / 24-bit / float entry points of one decoder kind) and the soft-clip twin memory.
 * The statement does not say what happens to the soft clipper's memory across a concealment call, so after a loss the harness
 * keeps BOTH readings alive (memory carried unchanged / memory cleared) and drops a reading as soon as a received packet's
 * 16-bit output contradicts it; the check fails when no reading is left.  With a zero memory at the loss both coincide. */
typedef struct { void *d[3]; int ms,nch,fsd; float cand[2][16]; int ncand; const char *api; char ctx[300]; } T3;
static int t3_call(T3 *t,int k,const unsigned char *d,int len,void *out,int fs,int fec){
   if(!t->ms) return k==0?opus_decode(t->d[0],d,len,out,fs,fec):k==1?opus_decode24(t->d[1],d,len,out,fs,fec):opus_decode_float(t->d[2],d,len,out,fs,fec);
   return k==0?opus_multistream_decode(t->d[0],d,len,out,fs,fec):k==1?opus_multistream_decode24(t->d[1],d,len,out,fs,fec):opus_multistream_decode_float(t->d[2],d,len,out,fs,fec);
}
static opus_uint32 t3_rng(T3 *t,int k){ opus_uint32 r=0; if(t->ms) opus_multistream_decoder_ctl(t->d[k],OPUS_GET_FINAL_RANGE(&r)); else opus_decoder_ctl(t->d[k],OPUS_GET_FINAL_RANGE(&r)); return r; }
static void t3_destroy(T3 *t){ int k; for(k=0;k<3;k++) if(t->d[k]){ if(t->ms) opus_multistream_decoder_destroy(t->d[k]); else opus_decoder_destroy(t->d[k]); } }
static void t3_loss(T3 *t){ int c,nzm=0;      /* a concealment call happened: fork the memory reading if it matters */
   for(c=0;c<t->nch;c++) if(t->cand[0][c]!=0) nzm=1;
   if(t->ncand==2) memset(t->cand[1],0,sizeof t->cand[1]);
   else if(nzm){ memset(t->cand[1],0,sizeof t->cand[1]); t->ncand=2; MC_INC(c_fork); }
}
/* first sample where pcm16 is not sat16(round(2^15*sc)); -1 if none */
static int first16(const opus_int16 *o16,const float *sc,int n){ int i; for(i=0;i<n;i++){ double yc=clamp16((double)sc[i]*32768.0); if(fabs((double)o16[i]-yc)>0.5) return i; } return -1; }

/* one call issued identically to the three twins and compared.  conceal=0: received packet (full relations);
 * conceal=1: PLC / FEC call (counts, final ranges, 24-bit relation; 16-bit = plain conversion or soft-clipped reading). */
static int t3_step(T3 *t,const char *what,int pi,const pref *p,const unsigned char *data,int len,int frame_size,int fec,int conceal){
   int nch=t->nch,r16,r24,rf,i,n,ok=1; char sg[112]; long chg=0,sat=0,ov=0; int nz=0,b32=0; opus_uint32 g16,g24,gf; const char *api=t->api;
   opus_int16 *o16=malloc(sizeof(opus_int16)*frame_size*nch); opus_int32 *o24=malloc(sizeof(opus_int32)*frame_size*nch); float *of=malloc(sizeof(float)*frame_size*nch),*sc=malloc(sizeof(float)*frame_size*nch);
   if(data) mc_case_bytes(t->ms?"ms_decode_triplet":"decode_triplet",data,len<64?len:64,len,frame_size,fec*2+conceal); else mc_case(t->ms?"ms_plc_triplet":"plc_triplet","%s %s frame_size %d",t->ctx,what,frame_size);
   r16=t3_call(t,0,data,len,o16,frame_size,fec); r24=t3_call(t,1,data,len,o24,frame_size,fec); rf=t3_call(t,2,data,len,of,frame_size,fec);
   g16=t3_rng(t,0); g24=t3_rng(t,1); gf=t3_rng(t,2);
   MC_ADD(c_trans,3); MC_INC(c_eval); if(conceal) MC_INC(c_conceal);
#define WHERE "%s %s (packet %d: kind %d idx %d len %d %s.., frame_size %d, decode_fec %d)"
#define WARGS t->ctx,what,pi,p->kind,p->idx,p->len,mc_hex(p->d,p->len<16?p->len:16),frame_size,fec
   if(r16!=rf||r24!=rf){ snprintf(sg,sizeof sg,"%s%s_sample_count_differs",api,conceal?"_concealment":""); mc_fail(sg,WHERE ": 16-bit entry point returned %d, 24-bit %d, float %d",WARGS,r16,r24,rf); ok=0; goto done; }
   if(rf<0){ MC_INC(c_errs); goto done; }
   if(g16!=gf||g24!=gf){ snprintf(sg,sizeof sg,"%s%s_final_range_differs",api,conceal?"_concealment":""); mc_fail(sg,WHERE ": final range 16-bit %08x, 24-bit %08x, float %08x",WARGS,g16,g24,gf); ok=0; goto done; }
   n=rf*nch;
   for(i=0;i<n;i++){
      double f=of[i],x24;
      if(!(f==f)||f>1e30||f<-1e30){ MC_INC(c_nonfinite); continue; }
      if(f!=0) nz=1;
      x24=f*8388608.0;
      if(x24>2147483647.0||x24<-2147483648.0){   /* |f| >= 256: 2^23*f is not an int32; the only faithful value is the nearest one (saturation) */
         /* accepted: the limit itself, or (positive side) the largest float below 2^31, which is what a clamp done in float yields */
         double want=x24>0?2147483647.0:-2147483648.0; int okv=x24>0?(o24[i]>=2147483520):(o24[i]==(-2147483647-1)); MC_INC(c_beyond32);
         if(!okv && !b32++){ snprintf(sg,sizeof sg,"%s24_float_beyond_int32_range_not_saturated",api);   /* reported once per call; the other clauses stay checked */
            mc_fail(sg,WHERE " sample %d (pos %d ch %d): float %.9g -> 2^23*f = %.1f does not fit 32 bits; 24-bit output %d instead of %.0f",WARGS,i,i/nch,i%nch,f,x24,o24[i],want); }
      } else
      if(fabs((double)o24[i]-x24)>0.5){ snprintf(sg,sizeof sg,"%s24%s_not_float_times_2p23_rounded",api,conceal?"_concealment":"");
         mc_fail(sg,WHERE " sample %d (pos %d ch %d): float %.9g -> 2^23*f = %.3f but 24-bit output %d",WARGS,i,i/nch,i%nch,f,x24,o24[i]); ok=0; goto done; }
      if(x24>8388607.0||x24<-8388608.0) ov++;
   }
   if(!conceal){
      float m2[2][16]; int bad[2]={-1,-1},live=0,c,k; float scbad=0;
      for(c=0;c<t->ncand;c++){ memcpy(m2[c],t->cand[c],sizeof m2[c]); memcpy(sc,of,sizeof(float)*n); opus_pcm_soft_clip(sc,rf,nch,m2[c]); bad[c]=first16(o16,sc,n); if(bad[c]>=0&&c==0) scbad=sc[bad[c]];
         if(bad[c]<0&&!live++){ for(i=0;i<n;i++){ double y=(double)sc[i]*32768.0; if(sc[i]!=of[i]) chg++; if(y>32767.0||y<-32768.0) sat++; } } }
      if(!live){ i=bad[0]; snprintf(sg,sizeof sg,"%s16_not_softclip_scale_round_saturate_of_float%s",api,t->ncand>1?"_after_loss_under_either_memory_reading":"");
         mc_fail(sg,WHERE " sample %d (pos %d ch %d): float %.9g, public soft clip -> %.9g, x32768 = %.3f +-0.5 expected but 16-bit output %d%s",WARGS,i,i/nch,i%nch,(double)of[i],(double)scbad,(double)scbad*32768.0,o16[i],t->ncand>1?" (memory carried across the loss; the cleared-memory reading fails too)":""); ok=0; goto done; }
      for(c=0,k=0;c<t->ncand;c++) if(bad[c]<0) memcpy(t->cand[k++],m2[c],sizeof m2[c]);
      t->ncand=k; if(k==2&&!memcmp(t->cand[0],t->cand[1],sizeof(float)*nch)) t->ncand=1;
   } else {
      /* concealment: the clipper is not part of the relation.  Each sample must be the plain conversion of the float sample or its
         soft-clipped value under a live memory reading (nothing is committed). */
      float m2[16]; int c; unsigned char *okm=calloc(n?n:1,1);
      for(i=0;i<n;i++) if(fabs((double)o16[i]-clamp16((double)of[i]*32768.0))<=0.5) okm[i]=1;
      for(c=0;c<t->ncand;c++){ memcpy(m2,t->cand[c],sizeof m2); memcpy(sc,of,sizeof(float)*n); opus_pcm_soft_clip(sc,rf,nch,m2); for(i=0;i<n;i++) if(fabs((double)o16[i]-clamp16((double)sc[i]*32768.0))<=0.5) okm[i]=1; }
      for(i=0;i<n;i++){ double y=(double)of[i]*32768.0; if(y>32767.0||y<-32768.0) sat++; if(!okm[i]) break; }
      if(i<n){ snprintf(sg,sizeof sg,"%s16_concealment_neither_plain_nor_softclipped_conversion_of_float",api);
         mc_fail(sg,WHERE " sample %d (pos %d ch %d): float %.9g (x32768 = %.3f) but 16-bit output %d",WARGS,i,i/nch,i%nch,(double)of[i],(double)of[i]*32768.0,o16[i]); free(okm); ok=0; goto done; }
      free(okm); t3_loss(t);
   }
   MC_ADD(c_samples,n); MC_ADD(c_clipchg,chg); MC_ADD(c_sat16,sat); MC_ADD(c_over24,ov);
   if(nz){ uint64_t h=mc_hash(of,sizeof(float)*n,gf+conceal); if(mc_set_add(S_obs,h)){ MC_INC(c_states); MC_INC(c_dn); if(conceal) MC_INC(c_dnconceal);
      if(mc_set_add(S_cls,mc_mix(mc_hash(api,strlen(api),1+conceal*8+fec*16),mc_mix((p->d[0]>>3)*4+nch,(chg>0)*4+(sat>0)*2+(ov>0)))))
         if(MC_INC(c_nsmp)<3||(conceal&&MC_INC(c_nsmp2)<1)) mc_sample("%s: " WHERE " -> %d samples x %d ch, final range %08x; %ld samples changed by soft clip, %ld saturated at 16 bits, %ld beyond 2^23 in 24 bits; e.g. float %.7g -> 24-bit %d, 16-bit %d",api,WARGS,rf,nch,gf,chg,sat,ov,(double)of[n/2],o24[n/2],o16[n/2]); } }
done:
   free(o16); free(o24); free(of); free(sc); return ok;
}

/* loss events (deviation-bounded: <= 2 per chain).  shape 0: one packet lost, PLC for its whole duration; 1: PLC in 10 ms pieces
 * (2.5 ms pieces for shorter packets); 2,3,4: 1,2,3 consecutive packets lost and rebuilt from the NEXT packet with decode_fec=1 and
 * frame_size = the lost duration (1x, 2x, 3x), after which that packet is decoded normally. */
typedef struct { int pos,shape; } lossev;
static const char *const SHAPEN[6]={"PLC whole packet","PLC in 10 ms pieces","FEC 1x from next packet","FEC 2x from next packet","FEC 3x from next packet","OPUS_RESET_STATE before the packet"};
/* shape 5 (span 0): OPUS_RESET_STATE on all three twins before packet pos, which is then decoded normally: the 16-bit relation must hold
   with the soft-clip memory of a NEW decoder ("after OPUS_RESET_STATE ... like a newly created one"), whatever the previous frame left */
static int ev_span(const lossev *e){ return e->shape==5?0:e->shape<2?1:e->shape-1; }
static int g_lossmode=1, g_cfgmask=0x3ff;
/* runs one chain on fresh twins; returns 0 on a recorded failure */
static int run_chain(T3 *t,const pref *seq,int ns,const lossev *ev,int nev){
   int i=0,e; char what[160];
   while(i<ns){
      for(e=0;e<nev;e++) if(ev[e].pos==i) break;
      if(e<nev&&ev[e].shape==5){ int k2; for(k2=0;k2<3;k2++){ int r= t->ms? opus_multistream_decoder_ctl(t->d[k2],OPUS_RESET_STATE) : opus_decoder_ctl(t->d[k2],OPUS_RESET_STATE); if(r!=OPUS_OK){ mc_fail("reset_failed","%s reset -> %d",t->ctx,r); return 0; } }
         memset(t->cand,0,sizeof t->cand); t->ncand=1; MC_INC(c_resets); e=nev; }
      if(e<nev){ int k=ev_span(&ev[e]),j,dur=0,fs=t->fsd;
         for(j=0;j<k;j++){ int d=opus_packet_get_nb_samples(seq[i+j].d,seq[i+j].len,fs); if(d<=0) return 1; dur+=d; }
         if(ev[e].shape==0){ snprintf(what,sizeof what,"lost packet %d: %s",i,SHAPEN[0]); if(!t3_step(t,what,i,&seq[i],NULL,0,dur,0,1)) return 0; }
         else if(ev[e].shape==1){ int piece=fs/100,done=0; if(dur%piece) piece=fs/400;
            while(done<dur){ snprintf(what,sizeof what,"lost packet %d: %s (samples %d..%d of %d)",i,SHAPEN[1],done,done+piece,dur); if(!t3_step(t,what,i,&seq[i],NULL,0,piece,0,1)) return 0; done+=piece; } }
         else { if(i+k>=ns) return 1; snprintf(what,sizeof what,"lost packets %d..%d: %s",i,i+k-1,SHAPEN[ev[e].shape]); if(!t3_step(t,what,i+k,&seq[i+k],seq[i+k].d,seq[i+k].len,dur,1,1)) return 0; }
         i+=k; continue; }
      { int fs=t->fsd/25*3; snprintf(what,sizeof what,"received"); if(!t3_step(t,what,i,&seq[i],seq[i].d,seq[i].len,fs,0,0)) return 0; }
      i++;
   }
   return 1;
}
/* enumerates the chains of one (stream, decoder configuration): no loss; every single event; (lossmode 2) every pair of events
 * with one or two received packets between them.  make() creates fresh twins. */
typedef int (*mk_fn)(T3 *t,void *u);
static void all_chains(mk_fn make,void *u,const pref *seq,int ns,int npos){
   T3 t; lossev ev[2]; int p,sh,p2,sh2;
   if(!make(&t,u)) return; MC_INC(c_chains); run_chain(&t,seq,ns,NULL,0); t3_destroy(&t);
   if(!g_lossmode) return;
   for(p=0;p<npos;p++) for(sh=0;sh<6;sh++){ int ok;
      if(sh==5&&p==0) continue;
      ev[0].pos=p; ev[0].shape=sh; if(p+ev_span(&ev[0])>(sh<2?ns:ns-1)) continue;
      if(!make(&t,u)) return; MC_INC(c_chains); ok=run_chain(&t,seq,ns,ev,1); t3_destroy(&t);
      if(!ok||g_lossmode<2) continue;
      for(p2=p+ev_span(&ev[0])+1;p2<=p+ev_span(&ev[0])+2&&p2<npos;p2++) for(sh2=0;sh2<6;sh2++){
         ev[1].pos=p2; ev[1].shape=sh2; if(p2+ev_span(&ev[1])>(sh2<2?ns:ns-1)) continue;
         if(!make(&t,u)) return; MC_INC(c_chains); run_chain(&t,seq,ns,ev,2); t3_destroy(&t); }
   }
}

typedef struct { int sid,fsd,chd; } deccfg;
static int mk_dec(T3 *t,void *u){ deccfg *c=u; int k,err=0; memset(t,0,sizeof *t); t->ms=0; t->nch=c->chd; t->fsd=c->fsd; t->ncand=1; t->api="decode";
   for(k=0;k<3;k++){ t->d[k]=opus_decoder_create(c->fsd,c->chd,&err); if(!t->d[k]){ mc_fail("decoder_create_failed","Fs %d ch %d err %d",c->fsd,c->chd,err); t3_destroy(t); return 0; } }
   snprintf(t->ctx,sizeof t->ctx,"stream '%s' decoder{Fs %d, %d ch}",C.s[c->sid].name,c->fsd,c->chd); return 1; }
static void dec_item(long sid,void *u){
   pref seq[96]; int ns=stream_seq((int)sid,seq,96),fi,chd,npos=0; (void)u;
   while(npos<ns&&seq[npos].kind==0) npos++;            /* loss positions: the encoder's own packet sequence; the derived packets follow */
   for(fi=0;fi<5;fi++) for(chd=1;chd<=2;chd++) if(g_cfgmask>>(fi*2+chd-1)&1){ deccfg c; c.sid=(int)sid; c.fsd=FSD[fi]; c.chd=chd; all_chains(mk_dec,&c,seq,ns,npos); }
}

/* ------------------------------------------------------------------ multistream packet streams (frozen multistream encoder) */
typedef struct { char name[128]; int S,Cp,nsc; int np; unsigned char *pk[24]; int len[24]; int has_matrix; unsigned char matrix[64]; int mrows,mcols; } msstream;
static msstream *MS; static int NMS;
static const struct { int S,Cp; } MSL[]={ {1,1},{2,0},{2,1},{3,2},{4,2} };
static void ms_build_one(int S,int Cp,const char *mname,int mode,int bw,int dur_x10,int brch,int app,int sig,double peak,int phase,int np){
   msstream *m=&MS[NMS++]; int nsc=S+Cp,err,i,j,c,fsz=(int)(48000L*dur_x10/10000); unsigned char map[8]; OpusMSEncoder *e; siggen g; short *w; float *xf; unsigned char out[8000];
   static const char *const PH[3]={"in-phase","every 3rd channel inverted","levels 1,1/2,1/4.."};
   memset(m,0,sizeof *m); m->S=S; m->Cp=Cp; m->nsc=nsc;
   snprintf(m->name,sizeof m->name,"ms{%d streams,%d coupled} %s %s peak %.2f %s",S,Cp,mname,sig_name[sig],peak,PH[phase]);
   for(i=0;i<nsc;i++) map[i]=i;
   e=ref_opus_multistream_encoder_create(48000,nsc,S,Cp,map,app,&err); if(!e){ fprintf(stderr,"ms corpus: create failed %d\n",err); exit(2); }
   ref_opus_multistream_encoder_ctl(e,OPUS_SET_FORCE_MODE(mode)); ref_opus_multistream_encoder_ctl(e,OPUS_SET_BANDWIDTH(bw)); ref_opus_multistream_encoder_ctl(e,OPUS_SET_BITRATE(brch*nsc));
   sig_init(&g,sig,48000,1,(uint32_t)(NMS*5+3)); w=malloc(sizeof(short)*fsz); xf=malloc(sizeof(float)*fsz*nsc);
   for(i=0;i<np+1;i++){ int n;
      sig_gen(&g,w,fsz);
      for(j=0;j<fsz;j++) for(c=0;c<nsc;c++){ double gain=peak/NATPEAK[sig]; if(phase==1&&c%3==2) gain=-gain; if(phase==2) gain/= (double)(1<<c);
         xf[j*nsc+c]=(float)(w[j]/32768.0*gain); }
      n=ref_opus_multistream_encode_float(e,xf,fsz,out,sizeof out);
      if(n<0){ fprintf(stderr,"ms corpus: encode failed %d (%s)\n",n,m->name); exit(2); }
      if(i>=1){ m->pk[m->np]=malloc(n); memcpy(m->pk[m->np],out,n); m->len[m->np]=n; m->np++; }
   }
   free(w); free(xf); ref_opus_multistream_encoder_destroy(e);
}
static void ms_build_foa(int sig,double peak,int np){
   msstream *m=&MS[NMS++]; int S=0,Cp=0,err,i,j,c,fsz=960,msz=0; OpusProjectionEncoder *e; siggen g; short *w,*x; unsigned char out[8000];
   memset(m,0,sizeof *m);
   e=ref_opus_projection_ambisonics_encoder_create(48000,4,3,&S,&Cp,OPUS_APPLICATION_AUDIO,&err); if(!e){ fprintf(stderr,"foa corpus: create failed %d\n",err); exit(2); }
   m->S=S; m->Cp=Cp; m->nsc=S+Cp;
   ref_opus_projection_encoder_ctl(e,OPUS_SET_BITRATE(96000*4));
   ref_opus_projection_encoder_ctl(e,OPUS_PROJECTION_GET_DEMIXING_MATRIX_SIZE(&msz));
   if(msz<=0||msz>(int)sizeof m->matrix){ fprintf(stderr,"foa corpus: matrix size %d\n",msz); exit(2); }
   ref_opus_projection_encoder_ctl(e,OPUS_PROJECTION_GET_DEMIXING_MATRIX(m->matrix,msz)); m->has_matrix=1; m->mrows=4; m->mcols=S+Cp;
   snprintf(m->name,sizeof m->name,"projection{foa: %d streams,%d coupled, encoder's demixing matrix} celt 20ms %s peak %.2f",S,Cp,sig_name[sig],peak);
   sig_init(&g,sig,48000,1,(uint32_t)(NMS*5+3)); w=malloc(sizeof(short)*fsz); x=malloc(sizeof(short)*fsz*4);
   for(i=0;i<np+1;i++){ int n;
      sig_gen(&g,w,fsz);
      for(j=0;j<fsz;j++) for(c=0;c<4;c++){ double v=w[j]*peak/NATPEAK[sig]*(c==0?1.0:(c==1?0.7:(c==2?-0.5:0.3))); x[j*4+c]=(short)sig_clip16(v); }
      n=ref_opus_projection_encode(e,x,fsz,out,sizeof out);
      if(n<0){ fprintf(stderr,"foa corpus: encode failed %d\n",n); exit(2); }
      if(i>=1){ m->pk[m->np]=malloc(n); memcpy(m->pk[m->np],out,n); m->len[m->np]=n; m->np++; }
   }
   free(w); free(x); ref_opus_projection_encoder_destroy(e);
}
static void ms_build(int level){
   static const struct { const char *n; int mode,bw,dur,br,app; } M[]={
      {"celt fb 20ms",REF_MODE_CELT_ONLY,BWF,200,96000,OPUS_APPLICATION_AUDIO},
      {"celt fb 2.5ms",REF_MODE_CELT_ONLY,BWF,25,128000,OPUS_APPLICATION_RESTRICTED_LOWDELAY},
      {"silk wb 20ms",REF_MODE_SILK_ONLY,BWW,200,32000,OPUS_APPLICATION_VOIP},
      {"hybrid fb 20ms",REF_MODE_HYBRID,BWF,200,48000,OPUS_APPLICATION_VOIP},
      {"silk nb 60ms",REF_MODE_SILK_ONLY,BWN,600,16000,OPUS_APPLICATION_VOIP},
      {"celt wb 10ms",REF_MODE_CELT_ONLY,BWW,100,64000,OPUS_APPLICATION_AUDIO},
   };
   static const struct { int sig; double peak; } L[]={ {SIG_SWEEP,0.5},{SIG_SWEEP,0.93},{SIG_SWEEP,1.9},{SIG_SQUARE,1.0},{SIG_NOISE,0.9},{SIG_MULTITONE,0.8} };
   int l,m,s,ph,nm=level?6:4,nl=level?6:5;
   MS=calloc(5*6*6*3+16,sizeof *MS); NMS=0;
   for(l=0;l<5;l++) for(m=0;m<nm;m++) for(s=0;s<nl;s++) for(ph=0;ph<(level?3:2);ph++)
      ms_build_one(MSL[l].S,MSL[l].Cp,M[m].n,M[m].mode,M[m].bw,M[m].dur,M[m].br,M[m].app,L[s].sig,L[s].peak,ph,(M[m].dur<100?8:4)*(level?2:1));
   ms_build_foa(SIG_SWEEP,0.5,4); ms_build_foa(SIG_SWEEP,0.95,4); ms_build_foa(SIG_SQUARE,1.0,4); ms_build_foa(SIG_NOISE,1.0,4);
}

/* ------------------------------------------------------------------ mode msdec */
static int g_msfs_mask=0x15;
typedef struct { msstream *m; int fsd,v; } mscfg;
static int mk_ms(T3 *t,void *u){ mscfg *c=u; msstream *m=c->m; int i,k=0,err=0,nsc=m->nsc,nch; unsigned char map[16]; char ms[64];
   memset(t,0,sizeof *t);
   if(c->v==0){ nch=nsc; for(i=0;i<nch;i++) map[i]=i; }
   else if(c->v==1){ nch=nsc; for(i=0;i<nch;i++) map[i]=nsc-1-i; }
   else { nch=nsc+2; map[0]=0; map[1]=0; map[2]=255; for(i=3;i<nch;i++) map[i]=nsc-1-(i-3); }
   for(i=0;i<nch;i++) k+=snprintf(ms+k,sizeof ms-k,"%s%d",i?",":"",map[i]);
   t->ms=1; t->nch=nch; t->fsd=c->fsd; t->ncand=1; t->api="ms_decode";
   for(i=0;i<3;i++){ t->d[i]=opus_multistream_decoder_create(c->fsd,nch,m->S,m->Cp,map,&err); if(!t->d[i]){ mc_fail("ms_decoder_create_failed","%s mapping [%s] err %d",m->name,ms,err); t3_destroy(t); return 0; } }
   snprintf(t->ctx,sizeof t->ctx,"'%s' ms_decoder{Fs %d, mapping [%s]}",m->name,c->fsd,ms); return 1; }
static void msdec_item(long it,void *u){
   msstream *m=&MS[it]; int fi,v,i; pref seq[24]; (void)u;
   for(i=0;i<m->np;i++){ seq[i].d=m->pk[i]; seq[i].len=m->len[i]; seq[i].kind=0; seq[i].idx=i; }
   for(fi=0;fi<5;fi++) if(g_msfs_mask>>fi&1) for(v=0;v<3;v++){ mscfg c; int keep=g_lossmode; c.m=m; c.fsd=FSD[fi]; c.v=v;
      if(v==1&&g_lossmode) g_lossmode=0;              /* loss events on the identity and the duplicate/muted mapping; the reversed one stays loss-free */
      all_chains(mk_ms,&c,seq,m->np,m->np); g_lossmode=keep; }
}

/* ------------------------------------------------------------------ mode proj */
#define NMAT 10
static const char *const MATN[NMAT]={"identity(32767)","all 32767","all 16384","signs +,+,- by (row+col)%3","diag -32768","all -32768","tiny {1,-1,0}","fixed mixed table","all 32767, one row fewer than stream channels","encoder's foa demixing matrix"};
static const short MIXT[12]={32767,-20000,12345,-32768,7,25000,-1,16384,-30000,3,32000,-12000};
/* fills m[r*cols+c] (row-major for the harness); returns rows or 0 if not applicable */
static int mk_matrix(int id,const msstream *s,int *m){
   int cols=s->nsc,rows=cols,r,c;
   switch(id){
   case 0: for(r=0;r<rows;r++) for(c=0;c<cols;c++) m[r*cols+c]=(r==c)?32767:0; break;
   case 1: for(r=0;r<rows;r++) for(c=0;c<cols;c++) m[r*cols+c]=32767; break;
   case 2: for(r=0;r<rows;r++) for(c=0;c<cols;c++) m[r*cols+c]=16384; break;
   case 3: for(r=0;r<rows;r++) for(c=0;c<cols;c++) m[r*cols+c]=((r+c)%3==2)?-32767:32767; break;
   case 4: for(r=0;r<rows;r++) for(c=0;c<cols;c++) m[r*cols+c]=(r==c)?-32768:0; break;
   case 5: for(r=0;r<rows;r++) for(c=0;c<cols;c++) m[r*cols+c]=-32768; break;
   case 6: for(r=0;r<rows;r++) for(c=0;c<cols;c++) m[r*cols+c]=((r*cols+c)%3)-1; break;
   case 7: for(r=0;r<rows;r++) for(c=0;c<cols;c++) m[r*cols+c]=MIXT[(r*5+c*7)%12]; break;
   case 8: if(cols<2) return 0; rows=cols-1; for(r=0;r<rows;r++) for(c=0;c<cols;c++) m[r*cols+c]=32767; break;
   case 9: if(!s->has_matrix) return 0; rows=s->mrows; for(r=0;r<rows;r++) for(c=0;c<cols;c++){ int i=rows*c+r; int v=s->matrix[2*i+1]<<8|s->matrix[2*i]; m[r*cols+c]=((v&0xFFFF)^0x8000)-0x8000; } break;
   default: return 0; }
   return rows;
}
static long wrap16(long d){ d=(d+32768)%65536; if(d<0) d+=65536; return d-32768; }
static const char *mat_str(const int *m,int rows,int cols){ static char b[700]; int r,c,k=0; for(r=0;r<rows;r++){ k+=snprintf(b+k,sizeof b-k,"%s[",r?" ":""); for(c=0;c<cols;c++) k+=snprintf(b+k,sizeof b-k,"%s%d",c?",":"",m[r*cols+c]); k+=snprintf(b+k,sizeof b-k,"]"); } return b; }

static int g_pfs_mask=0x14;
static void proj_item(long it,void *u){
   msstream *s=&MS[it]; int fi,id,i,err,cols=s->nsc; (void)u;
   for(fi=0;fi<5;fi++) if(g_pfs_mask>>fi&1) for(id=0;id<NMAT;id++){
      int fsd=FSD[fi],maxfs=fsd/25*3,m[64],rows=mk_matrix(id,s,m),ecols=rows<cols?rows:cols,r,c,failed=0,wrapped=0; unsigned char mb[128],map[8]; float mem[8]; char ctx[300];
      OpusProjectionDecoder *p16,*pf; OpusMSDecoder *tf,*t16; opus_int16 *o16,*q; float *of,*sf,*sc;
      if(!rows) continue;
      for(r=0;r<rows;r++) for(c=0;c<cols;c++){ int i2=rows*c+r; mb[2*i2]=m[r*cols+c]&0xff; mb[2*i2+1]=(m[r*cols+c]>>8)&0xff; }
      for(c=0;c<cols;c++) map[c]=c; memset(mem,0,sizeof mem);
      p16=opus_projection_decoder_create(fsd,rows,s->S,s->Cp,mb,rows*cols*2,&err); pf=opus_projection_decoder_create(fsd,rows,s->S,s->Cp,mb,rows*cols*2,&err);
      tf=opus_multistream_decoder_create(fsd,cols,s->S,s->Cp,map,&err); t16=opus_multistream_decoder_create(fsd,cols,s->S,s->Cp,map,&err);
      if(!p16||!pf||!tf||!t16){ mc_fail("projection_decoder_create_failed","%s matrix %s rows %d cols %d err %d",s->name,MATN[id],rows,cols,err); return; }
      o16=malloc(sizeof(opus_int16)*maxfs*rows); of=malloc(sizeof(float)*maxfs*rows); q=malloc(sizeof(opus_int16)*maxfs*cols); sf=malloc(sizeof(float)*maxfs*cols); sc=malloc(sizeof(float)*maxfs*cols);
      snprintf(ctx,sizeof ctx,"'%s' projection_decoder{Fs %d, %d output ch, matrix '%s'}",s->name,fsd,rows,MATN[id]);
      for(i=0;i<s->np&&!failed;i++){ int r16,rf,rtf,rt16,j,clean=1; long nsat=0; double maxdev=0,maxratio=0;
         mc_case_bytes("projection_decode_pair",s->pk[i],s->len[i]<64?s->len[i]:64,s->len[i],fsd,id);
         r16=opus_projection_decode(p16,s->pk[i],s->len[i],o16,maxfs,0); rf=opus_projection_decode_float(pf,s->pk[i],s->len[i],of,maxfs,0);
         rtf=opus_multistream_decode_float(tf,s->pk[i],s->len[i],sf,maxfs,0); rt16=opus_multistream_decode(t16,s->pk[i],s->len[i],q,maxfs,0);
         MC_ADD(c_trans,4); MC_INC(c_eval);
         if(r16!=rf){ mc_fail("projection_sample_count_differs","%s packet %d (len %d): decode=%d decode_float=%d",ctx,i,s->len[i],r16,rf); break; }
         if(rf<0){ MC_INC(c_errs); continue; }
         if(rtf!=rf||rt16!=rf){ mc_fail("projection_vs_multistream_sample_count_differs","%s packet %d: projection %d, multistream float %d 16-bit %d",ctx,i,rf,rtf,rt16); break; }
         { opus_uint32 g16=0,gf=0; opus_projection_decoder_ctl(p16,OPUS_GET_FINAL_RANGE(&g16)); opus_projection_decoder_ctl(pf,OPUS_GET_FINAL_RANGE(&gf));
           if(g16!=gf){ mc_fail("projection_final_range_differs","%s packet %d: 16-bit %08x float %08x",ctx,i,g16,gf); break; } }
         memcpy(sc,sf,sizeof(float)*rf*cols); opus_pcm_soft_clip(sc,rf,cols,mem);
         if(memcmp(sc,sf,sizeof(float)*rf*cols)) clean=0;
         for(j=0;j<rf*cols&&clean;j++) if(!(sf[j]>=-1.f&&sf[j]<=1.f)) clean=0;
         if(clean) MC_INC(c_pclean); else MC_INC(c_pdirty);
         for(j=0;j<rf&&!failed;j++) for(r=0;r<rows;r++){
            double f=of[j*rows+r],y=32768.0*f,ideal2=0,B=0.5,B2=0.5,mag=0; int o=o16[j*rows+r]; const char *sg=NULL; double lim=0;
            for(c=0;c<ecols;c++){ int mv=m[r*cols+c]; if(mv){ double a=fabs((double)mv)/32768.0, e=(sf[j*cols+c]>32767.f/32768.f)?1.0:0.5; B+=0.5+a*e; B2+=0.5; ideal2+=(double)mv*q[j*cols+c]/32768.0; mag+=a*fabs((double)sf[j*cols+c]); } }
            B+=32768.0*mag*cols*1.2e-7;
            MC_INC(c_pcmp);
            if(clean){
               double dev=fabs((double)o-clamp16(y));
               if(dev<=B){ if(dev>maxdev) maxdev=dev; if(dev/B>maxratio) maxratio=dev/B; }
               if(y>32767.0||y<-32768.0) nsat++;
               if(dev>B){
                  int beyond=(y>32767.0+B||y<-32768.0-B);
                  /* wrap = the 16-bit value is right modulo 2^16 but is not the value: the unsaturated sum left the 16-bit range */
                  if(labs((long)o-lrint(y))>32768&&fabs((double)wrap16((long)o-lrint(y)))<=B+0.5) sg="projection16_wraps";
                  else if(beyond) sg="projection16_not_saturated_at_limit";
                  else sg="projection16_does_not_track_float";
                  lim=B;
               }
            }
            if(!sg && (ideal2>32767.0+B2||ideal2<-32768.0-B2)){
               double want=ideal2>0?32767.0:-32768.0; if(!clean) nsat++;
               if(fabs((double)o-want)>B2){ sg=(labs((long)o-lrint(ideal2))>32768&&fabs((double)wrap16((long)o-lrint(ideal2)))<=B2+0.5)?"projection16_wraps":"projection16_not_saturated_at_limit"; lim=B2; }
            }
            if(sg){ char st[400]; int k=0; for(c=0;c<cols;c++) k+=snprintf(st+k,sizeof st-k,"%s%.7g(16-bit %d)",c?", ":"",(double)sf[j*cols+c],q[j*cols+c]);
               if(!strcmp(sg,"projection16_wraps")){ MC_INC(c_pwrap); if(wrapped++) continue; }   /* reported once per run; all other samples stay checked */
               mc_fail(sg,"%s packet %d (len %d %s..) %s frame, sample %d output ch %d: matrix %s; decoded stream channels: %s; float output %.7g (x32768 = %.2f), matrix x 16-bit streams = %.2f, 16-bit output %d, allowed rounding %.2f",
                       ctx,i,s->len[i],mc_hex(s->pk[i],s->len[i]<20?s->len[i]:20),clean?"clean":"soft-clipped",j,r,mat_str(m,rows,cols),st,f,y,ideal2,o,lim);
               if(strcmp(sg,"projection16_wraps")){ failed=1; break; } }
         }
         MC_ADD(c_psat,nsat); MC_MAX(c_pmaxdev,(long)(maxdev*1000)); MC_MAX(c_pmaxratio,(long)(maxratio*1000));
         if(!failed&&!wrapped){ int nz=0; for(j=0;j<rf*rows;j++) if(of[j]!=0){ nz=1; break; }
            if(nz){ uint64_t h=mc_hash(of,sizeof(float)*rf*rows,id); if(mc_set_add(S_obs,h)){ MC_INC(c_states); MC_INC(c_dn);
               if(mc_set_add(S_cls,mc_mix(mc_mix(id,cols),mc_mix(clean,nsat>0))))
                  mc_sample("projection: %s packet %d (len %d) -> %d samples x %d ch, %s frame, %ld output samples at/over the 16-bit limits, max |16-bit - clamp(32768*float)| = %.3f (max allowed-ratio %.3f); matrix %s",ctx,i,s->len[i],rf,rows,clean?"clean":"soft-clipped",nsat,maxdev,maxratio,mat_str(m,rows,cols)); } } }
      }
      free(o16); free(of); free(q); free(sf); free(sc);
      opus_projection_decoder_destroy(p16); opus_projection_decoder_destroy(pf); opus_multistream_decoder_destroy(tf); opus_multistream_decoder_destroy(t16);
   }
}

int main(int argc,char **argv){
   const char *mode; int level;
   mc_init(argc,argv,"C13","dec");
   mode=mc_arg_s("--mode","dec"); MC.part=mc_arg_s("--part",mode);
   level=(int)mc_arg("--level",MC.tier);
   c_states=mc_counter("states"); c_trans=mc_counter("transitions"); c_eval=mc_counter("evaluations"); c_dn=mc_counter("distinct_nontrivial");
   c_errs=mc_counter("packets_all_return_same_error"); c_nsmp=mc_counter("sample_candidates");
   S_obs=mc_set_new(24); S_cls=mc_set_new(14);
   if(!strcmp(mode,"dec")||!strcmp(mode,"msdec")){
      c_samples=mc_counter("samples_compared"); c_clipchg=mc_counter("samples_changed_by_soft_clip"); c_sat16=mc_counter("samples_saturated_16bit"); c_over24=mc_counter("samples_beyond_2p23_in_24bit"); c_nonfinite=mc_counter("samples_nonfinite_skipped"); c_beyond32=mc_counter("samples_float_beyond_int32_in_24bit"); c_conceal=mc_counter("concealment_calls_compared"); c_dnconceal=mc_counter("distinct_nontrivial_concealment_outputs"); c_fork=mc_counter("losses_with_nonzero_softclip_memory"); c_chains=mc_counter("chains"); c_resets=mc_counter("resets_inside_chains"); c_nsmp2=mc_counter("sample_candidates_concealment");
      g_lossmode=(int)mc_arg("--loss",1); g_cfgmask=(int)mc_arg("--cfgs",0x3ff);
   }
   if(!strcmp(mode,"dec")){
      corpus_build(&C,level); corpus_add_reframed(&C); build_loud(level);
      mc_info("dec: %d streams, %d packets (corpus level %d + re-framed/padded/extension variants + loud streams)",C.ns,C.n,level);
      mc_par(C.ns,dec_item,NULL);
   } else if(!strcmp(mode,"msdec")){
      g_msfs_mask=(int)mc_arg("--fs",level?0x1f:0x15);
      ms_build(level);
      mc_info("msdec: %d multistream packet streams; decoder Fs mask %x; 3 mappings",NMS,g_msfs_mask);
      mc_par(NMS,msdec_item,NULL);
   } else {
      c_pclean=mc_counter("proj_clean_frames"); c_pdirty=mc_counter("proj_soft_clipped_frames"); c_psat=mc_counter("proj_output_samples_at_or_over_16bit_limits");
      c_pcmp=mc_counter("proj_output_samples_compared"); c_pmaxdev=mc_counter("proj_max_tracking_deviation_milli_lsb"); c_pmaxratio=mc_counter("proj_max_deviation_over_bound_milli"); c_pwrap=mc_counter("proj_wrapped_samples");
      g_pfs_mask=(int)mc_arg("--fs",level?0x1f:0x14);
      ms_build(level);
      mc_info("proj: %d multistream packet streams x %d matrices; decoder Fs mask %x",NMS,NMAT,g_pfs_mask);
      mc_par(NMS,proj_item,NULL);
   }
   mc_set_count(S_obs);
   return mc_finish();
}
