/* F2 reproduction: needs only libopus. cc repro_f2.c -I$REPO/include libopus.a -lm */
#include <stdio.h>
#include <math.h>
#include "opus_multistream.h"
#include "opus_projection.h"
int main(void){
   int err,i,n,r16,rf,bad=0; unsigned char map[2]={0,1},pkt[1500];
   unsigned char matrix[8]={0xff,0x7f,0xff,0x7f,0xff,0x7f,0xff,0x7f};        /* 2x2, every entry 32767 (Q15 ~ 1.0), little endian */
   short in[960*2],o16[960*2]; float of[960*2];
   OpusMSEncoder *e=opus_multistream_encoder_create(48000,2,1,1,map,OPUS_APPLICATION_AUDIO,&err);
   OpusProjectionDecoder *d16=opus_projection_decoder_create(48000,2,1,1,matrix,8,&err),*df=opus_projection_decoder_create(48000,2,1,1,matrix,8,&err);
   opus_multistream_encoder_ctl(e,OPUS_SET_BITRATE(128000));
   for(n=0;n<3;n++){
      for(i=0;i<960;i++) in[2*i]=in[2*i+1]=(short)lrint(23000*sin(2*M_PI*1000*(n*960+i)/48000.));   /* -3 dBFS, both channels in phase */
      int len=opus_multistream_encode(e,in,960,pkt,1500);
      r16=opus_projection_decode(d16,pkt,len,o16,960,0); rf=opus_projection_decode_float(df,pkt,len,of,960,0);
      for(i=0;i<rf*2;i++) if((of[i]>1.001f&&o16[i]<0)||(of[i]<-1.001f&&o16[i]>0)){ if(bad++<3) printf("frame %d sample %d: float %.4f (x32768 = %.0f) but 16-bit %d\n",n,i,of[i],of[i]*32768,o16[i]); }
   }
   printf("%d of %d output samples have the wrong sign (wrapped) [counts %d %d]\n",bad,3*960*2,r16,rf); return bad!=0;
}
