/* F6 at gain 0: a received stream that repeats one 2.5 ms CELT packet drives the inter-frame energy prediction up; once |float| >= 256, opus_decode24 returns INT_MIN for positive samples */
#include <stdio.h>
#include <math.h>
#include "opus.h"
int main(void){
   int err,i,n,len=0,bad=0; unsigned char pkt[1500]; short in[120]; opus_int32 o24[120]; float of[120];
   OpusEncoder *e=opus_encoder_create(48000,1,OPUS_APPLICATION_RESTRICTED_LOWDELAY,&err);
   OpusDecoder *d24=opus_decoder_create(48000,1,&err),*df=opus_decoder_create(48000,1,&err);
   opus_encoder_ctl(e,OPUS_SET_BITRATE(64000));
   for(n=0;n<4;n++){ for(i=0;i<120;i++) in[i]=(short)lrint(20000*sin(2*M_PI*1000*(n*120+i)/48000.)); len=opus_encode(e,in,120,pkt,1500); }
   for(n=0;n<40;n++){ double mx=0;
      int r24=opus_decode24(d24,pkt,len,o24,120,0), rf=opus_decode_float(df,pkt,len,of,120,0);
      for(i=0;i<rf;i++){ if(fabs(of[i])>mx) mx=fabs(of[i]); if(of[i]>=256.f&&o24[i]<0){ if(bad++<3) printf("repeat %d sample %d: float %.3f -> 24-bit %d\n",n,i,of[i],o24[i]); } }
      if(n%5==4) printf("repeat %d: peak |float| = %.3f (counts %d %d)\n",n,mx,r24,rf);
   }
   printf("%d positive samples came out as negative 24-bit values\n",bad); return bad!=0;
}
