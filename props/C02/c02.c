/* C02 — every encoded packet is valid and decodes in lock-step with the encoder.
 *
 * Deviation-bounded enumeration (DESIGN §3.2 E2 / §3.4 / §4 C02) of the REAL encoders, decoders and the frozen
 * reference decoder:
 *
 *   base      = (Fs in {8,12,16,24,48} kHz) x (channels 1,2) x (application VOIP, AUDIO, RESTRICTED_LOWDELAY)   -> 30
 *   vector    = 18 dimensions: bitrate, VBR, CVBR, complexity, bandwidth, max-bandwidth, force-channels, force-mode,
 *               FEC, loss%, DTX, LSB depth, prediction-disabled, phase-inversion-disabled, frame duration (2.5..120 ms),
 *               expert-frame-duration ctl, signal type, max_data_bytes; each with a default and an alphabet of
 *               non-default values ("singles"); "<=k deviations" = all vectors differing from the defaults in <=k dims.
 *   --mode grid : every base x every vector with <=k deviations x every signal family x F consecutive frames;
 *                 entry points opus_encode / opus_encode24 / opus_encode_float rotate so every vector meets each of them.
 *   --mode exc  : like hist, but B is a ONE-frame excursion: A x3 frames, B x1 (--excb) frame, back to A x3 (--excc) frames - a transient
 *                 in the caller's settings (a pinched buffer, one frame at another rate / duration / mode) leaves encoder and decoders in
 *                 states that no monotone history reaches (e.g. the encoder remembers a mode the decoders never saw)
 *   --mode tri  : three-segment histories A x3 -> B x2 -> C x3 over ALL ordered triples (B != A, C != B; C == A allowed) of <=1-deviation
 *                 vectors from the decision-relevant sub-alphabet T (bitrate, bandwidth, max-bandwidth, channels, mode, duration, buffer, VBR,
 *                 signal hint, ...): encoder and decoders are snapshotted after A and again after A->B, so a mode / bandwidth / channel
 *                 decision that depends on TWO earlier settings (hysteresis, pending transitions, redundancy) is met from every such pair
 *   --mode hist : every base x every ordered pair (A,B) of <=1-deviation vectors: A for 3 frames, then the settings are
 *                 changed to B (A's dimension back to its default, B's deviation set; with --stack 1 also B on top of A)
 *                 for 4 frames.  The state after the A prefix (encoder + all decoders) is snapshotted by memcpy of
 *                 *_get_size() bytes and restored for every B, so prefixes are not re-run.
 *   --mode ms   : multistream layouts with <=3 streams (plain, surround family 1) and projection encoders (ambisonics
 *                 orders 1-3, family 3) x Fs x application x <=1 deviation x signal families.
 *
 * Oracle (from the statement only), per encode call with valid arguments:
 *   E1  max_data_bytes>=2 (or ==1 unless the frame is 100 ms): return value > 0 and <= max_data_bytes; for 1 byte + 100 ms
 *       the call is refused (negative, not OPUS_INTERNAL_ERROR).  Never OPUS_INTERNAL_ERROR.  (Multistream: "two bytes"
 *       is read per stream: 2*streams, 3*streams for 100 ms; below that refusal or success are both allowed.)
 *   E2  the RFC 6716 framing model (mc/rfc_framing.h) accepts the packet (multistream: stream by stream, Appendix B).
 *   E3  announced duration (frame count x Table-2 duration of the TOC) == submitted frame size; opus_packet_get_nb_samples agrees.
 *   D1  every decoder (tree decoders at 5 rates x 2 channel counts through opus_decode / opus_decode24 / opus_decode_float,
 *       frozen reference decoder ref_opus_decode*) returns exactly frame_size*Fs_dec/Fs_enc samples into an exact-size buffer.
 *   D2  OPUS_GET_FINAL_RANGE of every decoder == the encoder's after that packet (multistream: also stream by stream).
 *   M   no ASan report, hardening abort, crash or CPU-watchdog hit (exact-size heap blocks for PCM in, packet, PCM out).
 *
 * states = distinct hashes of the encoder image after each encode; transitions = encode calls.
 * No sampling: VERIF_SEED only rotates the order of items.
 */
#define _GNU_SOURCE
#include <stdlib.h>
#include <string.h>
#include <stdio.h>
#include <math.h>
#include "opus.h"
#include "opus_multistream.h"
#include "opus_projection.h"
#include "mc.h"
#include "rfc_framing.h"
#include "signals.h"
#include "ref_api.h"

/* keep the per-worker footprint small on a shared box: every encode/decode uses fresh exact-size heap blocks (that is what puts ASan
 * redzones right behind them), so the default 256 MB free-quarantine per process is pure overhead here */
const char *__asan_default_options(void){ return "quarantine_size_mb=24"; }

int ref_opus_multistream_decode24(OpusMSDecoder *st,const unsigned char *data,opus_int32 len,opus_int32 *pcm,int frame_size,int decode_fec);

/* ------------------------------------------------------------------ alphabets */
static const int FS[5]={8000,12000,16000,24000,48000};
static const int APP[3]={OPUS_APPLICATION_VOIP,OPUS_APPLICATION_AUDIO,OPUS_APPLICATION_RESTRICTED_LOWDELAY};
static const char *const APPN[3]={"voip","audio","lowdelay"};
static const int DUR48[9]={120,240,480,960,1920,2880,3840,4800,5760};
static const char *const DURN[9]={"2.5ms","5ms","10ms","20ms","40ms","60ms","80ms","100ms","120ms"};

enum { D_BITRATE, D_VBR, D_CVBR, D_CX, D_BW, D_MAXBW, D_FCH, D_MODE, D_FEC, D_LOSS, D_DTX, D_LSB, D_NOPRED, D_NOINV, D_SIGNAL, D_EXPERT, D_DUR, D_MDB, NDIM };
#define NCTL D_EXPERT   /* dims [0,NCTL) are plain "request, int" ctls */
typedef struct { const char *name; int req; int dflt; } dimdef;
static const dimdef DIM[NDIM]={
 {"bitrate",OPUS_SET_BITRATE_REQUEST,OPUS_AUTO},{"vbr",OPUS_SET_VBR_REQUEST,1},{"cvbr",OPUS_SET_VBR_CONSTRAINT_REQUEST,1},
 {"complexity",OPUS_SET_COMPLEXITY_REQUEST,9},{"bandwidth",OPUS_SET_BANDWIDTH_REQUEST,OPUS_AUTO},{"maxbw",OPUS_SET_MAX_BANDWIDTH_REQUEST,OPUS_BANDWIDTH_FULLBAND},
 {"forcech",OPUS_SET_FORCE_CHANNELS_REQUEST,OPUS_AUTO},{"forcemode",OPUS_SET_FORCE_MODE_REQUEST,OPUS_AUTO},{"fec",OPUS_SET_INBAND_FEC_REQUEST,0},
 {"loss",OPUS_SET_PACKET_LOSS_PERC_REQUEST,0},{"dtx",OPUS_SET_DTX_REQUEST,0},{"lsb",OPUS_SET_LSB_DEPTH_REQUEST,24},
 {"nopred",OPUS_SET_PREDICTION_DISABLED_REQUEST,0},{"noinv",OPUS_SET_PHASE_INVERSION_DISABLED_REQUEST,0},{"signal",OPUS_SET_SIGNAL_REQUEST,OPUS_AUTO},
 {"expert",OPUS_SET_EXPERT_FRAME_DURATION_REQUEST,0},{"dur",0,3},{"mdb",0,1500}};

typedef struct { int dim, val; } single;
#define MAXS 128
static single SG[MAXS]; static int NS;
static void add(int dim,int val){ SG[NS].dim=dim; SG[NS].val=val; NS++; }
static void addv(int dim,const int *v,int n){ int i; for(i=0;i<n;i++) add(dim,v[i]); }
#define ADDV(dim,...) do{ static const int v_[]={__VA_ARGS__}; addv(dim,v_,(int)(sizeof v_/sizeof v_[0])); }while(0)
static void build_alphabet(int full){
   NS=0;
   if (full) ADDV(D_BITRATE,500,2400,6000,9000,12000,16000,24000,32000,64000,128000,510000,OPUS_BITRATE_MAX);
   else      ADDV(D_BITRATE,500,6000,12000,16000,24000,32000,64000,510000,OPUS_BITRATE_MAX);
   add(D_VBR,0); add(D_CVBR,0);
   if (full) ADDV(D_CX,0,2,5,7,10); else ADDV(D_CX,0,5,10);
   ADDV(D_BW,OPUS_BANDWIDTH_NARROWBAND,OPUS_BANDWIDTH_MEDIUMBAND,OPUS_BANDWIDTH_WIDEBAND,OPUS_BANDWIDTH_SUPERWIDEBAND,OPUS_BANDWIDTH_FULLBAND);
   ADDV(D_MAXBW,OPUS_BANDWIDTH_NARROWBAND,OPUS_BANDWIDTH_MEDIUMBAND,OPUS_BANDWIDTH_WIDEBAND,OPUS_BANDWIDTH_SUPERWIDEBAND);
   ADDV(D_FCH,1,2);
   ADDV(D_MODE,REF_MODE_SILK_ONLY,REF_MODE_HYBRID,REF_MODE_CELT_ONLY);
   ADDV(D_FEC,1,2);
   if (full) ADDV(D_LOSS,1,10,50,100); else ADDV(D_LOSS,10,50);
   add(D_DTX,1);
   if (full) ADDV(D_LSB,8,12,16,20); else ADDV(D_LSB,8,16);
   add(D_NOPRED,1); add(D_NOINV,1);
   ADDV(D_SIGNAL,OPUS_SIGNAL_VOICE,OPUS_SIGNAL_MUSIC);
   add(D_EXPERT,1);
   ADDV(D_DUR,0,1,2,4,5,6,7,8);
   if (full) ADDV(D_MDB,1,2,3,4,7,12,20,37,38,60,120,300,600,1275,1276,1277);
   else      ADDV(D_MDB,1,2,3,7,20,38,60,300,1276);
}
static const char *valname(int dim,int val){
   static char b[4][24]; static int r; char *o=b[r=(r+1)&3];
   if (dim==D_DUR) return DURN[val];
   if (dim==D_MDB && val<0){ snprintf(o,24,"%d(abs)",-val); return o; }
   if (val==OPUS_AUTO) return "auto";
   if (val==OPUS_BITRATE_MAX) return "max";
   if (dim==D_BW||dim==D_MAXBW){ static const char *const n[5]={"NB","MB","WB","SWB","FB"}; return n[val-OPUS_BANDWIDTH_NARROWBAND]; }
   if (dim==D_MODE) return val==REF_MODE_SILK_ONLY?"silk":val==REF_MODE_HYBRID?"hybrid":"celt";
   if (dim==D_SIGNAL) return val==OPUS_SIGNAL_VOICE?"voice":"music";
   snprintf(o,24,"%d",val); return o;
}
static void vec_default(int *v){ int d; for(d=0;d<NDIM;d++) v[d]=DIM[d].dflt; }
static const char *vec_str(const int *v){
   static char b[2][256]; static int r; char *o=b[r^=1]; int d,k=0; o[0]=0;
   for(d=0;d<NDIM;d++) if(v[d]!=DIM[d].dflt) k+=snprintf(o+k,256-k,"%s%s=%s",k?" ":"",DIM[d].name,valname(d,v[d]));
   if(!k) snprintf(o,256,"defaults");
   return o;
}

/* ------------------------------------------------------------------ signals */
enum { H_MIX=SIG_NFAM, H_NAN, H_INF, H_BIG, H_LOUD, H_DENORM, F_VN, F_TOGGLE, NFAM_ALL };   /* F_VN: noisy voiced signal (int16, all entry points) */
static const char *famname(int f){ static const char *const h[]={"float-mix(NaN,Inf,1e10,denormal)","float-NaN","float-Inf","float-1e10","float-x200","float-denormal","noisy-voiced","channel-toggle"}; return f<SIG_NFAM?sig_name[f]:h[f-SIG_NFAM]; }
typedef struct { short *s16; opus_int32 *s24; float *f; } sigbuf;
static sigbuf SB[NFAM_ALL]; static int sb_fs=-1, sb_ch=-1; static long SBN; static int g_siglen=9, g_tight=0, g_fecmode=0;   /* signal length in tenths of a second */
static int FAMS[NFAM_ALL], NFAMS;
static void load_signals(int Fs,int ch){
   int k; long i,n;
   if (sb_fs==Fs && sb_ch==ch) return;
   SBN = (long)Fs*g_siglen/10; n=SBN*ch;                  /* default 0.9 s: 7 frames of 120 ms plus slack; the tight-budget part uses 4 s */
   for(k=0;k<NFAM_ALL;k++){ free(SB[k].s16); free(SB[k].s24); free(SB[k].f); SB[k].s16=NULL; SB[k].s24=NULL; SB[k].f=NULL; }
   for(k=0;k<NFAM_ALL;k++){
      int fam=k,used=(fam==SIG_NOISE||fam==SIG_SQUARE||fam==SIG_SPEECH),q; sigbuf *b=&SB[fam];   /* the sweeps always use noise/square/speech */
      for(q=0;q<NFAMS;q++) if(FAMS[q]==fam) used=1;
      if (g_tight) used = (fam==F_VN||fam==SIG_NOISE||fam==SIG_SPEECH||fam==SIG_MULTITONE);
      if (g_fecmode) used = (fam==F_TOGGLE||fam==SIG_SPEECH);
      if (!used) continue;
      b->f=malloc(n*sizeof(float));
      if (fam<SIG_NFAM || fam==F_VN || fam==F_TOGGLE){
         siggen g; b->s16=malloc(n*sizeof(short)); b->s24=malloc(n*sizeof(opus_int32));
         if (fam==F_VN){   /* harmonics of a slowly moving 100-180 Hz pitch under a 3 Hz envelope plus envelope-following noise: keeps SILK at its bit cap */
            uint32_t l=4711u; double ph=0; long t; int c;
            for(t=0;t<SBN;t++){ double env=0.55+0.45*sin(2*M_PI*t/(0.31*Fs)), f0=140+40*sin(2*M_PI*t/(1.7*Fs)), hv;
               ph+=2*M_PI*f0/Fs; if(ph>2*M_PI) ph-=2*M_PI; hv=5000*env*(sin(ph)+0.5*sin(2*ph)+0.35*sin(3*ph)+0.2*sin(5*ph));
               for(c=0;c<ch;c++){ double nz; l=l*1664525u+1013904223u; nz=(double)((int)((l>>16)&0x7fff)-16384)/16384.0; b->s16[t*ch+c]=(short)sig_clip16((c?0.7:1.0)*hv+(2500*env+300)*nz); } }
         } else if (fam==F_TOGGLE){
            /* channels switch activity independently on a 20 ms grid: a voice common to all channels (mid active, side silent), a left-only voice and
               a right-only voice are each gated on/off for 1-3 segments of 20 ms (LCG), so 40/60 ms packets contain 20 ms frames in which the
               mid and side channels (or the one mono channel) differ in activity from their neighbours */
            uint32_t l=90210u; double ph[3]={0,0,0}, gate[3]={0,0,0}; int on[3]={1,0,0}, hold[3]={0,0,0}; long t, seg=Fs/50; int c,q;
            static const double F0[3]={130,225,170}, W[3]={0.37,0.53,0.71};
            for(t=0;t<SBN;t++){
               double vv[3];
               if (t%seg==0) for(q=0;q<3;q++) if (hold[q]--<=0){ l=l*1664525u+1013904223u; on[q]=!on[q]; hold[q]=(int)((l>>16)%3); }
               for(q=0;q<3;q++){ double f0=F0[q]*(1+0.15*sin(2*M_PI*W[q]*t/Fs)), s1; ph[q]+=2*M_PI*f0/Fs; if(ph[q]>2*M_PI) ph[q]-=2*M_PI;
                  s1=sin(ph[q])+0.6*sin(2*ph[q])+0.4*sin(3*ph[q])+0.25*sin(4*ph[q])+0.15*sin(6*ph[q]); gate[q]+=((on[q]?1.0:0.0)-gate[q])*(480.0/Fs); vv[q]=gate[q]*s1; }
               for(c=0;c<ch;c++){ double x=2500*vv[0]; if (ch==1) x+=5000*vv[1]; else if (c==0) x+=5500*vv[2]; else if (c==1) x+=6000*vv[1]; else x*=0.5; b->s16[t*ch+c]=(short)sig_clip16(x); }
            }
         } else { sig_init(&g,fam,Fs,ch,(uint32_t)(fam*7+1)); sig_gen(&g,b->s16,(int)SBN); }
         for(i=0;i<n;i++){ b->s24[i]=(opus_int32)b->s16[i]*256; b->f[i]=b->s16[i]*(1.f/32768); }
      } else {
         siggen g; short *t=malloc(n*sizeof(short)); long blk=Fs/86;   /* ~11.6 ms blocks */
         sig_init(&g,SIG_SPEECH,Fs,ch,99u); sig_gen(&g,t,(int)SBN);
         for(i=0;i<n;i++){
            float x=t[i]*(1.f/32768); long s=i/ch, bl=(s/blk)&3;
            switch(fam){
            case H_MIX: if(bl==1){ if(i%97==0) x=NAN; } else if(bl==2){ if(i%89==0) x=1e10f; else if(i%83==0) x=INFINITY; else if(i%79==0) x=-INFINITY; } else if(bl==3) x*=1e-39f; break;
            case H_NAN: if((bl&1) && i%211==5) x=NAN; break;
            case H_INF: if((bl&1) && i%173==7) x=(i&1)?INFINITY:-INFINITY; break;
            case H_BIG: if(bl&1) x=(x>=0?1e10f:-1e10f); break;
            case H_LOUD: x*=200.f; break;
            case H_DENORM: x*=1e-39f; break;
            }
            b->f[i]=x;
         }
         free(t);
      }
   }
   sb_fs=Fs; sb_ch=ch;
}

/* ------------------------------------------------------------------ counters */
static mc_ctr *c_trans,*c_dec,*c_runs,*c_refdec,*c_skipcfg,*c_refused,*c_empty,*c_ctlrej;
static mc_set *S_states,*S_obs;
static long *MEET;          /* [base][10 tree + 10 ref decoders]: packets decoded by that decoder for that base */
static int g_frames, g_ndec, g_k, g_stack, g_allfam, g_mink, g_split, g_sweep, g_sweepall;

/* ------------------------------------------------------------------ encoder / decoder objects */
typedef struct { int api; /*0 single,1 multistream,2 projection*/ void *st; int sz; int Fs,ch,streams,coupled; } encobj;
static int enc_ctl(encobj *e,int req,int val){
   if (e->api==0) return opus_encoder_ctl((OpusEncoder*)e->st,req,val);
   if (e->api==1) return opus_multistream_encoder_ctl((OpusMSEncoder*)e->st,req,val);
   return opus_projection_encoder_ctl((OpusProjectionEncoder*)e->st,req,val);
}
static int enc_call(encobj *e,int entry,const void *pcm,int fsz,unsigned char *out,int mdb){
   if (e->api==0) return entry==0?opus_encode(e->st,pcm,fsz,out,mdb):entry==1?opus_encode24(e->st,pcm,fsz,out,mdb):opus_encode_float(e->st,pcm,fsz,out,mdb);
   if (e->api==1) return entry==0?opus_multistream_encode(e->st,pcm,fsz,out,mdb):entry==1?opus_multistream_encode24(e->st,pcm,fsz,out,mdb):opus_multistream_encode_float(e->st,pcm,fsz,out,mdb);
   return entry==0?opus_projection_encode(e->st,pcm,fsz,out,mdb):entry==1?opus_projection_encode24(e->st,pcm,fsz,out,mdb):opus_projection_encode_float(e->st,pcm,fsz,out,mdb);
}
static opus_uint32 enc_range(encobj *e){ opus_uint32 r=0xdeadbeef;
   if (e->api==0) opus_encoder_ctl(e->st,OPUS_GET_FINAL_RANGE(&r)); else if (e->api==1) opus_multistream_encoder_ctl(e->st,OPUS_GET_FINAL_RANGE(&r)); else opus_projection_encoder_ctl(e->st,OPUS_GET_FINAL_RANGE(&r));
   return r; }
static opus_uint32 enc_stream_range(encobj *e,int s){ OpusEncoder *se=NULL; opus_uint32 r=0xdeadbeef;
   if (e->api==1) opus_multistream_encoder_ctl(e->st,OPUS_MULTISTREAM_GET_ENCODER_STATE(s,&se)); else opus_projection_encoder_ctl(e->st,OPUS_MULTISTREAM_GET_ENCODER_STATE(s,&se));
   if (se) opus_encoder_ctl(se,OPUS_GET_FINAL_RANGE(&r));
   return r; }

enum { K_TREE, K_REF, K_TREEMS, K_REFMS, K_TREEPROJ };
typedef struct { int kind; void *st; int sz; int fs_i,Fs,ch; int api; /*0 int16,1 int24,2 float*/ } decobj;
static const char *const KINDN[5]={"tree","ref","tree-ms","ref-ms","tree-proj"};
static int dec_call(decobj *d,const unsigned char *p,int n,int cap,void *out){
   switch(d->kind){
   case K_TREE: return d->api==0?opus_decode(d->st,p,n,out,cap,0):d->api==1?opus_decode24(d->st,p,n,out,cap,0):opus_decode_float(d->st,p,n,out,cap,0);
   case K_REF:  return d->api==0?ref_opus_decode(d->st,p,n,out,cap,0):d->api==1?ref_opus_decode24(d->st,p,n,out,cap,0):ref_opus_decode_float(d->st,p,n,out,cap,0);
   case K_TREEMS: return d->api==0?opus_multistream_decode(d->st,p,n,out,cap,0):d->api==1?opus_multistream_decode24(d->st,p,n,out,cap,0):opus_multistream_decode_float(d->st,p,n,out,cap,0);
   case K_REFMS:  return d->api==0?ref_opus_multistream_decode(d->st,p,n,out,cap,0):d->api==1?ref_opus_multistream_decode24(d->st,p,n,out,cap,0):ref_opus_multistream_decode_float(d->st,p,n,out,cap,0);
   default: return d->api==0?opus_projection_decode(d->st,p,n,out,cap,0):d->api==1?opus_projection_decode24(d->st,p,n,out,cap,0):opus_projection_decode_float(d->st,p,n,out,cap,0);
   }
}
static opus_uint32 dec_range(decobj *d){ opus_uint32 r=0xfeedface;
   switch(d->kind){
   case K_TREE: opus_decoder_ctl(d->st,OPUS_GET_FINAL_RANGE(&r)); break;
   case K_REF: ref_opus_decoder_ctl(d->st,OPUS_GET_FINAL_RANGE(&r)); break;
   case K_TREEMS: opus_multistream_decoder_ctl(d->st,OPUS_GET_FINAL_RANGE(&r)); break;
   case K_REFMS: ref_opus_multistream_decoder_ctl(d->st,OPUS_GET_FINAL_RANGE(&r)); break;
   default: opus_projection_decoder_ctl(d->st,OPUS_GET_FINAL_RANGE(&r)); break;
   }
   return r; }
static opus_uint32 dec_stream_range(decobj *d,int s){ OpusDecoder *sd=NULL; opus_uint32 r=0xfeedface;
   if (d->kind==K_TREEMS){ opus_multistream_decoder_ctl(d->st,OPUS_MULTISTREAM_GET_DECODER_STATE(s,&sd)); if(sd) opus_decoder_ctl(sd,OPUS_GET_FINAL_RANGE(&r)); }
   else if (d->kind==K_REFMS){ ref_opus_multistream_decoder_ctl(d->st,OPUS_MULTISTREAM_GET_DECODER_STATE(s,&sd)); if(sd) ref_opus_decoder_ctl(sd,OPUS_GET_FINAL_RANGE(&r)); }
   else { opus_projection_decoder_ctl(d->st,OPUS_MULTISTREAM_GET_DECODER_STATE(s,&sd)); if(sd) opus_decoder_ctl(sd,OPUS_GET_FINAL_RANGE(&r)); }
   return r; }

static const char *errname(int e){ switch(e){ case OPUS_BAD_ARG: return "BAD_ARG"; case OPUS_BUFFER_TOO_SMALL: return "BUFFER_TOO_SMALL"; case OPUS_INTERNAL_ERROR: return "INTERNAL_ERROR";
   case OPUS_INVALID_PACKET: return "INVALID_PACKET"; case OPUS_UNIMPLEMENTED: return "UNIMPLEMENTED"; case OPUS_INVALID_STATE: return "INVALID_STATE"; case OPUS_ALLOC_FAIL: return "ALLOC_FAIL"; case 0: return "ZERO"; default: return e>0?"POSITIVE":"OTHER"; } }
static const char *const APIN[3]={"enc","ms","proj"};
static const char *const ENTN[3]={"int16","int24","float"};
static const char *const MODEN[3]={"silk","hybrid","celt"};

/* apply the difference from vector a to vector b (ctl dims only). returns 0 if every ctl was accepted */
static int apply_diff(encobj *e,const int *a,const int *b){
   int d,bad=0;
   for(d=0;d<NCTL;d++) if(a[d]!=b[d]) if(enc_ctl(e,DIM[d].req,b[d])!=OPUS_OK) bad=1;
   if (a[D_EXPERT]!=b[D_EXPERT] || (b[D_EXPERT] && a[D_DUR]!=b[D_DUR]))
      if(enc_ctl(e,OPUS_SET_EXPERT_FRAME_DURATION_REQUEST,b[D_EXPERT]?OPUS_FRAMESIZE_2_5_MS+b[D_DUR]:OPUS_FRAMESIZE_ARG)!=OPUS_OK) bad=1;
   return bad;
}

/* ------------------------------------------------------------------ one frame: encode, check, decode everywhere
 * returns 0 ok, 1 = a failure was recorded (the run stops) */
static int g_gate=0;
static int step(encobj *e,const int *v,int fam,int entry,long *pos,decobj *D,int nd,int base,const char *what,int frame){
   int Fs=e->Fs, ch=e->ch, fsz=(int)((long)DUR48[v[D_DUR]]*Fs/48000), mdb=v[D_MDB], n, i, S=e->api?e->streams:1, need, mode=0;
   size_t ss = entry==0?sizeof(short):4; void *in; unsigned char *pkt; opus_uint32 ge; char sig[96];
   if (mdb<0) mdb=-mdb;                                              /* sweep: absolute size of the whole packet buffer */
   else if (e->api) mdb = mdb*S;                                     /* multistream: the buffer alphabet is per stream */
   need = e->api ? (v[D_DUR]==7?3*S:2*S) : ((v[D_DUR]==7)?2:1);      /* smallest buffer for which the statement promises success */
   if (*pos+fsz>SBN) *pos=0;
   in=malloc((size_t)fsz*ch*ss);
   if (entry==0) memcpy(in,SB[fam].s16+*pos*ch,(size_t)fsz*ch*ss); else if (entry==1) memcpy(in,SB[fam].s24+*pos*ch,(size_t)fsz*ch*ss); else memcpy(in,SB[fam].f+*pos*ch,(size_t)fsz*ch*ss);
   *pos+=fsz;
   if (g_gate && (long)fsz*1000>=40L*Fs){ size_t tail=(size_t)(Fs/50)*ch*ss; memset((char*)in+(size_t)fsz*ch*ss-tail,0,tail); }   /* gated: the last 20 ms of a multi-frame input are digital silence */
   pkt=malloc(mdb);
   memset(pkt,0xA5,mdb);
   n=enc_call(e,entry,in,fsz,pkt,mdb);
   MC_INC(c_trans);
   free(in);
   mc_set_add(S_states,mc_hash(e->st,e->sz,(uint64_t)e->api*977+(uint64_t)e->sz));
#define FAILV(...) do{ mc_fail(sig,__VA_ARGS__); free(pkt); return 1; }while(0)
#define CTX "%s Fs=%d ch=%d app/layout=%s cfg=[%s] signal=%s entry=%s frame#%d frame_size=%d max_data_bytes=%d"
#define CTXV APIN[e->api],Fs,ch,what,vec_str(v),famname(fam),ENTN[entry],frame,fsz,mdb
   if (n==OPUS_INTERNAL_ERROR){ snprintf(sig,sizeof sig,"enc_error:%s:INTERNAL_ERROR",APIN[e->api]); FAILV(CTX " -> OPUS_INTERNAL_ERROR",CTXV); }
   if (n<=0){
      if (mdb<need){ MC_INC(c_refused); free(pkt); return 2; }        /* refusal the statement allows; nothing to decode, the stream simply has no packet here */
      snprintf(sig,sizeof sig,"enc_error:%s:%s:%s",APIN[e->api],errname(n),mdb<=2*S?"tiny":"mdbge3");
      FAILV(CTX " -> encode returned %d (%s) although the buffer is large enough by the statement",CTXV,n,errname(n));
   }
   if (n>mdb){ snprintf(sig,sizeof sig,"enc_overlong:%s",APIN[e->api]); FAILV(CTX " -> returned %d > max_data_bytes",CTXV,n); }
   if (e->api==0 && mdb==1 && v[D_DUR]==7){ snprintf(sig,sizeof sig,"enc_1byte_100ms_accepted"); FAILV(CTX " -> returned %d, packet %s (one byte cannot hold 100 ms)",CTXV,n,mc_hex(pkt,n)); }
   /* E2/E3: framing model, duration */
   {
      int off=0,s; uint64_t oh=mc_mix(base,e->api);
      for(s=0;s<S;s++){
         rfc_pkt m; int sd = s<S-1; long dur;
         rfc_parse(pkt+off,n-off,sd,&m);
         if (!m.ok){ snprintf(sig,sizeof sig,"pkt_malformed:%s",APIN[e->api]); FAILV(CTX " -> %d bytes, stream %d at offset %d rejected by the RFC framing model: %s",CTXV,n,s,off,mc_hex(pkt,n<200?n:200)); }
         dur=(long)m.count*rfc_frame_48k(m.toc)*Fs/48000;
         if (dur!=fsz){ snprintf(sig,sizeof sig,"pkt_duration:%s",APIN[e->api]); FAILV(CTX " -> stream %d announces %ld samples (toc=%02x count=%d): %s",CTXV,s,dur,m.toc,m.count,mc_hex(pkt,n<64?n:64)); }
         if (!sd && m.consumed!=n-off){ snprintf(sig,sizeof sig,"pkt_malformed:%s",APIN[e->api]); FAILV(CTX " -> trailing bytes",CTXV); }
         { int k,empty=1; for(k=0;k<m.count;k++) if(m.size[k]>1) empty=0; if(empty) MC_INC(c_empty);
           oh=mc_mix(oh,mc_mix(m.toc,mc_mix(m.count,mc_mix(m.pad_len>0,empty)))); }
         if (s==0) mode=rfc_mode(m.toc);
         off+=m.consumed;
      }
      if (e->api==0){ int ns=opus_packet_get_nb_samples(pkt,n,Fs); if(ns!=fsz){ snprintf(sig,sizeof sig,"nb_samples:%s",APIN[e->api]); FAILV(CTX " -> opus_packet_get_nb_samples=%d: %s",CTXV,ns,mc_hex(pkt,n<64?n:64)); } }
      oh=mc_mix(oh, n<=2?n: n<=10?3: n<=50?4: n<=200?5: n<=600?6: n<1275?7:8);
      if (mc_set_add(S_obs,oh) && (oh%13)==0) mc_sample(CTX " -> %d bytes %s%s | all %d decoders: exact count, final range == encoder's",CTXV,n,mc_hex(pkt,n<12?n:12),n>12?"..":"",nd);
   }
   ge=enc_range(e);
   /* D1/D2 */
   for(i=0;i<nd;i++){
      decobj *d=&D[i]; int want=(int)((long)fsz*d->Fs/Fs), r; opus_uint32 gd; void *out=malloc((size_t)want*d->ch*(d->api==0?2:4));
      r=dec_call(d,pkt,n,want,out); free(out);
      MC_INC(c_dec); if(d->kind==K_REF||d->kind==K_REFMS) MC_INC(c_refdec);
      if (d->kind<=K_REF) __atomic_fetch_add(&MEET[base*20+d->kind*10+d->fs_i*2+d->ch-1],1,__ATOMIC_RELAXED);
      if (r!=want){ snprintf(sig,sizeof sig,"dec_count:%s:%s",APIN[e->api],KINDN[d->kind]); FAILV(CTX " -> %d bytes %s ; %s decoder Fs=%d ch=%d api=%s returned %d, expected %d",CTXV,n,mc_hex(pkt,n<48?n:48),KINDN[d->kind],d->Fs,d->ch,ENTN[d->api],r,want); }
      gd=dec_range(d);
      if (gd!=ge){ snprintf(sig,sizeof sig,"range_mismatch:%s:%s:%s",APIN[e->api],KINDN[d->kind],MODEN[mode]); FAILV(CTX " -> %d bytes %s ; encoder final range %08x, %s decoder Fs=%d ch=%d final range %08x",CTXV,n,mc_hex(pkt,n<48?n:48),(unsigned)ge,KINDN[d->kind],d->Fs,d->ch,(unsigned)gd); }
      if (d->kind>=K_TREEMS){ int s; for(s=0;s<S;s++){ opus_uint32 a=enc_stream_range(e,s), b=dec_stream_range(d,s);
         if (a!=b){ snprintf(sig,sizeof sig,"range_mismatch_stream:%s:%s",APIN[e->api],KINDN[d->kind]); FAILV(CTX " -> stream %d: encoder %08x, %s decoder %08x",CTXV,s,(unsigned)a,KINDN[d->kind],(unsigned)b); } } }
   }
   free(pkt);
   return 0;
}

/* ------------------------------------------------------------------ single-stream sessions */
static void *w_enc[2]; static int w_encsz[2];
static void *w_dec[2][5][2]; static int w_decsz[2][2];   /* [tree/ref][rate][ch-1] */
static void worker_alloc(void){
   int c,r,k;
   if (w_enc[0]) return;
   for(c=0;c<2;c++){ w_encsz[c]=opus_encoder_get_size(c+1); w_enc[c]=malloc(w_encsz[c]); w_decsz[0][c]=opus_decoder_get_size(c+1); w_decsz[1][c]=ref_opus_decoder_get_size(c+1); }
   for(k=0;k<2;k++) for(r=0;r<5;r++) for(c=0;c<2;c++) w_dec[k][r][c]=malloc(w_decsz[k][c]);
}
static void enc_fresh(encobj *e,int base){
   int fs_i=base/6, ch=1+(base/3)%2, app=base%3;
   worker_alloc();
   e->api=0; e->Fs=FS[fs_i]; e->ch=ch; e->streams=1; e->coupled=ch-1; e->st=w_enc[ch-1]; e->sz=w_encsz[ch-1];
   memset(e->st,0x3C,e->sz);
   if (opus_encoder_init(e->st,e->Fs,ch,APP[app])!=OPUS_OK){ fprintf(stderr,"encoder init failed\n"); exit(2); }
}
static const char *basename_(int base){ return APPN[base%3]; }
static void dec_setup(decobj *d,int kind,int fs_i,int ch,int api){
   d->kind=kind; d->fs_i=fs_i; d->Fs=FS[fs_i]; d->ch=ch; d->api=api; d->st=w_dec[kind][fs_i][ch-1]; d->sz=w_decsz[kind][ch-1];
   memset(d->st,0x5E,d->sz);
   if ((kind==K_TREE?opus_decoder_init(d->st,d->Fs,ch):ref_opus_decoder_init(d->st,d->Fs,ch))!=OPUS_OK){ fprintf(stderr,"decoder init failed\n"); exit(2); }
}
/* decoder set for a run: all 10 tree decoders (ndec>=10) or a rotating pair, plus the reference decoder (rotating rate/channels;
 * with ndec>=10 two reference decoders: the encoder's own rate/channels and a rotating one) */
static int dec_set(decobj *D,long rc,int base){
   int nd=0,i;
   if (g_ndec>=10){ for(i=0;i<10;i++) dec_setup(&D[nd++],K_TREE,i/2,1+(i&1),(int)((i+rc)%3)); }
   else { int d0=(int)(rc%10), d1=(int)((d0+1+(rc/10)%9)%10); dec_setup(&D[nd++],K_TREE,d0/2,1+(d0&1),(int)(rc%3)); dec_setup(&D[nd++],K_TREE,d1/2,1+(d1&1),(int)((rc+1)%3));
      if (g_ndec>2){ int d2=(int)((d1+1+(rc/90)%8)%10); if(d2==d0) d2=(d2+1)%10; if(d2==d1) d2=(d2+1)%10; dec_setup(&D[nd++],K_TREE,d2/2,1+(d2&1),(int)((rc+2)%3)); } }
   { int r=(int)((rc/3)%10); dec_setup(&D[nd++],K_REF,r/2,1+(r&1),(int)((rc+2)%3)); }
   if (g_ndec>=10){ int fs_i=base/6, ch=1+(base/3)%2; if (D[nd-1].fs_i==fs_i && D[nd-1].ch==ch) { /* rotating one coincides: take 48k stereo / 8k mono instead */ fs_i= fs_i==4?0:4; }
      { /* second reference decoder must use another memory block than the first when rate+channels coincide: they never do after the adjustment above */
        dec_setup(&D[nd++],K_REF,fs_i,ch,(int)(rc%3)); } }
   return nd;
}

static int NFRAMES_A=3, NFRAMES_B=4, NFRAMES_C=0;   /* NFRAMES_C>0 (mode exc): after B the settings return to A for NFRAMES_C frames */

/* grid: one vector x all signal families */
static void run_vector(int base,const int *v,long vc){
   int k; int dflt[NDIM]; vec_default(dflt);
   { int d,nd_=0; for(d=0;d<NDIM;d++) nd_+= v[d]!=dflt[d]; if (nd_<g_mink) return; }   /* --mink: a part may leave the smaller vectors to another part */
   for(k=0;k<NFAMS;k++){
      encobj e; decobj D[14]; int nd,f,fam=FAMS[k],entry; long pos=0, rc=vc*NFAMS+k;
      entry = fam>=SIG_NFAM ? 2 : (int)((vc+k)%3);
      mc_case("encode_or_decode","grid base=%d Fs=%d ch=%d app=%s cfg=[%s] signal=%s entry=%s",base,FS[base/6],1+(base/3)%2,APPN[base%3],vec_str(v),famname(fam),ENTN[entry]);
      enc_fresh(&e,base);
      if (apply_diff(&e,dflt,v)){ MC_INC(c_skipcfg); return; }    /* a ctl rejected the value (e.g. force 2 channels on a mono encoder): not a supported configuration */
      nd=dec_set(D,rc,base);
      MC_INC(c_runs);
      for(f=0;f<g_frames;f++) if (step(&e,v,fam,entry,&pos,D,nd,base,basename_(base),f)==1) break;
   }
}
static int dims3_ok(int dim){ /* dimensions taking part in 3-deviation vectors ("rarely interacting" ones are left to <=2) */
   return !(dim==D_NOINV||dim==D_NOPRED||dim==D_EXPERT);
}
static int val3_ok(const single *s){ /* reduced value alphabets inside 3-deviation vectors */
   switch(s->dim){
   case D_BITRATE: return s->val==500||s->val==6000||s->val==12000||s->val==16000||s->val==24000||s->val==32000||s->val==64000||s->val==OPUS_BITRATE_MAX;
   case D_CX: return s->val==0||s->val==5;
   case D_MAXBW: return s->val==OPUS_BANDWIDTH_NARROWBAND||s->val==OPUS_BANDWIDTH_WIDEBAND;
   case D_LOSS: return s->val==10||s->val==50;
   case D_LSB: return s->val==8||s->val==16;
   case D_MDB: return s->val==1||s->val==2||s->val==3||s->val==7||s->val==20||s->val==38||s->val==60||s->val==300||s->val==1276;
   default: return 1; }
}
static void grid_item(long it,void *ctx){
   int v[NDIM], base, k, j, l; (void)ctx;
   if (!g_split){ base=(int)(it/(NS+1)); k=(int)(it%(NS+1)); j=-1; }
   else { base=(int)(it/((long)(NS+1)*(NS+1))); k=(int)((it/(NS+1))%(NS+1)); j=(int)(it%(NS+1)); }
   load_signals(FS[base/6],1+(base/3)%2);
   vec_default(v);
   if (k==NS){ if (j<0||j==NS) run_vector(base,v,0); return; }
   v[SG[k].dim]=SG[k].val;
   if (!g_split){
      if (g_k>=1) run_vector(base,v,k+1);
      if (g_k>=2) for(j=k+1;j<NS;j++){ if(SG[j].dim==SG[k].dim) continue; v[SG[j].dim]=SG[j].val; run_vector(base,v,(long)(k+1)*131+j); v[SG[j].dim]=DIM[SG[j].dim].dflt; }
      return;
   }
   if (j==NS){ if (g_k>=1) run_vector(base,v,k+1); return; }
   if (j<=k || SG[j].dim==SG[k].dim || g_k<2) return;
   v[SG[j].dim]=SG[j].val; run_vector(base,v,(long)(k+1)*131+j);
   if (g_k<3) return;
   if (!dims3_ok(SG[k].dim)||!dims3_ok(SG[j].dim)||!val3_ok(&SG[k])||!val3_ok(&SG[j])) return;
   for(l=j+1;l<NS;l++){ if(SG[l].dim==SG[k].dim||SG[l].dim==SG[j].dim||!dims3_ok(SG[l].dim)||!val3_ok(&SG[l])) continue;
      v[SG[l].dim]=SG[l].val; run_vector(base,v,(long)(k+1)*131+(long)j*17+l); v[SG[l].dim]=DIM[SG[l].dim].dflt; }
}

/* history: A for 3 frames, snapshot, then every B for 4 frames */
static void hist_item(long it,void *ctx){
   int base=(int)(it/(NS+1)), a=(int)(it%(NS+1)), k, b, dflt[NDIM], va[NDIM]; (void)ctx;
   static void *snap_e; static void *snap_d[14];
   load_signals(FS[base/6],1+(base/3)%2);
   vec_default(dflt); vec_default(va); if(a<NS) va[SG[a].dim]=SG[a].val;
   worker_alloc();
   if (!snap_e){ int i; snap_e=malloc(w_encsz[1]); for(i=0;i<14;i++) snap_d[i]=malloc(w_decsz[0][1]>w_decsz[1][1]?w_decsz[0][1]:w_decsz[1][1]); }
   for(k=0;k<NFAMS;k++){
      encobj e; decobj D[14]; int nd,f,i,fam=FAMS[k],entry,bad=0; long pos=0,pos0, rc=(long)a*NFAMS+k;
      entry = fam>=SIG_NFAM ? 2 : (int)((a+k)%3);
      mc_case("encode_or_decode","hist base=%d Fs=%d ch=%d app=%s A=[%s] signal=%s entry=%s (prefix)",base,FS[base/6],1+(base/3)%2,APPN[base%3],vec_str(va),famname(fam),ENTN[entry]);
      enc_fresh(&e,base);
      if (apply_diff(&e,dflt,va)){ MC_INC(c_skipcfg); return; }
      nd=dec_set(D,rc,base);
      MC_INC(c_runs);
      for(f=0;f<NFRAMES_A;f++) if (step(&e,va,fam,entry,&pos,D,nd,base,basename_(base),f)==1){ bad=1; break; }
      if (bad) continue;
      memcpy(snap_e,e.st,e.sz); for(i=0;i<nd;i++) memcpy(snap_d[i],D[i].st,D[i].sz); pos0=pos;
      for(b=0;b<=NS;b++){
         int vb[NDIM], variant;
         if (b==a) continue;
         if (!g_allfam && NFAMS>1 && (a+b)%NFAMS!=k) continue;   /* --allfam 0 (quick tier): each ordered pair meets one family (rotating) */
         for(variant=0;variant<=g_stack;variant++){
            int e2;
            if (variant==0){ vec_default(vb); } else { memcpy(vb,va,sizeof vb); if (a==NS||b==NS||SG[a].dim==SG[b].dim) continue; }
            if (b<NS) vb[SG[b].dim]=SG[b].val;
            e2 = fam>=SIG_NFAM ? 2 : (entry+1+b)%3;     /* the entry point may change in mid-stream too */
            mc_case("encode_or_decode","hist base=%d Fs=%d ch=%d app=%s A=[%s] x3 -> B=[%s] x4 signal=%s entry=%s->%s",base,FS[base/6],1+(base/3)%2,APPN[base%3],vec_str(va),vec_str(vb),famname(fam),ENTN[entry],ENTN[e2]);
            memcpy(e.st,snap_e,e.sz); for(i=0;i<nd;i++) memcpy(D[i].st,snap_d[i],D[i].sz); pos=pos0;
            if (apply_diff(&e,va,vb)){ MC_INC(c_skipcfg); continue; }
            MC_INC(c_runs);
            for(f=0;f<NFRAMES_B;f++) if (step(&e,vb,fam,e2,&pos,D,nd,base,basename_(base),NFRAMES_A+f)==1) break;
            if (NFRAMES_C && f==NFRAMES_B){      /* excursion: back to A */
               mc_case("encode_or_decode","exc base=%d Fs=%d ch=%d app=%s A=[%s] x%d -> B=[%s] x%d -> A x%d signal=%s entry=%s->%s",base,FS[base/6],1+(base/3)%2,APPN[base%3],vec_str(va),NFRAMES_A,vec_str(vb),NFRAMES_B,NFRAMES_C,famname(fam),ENTN[entry],ENTN[e2]);
               if (apply_diff(&e,vb,va)){ MC_INC(c_skipcfg); continue; }
               for(f=0;f<NFRAMES_C;f++) if (step(&e,va,fam,entry,&pos,D,nd,base,basename_(base),NFRAMES_A+NFRAMES_B+f)==1) break; }
         }
      }
   }
}

/* tri: A x3 -> B x2 -> C x3 over all ordered triples from the sub-alphabet T (indices into SG; NS = defaults) */
static int TR[64], NTR;
static int tr_member(const single *s,int full){
   switch(s->dim){
   case D_BITRATE: return s->val==6000||s->val==64000||(full&&(s->val==12000||s->val==24000||s->val==OPUS_BITRATE_MAX));
   case D_VBR: return 1;
   case D_CX: return full&&s->val==0;
   case D_BW: return s->val==OPUS_BANDWIDTH_NARROWBAND||(full&&(s->val==OPUS_BANDWIDTH_MEDIUMBAND||s->val==OPUS_BANDWIDTH_SUPERWIDEBAND||s->val==OPUS_BANDWIDTH_FULLBAND));
   case D_MAXBW: return full&&(s->val==OPUS_BANDWIDTH_NARROWBAND||s->val==OPUS_BANDWIDTH_WIDEBAND);
   case D_FCH: return s->val==1||full;
   case D_MODE: return 1;
   case D_FEC: return full&&s->val==1;
   case D_DTX: return full;
   case D_SIGNAL: return full;
   case D_DUR: return s->val==0||s->val==2||s->val==5||(full&&(s->val==1||s->val==4||s->val==8));
   case D_MDB: return s->val==20||(full&&(s->val==7||s->val==60));
   default: return 0; }
}
static void tri_item(long it,void *ctx){
   int base=(int)(it/NTR), ai=(int)(it%NTR), a=TR[ai], bi, ci, dflt[NDIM], va[NDIM]; (void)ctx;
   static void *snap_e[2]; static void *snap_d[2][14];
   load_signals(FS[base/6],1+(base/3)%2);
   vec_default(dflt); vec_default(va); if(a<NS) va[SG[a].dim]=SG[a].val;
   worker_alloc();
   if (!snap_e[0]){ int i,j; for(j=0;j<2;j++){ snap_e[j]=malloc(w_encsz[1]); for(i=0;i<14;i++) snap_d[j][i]=malloc(w_decsz[0][1]>w_decsz[1][1]?w_decsz[0][1]:w_decsz[1][1]); } }
   {
      encobj e; decobj D[14]; int nd,f,i,k=(base+ai)%NFAMS,fam=FAMS[k],entry,bad=0; long pos=0,pos0,pos1, rc=(long)a*NFAMS+k+base;   /* one family per (base, A), rotating */
      entry = fam>=SIG_NFAM ? 2 : (int)((a+k)%3);
      mc_case("encode_or_decode","tri base=%d Fs=%d ch=%d app=%s A=[%s] signal=%s entry=%s (prefix)",base,FS[base/6],1+(base/3)%2,APPN[base%3],vec_str(va),famname(fam),ENTN[entry]);
      enc_fresh(&e,base);
      if (apply_diff(&e,dflt,va)){ MC_INC(c_skipcfg); return; }
      nd=dec_set(D,rc,base);
      MC_INC(c_runs);
      for(f=0;f<3;f++) if (step(&e,va,fam,entry,&pos,D,nd,base,basename_(base),f)==1){ bad=1; break; }
      if (bad) return;
      memcpy(snap_e[0],e.st,e.sz); for(i=0;i<nd;i++) memcpy(snap_d[0][i],D[i].st,D[i].sz); pos0=pos;
      for(bi=0;bi<NTR;bi++){ int b=TR[bi], vb[NDIM], e2;
         if (b==a) continue;
         vec_default(vb); if (b<NS) vb[SG[b].dim]=SG[b].val;
         e2 = fam>=SIG_NFAM ? 2 : (entry+1+b)%3;
         mc_case("encode_or_decode","tri base=%d Fs=%d ch=%d app=%s A=[%s] x3 -> B=[%s] x2 signal=%s entry=%s->%s",base,FS[base/6],1+(base/3)%2,APPN[base%3],vec_str(va),vec_str(vb),famname(fam),ENTN[entry],ENTN[e2]);
         memcpy(e.st,snap_e[0],e.sz); for(i=0;i<nd;i++) memcpy(D[i].st,snap_d[0][i],D[i].sz); pos=pos0;
         if (apply_diff(&e,va,vb)){ MC_INC(c_skipcfg); continue; }
         MC_INC(c_runs);
         for(f=0;f<2;f++) if (step(&e,vb,fam,e2,&pos,D,nd,base,basename_(base),3+f)==1) break;
         if (f<2) continue;
         memcpy(snap_e[1],e.st,e.sz); for(i=0;i<nd;i++) memcpy(snap_d[1][i],D[i].st,D[i].sz); pos1=pos;
         for(ci=0;ci<NTR;ci++){ int c=TR[ci], vc[NDIM], e3;
            if (c==b) continue;
            vec_default(vc); if (c<NS) vc[SG[c].dim]=SG[c].val;
            e3 = fam>=SIG_NFAM ? 2 : (e2+1+c)%3;
            mc_case("encode_or_decode","tri base=%d Fs=%d ch=%d app=%s A=[%s] x3 -> B=[%s] x2 -> C=[%s] x3 signal=%s entry=%s->%s->%s",base,FS[base/6],1+(base/3)%2,APPN[base%3],vec_str(va),vec_str(vb),vec_str(vc),famname(fam),ENTN[entry],ENTN[e2],ENTN[e3]);
            memcpy(e.st,snap_e[1],e.sz); for(i=0;i<nd;i++) memcpy(D[i].st,snap_d[1][i],D[i].sz); pos=pos1;
            if (apply_diff(&e,vb,vc)){ MC_INC(c_skipcfg); continue; }
            MC_INC(c_runs);
            for(f=0;f<3;f++) if (step(&e,vc,fam,e3,&pos,D,nd,base,basename_(base),5+f)==1) break;
         }
      }
   }
}

/* ------------------------------------------------------------------ multistream / projection */
typedef struct { const char *name; int kind; /*0 plain,1 surround(family 1),2 projection(family 3)*/ int channels,streams,coupled; unsigned char map[20]; } layout;
static const layout LAY[]={
 {"ms:1s0c",0,1,1,0,{0}}, {"ms:1s1c",0,2,1,1,{0,1}}, {"ms:2s0c",0,2,2,0,{0,1}}, {"ms:2s1c",0,3,2,1,{0,1,2}}, {"ms:2s2c",0,4,2,2,{0,1,2,3}},
 {"ms:3s2c",0,5,3,2,{0,1,2,3,4}}, {"ms:3s0c",0,3,3,0,{0,1,2}}, {"ms:3s1c+255",0,5,3,1,{0,1,2,3,255}},
 {"surround:3ch",1,3}, {"surround:4ch",1,4}, {"surround:5ch",1,5},
 {"proj:order1(4ch)",2,4}, {"proj:order2(9ch)",2,9}, {"proj:order3(16ch)",2,16},
 /* beyond the <=3-stream bound (thorough extras): 5.1 with its LFE stream, ambisonics with the non-diegetic stereo pair */
 {"surround:6ch(5.1,4 streams)",1,6}, {"proj:order1+2(6ch)",2,6}, {"proj:order2+2(11ch)",2,11}, {"proj:order3+2(18ch)",2,18},
};
#define NLAY_BOUND 14
#define NLAY_ALL 18
static int g_nlay;
/* one multistream/projection session: encoder of layout li at (fs_i, app) with vector v; either g_frames frames at v's buffer size
 * (sweep_to==0) or one continuous stream whose max_data_bytes (absolute, whole packet) takes EVERY value sweep_from..sweep_to, one per frame */
static void ms_run(int li,int fs_i,int app,const int *v0,int fam,int entry,long rc,int sweep_from,int sweep_to){
   const layout *L=&LAY[li]; int Fs=FS[fs_i], streams=L->streams, coupled=L->coupled, ch=L->channels, dflt[NDIM], v[NDIM];
   unsigned char map[20], idmap[20], *mtx=NULL; opus_int32 msz=0; encobj e; decobj D[6]; int nd=0,f,i,r; long pos=0;
   load_signals(Fs,ch); vec_default(dflt); memcpy(v,v0,sizeof v);
   memcpy(map,L->map,sizeof map);
   e.api = L->kind==2?2:1; e.Fs=Fs; e.ch=ch;
   e.sz = L->kind==0?opus_multistream_encoder_get_size(streams,coupled):L->kind==1?opus_multistream_surround_encoder_get_size(ch,1):opus_projection_ambisonics_encoder_get_size(ch,3);
   if (e.sz<=0){ fprintf(stderr,"bad layout %s\n",L->name); exit(2); }
   e.st=malloc(e.sz);
   mc_case("encode_or_decode","ms %s Fs=%d app=%s cfg=[%s] signal=%s entry=%s max_data_bytes sweep %d..%d",L->name,Fs,APPN[app],vec_str(v),famname(fam),ENTN[entry],sweep_from,sweep_to);
   memset(e.st,0x3C,e.sz);
   if (L->kind==0) r=opus_multistream_encoder_init(e.st,Fs,ch,streams,coupled,map,APP[app]);
   else if (L->kind==1) r=opus_multistream_surround_encoder_init(e.st,Fs,ch,1,&streams,&coupled,map,APP[app]);
   else r=opus_projection_ambisonics_encoder_init(e.st,Fs,ch,3,&streams,&coupled,APP[app]);
   if (r!=OPUS_OK){ fprintf(stderr,"ms init failed %s: %d\n",L->name,r); exit(2); }
   e.streams=streams; e.coupled=coupled;
   if (apply_diff(&e,dflt,v)) MC_INC(c_ctlrej);          /* a multistream ctl may be applied to some streams and then rejected: the object stays valid, so the run goes on */
   for(i=0;i<streams+coupled;i++) idmap[i]=(unsigned char)i;
   if (L->kind==2){
      int err; opus_projection_encoder_ctl(e.st,OPUS_PROJECTION_GET_DEMIXING_MATRIX_SIZE(&msz)); mtx=malloc(msz);
      opus_projection_encoder_ctl(e.st,OPUS_PROJECTION_GET_DEMIXING_MATRIX(mtx,msz));
      D[nd].kind=K_TREEPROJ; D[nd].fs_i=(int)(rc%5); D[nd].Fs=FS[D[nd].fs_i]; D[nd].ch=ch; D[nd].api=(int)(rc%3);
      D[nd].st=opus_projection_decoder_create(D[nd].Fs,ch,streams,coupled,mtx,msz,&err); if(!D[nd].st){ fprintf(stderr,"proj dec create failed %d\n",err); exit(2);} nd++;
      D[nd].kind=K_TREEMS; D[nd].fs_i=(int)((rc+1)%5); D[nd].Fs=FS[D[nd].fs_i]; D[nd].ch=streams+coupled; D[nd].api=(int)((rc+1)%3);
      D[nd].st=opus_multistream_decoder_create(D[nd].Fs,streams+coupled,streams,coupled,idmap,&err); if(!D[nd].st) exit(2); nd++;
      D[nd].kind=K_REFMS; D[nd].fs_i=(int)((rc+2)%5); D[nd].Fs=FS[D[nd].fs_i]; D[nd].ch=streams+coupled; D[nd].api=(int)((rc+2)%3);
      D[nd].st=ref_opus_multistream_decoder_create(D[nd].Fs,streams+coupled,streams,coupled,idmap,&err); if(!D[nd].st) exit(2); nd++;
   } else {
      int err, nt = (g_ndec>=5 && !sweep_to)?5:2, t;
      for(t=0;t<nt;t++){ D[nd].kind=K_TREEMS; D[nd].fs_i=(int)((rc+t*2)%5); D[nd].Fs=FS[D[nd].fs_i]; D[nd].ch=ch; D[nd].api=(int)((rc+t)%3);
         D[nd].st=opus_multistream_decoder_create(D[nd].Fs,ch,streams,coupled,map,&err); if(!D[nd].st){ fprintf(stderr,"ms dec create failed %d\n",err); exit(2);} nd++; }
      D[nd].kind=K_REFMS; D[nd].fs_i=(int)((rc+1)%5); D[nd].Fs=FS[D[nd].fs_i]; D[nd].ch=ch; D[nd].api=(int)((rc+2)%3);
      D[nd].st=ref_opus_multistream_decoder_create(D[nd].Fs,ch,streams,coupled,map,&err); if(!D[nd].st) exit(2); nd++;
   }
   MC_INC(c_runs);
   if (!sweep_to){ for(f=0;f<g_frames;f++) if (step(&e,v,fam,entry,&pos,D,nd,30+li,L->name,f)==1) break; }
   else { int m; for(m=sweep_from;m<=sweep_to;m++){ v[D_MDB]=-m; if (step(&e,v,fam,entry,&pos,D,nd,30+li,L->name,m-sweep_from)==1) break; } }
   for(i=0;i<nd;i++){ if(D[i].kind==K_TREEPROJ) opus_projection_decoder_destroy(D[i].st); else if(D[i].kind==K_TREEMS) opus_multistream_decoder_destroy(D[i].st); else ref_opus_multistream_decoder_destroy(D[i].st); }
   free(mtx); free(e.st);
}
static int lay_streams(int li){ const layout *L=&LAY[li]; if(L->kind==0) return L->streams; if(L->kind==1) return L->channels<=2?1:L->channels==3?2:L->channels==4?2:L->channels==5?3:4; return (L->channels+1)/2; }
static long ms_nitems(void){ return (long)g_nlay*15*(NS+1); }
/* buffer-filling configurations for the max_data_bytes sweep: the packet size is then dictated by the buffer, so every threshold of the
 * per-stream budget arithmetic (self-delimiting length 1->2 bytes at 252/253, per-stream reserves, 1276 cap) is crossed exactly */
#define NSWEEPCFG 4
static void ms_item(long it,void *ctx){
   (void)ctx;
   if (it<ms_nitems()){
      int a=(int)(it%(NS+1)), bi=(int)(it/(NS+1)), li=bi/15, fs_i=(bi/3)%5, app=bi%3, k, v[NDIM];
      vec_default(v); if(a<NS) v[SG[a].dim]=SG[a].val;
      for(k=0;k<NFAMS;k++){
         int fam=FAMS[k]; long rc=(long)a*NFAMS+k+bi;
         if (!g_allfam && NFAMS>1 && (a+bi)%NFAMS!=k) continue;                       /* --allfam 0 (quick): families rotate over the deviations */
         ms_run(li,fs_i,app,v,fam, fam>=SIG_NFAM?2:(int)((a+k+bi)%3), rc,0,0);
      }
   } else {
      /* sweep items: (layout, Fs, application, filling configuration [, signal, duration]) x EVERY max_data_bytes in 1..g_sweep*streams+8 */
      long si=it-ms_nitems(); int c=(int)(si%NSWEEPCFG), bi=(int)(si/NSWEEPCFG), li=bi/15, fs_i=(bi/3)%5, app=bi%3, S=lay_streams(li), v[NDIM], hi, x;
      static const int sfam[3]={SIG_NOISE,SIG_SQUARE,SIG_SPEECH}; static const int sdur[3]={3,2,5};
      if (!g_sweepall && (app!=(li+fs_i)%3 || S>3)) return;       /* --sweepall 0 (quick): layouts with <=3 streams only, the application rotates over (layout, Fs) */
      for(x=0;x<(g_sweepall?3:1);x++){
         int rot = app==(li+fs_i)%3;
         if (x>0 && !rot) continue;                                                    /* the other (signal, duration) pairs: application rotates */
         hi = (g_sweepall && x==0 && rot && c<2 && S<=3 ? 1300 : g_sweep)*S+8;         /* thorough: up to the 1276-byte-per-stream cap for <=3 streams */
         vec_default(v); v[D_BITRATE]= (c&2)?510000:OPUS_BITRATE_MAX; v[D_VBR]= (c&1)?0:1; v[D_DUR]=sdur[x];
         ms_run(li,fs_i,app,v,sfam[x],(int)((si+x)%3),si+x,1,hi);
      }
   }
}

/* single-stream encoder: EVERY max_data_bytes in 1..1500 on one continuous stream under buffer-filling settings
 * item = (base, filling configuration, frame duration) */
static void sweep_item(long it,void *ctx){
   int base=(int)(it/36), c=(int)((it/9)%4), d=(int)(it%9), v[NDIM], dflt[NDIM], x; (void)ctx;
   if (!g_sweepall){ if (c>=2 || (d!=3+(base+c)%3 && d!=6+(base/3+c)%3)) return; }   /* quick: MAX bitrate VBR+CBR, one of 20/40/60 ms and one of 80/100/120 ms per (base, cfg), rotating */
   else if (c>=2 && (d<3||d>5)) return;                                   /* thorough: 510 kb/s settings only at 20/40/60 ms */
   load_signals(FS[base/6],1+(base/3)%2); vec_default(dflt);
   /* x==2: noise whose last 20 ms per frame are digital silence (frames >= 40 ms): the sub-frames of a multi-frame packet then differ in size, the
      packet is code-3 VBR and the sizes of its non-final sub-frames - dictated by the buffer - sweep through every value (251/252/253: 1- vs 2-byte length) */
   for(x=0;x<3;x++){
      encobj e; decobj D[14]; int nd,m,fam=x==1?SIG_SQUARE:SIG_NOISE,entry=(int)((it+x)%3); long pos=0;
      if (x==1 && !(g_sweepall && d>=3 && d<=5)) continue;
      if (x==2 && d<4) continue;
      g_gate = x==2;
      vec_default(v); v[D_BITRATE]=(c&2)?510000:OPUS_BITRATE_MAX; v[D_VBR]=(c&1)?0:1; v[D_DUR]=d;
      mc_case("encode_or_decode","sweep base=%d Fs=%d ch=%d app=%s cfg=[%s] signal=%s%s entry=%s max_data_bytes 1..1500",base,FS[base/6],1+(base/3)%2,APPN[base%3],vec_str(v),famname(fam),x==2?" (last 20 ms of every frame silent)":"",ENTN[entry]);
      enc_fresh(&e,base);
      if (apply_diff(&e,dflt,v)){ MC_INC(c_skipcfg); return; }
      nd=dec_set(D,it+x,base);
      MC_INC(c_runs);
      for(m=1;m<=1500;m++){ v[D_MDB]=m; if (step(&e,v,fam,entry,&pos,D,nd,base,basename_(base),m-1)==1) break; }
      g_gate=0;
   }
}

/* ------------------------------------------------------------------ tight budgets
 * Every comparison of ec_tell()/bit counts against the byte budget (redundancy flag and size, ec_enc_shrink, nb_compr_bytes, SILK maxBits,
 * CELT total_bits reservations, anti-collapse, ...) is a boundary that only packets pinned to a small size reach, and then only for particular
 * bit counts.  So: for each mode class (forced SILK, forced hybrid + fullband, forced CELT, automatic, automatic + fullband + voice hint) x
 * mono/stereo x frame duration, EVERY packet size N in g_tlo..g_thi bytes, pinned by hard CBR (bitrate 8*N*frames/s), by VBR with max_data_bytes=N
 * (OPUS_BITRATE_MAX) and (thorough) by unconstrained VBR at that rate with max_data_bytes=N, on long busy streams (g_tframes frames each).
 * item = (rate index, channels, class/duration combination, N) */
static const struct { int cls,dur; } TCOMBO[]={{0,2},{0,3},{1,2},{1,3},{2,0},{2,1},{2,2},{2,3},{3,3},{4,3},{3,2},{4,2}};
#define NTCOMBO_Q 10
#define NTCOMBO_ALL 12
static const char *const TCLS[5]={"forced-silk","forced-hybrid+FB","forced-celt","auto","auto+FB+voice"};
static int g_tlo,g_thi,g_tframes,g_tnfs,g_tcombos; static int TFS[5];
static void tight_item(long it,void *ctx){
   int span=g_thi-g_tlo+1, N=g_tlo+(int)(it%span), co=(int)((it/span)%g_tcombos), ch=1+(int)((it/span/g_tcombos)%2), fs_i=TFS[(it/span/g_tcombos/2)%g_tnfs];
   int cls=TCOMBO[co].cls, d=TCOMBO[co].dur, fps=48000/DUR48[d], var, na, ai, dflt[NDIM]; (void)ctx;
   static const int tf[4]={F_VN,SIG_NOISE,SIG_SPEECH,SIG_MULTITONE};
   int apps[2]; if (cls==2){ apps[0]=1; apps[1]=2; } else { apps[0]=0; apps[1]=1; }
   na = 1; if (MC.tier && ((N+co+ch)&1)){ int t_=apps[0]; apps[0]=apps[1]; apps[1]=t_; }   /* thorough: the application rotates over (size, class, channels) */
   load_signals(FS[fs_i],ch); vec_default(dflt);
   for(ai=0;ai<na;ai++) for(var=0;var<(MC.tier?3:2);var++){
      int base=fs_i*6+(ch-1)*3+apps[ai], v[NDIM], k;
      vec_default(v); v[D_DUR]=d;
      if (cls==0) v[D_MODE]=REF_MODE_SILK_ONLY; else if (cls==1){ v[D_MODE]=REF_MODE_HYBRID; v[D_BW]=OPUS_BANDWIDTH_FULLBAND; } else if (cls==2) v[D_MODE]=REF_MODE_CELT_ONLY;
      else if (cls==4){ v[D_BW]=OPUS_BANDWIDTH_FULLBAND; v[D_SIGNAL]=OPUS_SIGNAL_VOICE; }
      if (var==0){ v[D_VBR]=0; v[D_BITRATE]=8*N*fps; }                          /* hard CBR at exactly N bytes */
      else if (var==1){ v[D_BITRATE]=OPUS_BITRATE_MAX; v[D_MDB]=N; }            /* VBR capped by the buffer */
      else { v[D_CVBR]=0; v[D_BITRATE]=8*N*fps; v[D_MDB]=N; }                   /* unconstrained VBR at that rate, capped by the buffer */
      for(k=0;k<4;k++){
         encobj e; decobj D[14]; int nd,f,fam=tf[k],entry=(int)((it+k+var)%3); long pos=0, rc=it*8+var*4+k;
         if (k!=(int)((N+co+var)%4) && !(g_allfam && k==(int)((N+co+var+2)%4))) continue;   /* one busy family per (class, size, variant), rotating; --allfam 1 (thorough): two */
         mc_case("encode_or_decode","tight base=%d Fs=%d ch=%d app=%s class=%s cfg=[%s] signal=%s entry=%s frames=%d",base,FS[fs_i],ch,APPN[apps[ai]],TCLS[cls],vec_str(v),famname(fam),ENTN[entry],g_tframes);
         enc_fresh(&e,base);
         if (apply_diff(&e,dflt,v)){ MC_INC(c_skipcfg); continue; }
         nd=dec_set(D,rc,base);
         MC_INC(c_runs);
         for(f=0;f<g_tframes;f++) if (step(&e,v,fam,entry,&pos,D,nd,base,basename_(base),f)==1) break;
      }
   }
}

/* ------------------------------------------------------------------ in-band FEC (LBRR) family
 * LBRR data is only written when FEC is on, loss% > 0, the rate is high enough and the frame is active, and its per-channel / per-20-ms flags only
 * differ inside a packet when the packet holds >= 2 SILK frames and channel activity changes on the 20 ms grid.  That is 4-5 simultaneous settings
 * plus a particular signal, outside the <=k grid.  So: every (FEC 1/2) x loss x duration (40/60 ms; thorough also 80) x bitrate x (automatic /
 * forced SILK) x (channels automatic / forced 2) on every stereo (Fs, application in VOIP/AUDIO) base (thorough: + mono VOIP bases), g_fframes
 * frames of the channel-toggle family (thorough: + speech-like).   item = (base index, configuration) */
static int g_fframes;
static void fec_item(long it,void *ctx){
   static const int LOSSQ[2]={10,25}, LOSST[3]={10,25,50}, DURQ[2]={4,5}, DURT[3]={4,5,6}, BR[3]={OPUS_AUTO,32000,48000};
   int nl=MC.tier?3:2, ndur=MC.tier?3:2, ncfg=2*nl*ndur*3*2*2, c=(int)(it%ncfg), bi=(int)(it/ncfg), base, v[NDIM], dflt[NDIM], k; (void)ctx;
   int fec=1+c%2, loss, d, br, silk, fch; c/=2;
   loss=(MC.tier?LOSST:LOSSQ)[c%nl]; c/=nl; d=(MC.tier?DURT:DURQ)[c%ndur]; c/=ndur; br=BR[c%3]; c/=3; silk=c%2; c/=2; fch=c%2;
   if (bi<10) base=(bi/2)*6+3+(bi%2);            /* stereo, VOIP / AUDIO */
   else { base=(bi-10)*6; if (fch) return; }      /* mono VOIP (thorough): forcing 2 channels is rejected there */
   load_signals(FS[base/6],1+(base/3)%2); vec_default(dflt); vec_default(v);
   v[D_FEC]=fec; v[D_LOSS]=loss; v[D_DUR]=d; v[D_BITRATE]=br; if(silk) v[D_MODE]=REF_MODE_SILK_ONLY; if(fch) v[D_FCH]=2;
   for(k=0;k<(MC.tier?2:1);k++){
      static const int ff[2]={F_TOGGLE,SIG_SPEECH};
      encobj e; decobj D[14]; int nd,f,fam=ff[k],entry=(int)((it+k)%3); long pos=0;
      mc_case("encode_or_decode","fec base=%d Fs=%d ch=%d app=%s cfg=[%s] signal=%s entry=%s frames=%d",base,FS[base/6],1+(base/3)%2,APPN[base%3],vec_str(v),famname(fam),ENTN[entry],g_fframes);
      enc_fresh(&e,base);
      if (apply_diff(&e,dflt,v)){ MC_INC(c_skipcfg); return; }
      nd=dec_set(D,it*3+k,base);
      MC_INC(c_runs);
      for(f=0;f<g_fframes;f++) if (step(&e,v,fam,entry,&pos,D,nd,base,basename_(base),f)==1) break;
   }
}

/* ------------------------------------------------------------------ self-checks */
static void check_defaults(void){
   /* the "default" column of the dimension table must be what a fresh encoder reports (else "deviation" would be mislabelled) */
   int err,d; OpusEncoder *e=opus_encoder_create(48000,2,OPUS_APPLICATION_AUDIO,&err);
   for(d=0;d<NCTL;d++){ opus_int32 x=-12345; if(d==D_MODE||d==D_BITRATE||d==D_BW) continue; /* no getter for the forced mode; GET_BITRATE resolves AUTO; GET_BANDWIDTH reports the bandwidth in use */ if(opus_encoder_ctl(e,DIM[d].req+1,&x)!=OPUS_OK||x!=DIM[d].dflt){ fprintf(stderr,"default of %s is %d, table says %d\n",DIM[d].name,(int)x,DIM[d].dflt); exit(2);} }
   { opus_int32 x=0; opus_encoder_ctl(e,OPUS_GET_EXPERT_FRAME_DURATION(&x)); if(x!=OPUS_FRAMESIZE_ARG){ fprintf(stderr,"expert frame duration default\n"); exit(2);} }
   opus_encoder_destroy(e);
}

int main(int argc,char **argv){
   const char *mode; int full,sigset,i; long nitems;
   mc_init(argc,argv,"C02","grid");
   mode=mc_arg_s("--mode","grid"); MC.part=mc_arg_s("--part",mode);
   g_k=(int)mc_arg("--k",2); g_frames=(int)mc_arg("--frames",MC.tier?6:5); g_ndec=(int)mc_arg("--ndec",MC.tier?10:2);
   full=(int)mc_arg("--alpha",MC.tier?1:0); sigset=(int)mc_arg("--sigset",MC.tier?1:0); g_stack=(int)mc_arg("--stack",0);
   g_nlay=(int)mc_arg("--nlay",MC.tier?NLAY_ALL:NLAY_BOUND); g_allfam=(int)mc_arg("--allfam",MC.tier?1:0); g_mink=(int)mc_arg("--mink",0); g_split=(int)mc_arg("--split",g_k>=3); g_sweep=(int)mc_arg("--sweep",260); g_sweepall=(int)mc_arg("--sweepall",MC.tier?1:0);
   g_tlo=(int)mc_arg("--tlo",6); g_thi=(int)mc_arg("--thi",90); g_tframes=(int)mc_arg("--tframes",MC.tier?200:150); g_tcombos=(int)mc_arg("--tcombos",MC.tier?NTCOMBO_ALL:NTCOMBO_Q);
   { const char *r=mc_arg_s("--trates",MC.tier?"234":"4"); g_tnfs=0; for(;*r&&g_tnfs<5;r++) if(*r>='0'&&*r<='4') TFS[g_tnfs++]=*r-'0'; if(!g_tnfs) TFS[g_tnfs++]=4; }   /* digits = indices into {8,12,16,24,48} kHz */
   if (!strcmp(mode,"tight")){ g_tight=1; g_siglen=(int)mc_arg("--siglen",40); }
   if (!strcmp(mode,"fec")){ g_fecmode=1; g_siglen=(int)mc_arg("--siglen",40); }
   g_fframes=(int)mc_arg("--fframes",32);
   build_alphabet(full);
   check_defaults();
   NFAMS=0;
   {  /* signal-family sets (every set contains silence, a full-scale family, noise and non-finite floats) */
      static const int f0[]={SIG_SILENCE,SIG_SQUARE,SIG_NOISE,SIG_SPEECH,H_MIX};
      static const int f1[]={SIG_SILENCE,SIG_SQUARE,SIG_NOISE,SIG_SWEEP,SIG_SPEECH,SIG_CLICKS,H_MIX,H_LOUD};
      static const int f2[]={SIG_SILENCE,SIG_NOISE,SIG_SPEECH,H_MIX};
      static const int f3[]={SIG_SQUARE,SIG_MULTITONE,SIG_STEREOPAN,H_BIG,H_DENORM};
      static const int f4[]={SIG_SILENCE,SIG_SQUARE,SIG_BANDNOISE,SIG_SPEECH,H_NAN,H_INF};
      const int *f=f0; int n=5;
      if (sigset==1){ f=f1; n=8; } else if (sigset==2){ f=f2; n=4; } else if (sigset==3){ f=f3; n=5; } else if (sigset==4){ f=f4; n=6; }
      if (sigset>=5) for(i=0;i<NFAM_ALL;i++) FAMS[NFAMS++]=i; else for(i=0;i<n;i++) FAMS[NFAMS++]=f[i];
   }
   c_trans=mc_counter("transitions"); c_dec=mc_counter("decode_calls"); c_refdec=mc_counter("reference_decoder_calls"); c_runs=mc_counter("traces_validated_against_impl");
   c_skipcfg=mc_counter("vectors_with_rejected_ctl_skipped"); c_ctlrej=mc_counter("ms_runs_with_partially_rejected_ctl"); c_refused=mc_counter("refusals_allowed_by_statement"); c_empty=mc_counter("empty_stream_packets_G5b");
   S_states=mc_set_new((int)mc_arg("--log2states",MC.tier?25:22)); S_obs=mc_set_new(18);
   MEET=mc_shared(sizeof(long)*20*64);
   mc_info("mode=%s k=%d frames=%d ndec=%d alphabet=%s singles=%d families=%d",mode,g_k,g_frames,g_ndec,full?"full":"reduced",NS,NFAMS);
   if (!strcmp(mode,"grid")){ if (g_k>=3) g_split=1; nitems = !g_split ? 30L*(NS+1) : 30L*(NS+1)*(NS+1); mc_par(nitems,grid_item,NULL); }
   else if (!strcmp(mode,"hist")){ mc_par(30L*(NS+1),hist_item,NULL); }
   else if (!strcmp(mode,"tri")){ int q,tf=(int)mc_arg("--trifull",MC.tier?1:0); NTR=0; TR[NTR++]=NS; for(q=0;q<NS&&NTR<64;q++) if(tr_member(&SG[q],tf)) TR[NTR++]=q; mc_info("tri: |T|=%d (incl. defaults) -> %ld ordered triples per base",NTR,(long)NTR*(NTR-1)*(NTR-1)); mc_par(30L*NTR,tri_item,NULL); }
   else if (!strcmp(mode,"exc")){ NFRAMES_B=(int)mc_arg("--excb",1); NFRAMES_C=(int)mc_arg("--excc",3); mc_par(30L*(NS+1),hist_item,NULL); }
   else if (!strcmp(mode,"ms")){ mc_par(ms_nitems()+(g_sweep>0?(long)g_nlay*15*NSWEEPCFG:0),ms_item,NULL); }
   else if (!strcmp(mode,"sweep")){ mc_par(30L*36,sweep_item,NULL); }
   else if (!strcmp(mode,"fec")){ int nl=MC.tier?3:2, ndur=MC.tier?3:2; mc_par((long)2*nl*ndur*3*2*2*(MC.tier?15:10),fec_item,NULL); }
   else if (!strcmp(mode,"tight")){ mc_par((long)(g_thi-g_tlo+1)*g_tcombos*2*g_tnfs,tight_item,NULL); }
   else { fprintf(stderr,"unknown mode\n"); return 2; }
   {
      mc_ctr *st=mc_counter("states"),*ev=mc_counter("evaluations"),*dn=mc_counter("distinct_nontrivial"),*mm=NULL,*mr=NULL;
      if (strcmp(mode,"ms")&&strcmp(mode,"sweep")&&strcmp(mode,"tight")&&strcmp(mode,"fec")){ mm=mc_counter("min_packets_per_base_and_tree_decoder"); mr=mc_counter("min_packets_per_base_and_ref_decoder"); }
      *st=mc_set_count(S_states); *ev=*c_trans+*c_dec; *dn=mc_set_count(S_obs);
      if (mm){ long lo=-1,lor=-1; int b,d; for(b=0;b<30;b++) for(d=0;d<20;d++){ long x=MEET[b*20+d]; if(d<10){ if(lo<0||x<lo) lo=x; } else { if(lor<0||x<lor) lor=x; } } *mm=lo; *mr=lor; }
   }
   return mc_finish();
}
