/* C15 part 1 — direct comparison of every run-time dispatched kernel with its portable C twin.
 *
 * E3 small-scope exhaustive enumeration of the REAL kernels in libopus.a. A kernel is called exactly the way library
 * code calls it — through its dispatch macro with an explicit arch argument a in 0..detected level, i.e. through
 * entry a of its *_IMPL table (or through the compile-time presumed SIMD symbol when the build hard-wires one) —
 * and its portable C counterpart (`*_c`) is called on identical inputs.
 *
 * Shape space (complete within the stated bounds): every length 0..Lmax (every lag count / order / codebook where the
 * kernel has one), pointer offsets 0..3 elements from a 64-byte boundary for every vector argument.
 * Data alphabet (a finite alphabet, NOT complete): zeros, +max, -max, alternating +-max, ramp, LCG noise (full scale
 * and low amplitude), and a single impulse at EVERY position (lane coverage); pairs of kinds for two-vector kernels.
 * The memory around every input vector is poisoned (NaN / 0x5A5A) so that a kernel that lets out-of-range lanes reach
 * its result disagrees with the C code.
 *
 * Oracles (from the statement):
 *   integer kernels      : bit-identical outputs (32-bit accumulations are compared modulo 2^32 as both sides compute them)
 *   float kernels        : |simd - c| <= (n+8) * eps * sum|x_i*y_i|, eps = 2^-23 (float accumulators) or 2^-52 (double
 *                          accumulators, silk_inner_product_FLP) — the reassociation bound of the statement/DESIGN
 *   op_pvq_search        : exactly K pulses, signs follow the input, returned yy == sum iy^2, normalised correlation
 *                          within PVQ_TOL (relative) of the C result (the greedy search may legitimately pick another vector)
 */
#ifdef HAVE_CONFIG_H
#include "config.h"
#endif
#include <stdlib.h>
#include <string.h>
#include <math.h>
#include <stdint.h>
#include "opus.h"
#include "opus_custom.h"
#include "arch.h"
#include "cpu_support.h"
#include "modes.h"
#include "rate.h"
#include "pitch.h"
#include "celt_lpc.h"
#include "vq.h"
#include "main.h"
#include "tables.h"
#ifndef FIXED_POINT
#include "SigProc_FLP.h"
#endif
#include "mc.h"
#include "c15_common.h"

/* op_pvq_search is a greedy discrete search; the SSE2 version projects with _mm_rcp_ps and scores with _mm_rsqrt_ps (12-bit
   approximations) where the C code divides exactly, so near-ties are resolved differently and the two end on different pulse
   vectors (10 % of the cases). The resulting normalised-correlation deviation is a quantisation effect that shrinks with K.
   Calibration (G1) on the unchanged tree over the whole THOROUGH space (273 710 searches: every (N,K) of the 48 kHz pulse
   cache x 4 offsets x 37 vectors + an impulse at every position), worst relative deviation per K class:
      K<=4: 0      K 5-8: 8.4e-3    K 9-16: 1.46e-2    K 17-32: 7.7e-3    K 33-64: 7.9e-4    K 65-128: 2.3e-4
   (the SIMD result is sometimes the better, sometimes the worse one). Thresholds = >= 2x the worst, never below the 1e-3 of DESIGN. */
static const double PVQ_TOLK[8]={1e-3,1e-3,1e-3,2e-2,3e-2,2e-2,2e-3,1e-3};
#define PVQ_TOL PVQ_TOLK[kclass(K)]
static int kclass(int K){ int c=0; while((1<<c)<K) c++; return c>7?7:c; }   /* 1 | 2 | 3-4 | 5-8 | 9-16 | 17-32 | 33-64 | 65-128 */
#define EPSF 1.1920928955078125e-7      /* 2^-23 */
#define EPSD 2.220446049250313e-16      /* 2^-52 */

static int MAXL;                         /* highest level that can run here (library's own detection) */
static int LMAX;                         /* largest vector length */
static mc_ctr *c_eval,*c_exact,*c_inexact,*c_worst_ppm,*c_pvq_same,*c_pvq_diff,*c_pvq_worst_ppm,*c_impulse;
static mc_set *obs;
static int thorough;
/* per-process accumulators, flushed into the shared counters at the end of every item (avoids cache-line ping-pong) */
static long l_eval,l_exact,l_inexact,l_impulse,l_pvq_same,l_pvq_diff,l_worst_ppm,l_pvq_worst_ppm,l_pvq_kc[8]; static mc_ctr *c_pvq_kc[8];
static void flush_ctrs(void){ MC_ADD(c_eval,l_eval); MC_ADD(c_exact,l_exact); MC_ADD(c_inexact,l_inexact); MC_ADD(c_impulse,l_impulse); MC_ADD(c_pvq_same,l_pvq_same); MC_ADD(c_pvq_diff,l_pvq_diff);
   MC_MAX(c_worst_ppm,l_worst_ppm); MC_MAX(c_pvq_worst_ppm,l_pvq_worst_ppm); { int i_; for(i_=0;i_<8;i_++) if(c_pvq_kc[i_]) MC_MAX(c_pvq_kc[i_],l_pvq_kc[i_]); } l_eval=l_exact=l_inexact=l_impulse=l_pvq_same=l_pvq_diff=0; }

#define PADE 32
/* ------------------------------------------------------------------ data alphabets */
enum { D_ZERO=0, D_PMAX, D_NMAX, D_ALT, D_RAMP, D_NOISE, D_LOW, D_NKIND };
static const char *const dname[D_NKIND]={"zeros","+max","-max","alt+-max","ramp","lcg-noise","lcg-noise-low"};
static uint32_t lcgs;
static inline int lcg16(void){ lcgs=lcgs*1664525u+1013904223u; return (int)((lcgs>>16)&0xFFFF)-32768; }
#ifdef FIXED_POINT
typedef opus_int16 vec_t;
#define VMAX 32767
#define VMIN (-32768)
static void poison(vec_t *p,int n){ int i; for(i=0;i<n;i++) p[i]=0x5A5A; }
static void fillv(vec_t *x,int n,int kind,unsigned seed){ int i; lcgs=seed*2654435761u+kind;
   for(i=0;i<n;i++) switch(kind){
      case D_ZERO: x[i]=0; break; case D_PMAX: x[i]=VMAX; break; case D_NMAX: x[i]=VMIN; break;
      case D_ALT: x[i]=(i&1)?VMIN:VMAX; break; case D_RAMP: x[i]=(vec_t)(i*61-30000); break;
      case D_NOISE: x[i]=(vec_t)lcg16(); break; default: x[i]=(vec_t)(lcg16()/64); break; } }
#else
typedef float vec_t;
#define VMAX 32768.f
#define VMIN (-32768.f)
static void poison(vec_t *p,int n){ int i; for(i=0;i<n;i++) p[i]=NAN; }
static void fillv(vec_t *x,int n,int kind,unsigned seed){ int i; lcgs=seed*2654435761u+kind;
   for(i=0;i<n;i++) switch(kind){
      case D_ZERO: x[i]=0; break; case D_PMAX: x[i]=VMAX; break; case D_NMAX: x[i]=VMIN; break;
      case D_ALT: x[i]=(i&1)?VMIN:VMAX; break; case D_RAMP: x[i]=(float)(i-n/2)*16.f; break;
      case D_NOISE: x[i]=(float)lcg16(); break; default: x[i]=(float)lcg16()/32768.f; break; } }
#endif
static void fill16(opus_int16 *x,int n,int kind,unsigned seed,int amp_shift){ int i; lcgs=seed*2654435761u+kind;
   for(i=0;i<n;i++){ int v; switch(kind){
      case D_ZERO: v=0; break; case D_PMAX: v=32767; break; case D_NMAX: v=-32768; break;
      case D_ALT: v=(i&1)?-32768:32767; break; case D_RAMP: v=(opus_int16)(i*61-30000); break;
      case D_NOISE: v=lcg16(); break; default: v=lcg16()/64; break; }
      x[i]=(opus_int16)(v>>amp_shift); } }

/* vector buffers: 64-byte aligned base, data starts PADE+off elements in */
typedef struct { vec_t *base; int cap; } vbuf;
static void vb_init(vbuf *b,int cap){ if(posix_memalign((void**)&b->base,64,(size_t)(cap+2*PADE+8)*sizeof(vec_t))) exit(2); b->cap=cap; }
static vec_t *vb_at(vbuf *b,int off,int n){ vec_t *p=b->base+PADE+off; poison(p-PADE,PADE); poison(p+n,PADE-off>8?PADE-off:8); return p; }

/* pair schedule of data kinds */
static int npairs; static int pairs[64][2];
static void mk_pairs(void){ int a,b; npairs=0;
   if(thorough){ for(a=0;a<D_NKIND;a++) for(b=0;b<D_NKIND;b++){ pairs[npairs][0]=a; pairs[npairs][1]=b; npairs++; } }
   else { for(a=0;a<D_NKIND;a++){ pairs[npairs][0]=a; pairs[npairs][1]=a; npairs++; pairs[npairs][0]=a; pairs[npairs][1]=(3*a+1)%D_NKIND; npairs++; } } }

static inline void note(int kern,int lvl,int shape,int off,int kind,int outcome){
   static uint64_t last[8]; uint64_t h=mc_mix(mc_mix(kern,lvl),mc_mix(shape,off)); h=mc_mix(h,mc_mix(kind,outcome)); if(last[lvl&7]==h) return; last[lvl&7]=h; mc_set_add(obs,h); }
#ifndef FIXED_POINT
/* returns 1 ok; counts exact / inexact and tracks the worst diff/tol in ppm */
static inline int fclose_enough(double got,double ref,double tol){
   double d=fabs(got-ref);
   if (got==ref){ l_exact++; return 1; }
   if (!(d<=tol)) return 0;
   l_inexact++; { long ppm=(long)(d/tol*1e6); if(ppm>l_worst_ppm) l_worst_ppm=ppm; }
   return 1; }
#endif

/* one written-out real case per kernel for the evidence (first worker that reaches the designated case emits it) */
static int *sflag; static int once(int id){ return __atomic_exchange_n(&sflag[id],1,__ATOMIC_RELAXED)==0; }

/* ================================================================== celt_inner_prod (both builds) */
static vbuf BX,BY,BZ,BO;
static void t_inner(int lo,int hi){
   int N,ox,oy,p,a;
   for(N=lo;N<=hi;N++) for(ox=0;ox<4;ox++) for(oy=0;oy<4;oy++) for(p=0;p<npairs;p++){
      vec_t *x=vb_at(&BX,ox,N),*y=vb_at(&BY,oy,N); opus_val32 ref;
      fillv(x,N,pairs[p][0],N*7+ox); fillv(y,N,pairs[p][1],N*13+oy+100);
      mc_case("direct:celt_inner_prod","N=%d offx=%d offy=%d x=%s y=%s",N,ox,oy,dname[pairs[p][0]],dname[pairs[p][1]]);
      ref=celt_inner_prod_c(x,y,N);
#ifndef FIXED_POINT
      { double mag=0; int i; for(i=0;i<N;i++) mag+=fabs((double)x[i]*y[i]);
        for(a=0;a<=MAXL;a++){ opus_val32 got=celt_inner_prod(x,y,N,a); l_eval++;
           if(!fclose_enough(got,ref,(N+8)*EPSF*mag+1e-30)){ char sig[96]; snprintf(sig,sizeof sig,"direct:celt_inner_prod:level%d:beyond_reassociation_bound",a);
              mc_fail(sig,"celt_inner_prod(N=%d, x offset %d, y offset %d, x=%s, y=%s) at level %d (%s) = %.9g, C = %.9g, |diff| %.3g > bound %.3g",N,ox,oy,dname[pairs[p][0]],dname[pairs[p][1]],a,c15_level_name[a],got,ref,fabs(got-ref),(N+8)*EPSF*mag); }
           note(1,a,N&15,ox*4+oy,p,got==ref);
           if(a==MAXL&&N==777&&ox==3&&oy==1&&pairs[p][0]==D_NOISE&&pairs[p][1]==D_NOISE&&once(1)) mc_sample("celt_inner_prod(N=777, x offset 3, y offset 1, x=%s, y=%s): C %.9g, level %d (%s) %.9g, |diff| %.3g <= bound %.3g; all levels 0..%d checked",dname[pairs[p][0]],dname[pairs[p][1]],ref,a,c15_level_name[a],got,fabs(got-ref),(N+8)*EPSF*mag,MAXL); } }
#else
      for(a=0;a<=MAXL;a++){ opus_val32 got=celt_inner_prod(x,y,N,a); l_eval++;
         if(got!=ref){ char sig[96]; snprintf(sig,sizeof sig,"direct:celt_inner_prod:level%d:not_bit_identical",a);
            mc_fail(sig,"celt_inner_prod(N=%d, x offset %d, y offset %d, x=%s, y=%s) at level %d (%s) = %d, C = %d",N,ox,oy,dname[pairs[p][0]],dname[pairs[p][1]],a,c15_level_name[a],got,ref); }
         else l_exact++;
         note(1,a,N&15,ox*4+oy,p,ref!=0);
         if(a==MAXL&&N==777&&ox==3&&oy==1&&pairs[p][0]==D_NOISE&&pairs[p][1]==D_NOISE&&once(1)) mc_sample("celt_inner_prod(N=777, x offset 3, y offset 1, x=%s, y=%s): C %d == level %d (%s) %d; all levels 0..%d bit-identical",dname[pairs[p][0]],dname[pairs[p][1]],ref,a,c15_level_name[a],got,MAXL); }
#endif
   }
   /* single impulse at every position: every lane of every tail class */
   for(N=lo;N<=hi;N++) for(ox=0;ox<4;ox++){
      int q; oy=(2*ox+1)&3; { vec_t *x=vb_at(&BX,ox,N),*y=vb_at(&BY,oy,N); fillv(x,N,D_ZERO,0); fillv(y,N,D_NOISE,N+ox);
      mc_case("direct:celt_inner_prod","impulse N=%d offx=%d",N,ox);
      for(q=0;q<N;q++){ opus_val32 ref; x[q]=VMAX; ref=celt_inner_prod_c(x,y,N);
         for(a=0;a<=MAXL;a++){ opus_val32 got=celt_inner_prod(x,y,N,a); l_eval++; l_impulse++;
#ifndef FIXED_POINT
            if(!fclose_enough(got,ref,(N+8)*EPSF*fabs((double)VMAX*y[q])+1e-30))
#else
            if(got!=ref)
#endif
            { char sig[96]; snprintf(sig,sizeof sig,"direct:celt_inner_prod:level%d:impulse_lane",a);
              mc_fail(sig,"celt_inner_prod(N=%d, x offset %d) with x = single impulse at position %d, y = noise: level %d (%s) gives %.9g, C gives %.9g",N,ox,q,a,c15_level_name[a],(double)got,(double)ref); }
#ifdef FIXED_POINT
            else l_exact++;
#endif
         }
         x[q]=0; }
      note(1,9,N&15,ox,99,1); } }
}

/* ================================================================== xcorr_kernel (both builds), len >= 3 (asserted precondition) */
static void t_xcorrk(int lo,int hi){
   int len,ox,oy,p,a,s,k;
   if(lo<3) lo=3;
   for(len=lo;len<=hi;len++) for(ox=0;ox<4;ox++) for(oy=0;oy<4;oy++) for(p=0;p<npairs;p++) for(s=0;s<2;s++){
      vec_t *x=vb_at(&BX,ox,len),*y=vb_at(&BY,oy,len+3); opus_val32 s0[4],ref[4],got[4];
      if(s==1 && (p%3)) continue;
      fillv(x,len,pairs[p][0],len*7+ox); fillv(y,len+3,pairs[p][1],len*13+oy+100);
#ifdef FIXED_POINT
      for(k=0;k<4;k++) s0[k]= s? (opus_val32)(0x12345678u*(k+1)) : 0;
#else
      { static const float si[4]={1000.5f,-3.f,7e5f,-1.25f}; for(k=0;k<4;k++) s0[k]= s? si[k]:0; }
#endif
      mc_case("direct:xcorr_kernel","len=%d offx=%d offy=%d x=%s y=%s init=%d",len,ox,oy,dname[pairs[p][0]],dname[pairs[p][1]],s);
      memcpy(ref,s0,sizeof ref); xcorr_kernel_c(x,y,ref,len);
      for(a=0;a<=MAXL;a++){ int bad=0; memcpy(got,s0,sizeof got); xcorr_kernel(x,y,got,len,a); l_eval++;
#ifndef FIXED_POINT
         for(k=0;k<4;k++){ double mag=fabs((double)s0[k]); int j; for(j=0;j<len;j++) mag+=fabs((double)x[j]*y[j+k]);
            if(!fclose_enough(got[k],ref[k],(len+8)*EPSF*mag+1e-30)) bad=1+k; }
         if(bad){ char sig[96]; snprintf(sig,sizeof sig,"direct:xcorr_kernel:level%d:beyond_reassociation_bound",a);
            mc_fail(sig,"xcorr_kernel(len=%d, x offset %d, y offset %d, x=%s, y=%s, init sums %s) at level %d (%s): sum[%d] = %.9g, C = %.9g",len,ox,oy,dname[pairs[p][0]],dname[pairs[p][1]],s?"nonzero":"zero",a,c15_level_name[a],bad-1,got[bad-1],ref[bad-1]); }
         note(2,a,len&15,ox*4+oy,p*2+s,!memcmp(got,ref,sizeof got));
         if(a==MAXL&&len==259&&ox==1&&oy==2&&s==0&&pairs[p][0]==D_NOISE&&pairs[p][1]==D_NOISE&&once(2)) mc_sample("xcorr_kernel(len=259, x offset 1, y offset 2, x=%s, y=%s, zero initial sums): C sums %.9g %.9g %.9g %.9g, level %d %.9g %.9g %.9g %.9g (within (len+8)*2^-23*mag)",dname[pairs[p][0]],dname[pairs[p][1]],ref[0],ref[1],ref[2],ref[3],a,got[0],got[1],got[2],got[3]);
#else
         if(memcmp(got,ref,sizeof got)){ char sig[96]; bad=1; snprintf(sig,sizeof sig,"direct:xcorr_kernel:level%d:not_bit_identical",a);
            mc_fail(sig,"xcorr_kernel(len=%d, x offset %d, y offset %d, x=%s, y=%s, init sums %s) at level %d (%s): sums %d %d %d %d, C: %d %d %d %d",len,ox,oy,dname[pairs[p][0]],dname[pairs[p][1]],s?"nonzero":"zero",a,c15_level_name[a],got[0],got[1],got[2],got[3],ref[0],ref[1],ref[2],ref[3]); }
         else l_exact++;
         note(2,a,len&15,ox*4+oy,p*2+s,ref[0]!=0);
         if(a==MAXL&&len==259&&ox==1&&oy==2&&s==0&&pairs[p][0]==D_NOISE&&pairs[p][1]==D_NOISE&&once(2)) mc_sample("xcorr_kernel(len=259, x offset 1, y offset 2, x=%s, y=%s, zero initial sums): C sums %d %d %d %d == level %d sums (XCORR_KERNEL_IMPL[0..%d] all bit-identical)",dname[pairs[p][0]],dname[pairs[p][1]],ref[0],ref[1],ref[2],ref[3],a,MAXL);
#endif
      }
   }
   for(len=lo;len<=hi;len++) for(ox=0;ox<4;ox++){
      int q; vec_t *x,*y; opus_val32 ref[4],got[4]; oy=(2*ox+1)&3; x=vb_at(&BX,ox,len); y=vb_at(&BY,oy,len+3); fillv(x,len,D_ZERO,0); fillv(y,len+3,D_NOISE,len+ox);
      mc_case("direct:xcorr_kernel","impulse len=%d offx=%d",len,ox);
      for(q=0;q<len;q++){ x[q]=VMAX; memset(ref,0,sizeof ref); xcorr_kernel_c(x,y,ref,len);
         for(a=0;a<=MAXL;a++){ int bad=0; memset(got,0,sizeof got); xcorr_kernel(x,y,got,len,a); l_eval++; l_impulse++;
#ifndef FIXED_POINT
            for(k=0;k<4;k++) if(!fclose_enough(got[k],ref[k],(len+8)*EPSF*fabs((double)VMAX*y[q+k])+1e-30)) bad=1;
#else
            bad=memcmp(got,ref,sizeof got)!=0; if(!bad) l_exact++;
#endif
            if(bad){ char sig[96]; snprintf(sig,sizeof sig,"direct:xcorr_kernel:level%d:impulse_lane",a);
               mc_fail(sig,"xcorr_kernel(len=%d, x offset %d) with x = single impulse at position %d, y = noise: level %d (%s) sums %.9g %.9g %.9g %.9g, C %.9g %.9g %.9g %.9g",len,ox,q,a,c15_level_name[a],(double)got[0],(double)got[1],(double)got[2],(double)got[3],(double)ref[0],(double)ref[1],(double)ref[2],(double)ref[3]); } }
         x[q]=0; }
      note(2,9,len&15,ox,99,1); }
}

/* ================================================================== celt_pitch_xcorr (float: PITCH_XCORR_IMPL; fixed: the C driver dispatching the integer kernels) */
#define PMAXCAP 520
static void pitchx_one(int len,int mp,int ox,int oy,int oo,int kx,int ky){
   vec_t *x=vb_at(&BX,ox,len),*y=vb_at(&BY,oy,len+mp+3); int a,i,j;
   static opus_val32 refb[PMAXCAP+2*PADE],gotb[PMAXCAP+2*PADE]; opus_val32 *ref=refb+PADE,*got=gotb+PADE+oo;
   fillv(x,len,kx,len*7+ox); fillv(y,len+mp+3,ky,len*13+oy+mp);
   /* y has len+max_pitch-1 meaningful samples; the unrolled C driver reads up to y[i+len+2] for i<=mp-4, inside that range */
   poison(y+len+mp-1, 4);
   mc_case("direct:celt_pitch_xcorr","len=%d max_pitch=%d offx=%d offy=%d offout=%d x=%s y=%s",len,mp,ox,oy,oo,dname[kx],dname[ky]);
#ifndef FIXED_POINT
   celt_pitch_xcorr_c(x,y,ref,len,mp,0);
   { static double magb[PMAXCAP]; for(i=0;i<mp;i++){ double mag=0; for(j=0;j<len;j++) mag+=fabs((double)x[j]*y[i+j]); magb[i]=mag; }
   for(a=0;a<=MAXL;a++){ int bad=-1; for(i=-4;i<mp+4;i++) got[i]=-77.f; celt_pitch_xcorr(x,y,got,len,mp,a); l_eval++;
      for(i=0;i<mp;i++){ if(!fclose_enough(got[i],ref[i],(len+8)*EPSF*magb[i]+1e-30)){ bad=i; break; } }
      if(bad<0) for(i=-4;i<mp+4;i++) if((i<0||i>=mp)&&got[i]!=-77.f){ bad=1000+i; break; }
      if(bad>=0){ char sig[96]; snprintf(sig,sizeof sig,"direct:celt_pitch_xcorr:level%d:%s",a,bad>=900?"writes_outside_output":"beyond_reassociation_bound");
         mc_fail(sig,"celt_pitch_xcorr(len=%d, max_pitch=%d, x offset %d, y offset %d, out offset %d, x=%s, y=%s) at level %d (%s): xcorr[%d] = %.9g, C = %.9g",len,mp,ox,oy,oo,dname[kx],dname[ky],a,c15_level_name[a],bad>=900?bad-1000:bad,bad>=900?got[bad-1000]:got[bad],bad>=900?-77.:ref[bad]); }
      note(3,a,(len&7)*8+(mp&7),ox*4+oy,kx*8+ky,!memcmp(got,ref,mp*sizeof *got));
      if(a==MAXL&&len==241&&mp==25&&kx==D_NOISE&&once(3)) mc_sample("celt_pitch_xcorr(len=241, max_pitch=25, x offset %d, y offset %d, out offset %d, x=%s, y=%s) via PITCH_XCORR_IMPL[%d]: xcorr[0]=%.9g xcorr[24]=%.9g, celt_pitch_xcorr_c: %.9g %.9g; every lag within (len+8)*2^-23*sum|x*y| at levels 0..%d",ox,oy,oo,dname[kx],dname[ky],a,got[0],got[24],ref[0],ref[24],MAXL); } }
#else
   { uint32_t mx=1; int32_t mxs=1; for(i=0;i<mp;i++){ uint32_t s=0; for(j=0;j<len;j++) s+=(uint32_t)((int32_t)x[j]*(int32_t)y[i+j]); ref[i]=(opus_val32)s; if((int32_t)s>mxs) mxs=(int32_t)s; } (void)mx;
     for(a=0;a<=MAXL;a++){ opus_val32 r; int bad=-1; for(i=-4;i<mp+4;i++) got[i]=-77; r=celt_pitch_xcorr(x,y,got,len,mp,a); l_eval++;
        for(i=0;i<mp;i++) if(got[i]!=ref[i]){ bad=i; break; }
        if(bad<0) for(i=-4;i<mp+4;i++) if((i<0||i>=mp)&&got[i]!=-77){ bad=1000+i; break; }
        if(bad<0 && r!=mxs) bad=5000;
        if(bad>=0){ char sig[96]; snprintf(sig,sizeof sig,"direct:celt_pitch_xcorr:level%d:%s",a,bad==5000?"maxcorr":bad>=900?"writes_outside_output":"not_bit_identical");
           mc_fail(sig,"celt_pitch_xcorr(len=%d, max_pitch=%d, x offset %d, y offset %d, x=%s, y=%s) at level %d (%s): xcorr[%d] = %d, plain C correlation = %d; returned maxcorr %d, expected %d",len,mp,ox,oy,dname[kx],dname[ky],a,c15_level_name[a],bad>=900?0:bad,bad>=900?0:got[bad],bad>=900?0:ref[bad],r,mxs); }
        else l_exact++;
        note(3,a,(len&7)*8+(mp&7),ox*4+oy,kx*8+ky,mxs!=1);
        if(a==MAXL&&len==241&&mp==25&&kx==D_NOISE&&once(3)) mc_sample("celt_pitch_xcorr(len=241, max_pitch=25, x offset %d, y offset %d, x=%s, y=%s, arch=%d): xcorr[0]=%d xcorr[24]=%d maxcorr=%d == plain C correlation at levels 0..%d",ox,oy,dname[kx],dname[ky],a,got[0],got[24],r,MAXL); } }
#endif
}
static void t_pitchx(int lo,int hi,int mode){
   static const int PK[6][2]={{D_NOISE,D_NOISE},{D_PMAX,D_PMAX},{D_NMAX,D_PMAX},{D_ALT,D_ALT},{D_RAMP,D_NOISE},{D_LOW,D_NOISE}};
   int len,mp,ox,oy,p;
#ifdef FIXED_POINT
   const int oxstep=2;          /* celt_pitch_xcorr_c requires a 32-bit aligned _x (celt_sig_assert in the source) */
#else
   const int oxstep=1;
#endif
   if(mode==0){   /* every len in [lo,hi] x small lag counts (all tail classes of the 4- and 8-lag blocks) and the codec's 25 / 5 */
      for(len=lo;len<=hi;len++) for(mp=1;mp<=(thorough?33:25);mp++){
         if(mp>=4&&len<3) continue;
         if(!thorough && mp>17 && mp!=25) continue;
         for(ox=0;ox<4;ox+=oxstep) for(p=0;p<6;p++){ oy=(ox+p)&3; if(!thorough && p>=3 && ((len+ox)&1)) continue; pitchx_one(len,mp,ox,oy,(ox+mp)&3,PK[p][0],PK[p][1]); } }
   } else {       /* every lag count in [lo,hi] x a set of lengths */
      static const int LS[]={3,4,5,6,7,8,9,11,15,16,17,23,24,31,32,33,40,120,240,241,480};
      int nl=thorough?21:18,k;
      for(mp=lo;mp<=hi;mp++) for(k=0;k<nl;k++){ len=LS[k]; if(len>LMAX) continue;
         for(ox=0;ox<4;ox+=oxstep) for(p=0;p<(thorough?6:2);p++){ oy=(ox+p+1)&3; if(!thorough && len>=120 && ox!=(mp&2)) continue; pitchx_one(len,mp,ox,oy,(ox+mp)&3,PK[p][0],PK[p][1]); } }
   }
}

#ifndef FIXED_POINT
/* ================================================================== dual_inner_prod (float) */
static void t_dual(int lo,int hi){
   int N,ox,oy,p,a;
   for(N=lo;N<=hi;N++) for(ox=0;ox<4;ox++) for(oy=0;oy<4;oy++) for(p=0;p<npairs;p++){
      vec_t *x=vb_at(&BX,ox,N),*y1=vb_at(&BY,oy,N),*y2=vb_at(&BZ,(oy+ox+1)&3,N); opus_val32 r1,r2,g1,g2; double m1=0,m2=0; int i;
      fillv(x,N,pairs[p][0],N*7+ox); fillv(y1,N,pairs[p][1],N*13+oy+100); fillv(y2,N,pairs[(p+5)%npairs][1],N*17+oy+300);
      mc_case("direct:dual_inner_prod","N=%d offx=%d offy=%d x=%s y1=%s",N,ox,oy,dname[pairs[p][0]],dname[pairs[p][1]]);
      dual_inner_prod_c(x,y1,y2,N,&r1,&r2);
      for(i=0;i<N;i++){ m1+=fabs((double)x[i]*y1[i]); m2+=fabs((double)x[i]*y2[i]); }
      for(a=0;a<=MAXL;a++){ g1=g2=-77.f; dual_inner_prod(x,y1,y2,N,&g1,&g2,a); l_eval++;
         if(!fclose_enough(g1,r1,(N+8)*EPSF*m1+1e-30) || !fclose_enough(g2,r2,(N+8)*EPSF*m2+1e-30)){ char sig[96]; snprintf(sig,sizeof sig,"direct:dual_inner_prod:level%d:beyond_reassociation_bound",a);
            mc_fail(sig,"dual_inner_prod(N=%d, x offset %d, y offset %d, x=%s, y1=%s) at level %d (%s) = (%.9g, %.9g), C = (%.9g, %.9g)",N,ox,oy,dname[pairs[p][0]],dname[pairs[p][1]],a,c15_level_name[a],g1,g2,r1,r2); }
         note(4,a,N&15,ox*4+oy,p,g1==r1&&g2==r2);
         if(a==MAXL&&N==511&&ox==1&&oy==3&&pairs[p][0]==D_NOISE&&pairs[p][1]==D_NOISE&&once(4)) mc_sample("dual_inner_prod(N=511, x offset 1, y offset 3, x=%s, y1=%s): level %d (%.9g, %.9g), C (%.9g, %.9g)",dname[pairs[p][0]],dname[pairs[p][1]],a,g1,g2,r1,r2); } }
   for(N=lo;N<=hi;N++) for(ox=0;ox<4;ox++){ int q; vec_t *x=vb_at(&BX,ox,N),*y1=vb_at(&BY,(ox+1)&3,N),*y2=vb_at(&BZ,(ox+2)&3,N); fillv(x,N,D_ZERO,0); fillv(y1,N,D_NOISE,N); fillv(y2,N,D_NOISE,N+77);
      mc_case("direct:dual_inner_prod","impulse N=%d offx=%d",N,ox);
      for(q=0;q<N;q++){ opus_val32 r1,r2,g1,g2; x[q]=VMAX; dual_inner_prod_c(x,y1,y2,N,&r1,&r2);
         for(a=0;a<=MAXL;a++){ dual_inner_prod(x,y1,y2,N,&g1,&g2,a); l_eval++; l_impulse++;
            if(!fclose_enough(g1,r1,(N+8)*EPSF*fabs((double)VMAX*y1[q])+1e-30)||!fclose_enough(g2,r2,(N+8)*EPSF*fabs((double)VMAX*y2[q])+1e-30)){ char sig[96]; snprintf(sig,sizeof sig,"direct:dual_inner_prod:level%d:impulse_lane",a);
               mc_fail(sig,"dual_inner_prod(N=%d, x offset %d), x = impulse at %d: level %d (%s) (%.9g, %.9g), C (%.9g, %.9g)",N,ox,q,a,c15_level_name[a],g1,g2,r1,r2); } }
         x[q]=0; }
      note(4,9,N&15,ox,99,1); }
}

/* ================================================================== comb_filter_const (float). N is a multiple of 4 in every non-custom mode.
 * Out of place: compared sample by sample with the tree's comb_filter_const_c. In place (the decoder's post-filter) the filter is
 * recursive, so both outputs are additionally checked against the C recurrence evaluated in double on the output's OWN earlier
 * samples: |y[i] - (x[i] + g10*Y[i-T] + g11*(Y[i-T+1]+Y[i-T-1]) + g12*(Y[i-T+2]+Y[i-T-2]))| <= 8*eps*sum|terms| (no error accumulation). */
void c15_comb_filter_const_c(opus_val32 *y, opus_val32 *x, int T, int N, celt_coef g10, celt_coef g11, celt_coef g12);
#define CBN (1100+1030+64)
static int comb_local(const float *in0,const float *out,int T,int N,const float *g,int inplace,double *wantp){
   /* in0: original input with T+2 history samples in front (in0[T+2] is x[0]); out: N outputs. returns first bad index or -1 */
   int i,j; for(i=0;i<N;i++){ double tap[5],want,mag; for(j=-2;j<=2;j++){ int idx=i-T+j; tap[j+2]= (inplace&&idx>=0)? (double)out[idx] : (double)in0[T+2+idx]; }
      want=(double)in0[T+2+i]+(double)g[0]*tap[2]+(double)g[1]*(tap[1]+tap[3])+(double)g[2]*(tap[0]+tap[4]);
      mag=fabs((double)in0[T+2+i])+fabs(g[0]*tap[2])+fabs((double)g[1])*(fabs(tap[1])+fabs(tap[3]))+fabs((double)g[2])*(fabs(tap[0])+fabs(tap[4]));
      if(!(fabs((double)out[i]-want)<=8*EPSF*mag+1e-30)){ *wantp=want; return i; } }
   return -1; }
static void t_comb(int lo,int hi){
   static const int TS[]={15,16,17,18,19,20,21,22,23,31,32,33,47,48,100,255,256,511,768,1022};
   static const float G[7][3]={{0.3066406250f*0.5f,0.2170410156f*0.5f,0.1296386719f*0.5f},{0.4638671875f*0.75f,0.2680664062f*0.75f,0.f},{0.7998046875f,0.1000976562f,0.f},
                               {0.3066406250f*0.09375f,0.2170410156f*0.09375f,0.1296386719f*0.09375f},{1.f,1.f,1.f},{-1.f,0.5f,-0.25f},{0.f,0.f,0.f}};
   static float *in0,*bc,*bs,*oc,*os; int N,t,ox,g,k,inplace,a,i;
   if(!in0){ if(posix_memalign((void**)&in0,64,4*CBN)||posix_memalign((void**)&bc,64,4*CBN)||posix_memalign((void**)&bs,64,4*CBN)||posix_memalign((void**)&oc,64,4*CBN)||posix_memalign((void**)&os,64,4*CBN)) exit(2); }
   if(lo&3) lo+=4-(lo&3);
   for(N=lo;N<=hi;N+=4) for(t=0;t<20;t++) for(ox=0;ox<4;ox++) for(g=0;g<7;g++) for(k=0;k<D_NKIND;k++) for(inplace=0;inplace<2;inplace++){
      int T=TS[t], tot=T+2+N; float *xc,*yc; double want=0; int bad;
      if(!thorough && ((t+g+k+(N>>2))%3) && N>16) continue;
      if(inplace && (g==4||g==5)) continue;      /* sum|g| > 1: the recursion diverges to inf in C and SIMD alike; the codec keeps sum|g| <= 1 */
      mc_case("direct:comb_filter_const","N=%d T=%d offx=%d gains=%d data=%s inplace=%d",N,T,ox,g,dname[k],inplace);
      fillv(in0,tot,k,N*3+T);
      /* C twin */
      poison(bc,CBN-8); memcpy(bc+16+ox,in0,tot*sizeof(float)); xc=bc+16+ox+T+2; yc= inplace? xc : oc+16+((ox+1)&3);
      if(!inplace) for(i=-4;i<N+4;i++) yc[i]=-77.f;
      c15_comb_filter_const_c(yc,xc,T,N,G[g][0],G[g][1],G[g][2]);
      bad=comb_local(in0,yc,T,N,G[g],inplace,&want);
      if(bad>=0) mc_fail("direct:comb_filter_const:c_reference:recurrence","comb_filter_const_c(N=%d,T=%d,gains %d,%s,%s): y[%d]=%.9g, recurrence gives %.9g",N,T,g,dname[k],inplace?"in place":"out of place",bad,yc[bad],want);
      for(a=0;a<=MAXL;a++){ float *xs,*ys; const char *cl=NULL; int bi=-1;
         poison(bs,CBN-8); memcpy(bs+16+ox,in0,tot*sizeof(float)); xs=bs+16+ox+T+2; ys= inplace? xs : os+16+((ox+1)&3);
         if(!inplace) for(i=-4;i<N+4;i++) ys[i]=-77.f;
         comb_filter_const(ys,xs,T,N,G[g][0],G[g][1],G[g][2],a); l_eval++;
         bi=comb_local(in0,ys,T,N,G[g],inplace,&want); if(bi>=0) cl="beyond_reassociation_bound";
         if(!cl && !inplace){ for(i=0;i<N;i++){ double mag=fabs((double)in0[T+2+i])+fabs(G[g][0]*(double)in0[2+i])+fabs((double)G[g][1])*(fabs(in0[3+i])+fabs(in0[1+i]))+fabs((double)G[g][2])*(fabs(in0[4+i])+fabs(in0[i]));
               if(!fclose_enough(ys[i],yc[i],8*EPSF*mag+1e-30)){ cl="beyond_reassociation_bound"; bi=i; want=yc[i]; break; } }
            if(!cl) for(i=-4;i<N+4;i++) if((i<0||i>=N)&&ys[i]!=-77.f){ cl="writes_outside_output"; bi=i; want=-77; break; } }
         if(!cl && memcmp(bs+16+ox,in0,(T+2)*sizeof(float))){ cl="writes_outside_output"; bi=-1; }
         if(cl){ char sig[96]; snprintf(sig,sizeof sig,"direct:comb_filter_const:level%d:%s",a,cl);
            mc_fail(sig,"comb_filter_const(N=%d, T=%d, offset %d, gains (%g,%g,%g), data %s, %s) at level %d (%s): y[%d] = %.9g, C/recurrence = %.9g",N,T,ox,G[g][0],G[g][1],G[g][2],dname[k],inplace?"in place":"out of place",a,c15_level_name[a],bi,bi>=0?ys[bi]:0.,want); }
         note(5,a,(N>>2)&3,ox,g*8+k,inplace*2+(N>0&&!memcmp(ys,yc,N*sizeof(float))));
         if(a==MAXL&&N==120&&T==15&&inplace&&k==D_NOISE&&g==0&&once(5)) mc_sample("comb_filter_const(N=120, T=15, in place, gains (%g,%g,%g), data %s, offset %d): level %d y[0]=%.9g y[119]=%.9g; comb_filter_const_c y[0]=%.9g y[119]=%.9g; every sample within 8*2^-23*sum|terms| of the C recurrence",G[g][0],G[g][1],G[g][2],dname[k],ox,a,ys[0],ys[119],yc[0],yc[119]); }
   }
}

/* ================================================================== op_pvq_search (float) over every (N,K) the codec can pass */
static int pvqN[256],pvqKn[256],pvqK[256][48],npvq;
static void mk_pvq_shapes(void){
   const CELTMode *m=opus_custom_mode_create(48000,960,NULL); int LM,i,q,k; npvq=0;
   for(LM=-1;LM<=m->maxLM;LM++) for(i=0;i<m->nbEBands;i++){
      int w=m->eBands[i+1]-m->eBands[i], N= LM<0? w>>1 : w<<LM, idx=-1; const unsigned char *cache;
      if(N<2) continue;
      cache=m->cache.bits+m->cache.index[(LM+1)*m->nbEBands+i];
      for(k=0;k<npvq;k++) if(pvqN[k]==N) idx=k;
      if(idx<0){ idx=npvq++; pvqN[idx]=N; pvqKn[idx]=0; }
      for(q=1;q<=cache[0];q++){ int K=get_pulses(q),dup=0; for(k=0;k<pvqKn[idx];k++) if(pvqK[idx][k]==K) dup=1; if(!dup) pvqK[idx][pvqKn[idx]++]=K; }
   }
}
static double pvq_corr(const float *X,const int *iy,int N,double *yy,long *np,int *signbad){
   double xy=0,y2=0; long n=0; int i; *signbad=0;
   for(i=0;i<N;i++){ xy+=fabs((double)X[i])*abs(iy[i]); y2+=(double)iy[i]*iy[i]; n+=abs(iy[i]); if(iy[i]!=0 && ((iy[i]<0)!=(X[i]<0))) *signbad=1; }
   *yy=y2; *np=n; return y2>0? xy/sqrt(y2):0; }
static void pvq_case(int N,int K,int ox,const float *src,const char *what,int kindid){
   static int iyb[2][256+16]; float *Xc=vb_at(&BX,ox,N+3),*Xs=vb_at(&BY,ox,N+3); int *ic=iyb[0]+4,*is=iyb[1]+4+(ox&1); int a,i,sb; double yyc,cc; long npc; float rc;
   memcpy(Xc,src,N*sizeof(float)); for(i=-4;i<N+8;i++) ic[i]=-7777;
   mc_case("direct:op_pvq_search","N=%d K=%d off=%d data=%s",N,K,ox,what);
   rc=op_pvq_search_c(Xc,ic,K,N,0);
   cc=pvq_corr(src,ic,N,&yyc,&npc,&sb);
   for(a=0;a<=MAXL;a++){ float rs; double yys,cs; long nps; int sbs; const char *cl=NULL;
      memcpy(Xs,src,N*sizeof(float)); for(i=-4;i<N+8;i++) is[i]=-7777;
      rs=op_pvq_search(Xs,is,K,N,a); l_eval++;
      cs=pvq_corr(src,is,N,&yys,&nps,&sbs);
      if(nps!=K) cl="pulse_count"; else if(sbs) cl="sign"; else if((double)rs!=yys) cl="returned_yy";
      else if(is[-1]!=-7777||is[N+3]!=-7777) cl="writes_outside_iy";
      else if(fabs(cs-cc)>PVQ_TOL*fabs(cc)+1e-12) cl="correlation";
      if(cc>0){ long ppm=(long)(fabs(cs-cc)/cc*1e6); if(ppm>l_pvq_worst_ppm) l_pvq_worst_ppm=ppm; if(ppm>l_pvq_kc[kclass(K)]) l_pvq_kc[kclass(K)]=ppm; }
      if(!memcmp(is,ic,N*sizeof(int))) l_pvq_same++; else l_pvq_diff++;
      if(cl){ char sig[96]; snprintf(sig,sizeof sig,"direct:op_pvq_search:level%d:%s",a,cl);
         mc_fail(sig,"op_pvq_search(N=%d, K=%d, X offset %d, X=%s) at level %d (%s): pulses %ld (want %d), sign mismatch %d, returned yy %.9g vs sum iy^2 %.9g, normalised correlation %.9g vs C %.9g (C: pulses %ld yy %.9g)",N,K,ox,what,a,c15_level_name[a],nps,K,sbs,rs,yys,cs,cc,npc,(double)rc); }
      note(6,a,N,(K>(N>>1))*4+ox,kindid,memcmp(is,ic,N*sizeof(int))!=0);
      if(a==MAXL&&N==16&&kindid==21&&memcmp(is,ic,N*sizeof(int))&&once(6)) mc_sample("op_pvq_search(N=16, K=%d, X=%s, offset %d): level %d returns another vector than C (iy[0..3] = %d %d %d %d vs %d %d %d %d), both %d pulses, yy %g vs %g, normalised correlation %.6f vs %.6f (tolerance %.0e relative)",K,what,ox,a,is[0],is[1],is[2],is[3],ic[0],ic[1],ic[2],ic[3],K,(double)rs,(double)rc,cs,cc,PVQ_TOL);
      if(a==MAXL&&N==176&&K==8&&kindid==20&&once(7)) mc_sample("op_pvq_search(N=176, K=8, X=%s, offset %d): level %d yy %g, correlation %.6f; C yy %g, correlation %.6f; same vector: %s",what,ox,a,(double)rs,cs,(double)rc,cc,memcmp(is,ic,N*sizeof(int))?"no":"yes"); }
   /* the C reference itself must satisfy the structural clauses, otherwise the comparison is void */
   if(npc!=K||sb||(double)rc!=yyc) mc_fail("direct:op_pvq_search:c_reference:structural","op_pvq_search_c(N=%d,K=%d,%s): pulses %ld sign %d yy %.9g/%.9g",N,K,what,npc,sb,(double)rc,yyc);
}
static void t_pvq(int lo,int hi){
   int s,ki,ox,k,i,q; static float src[260];
   for(s=lo;s<=hi&&s<npvq;s++){ int N=pvqN[s];
      for(ki=0;ki<pvqKn[s];ki++){ int K=pvqK[s][ki];
         for(ox=0;ox<4;ox++){
            /* raw kinds (degenerate paths: zero / huge sum) and unit-norm versions */
            for(k=0;k<D_NKIND;k++){ double e=0; fillv(src,N,k,N*5+K); pvq_case(N,K,ox,src,dname[k],k);
               for(i=0;i<N;i++) e+=(double)src[i]*src[i]; if(e>0){ float g=(float)(1./sqrt(e)); char w[48]; for(i=0;i<N;i++) src[i]*=g; snprintf(w,sizeof w,"unit-norm %s",dname[k]); pvq_case(N,K,ox,src,w,8+k); } }
            /* several unit-norm noise vectors: uniform and peaky (cubed) */
            for(q=0;q<(thorough?24:6);q++){ double e=0; char w[48]; lcgs=(unsigned)(N*131+K*7+q*977+ox); for(i=0;i<N;i++){ float v=(float)lcg16()/32768.f; if(q&1) v=v*v*v; src[i]=v; e+=(double)v*v; }
               if(e>0){ float g=(float)(1./sqrt(e)); for(i=0;i<N;i++) src[i]*=g; } snprintf(w,sizeof w,"unit-norm %s noise #%d",(q&1)?"peaky":"uniform",q); pvq_case(N,K,ox,src,w,20+(q&1)); }
         }
         /* single impulse at every position */
         for(q=0;q<N;q++){ memset(src,0,sizeof src); src[q]=(q&1)?-1.f:1.f; pvq_case(N,K,q&3,src,"unit impulse",30); l_impulse++; }
      } }
}

/* ================================================================== silk_inner_product_FLP (float build; double accumulators) */
static void t_silkip(int lo,int hi){
   int N,ox,oy,p,a,i;
   for(N=lo;N<=hi;N++) for(ox=0;ox<4;ox++) for(oy=0;oy<4;oy++) for(p=0;p<npairs;p++){
      vec_t *x=vb_at(&BX,ox,N),*y=vb_at(&BY,oy,N); double ref,mag=0;
      fillv(x,N,pairs[p][0],N*7+ox); fillv(y,N,pairs[p][1],N*13+oy+100);
      mc_case("direct:silk_inner_product_FLP","N=%d offx=%d offy=%d x=%s y=%s",N,ox,oy,dname[pairs[p][0]],dname[pairs[p][1]]);
      ref=silk_inner_product_FLP_c(x,y,N); for(i=0;i<N;i++) mag+=fabs((double)x[i]*y[i]);
      for(a=0;a<=MAXL;a++){ double got=silk_inner_product_FLP(x,y,N,a); l_eval++;
         if(!fclose_enough(got,ref,(N+8)*EPSD*mag+1e-300)){ char sig[96]; snprintf(sig,sizeof sig,"direct:silk_inner_product_FLP:level%d:beyond_reassociation_bound",a);
            mc_fail(sig,"silk_inner_product_FLP(N=%d, offsets %d/%d, x=%s, y=%s) at level %d (%s) = %.17g, C = %.17g, bound %.3g",N,ox,oy,dname[pairs[p][0]],dname[pairs[p][1]],a,c15_level_name[a],got,ref,(N+8)*EPSD*mag); }
         note(7,a,N&15,ox*4+oy,p,got==ref);
         if(a==MAXL&&N==333&&ox==2&&oy==1&&pairs[p][0]==D_NOISE&&pairs[p][1]==D_NOISE&&once(8)) mc_sample("silk_inner_product_FLP(N=333, offsets 2/1, x=%s, y=%s) via SILK_INNER_PRODUCT_FLP_IMPL[%d] = %.17g, _c = %.17g, bound (N+8)*2^-52*sum|xy| = %.3g",dname[pairs[p][0]],dname[pairs[p][1]],a,got,ref,(N+8)*EPSD*mag); } }
   for(N=lo;N<=hi;N++) for(ox=0;ox<4;ox++){ int q; vec_t *x=vb_at(&BX,ox,N),*y=vb_at(&BY,(2*ox+1)&3,N); fillv(x,N,D_ZERO,0); fillv(y,N,D_NOISE,N+ox);
      mc_case("direct:silk_inner_product_FLP","impulse N=%d offx=%d",N,ox);
      for(q=0;q<N;q++){ double ref; x[q]=VMAX; ref=silk_inner_product_FLP_c(x,y,N);
         for(a=0;a<=MAXL;a++){ double got=silk_inner_product_FLP(x,y,N,a); l_eval++; l_impulse++;
            if(!fclose_enough(got,ref,(N+8)*EPSD*fabs((double)VMAX*y[q])+1e-300)){ char sig[96]; snprintf(sig,sizeof sig,"direct:silk_inner_product_FLP:level%d:impulse_lane",a);
               mc_fail(sig,"silk_inner_product_FLP(N=%d, offset %d), x = impulse at %d: level %d (%s) %.17g, C %.17g",N,ox,q,a,c15_level_name[a],got,ref); } }
         x[q]=0; }
      note(7,9,N&15,ox,99,1); }
}
#endif /* !FIXED_POINT */

#ifdef FIXED_POINT
/* ================================================================== celt_fir (fixed). ord >= 3 (xcorr_kernel precondition); the codec passes ord = 24. */
static long l_firskip; static mc_ctr *c_firskip;
static void t_fir(int lo,int hi){
   int ord,N,ox,on,p,a,i; unsigned char *dom; static opus_int16 numb[64+8],yr[1200+16],yg[1200+16];
   for(ord=lo;ord<=hi;ord++){ int Nmax = ord==24? (LMAX>1100?1100:LMAX) : (thorough?260:72);
      for(N=0;N<=Nmax;N++){ if(ord==24 && !thorough && N>300 && (N%37) && N<Nmax-8) continue;
       for(ox=0;ox<4;ox++) for(p=0;p<npairs;p++){
         opus_int16 *xs=vb_at(&BX,ox,N+ord), *x=xs+ord, *num=numb+4+((ox+p)&3), *r=yr+8, *g=yg+8+((ox+1)&3);
         if(!thorough && N>40 && ((p+ox+N)%3)) continue;
         on=(ox+p)&3; (void)on;
         fillv(xs,N+ord,pairs[p][0],N*7+ord); fillv(num,ord,pairs[p][1],ord*3+p+500);
         /* precondition established by the only caller (celt_decoder.c, PLC): QCONST16(1,SIG_SHIFT) + sum|num| < 65535, "so that no overflow can
            happen" in the 32-bit accumulation. Coefficient vectors are scaled down onto that boundary (extreme but inside the contract). */
         { long A=0; for(i=0;i<ord;i++) A+=abs(num[i]); if(4096+A>=65535) for(i=0;i<ord;i++) num[i]=(opus_int16)((long)num[i]*61438/A); }
         mc_case("direct:celt_fir","N=%d ord=%d offx=%d x=%s num=%s",N,ord,ox,dname[pairs[p][0]],dname[pairs[p][1]]);
         for(i=-4;i<N+4;i++) r[i]=g[i]=0x3A3A;
         /* domain of the C twin: its 32-bit accumulator (x[i]<<SIG_SHIFT) + sum num*x (+ rounding) must not overflow (signed overflow is
            undefined in C; there the C code and the SIMD code, which adds x[i] after the shift, wrap differently). Outputs outside are not compared. */
         { static unsigned char domb[1200+16]; int j; dom=domb; for(i=0;i<N;i++){ long long t=((long long)x[i]<<SIG_SHIFT)+2048, mx=t, mn=t; for(j=0;j<ord;j++){ t+=(long long)num[ord-1-j]*x[i+j-ord]; if(t>mx) mx=t; if(t<mn) mn=t; }
              dom[i]= (mx<=2147483647LL && mn>=-2147483648LL-0); if(!dom[i]) l_firskip++; } }
         celt_fir_c(x,num,r,N,ord,0);
         for(a=0;a<=MAXL;a++){ int bad=-100,rail=-100; for(i=-4;i<N+4;i++) g[i]=0x3A3A; celt_fir(x,num,g,N,ord,a); l_eval++;
            for(i=-4;i<N+4;i++) if(g[i]!=r[i]){ if(i>=0&&i<N&&!dom[i]) continue; if(i>=0&&i<N&&r[i]==-32767&&g[i]==-32768){ if(rail==-100) rail=i; } else { bad=i; break; } }
            if(bad!=-100){ char sig[96]; snprintf(sig,sizeof sig,"direct:celt_fir:level%d:%s",a,(bad<0||bad>=N)?"writes_outside_output":"not_bit_identical");
               mc_fail(sig,"celt_fir(N=%d, ord=%d, x offset %d, x=%s, num=%s) at level %d (%s): y[%d] = %d, celt_fir_c (arch 0) = %d",N,ord,ox,dname[pairs[p][0]],dname[pairs[p][1]],a,c15_level_name[a],bad,g[bad],r[bad]); }
            else if(rail!=-100){ char sig[96]; snprintf(sig,sizeof sig,"direct:celt_fir:level%d:negative_rail_-32768_where_c_gives_-32767",a);
               /* the ONLY difference: the C code saturates to [-32767,32767] (SROUND16), the SIMD code to [-32768,32767] (_mm_packs_epi32 / SATURATE16) */
               mc_fail(sig,"celt_fir(N=%d, ord=%d, x offset %d, x=%s, num=%s; x[%d]=%d) at level %d (%s): y[%d] = -32768 where celt_fir_c gives -32767 (negative saturation rail differs; no other sample differs)",N,ord,ox,dname[pairs[p][0]],dname[pairs[p][1]],rail,x[rail],a,c15_level_name[a],rail); }
            else l_exact++;
            note(8,a,(N&3)*8+(ord&7),ox,p,1);
            if(a==MAXL&&ord==24&&N==203&&pairs[p][0]==D_NOISE&&pairs[p][1]==D_NOISE&&once(9)) mc_sample("celt_fir(N=203, ord=24, x offset %d, x=%s, num=%s scaled into 4096+sum|num|<65535) via CELT_FIR_IMPL[%d]: y[0]=%d y[202]=%d; celt_fir_c: y[0]=%d y[202]=%d",ox,dname[pairs[p][0]],dname[pairs[p][1]],a,g[0],g[202],r[0],r[202]); } } } }
}
/* ================================================================== silk_inner_prod16 (fixed; 64-bit result) */
static void t_ip16(int lo,int hi){
   int N,ox,oy,p,a;
   for(N=lo;N<=hi;N++) for(ox=0;ox<4;ox++) for(oy=0;oy<4;oy++) for(p=0;p<npairs;p++){
      vec_t *x=vb_at(&BX,ox,N),*y=vb_at(&BY,oy,N); opus_int64 ref;
      fillv(x,N,pairs[p][0],N*7+ox); fillv(y,N,pairs[p][1],N*13+oy+100);
      mc_case("direct:silk_inner_prod16","N=%d offx=%d offy=%d x=%s y=%s",N,ox,oy,dname[pairs[p][0]],dname[pairs[p][1]]);
      ref=silk_inner_prod16_c(x,y,N);
      for(a=0;a<=MAXL;a++){ opus_int64 got=silk_inner_prod16(x,y,N,a); l_eval++;
         if(got!=ref){ char sig[96]; snprintf(sig,sizeof sig,"direct:silk_inner_prod16:level%d:not_bit_identical",a);
            mc_fail(sig,"silk_inner_prod16(len=%d, offsets %d/%d, x=%s, y=%s) at level %d (%s) = %lld, C = %lld",N,ox,oy,dname[pairs[p][0]],dname[pairs[p][1]],a,c15_level_name[a],(long long)got,(long long)ref); }
         else l_exact++;
         note(9,a,N&15,ox*4+oy,p,ref!=0);
         if(a==MAXL&&N==1021&&ox==3&&oy==1&&pairs[p][0]==D_NMAX&&pairs[p][1]==D_NMAX&&once(10)) mc_sample("silk_inner_prod16(len=1021, offsets 3/1, x=%s, y=%s) via SILK_INNER_PROD16_IMPL[%d] = %lld == _c %lld",dname[pairs[p][0]],dname[pairs[p][1]],a,(long long)got,(long long)ref); } }
   for(N=lo;N<=hi;N++) for(ox=0;ox<4;ox++){ int q; vec_t *x=vb_at(&BX,ox,N),*y=vb_at(&BY,(2*ox+1)&3,N); fillv(x,N,D_ZERO,0); fillv(y,N,D_NOISE,N+ox);
      mc_case("direct:silk_inner_prod16","impulse N=%d offx=%d",N,ox);
      for(q=0;q<N;q++){ opus_int64 ref; x[q]=VMIN; ref=silk_inner_prod16_c(x,y,N);
         for(a=0;a<=MAXL;a++){ opus_int64 got=silk_inner_prod16(x,y,N,a); l_eval++; l_impulse++;
            if(got!=ref){ char sig[96]; snprintf(sig,sizeof sig,"direct:silk_inner_prod16:level%d:impulse_lane",a);
               mc_fail(sig,"silk_inner_prod16(len=%d, offset %d), x = impulse at %d: level %d (%s) %lld, C %lld",N,ox,q,a,c15_level_name[a],(long long)got,(long long)ref); } else l_exact++; }
         x[q]=0; }
      note(9,9,N&15,ox,99,1); }
}
/* ================================================================== silk_burg_modified (fixed) */
#include <setjmp.h>
#include <signal.h>
static sigjmp_buf trapjb; static void on_fpe(int s){ (void)s; siglongjmp(trapjb,1); }
static long l_ctrap,l_burgsimd; static mc_ctr *c_ctrap,*c_burgsimd;
static void t_burg(int lo,int hi){
   signal(SIGFPE,on_fpe);
   /* item index = D*8 + nb_subfr */
   static const opus_int32 MIG[4]={107374, 1<<20, 1<<29, 1};   /* 1/1e4 in Q30 (MAX_PREDICTION_POWER_GAIN), and three others */
   int it;
   for(it=lo;it<=hi;it++){ int D=it>>3, nb=it&7, sl, ox, k, sh, mg, a; if(nb<1||nb>4||D<2||D>16||(D&1)) continue;
      if(!thorough && D!=10 && D!=16 && D!=6) continue;
      for(sl=D+3; sl*nb<=384 && sl<=128; sl++){
         int codec = (D==10&&(sl==50||sl==70)) || (D==16&&sl==96);
         if(!thorough && !codec && (sl%7)!=(D%7)) continue;
         for(ox=0;ox<4;ox++) for(k=0;k<D_NKIND;k++) for(sh=0;sh<12;sh+=(thorough?1:3)) for(mg=0;mg<4;mg++){
            opus_int16 *x=vb_at(&BX,ox,sl*nb); opus_int32 rn,gn,rA[24],gA[24]; opus_int rq,gq;
            if(k==D_ZERO && sh>0) continue;
            if(!thorough && !codec && mg>1) continue;
            fill16(x,sl*nb,k,sl*31+nb*7+D,sh);
            mc_case("direct:silk_burg_modified","subfr_length=%d nb_subfr=%d D=%d off=%d data=%s>>%d minInvGain_Q30=%d",sl,nb,D,ox,dname[k],sh,MIG[mg]);
            memset(rA,0x11,sizeof rA); rn=rq=-1;
            /* the portable C code itself divides by zero on some extreme inputs (e.g. a constant -32768): no C result exists to compare with */
            if(sigsetjmp(trapjb,1)){ l_ctrap++; continue; }
            silk_burg_modified_c(&rn,&rq,rA,x,MIG[mg],sl,nb,D,0); if(rq>=2) l_burgsimd++;   /* res_nrg_Q = -rshifts: rshifts <= -2 is the vectorised branch */
            for(a=0;a<=MAXL;a++){ memset(gA,0x11,sizeof gA); gn=gq=-1;
               if(sigsetjmp(trapjb,1)){ char sig[96]; snprintf(sig,sizeof sig,"direct:silk_burg_modified:level%d:traps_where_c_returns",a);
                  mc_fail(sig,"silk_burg_modified(subfr_length=%d, nb_subfr=%d, D=%d, x offset %d, x=%s>>%d, minInvGain_Q30=%d) raises SIGFPE at level %d (%s); the C code returns res_nrg %d Q%d",sl,nb,D,ox,dname[k],sh,MIG[mg],a,c15_level_name[a],rn,rq); continue; }
               silk_burg_modified(&gn,&gq,gA,x,MIG[mg],sl,nb,D,a); l_eval++;
               if(gn!=rn||gq!=rq||memcmp(gA,rA,sizeof gA)){ char sig[96]; int j,bj=-1; for(j=0;j<24;j++) if(gA[j]!=rA[j]){ bj=j; break; } snprintf(sig,sizeof sig,"direct:silk_burg_modified:level%d:not_bit_identical",a);
                  mc_fail(sig,"silk_burg_modified(subfr_length=%d, nb_subfr=%d, D=%d, x offset %d, x=%s>>%d, minInvGain_Q30=%d) at level %d (%s): res_nrg %d Q%d, C: %d Q%d; first differing A_Q16 index %d (%d vs %d)",sl,nb,D,ox,dname[k],sh,MIG[mg],a,c15_level_name[a],gn,gq,rn,rq,bj,bj>=0?gA[bj]:0,bj>=0?rA[bj]:0); }
               else l_exact++;
               note(10,a,D*8+nb,ox,k*16+sh,(rq<0)*2+(mg&1));
               if(a==MAXL&&D==16&&sl==96&&nb==4&&rq>=2&&k==D_NOISE&&once(11)) mc_sample("silk_burg_modified(subfr_length=96, nb_subfr=4, D=16, x=%s>>%d (low energy: res_nrg_Q=%d, vectorised branch), minInvGain_Q30=%d) via SILK_BURG_MODIFIED_IMPL[%d]: res_nrg %d A_Q16[0]=%d A_Q16[15]=%d == _c",dname[k],sh,rq,MIG[mg],a,gn,gA[0],gA[15]); } } } }
}
#endif

/* ================================================================== silk_VQ_WMat_EC (integer; both builds) with the three real LTP codebooks */
static void t_vq(int lo,int hi){
   int it;
   for(it=lo;it<=hi;it++){ int cbk=it%3, kind=(it/3)%D_NKIND, sc=it/(3*D_NKIND);   /* sc: scale shift 0..5 */
      const opus_int8 *cb=silk_LTP_vq_ptrs_Q7[cbk]; const opus_uint8 *cbg=silk_LTP_vq_gain_ptrs_Q7[cbk], *cl=silk_LTP_gain_BITS_Q5_ptrs[cbk]; int L=silk_LTP_vq_sizes[cbk];
      int sl,mgi,ox,v,a,i,j; static opus_int32 XXb[40+8],xXb[16+8];
      static const opus_int32 MG[6]={0,1,51,128,1000,32767};
      if(sc>5) continue;
      for(sl=40;sl<=80;sl+=20) for(mgi=0;mgi<6;mgi++) for(ox=0;ox<4;ox++) for(v=0;v<(thorough?48:16);v++){
         opus_int32 *XX=XXb+4+ox,*xX=xXb+4+((ox+1)&3); opus_int8 ri,gi; opus_int32 rn,rr,gn,gr; opus_int rg,gg;
         /* v<4: raw alphabet fill of all 25+5 entries; v>=4: symmetric correlation matrix of a 5-tap window of an int16 sequence, normalised to Q17 like find_LTP */
         if(v<4){ lcgs=(unsigned)(it*977+v*31+sl); for(i=0;i<30;i++){ long long val; switch(kind){ case D_ZERO: val=0; break; case D_PMAX: val=0x7FFFFFFF; break; case D_NMAX: val=-0x7FFFFFFF-1; break; case D_ALT: val=(i&1)?-0x7FFFFFFF-1:0x7FFFFFFF; break; case D_RAMP: val=(long long)(i-15)*(1<<(17-v)); break; case D_NOISE: val=(long long)lcg16()*65536+lcg16(); break; default: val=lcg16()*4; break; }
               val>>= (sc*5); if(v&1) val=-val; if(i<25) XX[i]=(opus_int32)val; else xX[i-25]=(opus_int32)val; } }
         else { opus_int16 s[96]; double c[5][5],cx[5],nrm; fill16(s,96,kind,it*131+v,sc*2); for(i=0;i<5;i++){ for(j=0;j<5;j++){ double acc=0; int n; for(n=0;n<sl;n++) acc+=(double)s[8+n-i]*s[8+n-j]; c[i][j]=acc; } { double acc=0; int n; for(n=0;n<sl;n++) acc+=(double)s[8+n-i]*s[10+n+(v&3)]; cx[i]=acc; } }
            nrm=c[0][0]>c[4][4]?c[0][0]:c[4][4]; nrm=nrm*(1.0+0.03*(v>>2))+1; for(i=0;i<5;i++){ for(j=0;j<5;j++) XX[i*5+j]=(opus_int32)lrint(c[i][j]/nrm*131072.0); xX[i]=(opus_int32)lrint(cx[i]/nrm*131072.0); } }
         mc_case("direct:silk_VQ_WMat_EC","cbk=%d L=%d subfr_len=%d max_gain_Q7=%d off=%d data=%s scale=%d variant=%d XX=%s",cbk,L,sl,MG[mgi],ox,dname[kind],sc,v,mc_hex(XX,100));
         ri=77; rn=rr=-77; rg=-77; silk_VQ_WMat_EC_c(&ri,&rn,&rr,&rg,XX,xX,cb,cbg,cl,sl,MG[mgi],L);
         for(a=0;a<=MAXL;a++){ gi=77; gn=gr=-77; gg=-77; silk_VQ_WMat_EC(&gi,&gn,&gr,&gg,XX,xX,cb,cbg,cl,sl,MG[mgi],L,a); l_eval++;
            if(gi!=ri||gn!=rn||gr!=rr||gg!=rg){ char sig[96]; snprintf(sig,sizeof sig,"direct:silk_VQ_WMat_EC:level%d:not_bit_identical",a);
               mc_fail(sig,"silk_VQ_WMat_EC(codebook %d (L=%d), subfr_len=%d, max_gain_Q7=%d, XX offset %d, data %s scale %d variant %d, XX_Q17|xX_Q17 bytes %s | %s) at level %d (%s): ind %d res_nrg_Q15 %d rate_dist_Q8 %d gain_Q7 %d; C: %d %d %d %d",cbk,L,sl,MG[mgi],ox,dname[kind],sc,v,mc_hex(XX,100),mc_hex(xX,20),a,c15_level_name[a],gi,gn,gr,gg,ri,rn,rr,rg); }
            else l_exact++;
            note(11,a,cbk*4+(sl/20-2),ox,kind*8+sc,(ri&31)+(rn==0x7FFFFFFF?64:0));
            if(a==MAXL&&cbk==2&&sl==80&&v==5&&kind==D_NOISE&&mgi==2&&once(12)) mc_sample("silk_VQ_WMat_EC(codebook 2 (L=32), subfr_len=80, max_gain_Q7=51, XX/xX = Q17-normalised 5-tap correlation of %s>>%d, XX offset %d) via SILK_VQ_WMAT_EC_IMPL[%d]: ind %d res_nrg_Q15 %d rate_dist_Q8 %d gain_Q7 %d == _c",dname[kind],sc*2,ox,a,gi,gn,gr,gg); } }
   }
}

/* ================================================================== silk_VAD_GetSA_Q8 (integer; both builds): whole encoder-state images over frame sequences */
static void t_vad(int lo,int hi){
   int fl,fsk,k,ox,sh,f,a; static silk_encoder_state Sc,Ss; static opus_int16 pin[8][MAX_FRAME_LENGTH+16];
   for(fl=lo;fl<=hi;fl+=8) for(fsk=8;fsk<=16;fsk+=4) for(k=0;k<D_NKIND;k++) for(sh=0;sh<12;sh+=3) for(ox=0;ox<4;ox++){
      int codec = (fl==10*fsk||fl==20*fsk);
      if(fl<8||fl>MAX_FRAME_LENGTH) continue;   /* hardening assert in both implementations: frame_length <= MAX_FRAME_LENGTH */
      if(k==D_ZERO&&sh) continue;
      if(!thorough && !codec && ((fl>>3)+k+ox)%4) continue;
      for(f=0;f<8;f++) fill16(pin[f]+4+ox,fl,(f==3)?D_ZERO:((f==5)?D_NOISE:k),fl*3+f*101+k,(f&1)?sh:(sh+1)%12);
      for(a=0;a<=MAXL;a++){
         memset(&Sc,0,sizeof Sc); memset(&Ss,0,sizeof Ss); silk_VAD_Init(&Sc.sVAD); silk_VAD_Init(&Ss.sVAD);
         Sc.frame_length=Ss.frame_length=fl; Sc.fs_kHz=Ss.fs_kHz=fsk; Sc.arch=Ss.arch=a;
         mc_case("direct:silk_VAD_GetSA_Q8","frame_length=%d fs_kHz=%d data=%s>>%d off=%d level=%d",fl,fsk,dname[k],sh,ox,a);
         for(f=0;f<8;f++){ int rc=silk_VAD_GetSA_Q8_c(&Sc,pin[f]+4+ox), rs=silk_VAD_GetSA_Q8(&Ss,pin[f]+4+ox,a); l_eval++;
            if(rc!=rs||memcmp(&Sc,&Ss,sizeof Sc)){ char sig[96]; size_t o; const unsigned char *p1=(void*)&Sc,*p2=(void*)&Ss; for(o=0;o<sizeof Sc;o++) if(p1[o]!=p2[o]) break;
               snprintf(sig,sizeof sig,"direct:silk_VAD_GetSA_Q8:level%d:not_bit_identical",a);
               mc_fail(sig,"silk_VAD_GetSA_Q8(frame_length=%d, fs_kHz=%d, input %s>>%d at offset %d) frame %d at level %d (%s): return %d vs C %d; encoder state differs first at byte %zu; speech_activity_Q8 %d vs %d, input_tilt_Q15 %d vs %d",fl,fsk,dname[k],sh,ox,f,a,c15_level_name[a],rs,rc,o,Ss.speech_activity_Q8,Sc.speech_activity_Q8,Ss.input_tilt_Q15,Sc.input_tilt_Q15); break; }
            else l_exact++;
            note(12,a,(fl>>3),ox,k*4+sh/3,(Sc.speech_activity_Q8>>5));
            if(a==MAXL&&fl==320&&fsk==16&&f==7&&k==D_NOISE&&sh==3&&once(13)) mc_sample("silk_VAD_GetSA_Q8(frame_length=320, fs_kHz=16, pIn offset %d, 8 frames of %s>>%d) via SILK_VAD_GETSA_Q8_IMPL[%d]: after frame 7 speech_activity_Q8=%d input_tilt_Q15=%d; return value and the whole %zu-byte silk_encoder_state image equal to the _c run after every frame",ox,dname[k],sh,a,Ss.speech_activity_Q8,Ss.input_tilt_Q15,sizeof Ss); } } }
}

/* ================================================================== work items */
enum { K_INNER=1,K_XCORRK,K_PITCHX0,K_PITCHX1,K_DUAL,K_COMB,K_PVQ,K_SILKIP,K_FIR,K_IP16,K_BURG,K_VQ,K_VAD };
typedef struct { int k,lo,hi; } witem;
static witem W[4096]; static int NW;
static void add(int k,int lo,int hi,int step){ int a; for(a=lo;a<=hi;a+=step){ W[NW].k=k; W[NW].lo=a; W[NW].hi=a+step-1>hi?hi:a+step-1; NW++; } }
static void item(long it,void *ctx){ witem *w=&W[it]; (void)ctx;
   switch(w->k){
   case K_INNER: t_inner(w->lo,w->hi); break;
   case K_XCORRK: t_xcorrk(w->lo,w->hi); break;
   case K_PITCHX0: t_pitchx(w->lo,w->hi,0); break;
   case K_PITCHX1: t_pitchx(w->lo,w->hi,1); break;
#ifndef FIXED_POINT
   case K_DUAL: t_dual(w->lo,w->hi); break;
   case K_COMB: t_comb(w->lo,w->hi); break;
   case K_PVQ: t_pvq(w->lo,w->hi); break;
   case K_SILKIP: t_silkip(w->lo,w->hi); break;
#else
   case K_FIR: t_fir(w->lo,w->hi); break;
   case K_IP16: t_ip16(w->lo,w->hi); break;
   case K_BURG: t_burg(w->lo,w->hi); break;
#endif
   case K_VQ: t_vq(w->lo,w->hi); break;
   case K_VAD: t_vad(w->lo,w->hi); break;
   }
   flush_ctrs();
#ifdef FIXED_POINT
   MC_ADD(c_ctrap,l_ctrap); l_ctrap=0; MC_ADD(c_burgsimd,l_burgsimd); l_burgsimd=0; MC_ADD(c_firskip,l_firskip); l_firskip=0; signal(SIGFPE,SIG_DFL);
#endif
}

int main(int argc,char **argv){
   int det,bi,pmax; const char *only;
#ifdef FIXED_POINT
   mc_init(argc,argv,"C15","kernels-fixed");
#else
   mc_init(argc,argv,"C15","kernels-float");
#endif
   thorough=MC.tier; LMAX=(int)mc_arg("--lmax",thorough?2048:1024); pmax=(int)mc_arg("--pmax",thorough?512:260); only=mc_arg_s("--kernel","all");
   if(pmax>PMAXCAP-8) pmax=PMAXCAP-8;
   det=c15_detect_level(); bi=c15_builtin_level(); MAXL=det<4?det:4; if((int)mc_arg("--maxlevel",4)<MAXL) MAXL=(int)mc_arg("--maxlevel",4);
   mc_info("arch level detected by the library's own code (celt/x86/x86cpu.c): %d (%s); compiler builtin view: %d; levels exercised: 0..%d",det,det>=0&&det<=4?c15_level_name[det]:"?",bi,MAXL);
   if(det>bi) mc_fail("select_arch:claims_unsupported_level","opus_select_arch() code returns level %d but the CPU (per __builtin_cpu_supports) only supports level %d",det,bi);
   if(MAXL<4){ char why[128]; snprintf(why,sizeof why,"host CPU only reaches arch level %d: levels above it cannot be executed",MAXL); mc_capped(why); }
   c15_report_tables(MAXL);
   c_eval=mc_counter("evaluations"); c_exact=mc_counter("results_bit_identical"); c_inexact=mc_counter("float_results_differing_within_bound");
   c_worst_ppm=mc_counter("float_worst_diff_over_bound_ppm"); c_pvq_same=mc_counter("pvq_same_vector_as_c"); c_pvq_diff=mc_counter("pvq_other_vector_than_c");
   c_pvq_worst_ppm=mc_counter("pvq_worst_relative_correlation_deviation_ppm");
#ifndef FIXED_POINT
   { static const char *const kn[8]={"K1","K2","K3_4","K5_8","K9_16","K17_32","K33_64","K65_128"}; int i_; char nm[48]; for(i_=0;i_<8;i_++){ snprintf(nm,sizeof nm,"pvq_worst_corr_dev_ppm_%s",kn[i_]); c_pvq_kc[i_]=mc_counter(nm); } }
#endif
   c_impulse=mc_counter("impulse_position_cases");
#ifdef FIXED_POINT
   c_ctrap=mc_counter("burg_cases_skipped_because_c_reference_traps"); c_burgsimd=mc_counter("burg_cases_in_vectorised_low_energy_branch"); c_firskip=mc_counter("celt_fir_outputs_outside_c_domain");
#endif
   { mc_ctr *lv=mc_counter("arch_level_detected"); *lv=det; lv=mc_counter("arch_levels_exercised"); *lv=MAXL+1; }
   obs=mc_set_new(22); sflag=mc_shared(64*sizeof(int));
   mk_pairs();
   vb_init(&BX,LMAX+PMAXCAP+64); vb_init(&BY,LMAX+PMAXCAP+64); vb_init(&BZ,LMAX+64); vb_init(&BO,LMAX+64);
#define WANT(n) (!strcmp(only,"all")||!strcmp(only,n))
   if(WANT("celt_inner_prod")) add(K_INNER,0,LMAX,16);
   if(WANT("xcorr_kernel")) add(K_XCORRK,3,LMAX,16);
   if(WANT("celt_pitch_xcorr")){ add(K_PITCHX0,0,LMAX,8); add(K_PITCHX1,1,pmax,4); }
#ifndef FIXED_POINT
   mk_pvq_shapes();
   if(WANT("dual_inner_prod")) add(K_DUAL,0,LMAX,16);
   if(WANT("comb_filter_const")) add(K_COMB,0,960,16);
   if(WANT("op_pvq_search")) add(K_PVQ,0,npvq-1,1);
   if(WANT("silk_inner_product_FLP")) add(K_SILKIP,0,LMAX,16);
#else
   if(WANT("celt_fir")) add(K_FIR,3,32,1);
   if(WANT("silk_inner_prod16")) add(K_IP16,0,LMAX,16);
   if(WANT("silk_burg_modified")) add(K_BURG,2*8,16*8+7,1);
#endif
   if(WANT("silk_VQ_WMat_EC")) add(K_VQ,0,3*D_NKIND*6-1,1);
   if(WANT("silk_VAD_GetSA_Q8")) add(K_VAD,8,MAX_FRAME_LENGTH,8);
   mc_par(NW,item,NULL);
   { mc_ctr *st=mc_counter("states"),*tr=mc_counter("transitions"),*dn=mc_counter("distinct_nontrivial"); *st=mc_set_count(obs); *tr=*c_eval; *dn=mc_set_count(obs); }
   return mc_finish();
}
