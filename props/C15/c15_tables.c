/* c15_tables.c — arch-level interposition, the library's own CPU detection, and the mechanical cross-check of
 * the dispatch-table list (map files of the tree under test  vs  tables known to the harness  vs  symbols linked). */
#ifdef HAVE_CONFIG_H
#include "config.h"
#endif
#include <stdio.h>
#include <string.h>
#include <stdlib.h>
#include <ctype.h>
#include "mc.h"
#include "c15_common.h"

/* --- the library's detection code, compiled here under another name (the real one is interposed below) --- */
#include "cpu_support.h"
#define opus_select_arch c15_real_opus_select_arch
#include "celt/x86/x86cpu.c"
#undef opus_select_arch
int c15_detect_level(void){ return c15_real_opus_select_arch(); }
int c15_builtin_level(void){
   int l=0; __builtin_cpu_init();
   if(!__builtin_cpu_supports("sse")) return l; l++;
   if(!__builtin_cpu_supports("sse2")) return l; l++;
   if(!__builtin_cpu_supports("sse4.1")) return l; l++;
   if(!(__builtin_cpu_supports("avx2")&&__builtin_cpu_supports("fma")&&__builtin_cpu_supports("avx"))) return l; l++;
   return l;
}

/* --- interposition: this definition satisfies every reference in libopus.a --- */
int c15_level=0;
int opus_select_arch(void){ return c15_level; }

/* --- weak references to every table name the harness knows; which parts exercise it --- */
#define T(n) extern void *const c15w_##n[] __asm__(#n) __attribute__((weak));
T(CELT_FIR_IMPL) T(XCORR_KERNEL_IMPL) T(CELT_INNER_PROD_IMPL) T(PITCH_XCORR_IMPL) T(DUAL_INNER_PROD_IMPL)
T(COMB_FILTER_CONST_IMPL) T(OP_PVQ_SEARCH_IMPL) T(SILK_INNER_PROD16_IMPL) T(SILK_VAD_GETSA_Q8_IMPL) T(SILK_NSQ_IMPL)
T(SILK_VQ_WMAT_EC_IMPL) T(SILK_NSQ_DEL_DEC_IMPL) T(SILK_BURG_MODIFIED_IMPL) T(SILK_INNER_PRODUCT_FLP_IMPL)
#undef T
static const struct { const char *name; void *const *addr; const char *how; } KNOWN[]={
#define T(n,how) {#n,(void*const*)c15w_##n,how},
 T(CELT_FIR_IMPL,"direct: celt_fir() vs celt_fir_c")
 T(XCORR_KERNEL_IMPL,"direct: xcorr_kernel() vs xcorr_kernel_c")
 T(CELT_INNER_PROD_IMPL,"direct: celt_inner_prod() vs celt_inner_prod_c")
 T(PITCH_XCORR_IMPL,"direct: celt_pitch_xcorr() vs celt_pitch_xcorr_c")
 T(DUAL_INNER_PROD_IMPL,"direct: dual_inner_prod() vs dual_inner_prod_c")
 T(COMB_FILTER_CONST_IMPL,"direct: comb_filter_const() vs comb_filter_const_c")
 T(OP_PVQ_SEARCH_IMPL,"direct: op_pvq_search() vs op_pvq_search_c")
 T(SILK_INNER_PROD16_IMPL,"direct: silk_inner_prod16() vs silk_inner_prod16_c")
 T(SILK_VAD_GETSA_Q8_IMPL,"direct: silk_VAD_GetSA_Q8() vs _c on whole-state images; in situ under whole-codec load")
 T(SILK_NSQ_IMPL,"in situ under whole-codec load (table entry vs silk_NSQ_c on copies of the live state), OPUS_CHECK_ASM build, fixed-build packet identity")
 T(SILK_VQ_WMAT_EC_IMPL,"direct: silk_VQ_WMat_EC() vs _c with the three LTP codebooks; in situ under whole-codec load")
 T(SILK_NSQ_DEL_DEC_IMPL,"in situ under whole-codec load (table entry vs silk_NSQ_del_dec_c on copies of the live state), OPUS_CHECK_ASM build, fixed-build packet identity")
 T(SILK_BURG_MODIFIED_IMPL,"direct: silk_burg_modified() vs silk_burg_modified_c; in situ")
 T(SILK_INNER_PRODUCT_FLP_IMPL,"direct: silk_inner_product_FLP() vs silk_inner_product_FLP_c; in situ")
#undef T
};
#define NKNOWN ((int)(sizeof KNOWN/sizeof KNOWN[0]))
void *const *c15_table(const char *name){ int i; for(i=0;i<NKNOWN;i++) if(!strcmp(KNOWN[i].name,name)) return KNOWN[i].addr; return NULL; }

static int scan_map(const char *rel,char names[][64],int n,int max){
   char path[1024]; FILE *f; char *buf; long sz; long i;
   snprintf(path,sizeof path,"%s/%s",VERIF_REPO,rel);
   f=fopen(path,"rb"); if(!f){ mc_capped("dispatch map file of the tree could not be read; table list not cross-checked"); return n; }
   fseek(f,0,SEEK_END); sz=ftell(f); fseek(f,0,SEEK_SET); buf=malloc(sz+1); if(fread(buf,1,sz,f)!=(size_t)sz){ fclose(f); free(buf); return n; } buf[sz]=0; fclose(f);
   for(i=0;i+5<sz;i++){
      if(!memcmp(buf+i,"_IMPL",5) && !(isalnum((unsigned char)buf[i+5])||buf[i+5]=='_')){
         long e=i+5, s=i, k; while(s>0 && (isalnum((unsigned char)buf[s-1])||buf[s-1]=='_')) s--;
         k=e; while(buf[k]==' '||buf[k]=='\t') k++;
         if(buf[k]=='[' && e-s<63){ char nm[64]; int j,dup=0; memcpy(nm,buf+s,e-s); nm[e-s]=0; for(j=0;j<n;j++) if(!strcmp(names[j],nm)) dup=1; if(!dup&&n<max){ strcpy(names[n++],nm); } }
      }
   }
   free(buf); return n;
}

int c15_report_tables(int maxlevel){
   static char names[64][64]; int n=0,i,j,present=0;
   n=scan_map("celt/x86/x86_celt_map.c",names,n,64);
   n=scan_map("silk/x86/x86_silk_map.c",names,n,64);
   mc_info("dispatch tables defined in the tree's map files: %d",n);
   for(i=0;i<n;i++){
      int k=-1; for(j=0;j<NKNOWN;j++) if(!strcmp(KNOWN[j].name,names[i])) k=j;
      if(k<0){ char why[160]; snprintf(why,sizeof why,"dispatch table %s is defined in the map files but unknown to the C15 harness: not covered",names[i]); mc_capped(why); mc_info("UNKNOWN table %s",names[i]); continue; }
      if(KNOWN[k].addr){
         char part[200]; int a,p=0; void *const *t=KNOWN[k].addr; present++;
         part[0]=0;
         for(a=0;a<=4;a++){ int b,first=a; for(b=0;b<a;b++) if(t[b]==t[a]){ first=b; break; } p+=snprintf(part+p,sizeof part-p,"%d%s",first,a<4?",":""); }
         mc_info("table %s PRESENT in this build; entry classes by level 0..4 (index of first level with the same function) = [%s]%s; exercised: %s",names[i],part,t[5]==NULL?"":" (entries above 4 non-null)",KNOWN[k].how);
      } else mc_info("table %s not part of this build (other arithmetic, or the level is presumed at compile time)",names[i]);
   }
   for(j=0;j<NKNOWN;j++){ int seen=0; for(i=0;i<n;i++) if(!strcmp(KNOWN[j].name,names[i])) seen=1;
      if(!seen){ if(KNOWN[j].addr){ char why[160]; snprintf(why,sizeof why,"table %s is linked but not found in the map files (list cross-check failed)",KNOWN[j].name); mc_capped(why);} else mc_info("known table %s no longer appears in the map files",KNOWN[j].name); } }
   (void)maxlevel;
   return present;
}
