/* c15_common.h — shared by the C15 harness parts.
 *
 * The level under test is forced by LINK-TIME INTERPOSITION: c15_tables.c defines
 *     int opus_select_arch(void) { return c15_level; }
 * so the archive member celt/x86/x86cpu.c.o (which defines only that symbol) is never pulled; every codec
 * object created while c15_level == L stores arch = L and dispatches through entry L of the *_IMPL tables.
 * The library's own detection code is still executed (c15_detect_level(): celt/x86/x86cpu.c compiled into
 * c15_tables.c under another name) and bounds the levels that can run on this host.
 */
#ifndef C15_COMMON_H
#define C15_COMMON_H
extern int c15_level;                       /* what the interposed opus_select_arch() returns            */
int  c15_detect_level(void);                /* the library's own run-time detection (x86cpu.c)           */
int  c15_builtin_level(void);               /* the compiler's view of the CPU (__builtin_cpu_supports)   */
/* Scan celt/x86/x86_celt_map.c and silk/x86/x86_silk_map.c of the tree under test for "<NAME>_IMPL[" definitions,
 * compare with the list of tables the harness knows how to exercise, look each one up in the linked build (weak
 * references) and print @INFO lines. Returns the number of tables present in this build; a table name found in
 * the map files that the harness does not know makes the run non-exhaustive (mc_capped). */
int  c15_report_tables(int maxlevel);
void *const *c15_table(const char *name);   /* NULL when the table is not part of this build             */
static const char *const c15_level_name[5]={"C (non-SSE)","SSE","SSE2","SSE4.1","AVX2"};
#endif
