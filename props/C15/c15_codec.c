/* C15 parts 2-4 — the whole codec at FORCED arch levels.
 *
 * The harness (c15_tables.c) defines `int opus_select_arch(void)` itself, so every encoder / decoder created while
 * c15_level == L dispatches through entry L of every *_IMPL table (x86cpu.c.o is never linked). For every item the same
 * deterministic work is run once per level 0..detected:
 *
 *   encoder item  = one configuration vector (base x complexity x signal x <=1 (quick) / <=2 (thorough) deviations in
 *                   bitrate, duration, VBR mode, FEC, DTX, forced mode, bandwidth, forced channels, prediction)
 *                   -> NF frames encoded; every packet decoded by a decoder of the same level (one frame lost -> PLC)
 *   decoder item  = one stream of the frozen-encoder corpus (mc/corpus.h) x decoder rate x loss pattern
 *                   (none / every 3rd lost / burst of two / FEC recovery)
 *
 * Oracles (from the statement):
 *   fixed-point build : packets (bytes, length, final range) and decoded PCM byte-identical at all levels
 *   float build       : at every level the decoder's final range equals the encoder's (own packets, and corpus packets
 *                       against the range recorded by the frozen encoder)
 *   OPUS_CHECK_ASM builds (assertions on): additionally no assertion may fire (worker abort = violation, attributed to the
 *                       configuration, level and frame in flight) — upstream's own in-situ C-vs-SIMD self-checks
 *   -DC15_INSITU      : the tree's dispatch tables (map files compiled into this TU under other names) are wrapped: every
 *                       call the codec makes through a table is executed on the live arguments by the table entry AND by the
 *                       portable C function on a copy, outputs compared (integer: bit-identical, float: reassociation bound).
 */
#ifdef HAVE_CONFIG_H
#include "config.h"
#endif
#include <stdlib.h>
#include <string.h>
#include <math.h>
#include <stdint.h>
#include "opus.h"
#include "opus_private.h"
#include "mc.h"
#include "c15_common.h"
#include "corpus.h"

int opus_select_arch(void);
static int MAXL, thorough, NF, GAINSH;
static mc_ctr *c_eval,*c_enc,*c_dec,*c_pk,*c_plc,*c_insitu,*c_insitu_inexact;
static mc_set *obs;
static char g_ctx[400];
static long l_insitu,l_insitu_inexact;
static mc_ctr *c_cov_lagdelay,*c_cov_lagdelay34,*c_whatif;

/* ============================================================================================ in-situ wrappers */
#ifdef C15_INSITU
#include "arch.h"
#include "pitch.h"
#include "celt_lpc.h"
#include "vq.h"
#include "main.h"
#ifndef FIXED_POINT
#include "SigProc_FLP.h"
#endif
/* the tree's own tables, compiled here as REAL_* */
#define SILK_INNER_PROD16_IMPL       REAL_SILK_INNER_PROD16_IMPL
#define SILK_VAD_GETSA_Q8_IMPL       REAL_SILK_VAD_GETSA_Q8_IMPL
#define SILK_NSQ_IMPL                REAL_SILK_NSQ_IMPL
#define SILK_VQ_WMAT_EC_IMPL         REAL_SILK_VQ_WMAT_EC_IMPL
#define SILK_NSQ_DEL_DEC_IMPL        REAL_SILK_NSQ_DEL_DEC_IMPL
#define SILK_BURG_MODIFIED_IMPL      REAL_SILK_BURG_MODIFIED_IMPL
#define SILK_INNER_PRODUCT_FLP_IMPL  REAL_SILK_INNER_PRODUCT_FLP_IMPL
#define CELT_FIR_IMPL                REAL_CELT_FIR_IMPL
#define XCORR_KERNEL_IMPL            REAL_XCORR_KERNEL_IMPL
#define CELT_INNER_PROD_IMPL         REAL_CELT_INNER_PROD_IMPL
#define PITCH_XCORR_IMPL             REAL_PITCH_XCORR_IMPL
#define DUAL_INNER_PROD_IMPL         REAL_DUAL_INNER_PROD_IMPL
#define COMB_FILTER_CONST_IMPL       REAL_COMB_FILTER_CONST_IMPL
#define OP_PVQ_SEARCH_IMPL           REAL_OP_PVQ_SEARCH_IMPL
#include "silk/x86/x86_silk_map.c"
#include "celt/x86/x86_celt_map.c"
#undef SILK_INNER_PROD16_IMPL
#undef SILK_VAD_GETSA_Q8_IMPL
#undef SILK_NSQ_IMPL
#undef SILK_VQ_WMAT_EC_IMPL
#undef SILK_NSQ_DEL_DEC_IMPL
#undef SILK_BURG_MODIFIED_IMPL
#undef SILK_INNER_PRODUCT_FLP_IMPL
#undef CELT_FIR_IMPL
#undef XCORR_KERNEL_IMPL
#undef CELT_INNER_PROD_IMPL
#undef PITCH_XCORR_IMPL
#undef DUAL_INNER_PROD_IMPL
#undef COMB_FILTER_CONST_IMPL
#undef OP_PVQ_SEARCH_IMPL

#define FIVE(f) f##_0,f##_1,f##_2,f##_3,f##_4
#define GEN5(M) M(0) M(1) M(2) M(3) M(4)
static void insitu_fail(const char *kern,int lvl,const char *what){ char sig[96]; snprintf(sig,sizeof sig,"insitu:%s:level%d:not_bit_identical",kern,lvl);
   mc_fail(sig,"%s called by the codec at level %d (%s) differs from its portable C twin on the same live arguments: %s | context: %s",kern,lvl,c15_level_name[lvl],what,g_ctx); }

/* ---- silk_NSQ / silk_NSQ_del_dec ---- */
#define NSQ_ARGS const silk_encoder_state *psEncC, silk_nsq_state *NSQ, SideInfoIndices *psIndices, const opus_int16 x16[], opus_int8 pulses[], \
   const opus_int16 *PredCoef_Q12, const opus_int16 LTPCoef_Q14[LTP_ORDER*MAX_NB_SUBFR], const opus_int16 AR_Q13[MAX_NB_SUBFR*MAX_SHAPE_LPC_ORDER], \
   const opus_int HarmShapeGain_Q14[MAX_NB_SUBFR], const opus_int Tilt_Q14[MAX_NB_SUBFR], const opus_int32 LF_shp_Q14[MAX_NB_SUBFR], \
   const opus_int32 Gains_Q16[MAX_NB_SUBFR], const opus_int pitchL[MAX_NB_SUBFR], const opus_int Lambda_Q10, const opus_int LTP_scale_Q14
#define NSQ_PASS(N_,I_,P_) psEncC,N_,I_,x16,P_,PredCoef_Q12,LTPCoef_Q14,AR_Q13,HarmShapeGain_Q14,Tilt_Q14,LF_shp_Q14,Gains_Q16,pitchL,Lambda_Q10,LTP_scale_Q14
/* coverage of the decision structure of silk_NSQ_del_dec, measured on the live calls */
static long l_cov_lagdelay,l_cov_lagdelay34,l_whatif,wi_ctr;
static void insitu_nsq(int lvl,int dd,NSQ_ARGS){
   silk_nsq_state N2; SideInfoIndices I2; opus_int8 p2[MAX_FRAME_LENGTH]; int n=psEncC->nb_subfr*psEncC->subfr_length, lp0=NSQ->lagPrev; char w[240];
   if(dd){
      /* (a) what the codec itself produces: a NON-voiced frame whose decision delay is limited by the previous frame's pitch lag */
      if(psIndices->signalType!=TYPE_VOICED && NSQ->lagPrev>0 && NSQ->lagPrev-LTP_ORDER/2-1 < silk_min_int(DECISION_DELAY,psEncC->subfr_length)){ l_cov_lagdelay++; if(psEncC->nStatesDelayedDecision>=3) l_cov_lagdelay34++; }
      /* (b) what-if enumeration over the kernel's own decision parameters, on copies of the live arguments (nothing is committed):
             lagPrev over {0, every lag from the 2 ms minimum to 48, 49, 64, 18 ms maximum}, nStatesDelayedDecision over {2,3,4},
             the frame taken as coded / as UNVOICED. Two variants per live call, rotating deterministically through the product. */
      { int j; for(j=0;j<2;j++){ static silk_encoder_state E2; silk_nsq_state N3; SideInfoIndices I3; opus_int8 p3[MAX_FRAME_LENGTH];
           int minl=2*psEncC->fs_kHz, nl=48-minl+1+4, v=(int)(wi_ctr*2+j), li=v%nl, ns=2+(v/nl)%3, lp, asunv=(j==1);
           lp= li==0?0 : li<=48-minl+1? minl+li-1 : li==48-minl+2? 49 : li==48-minl+3? 64 : 18*psEncC->fs_kHz;
           memcpy(&E2,psEncC,sizeof E2); E2.nStatesDelayedDecision=ns;
           memcpy(&N2,NSQ,sizeof N2); memcpy(&I2,psIndices,sizeof I2); memcpy(p2,pulses,n); N2.lagPrev=lp; if(asunv&&I2.signalType==TYPE_VOICED) I2.signalType=TYPE_UNVOICED;
           memcpy(&N3,&N2,sizeof N3); memcpy(&I3,&I2,sizeof I3); memcpy(p3,p2,n);
           silk_NSQ_del_dec_c(&E2,&N2,&I2,x16,p2,PredCoef_Q12,LTPCoef_Q14,AR_Q13,HarmShapeGain_Q14,Tilt_Q14,LF_shp_Q14,Gains_Q16,pitchL,Lambda_Q10,LTP_scale_Q14);
           (*REAL_SILK_NSQ_DEL_DEC_IMPL[lvl])(&E2,&N3,&I3,x16,p3,PredCoef_Q12,LTPCoef_Q14,AR_Q13,HarmShapeGain_Q14,Tilt_Q14,LF_shp_Q14,Gains_Q16,pitchL,Lambda_Q10,LTP_scale_Q14);
           l_whatif++;
           if(memcmp(&N2,&N3,sizeof N2)||memcmp(&I2,&I3,sizeof I2)||memcmp(p2,p3,n)){ char sig[96]; int i,fp=-1; for(i=0;i<n;i++) if(p2[i]!=p3[i]){ fp=i; break; }
              snprintf(sig,sizeof sig,"insitu:silk_NSQ_del_dec:level%d:whatif_not_bit_identical",lvl);
              mc_fail(sig,"silk_NSQ_del_dec at level %d (%s) differs from silk_NSQ_del_dec_c on a copy of live codec arguments with lagPrev=%d, nStatesDelayedDecision=%d, signalType=%d%s (fs_kHz=%d nb_subfr=%d subfr_length=%d warping_Q16=%d): state %s, indices %s, first differing pulse %d | context: %s",lvl,c15_level_name[lvl],lp,ns,I3.signalType,asunv?" (voiced frame taken as unvoiced)":"",psEncC->fs_kHz,psEncC->nb_subfr,psEncC->subfr_length,psEncC->warping_Q16,memcmp(&N2,&N3,sizeof N2)?"differs":"equal",memcmp(&I2,&I3,sizeof I2)?"differ":"equal",fp,g_ctx); } }
        wi_ctr++; } }
   memcpy(&N2,NSQ,sizeof N2); memcpy(&I2,psIndices,sizeof I2); memcpy(p2,pulses,n);
   if(dd) silk_NSQ_del_dec_c(NSQ_PASS(&N2,&I2,p2)); else silk_NSQ_c(NSQ_PASS(&N2,&I2,p2));
   if(dd) (*REAL_SILK_NSQ_DEL_DEC_IMPL[lvl])(NSQ_PASS(NSQ,psIndices,pulses)); else (*REAL_SILK_NSQ_IMPL[lvl])(NSQ_PASS(NSQ,psIndices,pulses));
   l_insitu++;
   if(memcmp(&N2,NSQ,sizeof N2)||memcmp(&I2,psIndices,sizeof I2)||memcmp(p2,pulses,n)){ int i,fp=-1; for(i=0;i<n;i++) if(p2[i]!=pulses[i]){ fp=i; break; }
      snprintf(w,sizeof w,"fs_kHz=%d nb_subfr=%d subfr_length=%d nStatesDelayedDecision=%d warping_Q16=%d signalType=%d lagPrev(before)=%d: state %s, indices %s, first differing pulse %d",psEncC->fs_kHz,psEncC->nb_subfr,psEncC->subfr_length,psEncC->nStatesDelayedDecision,psEncC->warping_Q16,psIndices->signalType,lp0,
         memcmp(&N2,NSQ,sizeof N2)?"differs":"equal",memcmp(&I2,psIndices,sizeof I2)?"differ":"equal",fp);
      insitu_fail(dd?"silk_NSQ_del_dec":"silk_NSQ",lvl,w); } }
#define M(k) static void tr_nsq_##k(NSQ_ARGS){ insitu_nsq(k,0,NSQ_PASS(NSQ,psIndices,pulses)); } static void tr_dd_##k(NSQ_ARGS){ insitu_nsq(k,1,NSQ_PASS(NSQ,psIndices,pulses)); }
GEN5(M)
#undef M
void (*const SILK_NSQ_IMPL[OPUS_ARCHMASK+1])(NSQ_ARGS)={FIVE(tr_nsq)};
void (*const SILK_NSQ_DEL_DEC_IMPL[OPUS_ARCHMASK+1])(NSQ_ARGS)={FIVE(tr_dd)};

/* ---- silk_VAD_GetSA_Q8 ---- */
static opus_int insitu_vad(int lvl,silk_encoder_state *ps,const opus_int16 pIn[]){
   static silk_encoder_state S2; opus_int r2,r; memcpy(&S2,ps,sizeof S2); r2=silk_VAD_GetSA_Q8_c(&S2,pIn); r=(*REAL_SILK_VAD_GETSA_Q8_IMPL[lvl])(ps,pIn); l_insitu++;
   if(r!=r2||memcmp(&S2,ps,sizeof S2)){ char w[160]; snprintf(w,sizeof w,"frame_length=%d fs_kHz=%d: return %d vs %d, speech_activity_Q8 %d vs %d",ps->frame_length,ps->fs_kHz,r,r2,ps->speech_activity_Q8,S2.speech_activity_Q8); insitu_fail("silk_VAD_GetSA_Q8",lvl,w); }
   return r; }
#define M(k) static opus_int tr_vad_##k(silk_encoder_state *ps,const opus_int16 pIn[]){ return insitu_vad(k,ps,pIn); }
GEN5(M)
#undef M
opus_int (*const SILK_VAD_GETSA_Q8_IMPL[OPUS_ARCHMASK+1])(silk_encoder_state*,const opus_int16[])={FIVE(tr_vad)};

/* ---- silk_VQ_WMat_EC ---- */
#define VQ_ARGS opus_int8 *ind, opus_int32 *res_nrg_Q15, opus_int32 *rate_dist_Q8, opus_int *gain_Q7, const opus_int32 *XX_Q17, const opus_int32 *xX_Q17, \
   const opus_int8 *cb_Q7, const opus_uint8 *cb_gain_Q7, const opus_uint8 *cl_Q5, const opus_int subfr_len, const opus_int32 max_gain_Q7, const opus_int L
static void insitu_vq(int lvl,VQ_ARGS){ opus_int8 i2=*ind; opus_int32 n2=*res_nrg_Q15,r2=*rate_dist_Q8; opus_int g2=*gain_Q7;
   silk_VQ_WMat_EC_c(&i2,&n2,&r2,&g2,XX_Q17,xX_Q17,cb_Q7,cb_gain_Q7,cl_Q5,subfr_len,max_gain_Q7,L);
   (*REAL_SILK_VQ_WMAT_EC_IMPL[lvl])(ind,res_nrg_Q15,rate_dist_Q8,gain_Q7,XX_Q17,xX_Q17,cb_Q7,cb_gain_Q7,cl_Q5,subfr_len,max_gain_Q7,L); l_insitu++;
   if(i2!=*ind||n2!=*res_nrg_Q15||r2!=*rate_dist_Q8||g2!=*gain_Q7){ char w[300]; snprintf(w,sizeof w,"L=%d subfr_len=%d max_gain_Q7=%d XX_Q17|xX_Q17=%s|%s: ind %d/%d res_nrg %d/%d rate_dist %d/%d gain %d/%d",L,subfr_len,max_gain_Q7,mc_hex(XX_Q17,100),mc_hex(xX_Q17,20),*ind,i2,*res_nrg_Q15,n2,*rate_dist_Q8,r2,*gain_Q7,g2); insitu_fail("silk_VQ_WMat_EC",lvl,w); } }
#define M(k) static void tr_vq_##k(VQ_ARGS){ insitu_vq(k,ind,res_nrg_Q15,rate_dist_Q8,gain_Q7,XX_Q17,xX_Q17,cb_Q7,cb_gain_Q7,cl_Q5,subfr_len,max_gain_Q7,L); }
GEN5(M)
#undef M
void (*const SILK_VQ_WMAT_EC_IMPL[OPUS_ARCHMASK+1])(VQ_ARGS)={FIVE(tr_vq)};

#ifdef FIXED_POINT
/* ---- silk_inner_prod16, silk_burg_modified, celt_fir, xcorr_kernel, celt_inner_prod (fixed build) ---- */
static opus_int64 insitu_ip16(int lvl,const opus_int16 *a,const opus_int16 *b,const opus_int n){ opus_int64 r2=silk_inner_prod16_c(a,b,n), r=(*REAL_SILK_INNER_PROD16_IMPL[lvl])(a,b,n); l_insitu++;
   if(r!=r2){ char w[120]; snprintf(w,sizeof w,"len=%d: %lld vs %lld",n,(long long)r,(long long)r2); insitu_fail("silk_inner_prod16",lvl,w); } return r; }
#define M(k) static opus_int64 tr_ip16_##k(const opus_int16 *a,const opus_int16 *b,const opus_int n){ return insitu_ip16(k,a,b,n); }
GEN5(M)
#undef M
opus_int64 (*const SILK_INNER_PROD16_IMPL[OPUS_ARCHMASK+1])(const opus_int16*,const opus_int16*,const opus_int)={FIVE(tr_ip16)};
#define BURG_ARGS opus_int32 *res_nrg, opus_int *res_nrg_Q, opus_int32 A_Q16[], const opus_int16 x[], const opus_int32 minInvGain_Q30, const opus_int subfr_length, const opus_int nb_subfr, const opus_int D, int arch
static void insitu_burg(int lvl,BURG_ARGS){ opus_int32 n2=-1,A2[SILK_MAX_ORDER_LPC]; opus_int q2=-1; memset(A2,0,sizeof A2);
   silk_burg_modified_c(&n2,&q2,A2,x,minInvGain_Q30,subfr_length,nb_subfr,D,0);
   (*REAL_SILK_BURG_MODIFIED_IMPL[lvl])(res_nrg,res_nrg_Q,A_Q16,x,minInvGain_Q30,subfr_length,nb_subfr,D,arch); l_insitu++;
   if(n2!=*res_nrg||q2!=*res_nrg_Q||memcmp(A2,A_Q16,D*sizeof(opus_int32))){ char w[160]; snprintf(w,sizeof w,"subfr_length=%d nb_subfr=%d D=%d minInvGain_Q30=%d: res_nrg %d Q%d vs %d Q%d",subfr_length,nb_subfr,D,minInvGain_Q30,*res_nrg,*res_nrg_Q,n2,q2); insitu_fail("silk_burg_modified",lvl,w); } }
#define M(k) static void tr_burg_##k(BURG_ARGS){ insitu_burg(k,res_nrg,res_nrg_Q,A_Q16,x,minInvGain_Q30,subfr_length,nb_subfr,D,arch); }
GEN5(M)
#undef M
void (*const SILK_BURG_MODIFIED_IMPL[OPUS_ARCHMASK+1])(BURG_ARGS)={FIVE(tr_burg)};
static void insitu_fir(int lvl,const opus_val16 *x,const opus_val16 *num,opus_val16 *y,int N,int ord,int arch){
   static opus_val16 y2[2048]; int i,bad=-1,rail=-1; if(N>2048){ (*REAL_CELT_FIR_IMPL[lvl])(x,num,y,N,ord,arch); return; }
   celt_fir_c(x,num,y2,N,ord,0); (*REAL_CELT_FIR_IMPL[lvl])(x,num,y,N,ord,arch); l_insitu++;
   for(i=0;i<N;i++) if(y[i]!=y2[i]){ if(y2[i]==-32767&&y[i]==-32768){ if(rail<0) rail=i; } else { bad=i; break; } }
   if(bad>=0){ char w[160]; snprintf(w,sizeof w,"N=%d ord=%d: y[%d]=%d vs %d",N,ord,bad,y[bad],y2[bad]); insitu_fail("celt_fir",lvl,w); }
   else if(rail>=0){ char sig[96]; snprintf(sig,sizeof sig,"insitu:celt_fir:level%d:negative_rail_-32768_where_c_gives_-32767",lvl);
      mc_fail(sig,"celt_fir(N=%d, ord=%d) called by the decoder's PLC at level %d (%s): y[%d] = -32768 where celt_fir_c gives -32767 (x[%d]=%d) | context: %s",N,ord,lvl,c15_level_name[lvl],rail,rail,x[rail],g_ctx);
      /* reported; now continue with the C twin's value for exactly these samples, so that the cross-level PCM comparison of this item stays
         sensitive to any OTHER divergence instead of re-reporting this one under a symptom-level signature */
      for(i=0;i<N;i++) if(y2[i]==-32767&&y[i]==-32768) y[i]=-32767; } }
#define M(k) static void tr_fir_##k(const opus_val16 *x,const opus_val16 *num,opus_val16 *y,int N,int ord,int arch){ insitu_fir(k,x,num,y,N,ord,arch); }
GEN5(M)
#undef M
void (*const CELT_FIR_IMPL[OPUS_ARCHMASK+1])(const opus_val16*,const opus_val16*,opus_val16*,int,int,int)={FIVE(tr_fir)};
static void insitu_xk(int lvl,const opus_val16 *x,const opus_val16 *y,opus_val32 sum[4],int len){ opus_val32 s2[4]; memcpy(s2,sum,sizeof s2); xcorr_kernel_c(x,y,s2,len); (*REAL_XCORR_KERNEL_IMPL[lvl])(x,y,sum,len); l_insitu++;
   if(memcmp(s2,sum,sizeof s2)){ char w[160]; snprintf(w,sizeof w,"len=%d: %d %d %d %d vs %d %d %d %d",len,sum[0],sum[1],sum[2],sum[3],s2[0],s2[1],s2[2],s2[3]); insitu_fail("xcorr_kernel",lvl,w); } }
#define M(k) static void tr_xk_##k(const opus_val16 *x,const opus_val16 *y,opus_val32 sum[4],int len){ insitu_xk(k,x,y,sum,len); }
GEN5(M)
#undef M
void (*const XCORR_KERNEL_IMPL[OPUS_ARCHMASK+1])(const opus_val16*,const opus_val16*,opus_val32[4],int)={FIVE(tr_xk)};
static opus_val32 insitu_cip(int lvl,const opus_val16 *x,const opus_val16 *y,int N){ opus_val32 r2=celt_inner_prod_c(x,y,N), r=(*REAL_CELT_INNER_PROD_IMPL[lvl])(x,y,N); l_insitu++;
   if(r!=r2){ char w[120]; snprintf(w,sizeof w,"N=%d: %d vs %d",N,r,r2); insitu_fail("celt_inner_prod",lvl,w); } return r; }
#define M(k) static opus_val32 tr_cip_##k(const opus_val16 *x,const opus_val16 *y,int N){ return insitu_cip(k,x,y,N); }
GEN5(M)
#undef M
opus_val32 (*const CELT_INNER_PROD_IMPL[OPUS_ARCHMASK+1])(const opus_val16*,const opus_val16*,int)={FIVE(tr_cip)};
#else
/* ---- silk_inner_product_FLP, celt_pitch_xcorr (float build; reassociation bound) ---- */
static double insitu_ipf(int lvl,const silk_float *a,const silk_float *b,opus_int n){ double r2=silk_inner_product_FLP_c(a,b,n), r=(*REAL_SILK_INNER_PRODUCT_FLP_IMPL[lvl])(a,b,n); l_insitu++;
   if(r!=r2){ double mag=0; int i; for(i=0;i<n;i++) mag+=fabs((double)a[i]*b[i]); l_insitu_inexact++;
      if(!(fabs(r-r2)<=(n+8)*2.220446049250313e-16*mag+1e-300)){ char sig[96],w[10]; (void)w; snprintf(sig,sizeof sig,"insitu:silk_inner_product_FLP:level%d:beyond_reassociation_bound",lvl);
         mc_fail(sig,"silk_inner_product_FLP(n=%d) at level %d: %.17g vs C %.17g, bound %.3g | context: %s",n,lvl,r,r2,(n+8)*2.220446049250313e-16*mag,g_ctx); } }
   return r; }
#define M(k) static double tr_ipf_##k(const silk_float *a,const silk_float *b,opus_int n){ return insitu_ipf(k,a,b,n); }
GEN5(M)
#undef M
double (*const SILK_INNER_PRODUCT_FLP_IMPL[OPUS_ARCHMASK+1])(const silk_float*,const silk_float*,opus_int)={FIVE(tr_ipf)};
static void insitu_px(int lvl,const float *x,const float *y,float *xc,int len,int mp,int arch){ static float r2[2048]; int i,j;
   if(mp>2048){ (*REAL_PITCH_XCORR_IMPL[lvl])(x,y,xc,len,mp,arch); return; }
   celt_pitch_xcorr_c(x,y,r2,len,mp,0); (*REAL_PITCH_XCORR_IMPL[lvl])(x,y,xc,len,mp,arch); l_insitu++;
   for(i=0;i<mp;i++) if(xc[i]!=r2[i]){ double mag=0; for(j=0;j<len;j++) mag+=fabs((double)x[j]*y[i+j]); l_insitu_inexact++;
      if(!(fabs((double)xc[i]-r2[i])<=(len+8)*1.1920928955078125e-7*mag+1e-30)){ char sig[96]; snprintf(sig,sizeof sig,"insitu:celt_pitch_xcorr:level%d:beyond_reassociation_bound",lvl);
         mc_fail(sig,"celt_pitch_xcorr(len=%d,max_pitch=%d) at level %d: xcorr[%d]=%.9g vs C %.9g, bound %.3g | context: %s",len,mp,lvl,i,xc[i],r2[i],(len+8)*1.1920928955078125e-7*mag,g_ctx); break; } } }
#define M(k) static void tr_px_##k(const float *x,const float *y,float *xc,int len,int mp,int arch){ insitu_px(k,x,y,xc,len,mp,arch); }
GEN5(M)
#undef M
void (*const PITCH_XCORR_IMPL[OPUS_ARCHMASK+1])(const float*,const float*,float*,int,int,int)={FIVE(tr_px)};
#endif
#endif /* C15_INSITU */

/* ============================================================================================ encoder configurations */
typedef struct { int fs,ch,app,rate; const char *name; } ebase;
static const ebase EB[8]={
 {48000,2,OPUS_APPLICATION_AUDIO,64000,"48k stereo AUDIO"},{16000,1,OPUS_APPLICATION_VOIP,20000,"16k mono VOIP"},
 {48000,1,OPUS_APPLICATION_VOIP,24000,"48k mono VOIP"},{8000,1,OPUS_APPLICATION_VOIP,12000,"8k mono VOIP"},
 {12000,1,OPUS_APPLICATION_VOIP,16000,"12k mono VOIP"},{24000,2,OPUS_APPLICATION_AUDIO,48000,"24k stereo AUDIO"},
 {48000,2,OPUS_APPLICATION_RESTRICTED_LOWDELAY,96000,"48k stereo LOWDELAY"},{16000,2,OPUS_APPLICATION_VOIP,32000,"16k stereo VOIP"}};
static const int CPLX[7]={0,1,2,3,5,7,10};
static const int SIGS[9]={SIG_SPEECH,SIG_NOISE,SIG_SQUARE,SIG_MULTITONE,SIG_SILENCE,SIG_SWEEP,SIG_BANDNOISE,SIG_CLICKS,SIG_STEREOPAN};
/* signal index 9 (option --loud 1): white noise at twice the amplitude, clipped = full-scale noise; drives the decoder (and its concealment filters) into saturation */
#define SG_LOUD 9
/* signal indices 10, 11 (option --hipitch, default on): families designed from the decision structure of the SILK noise-shaping
   quantisers rather than from "typical audio": short HIGH-PITCHED voiced segments (f0 190..490 Hz, i.e. pitch lags 16..84 at the 8/12/16 kHz
   internal rates, down to the minimum lag of 2 ms) alternating every 1-3 x 20 ms with unvoiced noise and digital silence. They produce
   VOICED frames whose last-subframe lag is below DECISION_DELAY+3 immediately followed by NON-voiced frames (the lagPrev-limited
   decision delay of silk_NSQ_del_dec), voiced onsets/offsets inside a frame, and LTP rewhitening at short lags. NFV frames are coded. */
#define SG_HP1 10
#define SG_HP2 11
static int NFV;
static int sg_fam(int sg){ return sg==SG_LOUD? SIG_NOISE : sg>=SG_HP1? SIG_NOISE : SIGS[sg]; }
static const char *sg_name(int sg){ return sg==SG_LOUD? "full-scale white noise (white-noise x2, clipped)" : sg==SG_HP1? "high-pitched voiced bursts (1-3 x 20 ms, f0 190-490 Hz) alternating with noise / silence" : sg==SG_HP2? "high-pitched voiced 40-60 ms segments with 20 ms noise / silence gaps" : sig_name[SIGS[sg]]; }
typedef struct { long n; int seg; long seg_end; double ph; uint32_t lcg; } hpgen;
/* segment tables: type 0 voiced, 1 noise, 2 silence; length in 20 ms units */
static const signed char HPSEG[2][12][2]={ {{0,1},{1,1},{0,2},{2,1},{0,3},{1,2},{0,1},{2,1},{0,2},{1,1},{0,1},{2,2}},
                                           {{0,3},{1,1},{0,3},{2,1},{0,2},{1,1},{0,2},{2,1},{0,3},{1,1},{0,2},{2,1}} };
static const short HPF0[10]={210,260,330,410,490,230,300,370,450,190};
static void hp_gen(hpgen *g,int which,int fs,int ch,short *out,int n,int variant){
   int i,c; for(i=0;i<n;i++){ int typ,v=0; double f0;
      if(g->n>=g->seg_end){ if(g->n>0) g->seg++; g->seg_end=g->n+(long)HPSEG[which][g->seg%12][1]*fs/50; g->ph=0; }
      typ=HPSEG[which][g->seg%12][0]; f0=HPF0[(g->seg/2+variant)%10];
      g->lcg=g->lcg*1664525u+1013904223u;
      if(typ==0){ int k; double s=0; g->ph+=2*M_PI*f0/fs; if(g->ph>2*M_PI) g->ph-=2*M_PI; for(k=1;k<=10&&k*f0<0.45*fs;k++) s+=sin(k*g->ph)/k; v=(int)lrint(s*6000)+(((int)(g->lcg>>16)&0xFF)-128)/8; }
      else if(typ==1) v=(((int)(g->lcg>>16)&0xFFFF)-32768)/10;
      else v=0;
      for(c=0;c<ch;c++) out[i*ch+c]=(short)((c&1)?-v*3/4:v);
      g->n++; } }
enum { DV_NONE=0, DV_RATE, DV_DUR, DV_VBR, DV_FEC, DV_DTX, DV_MODE, DV_BW, DV_CH, DV_PRED, DV_NDIM };
static const char *const dvname[DV_NDIM]={"-","bitrate","duration_x0.1ms","vbr(0=cbr,2=cvbr)","fec+loss25","dtx","force_mode","bandwidth","force_channels","prediction_disabled"};
typedef struct { int dim,val; } dev;
static dev DEVS[64]; static int NDEV;
static void mk_devs(void){ static const int rates[9]={6000,9000,12000,16000,24000,40000,64000,128000,510000}, durs[5]={25,50,100,400,600};
   int i; NDEV=0; DEVS[NDEV].dim=DV_NONE; DEVS[NDEV++].val=0;
   for(i=0;i<9;i++){ DEVS[NDEV].dim=DV_RATE; DEVS[NDEV++].val=rates[i]; }
   for(i=0;i<5;i++){ DEVS[NDEV].dim=DV_DUR; DEVS[NDEV++].val=durs[i]; }
   DEVS[NDEV].dim=DV_VBR; DEVS[NDEV++].val=0; DEVS[NDEV].dim=DV_VBR; DEVS[NDEV++].val=2;
   DEVS[NDEV].dim=DV_FEC; DEVS[NDEV++].val=1; DEVS[NDEV].dim=DV_DTX; DEVS[NDEV++].val=1;
   for(i=0;i<3;i++){ DEVS[NDEV].dim=DV_MODE; DEVS[NDEV++].val=MODE_SILK_ONLY+i; }
   for(i=0;i<5;i++){ DEVS[NDEV].dim=DV_BW; DEVS[NDEV++].val=OPUS_BANDWIDTH_NARROWBAND+i; }
   DEVS[NDEV].dim=DV_CH; DEVS[NDEV++].val=1; DEVS[NDEV].dim=DV_CH; DEVS[NDEV++].val=2;
   DEVS[NDEV].dim=DV_PRED; DEVS[NDEV++].val=1; }
typedef struct { short base,cx,sg,d1,d2; } ecfg;
static ecfg *EC; static long NEC;
static void mk_cfgs(int nbase,int nsig,int twodev,int loud,int hip){ int b,c,s,s_,i,j; long cap=0,n=0; int pass;
   for(pass=0;pass<2;pass++){ n=0;
      for(b=0;b<nbase;b++) for(c=0;c<7;c++) for(s_=0;s_<nsig+(loud?1:0)+(hip?2:0);s_++) for(i=0;i<NDEV;i++){ s= s_<nsig? s_ : (loud&&s_==nsig)? SG_LOUD : SG_HP1+(s_-nsig-(loud?1:0));
         if(DEVS[i].dim==DV_CH && EB[b].ch==1) continue;
         if(pass){ EC[n].base=b; EC[n].cx=c; EC[n].sg=s; EC[n].d1=i; EC[n].d2=0; } n++;
         if(twodev && i>0) for(j=i+1;j<NDEV;j++){ if(DEVS[j].dim==DEVS[i].dim) continue; if(DEVS[j].dim==DV_CH && EB[b].ch==1) continue;
            /* second deviations: a thinned but fixed subset keeps the thorough tier inside its budget: every pair of DIMENSIONS occurs, values rotate */
            if(((i*7+j*3+c+s)%4)!=0) continue;
            if(pass){ EC[n].base=b; EC[n].cx=c; EC[n].sg=s; EC[n].d1=i; EC[n].d2=j; } n++; } }
      if(!pass){ cap=n; EC=malloc(sizeof(ecfg)*(cap+1)); } }
   NEC=n; }
static void apply_dev(OpusEncoder *e,const dev *d,int *dur){
   switch(d->dim){
   case DV_RATE: opus_encoder_ctl(e,OPUS_SET_BITRATE(d->val==510000?OPUS_BITRATE_MAX:d->val)); break;
   case DV_DUR: *dur=d->val; break;
   case DV_VBR: if(d->val==0) opus_encoder_ctl(e,OPUS_SET_VBR(0)); else { opus_encoder_ctl(e,OPUS_SET_VBR(1)); opus_encoder_ctl(e,OPUS_SET_VBR_CONSTRAINT(1)); } break;
   case DV_FEC: opus_encoder_ctl(e,OPUS_SET_INBAND_FEC(1)); opus_encoder_ctl(e,OPUS_SET_PACKET_LOSS_PERC(25)); break;
   case DV_DTX: opus_encoder_ctl(e,OPUS_SET_DTX(1)); break;
   case DV_MODE: opus_encoder_ctl(e,OPUS_SET_FORCE_MODE(d->val)); break;
   case DV_BW: opus_encoder_ctl(e,OPUS_SET_BANDWIDTH(d->val)); break;
   case DV_CH: opus_encoder_ctl(e,OPUS_SET_FORCE_CHANNELS(d->val)); break;
   case DV_PRED: opus_encoder_ctl(e,OPUS_SET_PREDICTION_DISABLED(1)); break;
   default: break; } }
static void cfg_text(const ecfg *k,char *o,size_t n){ const dev *a=&DEVS[k->d1],*b=&DEVS[k->d2];
   snprintf(o,n,"encoder %s, bitrate %d, complexity %d, signal %s, deviations {%s=%d, %s=%d}",EB[k->base].name,EB[k->base].rate,CPLX[k->cx],sg_name(k->sg),dvname[a->dim],a->val,dvname[b->dim],b->val); }

#define MAXF 16
typedef struct { int n[MAXF]; opus_uint32 rng[MAXF],drng[MAXF]; unsigned char pk[MAXF][1600]; short *pcm; int pcm_n; int dret[MAXF]; } runrec;
static runrec RR[5];
static short *sigbuf;

static void run_enc_level(const ecfg *k,int L,runrec *r,const char *ctx){
   const ebase *b=&EB[k->base]; int err=0,f,dur=200,fsz,NFK= k->sg>=SG_HP1? NFV:NF; OpusEncoder *e; OpusDecoder *d; siggen g; hpgen hg;
   c15_level=L;
   snprintf(g_ctx,sizeof g_ctx,"%s, level %d (create)",ctx,L);
   mc_case("codec:create","%s",g_ctx);
   e=opus_encoder_create(b->fs,b->ch,b->app,&err); d=opus_decoder_create(b->fs,b->ch,&err);
   if(!e||!d){ mc_fail("codec:create_failed","%s: create returned %d",g_ctx,err); r->pcm_n=0; for(f=0;f<NFK;f++) r->n[f]=-999; return; }
   opus_encoder_ctl(e,OPUS_SET_BITRATE(b->rate)); opus_encoder_ctl(e,OPUS_SET_COMPLEXITY(CPLX[k->cx]));
   apply_dev(e,&DEVS[k->d1],&dur); apply_dev(e,&DEVS[k->d2],&dur);
   fsz=(int)((long)b->fs*dur/10000);
   sig_init(&g,sg_fam(k->sg),b->fs,b->ch,(uint32_t)(k->base*131+k->sg*17+3));
   r->pcm_n=0; memset(&hg,0,sizeof hg); hg.lcg=(uint32_t)(k->base*977+k->sg*131+k->cx*7+1);
   for(f=0;f<NFK;f++){ int n,dn; opus_uint32 er=0,dr=0;
      if(k->sg>=SG_HP1) hp_gen(&hg,k->sg-SG_HP1,b->fs,b->ch,sigbuf,fsz,k->base+k->d1); else sig_gen(&g,sigbuf,fsz); if(GAINSH||k->sg==SG_LOUD){ int GAINSH_=GAINSH+(k->sg==SG_LOUD); int i_; for(i_=0;i_<fsz*b->ch;i_++){ int v=sigbuf[i_]*(1<<GAINSH_); sigbuf[i_]=(short)(v>32767?32767:v<-32768?-32768:v); } }
      snprintf(g_ctx,sizeof g_ctx,"%s, level %d (%s), frame %d encode",ctx,L,c15_level_name[L],f);
      { char cs_[40]; snprintf(cs_,sizeof cs_,"codec:encode:level%d",L); mc_case(cs_,"%s",g_ctx); }
      n=opus_encode(e,sigbuf,fsz,r->pk[f],1500); MC_INC(c_enc);
      opus_encoder_ctl(e,OPUS_GET_FINAL_RANGE(&er)); r->n[f]=n; r->rng[f]=er;
      snprintf(g_ctx,sizeof g_ctx,"%s, level %d (%s), frame %d decode",ctx,L,c15_level_name[L],f);
      { char cs_[40]; snprintf(cs_,sizeof cs_,"codec:decode:level%d",L); mc_case(cs_,"%s",g_ctx); }
      if(n<0){ r->dret[f]=n; r->drng[f]=0; continue; }
      if(f==2 && NFK>3){ /* this packet is lost: concealment, then the stream continues */
         dn=opus_decode(d,NULL,0,r->pcm+r->pcm_n,fsz,0); MC_INC(c_plc); r->drng[f]=0; r->dret[f]=dn; if(dn>0) r->pcm_n+=dn*b->ch; continue; }
      dn=opus_decode(d,r->pk[f],n,r->pcm+r->pcm_n,fsz,0); MC_INC(c_dec);
      opus_decoder_ctl(d,OPUS_GET_FINAL_RANGE(&dr)); r->drng[f]=dr; r->dret[f]=dn; if(dn>0) r->pcm_n+=dn*b->ch;
   }
   opus_encoder_destroy(e); opus_decoder_destroy(d);
}

static void enc_item(long it){
   const ecfg *k=&EC[it]; char ctx[300]; int L,f,NFK= k->sg>=SG_HP1? NFV:NF; uint64_t h;
   cfg_text(k,ctx,sizeof ctx);
   for(L=0;L<=MAXL;L++) run_enc_level(k,L,&RR[L],ctx);
   MC_INC(c_eval);
   for(L=0;L<=MAXL;L++){ runrec *r=&RR[L];
      for(f=0;f<NFK;f++){
         if(r->n[f]<0){ char sig[96]; snprintf(sig,sizeof sig,"codec:encode_error:level%d",L); mc_fail(sig,"%s: opus_encode returned %d at level %d frame %d",ctx,r->n[f],L,f); continue; }
         MC_INC(c_pk);
#ifndef FIXED_POINT
         /* float build: the decoder of the same level reproduces the encoder's final range */
         if(!(f==2&&NFK>3) && (r->dret[f]<0 || r->drng[f]!=r->rng[f])){ char sig[96]; snprintf(sig,sizeof sig,"codec:float:level%d:final_range_mismatch",L);
            mc_fail(sig,"%s: level %d (%s) frame %d: encoder final range %08x, decoder returns %d with final range %08x; packet (%d bytes) %s",ctx,L,c15_level_name[L],f,r->rng[f],r->dret[f],r->drng[f],r->n[f],mc_hex(r->pk[f],r->n[f]<48?r->n[f]:48)); }
#endif
      }
#ifdef FIXED_POINT
      if(L>0){ runrec *z=&RR[0]; int bad=-1; const char *what="";
         for(f=0;f<NFK&&bad<0;f++){ if(r->n[f]!=z->n[f]){ bad=f; what="packet length"; } else if(r->n[f]>0&&memcmp(r->pk[f],z->pk[f],r->n[f])){ bad=f; what="packet bytes"; } else if(r->rng[f]!=z->rng[f]){ bad=f; what="encoder final range"; } }
         if(bad>=0){ char sig[96]; int i,fb=-1; if(r->n[bad]==z->n[bad]) for(i=0;i<r->n[bad];i++) if(r->pk[bad][i]!=z->pk[bad][i]){ fb=i; break; }
            snprintf(sig,sizeof sig,"codec:fixed:level%d:packets_differ_from_level0",L);
            mc_fail(sig,"%s: frame %d %s differs between level %d (%s) and level 0: %d bytes range %08x vs %d bytes range %08x, first differing byte %d; level-%d packet starts %s",ctx,bad,what,L,c15_level_name[L],r->n[bad],r->rng[bad],z->n[bad],z->rng[bad],fb,L,mc_hex(r->pk[bad],r->n[bad]<32?r->n[bad]:32)); }
         else { int i,fp=-1; if(r->pcm_n!=z->pcm_n) fp=-2; else for(i=0;i<r->pcm_n;i++) if(r->pcm[i]!=z->pcm[i]){ fp=i; break; }
            for(f=0;f<NFK;f++) if(r->drng[f]!=z->drng[f]||r->dret[f]!=z->dret[f]){ if(fp==-1) fp=-3-f; }
            if(fp!=-1){ char sig[96]; snprintf(sig,sizeof sig,"codec:fixed:level%d:pcm_differs_from_level0",L);
               mc_fail(sig,"%s: identical packets (frame 2 lost -> PLC) decode to different PCM / decoder range at level %d (%s) than at level 0: %s %d (%d vs %d), %d vs %d samples",ctx,L,c15_level_name[L],fp>=0?"first differing sample":"code",fp,fp>=0?r->pcm[fp]:0,fp>=0?z->pcm[fp]:0,r->pcm_n,z->pcm_n); } } }
#endif
   }
   /* observation class: what the packets look like (mode/bandwidth/frame-count from the TOC, size class) — level independent */
   { runrec *z=&RR[0]; int last=NFK-1; h=mc_mix(k->base,k->cx); for(f=0;f<NFK;f++) if(z->n[f]>0){ h=mc_mix(h,z->pk[f][0]); h=mc_mix(h,z->n[f]>2?(z->n[f]>40?(z->n[f]>200?3:2):1):0); }
     if(mc_set_add(obs,h)) mc_sample("%s: %d frames x levels 0..%d; last packet %d bytes TOC 0x%02x range %08x at every level%s",ctx,NFK,MAXL,z->n[last],z->n[last]>0?z->pk[last][0]:0,z->rng[last],
#ifdef FIXED_POINT
        "; packets and PCM byte-identical across levels"
#else
        "; decoder range == encoder range at every level"
#endif
        ); }
}

/* ============================================================================================ decoder over the frozen-encoder corpus */
static corpus CP;
static const int DFS[3]={48000,16000,8000};
typedef struct { short stream,fsi,loss,ch; } dcfg;
static dcfg *DC; static long NDC;
static void mk_dcfgs(int nfs,int nch){ int s,a,l,c; long n=0; DC=malloc(sizeof(dcfg)*(CP.ns*nfs*4*2+1));
   for(s=0;s<CP.ns;s++) for(a=0;a<nfs;a++) for(l=0;l<4;l++) for(c=0;c<nch;c++){ if(CP.s[s].n<3 && l>0) continue; DC[n].stream=s; DC[n].fsi=a; DC[n].loss=l; DC[n].ch=c; n++; }
   NDC=n; }
static const char *const lossname[4]={"no loss","every 3rd packet lost (PLC)","packets 1,2 lost (PLC burst)","packet 1 lost, recovered from the FEC data of packet 2"};
typedef struct { int ret[32]; opus_uint32 rng[32]; short *pcm; int pcm_n; int nops; } drec;
static drec DR[5];
static void run_dec_level(const dcfg *k,int L,drec *r,const char *ctx){
   const cstream *st=&CP.s[k->stream]; int fs=DFS[k->fsi], ch= k->ch? 3-st->ch : st->ch, err=0,i,op=0; OpusDecoder *d;
   c15_level=L; snprintf(g_ctx,sizeof g_ctx,"%s, level %d (create)",ctx,L); mc_case("codec:create","%s",g_ctx);
   d=opus_decoder_create(fs,ch,&err); r->pcm_n=0; r->nops=0; if(!d){ mc_fail("codec:create_failed","%s: %d",g_ctx,err); return; }
   for(i=0;i<st->n&&op<30;i++){ const cpkt *p=&CP.p[st->first+i]; int fsz=(int)((long)p->dur48*fs/48000), lost=0, n;
      if(k->loss==1) lost=(i%3)==2; else if(k->loss==2) lost=(i==1||i==2); else if(k->loss==3) lost=(i==1);
      snprintf(g_ctx,sizeof g_ctx,"%s, level %d (%s), packet %d%s",ctx,L,c15_level_name[L],i,lost?" (lost)":""); { char cs_[40]; snprintf(cs_,sizeof cs_,"codec:decode:level%d",L); mc_case(cs_,"%s",g_ctx); }
      if(lost){
         if(k->loss==3 && i+1<st->n){ const cpkt *q=&CP.p[st->first+i+1]; n=opus_decode(d,q->data,q->len,r->pcm+r->pcm_n,fsz,1); }
         else n=opus_decode(d,NULL,0,r->pcm+r->pcm_n,fsz,0);
         MC_INC(c_plc); r->rng[op]=0;
      } else { n=opus_decode(d,p->data,p->len,r->pcm+r->pcm_n,fsz,0); MC_INC(c_dec); opus_decoder_ctl(d,OPUS_GET_FINAL_RANGE(&r->rng[op])); }
      r->ret[op]=n; if(n>0) r->pcm_n+=n*ch; op++; }
   r->nops=op; opus_decoder_destroy(d);
}
static void dec_item(long it){
   const dcfg *k=&DC[it]; const cstream *st=&CP.s[k->stream]; char ctx[300]; int L,i;
   snprintf(ctx,sizeof ctx,"decoder %d Hz %d ch on corpus stream '%s' (%d packets), %s",DFS[k->fsi],k->ch?3-st->ch:st->ch,st->name,st->n,lossname[k->loss]);
   for(L=0;L<=MAXL;L++) run_dec_level(k,L,&DR[L],ctx);
   MC_INC(c_eval);
   for(L=0;L<=MAXL;L++){ drec *r=&DR[L];
#ifndef FIXED_POINT
      /* float build: without loss the decoder must reproduce the final range the (frozen) encoder recorded for each packet */
      if(k->loss==0) for(i=0;i<r->nops;i++){ const cpkt *p=&CP.p[st->first+i];
         if(r->ret[i]<0 || r->rng[i]!=p->enc_range){ char sig[96]; snprintf(sig,sizeof sig,"codec:float:level%d:corpus_final_range_mismatch",L);
            mc_fail(sig,"%s: level %d (%s) packet %d: decoder returns %d with final range %08x, encoder recorded %08x; packet (%d bytes) %s",ctx,L,c15_level_name[L],i,r->ret[i],r->rng[i],p->enc_range,p->len,mc_hex(p->data,p->len<48?p->len:48)); break; } }
#else
      if(L>0){ drec *z=&DR[0]; int fp=-1; if(r->pcm_n!=z->pcm_n||r->nops!=z->nops) fp=-2; else { for(i=0;i<r->pcm_n;i++) if(r->pcm[i]!=z->pcm[i]){ fp=i; break; } for(i=0;i<r->nops&&fp==-1;i++) if(r->ret[i]!=z->ret[i]||r->rng[i]!=z->rng[i]) fp=-3-i; }
         if(fp!=-1){ char sig[96]; snprintf(sig,sizeof sig,"codec:fixed:level%d:corpus_pcm_differs_from_level0",L);
            mc_fail(sig,"%s: PCM / return code / final range at level %d (%s) differ from level 0: %s %d (%d vs %d), %d vs %d samples",ctx,L,c15_level_name[L],fp>=0?"first differing sample":"code",fp,fp>=0?r->pcm[fp]:0,fp>=0?z->pcm[fp]:0,r->pcm_n,z->pcm_n); } }
#endif
   }
   { drec *z=&DR[0]; uint64_t h=mc_mix(1000+k->fsi*8+k->loss*2+k->ch,CP.p[st->first].data[0]); h=mc_mix(h,z->pcm_n);
     if(mc_set_add(obs,h)) mc_sample("%s: %d decode calls x levels 0..%d, %d samples, last final range %08x%s",ctx,z->nops,MAXL,z->pcm_n,z->nops?z->rng[z->nops-1]:0,
#ifdef FIXED_POINT
        "; PCM byte-identical across levels"
#else
        k->loss==0?"; decoder range == recorded encoder range at every level":""
#endif
        ); }
}

static long NENC_RUN;
static void item(long it,void *ctx){ (void)ctx;
#ifdef C15_INSITU
   wi_ctr=it*7;      /* what-if rotation restarts per item (deterministic whatever worker runs it), offset so that items cover different residues */
#endif
   if(it<NENC_RUN) enc_item(it); else dec_item(it-NENC_RUN);
#ifdef C15_INSITU
   MC_ADD(c_cov_lagdelay,l_cov_lagdelay); MC_ADD(c_cov_lagdelay34,l_cov_lagdelay34); MC_ADD(c_whatif,l_whatif); l_cov_lagdelay=l_cov_lagdelay34=l_whatif=0;
#endif
   if(l_insitu){ MC_ADD(c_insitu,l_insitu); MC_ADD(c_insitu_inexact,l_insitu_inexact); l_insitu=l_insitu_inexact=0; } }

int main(int argc,char **argv){
   int det,bi,L,nbase,nsig,twodev; const char *part;
   mc_init(argc,argv,"C15","codec");
   part=mc_arg_s("--part","codec"); MC.part=part; thorough=MC.tier;
   MC.cpu_limit_s=600;
   det=c15_detect_level(); bi=c15_builtin_level(); MAXL=det<4?det:4; if((int)mc_arg("--maxlevel",4)<MAXL) MAXL=(int)mc_arg("--maxlevel",4);
   NF=(int)mc_arg("--frames",thorough?8:6); if(NF>MAXF) NF=MAXF; if(NF<1) NF=1;
   GAINSH=(int)mc_arg("--gainshift",0);
   nbase=(int)mc_arg("--bases",thorough?8:4); nsig=(int)mc_arg("--signals",thorough?9:5); twodev=(int)mc_arg("--twodev",thorough?1:0);
   if(nbase>8) nbase=8; if(nsig>9) nsig=9;
   mc_info("arch level detected by the library's own code (celt/x86/x86cpu.c): %d (%s); compiler builtin view: %d; levels forced through the interposed opus_select_arch(): 0..%d",det,det>=0&&det<=4?c15_level_name[det]:"?",bi,MAXL);
   if(MAXL<4){ char why[128]; snprintf(why,sizeof why,"host CPU only reaches arch level %d: levels above it cannot be executed",MAXL); mc_capped(why); }
#ifdef C15_INSITU
   mc_info("in-situ mode: the tree's dispatch tables are compiled into the harness as REAL_* and wrapped; the archive members x86_silk_map.c.o / x86_celt_map.c.o are not linked");
#else
   c15_report_tables(MAXL);
#endif
#ifdef OPUS_CHECK_ASM
   mc_info("OPUS_CHECK_ASM build with assertions: every SIMD kernel that carries an upstream self-check re-runs its C twin and asserts equality");
#endif
   c_eval=mc_counter("evaluations"); c_enc=mc_counter("encode_calls"); c_dec=mc_counter("decode_calls"); c_plc=mc_counter("plc_or_fec_decode_calls"); c_pk=mc_counter("packets_compared");
   c_cov_lagdelay=mc_counter("nsq_dd_nonvoiced_delay_limited_by_lagPrev"); c_cov_lagdelay34=mc_counter("nsq_dd_same_with_3_or_4_states"); c_whatif=mc_counter("nsq_dd_whatif_variants_compared");
   c_insitu=mc_counter("insitu_kernel_calls_compared"); c_insitu_inexact=mc_counter("insitu_float_results_differing_within_bound");
   { mc_ctr *lv=mc_counter("arch_level_detected"); *lv=det; lv=mc_counter("arch_levels_exercised"); *lv=MAXL+1; }
   obs=mc_set_new(20);
   /* sentinel (G3): the interposition really takes effect — an encoder created at level L reports arch L in its CELT state */
   for(L=0;L<=MAXL;L++){ int err; OpusEncoder *e; c15_level=L; e=opus_encoder_create(48000,1,OPUS_APPLICATION_AUDIO,&err); if(!e||opus_select_arch()!=L){ mc_fail("machinery:interposition","opus_select_arch interposition inactive at level %d",L); } if(e) opus_encoder_destroy(e); }
   NFV=(int)mc_arg("--vframes",16); if(NFV>MAXF) NFV=MAXF; if(NFV<NF) NFV=NF;
   mk_devs(); mk_cfgs(nbase,nsig,twodev,(int)mc_arg("--loud",0),(int)mc_arg("--hipitch",1));
   sigbuf=malloc(sizeof(short)*2*48000/8);
   for(L=0;L<5;L++){ RR[L].pcm=malloc(sizeof(short)*2*(size_t)(5760*MAXF+16)); DR[L].pcm=malloc(sizeof(short)*2*(size_t)(5760*34)); }
   corpus_build(&CP,thorough?1:0);
   mk_dcfgs((int)mc_arg("--decrates",thorough?3:2),(int)mc_arg("--decch",thorough?2:1));
   NENC_RUN= mc_arg("--noenc",0)?0:NEC; if(mc_arg("--nodec",0)) NDC=0;
   mc_info("encoder configurations: %ld (x %d frames x %d levels); decoder items: %ld over %d corpus streams / %d packets",NENC_RUN,NF,MAXL+1,NDC,CP.ns,CP.n);
   mc_par(NENC_RUN+NDC,item,NULL);
   { mc_ctr *st=mc_counter("states"),*tr=mc_counter("transitions"),*dn=mc_counter("distinct_nontrivial"); *st=mc_set_count(obs); *tr=*c_enc+*c_dec+*c_plc; *dn=mc_set_count(obs); }
   return mc_finish();
}
