/* c15_combc.c — a private copy of the PORTABLE C comb filter kernel of the tree under test.
 * On x86-64 the float build presumes SSE, so celt/celt.c does not even compile comb_filter_const_c; the harness
 * compiles the tree's own source here (all other globals of celt.c renamed out of the way) to have the C twin
 * of comb_filter_const_sse. Nothing in this file is written by the harness: it is celt/celt.c. */
#ifdef HAVE_CONFIG_H
#include "config.h"
#endif
#define NON_STATIC_COMB_FILTER_CONST_C
#define comb_filter_const_c      c15_comb_filter_const_c
#define comb_filter              c15x_comb_filter
#define resampling_factor        c15x_resampling_factor
#define init_caps                c15x_init_caps
#define opus_strerror            c15x_opus_strerror
#define opus_get_version_string  c15x_opus_get_version_string
#define tf_select_table          c15x_tf_select_table
#define celt_fatal               c15x_celt_fatal
#include "celt/celt.c"
