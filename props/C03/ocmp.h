/* ocmp.h — the RFC 6716 conformance metric (opus_compare), re-implemented from the text of the FROZEN copy
 * /verif/ref/opus-b5b845fb.tar.gz:src/opus_compare.c (identical to /repo/src/opus_compare.c at the pinned commit).
 *
 * Same algorithm, same constants, same order of the masking / smoothing / error steps:
 *   - Hann window of 480/ds samples, hop 120/ds, plain DFT of bins 0..BANDS[nbands]-1, power + 100000 floor,
 *     DFT scaled by ds (ds = 48000/rate);
 *   - 21 Bark-derived bands {0,2,...,200}; band energies of the REFERENCE signal;
 *   - frequency masking 0.1 upward, 0.03 downward, temporal masking 0.5, stereo cross-talk 0.01;
 *   - 0.1 x masked band energy added to every bin of both spectra; sum of consecutive frames;
 *   - per bin re = Y/X, im = re - log(re) - 1, de-emphasised around bin 80; per band mean, squared, summed,
 *     /21, Ef^2, err += Ef^2 (i.e. 4th power), err = (err/nframes)^(1/16);
 *   - Q = 100*(1 - 0.5*log(1+err)/log(1.13)); the vector PASSES iff Q >= 0.
 * Differences from the tool that cannot change a verdict except within float rounding of Q = 0:
 *   - the DFT uses pre-tabulated cos/sin rows (the tool steps an index through one period; same values) and four
 *     partial sums per bin instead of one running sum;
 *   - signals are handed over in memory (16-bit sample values held in floats, exactly what read_pcm16 produces).
 * Generalisation needed by the property ("... of the reference decoder's output for the same stream, rate and
 * channel count"): the tool only accepts a 48 kHz stereo reference. oc_ref_analyse(..., ds>1 / nch==1) analyses a
 * reference that is already at the test signal's rate / channel count in exactly the way the tool analyses the test
 * signal; reference bands that do not exist at that rate get the tool's noise-floor value (100000), which is what
 * the tool computes for a 48 kHz reference with no content there.  With ds==1,nch==2 it is the tool itself.
 */
#ifndef OCMP_H
#define OCMP_H
#include <stdlib.h>
#include <string.h>
#include <math.h>

#define OC_PI (3.14159265F)
#define OC_NBANDS 21
#define OC_NFREQS 240
#define OC_WIN 480
#define OC_STEP 120
static const int OC_BANDS[OC_NBANDS+1]={0,2,4,6,8,10,12,14,16,20,24,28,32,40,48,56,68,80,96,120,156,200};

typedef struct { int W, nb; float *win, *C, *S; } oc_tab;    /* per downsample factor: window, cos/sin rows [bin][W] */
static oc_tab OC_T[7];                                         /* index = ds (1,2,3,4,6) */

static int oc_ybands(int rate){ switch(rate){ case 8000: return 13; case 12000: return 15; case 16000: return 17; case 24000: return 19; default: return OC_NBANDS; } }

/* build the tables once (before forking workers) */
static void oc_init(void){
   static const int dss[5]={1,2,3,4,6}; int d;
   for(d=0;d<5;d++){
      int ds=dss[d], W=OC_WIN/ds, nb=OC_BANDS[oc_ybands(48000/ds)], xj, k; oc_tab *t=&OC_T[ds];
      float *c=malloc(sizeof(float)*W), *s=malloc(sizeof(float)*W);
      t->W=W; t->nb=nb; t->win=malloc(sizeof(float)*W); t->C=malloc(sizeof(float)*(size_t)nb*W); t->S=malloc(sizeof(float)*(size_t)nb*W);
      for(xj=0;xj<W;xj++) t->win[xj]=0.5F-0.5F*(float)cos((2*OC_PI/(W-1))*xj);
      for(xj=0;xj<W;xj++) c[xj]=(float)cos((2*OC_PI/W)*xj);
      for(xj=0;xj<W;xj++) s[xj]=(float)sin((2*OC_PI/W)*xj);
      for(xj=0;xj<nb;xj++){ int ti=0; for(k=0;k<W;k++){ t->C[(size_t)xj*W+k]=c[ti]; t->S[(size_t)xj*W+k]=s[ti]; ti+=xj; if(ti>=W) ti-=W; } }
      free(c); free(s);
   }
}

typedef struct {
   int nframes, nch, stride;   /* ps[(frame*stride+bin)*nch+ch] */
   int nbands;                 /* bands analysed */
   float *ps;                  /* power spectrum + floor */
   float *xb;                  /* band energies [(frame*OC_NBANDS+band)*nch+ch] (reference signals only) */
} oc_spec;
static void oc_free(oc_spec *s){ free(s->ps); free(s->xb); s->ps=s->xb=NULL; }

/* nframes for a signal whose length, expressed in 48 kHz samples, is len48 (0 if too short for the tool) */
static int oc_nframes(long len48){ return len48<OC_WIN?0:(int)((len48-OC_WIN+OC_STEP)/OC_STEP); }

typedef float oc_v4 __attribute__((vector_size(16)));
/* band_energy() of the tool. in: interleaved nch channels of 16-bit sample values; ds = 48000/rate. */
static void oc_band_energy(oc_spec *o,const float *in,int nch,int nframes,int ds,int nbands,int want_bands){
   const oc_tab *t=&OC_T[ds]; int W=t->W, step=OC_STEP/ds, ps_sz=W/2, xi,ci,xk,bi,xj;
   float *x=malloc(sizeof(float)*W*nch);
   o->nframes=nframes; o->nch=nch; o->stride=ps_sz; o->nbands=nbands;
   o->ps=calloc((size_t)nframes*ps_sz*nch+1,sizeof(float));
   o->xb=want_bands?malloc(sizeof(float)*(size_t)nframes*OC_NBANDS*nch):NULL;
   for(xi=0;xi<nframes;xi++){
      for(ci=0;ci<nch;ci++) for(xk=0;xk<W;xk++) x[ci*W+xk]=t->win[xk]*in[((size_t)xi*step+xk)*nch+ci];
      for(bi=xj=0;bi<nbands;bi++){
         float p[2]={0,0};
         for(;xj<OC_BANDS[bi+1];xj++){
            const float *cr=t->C+(size_t)xj*W,*sr=t->S+(size_t)xj*W;
            for(ci=0;ci<nch;ci++){
               const float *xc=x+ci*W; oc_v4 are={0,0,0,0}, aim={0,0,0,0}; float re,im,v;
               for(xk=0;xk+4<=W;xk+=4){ oc_v4 xv,cv,sv; memcpy(&xv,xc+xk,16); memcpy(&cv,cr+xk,16); memcpy(&sv,sr+xk,16); are+=cv*xv; aim-=sv*xv; }
               re=(are[0]+are[1])+(are[2]+are[3]); im=(aim[0]+aim[1])+(aim[2]+aim[3]);
               for(;xk<W;xk++){ re+=cr[xk]*xc[xk]; im-=sr[xk]*xc[xk]; }
               re*=ds; im*=ds;
               v=re*re+im*im+100000;
               o->ps[((size_t)xi*ps_sz+xj)*nch+ci]=v; p[ci]+=v;
            }
         }
         if(o->xb){ o->xb[((size_t)xi*OC_NBANDS+bi)*nch]=p[0]/(OC_BANDS[bi+1]-OC_BANDS[bi]); if(nch==2) o->xb[((size_t)xi*OC_NBANDS+bi)*nch+1]=p[1]/(OC_BANDS[bi+1]-OC_BANDS[bi]); }
      }
      if(o->xb) for(bi=nbands;bi<OC_NBANDS;bi++) for(ci=0;ci<nch;ci++) o->xb[((size_t)xi*OC_NBANDS+bi)*nch+ci]=100000;
   }
   free(x);
}

/* the tool's main(): reference spectrum X (+ band energies xb), test spectrum Y at `rate`; returns Q and the weighted error.
 * X may have stride 240 (48 kHz reference, the tool's own case) or the same stride as Y (same-rate reference). */
static float oc_score(const oc_spec *Xs,const oc_spec *Ys,int rate,double *err_out){
   int nframes=Ys->nframes, nch=Ys->nch, ybands=oc_ybands(rate), yfreqs=Ys->stride, xfreqs=Xs->stride, xi,ci,xj,bi,max_compare;
   size_t nx=(size_t)nframes*xfreqs*nch, ny=(size_t)nframes*yfreqs*nch, nb=(size_t)nframes*OC_NBANDS*nch; double err; float Q;
   float *X=malloc(sizeof(float)*(nx+1)), *Y=malloc(sizeof(float)*(ny+1)), *xb=malloc(sizeof(float)*(nb+1));
   memcpy(X,Xs->ps,sizeof(float)*nx); memcpy(Y,Ys->ps,sizeof(float)*ny); memcpy(xb,Xs->xb,sizeof(float)*nb);
   for(xi=0;xi<nframes;xi++){
      /* Frequency masking (low to high): 10 dB/Bark slope. */
      for(bi=1;bi<OC_NBANDS;bi++) for(ci=0;ci<nch;ci++) xb[(xi*OC_NBANDS+bi)*nch+ci]+=0.1F*xb[(xi*OC_NBANDS+bi-1)*nch+ci];
      /* Frequency masking (high to low): 15 dB/Bark slope. */
      for(bi=OC_NBANDS-1;bi-->0;) for(ci=0;ci<nch;ci++) xb[(xi*OC_NBANDS+bi)*nch+ci]+=0.03F*xb[(xi*OC_NBANDS+bi+1)*nch+ci];
      /* Temporal masking: -3 dB/2.5ms slope. */
      if(xi>0) for(bi=0;bi<OC_NBANDS;bi++) for(ci=0;ci<nch;ci++) xb[(xi*OC_NBANDS+bi)*nch+ci]+=0.5F*xb[((xi-1)*OC_NBANDS+bi)*nch+ci];
      /* Allowing some cross-talk */
      if(nch==2) for(bi=0;bi<OC_NBANDS;bi++){ float l=xb[(xi*OC_NBANDS+bi)*nch+0], r=xb[(xi*OC_NBANDS+bi)*nch+1]; xb[(xi*OC_NBANDS+bi)*nch+0]+=0.01F*r; xb[(xi*OC_NBANDS+bi)*nch+1]+=0.01F*l; }
      /* Apply masking */
      for(bi=0;bi<ybands;bi++) for(xj=OC_BANDS[bi];xj<OC_BANDS[bi+1];xj++) for(ci=0;ci<nch;ci++){
         X[((size_t)xi*xfreqs+xj)*nch+ci]+=0.1F*xb[(xi*OC_NBANDS+bi)*nch+ci];
         Y[((size_t)xi*yfreqs+xj)*nch+ci]+=0.1F*xb[(xi*OC_NBANDS+bi)*nch+ci]; }
   }
   /* Average of consecutive frames to make comparison slightly less sensitive */
   for(bi=0;bi<ybands;bi++) for(xj=OC_BANDS[bi];xj<OC_BANDS[bi+1];xj++) for(ci=0;ci<nch;ci++){
      float xtmp=X[xj*nch+ci], ytmp=Y[xj*nch+ci];
      for(xi=1;xi<nframes;xi++){ float xtmp2=X[((size_t)xi*xfreqs+xj)*nch+ci], ytmp2=Y[((size_t)xi*yfreqs+xj)*nch+ci];
         X[((size_t)xi*xfreqs+xj)*nch+ci]+=xtmp; Y[((size_t)xi*yfreqs+xj)*nch+ci]+=ytmp; xtmp=xtmp2; ytmp=ytmp2; }
   }
   if(rate==48000) max_compare=OC_BANDS[OC_NBANDS]; else if(rate==12000) max_compare=OC_BANDS[ybands]; else max_compare=OC_BANDS[ybands]-3;
   err=0;
   for(xi=0;xi<nframes;xi++){
      double Ef=0;
      for(bi=0;bi<ybands;bi++){
         double Eb=0;
         for(xj=OC_BANDS[bi];xj<OC_BANDS[bi+1]&&xj<max_compare;xj++) for(ci=0;ci<nch;ci++){
            float re,im; re=Y[((size_t)xi*yfreqs+xj)*nch+ci]/X[((size_t)xi*xfreqs+xj)*nch+ci]; im=re-log(re)-1;
            if(xj>=79&&xj<=81) im*=0.1F;
            if(xj==80) im*=0.1F;
            Eb+=im; }
         Eb/=(OC_BANDS[bi+1]-OC_BANDS[bi])*nch;
         Ef+=Eb*Eb;
      }
      Ef/=OC_NBANDS; Ef*=Ef; err+=Ef*Ef;
   }
   free(X); free(Y); free(xb);
   err=pow(err/nframes,1.0/16);
   Q=100*(1-0.5*log(1+err)/log(1.13));
   if(err_out) *err_out=err;
   return Q;
}
#endif
