/* streams.h — C03 stream grid, an extension of mc/corpus.h: every stream is produced at run time by the FROZEN
 * reference encoder (ref_*), re-framings by the FROZEN repacketizer / opus_packet_pad, so nothing here changes when
 * the tree's encoder, tables or repacketizer are edited.  Deterministic: integer-LCG / libm signals, no clock.
 *
 * Families (DESIGN 4/C03):
 *   CFG     every legal TOC configuration: 32 configs x {mono,stereo} x bitrates x signal classes
 *   TRANS   every ordered pair of distinct (mode, bandwidth, channels) triples switched at a frame boundary inside ONE
 *           2-channel encoder (18 triples -> 306 ordered pairs) x frame-duration schedules x signals
 *   REFRAME the CFG streams re-framed: 2 / 3 / 120 ms-worth of frames per packet (codes 1, 2, 3 VBR/CBR), padding
 *           of varying length (code 3 + padding), on VBR and on CBR encoder output
 *   FEAT    encoder features that change what the decoder must parse: LBRR (in-band FEC), DTX/CNG, automatic mode with a
 *           bitrate ramp (free mode/bandwidth/channel switching incl. SILK's own bandwidth switch), encoder-made 40..120 ms
 *           multi-frame packets, low-delay application, complexity 0, CVBR/CBR, prediction / phase inversion disabled,
 *           encoder sampling rates 8..24 kHz
 *   SWITCH  derived from the decision structure of opus_decode_frame(): transition := a non-empty packet whose mode crosses the
 *           CELT-only boundary w.r.t. the previous mode, cancelled by a redundancy frame (previous packet's for ->CELT, this
 *           packet's for CELT->); then branches on the first frame's length vs 5 ms / 2.5 ms and on the mode.  Every SILK / hybrid
 *           TOC configuration (cfg 0..15: all bandwidths, 10/20/40/60 ms) x {mono,stereo} x CELT at EVERY duration 2.5/5/10/20 ms,
 *           in both directions, each (a) as the encoder makes it when bytes are plentiful (forced-mode switch at >= 10 ms carries
 *           the 5 ms redundancy frame; a caller duration change to < 10 ms makes SILK/hybrid jump to CELT with NO redundancy) and
 *           (b) with the caller's max_data_bytes for the two packets at the switch just below what compute_redundancy_bytes()
 *           needs, so the same switch comes WITHOUT redundancy; plus the switch right after a DTX period and right after a lost
 *           packet (len 0 -> decode(NULL); PCM of those streams is advisory, PLC being non-normative).
 *   ROUND   the decoder's paths depend on flags the ENCODER chooses by complexity and rate control (intra / inter band energies,
 *           transient, tf_select, spread, dual / intensity stereo, anti-collapse, post-filter, skip) and on history kept across a band-range
 *           change: down-and-up round trips A->B->A over all ordered pairs of the 12 CELT-only / hybrid (mode,bandwidth,channels)
 *           triples, with the frozen encoder at complexity 0 / 3 (and CBR at a tight rate), on stereo signals whose right channel
 *           differs strongly from the left (right = loud high-pass noise; right = -left). TRANS is also run with those encoder
 *           profiles / signals (field ridx = profile: 1 complexity 0, 2 complexity 3, 3 complexity 0 + CBR at the low rate).
 *   LEVEL   what the decoder resets or keeps across a switch (silk_decoder_set_fs: LastGainIndex, lagPrev, prevSignalType, outBuf,
 *           sLPC state, first_frame_after_reset; opus_decode_frame: prev_mode, redundancy; CELT: oldBandE, post-filter, de-emphasis
 *           memory) only shows when the SIGNAL changes across the switch. Every transition kind - the 306 TRANS pairs (20 ms), the
 *           448 SWITCH kinds (variants with / without redundancy, both directions), SILK internal-rate switches forced downwards at a
 *           chosen packet by the caller's max_data_bytes (< 8000 / < 7000 b/s -> 12 / 8 kHz at once), and the SILK encoder's own
 *           NB<->MB<->WB switches after OPUS_SET_BANDWIDTH - is encoded twice: a probe pass at constant level finds the packet K at
 *           which the (mode,bandwidth,channels) triple actually changes; the second pass applies a level schedule around that packet
 *           boundary: loud->quiet (-30 dB, -50 dB), quiet(-50 dB)->loud, loud->30 ms of digital silence->loud, with the step 25/15/5 ms
 *           before and 5/15/25 ms after the boundary. The stream counts as "met" only if the switch is still at packet K.
 */
#ifndef C03_STREAMS_H
#define C03_STREAMS_H
#include "corpus.h"

enum { FAM_CFG=0, FAM_TRANS, FAM_REFRAME, FAM_FEAT, FAM_SWITCH, FAM_LEVEL, FAM_ROUND, FAM_N };
static const char *const fam_name[FAM_N]={"cfg","trans","reframe","feat","switch","level","round"};

typedef struct { ccfg k; int nframes; int sig; int maxbytes; /* 0: ample */ int lose_last; /* replace the segment's last packet by a loss */ } sseg;
typedef struct { int fs, ch, app; uint32_t seed; int nseg; sseg seg[12];
                 int fec, dtx, cbr, cvbr, complexity, pred_dis, phinv_dis, lsb;
                 int lv_on; long lv_t0,lv_t1; float lv_g0,lv_gmid,lv_g1; /* gain g0 before sample t0, gmid in [t0,t1), g1 from t1 on */ int lv_trunc; int sigmod; /* 2-channel input only: 1 right := loud high-pass noise, 2 right := -left */ } sdesc;

typedef struct { unsigned char fam, cfg, stereo, ridx, sig, a, b, variant; unsigned short ms; } sitem;

static void corpus_free(corpus *c){ int i; for(i=0;i<c->n;i++) free(c->p[i].data); free(c->p); free(c->s); memset(c,0,sizeof *c); }

/* ---- TOC configuration number (0..31) -> what to force on the encoder ---- */
static void cfg_to_ccfg(int cfg,ccfg *k){
   static const int sbw[3]={BWN,BWM,BWW}, sd[4]={100,200,400,600}, cbw[4]={BWN,BWW,BWS,BWF}, cd[4]={25,50,100,200};
   memset(k,0,sizeof *k);
   if (cfg<12){ k->mode=REF_MODE_SILK_ONLY; k->bw=sbw[cfg>>2]; k->dur_x10=sd[cfg&3]; }
   else if (cfg<16){ k->mode=REF_MODE_HYBRID; k->bw=cfg<14?BWS:BWF; k->dur_x10=(cfg&1)?200:100; }
   else { k->mode=REF_MODE_CELT_ONLY; k->bw=cbw[(cfg-16)>>2]; k->dur_x10=cd[cfg&3]; }
}
/* three bitrates (low / middle / high) per (mode, bandwidth), per channel count */
static int cfg_bitrate(int mode,int bw,int ch,int ridx){
   static const int silk[3][3]={{8000,14000,24000},{10000,16000,28000},{12000,20000,40000}};
   static const int hyb[2][3]={{20000,32000,64000},{24000,40000,80000}};
   static const int celt[4][3]={{20000,32000,64000},{24000,48000,96000},{32000,64000,128000},{40000,96000,192000}};
   int r;
   if (mode==REF_MODE_SILK_ONLY) r=silk[bw==BWN?0:bw==BWM?1:2][ridx];
   else if (mode==REF_MODE_HYBRID) r=hyb[bw==BWS?0:1][ridx];
   else r=celt[bw==BWN?0:bw==BWW?1:bw==BWS?2:3][ridx];
   return ch==2? r+r*3/5 : r;
}
/* the 18 (mode, bandwidth, channels) triples of the transition family */
#define NTRIPLE 18
static void triple_to_ccfg(int t,int dur_x10,ccfg *k){
   static const int m[9]={REF_MODE_SILK_ONLY,REF_MODE_SILK_ONLY,REF_MODE_SILK_ONLY,REF_MODE_HYBRID,REF_MODE_HYBRID,REF_MODE_CELT_ONLY,REF_MODE_CELT_ONLY,REF_MODE_CELT_ONLY,REF_MODE_CELT_ONLY};
   static const int b[9]={BWN,BWM,BWW,BWS,BWF,BWN,BWW,BWS,BWF};
   memset(k,0,sizeof *k); k->mode=m[t%9]; k->bw=b[t%9]; k->ch_force=1+t/9; k->dur_x10=dur_x10; k->bitrate=cfg_bitrate(k->mode,k->bw,k->ch_force,1);
}
static const char *triple_name(int t){ static const char *const n[9]={"silk-nb","silk-mb","silk-wb","hyb-swb","hyb-fb","celt-nb","celt-wb","celt-swb","celt-fb"}; static char b[4][24]; static int r; r=(r+1)&3; snprintf(b[r],24,"%s-%dch",n[t%9],1+t/9); return b[r]; }

/* ---- run the frozen encoder over a description ---- */
static void s_encode(corpus *c,const char *name,const sdesc *d){
   int err,s,i,sid,cursig=-1,smp=0; uint32_t smr=d->seed*2654435761u+99u; long pos=0; OpusEncoder *e=ref_opus_encoder_create(d->fs,d->ch,d->app,&err); siggen g; short *pcm; unsigned char out[4000];
   if(!e){ fprintf(stderr,"streams: encoder_create failed %d\n",err); exit(2); }
   sid=corpus_new_stream(c,name,d->fs,d->ch);
   pcm=malloc(sizeof(short)*d->ch*(d->fs/8+8));
   if (d->fec){ ref_opus_encoder_ctl(e,OPUS_SET_INBAND_FEC(d->fec)); ref_opus_encoder_ctl(e,OPUS_SET_PACKET_LOSS_PERC(20)); }
   if (d->dtx) ref_opus_encoder_ctl(e,OPUS_SET_DTX(1));
   if (d->cbr) ref_opus_encoder_ctl(e,OPUS_SET_VBR(0));
   if (d->cvbr) ref_opus_encoder_ctl(e,OPUS_SET_VBR_CONSTRAINT(1));
   if (d->complexity>=0) ref_opus_encoder_ctl(e,OPUS_SET_COMPLEXITY(d->complexity));
   if (d->pred_dis) ref_opus_encoder_ctl(e,OPUS_SET_PREDICTION_DISABLED(1));
   if (d->phinv_dis) ref_opus_encoder_ctl(e,OPUS_SET_PHASE_INVERSION_DISABLED(1));
   if (d->lsb) ref_opus_encoder_ctl(e,OPUS_SET_LSB_DEPTH(d->lsb));
   for(s=0;s<d->nseg;s++){ const sseg *sg=&d->seg[s]; int fsz=(int)((long)d->fs*sg->k.dur_x10/10000);
      corpus_apply(e,&sg->k);
      if (sg->sig!=cursig){ sig_init(&g,sg->sig,d->fs,d->ch,d->seed); cursig=sg->sig; }
      for(i=0;i<sg->nframes;i++){ int n; opus_uint32 rng=0;
         sig_gen(&g,pcm,fsz);
         if (d->sigmod && d->ch==2){ int q; for(q=0;q<fsz;q++){ if(d->sigmod==1){ int x; smr=smr*1664525u+1013904223u; x=(int)((smr>>16)&0xFFFF)-32768; pcm[2*q+1]=(short)((x-smp)*3/8); smp=x; } else pcm[2*q+1]=(short)(pcm[2*q]==-32768?32767:-pcm[2*q]); } }
         if (d->lv_on){ int q,cc; for(q=0;q<fsz;q++){ long t=pos+q; float gn=t<d->lv_t0?d->lv_g0:(t<d->lv_t1?d->lv_gmid:d->lv_g1); if(gn!=1.0f) for(cc=0;cc<d->ch;cc++) pcm[q*d->ch+cc]=(short)lrintf(pcm[q*d->ch+cc]*gn); } }
         pos+=fsz;
         n=ref_opus_encode(e,pcm,fsz,out,sg->maxbytes?sg->maxbytes:(int)sizeof out);
         if(n<0){ fprintf(stderr,"streams: frozen encoder failed %d (%s)\n",n,name); exit(2); }
         ref_opus_encoder_ctl(e,OPUS_GET_FINAL_RANGE(&rng));
         if (sg->lose_last && i==sg->nframes-1){ n=0; rng=0; }   /* lost packet: the decoders are called with NULL; final range of a PLC call is 0 */
         corpus_push(c,out,n,sid,c->n-c->s[sid].first,rng,sg->k.dur_x10*48/10,n?0:9);
      }
   }
   c->s[sid].n=c->n-c->s[sid].first;
   free(pcm); ref_opus_encoder_destroy(e);
}

/* ---- re-framing with the frozen repacketizer: greedy groups of <=group packets (a TOC change or the 120 ms limit closes a
 *      group early); padmode!=0 pads output packet i by PAD[i%6] bytes with the frozen opus_packet_pad ---- */
static void s_reframe(corpus *out,const char *name,const corpus *in,int group,int padmode){
   static const int PAD[6]={1,2,3,255,256,600}; static unsigned char buf[48*1277+1300];
   OpusRepacketizer *rp=ref_opus_repacketizer_create(); int i,held=0,dur=0,sid,npk=0; opus_uint32 rng=0;
   sid=corpus_new_stream(out,name,in->s[0].fs,in->s[0].ch);
   for(i=0;i<=in->n;i++){
      int added=0;
      if (i<in->n && held>0 && held<group && ref_opus_repacketizer_cat(rp,in->p[i].data,in->p[i].len)==OPUS_OK) added=1;   /* a refusal (other TOC, >120 ms) leaves the state unchanged and closes the group */
      if (held>0 && !added){
         int len=ref_opus_repacketizer_out(rp,buf,48*1277);
         if (len<=0){ fprintf(stderr,"streams: frozen repacketizer_out failed %d (%s)\n",len,name); exit(2); }
         if (padmode){ int nl=len+PAD[npk%6]; if(ref_opus_packet_pad(buf,len,nl)!=OPUS_OK){ fprintf(stderr,"streams: frozen packet_pad failed (%s)\n",name); exit(2);} len=nl; }
         corpus_push(out,buf,len,sid,npk,rng,dur,held>1?1:(padmode?2:0)); npk++;
         held=0; dur=0;
      }
      if (i==in->n) break;
      if (!added){
         ref_opus_repacketizer_init(rp);
         if (ref_opus_repacketizer_cat(rp,in->p[i].data,in->p[i].len)!=OPUS_OK){ fprintf(stderr,"streams: frozen repacketizer_cat refused an encoder packet (%s)\n",name); exit(2); }
      }
      held++; dur+=in->p[i].dur48; rng=in->p[i].enc_range;
   }
   out->s[sid].n=out->n-out->s[sid].first;
   ref_opus_repacketizer_destroy(rp);
}

/* ---- signal classes of the grid ---- */
static int grid_sig(int idx,int stereo){ static const int s[6]={SIG_SPEECH,SIG_MULTITONE,SIG_NOISE,SIG_SWEEP,SIG_CLICKS,SIG_STEREOPAN}; int v; if(idx==6) return SIG_MULTITONE; if(idx==7) return SIG_SWEEP; v=s[idx%6]; if(v==SIG_STEREOPAN&&!stereo) v=SIG_BANDNOISE; return v; }
static int grid_sigmod(int idx){ return idx==6?1:idx==7?2:0; }
static const char *grid_signame(int idx,int stereo){ return idx==6?"multitone|right=hp-noise":idx==7?"sweep|right=-left":sig_name[grid_sig(idx,stereo)]; }
static const char *const prof_name[4]={""," cx0"," cx3"," cx0-cbr-low"};
static void prof_apply(sdesc *d,int prof){ if(prof==1||prof==3) d->complexity=0; else if(prof==2) d->complexity=3; if(prof==3) d->cbr=1; }

/* re-framing variants */
enum { RV_MERGE2=0, RV_MERGE3, RV_MERGEMAX, RV_PAD, RV_CBR, RV_CBR_MERGE2, RV_CBR_MERGE3, RV_CBR_MAXPAD, RV_N };
static const char *const rv_name[RV_N]={"merge2","merge3","merge120ms","pad","cbr","cbr-merge2","cbr-merge3","cbr-merge120ms-pad"};
static int rv_applicable(int v,int dur_x10){ int maxk=1200/dur_x10; if(maxk>48) maxk=48;
   if(v==RV_MERGE3||v==RV_CBR_MERGE3) return maxk>=3; if(v==RV_MERGEMAX||v==RV_CBR_MAXPAD) return maxk>3; return 1; }

/* feature streams */
enum { FT_FEC_SILK_WB=0, FT_FEC_SILK_NB60, FT_FEC_HYB, FT_FEC_SILK_MB40, FT_DTX_SILK, FT_DTX_HYB, FT_DTX_CELT, FT_AUTO_VOIP, FT_AUTO_AUDIO, FT_LOWDELAY,
       FT_CPLX0_SILK, FT_CPLX0_CELT, FT_PRED_DIS, FT_PHINV_DIS, FT_CVBR, FT_LSB8, FT_ENC_CELT40, FT_ENC_CELT60, FT_ENC_CELT80, FT_ENC_CELT100, FT_ENC_CELT120,
       FT_ENC_SILK80, FT_ENC_SILK120, FT_ENC_HYB40, FT_ENC_HYB60, FT_ENC_HYB120, FT_FS8, FT_FS12, FT_FS16, FT_FS24, FT_N };
static const char *const ft_name[FT_N]={"fec-silk-wb-20","fec-silk-nb-60","fec-hybrid-fb-20","fec-silk-mb-40","dtx-silk-wb","dtx-hybrid-swb","dtx-celt-fb","auto-voip-ramp","auto-audio-ramp","lowdelay-celt-5",
       "complexity0-silk-wb","complexity0-celt-fb","prediction-disabled-hybrid","phase-inversion-disabled-celt","cvbr-celt","lsb8-hybrid","enc-celt-40ms","enc-celt-60ms","enc-celt-80ms","enc-celt-100ms","enc-celt-120ms",
       "enc-silk-80ms","enc-silk-120ms","enc-hybrid-40ms","enc-hybrid-60ms","enc-hybrid-120ms","encoder-fs8k-auto","encoder-fs12k-auto","encoder-fs16k-auto","encoder-fs24k-auto"};

/* SWITCH variants */
enum { SW_TO_CELT=0, SW_TO_CELT_CAP, SW_FROM_CELT, SW_FROM_CELT_CAP, SW_DTX_TO_CELT, SW_LOSS_TO_CELT, SW_LOSS_FROM_CELT, SW_N };
/* max_data_bytes just below the point where compute_redundancy_bytes() grants a redundancy frame (> 4+8*channels bytes):
   cap = (avail*240/(240+48000/frame_rate)+base)/8 with avail = 8*max-2*base, base = 40*channels+20 */
static int sw_cap(int dur_x10,int ch){ int fr=10000/dur_x10, base=40*ch+20, lim=4+8*ch, m; for(m=400;m>8;m--){ int avail=m*8-2*base; if((avail*240/(240+48000/fr)+base)/8<=lim) break; } return m-2; }
static int frames_for(int ms,int dur_x10){ int n=(ms*10+dur_x10-1)/dur_x10; return n<2?2:n; }

static int round_triple(int i){ return 3+i%6+9*(i/6); }   /* the 12 hybrid / CELT-only triples */
/* ---- LEVEL: probe pass + level schedule around the packet where the (mode,bandwidth,channels) triple changes ---- */
static struct { int lv, met, K, prev_tr, new_tr, rate_switch; } LVI;   /* what the last item_make() observed (read by the harness for the evidence counters) */
static int s_triple(int toc){ return (rfc_mode(toc)*5+rfc_bandwidth(toc))*2+rfc_channels(toc)-1; }
static int s_silk_khz(int toc){ int m=rfc_mode(toc); return m==2?0:(m==1?16:(rfc_bandwidth(toc)==0?8:rfc_bandwidth(toc)==1?12:16)); }
static int first_change(const corpus *c,long fs,long *tK,int *ptoc,int *ntoc){ int i,first=-1; long t=0;
   for(i=0;i<c->n;i++){ const cpkt *k=&c->p[i]; if(k->len){ if(first<0) first=k->data[0]; else if(s_triple(k->data[0])!=s_triple(first)){ *tK=t; *ptoc=first; *ntoc=k->data[0]; return i; } } t+=(long)k->dur48*fs/48000; }
   return -1; }
static const int LV_OFF_MS[6]={-25,-15,-5,5,15,25};
#define LV_Q30 0.0316227766f
#define LV_Q50 0.00316227766f
static void lv_encode(corpus *c,const char *nm,sdesc *d,int lv){
   corpus p1; int K,K2,sched,off,pt=0,nt=0,pt2=0,nt2=0; long tK=0,tK2=0,t0;
   memset(&LVI,0,sizeof LVI);
   if (!lv){ s_encode(c,nm,d); return; }
   sched=(lv-1)/6; off=(lv-1)%6; LVI.lv=lv;
   /* pass 1: constant level (the level the schedule has BEFORE its step) */
   d->lv_on=1; d->lv_t0=d->lv_t1=0; d->lv_g0=d->lv_gmid=d->lv_g1 = sched==2?LV_Q50:1.0f;
   memset(&p1,0,sizeof p1); s_encode(&p1,nm,d); K=first_change(&p1,d->fs,&tK,&pt,&nt); corpus_free(&p1);
   if (d->lv_trunc){ int before=0,s; for(s=0;s+1<d->nseg;s++) before+=d->seg[s].nframes; d->seg[d->nseg-1].nframes = K>=0 ? K-before+8 : 30; if(d->seg[d->nseg-1].nframes<2) d->seg[d->nseg-1].nframes=2; }
   if (K<0){ s_encode(c,nm,d); LVI.K=-1; return; }
   t0=tK+(long)LV_OFF_MS[off]*d->fs/1000; if(t0<0) t0=0;
   d->lv_t0=t0; d->lv_t1=t0; d->lv_g0=1.0f; d->lv_gmid=1.0f; d->lv_g1=1.0f;
   if (sched==0) d->lv_g1=LV_Q30; else if (sched==1) d->lv_g1=LV_Q50; else if (sched==2){ d->lv_g0=LV_Q50; } else { d->lv_gmid=0.0f; d->lv_t1=t0+(long)30*d->fs/1000; }
   s_encode(c,nm,d); K2=first_change(c,d->fs,&tK2,&pt2,&nt2);
   LVI.K=K; LVI.met=(K2==K && s_triple(nt2)==s_triple(nt)); LVI.prev_tr=s_triple(pt); LVI.new_tr=s_triple(nt);
   LVI.rate_switch = s_silk_khz(pt)&&s_silk_khz(nt)&&s_silk_khz(pt)!=s_silk_khz(nt);
}
/* special LEVEL kinds: SILK internal-rate switches */
#define LVK_N 14
static const char *const lvk_name[7]={"cap wb->mb","cap wb->nb","cap mb->nb","own nb->mb","own mb->wb","own wb->mb","own mb->nb"};

static void item_name(const sitem *it,char *nm,int n){
   ccfg k;
   switch(it->fam){
   case FAM_CFG: cfg_to_ccfg(it->cfg,&k); snprintf(nm,n,"cfg%02d %s r%d %s %dms",it->cfg,it->stereo?"stereo":"mono",it->ridx,sig_name[grid_sig(it->sig,it->stereo)],it->ms); break;
   case FAM_TRANS: snprintf(nm,n,"trans %s -> %s dur%d %s%s %dms",triple_name(it->a),triple_name(it->b),it->variant,grid_signame(it->sig,1),prof_name[it->ridx&3],it->ms); break;
   case FAM_ROUND: snprintf(nm,n,"round %s -> %s -> back, %s ms, %s%s",triple_name(round_triple(it->a)),triple_name(round_triple(it->b)),it->variant?"10":"20",grid_signame(it->sig,1),prof_name[it->ridx&3]); break;
   case FAM_REFRAME: snprintf(nm,n,"reframe %s of cfg%02d %s r%d %s %dms",rv_name[it->variant],it->cfg,it->stereo?"stereo":"mono",it->ridx,sig_name[grid_sig(it->sig,it->stereo)],it->ms); break;
   case FAM_SWITCH: { static const char *const vn[SW_N]={"A->celt","A->celt capped","celt->A","celt->A capped","A,dtx->celt","A,loss->celt","celt,loss->A"}; static const char *const dn[4]={"2.5","5","10","20"};
      snprintf(nm,n,"switch %s: A=cfg%02d %s, celt %s ms, %s",vn[it->variant],it->a,it->stereo?"stereo":"mono",dn[it->b],sig_name[grid_sig(it->sig,it->stereo)]); } break;
   case FAM_LEVEL: { static const char *const sn[4]={"loud->-30dB","loud->-50dB","-50dB->loud","loud->30ms silence->loud"}; sitem b=*it; char bn[120]; int lv=it->ridx;
      if (it->cfg==FAM_LEVEL) snprintf(bn,sizeof bn,"silk rate %s %s",lvk_name[it->a%7],it->stereo?"stereo":"mono"); else { b.fam=it->cfg; b.cfg=0; b.ridx=0; item_name(&b,bn,sizeof bn); }
      snprintf(nm,n,"level %s step %+d ms | %s",sn[(lv-1)/6],LV_OFF_MS[(lv-1)%6],bn); } break;
   default: snprintf(nm,n,"feat %s %s %s %dms",ft_name[it->variant],it->stereo?"stereo":"mono",sig_name[grid_sig(it->sig,it->stereo)],it->ms); break;
   }
}

/* transition duration schedules: variant 0: 20 ms / 20 ms, 1: 10/10, 2: 20 -> 10, 3: 10 -> 20 (CELT side may also run 5 ms: variant 4: 20 -> 5 if B is CELT else 60 -> 20) */
static void trans_durs(int variant,int a,int b,int *da,int *db){
   switch(variant){ case 0: case 5: *da=200;*db=200; break; case 1: *da=100;*db=100; break; case 2: *da=200;*db=100; break; case 3: *da=100; *db=200; break;
   default: *da = (a%9)<3?600:((a%9)>=5?50:200); *db = (b%9)<3?400:((b%9)>=5?25:100); break; }
}

static void item_make(const sitem *it0,corpus *c){
   sdesc d; char nm[200]; ccfg k; sitem bi=*it0; const sitem *it=it0; int lv=0, ch=it0->stereo?2:1;
   memset(&d,0,sizeof d); memset(c,0,sizeof *c); d.fs=48000; d.complexity=-1; d.seed=1+it->cfg*131u+it->a*17u+it->b*7u+it->variant*3u+it->sig;
   item_name(it,nm,sizeof nm);
   if (it0->fam==FAM_LEVEL){ lv=it0->ridx; bi.fam=it0->cfg; bi.cfg=0; bi.ridx=0; it=&bi; }
   memset(&LVI,0,sizeof LVI);
   if (it->fam==FAM_CFG || it->fam==FAM_REFRAME){
      corpus base; corpus *dst = it->fam==FAM_CFG? c : &base; int v=it->variant;
      cfg_to_ccfg(it->cfg,&k); k.ch_force=ch; k.bitrate=cfg_bitrate(k.mode,k.bw,ch,it->ridx);
      d.ch=ch; d.app = k.mode==REF_MODE_CELT_ONLY?OPUS_APPLICATION_AUDIO:OPUS_APPLICATION_VOIP;
      d.nseg=1; d.seg[0].k=k; d.seg[0].nframes=frames_for(it->ms,k.dur_x10); d.seg[0].sig=grid_sig(it->sig,it->stereo);
      if (it->fam==FAM_REFRAME && v>=RV_CBR) d.cbr=1;
      memset(&base,0,sizeof base);
      s_encode(dst,nm,&d);
      if (it->fam==FAM_REFRAME){
         int maxk=1200/k.dur_x10; if(maxk>48) maxk=48;
         switch(v){
         case RV_MERGE2: case RV_CBR_MERGE2: s_reframe(c,nm,&base,2,0); break;
         case RV_MERGE3: case RV_CBR_MERGE3: s_reframe(c,nm,&base,3,0); break;
         case RV_MERGEMAX: s_reframe(c,nm,&base,maxk,0); break;
         case RV_CBR_MAXPAD: s_reframe(c,nm,&base,maxk,1); break;
         case RV_PAD: s_reframe(c,nm,&base,1,1); break;
         default: s_reframe(c,nm,&base,1,0); break;   /* RV_CBR: encoder CBR output as is (goes through cat/out of single packets: identity) */
         }
         corpus_free(&base);
      }
   } else if (it->fam==FAM_TRANS){
      int da,db; trans_durs(it->variant,it->a,it->b,&da,&db);
      d.ch=2; d.app=OPUS_APPLICATION_AUDIO; d.nseg=2;
      triple_to_ccfg(it->a,da,&d.seg[0].k); triple_to_ccfg(it->b,db,&d.seg[1].k);
      d.seg[0].nframes=frames_for(it->ms/2,da); d.seg[1].nframes=frames_for(it->ms/2,db); d.seg[0].sig=d.seg[1].sig=grid_sig(it->sig,1);
      if (it->variant==5){ d.seg[0].nframes=15; d.seg[1].nframes=frames_for(it->ms-300,db); }
      d.sigmod=grid_sigmod(it->sig); prof_apply(&d,it->ridx&3);
      if ((it->ridx&3)==3){ d.seg[0].k.bitrate=cfg_bitrate(d.seg[0].k.mode,d.seg[0].k.bw,d.seg[0].k.ch_force,0); d.seg[1].k.bitrate=cfg_bitrate(d.seg[1].k.mode,d.seg[1].k.bw,d.seg[1].k.ch_force,0); }
      lv_encode(c,nm,&d,lv);
   } else if (it->fam==FAM_ROUND){
      int du=it->variant?100:200, nf=it->ms*10/du/3, low=(it->ridx&3)==3; if(nf<4) nf=4;
      d.ch=2; d.app=OPUS_APPLICATION_AUDIO; d.nseg=3;
      triple_to_ccfg(round_triple(it->a),du,&d.seg[0].k); triple_to_ccfg(round_triple(it->b),du,&d.seg[1].k);
      if (low){ d.seg[0].k.bitrate=cfg_bitrate(d.seg[0].k.mode,d.seg[0].k.bw,d.seg[0].k.ch_force,0); d.seg[1].k.bitrate=cfg_bitrate(d.seg[1].k.mode,d.seg[1].k.bw,d.seg[1].k.ch_force,0); }
      d.seg[0].nframes=d.seg[1].nframes=nf; d.seg[0].sig=d.seg[1].sig=grid_sig(it->sig,1); d.seg[2]=d.seg[0];
      d.sigmod=grid_sigmod(it->sig); prof_apply(&d,it->ridx&3);
      s_encode(c,nm,&d);
   } else if (it->fam==FAM_SWITCH){
      static const int cd[4]={25,50,100,200}, cbw[4]={BWN,BWW,BWS,BWF};
      int v=it->variant, durB=cd[it->b], sg=grid_sig(it->sig,it->stereo), nA,nB,to_celt=(v==SW_TO_CELT||v==SW_TO_CELT_CAP||v==SW_DTX_TO_CELT||v==SW_LOSS_TO_CELT), n=0;
      ccfg A,B; sseg sa,sb;
      cfg_to_ccfg(it->a,&A); A.ch_force=ch; A.bitrate=cfg_bitrate(A.mode,A.bw,ch,1);
      memset(&B,0,sizeof B); B.mode=REF_MODE_CELT_ONLY; B.bw=cbw[(it->a+it->b)%4]; B.dur_x10=durB; B.ch_force=ch; B.bitrate=cfg_bitrate(B.mode,B.bw,ch,1);
      /* -> CELT below 10 ms: the CALLER only shortens the frames; mode and bandwidth stay forced to A's, the encoder itself must jump to CELT */
      if (to_celt && durB<100){ B.mode=A.mode; B.bw=A.bw; B.bitrate=cfg_bitrate(REF_MODE_CELT_ONLY,BWW,ch,1); }
      nA=frames_for(160,A.dur_x10); nB=frames_for(100,durB);
      memset(&sa,0,sizeof sa); memset(&sb,0,sizeof sb); sa.k=A; sa.nframes=nA; sa.sig=sg; sb.k=B; sb.nframes=nB; sb.sig=sg;
      d.ch=ch; d.app=OPUS_APPLICATION_VOIP;
      if (to_celt){
         if (v==SW_DTX_TO_CELT){ d.dtx=1; sa.nframes=10; d.seg[n++]=sa; sa.sig=SIG_SILENCE; sa.nframes=35; d.seg[n++]=sa; }
         else { if(v==SW_LOSS_TO_CELT) sa.lose_last=1; d.seg[n++]=sa; }
         if (v==SW_TO_CELT_CAP){ sseg c2=sb; c2.nframes=2; c2.maxbytes=sw_cap(durB,ch); d.seg[n++]=c2; sb.nframes=nB-2; }
         d.seg[n++]=sb;
      } else {
         if (v==SW_LOSS_FROM_CELT) sb.lose_last=1;
         d.seg[n++]=sb;
         if (v==SW_FROM_CELT_CAP){ sseg c2=sa; c2.nframes=2; c2.maxbytes=sw_cap(A.dur_x10,ch); d.seg[n++]=c2; sa.nframes=nA-2>0?nA-2:1; }
         d.seg[n++]=sa;
      }
      d.nseg=n;
      lv_encode(c,nm,&d,lv);
   } else if (it->fam==FAM_LEVEL){
      /* SILK internal-rate switches. a%7: 0..2 forced downwards at segment 1 by the caller's max_data_bytes (effective rate < 8000 b/s -> 12 kHz,
         < 7000 b/s -> 8 kHz, taken at once by silk_control_audio_bandwidth); 3..6 the SILK encoder's own switch after OPUS_SET_BANDWIDTH
         (found by the probe pass; the stream is cut 8 packets after it) */
      static const int from[7]={BWW,BWW,BWM,BWN,BWM,BWW,BWM}, to[7]={BWW,BWW,BWM,BWM,BWW,BWM,BWN}, cap[7]={19,17,17,0,0,0,0};
      int kd=it->a%7; ccfg A; memset(&A,0,sizeof A); A.mode=REF_MODE_SILK_ONLY; A.bw=from[kd]; A.dur_x10=200; A.ch_force=ch; A.bitrate=cfg_bitrate(A.mode,A.bw,ch,1);
      d.ch=ch; d.app=OPUS_APPLICATION_VOIP; d.nseg=2; d.seg[0].k=A; d.seg[0].nframes=kd<3?8:10; d.seg[0].sig=grid_sig(it->sig,it->stereo);
      d.seg[1]=d.seg[0]; d.seg[1].k.bw=to[kd]; d.seg[1].maxbytes=cap[kd]; d.seg[1].nframes=kd<3?8:320; d.lv_trunc=kd>=3;
      lv_encode(c,nm,&d,lv);
   } else {
      int v=it->variant, sg=grid_sig(it->sig,it->stereo), ms=it->ms; ccfg a; memset(&a,0,sizeof a);
      d.ch=ch; d.app=OPUS_APPLICATION_VOIP; d.nseg=1; d.seg[0].sig=sg;
#define ONE(MODE,BW,DUR,RATE) do{ a.mode=MODE; a.bw=BW; a.dur_x10=DUR; a.ch_force=ch; a.bitrate=(RATE)*(ch==2?8:5)/5; d.seg[0].k=a; d.seg[0].nframes=frames_for(ms,DUR); }while(0)
      switch(v){
      case FT_FEC_SILK_WB:   ONE(REF_MODE_SILK_ONLY,BWW,200,24000); d.fec=1; break;
      case FT_FEC_SILK_NB60: ONE(REF_MODE_SILK_ONLY,BWN,600,16000); d.fec=1; break;
      case FT_FEC_HYB:       ONE(REF_MODE_HYBRID,BWF,200,40000); d.fec=1; break;
      case FT_FEC_SILK_MB40: ONE(REF_MODE_SILK_ONLY,BWM,400,20000); d.fec=1; break;
      case FT_DTX_SILK: case FT_DTX_HYB: case FT_DTX_CELT: {
         int mode = v==FT_DTX_SILK?REF_MODE_SILK_ONLY:v==FT_DTX_HYB?REF_MODE_HYBRID:REF_MODE_CELT_ONLY, bw = v==FT_DTX_SILK?BWW:v==FT_DTX_HYB?BWS:BWF;
         ONE(mode,bw,200,28000); d.dtx=1; d.nseg=3; d.seg[0].nframes=frames_for(ms/4,200); d.seg[1]=d.seg[0]; d.seg[1].sig=SIG_SILENCE; d.seg[1].nframes=frames_for(ms/2,200); d.seg[2]=d.seg[0];
         if (v==FT_DTX_CELT) d.app=OPUS_APPLICATION_AUDIO; } break;
      case FT_AUTO_VOIP: case FT_AUTO_AUDIO: { static const int ramp[9]={8000,14000,20000,32000,48000,96000,40000,18000,9000}; int s;
         d.app = v==FT_AUTO_VOIP?OPUS_APPLICATION_VOIP:OPUS_APPLICATION_AUDIO; d.nseg=9;
         for(s=0;s<9;s++){ memset(&a,0,sizeof a); a.dur_x10=200; a.bitrate=ramp[s]*(ch==2?3:2)/2; d.seg[s].k=a; d.seg[s].nframes=frames_for(ms/9,200); d.seg[s].sig=sg; } } break;
      case FT_LOWDELAY:  ONE(0,0,50,64000); d.app=OPUS_APPLICATION_RESTRICTED_LOWDELAY; break;
      case FT_CPLX0_SILK: ONE(REF_MODE_SILK_ONLY,BWW,200,20000); d.complexity=0; break;
      case FT_CPLX0_CELT: ONE(REF_MODE_CELT_ONLY,BWF,200,64000); d.complexity=0; d.app=OPUS_APPLICATION_AUDIO; break;
      case FT_PRED_DIS:  ONE(REF_MODE_HYBRID,BWF,200,40000); d.pred_dis=1; break;
      case FT_PHINV_DIS: ONE(REF_MODE_CELT_ONLY,BWF,200,48000); d.phinv_dis=1; d.app=OPUS_APPLICATION_AUDIO; break;
      case FT_CVBR:      ONE(REF_MODE_CELT_ONLY,BWS,100,48000); d.cvbr=1; d.app=OPUS_APPLICATION_AUDIO; break;
      case FT_LSB8:      ONE(REF_MODE_HYBRID,BWS,200,32000); d.lsb=8; break;
      case FT_ENC_CELT40: case FT_ENC_CELT60: case FT_ENC_CELT80: case FT_ENC_CELT100: case FT_ENC_CELT120:
         ONE(REF_MODE_CELT_ONLY,BWF,400+200*(v-FT_ENC_CELT40),64000); d.app=OPUS_APPLICATION_AUDIO; break;
      case FT_ENC_SILK80:  ONE(REF_MODE_SILK_ONLY,BWW,800,20000); break;
      case FT_ENC_SILK120: ONE(REF_MODE_SILK_ONLY,BWN,1200,12000); break;
      case FT_ENC_HYB40:   ONE(REF_MODE_HYBRID,BWF,400,40000); break;
      case FT_ENC_HYB60:   ONE(REF_MODE_HYBRID,BWS,600,32000); break;
      case FT_ENC_HYB120:  ONE(REF_MODE_HYBRID,BWF,1200,48000); break;
      default: { static const int fsv[4]={8000,12000,16000,24000}, rt[4]={12000,16000,24000,40000}; int f=v-FT_FS8;
         d.fs=fsv[f]; ONE(0,0,200,rt[f]); a.ch_force=0; d.seg[0].k=a; d.app = (f&1)?OPUS_APPLICATION_AUDIO:OPUS_APPLICATION_VOIP; } break;
      }
#undef ONE
      s_encode(c,nm,&d);
   }
}

/* ---- the enumerated item list of a tier ----
 * quick   : CFG 64 configs x 1 bitrate x 2 signals (both rotate with the config so that all three bitrates and all six signal
 *           classes occur), cfg_ms long; TRANS all 306 ordered pairs x schedules 0,1 (20 ms, 10 ms) x speech-like + the 24 long
 *           SILK-bandwidth schedules; REFRAME 64 configs x applicable variants (bitrate and signal rotate with config and variant);
 *           FEAT all x {mono,stereo} x 1 signal
 * thorough: CFG 64 x 3 bitrates x 6 signals, 1 s; TRANS 306 x 5 schedules x 2 signals, 0.4 s; REFRAME 64 x variants x 3 bitrates;
 *           FEAT all x {mono,stereo} x 3 signals
 * LEVEL   : quick 306 TRANS pairs x 5 schedule points + 448 SWITCH kinds x 2 + 6 forced SILK rate kinds x 24 + 8 own-switch kinds x 4;
 *           thorough: every kind x all 24 points
 * both    : SWITCH 16 SILK/hybrid configs x 4 CELT durations x {mono,stereo} x 7 variants (quick 568 streams, speech-like; thorough also multitone)
 */
typedef struct { int cfg_rates, cfg_sigs, cfg_ms, trans_scheds, trans_sigs, trans_ms, ref_rates, ref_ms, feat_sigs, feat_ms, silkbw_ms, switch_sigs, level_full, round_full; } grid_t;
static sitem *ITEMS; static int NITEMS;
static void items_add(const sitem *it){ static int cap; if(NITEMS==cap){ cap=cap?cap*2:1024; ITEMS=realloc(ITEMS,cap*sizeof(sitem)); } ITEMS[NITEMS++]=*it; }
static void items_build(const grid_t *G){
   int cfg,st,r,s,a,b,v; sitem it; ccfg k;
   for(cfg=0;cfg<32;cfg++) for(st=0;st<2;st++) for(r=0;r<G->cfg_rates;r++) for(s=0;s<G->cfg_sigs;s++){
      memset(&it,0,sizeof it); it.fam=FAM_CFG; it.cfg=cfg; it.stereo=st; it.ms=G->cfg_ms;
      it.ridx = G->cfg_rates==3? r : (cfg+st)%3; it.sig = G->cfg_sigs==6? s : (cfg*2+st+s)%6; items_add(&it); }
   for(a=0;a<NTRIPLE;a++) for(b=0;b<NTRIPLE;b++) if(a!=b) for(v=0;v<G->trans_scheds;v++) for(s=0;s<G->trans_sigs;s++){
      memset(&it,0,sizeof it); it.fam=FAM_TRANS; it.a=a; it.b=b; it.variant=v; it.sig=s; it.stereo=1; it.ms=G->trans_ms; items_add(&it); }
   /* SILK changes its internal bandwidth only in a speech pause (upwards one step per pause; downwards after a ~2.6 s filter transition):
      the SILK->SILK bandwidth pairs get a long schedule (variant 5) on the speech-like signal, whose pauses fall at 1.0, 2.25, 3.5 ... s */
   for(a=0;a<NTRIPLE;a++) for(b=0;b<NTRIPLE;b++) if(a%9<3 && b%9<3 && a%9!=b%9){
      memset(&it,0,sizeof it); it.fam=FAM_TRANS; it.a=a; it.b=b; it.variant=5; it.sig=0; it.stereo=1; it.ms=G->silkbw_ms; items_add(&it); }
   for(cfg=0;cfg<32;cfg++) for(st=0;st<2;st++) for(v=0;v<RV_N;v++) for(r=0;r<G->ref_rates;r++){
      cfg_to_ccfg(cfg,&k); if(!rv_applicable(v,k.dur_x10)) continue;
      memset(&it,0,sizeof it); it.fam=FAM_REFRAME; it.cfg=cfg; it.stereo=st; it.variant=v; it.ms=G->ref_ms;
      it.ridx = G->ref_rates==3? r : (cfg+st+v)%3; it.sig=(cfg+v)%6; items_add(&it); }
   for(v=0;v<FT_N;v++) for(st=0;st<2;st++) for(s=0;s<G->feat_sigs;s++){
      memset(&it,0,sizeof it); it.fam=FAM_FEAT; it.variant=v; it.stereo=st; it.sig = s==0?0:(s==1?1:5); it.ms=G->feat_ms; items_add(&it); }
   /* SWITCH: A = every SILK / hybrid TOC configuration, CELT at every duration, every variant that applies (same in both tiers;
      thorough adds a second signal) */
   for(s=0;s<G->switch_sigs;s++) for(v=0;v<SW_N;v++) for(a=0;a<16;a++) for(b=0;b<4;b++) for(st=0;st<2;st++){
      cfg_to_ccfg(a,&k);
      if (v==SW_TO_CELT_CAP && b<2) continue;                                   /* below 10 ms there is never redundancy: same stream as SW_TO_CELT */
      if ((v==SW_DTX_TO_CELT||v==SW_LOSS_TO_CELT||v==SW_LOSS_FROM_CELT) && k.dur_x10!=200) continue;
      memset(&it,0,sizeof it); it.fam=FAM_SWITCH; it.a=a; it.b=b; it.variant=v; it.stereo=st; it.sig=s; it.ms=0; items_add(&it); }
   /* ROUND: all 132 ordered pairs of the 12 hybrid / CELT-only triples, A->B->A. quick: {cx0, cx3} x right=hp-noise + cx0-cbr-low x right=-left,
      20 ms; thorough: 3 profiles x 2 signals x {20,10} ms. TRANS again with the profiles: quick cx0 x right=hp-noise; thorough 3 profiles x 2 signals */
   for(a=0;a<12;a++) for(b=0;b<12;b++) if(a!=b) for(v=0;v<(G->round_full?2:1);v++) for(r=1;r<=3;r++) for(s=6;s<=7;s++){
      if (!G->round_full && !((r<3&&s==6)||(r==3&&s==7))) continue;
      memset(&it,0,sizeof it); it.fam=FAM_ROUND; it.a=a; it.b=b; it.variant=v; it.ridx=r; it.sig=s; it.stereo=1; it.ms=G->round_full?480:360; items_add(&it); }
   for(a=0;a<NTRIPLE;a++) for(b=0;b<NTRIPLE;b++) if(a!=b) for(r=1;r<=3;r++) for(s=6;s<=7;s++){
      if (!G->round_full && !(r==1&&s==6)) continue;
      memset(&it,0,sizeof it); it.fam=FAM_TRANS; it.a=a; it.b=b; it.variant=0; it.ridx=r; it.sig=s; it.stereo=1; it.ms=G->trans_ms; items_add(&it); }
   /* LEVEL: lv = 1 + schedule*6 + offset index (schedules: 0 loud->-30 dB, 1 loud->-50 dB, 2 -50 dB->loud, 3 loud->30 ms silence->loud;
      offsets -25,-15,-5,+5,+15,+25 ms). thorough: all 24 points for every kind; quick: the points listed per kind class. Signal: multitone. */
   { static const unsigned char q_trans[5]={1+0*6+0,1+1*6+1,1+1*6+3,1+2*6+1,1+3*6+1}, q_switch[2]={1+1*6+1,1+2*6+1}, q_own[4]={1+1*6+1,1+1*6+0,1+2*6+1,1+3*6+1}; int p,np;
     np=G->level_full?24:5;
     for(a=0;a<NTRIPLE;a++) for(b=0;b<NTRIPLE;b++) if(a!=b) for(p=0;p<np;p++){
        memset(&it,0,sizeof it); it.fam=FAM_LEVEL; it.cfg=FAM_TRANS; it.a=a; it.b=b; it.variant=0; it.sig=1; it.stereo=1; it.ms=G->trans_ms; it.ridx=G->level_full?1+p:q_trans[p]; items_add(&it); }
     np=G->level_full?24:2;
     for(v=0;v<=SW_FROM_CELT_CAP;v++) for(a=0;a<16;a++) for(b=0;b<4;b++) for(st=0;st<2;st++) for(p=0;p<np;p++){
        if (v==SW_TO_CELT_CAP && b<2) continue;
        memset(&it,0,sizeof it); it.fam=FAM_LEVEL; it.cfg=FAM_SWITCH; it.a=a; it.b=b; it.variant=v; it.stereo=st; it.sig=1; it.ridx=G->level_full?1+p:q_switch[p]; items_add(&it); }
     for(a=0;a<7;a++) for(st=0;st<2;st++){ np=(a<3||G->level_full)?24:4;
        for(p=0;p<np;p++){ memset(&it,0,sizeof it); it.fam=FAM_LEVEL; it.cfg=FAM_LEVEL; it.a=a; it.stereo=st; it.sig=1; it.ridx=np==24?1+p:q_own[p]; items_add(&it); } }
   }
}
#endif
