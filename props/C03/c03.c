/* C03 — decoder output conforms to the reference decoder.
 *
 * Small-scope exhaustive enumeration over a stream grid (streams.h: every TOC configuration, every ordered
 * (mode,bandwidth,channels) transition, re-framings, encoder features — all produced by the FROZEN encoder) x the decoder
 * grid {8,12,16,24,48 kHz} x {1,2} channels x {float, 16-bit, 24-bit} API.  For every (stream, decoder) pair three
 * decoders run side by side in this process on the same packets:
 *     T  = the TREE decoder of this build variant (float build in part "float", FIXED_POINT build in part "fixed")
 *     R  = frozen reference, float build   (ref_*)    — stands in for the normative RFC 6716 decoder (spec.json assumptions)
 *     X  = frozen reference, fixed build   (reffx_*)
 * Oracle (from the statement only):
 *   per packet : samples(T) == samples(R) [== samples(X) == packet duration x rate];
 *                OPUS_GET_FINAL_RANGE(T) == FINAL_RANGE(R) [== FINAL_RANGE(X)]  and == the range the frozen encoder reported
 *   per stream : PCM(T) vs PCM(R) for the same stream, rate, channel count and API passes the conformance metric
 *                (opus_compare, ocmp.h): Q >= 0.  The threshold is the RFC tool's own pass threshold; nothing is calibrated.
 * Advisory only (never a failure): max |T - same-arithmetic frozen build| (bit-exactness regression indicator), and the RFC's
 * literal procedure (48 kHz stereo reference output vs the decoder under test at its own rate / channel count).
 *
 * item = one stream; inside an item all 30 decoder configurations are run.
 * states = distinct (stream, decoder configuration) pairs; transitions = tree decode calls;
 * distinct_nontrivial = distinct (TOC config incl. stereo bit, frame code, padding flag, transition kind, decoder config) classes
 * of packets that decoded in lock-step.
 */
#include <stdlib.h>
#include <string.h>
#include <stdio.h>
#include <math.h>
#include "opus.h"
#include "mc.h"
#include "streams.h"
#include "ocmp.h"

#ifdef FIXED_POINT
# define PARTNAME "fixed"
# define IS_FIXED 1
#else
# define PARTNAME "float"
# define IS_FIXED 0
#endif

enum { API_F32=0, API_S16, API_S24, API_N };
static const char *const api_name[API_N]={"float","int16","int24"};
static const int RATES[5]={8000,12000,16000,24000,48000};

static mc_ctr *c_states,*c_trans,*c_eval,*c_dn,*c_streams,*c_packets,*c_pairs,*c_ident,*c_qcomp,*c_qdef,*c_advf,*c_adv16,*c_adv24,*c_x16,*c_rfc_n,*c_rfc_def,*c_rfc_below,*c_audio_ms,*c_dtxpk,*c_fallback,*c_lowq,*c_f6rep,*c_huge;
static mc_set *S_states,*S_classes,*S_toc,*S_trans,*S_codes;
static int opt_fam, opt_rfcproc, opt_apis;

/* ---- observation of redundancy frames: every call the TREE library makes to ec_dec_bit_logp() goes through this wrapper
 * (-Wl,--wrap; the frozen libraries' symbols are renamed, so they are not affected). A SILK-only / hybrid frame reads: the SILK header
 * flags (VAD per 20 ms frame + LBRR, per coded channel: N = (frames+1)*channels reads of logp 1), then after the SILK payload, in
 * opus_decode_frame(), [hybrid: the redundancy flag, logp 12] and, if redundancy is present, the celt_to_silk bit (logp 1), before any
 * CELT call (whose first read is the silence flag, logp 15). Used for evidence counters only, never for an oracle. */
struct ec_ctx; int __real_ec_dec_bit_logp(struct ec_ctx *d,unsigned logp);
#define HOOKMAX 24
static int hook_on,hook_n,hook_logp[HOOKMAX],hook_res[HOOKMAX];
int __wrap_ec_dec_bit_logp(struct ec_ctx *d,unsigned logp){ int r=__real_ec_dec_bit_logp(d,logp); if(hook_on&&hook_n<HOOKMAX){ hook_logp[hook_n]=(int)logp; hook_res[hook_n]=r; hook_n++; } return r; }
static mc_ctr *c_fr_intra,*c_fr_inter,*c_widen_intra,*c_widen_inter,*c_widen_inter_st;
static mc_ctr *c_lv_met[4][6],*c_lv_streams,*c_lv_noswitch,*c_lv_shifted,*c_lv_rate,*c_lv_rate_l2q; static mc_set *S_lvclass;
static mc_ctr *c_nored_to[2][4],*c_nored_from[2][4],*c_red_to,*c_red_from,*c_nored_after_gap,*c_loss_adv,*c_loss_streams;

static int triple_of(int toc){ return (rfc_mode(toc)*5+rfc_bandwidth(toc))*2+rfc_channels(toc)-1; }
static const char *modeclass(const corpus *c){ static const char *const n[3]={"silk","hybrid","celt"}; int i,m=-1; for(i=0;i<c->n;i++){ int k; if(!c->p[i].len) continue; k=rfc_mode(c->p[i].data[0]); if(m<0) m=k; else if(m!=k) return "mixed"; } return m<0?"none":n[m]; }

/* 16-bit sample values held in floats (what opus_compare's read_pcm16 yields) */
static void to16_f(float *o,const float *in,long n){ long i; for(i=0;i<n;i++){ float v=in[i]*32768.f; if(!(v>-32768.f)) v=-32768.f; else if(v>32767.f) v=32767.f; o[i]=(float)lrintf(v); } }
static void to16_s(float *o,const opus_int16 *in,long n){ long i; for(i=0;i<n;i++) o[i]=in[i]; }
static void to16_w(float *o,const opus_int32 *in,long n){ long i; for(i=0;i<n;i++){ long v=((long)in[i]+128)>>8; if(v>32767) v=32767; else if(v<-32768) v=-32768; o[i]=(float)v; } }

typedef struct { const sitem *it; const corpus *c; const char *name; const char *mclass; long len48; int nframes; int allmono; int has_loss;
                 oc_spec X48s,X48m; int have48; uint64_t *pclass; int npclass; } ictx;

static void fail_pcm(const ictx *I,int rate,int ch,int api,float Q,double err,const float *x,const float *y,long n){
   char sig[96]; long i,first=-1; float mx=0; for(i=0;i<n;i++){ float d=fabsf(x[i]-y[i]); if(d>0&&first<0) first=i; if(d>mx) mx=d; }
   snprintf(sig,sizeof sig,"pcm_q_below_0:%s:%s:%s",PARTNAME,api_name[api],I->mclass);
   mc_info("Q<0: [%s] %d Hz x %d ch %s Q=%.1f",I->name,rate,ch,api_name[api],Q);
   mc_fail(sig,"stream [%s] (item %ld, %d packets) decoded at %d Hz x %d ch with the %s API: conformance metric of tree-%s vs the frozen reference (float build; fixed build where the two frozen builds disagree) Q=%.2f (weighted error %.4f; pass needs Q>=0); first differing sample %ld of %ld, max |diff| %.0f (16-bit units)",
           I->name,mc_cur_item(),I->c->n,rate,ch,api_name[api],PARTNAME,Q,err,first,n,mx);
}

static void run_config(ictx *I,int ri,int ch){
   const corpus *c=I->c; int rate=RATES[ri], ds=48000/rate, maxfs=rate*120/1000, err,a,i,p;
   long total=I->len48/ds, cap=(total+maxfs)*ch, off=0;
   OpusDecoder *T[API_N],*R[API_N],*X[API_N];
   float *tf=malloc(sizeof(float)*cap),*rf=malloc(sizeof(float)*cap),*xf=malloc(sizeof(float)*cap);
   opus_int16 *t16=malloc(2*cap),*r16=malloc(2*cap),*x16=malloc(2*cap);
   opus_int32 *t24=malloc(4*cap),*r24=malloc(4*cap),*x24=malloc(4*cap);
   int bad_count[API_N]={0,0,0}, bad_rng=0, bad_ref=0, w_pm=-1, w_prtocelt=0, w_gap=0, w_en=0, w_st=0;
   memset(T,0,sizeof T); memset(R,0,sizeof R); memset(X,0,sizeof X);
   mc_case("decode","stream [%s] item %ld at %d Hz x %d ch",I->name,mc_cur_item(),rate,ch);
   for(a=0;a<API_N;a++){ T[a]=opus_decoder_create(rate,ch,&err); R[a]=ref_opus_decoder_create(rate,ch,&err); X[a]=reffx_opus_decoder_create(rate,ch,&err);
      if(!T[a]||!R[a]||!X[a]){ mc_fail("decoder_create","opus_decoder_create(%d,%d) failed (tree %p ref %p reffx %p)",rate,ch,(void*)T[a],(void*)R[a],(void*)X[a]); goto done; } }
   for(p=0;p<c->n;p++){
      const cpkt *k=&c->p[p]; int want=k->dur48/ds, nT[API_N],nR[API_N],nX[API_N]; opus_uint32 gT[API_N],gR[API_N],gX[API_N];
      const unsigned char *kd=k->len?k->data:NULL; int fs_=k->len?maxfs:want, watch=(ri==4&&ch==2);   /* a lost packet: decode(NULL,0) for exactly its duration */
      for(a=0;a<API_N;a++){
         if(!(opt_apis&(1<<a))) continue;
         switch(a){
         case API_F32: hook_on=watch; hook_n=0; nT[a]=opus_decode_float(T[a],kd,k->len,tf+off*ch,fs_,0); hook_on=0; nR[a]=ref_opus_decode_float(R[a],kd,k->len,rf+off*ch,fs_,0); nX[a]=reffx_opus_decode_float(X[a],kd,k->len,xf+off*ch,fs_,0); break;
         case API_S16: nT[a]=opus_decode(T[a],kd,k->len,t16+off*ch,fs_,0); nR[a]=ref_opus_decode(R[a],kd,k->len,r16+off*ch,fs_,0); nX[a]=reffx_opus_decode(X[a],kd,k->len,x16+off*ch,fs_,0); break;
         default:      nT[a]=opus_decode24(T[a],kd,k->len,t24+off*ch,fs_,0); nR[a]=ref_opus_decode24(R[a],kd,k->len,r24+off*ch,fs_,0); nX[a]=reffx_opus_decode24(X[a],kd,k->len,x24+off*ch,fs_,0); break;
         }
         opus_decoder_ctl(T[a],OPUS_GET_FINAL_RANGE(&gT[a])); ref_opus_decoder_ctl(R[a],OPUS_GET_FINAL_RANGE(&gR[a])); reffx_opus_decoder_ctl(X[a],OPUS_GET_FINAL_RANGE(&gX[a]));
         MC_INC(c_trans); MC_ADD(c_eval,2);
         /* the stand-in reference must itself be coherent (frozen float == frozen fixed == encoder); otherwise the assumption, not the tree, is at fault */
         if ((nR[a]!=want||nX[a]!=want) && !bad_ref){ bad_ref=1; mc_fail("assumption:reference_sample_count","stream [%s] packet %d (%d bytes %s) at %d Hz x %d ch %s: frozen float returns %d, frozen fixed %d, packet duration says %d",I->name,p,k->len,mc_hex(k->data,k->len<24?k->len:24),rate,ch,api_name[a],nR[a],nX[a],want); }
         if ((gR[a]!=gX[a]||gR[a]!=k->enc_range) && !bad_ref){ bad_ref=1; mc_fail("assumption:reference_range_incoherent","stream [%s] packet %d (%d bytes %s) at %d Hz x %d ch %s: frozen float range %08x, frozen fixed %08x, frozen encoder reported %08x",I->name,p,k->len,mc_hex(k->data,k->len<24?k->len:24),rate,ch,api_name[a],gR[a],gX[a],k->enc_range); }
         /* clause 1a: sample count */
         if (nT[a]!=nR[a] && !bad_count[a]){ char sig[80]; bad_count[a]=1; snprintf(sig,sizeof sig,"sample_count_vs_ref:%s:%s",PARTNAME,api_name[a]);
            mc_fail(sig,"stream [%s] packet %d (%d bytes %s) at %d Hz x %d ch, %s API: tree returns %d, frozen reference %d",I->name,p,k->len,mc_hex(k->data,k->len<24?k->len:24),rate,ch,api_name[a],nT[a],nR[a]); }
         /* clause 1b: final range, tree vs reference decoder */
         if (gT[a]!=gR[a] && !bad_rng){ char sig[80]; bad_rng=1; snprintf(sig,sizeof sig,"final_range_vs_ref:%s:%s",PARTNAME,I->mclass);
            mc_fail(sig,"stream [%s] packet %d of %d (%d bytes, TOC %02x, %s) at %d Hz x %d ch, %s API: tree final range %08x, frozen reference decoder %08x (frozen fixed %08x, encoder %08x)",I->name,p,c->n,k->len,k->len?k->data[0]:0,mc_hex(k->data,k->len<32?k->len:32),rate,ch,api_name[a],gT[a],gR[a],gX[a],k->enc_range); }
         /* (tree == encoder's reported range) follows from tree == reference decoder and the coherence check reference == encoder above */
      }
      if (watch){   /* evidence only: which mode-boundary crossings came with / without a redundancy frame (see opus_decode_frame) */
         if (k->len<=2){ w_prtocelt=0; w_gap=1; }
         else { int toc=k->data[0], m=rfc_mode(toc), red=0, c2s=0, d48=rfc_frame_48k(toc), di;
            if (m!=2){ int N=((d48<=960?1:d48/960)+1)*rfc_channels(toc), q=0; while(q<hook_n&&q<N&&hook_logp[q]==1) q++;
               if (q==N && q<hook_n){ if(hook_logp[q]==12){ red=hook_res[q]; if(red&&q+1<hook_n&&hook_logp[q+1]==1) c2s=hook_res[q+1]; } else if(m==0&&hook_logp[q]==1){ red=1; c2s=hook_res[q]; } } }
            if (w_pm>=0 && (m==2)!=(w_pm==2)){
               if (m==2){ di=d48==120?0:d48==240?1:d48==480?2:3; if(!w_prtocelt){ MC_INC(c_nored_to[w_pm][di]); if(w_gap) MC_INC(c_nored_after_gap); } else MC_INC(c_red_to); }
               else { di=d48==480?0:d48==960?1:d48==1920?2:3; if(!red){ MC_INC(c_nored_from[m][di]); if(w_gap) MC_INC(c_nored_after_gap); } else MC_INC(c_red_from); } }
            /* CELT layer: band range [start,end) of this packet vs the previous one, and the intra-energy flag of the first frame
               (CELT header reads: [silence, logp 15, only at the very start of the range decoder] [post-filter, logp 1, CELT-only]
               [transient, logp 3, frames > 2.5 ms] intra, logp 3). Evidence counters only. */
            { static const int ENDB[5]={13,15,17,19,21}; int st_=m==1?17:0, en_=m==0?0:ENDB[rfc_bandwidth(toc)], intra=-1, q=0;
              if (m!=0 && (toc&3)==0 && !red){
                 if (m==1){ q=((d48<=960?1:d48/960)+1)*rfc_channels(toc); if(q<hook_n&&hook_logp[q]==12) q++; else q=hook_n; }
                 else { if(q<hook_n&&hook_logp[q]==15){ if(hook_res[q]) q=hook_n; else q++; } if(q<hook_n&&hook_logp[q]==1) q++; }
                 if (d48>120){ if(q<hook_n&&hook_logp[q]==3) q++; else q=hook_n; }
                 if (q<hook_n&&hook_logp[q]==3) intra=hook_res[q]; }
              if (intra>=0){ MC_INC(intra?c_fr_intra:c_fr_inter);
                 if (w_en>0 && !w_gap && (en_>w_en || st_<w_st)){ if(intra) MC_INC(c_widen_intra); else { MC_INC(c_widen_inter); if(rfc_channels(toc)==2) MC_INC(c_widen_inter_st); } } }
              w_en=en_; w_st=st_; }
            w_pm=m; w_prtocelt=(m!=2&&red&&!c2s); w_gap=0; }
      }
      if (bad_count[0]||bad_count[1]||bad_count[2]||bad_ref) goto done;   /* PCM buffers no longer aligned: stop this configuration */
      off+=want;
   }
   /* per stream: PCM clause */
   { long n=off*ch; float *y=malloc(sizeof(float)*(n+1)),*x=malloc(sizeof(float)*(n+1)); int nf=I->nframes, yb=oc_ybands(rate), overdriven=0;
     for(a=0;a<API_N;a++){
        oc_spec Ys; int haveY=0, ident, skipq; float Q=100; double er=0;
        if(!(opt_apis&(1<<a))) continue;
        if(a==API_F32){ to16_f(y,tf,n); to16_f(x,rf,n); } else if(a==API_S16){ to16_s(y,t16,n); to16_s(x,r16,n); } else { long i4; to16_w(y,t24,n); to16_w(x,r24,n);
           /* F6 (fixed in /repo, present in the frozen sources): the frozen opus_decode24 converts with an unclamped float2int(x*2^23), which wraps to INT_MIN
              once |x| >= 256 full scales. Where the frozen float-API output of the same stream / rate / channels says so, the wrapped reference sample is
              replaced by its saturated value, so that the repaired conversion of the tree is not reported as a deviation. Counted. */
           for(i4=0;i4<n;i4++) if(fabsf(rf[i4])>=256.f){ x[i4]=rf[i4]>0?32767.f:-32768.f; MC_INC(c_f6rep); } }
        ident=!memcmp(x,y,sizeof(float)*n);
        if (a==API_F32){ long i5; float mx=0; for(i5=0;i5<n;i5++) if(fabsf(rf[i5])>mx) mx=fabsf(rf[i5]); if(mx>=256.f && MC_INC(c_huge)<8) mc_info("observation (tree and frozen reference alike): decoded output reaches %.0f x full scale in [%s] at %d Hz x %d ch",mx,I->name,rate,ch); }
        skipq=0; (void)overdriven;
        mc_set_add(S_states,mc_mix(mc_mix(mc_cur_item(),ri*2+ch),a+77));
        if (nf>0 && !skipq){
           MC_INC(c_pairs); MC_INC(c_eval);
           if (!ident){ oc_spec Xs; oc_band_energy(&Ys,y,ch,nf,ds,yb,0); haveY=1; oc_band_energy(&Xs,x,ch,nf,ds,yb,1); Q=oc_score(&Xs,&Ys,rate,&er); oc_free(&Xs); MC_INC(c_qcomp); }
           else MC_INC(c_ident);
           /* Part 'fixed': the reference implementation exists in two normative arithmetic builds. Where the frozen fixed-point build is itself
              outside the tolerance of the frozen float build (audio that comes from the non-normative PLC: mode switches without a redundancy
              frame cross-fade from PLC output, which float and fixed builds synthesise differently; 16-bit output above full scale: soft clip
              vs saturation) "the reference decoder's output" is not unique, and the tree's fixed build is held to the frozen FIXED build
              instead. Same threshold, no special-casing of streams; every use is counted. */
           if (IS_FIXED && !(Q>=0)){ const void *xs = a==API_F32?(const void*)xf:a==API_S16?(const void*)x16:(const void*)x24; float *z=malloc(sizeof(float)*(n+1)); oc_spec Zs,Xs; float Qxr; double e2;
              if(a==API_F32) to16_f(z,xs,n); else if(a==API_S16) to16_s(z,xs,n); else to16_w(z,xs,n);
              oc_band_energy(&Zs,z,ch,nf,ds,yb,1); oc_band_energy(&Xs,x,ch,nf,ds,yb,1); Qxr=oc_score(&Xs,&Zs,rate,&e2); oc_free(&Xs);
              if (!(Qxr>=0)){ int first=MC_INC(c_fallback)<10; float Q0=Q;
                 if (!memcmp(z,y,sizeof(float)*n)){ Q=100; er=0; } else Q=oc_score(&Zs,&Ys,rate,&er);
                 if (first) mc_info("reference builds disagree (frozen fixed vs frozen float Q=%.1f): [%s] %d Hz x %d ch %s held to the frozen fixed build: Q=%.1f (vs frozen float %.1f)",Qxr,I->name,rate,ch,api_name[a],Q,Q0);
                 memcpy(x,z,sizeof(float)*n); }
              oc_free(&Zs); free(z); }
           { long def=(long)ceil((100.0-Q)*100.0); if(def<0) def=0; MC_MAX(c_qdef,def); }
           if (!(Q>=0) && I->has_loss){ if(MC_INC(c_loss_adv)<6) mc_info("advisory (stream contains a lost packet; PLC is non-normative): Q=%.1f for [%s] at %d Hz x %d ch %s",Q,I->name,rate,ch,api_name[a]); }
           else if (!(Q>=0)) fail_pcm(I,rate,ch,a,Q,er,x,y,n);
           else if (Q<50 && MC_INC(c_lowq)<12) mc_info("lowest margins: Q=%.1f for [%s] at %d Hz x %d ch, %s API",Q,I->name,rate,ch,api_name[a]);
           /* advisory: the RFC's literal procedure (48 kHz stereo reference vs decoder under test), where it is meaningful:
              stereo decoders, or mono decoders on all-mono streams (a mono decoder ignores phase inversion, the downmixed stereo reference does not) */
           if (a==API_F32 && opt_rfcproc && I->have48 && (ch==2||I->allmono)){ float QA; double ea; long def;
              if(!haveY){ oc_band_energy(&Ys,y,ch,nf,ds,yb,0); haveY=1; }
              QA=oc_score(ch==2?&I->X48s:&I->X48m,&Ys,rate,&ea); MC_INC(c_rfc_n); def=(long)ceil((100.0-QA)*100.0); if(def<0) def=0; MC_MAX(c_rfc_def,def); if(!(QA>=0)){ if(MC_INC(c_rfc_below)<10) mc_info("advisory: RFC literal procedure (48k stereo frozen reference vs tree at %d Hz x %d ch) Q=%.1f on [%s]",rate,ch,QA,I->name); } }
           if (haveY) oc_free(&Ys);
        }
        /* advisory: distance to the frozen build of the SAME arithmetic (0 on an unchanged tree), and float-vs-fixed distance */
        { long i2; if(a==API_F32){ const float *s=IS_FIXED?xf:rf; float mx=0; for(i2=0;i2<n;i2++){ float d=fabsf(tf[i2]-s[i2]); if(d>mx) mx=d; } MC_MAX(c_advf,(long)ceil(mx*16777216.0)); }
          else if(a==API_S16){ const opus_int16 *s=IS_FIXED?x16:r16; long mx=0,mc=0; for(i2=0;i2<n;i2++){ long d=labs((long)t16[i2]-s[i2]), e=labs((long)t16[i2]-r16[i2]); if(d>mx) mx=d; if(e>mc) mc=e; } MC_MAX(c_adv16,mx); MC_MAX(c_x16,mc); }
          else { const opus_int32 *s=IS_FIXED?x24:r24; long mx=0; for(i2=0;i2<n;i2++){ long d=labs((long)t24[i2]-s[i2]); if(d>mx) mx=d; } MC_MAX(c_adv24,mx); } }
        /* observation classes of packets that decoded in lock-step in this decoder configuration */
        if (!bad_rng) for(i=0;i<I->npclass;i++) mc_set_add(S_classes,mc_mix(I->pclass[i],(ri*2+ch)*4+a));
     }
     free(x); free(y);
   }
done:
   for(a=0;a<API_N;a++){ if(T[a]) opus_decoder_destroy(T[a]); if(R[a]) ref_opus_decoder_destroy(R[a]); if(X[a]) reffx_opus_decoder_destroy(X[a]); }
   free(tf);free(rf);free(xf);free(t16);free(r16);free(x16);free(t24);free(r24);free(x24);
}

static void run_item(long idx,void *ctx){
   const sitem *it=&ITEMS[idx]; corpus c; ictx I; char nm[220]; int p,ri,ch,prev=-1; (void)ctx;
   if (opt_fam>=0 && it->fam!=opt_fam) return;
   item_name(it,nm,sizeof nm);
   mc_case("encode","frozen encoder building stream [%s] item %ld",nm,idx);
   item_make(it,&c);
   if (LVI.lv){ int sched=(LVI.lv-1)/6, off=(LVI.lv-1)%6; MC_INC(c_lv_streams);
      if (LVI.K<0){ char n2[220]; item_name(it,n2,sizeof n2); if (MC_INC(c_lv_noswitch)<70 && it->cfg!=FAM_TRANS) mc_info("level: no switch found by the probe pass: [%s]",n2); } else if (!LVI.met) MC_INC(c_lv_shifted);
      else { MC_INC(c_lv_met[sched][off]); mc_set_add(S_lvclass,mc_mix(mc_mix(LVI.prev_tr*64+LVI.new_tr+1,LVI.lv),it->cfg*8+it->variant));
             if (LVI.rate_switch){ MC_INC(c_lv_rate); if (sched<=1 && off<=1) MC_INC(c_lv_rate_l2q); } } }
   memset(&I,0,sizeof I); I.it=it; I.c=&c; I.name=nm; I.mclass=modeclass(&c); I.allmono=1;
   I.pclass=malloc(sizeof(uint64_t)*(c.n+1));
   for(p=0;p<c.n;p++){ const cpkt *k=&c.p[p]; int toc=k->len?k->data[0]:0, tr=triple_of(toc), code=toc&3, pad=(code==3&&k->len>1&&(k->data[1]&0x40))?1:0, kind=(prev>=0&&prev!=tr)?(prev*32+tr+1):0, q; uint64_t h;
      int empty = k->len<=2;
      I.len48+=k->dur48; if(!k->len){ I.has_loss=1; continue; }
      if(rfc_channels(toc)==2) I.allmono=0;
      mc_set_add(S_toc,(uint64_t)(toc>>2)+1); mc_set_add(S_codes,(uint64_t)(code*2+pad)+1); if(kind) mc_set_add(S_trans,(uint64_t)kind);
      if (empty) MC_INC(c_dtxpk);
      h=mc_mix(mc_mix(toc>>2,code*2+pad),mc_mix(kind,empty));
      for(q=0;q<I.npclass;q++) if(I.pclass[q]==h) break;
      if(q==I.npclass) I.pclass[I.npclass++]=h;
      prev=tr; }
   I.nframes=oc_nframes(I.len48);
   if (I.has_loss) MC_INC(c_loss_streams);
   MC_INC(c_streams); MC_ADD(c_packets,c.n); MC_ADD(c_audio_ms,I.len48/48);
   if (opt_rfcproc && I.nframes>0 && it->fam<FAM_SWITCH){   /* advisory only; not repeated for the SWITCH / LEVEL families */
      /* frozen float decoder at 48 kHz stereo = what the RFC procedure uses as the reference file */
      int err,i; OpusDecoder *d=ref_opus_decoder_create(48000,2,&err); long off=0,n=I.len48; float *f=malloc(sizeof(float)*(n+5760)*2),*s=malloc(sizeof(float)*n*2),*m=malloc(sizeof(float)*n); int ok=1;
      for(p=0;p<c.n&&ok;p++){ int r=ref_opus_decode_float(d,c.p[p].len?c.p[p].data:NULL,c.p[p].len,f+off*2,c.p[p].len?5760:c.p[p].dur48,0); if(r!=c.p[p].dur48) ok=0; else off+=r; }
      if(ok){ to16_f(s,f,n*2); for(i=0;i<n;i++) m[i]=.5f*(s[2*i]+s[2*i+1]); oc_band_energy(&I.X48s,s,2,I.nframes,1,OC_NBANDS,1); oc_band_energy(&I.X48m,m,1,I.nframes,1,OC_NBANDS,1); I.have48=1; }
      ref_opus_decoder_destroy(d); free(f); free(s); free(m);
   }
   for(ri=0;ri<5;ri++) for(ch=1;ch<=2;ch++) run_config(&I,ri,ch);
   if (idx%97==0) mc_sample("stream [%s]: %d packets, %ld ms, first packet %d bytes TOC %02x %s..., modes %s; decoded by tree-%s, frozen float and frozen fixed at 5 rates x 2 channel counts x 3 APIs: counts, final ranges (incl. encoder's %08x on the last packet) equal, Q>=0",
        nm,c.n,I.len48/48,c.p[0].len,c.p[0].data[0],mc_hex(c.p[0].data,c.p[0].len<12?c.p[0].len:12),I.mclass,PARTNAME,c.p[c.n-1].enc_range);
   if (I.have48){ oc_free(&I.X48s); oc_free(&I.X48m); }
   free(I.pclass); corpus_free(&c);
}

int main(int argc,char **argv){
   grid_t G; long skipped;
   mc_init(argc,argv,"C03",PARTNAME);
   if (strcmp(mc_arg_s("--build",PARTNAME),PARTNAME)){ fprintf(stderr,"C03: part/variant mismatch (built as %s)\n",PARTNAME); return 2; }
   MC.cpu_limit_s=(int)mc_arg("--itemcpu",600);
   /* grid bounds (see streams.h items_build) */
   G.cfg_rates=(int)mc_arg("--cfg-rates",MC.tier?3:1); G.cfg_sigs=(int)mc_arg("--cfg-sigs",MC.tier?6:2); G.cfg_ms=(int)mc_arg("--cfg-ms",MC.tier?1000:360);
   G.trans_scheds=(int)mc_arg("--trans-scheds",MC.tier?5:2); G.trans_sigs=(int)mc_arg("--trans-sigs",MC.tier?2:1); G.trans_ms=(int)mc_arg("--trans-ms",MC.tier?400:240);
   G.ref_rates=(int)mc_arg("--ref-rates",MC.tier?3:1); G.ref_ms=(int)mc_arg("--ref-ms",MC.tier?720:360);
   G.feat_sigs=(int)mc_arg("--feat-sigs",MC.tier?3:1); G.feat_ms=(int)mc_arg("--feat-ms",MC.tier?1800:1080); G.silkbw_ms=(int)mc_arg("--silkbw-ms",4300); G.switch_sigs=(int)mc_arg("--switch-sigs",MC.tier?2:1); G.level_full=(int)mc_arg("--level-full",MC.tier?1:0); G.round_full=(int)mc_arg("--round-full",MC.tier?1:0);
   opt_fam=(int)mc_arg("--fam",-1); opt_rfcproc=(int)mc_arg("--rfcproc",1); opt_apis=(int)mc_arg("--apis",7)|1;   /* the float API is always run: the full-scale guard needs it */
   items_build(&G);
   oc_init();
   c_states=mc_counter("states"); c_trans=mc_counter("transitions"); c_eval=mc_counter("evaluations"); c_dn=mc_counter("distinct_nontrivial");
   c_streams=mc_counter("streams"); c_packets=mc_counter("stream_packets"); c_audio_ms=mc_counter("stream_audio_ms"); c_pairs=mc_counter("stream_decoder_pcm_comparisons");
   c_ident=mc_counter("pcm_identical_to_reference"); c_qcomp=mc_counter("pcm_metric_computed"); c_qdef=mc_counter("worst_100_minus_Q_x100");
   c_advf=mc_counter("advisory_maxabs_vs_same_arith_float_api_x2p24"); c_adv16=mc_counter("advisory_maxabs_vs_same_arith_int16"); c_adv24=mc_counter("advisory_maxabs_vs_same_arith_int24");
   c_x16=mc_counter("advisory_maxabs_vs_frozen_float_int16");
   c_rfc_n=mc_counter("advisory_rfc_procedure_comparisons"); c_rfc_def=mc_counter("advisory_rfc_procedure_worst_100_minus_Q_x100"); c_rfc_below=mc_counter("advisory_rfc_procedure_Q_below_0");
   c_lowq=mc_counter("pcm_comparisons_with_Q_below_50"); c_f6rep=mc_counter("int24_reference_wrap_samples_repaired_F6"); c_huge=mc_counter("streams_x_configs_reference_above_256_full_scale");
   c_dtxpk=mc_counter("empty_packets_le2_bytes"); c_fallback=mc_counter("fixed_held_to_frozen_fixed_ref_builds_disagree");
   { static const char *const pc[2]={"silk","hybrid"}, *const dt[4]={"2p5ms","5ms","10ms","20ms"}, *const df[4]={"10ms","20ms","40ms","60ms"}; int i,j; char nm[48];
     for(i=0;i<2;i++) for(j=0;j<4;j++){ snprintf(nm,48,"nored_%s_to_celt_first_%s",pc[i],dt[j]); c_nored_to[i][j]=mc_counter(nm); }
     for(i=0;i<2;i++) for(j=0;j<(i?2:4);j++){ snprintf(nm,48,"nored_celt_to_%s_first_%s",pc[i],df[j]); c_nored_from[i][j]=mc_counter(nm); }
     c_nored_from[1][2]=c_nored_from[1][3]=c_nored_from[1][1];
     c_red_to=mc_counter("redundancy_switches_to_celt"); c_red_from=mc_counter("redundancy_switches_from_celt"); c_nored_after_gap=mc_counter("nored_switches_right_after_dtx_or_loss");
     c_loss_streams=mc_counter("streams_with_a_lost_packet"); c_loss_adv=mc_counter("advisory_loss_stream_Q_below_0"); }
   { static const char *const sn[4]={"loud_to_m30dB","loud_to_m50dB","m50dB_to_loud","silence_gap"}, *const on[6]={"m25ms","m15ms","m5ms","p5ms","p15ms","p25ms"}; int i,j; char nm[48];
     for(i=0;i<4;i++) for(j=0;j<6;j++){ snprintf(nm,48,"level_%s_step_%s_met",sn[i],on[j]); c_lv_met[i][j]=mc_counter(nm); }
     c_lv_streams=mc_counter("level_streams"); c_lv_noswitch=mc_counter("level_no_switch_in_probe"); c_lv_shifted=mc_counter("level_switch_moved_by_schedule");
     c_lv_rate=mc_counter("level_silk_rate_switch_met"); c_lv_rate_l2q=mc_counter("level_silk_rate_switch_loud_to_quiet_early_met"); S_lvclass=mc_set_new(16); }
   c_fr_intra=mc_counter("celt_first_frames_intra_energy"); c_fr_inter=mc_counter("celt_first_frames_inter_energy");
   c_widen_intra=mc_counter("celt_band_range_widened_first_frame_intra"); c_widen_inter=mc_counter("celt_band_range_widened_first_frame_inter"); c_widen_inter_st=mc_counter("celt_band_range_widened_first_inter_stereo");
   S_states=mc_set_new(21); S_classes=mc_set_new(20); S_toc=mc_set_new(8); S_trans=mc_set_new(12); S_codes=mc_set_new(6);
   skipped=mc_par(NITEMS,run_item,NULL); (void)skipped;
   *c_states=mc_set_count(S_states); *c_dn=mc_set_count(S_classes);
   *mc_counter("toc_configs_met_of_64")=mc_set_count(S_toc); *mc_counter("transition_kinds_met")=mc_set_count(S_trans); *mc_counter("frame_code_x_padding_classes_met_of_5")=mc_set_count(S_codes);
   *mc_counter("level_kind_x_schedule_classes_met")=mc_set_count(S_lvclass);
   *mc_counter("grid_items")=NITEMS;
   if (MC.only_item<0 && opt_fam<0 && mc_set_count(S_toc)<64 && !mc_deadline_passed()) mc_capped("the frozen encoder did not produce all 64 TOC configurations in this grid");
   return mc_finish();
}
