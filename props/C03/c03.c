/* C03 — decoder output conforms to the reference decoder.
 *
 * Small-scope exhaustive enumeration over a stream grid (streams.h: every TOC configuration, every ordered
 * (mode,bandwidth,channels) transition, re-framings, encoder features — all produced by the FROZEN encoder) x the decoder
 * grid {8,12,16,24,48 kHz} x {1,2} channels x {float, 16-bit, 24-bit} API.  For every (stream, decoder) pair three
 * decoders run side by side in this process on the same packets:
 *     T  = the TREE decoder of this build variant (float build in part "float", FIXED_POINT build in part "fixed")
 *     R  = frozen reference, float build   (ref_*)    — stands in for the normative RFC 6716 decoder (spec.json assumptions)
 *     X  = frozen reference, fixed build   (reffx_*)
 * Oracle (from the statement only):
 *   per packet : samples(T) == samples(R) [== samples(X) == packet duration x rate];
 *                OPUS_GET_FINAL_RANGE(T) == FINAL_RANGE(R) [== FINAL_RANGE(X)]  and == the range the frozen encoder reported
 *   per stream : PCM(T) vs PCM(R) for the same stream, rate, channel count and API passes the conformance metric
 *                (opus_compare, ocmp.h): Q >= 0.  The threshold is the RFC tool's own pass threshold; nothing is calibrated.
 * Advisory only (never a failure): max |T - same-arithmetic frozen build| (bit-exactness regression indicator), and the RFC's
 * literal procedure (48 kHz stereo reference output vs the decoder under test at its own rate / channel count).
 *
 * item = one stream; inside an item all 30 decoder configurations are run.
 * states = distinct (stream, decoder configuration) pairs; transitions = tree decode calls;
 * distinct_nontrivial = distinct (TOC config incl. stereo bit, frame code, padding flag, transition kind, decoder config) classes
 * of packets that decoded in lock-step.
 */
#include <stdlib.h>
#include <string.h>
#include <stdio.h>
#include <math.h>
#include "opus.h"
#include "mc.h"
#include "streams.h"
#include "ocmp.h"

#ifdef FIXED_POINT
# define PARTNAME "fixed"
# define IS_FIXED 1
#else
# define PARTNAME "float"
# define IS_FIXED 0
#endif

enum { API_F32=0, API_S16, API_S24, API_N };
static const char *const api_name[API_N]={"float","int16","int24"};
static const int RATES[5]={8000,12000,16000,24000,48000};

static mc_ctr *c_states,*c_trans,*c_eval,*c_dn,*c_streams,*c_packets,*c_pairs,*c_ident,*c_qcomp,*c_qdef,*c_advf,*c_adv16,*c_adv24,*c_x16,*c_rfc_n,*c_rfc_def,*c_rfc_below,*c_audio_ms,*c_dtxpk,*c_skip16,*c_lowq;
static mc_set *S_states,*S_classes,*S_toc,*S_trans,*S_codes;
static int opt_fam, opt_rfcproc, opt_apis;

static int triple_of(int toc){ return (rfc_mode(toc)*5+rfc_bandwidth(toc))*2+rfc_channels(toc)-1; }
static const char *modeclass(const corpus *c){ static const char *const n[3]={"silk","hybrid","celt"}; int i,m=-1; for(i=0;i<c->n;i++){ int k=rfc_mode(c->p[i].data[0]); if(m<0) m=k; else if(m!=k) return "mixed"; } return m<0?"none":n[m]; }

/* 16-bit sample values held in floats (what opus_compare's read_pcm16 yields) */
static void to16_f(float *o,const float *in,long n){ long i; for(i=0;i<n;i++){ float v=in[i]*32768.f; if(!(v>-32768.f)) v=-32768.f; else if(v>32767.f) v=32767.f; o[i]=(float)lrintf(v); } }
static void to16_s(float *o,const opus_int16 *in,long n){ long i; for(i=0;i<n;i++) o[i]=in[i]; }
static void to16_w(float *o,const opus_int32 *in,long n){ long i; for(i=0;i<n;i++){ long v=((long)in[i]+128)>>8; if(v>32767) v=32767; else if(v<-32768) v=-32768; o[i]=(float)v; } }

typedef struct { const sitem *it; const corpus *c; const char *name; const char *mclass; long len48; int nframes; int allmono;
                 oc_spec X48s,X48m; int have48; uint64_t *pclass; int npclass; } ictx;

static void fail_pcm(const ictx *I,int rate,int ch,int api,float Q,double err,const float *x,const float *y,long n){
   char sig[96]; long i,first=-1; float mx=0; for(i=0;i<n;i++){ float d=fabsf(x[i]-y[i]); if(d>0&&first<0) first=i; if(d>mx) mx=d; }
   snprintf(sig,sizeof sig,"pcm_q_below_0:%s:%s:%s",PARTNAME,api_name[api],I->mclass);
   mc_info("Q<0: [%s] %d Hz x %d ch %s Q=%.1f",I->name,rate,ch,api_name[api],Q);
   mc_fail(sig,"stream [%s] (item %ld, %d packets) decoded at %d Hz x %d ch with the %s API: conformance metric of tree-%s vs frozen float reference Q=%.2f (weighted error %.4f; pass needs Q>=0); first differing sample %ld of %ld, max |diff| %.0f (16-bit units)",
           I->name,mc_cur_item(),I->c->n,rate,ch,api_name[api],PARTNAME,Q,err,first,n,mx);
}

static void run_config(ictx *I,int ri,int ch){
   const corpus *c=I->c; int rate=RATES[ri], ds=48000/rate, maxfs=rate*120/1000, err,a,i,p;
   long total=I->len48/ds, cap=(total+maxfs)*ch, off=0;
   OpusDecoder *T[API_N],*R[API_N],*X[API_N];
   float *tf=malloc(sizeof(float)*cap),*rf=malloc(sizeof(float)*cap),*xf=malloc(sizeof(float)*cap);
   opus_int16 *t16=malloc(2*cap),*r16=malloc(2*cap),*x16=malloc(2*cap);
   opus_int32 *t24=malloc(4*cap),*r24=malloc(4*cap),*x24=malloc(4*cap);
   int bad_count[API_N]={0,0,0}, bad_rng=0, bad_ref=0;
   memset(T,0,sizeof T); memset(R,0,sizeof R); memset(X,0,sizeof X);
   mc_case("decode","stream [%s] item %ld at %d Hz x %d ch",I->name,mc_cur_item(),rate,ch);
   for(a=0;a<API_N;a++){ T[a]=opus_decoder_create(rate,ch,&err); R[a]=ref_opus_decoder_create(rate,ch,&err); X[a]=reffx_opus_decoder_create(rate,ch,&err);
      if(!T[a]||!R[a]||!X[a]){ mc_fail("decoder_create","opus_decoder_create(%d,%d) failed (tree %p ref %p reffx %p)",rate,ch,(void*)T[a],(void*)R[a],(void*)X[a]); goto done; } }
   for(p=0;p<c->n;p++){
      const cpkt *k=&c->p[p]; int want=k->dur48/ds, nT[API_N],nR[API_N],nX[API_N]; opus_uint32 gT[API_N],gR[API_N],gX[API_N];
      for(a=0;a<API_N;a++){
         if(!(opt_apis&(1<<a))) continue;
         switch(a){
         case API_F32: nT[a]=opus_decode_float(T[a],k->data,k->len,tf+off*ch,maxfs,0); nR[a]=ref_opus_decode_float(R[a],k->data,k->len,rf+off*ch,maxfs,0); nX[a]=reffx_opus_decode_float(X[a],k->data,k->len,xf+off*ch,maxfs,0); break;
         case API_S16: nT[a]=opus_decode(T[a],k->data,k->len,t16+off*ch,maxfs,0); nR[a]=ref_opus_decode(R[a],k->data,k->len,r16+off*ch,maxfs,0); nX[a]=reffx_opus_decode(X[a],k->data,k->len,x16+off*ch,maxfs,0); break;
         default:      nT[a]=opus_decode24(T[a],k->data,k->len,t24+off*ch,maxfs,0); nR[a]=ref_opus_decode24(R[a],k->data,k->len,r24+off*ch,maxfs,0); nX[a]=reffx_opus_decode24(X[a],k->data,k->len,x24+off*ch,maxfs,0); break;
         }
         opus_decoder_ctl(T[a],OPUS_GET_FINAL_RANGE(&gT[a])); ref_opus_decoder_ctl(R[a],OPUS_GET_FINAL_RANGE(&gR[a])); reffx_opus_decoder_ctl(X[a],OPUS_GET_FINAL_RANGE(&gX[a]));
         MC_INC(c_trans); MC_ADD(c_eval,2);
         /* the stand-in reference must itself be coherent (frozen float == frozen fixed == encoder); otherwise the assumption, not the tree, is at fault */
         if ((nR[a]!=want||nX[a]!=want) && !bad_ref){ bad_ref=1; mc_fail("assumption:reference_sample_count","stream [%s] packet %d (%d bytes %s) at %d Hz x %d ch %s: frozen float returns %d, frozen fixed %d, packet duration says %d",I->name,p,k->len,mc_hex(k->data,k->len<24?k->len:24),rate,ch,api_name[a],nR[a],nX[a],want); }
         if ((gR[a]!=gX[a]||gR[a]!=k->enc_range) && !bad_ref){ bad_ref=1; mc_fail("assumption:reference_range_incoherent","stream [%s] packet %d (%d bytes %s) at %d Hz x %d ch %s: frozen float range %08x, frozen fixed %08x, frozen encoder reported %08x",I->name,p,k->len,mc_hex(k->data,k->len<24?k->len:24),rate,ch,api_name[a],gR[a],gX[a],k->enc_range); }
         /* clause 1a: sample count */
         if (nT[a]!=nR[a] && !bad_count[a]){ char sig[80]; bad_count[a]=1; snprintf(sig,sizeof sig,"sample_count_vs_ref:%s:%s",PARTNAME,api_name[a]);
            mc_fail(sig,"stream [%s] packet %d (%d bytes %s) at %d Hz x %d ch, %s API: tree returns %d, frozen reference %d",I->name,p,k->len,mc_hex(k->data,k->len<24?k->len:24),rate,ch,api_name[a],nT[a],nR[a]); }
         /* clause 1b: final range, tree vs reference decoder */
         if (gT[a]!=gR[a] && !bad_rng){ char sig[80]; bad_rng=1; snprintf(sig,sizeof sig,"final_range_vs_ref:%s:%s",PARTNAME,I->mclass);
            mc_fail(sig,"stream [%s] packet %d of %d (%d bytes, TOC %02x, %s) at %d Hz x %d ch, %s API: tree final range %08x, frozen reference decoder %08x (frozen fixed %08x, encoder %08x)",I->name,p,c->n,k->len,k->data[0],mc_hex(k->data,k->len<32?k->len:32),rate,ch,api_name[a],gT[a],gR[a],gX[a],k->enc_range); }
         /* (tree == encoder's reported range) follows from tree == reference decoder and the coherence check reference == encoder above */
      }
      if (bad_count[0]||bad_count[1]||bad_count[2]||bad_ref) goto done;   /* PCM buffers no longer aligned: stop this configuration */
      off+=want;
   }
   /* per stream: PCM clause */
   { long n=off*ch; float *y=malloc(sizeof(float)*(n+1)),*x=malloc(sizeof(float)*(n+1)); int nf=I->nframes, yb=oc_ybands(rate), overdriven=0;
     for(a=0;a<API_N;a++){
        oc_spec Ys; int haveY=0, ident, skipq; float Q=100; double er=0;
        if(!(opt_apis&(1<<a))) continue;
        if(a==API_F32){ to16_f(y,tf,n); to16_f(x,rf,n); } else if(a==API_S16){ to16_s(y,t16,n); to16_s(x,r16,n); } else { to16_w(y,t24,n); to16_w(x,r24,n); }
        ident=!memcmp(x,y,sizeof(float)*n);
        if (a==API_F32){ long i3; overdriven=0; for(i3=0;i3<n;i3++) if(!(fabsf(rf[i3])<=1.0f)){ overdriven=1; break; } }
        /* G5a: above full scale the 16-bit API of a float build soft-clips (opus_pcm_soft_clip) while a fixed-point build saturates; both are
           the reference implementation's documented behaviour and differ by design, so the cross-arithmetic 16-bit comparison is only made
           where the reference output stays inside full scale (the float and 24-bit API comparisons are made regardless). Counted, not hidden. */
        skipq = IS_FIXED && a==API_S16 && overdriven;
        if (skipq && MC_INC(c_skip16)<10) mc_info("int16 cross-arithmetic comparison skipped (frozen float output above full scale): [%s] %d Hz x %d ch",I->name,rate,ch);
        mc_set_add(S_states,mc_mix(mc_mix(mc_cur_item(),ri*2+ch),a+77));
        if (nf>0 && !skipq){
           MC_INC(c_pairs); MC_INC(c_eval);
           if (!ident){ oc_spec Xs; oc_band_energy(&Ys,y,ch,nf,ds,yb,0); haveY=1; oc_band_energy(&Xs,x,ch,nf,ds,yb,1); Q=oc_score(&Xs,&Ys,rate,&er); oc_free(&Xs); MC_INC(c_qcomp); }
           else MC_INC(c_ident);
           { long def=(long)ceil((100.0-Q)*100.0); if(def<0) def=0; MC_MAX(c_qdef,def); }
           if (!(Q>=0)) fail_pcm(I,rate,ch,a,Q,er,x,y,n);
           else if (Q<50 && MC_INC(c_lowq)<12) mc_info("lowest margins: Q=%.1f for [%s] at %d Hz x %d ch, %s API",Q,I->name,rate,ch,api_name[a]);
           /* advisory: the RFC's literal procedure (48 kHz stereo reference vs decoder under test), where it is meaningful:
              stereo decoders, or mono decoders on all-mono streams (a mono decoder ignores phase inversion, the downmixed stereo reference does not) */
           if (a==API_F32 && opt_rfcproc && I->have48 && (ch==2||I->allmono)){ float QA; double ea; long def;
              if(!haveY){ oc_band_energy(&Ys,y,ch,nf,ds,yb,0); haveY=1; }
              QA=oc_score(ch==2?&I->X48s:&I->X48m,&Ys,rate,&ea); MC_INC(c_rfc_n); def=(long)ceil((100.0-QA)*100.0); if(def<0) def=0; MC_MAX(c_rfc_def,def); if(!(QA>=0)){ if(MC_INC(c_rfc_below)<10) mc_info("advisory: RFC literal procedure (48k stereo frozen reference vs tree at %d Hz x %d ch) Q=%.1f on [%s]",rate,ch,QA,I->name); } }
           if (haveY) oc_free(&Ys);
        }
        /* advisory: distance to the frozen build of the SAME arithmetic (0 on an unchanged tree), and float-vs-fixed distance */
        { long i2; if(a==API_F32){ const float *s=IS_FIXED?xf:rf; float mx=0; for(i2=0;i2<n;i2++){ float d=fabsf(tf[i2]-s[i2]); if(d>mx) mx=d; } MC_MAX(c_advf,(long)ceil(mx*16777216.0)); }
          else if(a==API_S16){ const opus_int16 *s=IS_FIXED?x16:r16; long mx=0,mc=0; for(i2=0;i2<n;i2++){ long d=labs((long)t16[i2]-s[i2]), e=labs((long)t16[i2]-r16[i2]); if(d>mx) mx=d; if(e>mc) mc=e; } MC_MAX(c_adv16,mx); MC_MAX(c_x16,mc); }
          else { const opus_int32 *s=IS_FIXED?x24:r24; long mx=0; for(i2=0;i2<n;i2++){ long d=labs((long)t24[i2]-s[i2]); if(d>mx) mx=d; } MC_MAX(c_adv24,mx); } }
        /* observation classes of packets that decoded in lock-step in this decoder configuration */
        if (!bad_rng) for(i=0;i<I->npclass;i++) mc_set_add(S_classes,mc_mix(I->pclass[i],(ri*2+ch)*4+a));
     }
     free(x); free(y);
   }
done:
   for(a=0;a<API_N;a++){ if(T[a]) opus_decoder_destroy(T[a]); if(R[a]) ref_opus_decoder_destroy(R[a]); if(X[a]) reffx_opus_decoder_destroy(X[a]); }
   free(tf);free(rf);free(xf);free(t16);free(r16);free(x16);free(t24);free(r24);free(x24);
}

static void run_item(long idx,void *ctx){
   const sitem *it=&ITEMS[idx]; corpus c; ictx I; char nm[160]; int p,ri,ch,prev=-1; (void)ctx;
   if (opt_fam>=0 && it->fam!=opt_fam) return;
   item_name(it,nm,sizeof nm);
   mc_case("encode","frozen encoder building stream [%s] item %ld",nm,idx);
   item_make(it,&c);
   memset(&I,0,sizeof I); I.it=it; I.c=&c; I.name=nm; I.mclass=modeclass(&c); I.allmono=1;
   I.pclass=malloc(sizeof(uint64_t)*(c.n+1));
   for(p=0;p<c.n;p++){ const cpkt *k=&c.p[p]; int toc=k->data[0], tr=triple_of(toc), code=toc&3, pad=(code==3&&k->len>1&&(k->data[1]&0x40))?1:0, kind=(prev>=0&&prev!=tr)?(prev*32+tr+1):0, q; uint64_t h;
      int empty = k->len<=2;
      I.len48+=k->dur48; if(rfc_channels(toc)==2) I.allmono=0;
      mc_set_add(S_toc,(uint64_t)(toc>>2)+1); mc_set_add(S_codes,(uint64_t)(code*2+pad)+1); if(kind) mc_set_add(S_trans,(uint64_t)kind);
      if (empty) MC_INC(c_dtxpk);
      h=mc_mix(mc_mix(toc>>2,code*2+pad),mc_mix(kind,empty));
      for(q=0;q<I.npclass;q++) if(I.pclass[q]==h) break;
      if(q==I.npclass) I.pclass[I.npclass++]=h;
      prev=tr; }
   I.nframes=oc_nframes(I.len48);
   MC_INC(c_streams); MC_ADD(c_packets,c.n); MC_ADD(c_audio_ms,I.len48/48);
   if (opt_rfcproc && I.nframes>0){
      /* frozen float decoder at 48 kHz stereo = what the RFC procedure uses as the reference file */
      int err,i; OpusDecoder *d=ref_opus_decoder_create(48000,2,&err); long off=0,n=I.len48; float *f=malloc(sizeof(float)*(n+5760)*2),*s=malloc(sizeof(float)*n*2),*m=malloc(sizeof(float)*n); int ok=1;
      for(p=0;p<c.n&&ok;p++){ int r=ref_opus_decode_float(d,c.p[p].data,c.p[p].len,f+off*2,5760,0); if(r!=c.p[p].dur48) ok=0; else off+=r; }
      if(ok){ to16_f(s,f,n*2); for(i=0;i<n;i++) m[i]=.5f*(s[2*i]+s[2*i+1]); oc_band_energy(&I.X48s,s,2,I.nframes,1,OC_NBANDS,1); oc_band_energy(&I.X48m,m,1,I.nframes,1,OC_NBANDS,1); I.have48=1; }
      ref_opus_decoder_destroy(d); free(f); free(s); free(m);
   }
   for(ri=0;ri<5;ri++) for(ch=1;ch<=2;ch++) run_config(&I,ri,ch);
   if (idx%97==0) mc_sample("stream [%s]: %d packets, %ld ms, first packet %d bytes TOC %02x %s..., modes %s; decoded by tree-%s, frozen float and frozen fixed at 5 rates x 2 channel counts x 3 APIs: counts, final ranges (incl. encoder's %08x on the last packet) equal, Q>=0",
        nm,c.n,I.len48/48,c.p[0].len,c.p[0].data[0],mc_hex(c.p[0].data,c.p[0].len<12?c.p[0].len:12),I.mclass,PARTNAME,c.p[c.n-1].enc_range);
   if (I.have48){ oc_free(&I.X48s); oc_free(&I.X48m); }
   free(I.pclass); corpus_free(&c);
}

int main(int argc,char **argv){
   grid_t G; long skipped;
   mc_init(argc,argv,"C03",PARTNAME);
   if (strcmp(mc_arg_s("--build",PARTNAME),PARTNAME)){ fprintf(stderr,"C03: part/variant mismatch (built as %s)\n",PARTNAME); return 2; }
   MC.cpu_limit_s=(int)mc_arg("--itemcpu",600);
   /* grid bounds (see streams.h items_build) */
   G.cfg_rates=(int)mc_arg("--cfg-rates",MC.tier?3:1); G.cfg_sigs=(int)mc_arg("--cfg-sigs",MC.tier?6:2); G.cfg_ms=(int)mc_arg("--cfg-ms",MC.tier?1000:360);
   G.trans_scheds=(int)mc_arg("--trans-scheds",MC.tier?5:2); G.trans_sigs=(int)mc_arg("--trans-sigs",MC.tier?2:1); G.trans_ms=(int)mc_arg("--trans-ms",MC.tier?400:240);
   G.ref_rates=(int)mc_arg("--ref-rates",MC.tier?3:1); G.ref_ms=(int)mc_arg("--ref-ms",MC.tier?720:360);
   G.feat_sigs=(int)mc_arg("--feat-sigs",MC.tier?3:1); G.feat_ms=(int)mc_arg("--feat-ms",MC.tier?1800:1080); G.silkbw_ms=(int)mc_arg("--silkbw-ms",4300);
   opt_fam=(int)mc_arg("--fam",-1); opt_rfcproc=(int)mc_arg("--rfcproc",1); opt_apis=(int)mc_arg("--apis",7)|1;   /* the float API is always run: the full-scale guard needs it */
   items_build(&G);
   oc_init();
   c_states=mc_counter("states"); c_trans=mc_counter("transitions"); c_eval=mc_counter("evaluations"); c_dn=mc_counter("distinct_nontrivial");
   c_streams=mc_counter("streams"); c_packets=mc_counter("stream_packets"); c_audio_ms=mc_counter("stream_audio_ms"); c_pairs=mc_counter("stream_decoder_pcm_comparisons");
   c_ident=mc_counter("pcm_identical_to_reference"); c_qcomp=mc_counter("pcm_metric_computed"); c_qdef=mc_counter("worst_100_minus_Q_x100");
   c_advf=mc_counter("advisory_maxabs_vs_same_arith_float_api_x2p24"); c_adv16=mc_counter("advisory_maxabs_vs_same_arith_int16"); c_adv24=mc_counter("advisory_maxabs_vs_same_arith_int24");
   c_x16=mc_counter("advisory_maxabs_vs_frozen_float_int16");
   c_rfc_n=mc_counter("advisory_rfc_procedure_comparisons"); c_rfc_def=mc_counter("advisory_rfc_procedure_worst_100_minus_Q_x100"); c_rfc_below=mc_counter("advisory_rfc_procedure_Q_below_0");
   c_lowq=mc_counter("pcm_comparisons_with_Q_below_50");
   c_dtxpk=mc_counter("empty_packets_le2_bytes"); c_skip16=mc_counter("int16_xarith_skipped_ref_above_full_scale");
   S_states=mc_set_new(21); S_classes=mc_set_new(20); S_toc=mc_set_new(8); S_trans=mc_set_new(12); S_codes=mc_set_new(6);
   skipped=mc_par(NITEMS,run_item,NULL); (void)skipped;
   *c_states=mc_set_count(S_states); *c_dn=mc_set_count(S_classes);
   *mc_counter("toc_configs_met_of_64")=mc_set_count(S_toc); *mc_counter("transition_kinds_met")=mc_set_count(S_trans); *mc_counter("frame_code_x_padding_classes_met_of_5")=mc_set_count(S_codes);
   *mc_counter("grid_items")=NITEMS;
   if (MC.only_item<0 && opt_fam<0 && mc_set_count(S_toc)<64 && !mc_deadline_passed()) mc_capped("the frozen encoder did not produce all 64 TOC configurations in this grid");
   return mc_finish();
}
