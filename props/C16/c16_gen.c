/* C16 part "gen" — generator-first small-scope exhaustive enumeration of extension lists.
 *
 * Space (E3), all enumerated, nothing sampled:
 *  A  every list of <= N entries (N = 4 quick, 5 thorough), IN EVERY ORDER, over the element alphabet
 *        id in {3,31} x payload {0,1} bytes   (short)      id in {32,127} x payload {0,1,254,255,256,510} bytes   (long)
 *        x frame in F(nb_frames):  nb_frames 1,2,3 -> every frame, N entries;
 *        nb_frames 48 -> quick: frames {0,1,46,47} up to 3 entries and {0,1,47} at 4 entries; thorough: {0,1,46,47} up to 4 entries
 *        (48 frames cannot trigger the repeat mechanism with so few entries; family B covers that);
 *        thorough adds nb_frames 4 (every frame, up to 4 entries).
 *  B  repeat family: nb_frames = 1..48, every frame carries the same k-tuple (k <= 2 quick (<= 3 for nb_frames <= 3), <= 3 thorough) of elements from
 *        {short id3 L0, short id4 1 byte, long id32 2 bytes, long id33 0 bytes, long id127 255 bytes}, listed frame-major and
 *        slot-major, with 0 or 1 deviation at every (frame,slot): entry dropped / other id / other length / extra entry inserted.
 *        (This is where "repeat these extensions" with many frames, partial repeats and the final L=0 form occur.)
 *  C  large payloads: lists of <= 2 (3 thorough) entries over long id 64 with payload
 *        {254,255,509,510,511,764,765,766,1020,65535,70000} and short id 3 (1 byte), nb_frames 1..2.
 *  D  many entries: 48 frames x 188 entries (9024), repeat-eligible and not, two orders.
 *  E  lists outside the stated domain (id 2/128/-1, frame -1/nb_frames, short payload 2 bytes, negative length, 49 frames): refused.
 *
 * Oracles (statement C16, first sentence): dry-run size == written size; a buffer of exactly that size suffices; every
 * smaller tried size is refused with OPUS_BUFFER_TOO_SMALL and nothing is written outside it (exact-size heap blocks, ASan);
 * parse of the written bytes returns the same extensions per frame, same per-frame order, identical payloads, all inside the
 * buffer; count / count_ext / parse_ext / iterator loop / find agree; pad=1 fills the buffer and parses to the same lists.
 */
#include "c16_common.h"

#define BIG (1<<24)
static c16_blocks OUT;
static mc_ctr *c_eval,*c_calls,*c_trunc,*c_pad,*c_maxdry,*c_maxn,*c_illegal;
static mc_set *S_classes;
static unsigned *feat_seen;
static long l_eval,l_calls,l_trunc,l_pad,l_maxdry,l_maxn,l_illegal;
static void flush_ctrs(void){ MC_ADD(c_eval,l_eval); MC_ADD(c_calls,l_calls); MC_ADD(c_trunc,l_trunc); MC_ADD(c_pad,l_pad); MC_ADD(c_illegal,l_illegal); MC_MAX(c_maxdry,l_maxdry); MC_MAX(c_maxn,l_maxn); l_eval=l_calls=l_trunc=l_pad=l_illegal=0; }
static int nfail_local;
#define FAIL(sig,...) do{ if(C16_FAIL_LIMIT(nfail_local,50)) mc_fail(sig,__VA_ARGS__); }while(0)

#define SMALLN 200
static opus_extension_data *exarr_small[2][SMALLN+1];   /* [which][n]: heap array of exactly n entries */
static opus_extension_data *exarr_get(int which,int n){
   if (n<=SMALLN){ if(!exarr_small[which][n]) exarr_small[which][n]=malloc(n?n*sizeof(opus_extension_data):1); return exarr_small[which][n]; }
   return malloc(n*sizeof(opus_extension_data)); }
static void exarr_put(int n,opus_extension_data *p){ if(n>SMALLN) free(p); }

/* trunc_mode (depth of the per-list work; the round-trip/agreement oracles are always on):
   3 = as 2 and literally every size 0..dry-1 (lists of <= 2 entries of part A);
   2 = every size check point around every extension, pad=1 with 0/1/255 spare bytes, dry run at the exact length, find;
   1 = sizes {dry-1, dry-2, one byte short of every payload end}, pad=1 with 1 spare byte, find;
   0 = sizes {dry-1, one byte short of every payload end}, pad=1 with 1 spare byte. */
static void check_list(const opus_extension_data *ex,int n,int nbf,int trunc_mode,const char *what){
   opus_int32 dry,dry2,w,cap,fe[48]; unsigned char *g; opus_extension_data *out=NULL,*out2=NULL; int pr,r,i,f,d;
   int cand[64],nc=0;
   l_eval++;
   if (MC.only_item>=0) mc_case("generate","%s nb_frames=%d list {%s}",what,nbf,c16_list_str(ex,n));
   else { unsigned char enc[64]; int q; for(q=0;q<n&&q<16;q++){ enc[4*q]=(unsigned char)ex[q].id; enc[4*q+1]=(unsigned char)ex[q].frame; enc[4*q+2]=(unsigned char)(ex[q].len>>8); enc[4*q+3]=(unsigned char)ex[q].len; }
      mc_case_bytes("generate",enc,4*(n<16?n:16),nbf,n,trunc_mode); }   /* crash attribution: a=nb_frames b=entries, bytes = (id,frame,len_hi,len_lo) per entry */
   dry=opus_packet_extensions_generate(NULL,BIG,ex,n,nbf,0); l_calls++;
   if (dry<0){ FAIL("gen:valid_list_refused","generate(NULL)=%d; %s nb_frames=%d list {%s}",(int)dry,what,nbf,c16_list_str(ex,n)); return; }
   if (dry>l_maxdry) l_maxdry=dry; if (n>l_maxn) l_maxn=n;
   dry2= trunc_mode>=2 ? (l_calls++, opus_packet_extensions_generate(NULL,dry,ex,n,nbf,0)) : dry;
   if (dry2!=dry){ FAIL("gen:dry_run_exact_len","generate(NULL,len=%d)=%d; nb_frames=%d list {%s}",(int)dry,(int)dry2,nbf,c16_list_str(ex,n)); return; }
   g=c16_blk(&OUT,dry);
   w=opus_packet_extensions_generate(g,dry,ex,n,nbf,0); l_calls++;
   if (w!=dry){ FAIL("gen:dry_run_size_differs","dry=%d, writing into exactly %d bytes returned %d; nb_frames=%d list {%s}",(int)dry,(int)dry,(int)w,nbf,c16_list_str(ex,n)); return; }
   out=exarr_get(0,n); out2=exarr_get(1,n);
   /* parse back */
   cap=n; pr=opus_packet_extensions_parse(g,dry,out,&cap,nbf); l_calls++;
   if (pr<0||cap!=n){ FAIL("gen:roundtrip_parse_fails","parse ret=%d n=%d (wrote %d entries); nb_frames=%d list {%s} bytes=%s",pr,(int)cap,n,nbf,c16_list_str(ex,n),mc_hex(g,dry<200?dry:200)); goto done; }
   for(i=0;i<n;i++){ int bad=c16_ext_bad(&out[i],g,dry,nbf); if(bad){ FAIL("gen:roundtrip_ext_outside","entry %d clause %d; nb_frames=%d list {%s}",i,bad,nbf,c16_list_str(ex,n)); goto done; } }
   if ((d=c16_same_per_frame(ex,n,out,cap,nbf))>=0){
      FAIL("gen:roundtrip_differs","frame %d differs; nb_frames=%d list {%s} bytes=%s parsed {%s}",d,nbf,c16_list_str(ex,n),mc_hex(g,dry<200?dry:200),c16_list_str(out,cap)); goto done; }
   /* count, count_ext, parse_ext, iterator, find */
   r=opus_packet_extensions_count(g,dry,nbf); l_calls++;
   if (r!=n){ FAIL("gen:agree_count","count=%d n=%d; nb_frames=%d list {%s}",r,n,nbf,c16_list_str(ex,n)); goto done; }
   r=opus_packet_extensions_count_ext(g,dry,fe,nbf); l_calls++;
   { int bad=(r!=n); for(f=0;f<nbf&&!bad;f++){ int c=0; for(i=0;i<n;i++) c+=ex[i].frame==f; if(fe[f]!=c) bad=1; }
     if (bad){ FAIL("gen:agree_count_ext","count_ext=%d n=%d; nb_frames=%d list {%s}",r,n,nbf,c16_list_str(ex,n)); goto done; } }
   cap=n; r=opus_packet_extensions_parse_ext(g,dry,out2,&cap,fe,nbf); l_calls++;
   if (r<0||cap!=n){ FAIL("gen:agree_parse_ext","parse_ext ret=%d n=%d; nb_frames=%d list {%s}",r,(int)cap,nbf,c16_list_str(ex,n)); goto done; }
   { int o=0; for(f=0;f<nbf;f++) for(i=0;i<n;i++) if(ex[i].frame==f){ if(out2[o].frame!=f||!c16_ext_same(&ex[i],&out2[o])){ FAIL("gen:agree_parse_ext","frame-ordered entry %d is not input entry %d; nb_frames=%d list {%s}",o,i,nbf,c16_list_str(ex,n)); goto done; } o++; } }
   { OpusExtensionIterator it; opus_extension_data e; opus_extension_iterator_init(&it,g,dry,nbf);
     for(i=0;;i++){ r=opus_extension_iterator_next(&it,&e); if(r<=0) break; if(i>=n||e.id!=out[i].id||e.frame!=out[i].frame||e.data!=out[i].data||e.len!=out[i].len){ FAIL("gen:agree_iterator","item %d; nb_frames=%d list {%s}",i,nbf,c16_list_str(ex,n)); goto done; } }
     l_calls++;
     if (i!=n||r!=0){ FAIL("gen:agree_iterator","%d items ret %d; nb_frames=%d list {%s}",i,r,nbf,c16_list_str(ex,n)); goto done; }
     if (n>0&&trunc_mode>=1){ int id=ex[n-1].id, want=-1; for(i=0;i<n;i++) if(out[i].id==id){ want=i; break; }
        opus_extension_iterator_init(&it,g,dry,nbf); r=opus_extension_iterator_find(&it,&e,id); l_calls++;
        if (r!=1||want<0||e.data!=out[want].data||e.frame!=out[want].frame||e.len!=out[want].len){ FAIL("gen:agree_find","find(%d) ret=%d; nb_frames=%d list {%s}",id,r,nbf,c16_list_str(ex,n)); goto done; } } }
   /* smaller buffers are refused, nothing written outside (exact-size heap block per size) */
   if (trunc_mode>=3){ /* literally every smaller size */
      int s2; for(s2=0;s2<dry-2;s2++){ unsigned char *t=c16_blk(&OUT,s2); w=opus_packet_extensions_generate(t,s2,ex,n,nbf,0); l_calls++; l_trunc++;
         if (w!=OPUS_BUFFER_TOO_SMALL){ FAIL("gen:smaller_buffer_not_refused","len=%d (exact size %d) returned %d; nb_frames=%d list {%s}",s2,(int)dry,(int)w,nbf,c16_list_str(ex,n)); goto done; } } }
   cand[nc++]=dry-1; if(trunc_mode>=1) cand[nc++]=dry-2;
   for(i=0;i<n&&nc<56;i++){ int z=(int)(out[i].data-g)+out[i].len; cand[nc++]=z-1; if(trunc_mode>=2){ cand[nc++]=z; cand[nc++]=z+1; cand[nc++]=z+2; } if(trunc_mode>=2&&i==0){ cand[nc++]=0; cand[nc++]=1; } if(n>12&&i==1) i=n-3; }
   for(i=0;i<nc;i++){
      int s=cand[i],j,dup=0; unsigned char *t;
      if (s<0||s>=dry) continue;
      for(j=0;j<i;j++) if(cand[j]==s) dup=1;
      if (dup) continue;
      t=c16_blk(&OUT,s);
      w=opus_packet_extensions_generate(t,s,ex,n,nbf,0); l_calls++; l_trunc++;
      if (w!=OPUS_BUFFER_TOO_SMALL){ FAIL("gen:smaller_buffer_not_refused","len=%d (exact size %d) returned %d; nb_frames=%d list {%s}",s,(int)dry,(int)w,nbf,c16_list_str(ex,n)); goto done; }
      if (s==dry-1){ w=opus_packet_extensions_generate(NULL,s,ex,n,nbf,0); l_calls++;
         if (w!=OPUS_BUFFER_TOO_SMALL){ FAIL("gen:smaller_dry_run_not_refused","dry run len=%d (exact size %d) returned %d; nb_frames=%d list {%s}",s,(int)dry,(int)w,nbf,c16_list_str(ex,n)); goto done; } }
   }
   /* pad=1: fills to len, same lists */
   { static const int K[3]={0,1,255}; int k;
     for(k=(trunc_mode>=2?0:1);k<(trunc_mode>=2?3:2);k++){
        int len=dry+K[k]; unsigned char *p=c16_blk(&OUT,len);
        w=opus_packet_extensions_generate(p,len,ex,n,nbf,1); l_calls++; l_pad++;
        if (w!=len){ FAIL("gen:pad_does_not_fill","pad=1 len=%d returned %d; nb_frames=%d list {%s}",len,(int)w,nbf,c16_list_str(ex,n)); goto done; }
        { opus_int32 dp=opus_packet_extensions_generate(NULL,len,ex,n,nbf,1); l_calls++;       /* the dry run of the SAME call (pad=1, same len) reports the size that call writes */
          if (dp!=w){ FAIL("gen:dry_run_size_differs:pad","pad=1 len=%d: dry run returned %d, the write returned %d; nb_frames=%d list {%s}",len,(int)dp,(int)w,nbf,c16_list_str(ex,n)); goto done; } }
        cap=n; pr=opus_packet_extensions_parse(p,len,out2,&cap,nbf); l_calls++;
        if (pr<0||(d=c16_same_per_frame(ex,n,out2,cap,nbf))>=0){ FAIL("gen:pad_roundtrip_differs","pad=1 len=%d parse ret=%d n=%d; nb_frames=%d list {%s} bytes=%s",len,pr,(int)cap,nbf,c16_list_str(ex,n),mc_hex(p,len<200?len:200)); goto done; }
        for(i=0;i<cap;i++) if(c16_ext_bad(&out2[i],p,len,nbf)){ FAIL("gen:pad_roundtrip_differs","pad=1 len=%d entry %d outside",len,i); goto done; }
     } }
   /* observation class: control skeleton of what was written */
   { uint64_t h=mc_mix(nbf,n); int rep=0,l0=0; unsigned ft; static uint64_t flt[1<<14]; uint64_t *fp;
     for(i=0;i<n&&i<64;i++){ int lb=out[i].len==0?0:out[i].len==1?1:out[i].len<255?2:3; h=mc_mix(h,((uint64_t)(out[i].id>=32)<<16)|((uint64_t)out[i].frame<<8)|(uint64_t)lb); }
     for(i=1;i<n;i++) if(out[i].frame<out[i-1].frame) rep=1;      /* bitstream order not frame order <=> repeat mechanism used */
     if (n>0 && out[n-1].id>=32 && out[n-1].len>0 && out[n-1].data+out[n-1].len==g+dry){ /* final long extension: L=0 form iff no length byte precedes it */
        const unsigned char *q=out[n-1].data; if (q>g && (q[-1]&1)==0 && (q[-1]>>1)==out[n-1].id) l0=1; }
     h=mc_mix(h,rep*2+l0);
     fp=&flt[(h>>11)&((1<<14)-1)]; if(*fp!=h){ *fp=h; mc_set_add(S_classes,h); }
     ft=1u<<(rep+2*l0+4*(nbf>3)+8*(n>8));
     if (n>=2 && !(__atomic_load_n(feat_seen,__ATOMIC_RELAXED)&ft) && !(__atomic_fetch_or(feat_seen,ft,__ATOMIC_RELAXED)&ft))
        mc_sample("%s nb_frames=%d list {%s} -> %d bytes %s%s : exact-size ok, up to %d smaller sizes refused, parse/count/count_ext/parse_ext/iterator agree, same per-frame lists",what,nbf,c16_list_str(ex,n<10?n:10),(int)dry,mc_hex(g,dry<48?dry:48),dry>48?"..":"",nc);
   }
done:
   exarr_put(n,out); exarr_put(n,out2);
}

/* ---------------------------------------------------------------- A: small scope */
typedef struct { int id,len; } el_t;
static el_t EL[16]; static int NEL;
static const int LLEN[6]={0,1,254,255,256,510};
typedef struct { int nbf,nfr,fr[4],maxn_q,maxn_t; } cfg_t;
static const cfg_t CFG[6]={ {1,1,{0},4,5}, {2,2,{0,1},4,5}, {3,3,{0,1,2},4,5}, {48,4,{0,1,46,47},3,4}, {48,3,{0,1,47},4,0}, {4,4,{0,1,2,3},0,4} };
static unsigned char *PAY[8][520];     /* PAY[pos][len]: exact-size payload block for list position pos */
static unsigned char *pay(int pos,int len){
   if (!PAY[pos][len]){ int j; PAY[pos][len]=malloc(len?len:1); for(j=0;j<len;j++) PAY[pos][len][j]=(unsigned char)(pos*41+j*7+3); }
   return PAY[pos][len];
}
static int maxn_of(const cfg_t *c){ long o=mc_arg("--maxn",-1); int m=MC.tier?c->maxn_t:c->maxn_q; if(o>=0&&m>0&&o<m) m=(int)o; return m; }
static void set_entry(opus_extension_data *e,const cfg_t *c,int pos,int code){
   int k=code%NEL, f=code/NEL; e->id=EL[k].id; e->len=EL[k].len; e->frame=c->fr[f]; e->data=pay(pos,EL[k].len);
}
static void small_scope(const cfg_t *c,long pfx){
   int per=NEL*c->nfr, maxn=maxn_of(c), n,i; opus_extension_data ex[8]; char what[64];
   snprintf(what,sizeof what,"A(all lists<=%d)",maxn);
   if (pfx<0){
      check_list(ex,0,c->nbf,3,what);
      if (maxn>=1) for(i=0;i<per;i++){ set_entry(&ex[0],c,0,i); check_list(ex,1,c->nbf,3,what); }
      return;
   }
   set_entry(&ex[0],c,0,(int)(pfx%per)); set_entry(&ex[1],c,1,(int)(pfx/per));
   for(n=2;n<=maxn;n++){
      int d[8]; int m=n-2;
      for(i=0;i<m;i++){ d[i]=0; set_entry(&ex[2+i],c,2+i,0); }
      for(;;){
         check_list(ex,n,c->nbf,n<=2?3:n==3?2:n==4?1:0,what);
         for(i=m-1;i>=0;i--){ if(++d[i]<per){ set_entry(&ex[2+i],c,2+i,d[i]); break; } d[i]=0; set_entry(&ex[2+i],c,2+i,0); }
         if (i<0) break;
      }
   }
}

/* ---------------------------------------------------------------- B: repeat family */
static const el_t FEL[5]={{3,0},{4,1},{32,2},{33,0},{127,255}};
/* exact-size payload block per (frame, tag, length); content distinct per (frame,tag) */
static const unsigned char *fpay(int f,int tag,int len){
   static unsigned char *tab[48][6][6]; int li=len<=3?len:len==255?4:len==256?5:-1; unsigned char **p;
   if (li<0||tag<0||tag>5){ fprintf(stderr,"fpay len %d tag %d\n",len,tag); exit(2); }
   p=&tab[f][tag][li];
   if (!*p){ int j; *p=malloc(len?len:1); for(j=0;j<len;j++) (*p)[j]=(unsigned char)(f*5+tag*67+j*3+1); }
   return *p;
}
static void family(int nbf,long pat){
   /* pattern: k-tuple of FEL indices, pat encodes k and the tuple */
   int k,t[3],i,f,s,order,dev; opus_extension_data ex[48*4+2]; char what[64];
   if (pat<5){ k=1; t[0]=(int)pat; } else if (pat<30){ k=2; t[0]=(int)((pat-5)%5); t[1]=(int)((pat-5)/5); } else { k=3; t[0]=(int)((pat-30)%5); t[1]=(int)((pat-30)/5%5); t[2]=(int)((pat-30)/25); }
   snprintf(what,sizeof what,"B(repeat family k=%d pat=%ld)",k,pat);
   for(order=0;order<2;order++){
      if (order==1 && (nbf==1||k==1)) continue;   /* same list */
      /* dev = -1: none; else (frame f, slot s, kind) */
      for(dev=-1;dev<nbf*k*4;dev++){
         int df=-1,ds=-1,dk=-1,n=0,a,b;
         if (dev>=0){ dk=dev%4; ds=(dev/4)%k; df=dev/(4*k); }
         for(a=0;a<(order?k:nbf);a++) for(b=0;b<(order?nbf:k);b++){
            int id,len;
            f=order?b:a; s=order?a:b; id=FEL[t[s]].id; len=FEL[t[s]].len;
            if (f==df&&s==ds){
               if (dk==0) continue;                         /* dropped */
               if (dk==1) id = id<32? (id==3?5:3) : (id==32?40:32);       /* other id, same class */
               if (dk==2) len = id<32? 1-len : len+1;       /* other length */
            }
            ex[n].id=id; ex[n].frame=f; ex[n].len=len; ex[n].data=fpay(f,s,len); n++;
            if (f==df&&s==ds&&dk==3){ ex[n].id=id; ex[n].frame=f; ex[n].len=len; ex[n].data=fpay(f,3+s,len); n++; }   /* extra entry */
         }
         check_list(ex,n,nbf,1,what);
      }
   }
}

/* ---------------------------------------------------------------- C: large payloads */
static const int BLEN[11]={254,255,509,510,511,764,765,766,1020,65535,70000};
static unsigned char *BP[4][12];
static void bigpay(long pfx){
   /* element: 0..10 long id 64 len BLEN[i]; 11 short id 3 one byte; x frame(<nbf) ; nbf = 1,2 ; pfx = first element code (nbf folded in) */
   int nbf=(int)(pfx%2)+1, e0=(int)(pfx/2), per=12*nbf, maxn=MC.tier?3:2, n,i; opus_extension_data ex[4]; int d[4];
   if (e0>=per) return;
   for(n=1;n<=maxn;n++){
      for(i=0;i<n;i++) d[i]=0; d[0]=e0;
      for(;;){
         for(i=0;i<n;i++){ int k=d[i]%12, f=d[i]/12, len=k<11?BLEN[k]:1, j;
            if(!BP[i][k]){ BP[i][k]=malloc(len); for(j=0;j<len;j++) BP[i][k][j]=(unsigned char)(i*59+j*13+7+(j>>8)); }
            ex[i].id=k<11?64:3; ex[i].frame=f; ex[i].len=len; ex[i].data=BP[i][k]; }
         check_list(ex,n,nbf,2,"C(large payloads)");
         for(i=n-1;i>=1;i--){ if(++d[i]<per) break; d[i]=0; }
         if (i<1) break;
      }
   }
}

/* ---------------------------------------------------------------- D: many entries */
static void many(long v){
   int nbf=48, per=188, n=nbf*per, i,f,s; opus_extension_data *ex=malloc(n*sizeof *ex); static unsigned char pb[48][2];
   int order=(int)(v&1), kind=(int)(v>>1);
   for(f=0;f<48;f++){ pb[f][0]=(unsigned char)(f+1); pb[f][1]=(unsigned char)(0x80+f); }
   i=0;
   for(int a=0;a<(order?per:nbf);a++) for(int b=0;b<(order?nbf:per);b++){
      f=order?b:a; s=order?a:b;
      if (kind==0){ ex[i].id=3+(s%29); ex[i].len=1; ex[i].data=&pb[f][s&1]; }                 /* fully repeat-eligible */
      else if (kind==1){ ex[i].id=3+((s+f)%29); ex[i].len=s&1; ex[i].data=&pb[f][0]; }       /* not repeatable beyond chance */
      else { ex[i].id= (s%7==6)?32+(s%90):3+(s%29); ex[i].len= (s%7==6)? 2 : 1; ex[i].data=&pb[f][0]; }   /* mix of long and short, repeat-eligible */
      ex[i].frame=f; i++;
   }
   check_list(ex,n,nbf,1,"D(9024 entries)");
   free(ex);
}

/* ---------------------------------------------------------------- E: outside the domain */
static void illegal(void){
   static const struct { int id,frame,len,nbf; const char *why; } B[]={
      {2,0,0,2,"id 2"},{1,0,0,2,"id 1"},{0,0,0,2,"id 0"},{-1,0,0,2,"id -1"},{128,0,1,2,"id 128"},{255,0,1,2,"id 255"},
      {3,-1,0,2,"frame -1"},{3,2,0,2,"frame == nb_frames"},{32,48,1,48,"frame 48 of 48"},{3,0,2,2,"short id with 2 bytes"},{31,1,-1,2,"short id negative length"},
      {32,0,-1,2,"long id negative length"},{3,0,0,49,"49 frames"},{3,0,0,0,"0 frames"} };
   static const unsigned char pl[4]={1,2,3,4}; int i,pos,nv; unsigned char *buf=c16_blk(&OUT,64);
   for(i=0;i<(int)(sizeof B/sizeof B[0]);i++) for(nv=0;nv<=2;nv++) for(pos=0;pos<=nv;pos++){
      opus_extension_data ex[3]; int k,n=nv+1,r; int vf = B[i].nbf>1?1:0;
      for(k=0;k<n;k++){ ex[k].id=(k&1)?32:3; ex[k].frame=(B[i].nbf>0&&B[i].nbf<=48)?(k%(vf+1)):0; ex[k].len=1; ex[k].data=pl+k; }
      ex[pos].id=B[i].id; ex[pos].frame=B[i].frame; ex[pos].len=B[i].len; ex[pos].data=pl;
      mc_case("generate_illegal","%s at position %d of %d",B[i].why,pos,n);
      r=opus_packet_extensions_generate(buf,64,ex,n,B[i].nbf,0); l_calls++; l_illegal++;
      if (r>=0) FAIL("gen:illegal_list_accepted","%s at position %d of %d entries: generate returned %d",B[i].why,pos,n,r);
      r=opus_packet_extensions_generate(NULL,64,ex,n,B[i].nbf,0); l_calls++;
      if (r>=0) FAIL("gen:illegal_list_accepted","%s at position %d of %d entries: dry run returned %d",B[i].why,pos,n,r);
   }
}

/* ---------------------------------------------------------------- items */
typedef struct { int grp; int a; long b; } it_t;
static it_t *IT; static long NIT;
static void add_item(int grp,int a,long b){ static long cap; if(NIT>=cap){ cap=cap?cap*2:4096; IT=realloc(IT,cap*sizeof *IT); } IT[NIT].grp=grp; IT[NIT].a=a; IT[NIT].b=b; NIT++; }
static void item(long k,void *ctx){
   it_t *t=&IT[k]; (void)ctx;
   switch(t->grp){
   case 0: mc_case("generate","A: nb_frames=%d frame set #%d prefix code %ld",CFG[t->a].nbf,t->a,t->b); small_scope(&CFG[t->a],t->b); break;
   case 1: mc_case("generate","B: nb_frames=%d pattern %ld",t->a,t->b); family(t->a,t->b); break;
   case 2: mc_case("generate","C: large payloads, first element code %ld",t->b); bigpay(t->b); break;
   case 3: mc_case("generate","D: 9024 entries variant %ld",t->b); many(t->b); break;
   case 4: illegal(); break;
   }
   flush_ctrs();
}

int main(int argc,char **argv){
   int i,c; long p; int famk;
   mc_init(argc,argv,"C16","gen");
   c_eval=mc_counter("evaluations"); c_calls=mc_counter("api_calls"); c_trunc=mc_counter("smaller_sizes_tried"); c_pad=mc_counter("pad_runs");
   c_maxdry=mc_counter("max_serialised_bytes"); c_maxn=mc_counter("max_list_entries"); c_illegal=mc_counter("illegal_lists");
   S_classes=mc_set_new(22); feat_seen=mc_shared(64);
   c16_blocks_init(&OUT,300000);
   NEL=0; for(i=0;i<2;i++){ int l; for(l=0;l<2;l++){ EL[NEL].id=i?31:3; EL[NEL].len=l; NEL++; } }
   for(i=0;i<2;i++){ int l; for(l=0;l<6;l++){ EL[NEL].id=i?127:32; EL[NEL].len=LLEN[l]; NEL++; } }
   for(c=0;c<6;c++){ int m=maxn_of(&CFG[c]); long per=NEL*CFG[c].nfr; if(m<=0) continue; add_item(0,c,-1); if(m>=2) for(p=0;p<per*per;p++) add_item(0,c,p); }
   famk=(int)mc_arg("--famk",MC.tier?3:2);
   for(i=1;i<=48;i++) for(p=0;p<((famk>=3||i<=3)?155:famk==2?30:5);p++) add_item(1,i,p);   /* 3-tuples (long, short, long per frame ...) also in the quick tier for <= 3 frames */
   for(p=0;p<48;p++) add_item(2,0,p);
   for(p=0;p<6;p++) add_item(3,0,p);
   add_item(4,0,0);
   mc_par(NIT,item,NULL);
   { mc_ctr *st=mc_counter("states"),*tr=mc_counter("transitions"),*dn=mc_counter("distinct_nontrivial");
     *st=*c_eval; *tr=*c_calls; *dn=mc_set_count(S_classes); }
   return mc_finish();
}
