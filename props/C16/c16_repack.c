/* C16 part "carriage" — repacketizer carriage of extensions: merge (cat x1..3, long chains to 48 frames) and split
 * (out_range over ALL ranges), plus injection through opus_packet_pad_impl (the path the encoder uses).
 *
 * Space (E3, everything enumerated):
 *  P  pairs: every ordered pair (and every single) of packets from the alphabet
 *        frames 1..3 x per-frame extension set from E (6 quick / 8 thorough) x frame-length style {all 3 bytes, 2+j bytes}
 *        x padding encoder {harness's plain writer: separators, every extension with explicit length;
 *                           the library's generator: repeats and the final L=0 form}
 *     E = { none | id3 L0 | id5 1 byte | id32 2 bytes | id33 0 bytes | id3 1 byte + id32 3 bytes | id40 251 bytes | id32 2 bytes twice }
 *     payload bytes are distinct per (packet position, frame, slot) so a misplaced extension is visible.
 *  T  triples over the reduced alphabet frames 1..3 x {none | id5 1 byte | id32 2 bytes (+ id33 0 bytes thorough)} x 2 length styles.
 *  R  raw paddings: packets of 1..3 frames whose padding is EVERY byte string of length 1..3 (4 thorough) over the parser
 *     part's 14-symbol alphabet, alone and merged before/after 4 companion packets; expected lists = what the library parser
 *     reports for the source padding (its self-consistency is the parser part's job).  If the source padding does not parse there
 *     is no extension to carry: only memory safety is judged (that case is finding F3, property C07).
 *  L  long chains: 48 frames as m packets of 48/m frames, m in {1,2,3,4,6,8,12,16,24,48}, three extension patterns, both encoders.
 *  I  injection: opus_packet_pad_impl(packet, extra list of <=2 entries in every order over {id3 1B, id32 2B, id34 250B, id127 0B} x frame)
 *     with pad=0 (big / exact / one byte short buffer) and pad=1 (1, 2, 300 spare bytes).
 * For every sequence: every range 0 <= b < e <= nb_frames.
 *
 * Oracle (statement C16, last sentence): the output packet (split with the independent RFC framing model) holds source frames b..e-1
 * unchanged and its padding parses to exactly the extensions of those frames, each on the output frame that holds its audio frame,
 * payload intact (order inside a frame is not part of the statement).  Output is produced first into a large buffer, then into a heap
 * block of exactly the returned size (must give the same bytes) and into one of size-1 (ASan; must not claim more than it was given).
 *
 * Known defect F9 is recognised narrowly:
 *   carriage:range_ends_inside_packet    out_range returns OPUS_BAD_ARG and the range ends inside a packet whose first frame is in the
 *                                        range and which carries an extension on a frame at/after the cut
 *   carriage:range_begins_inside_packet  out_range succeeds, frames right, and the ONLY difference is that the extensions of the frames
 *                                        taken from the packet the range begins inside are missing
 * anything else is carriage:ext_mismatch / carriage:out_range_error / ... and fails the check.
 */
#include "c16_common.h"
#include "rfc_framing.h"

#define TOCCFG 0x80      /* CELT NB 2.5 ms mono: 48 frames = 120 ms */
#define MAXPE 100
#define MAXX 400
#define OUTBIG 16384

typedef struct { int id,len; } xe_t;
typedef struct { int n; xe_t e[2]; } eset_t;
static const eset_t ESET[8]={ {0,{{0,0},{0,0}}}, {1,{{3,0},{0,0}}}, {1,{{5,1},{0,0}}}, {1,{{32,2},{0,0}}}, {1,{{33,0},{0,0}}}, {2,{{3,1},{32,3}}}, {1,{{40,251},{0,0}}}, {2,{{32,2},{32,2}}} };

typedef struct {
   int nf, fsz[48], off[48], len, padoff, padlen;
   unsigned char *bytes;                 /* exact-size heap block */
   int next; opus_extension_data ex[MAXPE];   /* model: extensions by local frame */
   int ext_valid;                        /* 0: padding is not a well-formed extension list */
   int raw;
} pkt_t;

static c16_blocks OB;
static unsigned char *big;
static mc_ctr *c_eval,*c_calls,*c_seq,*c_f9a,*c_f9b,*c_unconstrained,*c_withext,*c_inject,*c_maxframes;
static long l_eval,l_calls,l_seq,l_f9a,l_f9b,l_unc,l_withext,l_inject,l_maxframes;
static void flush_ctrs(void){ MC_ADD(c_eval,l_eval); MC_ADD(c_calls,l_calls); MC_ADD(c_seq,l_seq); MC_ADD(c_f9a,l_f9a); MC_ADD(c_f9b,l_f9b); MC_ADD(c_unconstrained,l_unc); MC_ADD(c_withext,l_withext); MC_ADD(c_inject,l_inject); MC_MAX(c_maxframes,l_maxframes); l_eval=l_calls=l_seq=l_f9a=l_f9b=l_unc=l_withext=l_inject=0; }
static mc_set *S_classes; static unsigned *feat_seen;
static int nfail_local,nf9a_local,nf9b_local;
#define FAIL(sig,...) do{ if(C16_FAIL_LIMIT(nfail_local,50)) mc_fail(sig,__VA_ARGS__); }while(0)

/* ------------------------------------------------------------------ packet construction (harness side only) */
static int plain_write(unsigned char *o,const opus_extension_data *ex,int n,int nf){
   int p=0,cur=0,f,i,j;
   for(f=0;f<nf;f++) for(i=0;i<n;i++) if(ex[i].frame==f){
      if (f!=cur){ int d=f-cur; if(d==1) o[p++]=0x02; else { o[p++]=0x03; o[p++]=(unsigned char)d; } cur=f; }
      if (ex[i].id<32){ o[p++]=(unsigned char)((ex[i].id<<1)|ex[i].len); if(ex[i].len) o[p++]=ex[i].data[0]; }
      else { int l=ex[i].len; o[p++]=(unsigned char)((ex[i].id<<1)|1); while(l>=255){ o[p++]=255; l-=255; } o[p++]=(unsigned char)l; for(j=0;j<ex[i].len;j++) o[p++]=ex[i].data[j]; }
   }
   return p;
}
static void finish_packet(pkt_t *k,int pos,int lstyle,const unsigned char *pad,int padlen){
   unsigned char tmp[OUTBIG]; const unsigned char *fr[48]; static unsigned char fb[48][64]; int i,j,vbr=0,len; rfc_pkt m;
   for(i=0;i<k->nf;i++){
      k->fsz[i]= lstyle? 2+(i%8) : 3;
      for(j=0;j<k->fsz[i];j++) fb[i][j]=(unsigned char)(j==0?0xF0|pos: j==1? i : 0x30+pos*16+i+j);
      fr[i]=fb[i]; if(k->fsz[i]!=k->fsz[0]) vbr=1;
   }
   len=rfc_build(tmp,TOCCFG,3,vbr,k->nf,fr,k->fsz,padlen>0?padlen:-1,pad,0);
   if (len<0||len>OUTBIG){ fprintf(stderr,"rfc_build failed\n"); exit(2); }
   k->bytes=malloc(len); memcpy(k->bytes,tmp,len); k->len=len;
   rfc_parse(k->bytes,len,0,&m);
   if (!m.ok||m.count!=k->nf||m.pad_len!=(padlen>0?padlen:0)){ fprintf(stderr,"harness packet does not parse under the RFC model\n"); exit(2); }
   for(i=0;i<k->nf;i++){ k->off[i]=m.off[i]; if(m.size[i]!=k->fsz[i]){ fprintf(stderr,"harness packet frame size\n"); exit(2); } }
   k->padoff=m.pad_off; k->padlen=m.pad_len;
}
static pkt_t *mk_packet(int pos,int nf,const int *eset,int lstyle,int estyle){
   pkt_t *k=calloc(1,sizeof *k); unsigned char pad[OUTBIG]; int f,x,j,padlen=0;
   k->nf=nf; k->ext_valid=1;
   for(f=0;f<nf;f++) for(x=0;x<ESET[eset[f]].n;x++){
      opus_extension_data *e=&k->ex[k->next++]; unsigned char *d; int l=ESET[eset[f]].e[x].len;
      if (k->next>MAXPE){ fprintf(stderr,"MAXPE\n"); exit(2); }
      d=malloc(l?l:1); for(j=0;j<l;j++) d[j]=(unsigned char)(0x61+pos*31+(f%8)*7+x*3+j+(f/8)*57);
      e->id=ESET[eset[f]].e[x].id; e->frame=f; e->len=l; e->data=d;
   }
   if (k->next){
      if (estyle==0) padlen=plain_write(pad,k->ex,k->next,nf);
      else { padlen=opus_packet_extensions_generate(pad,sizeof pad,k->ex,k->next,nf,0); if(padlen<0){ fprintf(stderr,"generate failed while building the alphabet\n"); exit(2);} }
   }
   finish_packet(k,pos,lstyle,pad,padlen);
   return k;
}
static pkt_t *mk_raw_packet(int pos,int nf,int lstyle,const unsigned char *pad,int padlen){
   pkt_t *k=calloc(1,sizeof *k); opus_int32 n=MAXPE; int r;
   k->nf=nf; k->raw=1;
   finish_packet(k,pos,lstyle,pad,padlen);
   r=opus_packet_extensions_parse(k->bytes+k->padoff,k->padlen,k->ex,&n,nf);
   k->ext_valid = r>=0; k->next = r>=0? n : 0;
   return k;
}
static void free_packet(pkt_t *k){ if(!k->raw){ int i; for(i=0;i<k->next;i++) free((void*)k->ex[i].data); } free(k->bytes); free(k); }

/* ------------------------------------------------------------------ evaluation of one sequence, all ranges */
static const char *seq_str(pkt_t **seq,int m){
   static char o[3000]; int i,k=0; o[0]=0;
   for(i=0;i<m&&k<2600;i++) k+=snprintf(o+k,sizeof o-k,"%spkt%d[%d frames,%s]=%s",i?" + ":"",i,seq[i]->nf,seq[i]->ext_valid?c16_list_str(seq[i]->ex,seq[i]->next<6?seq[i]->next:6):"padding malformed",mc_hex(seq[i]->bytes,seq[i]->len<60?seq[i]->len:60));
   return o;
}

static OpusRepacketizer RP;
static void eval_seq(pkt_t **seq,int m,const char *what){
   int N=0,k,i,b,e,start[48],pk[48],lf[48];
   opus_repacketizer_init(&RP);
   if (MC.only_item>=0) mc_case("out_range","%s: %s",what,seq_str(seq,m));
   else mc_case_bytes("out_range",seq[m-1]->bytes,seq[m-1]->len<64?seq[m-1]->len:64,m,seq[0]->nf,m>1?seq[1]->nf:0);   /* crash attribution: last packet, a=packets b,c=frames of first two */
   for(k=0;k<m;k++){
      int r=opus_repacketizer_cat(&RP,seq[k]->bytes,seq[k]->len); l_calls++;
      if (r!=OPUS_OK){ FAIL("carriage:cat_refused","cat of packet %d returned %d; %s",k,r,seq_str(seq,m)); return; }
      start[k]=N; for(i=0;i<seq[k]->nf;i++){ pk[N]=k; lf[N]=i; N++; }
   }
   l_seq++; if (N>l_maxframes) l_maxframes=N;
   for(b=0;b<N;b++) for(e=b+1;e<=N;e++){
      opus_extension_data expv[MAXX],exp2[MAXX],obs[MAXX]; int ne=0,ne2=0,g,count=e-b,ends_pre=0,begins_pre=0,unconstrained=0; opus_int32 r,r2,nobs; rfc_pkt M; int pr,bad;
      l_eval++;
      /* expected lists; F9 preconditions */
      for(g=b;g<e;g++){
         pkt_t *p=seq[pk[g]]; int inside = start[pk[g]]<b;     /* this frame's packet begins before the range */
         if (!p->ext_valid) continue;
         for(i=0;i<p->next;i++) if(p->ex[i].frame==lf[g]){
            if (ne>=MAXX){ fprintf(stderr,"MAXX\n"); exit(2); }
            expv[ne]=p->ex[i]; expv[ne].frame=g-b; ne++;
            if (inside) begins_pre=1; else { exp2[ne2]=p->ex[i]; exp2[ne2].frame=g-b; ne2++; }
         }
      }
      for(k=0;k<m;k++) if(start[k]<e&&start[k]+seq[k]->nf>b){          /* packet overlaps the range */
         if (!seq[k]->ext_valid) unconstrained=1;                       /* nothing well-formed to carry: outside the C16 statement (F3, C07) */
         else if (start[k]>=b&&start[k]+seq[k]->nf>e) for(i=0;i<seq[k]->next;i++) if(seq[k]->ex[i].frame>=e-start[k]) ends_pre=1;
      }
      r=opus_repacketizer_out_range(&RP,b,e,big,OUTBIG); l_calls++;
      if (unconstrained){ l_unc++; if(r>OUTBIG) FAIL("carriage:claims_more_than_buffer","range [%d,%d) returned %d; %s",b,e,(int)r,seq_str(seq,m)); continue; }
      if (r<=0){
         if (r==OPUS_BAD_ARG && ends_pre){ l_f9a++; if(C16_FAIL_LIMIT(nf9a_local,3)) mc_fail("carriage:range_ends_inside_packet","%s: out_range(%d,%d) of %d frames returned OPUS_BAD_ARG: the range ends inside a packet that carries an extension for a later frame; %s",what,b,e,N,seq_str(seq,m)); }
         else FAIL("carriage:out_range_error","%s: out_range(%d,%d) of %d frames returned %d; %s",what,b,e,N,(int)r,seq_str(seq,m));
         continue;
      }
      rfc_parse(big,r,0,&M);
      bad=!M.ok||M.count!=count;
      for(i=0;i<count&&!bad;i++){ pkt_t *p=seq[pk[b+i]]; if(M.size[i]!=p->fsz[lf[b+i]]||memcmp(big+M.off[i],p->bytes+p->off[lf[b+i]],M.size[i])) bad=1; }
      if (bad){ FAIL("carriage:frames_mismatch","%s: out_range(%d,%d) -> %s does not hold source frames %d..%d; %s",what,b,e,mc_hex(big,r<80?r:80),b,e-1,seq_str(seq,m)); continue; }
      nobs=MAXX; pr=opus_packet_extensions_parse(big+M.pad_off,M.pad_len,obs,&nobs,count); l_calls++;
      if (pr<0){ FAIL("carriage:output_padding_unparsable","%s: out_range(%d,%d) -> %s padding parse ret %d; %s",what,b,e,mc_hex(big,r<80?r:80),pr,seq_str(seq,m)); continue; }
      for(i=0;i<nobs;i++) if(c16_ext_bad(&obs[i],big+M.pad_off,M.pad_len,count)){ FAIL("carriage:output_ext_outside","%s: out_range(%d,%d) entry %d",what,b,e,i); break; }
      if (c16_same_per_frame_multiset(expv,ne,obs,nobs,count)>=0){
         if (begins_pre && c16_same_per_frame_multiset(exp2,ne2,obs,nobs,count)<0){
            l_f9b++; if(C16_FAIL_LIMIT(nf9b_local,3)) mc_fail("carriage:range_begins_inside_packet","%s: out_range(%d,%d) of %d frames -> %s: the extensions of the frames taken from the packet the range begins inside are dropped; expected {%s} got {%s}; %s",what,b,e,N,mc_hex(big,r<80?r:80),c16_list_str(expv,ne<8?ne:8),c16_list_str(obs,nobs<8?nobs:8),seq_str(seq,m));
         } else FAIL("carriage:ext_mismatch","%s: out_range(%d,%d) of %d frames -> %s: expected {%s} got {%s}; %s",what,b,e,N,mc_hex(big,r<80?r:80),c16_list_str(expv,ne<8?ne:8),c16_list_str(obs,nobs<8?nobs:8),seq_str(seq,m));
         continue;
      }
      /* exact-size block: same result; one byte less: never claims more than given (ASan guards both) */
      { unsigned char *x=c16_blk(&OB,r);
        r2=opus_repacketizer_out_range(&RP,b,e,x,r); l_calls++;
        if (r2!=r||memcmp(x,big,r)){ FAIL("carriage:exact_size_differs","%s: out_range(%d,%d) needs %d bytes, exact-size buffer returned %d; %s",what,b,e,(int)r,(int)r2,seq_str(seq,m)); continue; }
        x=c16_blk(&OB,r-1);
        r2=opus_repacketizer_out_range(&RP,b,e,x,r-1); l_calls++;
        if (r2>r-1){ FAIL("carriage:claims_more_than_buffer","%s: out_range(%d,%d) maxlen %d returned %d; %s",what,b,e,(int)r-1,(int)r2,seq_str(seq,m)); continue; } }
      if (nobs>0){
         uint64_t h=mc_mix(count,nobs); unsigned ft; static uint64_t flt[1<<14]; uint64_t *fp;
         l_withext++;
         for(i=0;i<nobs;i++) h=mc_mix(h,((uint64_t)obs[i].id<<24)|((uint64_t)obs[i].frame<<16)|(uint64_t)obs[i].len);
         fp=&flt[(h>>9)&((1<<14)-1)]; if(*fp!=h){ *fp=h; mc_set_add(S_classes,h); }
         ft=1u<<((m>1)+2*(b>0)+4*(e<N)+8*(count>3));
         if (nobs>=2 && !(__atomic_load_n(feat_seen,__ATOMIC_RELAXED)&ft) && !(__atomic_fetch_or(feat_seen,ft,__ATOMIC_RELAXED)&ft))
            mc_sample("%s: %s ; out_range(%d,%d) of %d -> %d bytes %s : frames intact, extensions {%s} on the right frames; exact-size buffer identical",what,seq_str(seq,m),b,e,N,(int)r,mc_hex(big,r<60?r:60),c16_list_str(obs,nobs<8?nobs:8));
      }
   }
}

/* ------------------------------------------------------------------ injection through opus_packet_pad_impl */
static const xe_t INJ[4]={{3,1},{32,2},{34,250},{127,0}};
static unsigned char *INJP[2][4];
static void eval_inject(pkt_t *p){
   int per=4*p->nf,n,c0,c1,i;
   for(n=0;n<=2;n++) for(c0=0;c0<(n>=1?per:1);c0++) for(c1=0;c1<(n>=2?per:1);c1++){
      opus_extension_data add[2],expv[MAXX],obs[MAXX]; int ne=0,code[2]={c0,c1},tryk; opus_int32 r,nobs; rfc_pkt M; unsigned char *w; int pr,bad;
      for(i=0;i<n;i++){ int k=code[i]%4; add[i].id=INJ[k].id; add[i].len=INJ[k].len; add[i].frame=code[i]/4; add[i].data=INJP[i][k]; expv[ne++]=add[i]; }
      for(i=0;i<p->next;i++) expv[ne++]=p->ex[i];
      l_inject++; l_eval++;
      if (MC.only_item>=0) mc_case("pad_impl","inject {%s} into %s",c16_list_str(add,n),mc_hex(p->bytes,p->len<80?p->len:80));
      /* tryk: 0 big buffer pad=0; 1 exact pad=0; 2 one short pad=0; 3..5 pad=1 with 1,2,300 spare */
      r=0;
      for(tryk=0;tryk<6;tryk++){
         static const int SP[6]={0,0,-1,1,2,300}; opus_int32 newlen = tryk==0? p->len+900 : r+SP[tryk], ret; int pad = tryk>=3; opus_int32 size;
         if (tryk>0 && newlen<=p->len) continue;             /* pad_impl requires new_len > len to do anything */
         w=c16_blk(&OB,newlen); memcpy(w,p->bytes,p->len);
         ret=opus_packet_pad_impl(w,p->len,newlen,pad,add,n); l_calls++;
         if (tryk==2){ if(ret>newlen) FAIL("inject:claims_more_than_buffer","new_len %d returned %d",(int)newlen,(int)ret); continue; }
         if (ret<=0){ FAIL("inject:pad_impl_error","opus_packet_pad_impl(len %d,new_len %d,pad %d,{%s}) returned %d; packet %s",p->len,(int)newlen,pad,c16_list_str(add,n),(int)ret,mc_hex(p->bytes,p->len<80?p->len:80)); break; }
         if (tryk==0) r=ret;
         size=ret;
         if (tryk==1 && ret!=r){ FAIL("inject:exact_size_differs","exact new_len %d returned %d",(int)r,(int)ret); break; }
         if (pad && ret!=newlen){ FAIL("inject:pad_does_not_fill","pad=1 new_len %d returned %d; inject {%s} packet %s",(int)newlen,(int)ret,c16_list_str(add,n),mc_hex(p->bytes,p->len<80?p->len:80)); break; }
         rfc_parse(w,size,0,&M);
         bad=!M.ok||M.count!=p->nf;
         for(i=0;i<p->nf&&!bad;i++) if(M.size[i]!=p->fsz[i]||memcmp(w+M.off[i],p->bytes+p->off[i],M.size[i])) bad=1;
         if (bad){ FAIL("inject:frames_mismatch","pad_impl(new_len %d,pad %d,{%s}) -> %s; packet %s",(int)newlen,pad,c16_list_str(add,n),mc_hex(w,size<80?size:80),mc_hex(p->bytes,p->len<80?p->len:80)); break; }
         nobs=MAXX; pr=opus_packet_extensions_parse(w+M.pad_off,M.pad_len,obs,&nobs,p->nf); l_calls++;
         if (pr<0||c16_same_per_frame_multiset(expv,ne,obs,nobs,p->nf)>=0){
            FAIL("inject:ext_mismatch","pad_impl(new_len %d,pad %d) -> %s parse ret %d: expected {%s} got {%s}; packet %s",(int)newlen,pad,mc_hex(w,size<80?size:80),pr,c16_list_str(expv,ne<8?ne:8),pr>=0?c16_list_str(obs,nobs<8?nobs:8):"",mc_hex(p->bytes,p->len<80?p->len:80)); break; }
         if (nobs>0 && tryk==0){ uint64_t h=mc_mix(77,nobs); for(i=0;i<nobs;i++) h=mc_mix(h,((uint64_t)obs[i].id<<24)|((uint64_t)obs[i].frame<<16)|(uint64_t)obs[i].len); mc_set_add(S_classes,h); }
      }
   }
}

/* ------------------------------------------------------------------ alphabets and items */
static pkt_t **ALPHA[2]; static int NALPHA;      /* pair alphabet, per position */
static pkt_t **ALPHA3[3]; static int NALPHA3;    /* triple alphabet, per position */
static pkt_t *COMP[2][4];                        /* companions for raw paddings (position 0 and 1) */
static int NE, NE3, RAWL;
static const unsigned char AL[14]={0x00,0x01,0x02,0x03,0x04,0x05,0x06,0x07,0x40,0x41,0xFE,0xFF,0x42,0x09};

static int build_alpha(pkt_t ***out,int pos,const int *esel,int ne,int estyles,int count_only){
   int nf,n=0,ls,es,c; long tot;
   for(nf=1;nf<=3;nf++){ tot=1; for(c=0;c<nf;c++) tot*=ne;
      for(c=0;c<tot;c++) for(ls=0;ls<2;ls++) for(es=0;es<estyles;es++){
         int es2 = estyles==1? 1 : es;
         if (!count_only){ int eset[3],t=c,f; for(f=0;f<nf;f++){ eset[f]=esel[t%ne]; t/=ne; } (*out)[n]=mk_packet(pos,nf,eset,ls,es2); }
         n++;
      } }
   return n;
}

typedef struct { int grp; long a,b; } it_t;
static it_t *IT; static long NIT;
static void add_item(int grp,long a,long b){ static long cap; if(NIT>=cap){ cap=cap?cap*2:4096; IT=realloc(IT,cap*sizeof *IT); } IT[NIT].grp=grp; IT[NIT].a=a; IT[NIT].b=b; NIT++; }

static void item(long idx,void *ctx){
   it_t *t=&IT[idx]; pkt_t *seq[48]; int i; (void)ctx;
   switch(t->grp){
   case 0: /* pairs */
      mc_case("out_range","P: packet #%ld alone and followed by every alphabet packet, all ranges; first = %s",t->a,mc_hex(ALPHA[0][t->a]->bytes,ALPHA[0][t->a]->len<60?ALPHA[0][t->a]->len:60));
      seq[0]=ALPHA[0][t->a]; eval_seq(seq,1,"P(single)");
      for(i=0;i<NALPHA;i++){ seq[1]=ALPHA[1][i]; eval_seq(seq,2,"P(pair)"); }
      break;
   case 1: /* triples */
      mc_case("out_range","T: packets #%ld,#%ld followed by every reduced-alphabet packet, all ranges",t->a,t->b);
      seq[0]=ALPHA3[0][t->a]; seq[1]=ALPHA3[1][t->b];
      for(i=0;i<NALPHA3;i++){ seq[2]=ALPHA3[2][i]; eval_seq(seq,3,"T(triple)"); }
      break;
   case 2: { /* raw paddings: nf = a, first symbol = b (b<0: length-1 strings) */
      int nf=(int)t->a, L; unsigned char s[8];
      mc_case("out_range","R: %d-frame packets with every raw padding of length <=%d starting with symbol %ld",nf,RAWL,t->b);
      for(L=1;L<=RAWL;L++){
         int d[8],m=L-1,ls; if (t->b<0 && L>1) break; if (t->b>=0 && L==1) continue;
         for(i=0;i<m;i++){ d[i]=0; s[1+i]=AL[0]; }
         for(;;){
            for(ls=0;ls<2;ls++){
               int c,first,last;
               first = L==1?0:(int)t->b; last = L==1?13:(int)t->b;
               for(c=first;c<=last;c++){
                  pkt_t *p0,*p1; s[0]=AL[c];
                  p0=mk_raw_packet(0,nf,ls,s,L); p1=mk_raw_packet(1,nf,ls,s,L);
                  seq[0]=p0; eval_seq(seq,1,"R(raw single)");
                  for(i=0;i<4;i++){ seq[0]=p0; seq[1]=COMP[1][i]; eval_seq(seq,2,"R(raw,companion)"); seq[0]=COMP[0][i]; seq[1]=p1; eval_seq(seq,2,"R(companion,raw)"); }
                  seq[0]=p0; seq[1]=p1; eval_seq(seq,2,"R(raw,raw)");
                  free_packet(p0); free_packet(p1);
               }
            }
            for(i=m-1;i>=0;i--){ if(++d[i]<14){ s[1+i]=AL[d[i]]; break; } d[i]=0; s[1+i]=AL[0]; }
            if (i<0) break;
         }
      }
      break; }
   case 3: { /* long chains: a = frames per packet, b = pattern*2+estyle */
      int nfp=(int)t->a, m=48/nfp, pat=(int)(t->b>>1), es=(int)(t->b&1), k,f;
      mc_case("out_range","L: 48 frames as %d packets of %d, pattern %d, encoder %d, all 1176 ranges",m,nfp,pat,es);
      for(k=0;k<m;k++){
         /* build packet k directly (extension sets by global frame) */
         pkt_t *p=calloc(1,sizeof *p); unsigned char pad[4096]; int padlen=0;
         p->nf=nfp; p->ext_valid=1;
         for(f=0;f<nfp;f++){ int g=k*nfp+f, id=0,len=0;
            if (pat==0){ id=5; len=1; } else if (pat==1){ if(g%3==1){ id=32; len=2; } else if(g%3==2){ id=3; len=0; } } else { if (f==nfp-1){ id=32; len=2; } }
            if (id){ opus_extension_data *e=&p->ex[p->next++]; unsigned char *d=malloc(2); d[0]=(unsigned char)(g+1); d[1]=(unsigned char)(0xA0+g); e->id=id; e->frame=f; e->len=len; e->data=d; } }
         if (p->next){ if(es==0) padlen=plain_write(pad,p->ex,p->next,nfp); else padlen=opus_packet_extensions_generate(pad,sizeof pad,p->ex,p->next,nfp,0); if(padlen<0){ fprintf(stderr,"generate failed (chain)\n"); exit(2);} }
         finish_packet(p,k%16,0,pad,padlen);
         /* make frames distinct per packet beyond pos%16: patch the third byte of each frame */
         for(f=0;f<nfp;f++) p->bytes[p->off[f]+2]=(unsigned char)(k*nfp+f);
         seq[k]=p;
      }
      eval_seq(seq,m,"L(chain to 48 frames)");
      for(k=0;k<m;k++) free_packet(seq[k]);
      break; }
   case 4: /* injection */
      mc_case("pad_impl","I: inject every list of <=2 extra extensions into packet #%ld",t->a);
      eval_inject(ALPHA[0][t->a]);
      break;
   }
   flush_ctrs();
}

int main(int argc,char **argv){
   static const int E8[8]={0,1,2,3,4,5,6,7}, E3[4]={0,2,3,4}; int i,j; long a,b;
   static const int NFP[10]={1,2,3,4,6,8,12,16,24,48};
   mc_init(argc,argv,"C16","carriage");
   NE=(int)mc_arg("--eset",MC.tier?8:6); NE3=(int)mc_arg("--eset3",MC.tier?4:3); RAWL=(int)mc_arg("--rawlen",MC.tier?4:3);
   c_eval=mc_counter("evaluations"); c_calls=mc_counter("api_calls"); c_seq=mc_counter("sequences"); c_f9a=mc_counter("f9_range_ends_inside_cases"); c_f9b=mc_counter("f9_range_begins_inside_cases");
   c_unconstrained=mc_counter("ranges_with_malformed_source_padding"); c_withext=mc_counter("outputs_carrying_extensions"); c_inject=mc_counter("injections"); c_maxframes=mc_counter("max_frames_in_repacketizer");
   S_classes=mc_set_new(22); feat_seen=mc_shared(64);
   c16_blocks_init(&OB,OUTBIG+1200); big=malloc(OUTBIG);
   for(i=0;i<2;i++) for(j=0;j<4;j++){ int k; INJP[i][j]=malloc(INJ[j].len?INJ[j].len:1); for(k=0;k<INJ[j].len;k++) INJP[i][j][k]=(unsigned char)(0xD0+i*16+j*3+k); }
   NALPHA=build_alpha(NULL,0,E8,NE,2,1);
   for(i=0;i<2;i++){ ALPHA[i]=calloc(NALPHA,sizeof(pkt_t*)); build_alpha(&ALPHA[i],i,E8,NE,2,0); }
   NALPHA3=build_alpha(NULL,0,E3,NE3,1,1);
   for(i=0;i<3;i++){ ALPHA3[i]=calloc(NALPHA3,sizeof(pkt_t*)); build_alpha(&ALPHA3[i],i,E3,NE3,1,0); }
   for(i=0;i<2;i++){ static const int c0[1]={0}, c1[2]={3,2}, c2[3]={5,0,1}, c3[2]={0,4};
      COMP[i][0]=mk_packet(i?3:2,1,c0,0,1); COMP[i][1]=mk_packet(i?3:2,2,c1,1,1); COMP[i][2]=mk_packet(i?3:2,3,c2,0,0); COMP[i][3]=mk_packet(i?3:2,2,c3,0,1); }
   for(a=0;a<NALPHA;a++) add_item(0,a,0);
   for(a=0;a<NALPHA3;a++) for(b=0;b<NALPHA3;b++) add_item(1,a,b);
   for(a=1;a<=3;a++){ add_item(2,a,-1); if(RAWL>=2) for(b=0;b<14;b++) add_item(2,a,b); }
   for(a=0;a<10;a++) for(b=0;b<6;b++) add_item(3,NFP[a],b);
   for(a=0;a<NALPHA;a++) add_item(4,a,0);
   mc_par(NIT,item,NULL);
   { mc_ctr *st=mc_counter("states"),*tr=mc_counter("transitions"),*dn=mc_counter("distinct_nontrivial");
     *st=*c_seq; *tr=*c_calls; *dn=mc_set_count(S_classes); }
   return mc_finish();
}
