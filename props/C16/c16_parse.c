/* C16 part "parse" — parser-first: explicit-state exploration of the OpusExtensionIterator machine.
 *
 * Space (E1/E3): every byte string of length 0..MAXL (7 quick / 8 thorough) over the 14-symbol alphabet
 *    00 01 | 02 03 | 04 05 | 06 07 09 | 40 41 42 | FE FF
 *    (padding L0/L1, separator L0/L1, repeat L0/L1, short ids 3 (L0,L1) and 4 (L1), long ids 32 (L0,L1), 33 (L0), 127 (L0,L1);
 *     every symbol also occurs in "length"/"increment"/"payload" position: 00..09 are lengths 0..9 and frame increments,
 *     FF is the 255 lacing value)
 * x nb_frames in {1,2,3}.  Each string lives in a heap block of exactly its length (ASan redzones abut).
 * For each string the real iterator is run and every visited iterator state (struct with pointers turned into offsets)
 * is hashed into a shared visited set: `states` = distinct iterator states, `transitions` = distinct (state,ret,state') edges,
 * `iter_steps` = opus_extension_iterator_next calls.
 *
 * Oracles (statement C16, second sentence): no read outside the buffer (ASan); every reported extension lies inside the
 * buffer, belongs to a frame < nb_frames, has id 3..127 and (short id) 0-1 bytes; parse, count, count_ext, parse_ext,
 * a manual iterator loop, iterator_reset and iterator_find agree with each other; set_frame_max(fm) called at any point
 * only removes the later-frame items; parse -> generate -> parse is a fixed point (same extensions per frame, same per-frame
 * order, identical payloads), generate's dry-run size equals the written size, an exact-size buffer suffices, size-1 is refused.
 */
#include "c16_common.h"

static const unsigned char AL[14]={0x00,0x01,0x02,0x03,0x04,0x05,0x06,0x07,0x40,0x41,0xFE,0xFF,0x42,0x09};
#define NA 14
#define PFX 3
#define MAXE 96

static int MAXL, do_fmax_all;
static c16_blocks IN, GEN;
static mc_set *S_states,*S_edges,*S_classes;
static mc_ctr *c_eval,*c_steps,*c_ok,*c_inval,*c_fp,*c_fmax,*c_maxn,*c_withrep;
static unsigned *feat_seen;
static opus_extension_data *exarr[MAXE+1];   /* exarr[k]: heap array of exactly k entries */

/* per-worker filters in front of the shared sets */
#define FLT (1<<16)
static uint64_t flt_s[FLT], flt_e[FLT];
static inline void see_state(uint64_t h){ uint64_t *p=&flt_s[h&(FLT-1)]; if(*p!=h){ *p=h; mc_set_add(S_states,h); } }
static inline void see_edge(uint64_t h){ uint64_t *p=&flt_e[(h>>7)&(FLT-1)]; if(*p!=h){ *p=h; mc_set_add(S_edges,h); } }

static int nfail_local;
static long l_eval,l_steps,l_ok,l_inval,l_fp,l_fmax,l_withrep,l_maxn;
static void flush_ctrs(void){ MC_ADD(c_eval,l_eval); MC_ADD(c_steps,l_steps); MC_ADD(c_ok,l_ok); MC_ADD(c_inval,l_inval); MC_ADD(c_fp,l_fp); MC_ADD(c_fmax,l_fmax); MC_ADD(c_withrep,l_withrep); MC_MAX(c_maxn,l_maxn); l_eval=l_steps=l_ok=l_inval=l_fp=l_fmax=l_withrep=0; }
#define FAIL(sig,...) do{ if(C16_FAIL_LIMIT(nfail_local,50)) mc_fail(sig,__VA_ARGS__); }while(0)

static void check_string(const unsigned char *s,int L,int nbf){
   unsigned char *b=c16_blk(&IN,L);
   OpusExtensionIterator it; opus_extension_data full[MAXE], e; int n=0,r,rfull,i,f,k;
   opus_int32 fe[48], cap; int pr;
   uint64_t h0,h1;
   memcpy(b,s,L);
   if (MC.only_item>=0) mc_case_bytes("parse",b,L,nbf,0,0);
   l_eval++;
   /* 1. manual iteration, recording the machine's states */
   opus_extension_iterator_init(&it,b,L,nbf);
   h0=c16_iter_hash(&it); see_state(h0);
   for(;;){
      r=opus_extension_iterator_next(&it,&e);
      h1=c16_iter_hash(&it); see_state(h1); see_edge(mc_mix(mc_mix(h0,h1),(uint64_t)(r+8))); h0=h1; l_steps++;
      if (r<=0) break;
      if (r!=1){ FAIL("iter:return_value","next returned %d; nbf=%d bytes=%s",r,nbf,mc_hex(b,L)); return; }
      { int bad=c16_ext_bad(&e,b,L,nbf);
        if (bad){ char sg[48]; snprintf(sg,sizeof sg,"iter:reported_ext_illegal:clause%d",bad);
           FAIL(sg,"nbf=%d bytes=%s ext#%d id=%d frame=%d off=%ld len=%d",nbf,mc_hex(b,L),n,e.id,e.frame,(long)(e.data-b),(int)e.len); return; } }
      if (n>=MAXE){ FAIL("harness:too_many_extensions","nbf=%d bytes=%s",nbf,mc_hex(b,L)); return; }
      full[n++]=e;
   }
   rfull=r;
   if (rfull!=0 && rfull!=OPUS_INVALID_PACKET){ FAIL("iter:error_code","next ended with %d; nbf=%d bytes=%s",rfull,nbf,mc_hex(b,L)); return; }
   if(n>l_maxn) l_maxn=n;
   /* 2. parse == manual loop (exact-capacity output array) */
   cap=n; pr=opus_packet_extensions_parse(b,L,exarr[n],&cap,nbf);
   if (pr!=rfull || (pr>=0 && cap!=n)){ FAIL("agree:parse_vs_iterator","parse ret=%d n=%d, iterator ret=%d n=%d; nbf=%d bytes=%s",pr,(int)cap,rfull,n,nbf,mc_hex(b,L)); return; }
   if (pr>=0) for(i=0;i<n;i++) if (exarr[n][i].id!=full[i].id||exarr[n][i].frame!=full[i].frame||exarr[n][i].data!=full[i].data||exarr[n][i].len!=full[i].len){
      FAIL("agree:parse_vs_iterator","entry %d differs; nbf=%d bytes=%s",i,nbf,mc_hex(b,L)); return; }
   if (n>=1){ /* one entry too few: refused, nothing written past the array (ASan) */
      cap=n-1; r=opus_packet_extensions_parse(b,L,exarr[n-1],&cap,nbf);
      if (r>=0){ FAIL("agree:parse_small_array_accepted","capacity %d of %d returned %d; nbf=%d bytes=%s",n-1,n,r,nbf,mc_hex(b,L)); return; }
   }
   /* 3. count, count_ext */
   r=opus_packet_extensions_count(b,L,nbf);
   if (r!=n){ FAIL("agree:count","count=%d iterator=%d; nbf=%d bytes=%s",r,n,nbf,mc_hex(b,L)); return; }
   for(f=0;f<48;f++) fe[f]=-77;
   r=opus_packet_extensions_count_ext(b,L,fe,nbf);
   { int sum=0,bad=(r!=n); for(f=0;f<nbf;f++){ int c=0; for(i=0;i<n;i++) c+=full[i].frame==f; if(fe[f]!=c) bad=1; sum+=fe[f]; } if(sum!=n) bad=1; for(f=nbf;f<48;f++) if(fe[f]!=-77) bad=1;
     if (bad){ FAIL("agree:count_ext","count_ext=%d [%d,%d,%d] iterator=%d; nbf=%d bytes=%s",r,(int)fe[0],(int)fe[1],(int)fe[2],n,nbf,mc_hex(b,L)); return; } }
   /* 4. parse_ext: frame order, stable */
   cap=n; r=opus_packet_extensions_parse_ext(b,L,exarr[n],&cap,fe,nbf);
   if (r!=rfull || (r>=0&&cap!=n)){ FAIL("agree:parse_ext","parse_ext ret=%d n=%d vs %d/%d; nbf=%d bytes=%s",r,(int)cap,rfull,n,nbf,mc_hex(b,L)); return; }
   if (r>=0){ int o=0; for(f=0;f<nbf;f++) for(i=0;i<n;i++) if(full[i].frame==f){ opus_extension_data *x=&exarr[n][o++];
         if (x->id!=full[i].id||x->frame!=f||x->data!=full[i].data||x->len!=full[i].len){ FAIL("agree:parse_ext","frame-ordered entry %d differs; nbf=%d bytes=%s",o-1,nbf,mc_hex(b,L)); return; } } }
   /* 5. reset: iterating again gives the same sequence */
   opus_extension_iterator_reset(&it);
   for(i=0;;i++){
      r=opus_extension_iterator_next(&it,&e); l_steps++;
      if (r<=0) break;
      if (i>=n||e.id!=full[i].id||e.frame!=full[i].frame||e.data!=full[i].data||e.len!=full[i].len){ FAIL("agree:reset","after reset item %d differs; nbf=%d bytes=%s",i,nbf,mc_hex(b,L)); return; }
   }
   if (i!=n||r!=rfull){ FAIL("agree:reset","after reset %d items ret %d vs %d/%d; nbf=%d bytes=%s",i,r,n,rfull,nbf,mc_hex(b,L)); return; }
   /* 6. find: first extension with that id in bitstream order; an absent id gives the end-of-iteration code */
   { int seen[128]; int nid=0,ids[MAXE+1]; memset(seen,0,sizeof seen);
     for(i=0;i<n;i++) if(!seen[full[i].id]){ seen[full[i].id]=1; ids[nid++]=full[i].id; }
     ids[nid++]=100;
     for(k=0;k<nid;k++){
        int want=-1; for(i=0;i<n;i++) if(full[i].id==ids[k]){ want=i; break; }
        opus_extension_iterator_init(&it,b,L,nbf);
        r=opus_extension_iterator_find(&it,&e,ids[k]);
        if (want>=0 ? (r!=1||e.id!=full[want].id||e.frame!=full[want].frame||e.data!=full[want].data||e.len!=full[want].len) : (r!=rfull)){
           FAIL("agree:find","find(id %d) ret=%d, expected %s; nbf=%d bytes=%s",ids[k],r,want>=0?"the first such extension":"end code",nbf,mc_hex(b,L)); return; }
     } }
   /* 7. set_frame_max at any point only removes later-frame items */
   for(f=0;f<nbf;f++){
      int kmax = do_fmax_all? n : (n<2?n:2);
      for(k=0;k<=kmax;k++){
         int j=k, got=0;
         opus_extension_iterator_init(&it,b,L,nbf);
         for(i=0;i<k;i++){ r=opus_extension_iterator_next(&it,&e); if(r!=1||e.data!=full[i].data||e.frame!=full[i].frame){ FAIL("fmax:prefix","nbf=%d bytes=%s",nbf,mc_hex(b,L)); return; } }
         opus_extension_iterator_set_frame_max(&it,f);
         l_fmax++;
         for(;;){
            r=opus_extension_iterator_next(&it,&e); l_steps++;
            if (r<=0) break;
            while(j<n && full[j].frame>=f) j++;
            if (j>=n || e.id!=full[j].id||e.frame!=full[j].frame||e.data!=full[j].data||e.len!=full[j].len){
               FAIL("fmax:not_a_filter","frame_max=%d set after %d items: item %d is not the next extension of a frame < %d; nbf=%d bytes=%s",f,k,got,f,nbf,mc_hex(b,L)); return; }
            j++; got++;
         }
         if (rfull==0){ /* valid string: exactly the filtered sequence, and no error */
            while(j<n && full[j].frame>=f) j++;
            if (j<n || r!=0){ FAIL("fmax:not_a_filter","frame_max=%d set after %d items: ended with ret=%d after %d items, an extension of an earlier frame is missing; nbf=%d bytes=%s",f,k,r,got,nbf,mc_hex(b,L)); return; }
         }
      }
   }
   if (rfull<0){ l_inval++; if(!(__atomic_load_n(feat_seen,__ATOMIC_RELAXED)&1u) && !(__atomic_fetch_or(feat_seen,1u<<0,__ATOMIC_RELAXED)&1u)) mc_sample("nb_frames=%d bytes=%s -> INVALID after %d extension(s) {%s}; parse/count/count_ext/parse_ext/reset/find/frame_max agree",nbf,mc_hex(b,L),n,c16_list_str(full,n)); return; }
   l_ok++;
   /* 8. parse -> generate -> parse fixed point */
   {
      opus_int32 dry=opus_packet_extensions_generate(NULL,1<<20,full,n,nbf,0), w, n3; unsigned char *g; int d;
      if (dry<0){ FAIL("fixedpoint:generate_refuses_parsed_list","generate(NULL)=%d for the list parsed from nbf=%d bytes=%s : %s",(int)dry,nbf,mc_hex(b,L),c16_list_str(full,n)); return; }
      g=c16_blk(&GEN,dry);
      w=opus_packet_extensions_generate(g,dry,full,n,nbf,0);
      if (w!=dry){ FAIL("fixedpoint:dry_run_size_differs","dry=%d written=%d; nbf=%d bytes=%s",(int)dry,(int)w,nbf,mc_hex(b,L)); return; }
      n3=n; r=opus_packet_extensions_parse(g,dry,exarr[n],&n3,nbf);
      if (r<0||n3!=n||(d=c16_same_per_frame(full,n,exarr[n],n3,nbf))>=0){
         FAIL("fixedpoint:reparse_differs","nbf=%d bytes=%s parsed {%s} regenerated %s reparsed ret=%d {%s}",nbf,mc_hex(b,L),c16_list_str(full,n),mc_hex(g,dry),r,r>=0?c16_list_str(exarr[n],n3):""); return; }
      for(i=0;i<n3;i++){ int bad=c16_ext_bad(&exarr[n][i],g,dry,nbf); if(bad){ FAIL("fixedpoint:reparse_outside","nbf=%d bytes=%s regenerated %s entry %d clause %d",nbf,mc_hex(b,L),mc_hex(g,dry),i,bad); return; } }
      if (dry>0){
         unsigned char *g1=c16_blk(&GEN,dry-1);
         w=opus_packet_extensions_generate(g1,dry-1,full,n,nbf,0);
         if (w!=OPUS_BUFFER_TOO_SMALL){ FAIL("fixedpoint:smaller_buffer_not_refused","len=%d (needs %d) returned %d; list {%s} nbf=%d",(int)dry-1,(int)dry,(int)w,c16_list_str(full,n),nbf); return; }
      }
      l_fp++;
   }
   /* observation classes (non-trivial = a successful parse reporting at least one extension) */
   if (n>0){
      uint64_t h=mc_mix(nbf,n); int rep=0,l0=0,sep=0; unsigned ft;
      for(i=0;i<n;i++) h=mc_mix(h,((uint64_t)full[i].id<<16)|((uint64_t)full[i].frame<<8)|(uint64_t)full[i].len);
      { static uint64_t flt_c[FLT]; uint64_t *p=&flt_c[(h>>9)&(FLT-1)]; if(*p!=h){ *p=h; mc_set_add(S_classes,h); } }
      for(i=0;i<L;i++){ if((b[i]>>1)==2) rep=1; }
      for(i=0;i<n;i++){ if(full[i].id>=32&&full[i].len>0&&full[i].data+full[i].len==b+L) l0=1; if(full[i].frame>0) sep=1; }
      if (rep && n>L/2) l_withrep++;
      ft=1u<<(1+(rep&&n>=3)+2*l0+4*sep);
      if (n>=2 && !(__atomic_load_n(feat_seen,__ATOMIC_RELAXED)&ft) && !(__atomic_fetch_or(feat_seen,ft,__ATOMIC_RELAXED)&ft))
         mc_sample("nb_frames=%d bytes=%s -> %d extension(s) {%s}; regenerated and reparsed identically per frame",nbf,mc_hex(b,L),n,c16_list_str(full,n));
   }
}

static long NPFX;
static void item1(long it,void *ctx);
static void item(long it,void *ctx){ item1(it,ctx); flush_ctrs(); }
static void item1(long it,void *ctx){
   int nbf=(int)(it/(NPFX+1))+1; long idx=it%(NPFX+1); unsigned char s[16]; int L,i;
   (void)ctx;
   if (idx==0){
      mc_case("parse","nb_frames=%d, all strings of length 0..%d",nbf,PFX-1);
      for(L=0;L<PFX&&L<=MAXL;L++){ long c,tot=1; for(i=0;i<L;i++) tot*=NA; for(c=0;c<tot;c++){ long t=c; for(i=0;i<L;i++){ s[i]=AL[t%NA]; t/=NA; } check_string(s,L,nbf); } }
      return;
   }
   { long t=idx-1; for(i=0;i<PFX;i++){ s[i]=AL[t%NA]; t/=NA; } }
   mc_case("parse","nb_frames=%d, all strings of length %d..%d with prefix %02x %02x %02x over the 14-symbol alphabet",nbf,PFX,MAXL,s[0],s[1],s[2]);
   for(L=PFX;L<=MAXL;L++){
      int d[16]; int m=L-PFX;
      for(i=0;i<m;i++){ d[i]=0; s[PFX+i]=AL[0]; }
      for(;;){
         check_string(s,L,nbf);
         for(i=m-1;i>=0;i--){ if(++d[i]<NA){ s[PFX+i]=AL[d[i]]; break; } d[i]=0; s[PFX+i]=AL[0]; }
         if (i<0) break;
      }
   }
}

int main(int argc,char **argv){
   int i; long nitems;
   mc_init(argc,argv,"C16","parse");
   MAXL=(int)mc_arg("--maxlen",MC.tier?8:7); do_fmax_all=(int)mc_arg("--fmaxall",1);
   if (MAXL>12) MAXL=12;
   c_eval=mc_counter("evaluations"); c_steps=mc_counter("iter_steps"); c_ok=mc_counter("strings_parsed_ok"); c_inval=mc_counter("strings_invalid");
   c_fp=mc_counter("fixed_points_checked"); c_fmax=mc_counter("frame_max_runs"); c_maxn=mc_counter("max_extensions_in_one_string"); c_withrep=mc_counter("strings_using_repeat");
   S_states=mc_set_new(24); S_edges=mc_set_new(25); S_classes=mc_set_new(26);
   feat_seen=mc_shared(64);
   c16_blocks_init(&IN,16); c16_blocks_init(&GEN,4096);
   for(i=0;i<=16;i++) c16_blk(&IN,i);
   for(i=0;i<=MAXE;i++){ exarr[i]=malloc(i?i*sizeof(opus_extension_data):1); }
   NPFX=1; for(i=0;i<PFX;i++) NPFX*=NA;
   nitems=3*(NPFX+1);
   mc_par(nitems,item,NULL);
   { mc_ctr *st=mc_counter("states"),*tr=mc_counter("transitions"),*dn=mc_counter("distinct_nontrivial");
     *st=mc_set_count(S_states); *tr=mc_set_count(S_edges); *dn=mc_set_count(S_classes); }
   return mc_finish();
}
