/* c16_common.h — helpers shared by the three C16 harness parts (generator-first, parser-first, repacketizer carriage).
 * Everything here is harness-side: the oracles are restatements of the C16 property text, never of extensions.c.
 */
#ifndef C16_COMMON_H
#define C16_COMMON_H
#include <stdlib.h>
#include <string.h>
#include "opus.h"
#include "opus_private.h"   /* internal extension API + OpusExtensionIterator + OpusRepacketizer */
#include "mc.h"

#ifndef OPUS_BUFFER_TOO_SMALL
# error
#endif

/* exact-size heap blocks, one per size: blk(N) has exactly N usable bytes (malloc(N) under ASan -> redzones abut). */
typedef struct { unsigned char **b; int n; } c16_blocks;
static void c16_blocks_init(c16_blocks *k,int maxn){ k->b=calloc(maxn+1,sizeof *k->b); k->n=maxn; }
static unsigned char *c16_blk(c16_blocks *k,int n){
   if (n<0||n>k->n){ fprintf(stderr,"c16_blk: size %d out of range %d\n",n,k->n); exit(2); }
   if (!k->b[n]){ k->b[n]=malloc(n?n:1); if(!k->b[n]){fprintf(stderr,"oom\n");exit(2);} memset(k->b[n],0xA5,n); }
   return k->b[n];
}

/* canonical image of an iterator: every pointer turned into an offset from iter->data (-1 for NULL) */
typedef struct { opus_int32 curr,rep,last,src,len,curr_len,repeat_len,src_len,tsl; int nbf,fmax,cf,rf,rl; } c16_canon;
static uint64_t c16_iter_hash(const OpusExtensionIterator *it){
   c16_canon c; memset(&c,0,sizeof c);
   c.curr=(opus_int32)(it->curr_data-it->data); c.rep=(opus_int32)(it->repeat_data-it->data);
   c.last=it->last_long?(opus_int32)(it->last_long-it->data):-1; c.src=it->src_data?(opus_int32)(it->src_data-it->data):-1;
   c.len=it->len; c.curr_len=it->curr_len; c.repeat_len=it->repeat_len; c.src_len=it->src_len; c.tsl=it->trailing_short_len;
   c.nbf=it->nb_frames; c.fmax=it->frame_max; c.cf=it->curr_frame; c.rf=it->repeat_frame; c.rl=it->repeat_l;
   return mc_hash(&c,sizeof c,16);
}

/* is the reported extension one the statement allows a parser to report for (buf,len,nb_frames)? 0 = fine, else clause number */
static int c16_ext_bad(const opus_extension_data *e,const unsigned char *buf,opus_int32 len,int nbf){
   if (e->frame<0||e->frame>=nbf) return 1;                 /* belongs to a non-existent frame */
   if (e->len<0) return 2;
   if (e->len>0 && (e->data<buf || e->data+e->len>buf+len)) return 3;   /* lies outside the buffer */
   if (e->len==0 && e->data!=NULL && (e->data<buf || e->data>buf+len)) return 3;
   if (e->id<3||e->id>127) return 4;                        /* not an extension id */
   if (e->id<32 && e->len>1) return 5;                      /* short ids carry 0-1 bytes */
   return 0;
}

static int c16_ext_same(const opus_extension_data *a,const opus_extension_data *b){
   return a->id==b->id && a->len==b->len && (a->len==0 || !memcmp(a->data,b->data,a->len));
}
/* per frame: same extensions, same per-frame order, identical payloads.  returns -1 if equal, else the first differing frame */
static int c16_same_per_frame(const opus_extension_data *a,int na,const opus_extension_data *b,int nb,int nbf){
   int f;
   if (na!=nb) return nbf;
   for(f=0;f<nbf;f++){
      int ia=0,ib=0;
      for(;;){
         while(ia<na&&a[ia].frame!=f) ia++;
         while(ib<nb&&b[ib].frame!=f) ib++;
         if (ia>=na||ib>=nb){ if((ia<na)!=(ib<nb)) return f; break; }
         if (!c16_ext_same(&a[ia],&b[ib])) return f;
         ia++; ib++;
      }
   }
   return -1;
}
/* per frame, order ignored (repacketizer carriage: the statement asks for the right frame and intact payload only) */
static int c16_same_per_frame_multiset(const opus_extension_data *a,int na,const opus_extension_data *b,int nb,int nbf){
   int f,i,j; unsigned char used[512];
   if (na!=nb) return nbf;
   if (nb>512) return c16_same_per_frame(a,na,b,nb,nbf);
   memset(used,0,nb);
   for(i=0;i<na;i++){
      for(j=0;j<nb;j++) if(!used[j]&&b[j].frame==a[i].frame&&c16_ext_same(&a[i],&b[j])){ used[j]=1; break; }
      if (j==nb) return a[i].frame;
   }
   (void)f;
   return -1;
}

static const char *c16_list_str(const opus_extension_data *e,int n){
   static char ring[4][1500]; static int r; char *o=ring[r=(r+1)&3]; int i,k=0;
   o[0]=0;
   for(i=0;i<n&&k<1400;i++){
      int j; k+=snprintf(o+k,1500-k,"%s[id%d f%d len%d",i?" ":"",e[i].id,e[i].frame,(int)e[i].len);
      if (e[i].len>0&&e[i].data){ k+=snprintf(o+k,1500-k,":"); for(j=0;j<e[i].len&&j<6&&k<1400;j++) k+=snprintf(o+k,1500-k,"%02x",e[i].data[j]); if(e[i].len>6) k+=snprintf(o+k,1500-k,".."); }
      k+=snprintf(o+k,1500-k,"]");
   }
   if (i<n) snprintf(o+k,1500-k," ...(%d more)",n-i);
   return o;
}

/* a per-process limiter so that a defect hit millions of times does not format millions of messages:
   the runtime itself writes out only the first three per signature, all later ones only count. */
#define C16_FAIL_LIMIT(ctr,maxn) ((ctr)++ < (maxn))

#endif
