/* c05_cvbr_tol.h - GENERATED from the calibration run recorded in CALIBRATION.txt (history section): for every measured configuration (row,
   order of HS_WIN) and window signal {white-noise, speech-like, log-sweep, dense-chord, clicks} the tolerance in ppm on top of (B*T/8 + 1)
   = max(1 %, 2 x worst excess measured on the unchanged tree over all 15840 history runs), rounded up to 0.1 %. */
static const long HS_TOL_PPM[12][5]={
   { 10000, 10000, 89000, 10000, 10000},   /* SILK natural 12k/20ms    worst mean/budget: 0.8839 0.8408 1.0442 0.8117 0.6397 */
   { 10000, 10000, 10000, 10000, 10000},   /* SILK natural 16k/60ms    worst mean/budget: 0.8876 0.8848 0.9847 0.9362 0.8073 */
   { 10000, 10000, 94000, 10000, 10000},   /* SILK forced 16k/20ms     worst mean/budget: 0.8902 0.9128 1.0468 0.9278 0.7892 */
   { 10000, 10000, 26000, 10000, 10000},   /* SILK forced 24k/40ms     worst mean/budget: 0.8754 0.8838 1.0126 0.9468 0.8313 */
   { 10000, 10000, 88000, 10000, 10000},   /* hybrid natural 28k/20ms  worst mean/budget: 0.8798 0.9336 1.0440 0.9510 0.8008 */
   { 10000, 10000, 94000,175000, 10000},   /* hybrid natural 32k/10ms  worst mean/budget: 0.8589 0.9352 1.0468 1.0875 0.8664 */
   { 10000, 10000, 81000, 10000, 10000},   /* hybrid forced 32k/20ms   worst mean/budget: 0.8830 0.9408 1.0403 0.9404 0.7335 */
   { 10000, 10000, 78000, 10000, 10000},   /* hybrid forced 48k/10ms   worst mean/budget: 0.8965 0.9469 1.0390 0.9848 0.7411 */
   { 10000, 10000, 10000, 10000, 10000},   /* CELT natural 64k/20ms    worst mean/budget: 1.0011 0.9716 1.0030 1.0029 1.0028 */
   { 10000, 10000, 10000, 10000, 10000},   /* CELT natural 32k/10ms    worst mean/budget: 1.0014 0.9614 1.0021 1.0023 1.0020 */
   { 10000, 10000, 10000, 10000, 10000},   /* CELT forced 48k/20ms     worst mean/budget: 1.0012 0.9719 1.0033 1.0031 1.0029 */
   { 10000, 10000, 10000, 10000, 10000},   /* CELT forced 96k/5ms      worst mean/budget: 1.0001 0.9559 1.0005 1.0005 1.0005 */
};
